(* C11, second half: every file built by the independent encoder of spec/Encode.v - format v1
   or v2, any legal restart positions, amount of prefix sharing, separator keys, cut into
   blocks, compression algorithm and leading foreign bytes - is opened by the reader model,
   passes the executable legality check table_check, and decodes to exactly the encoded
   entries; with legal_tables: iterating / looking up in the reader model over the
   encoded file returns the encoded entries.

   Tier 1  encode_block_decodes   a block encoded with any legal restart / sharing choices is decoded
                                  by block_init and by parse_block to exactly its entries, the chosen
                                  sharing (decoded_sharing) and the chosen restart points
                                  (decoded_restarts); ridx_of and wfb_check accept it.
   Tier 2  encoded_table_check    layout_ok = true, decompress inverts compress on the table's blocks,
                                  entry list not empty: encode_table succeeds, reader_open (verify on or
                                  off) returns a reader, table_check returns the chosen blocks, and the
                                  entry list of the checked table is the encoded one.
           encoded_empty_table    the table without entries.
   Tier 3  encoded_read_all       read_all (open + iterate) over the encoded file returns the entries;
           encoded_table_correct  iteration and get / get_prefix / get_range;
           encoded_table_histories  next / seek histories;   encoded_empty_correct.
   Also    encoded_file_wf        the encoded file consists of bytes (< 256).
   Limits (hypotheses of layout_ok): raw blocks below 4 GiB (32-bit restart arrays), file below
   2^64 bytes, key / value lengths below 2^32, canonical varints. *)
From Coq Require Import NArith ZArith Arith List Lia ZifyBool ZifyN ZifyNat.
From Mtbl Require Import gen.Consts model.Bytes model.Codec model.Order model.Crc model.Block model.Writer
  spec.Leb128 spec.Parse model.Reader spec.TableCheck
  proofs.BytesLemmas proofs.CodecProofs proofs.OrderProofs proofs.WriterProofs proofs.CrcProofs
  proofs.BlockProofs proofs.LookupProofs proofs.ReaderProofs proofs.CheckProofs proofs.BlockRT
  proofs.VerifyProofs proofs.TableRT proofs.LegalTables.
From Mtbl Require Import spec.Encode.
Local Open Scope N_scope.
Ltac Zify.zify_post_hook ::= Z.div_mod_to_equations.
Ltac splits := repeat match goal with |- _ /\ _ => split end.

(* ---- generic list facts -------------------------------------------------------------------- *)
Lemma nth_map_S (l : list nat) i : (i < length l)%nat -> nth i (map S l) 0%nat = S (nth i l 0%nat).
Proof. intros H. rewrite (nth_indep _ 0%nat (S 0)) by (rewrite map_length; exact H). apply map_nth. Qed.

Lemma chain_chainb {A} (rb : A -> A -> bool) l : chain rb l = chainb rb l.
Proof.
  induction l as [|a l IH]; [reflexivity|]. destruct l as [|b l]; [reflexivity|].
  change (chain rb (a :: b :: l)) with (rb a b && chain rb (b :: l)).
  change (chainb rb (a :: b :: l)) with (rb a b && chainb rb (b :: l)). rewrite IH. reflexivity.
Qed.

(* the converse of chain_pairs *)
Lemma pairs_chain {A} (rb : A -> A -> bool) (d : A) : forall l,
  (forall i, (S i < length l)%nat -> rb (nth i l d) (nth (S i) l d) = true) -> chainb rb l = true.
Proof.
  induction l as [|a l IH]; intros H; [reflexivity|]. destruct l as [|b l]; [reflexivity|].
  cbn [chainb]. apply andb_true_intro. split.
  - apply (H 0%nat). cbn [length]. lia.
  - apply IH. intros i Hi. apply (H (S i)). cbn [length] in *. lia.
Qed.

Lemma take_le_lcp s a b : s <= lcp a b -> take s a = take s b.
Proof.
  intros H. pose proof (lcp_take a b) as E. unfold take in *.
  assert (Ha : firstn (N.to_nat s) a = firstn (N.to_nat s) (firstn (N.to_nat (lcp a b)) a)).
  { rewrite firstn_firstn. f_equal. lia. }
  assert (Hb : firstn (N.to_nat s) b = firstn (N.to_nat s) (firstn (N.to_nat (lcp a b)) b)).
  { rewrite firstn_firstn. f_equal. lia. }
  rewrite Ha, Hb, E. reflexivity.
Qed.

(* ---- wfb: completeness of the executable check, and the restart indices it computes -------- *)
Lemma wfb_check_complete b ridx : wfb b ridx -> wfb_check b ridx = true.
Proof.
  intros [H1 H2 H3 H4 H5 H6 H7 H8]. unfold wfb_check.
  repeat (apply andb_true_intro; split).
  - apply Nat.ltb_lt. exact H1.
  - apply (pairs_chain _ dummy_pe). intros i Hi.
    pose proof (H2 i (S i) ltac:(unfold nentries; lia)) as H. unfold off_at, entry_at in H. lia.
  - apply (pairs_chain _ dummy_pe). intros i Hi.
    pose proof (H3 i (S i) ltac:(unfold nentries; lia)) as H. unfold key_at, entry_at in H.
    unfold blt. rewrite H. reflexivity.
  - apply Nat.eqb_eq. exact H4.
  - apply Nat.ltb_lt. exact H5.
  - apply forallb_forall. intros i Hi. apply in_seq in Hi.
    destruct (H6 i ltac:(lia)) as (Ha & Hb & Hc).
    repeat (apply andb_true_intro; split); [apply N.eqb_eq, Ha|apply Nat.ltb_lt, Hb|apply N.eqb_eq, Hc].
  - apply (pairs_chain _ 0%nat). intros i Hi. apply Nat.ltb_lt. apply H7. lia.
  - apply Nat.eqb_eq. exact H8.
Qed.

Lemma ridx_of_fold es : forall (rs : list N) (ridx : list nat), length ridx = length rs ->
  (forall i, (i < length ridx)%nat -> find_off es (nth i rs 0) 0 = Some (nth i ridx 0%nat)) ->
  fold_right (fun off acc => match find_off es off 0, acc with
                             | Some j, Some l => Some (j :: l)
                             | _, _ => None
                             end) (Some []) rs = Some ridx.
Proof.
  induction rs as [|r rs IH]; intros ridx Hlen H.
  - destruct ridx; [reflexivity|discriminate].
  - destruct ridx as [|j ridx]; [discriminate|]. cbn [fold_right].
    pose proof (H 0%nat ltac:(cbn [length]; lia)) as H0. cbn [nth] in H0. rewrite H0.
    rewrite (IH ridx); [reflexivity|cbn [length] in Hlen; lia|].
    intros i Hi. apply (H (S i)). cbn [length]. lia.
Qed.

Lemma wfb_ridx_of b ridx : wfb b ridx -> ridx_of b = Some ridx.
Proof.
  intros W. unfold ridx_of. apply ridx_of_fold; [exact (wb_ridx_len _ _ W)|].
  intros i Hi. pose proof (restart_find b ridx W i Hi) as H. unfold restart_at in H.
  rewrite Nat2N.id in H. exact H.
Qed.

(* ---- Tier 1: one block ------------------------------------------------------------------------ *)
(* what the decoder must see: the entries with their offsets and sharing, ... *)
Fixpoint pents (off : N) (es : list entry) (ch : list choice) : list pentry :=
  match es, ch with
  | (k, v) :: es', c :: ch' =>
    mkpe off (share_of c) k v true :: pents (off + len (enc_entry (share_of c) k v)) es' ch'
  | _, _ => []
  end.
(* ... the indices of the entries chosen as restart points, ... *)
Fixpoint ridx_of_choices (ch : list choice) : list nat :=
  match ch with
  | [] => []
  | None :: t => 0%nat :: map S (ridx_of_choices t)
  | Some _ :: t => map S (ridx_of_choices t)
  end.
(* ... and the restart array *)
Definition block_restarts (es : list entry) (ch : list choice) : list N :=
  match restart_offsets 0 es ch with [] => [0] | rs => rs end.
Definition ablock_of (es : list entry) (ch : list choice) : ablock :=
  mkab (pents 0 es ch) (block_restarts es ch) (len (encode_block es ch)) false.

Lemma choices_ok_length : forall es ch prev, choices_ok prev es ch = true -> length es = length ch.
Proof.
  induction es as [|[k v] es IH]; intros ch prev H; destruct ch as [|c ch]; try discriminate; [reflexivity|].
  cbn [choices_ok] in H. apply andb_prop in H. destruct H as [_ H]. cbn [length]. f_equal. eapply IH, H.
Qed.

Lemma enc1_pe off s k v c : enc1 (mkpe off s k v c) = enc_entry s k v.
Proof. reflexivity. Qed.

Lemma enc_all_cons p ps : enc_all (p :: ps) = enc1 p ++ enc_all ps.
Proof. reflexivity. Qed.

Lemma pents_enc_all : forall es ch off, enc_all (pents off es ch) = enc_entries es ch.
Proof.
  induction es as [|[k v] es IH]; intros ch off; [reflexivity|]. destruct ch as [|c ch]; [reflexivity|].
  cbn [pents enc_entries]. rewrite enc_all_cons, enc1_pe, IH. reflexivity.
Qed.

Lemma pents_length : forall es ch off, length es = length ch -> length (pents off es ch) = length es.
Proof.
  induction es as [|[k v] es IH]; intros ch off H; [reflexivity|]. destruct ch as [|c ch]; [discriminate|].
  cbn [pents length] in *. f_equal. apply IH. lia.
Qed.

Lemma pents_ents : forall es ch off, length es = length ch -> map ent (pents off es ch) = es.
Proof.
  induction es as [|[k v] es IH]; intros ch off H; [reflexivity|]. destruct ch as [|c ch]; [discriminate|].
  cbn [pents map length] in *. rewrite IH by lia. reflexivity.
Qed.

Lemma entry_ok_spec e : entry_ok e = true -> len (fst e) < 2 ^ 32 /\ len (snd e) < 2 ^ 32.
Proof.
  unfold entry_ok. intros H. apply andb_prop in H. destruct H as [H H4]. apply andb_prop in H. destruct H as [_ H3].
  split; lia.
Qed.

Lemma pents_legal : forall es ch off prev, choices_ok prev es ch = true -> forallb entry_ok es = true ->
  legal off prev (pents off es ch).
Proof.
  induction es as [|[k v] es IH]; intros ch off prev Hc He; destruct ch as [|c ch]; try discriminate; [exact I|].
  cbn [choices_ok] in Hc. apply andb_prop in Hc. destruct Hc as [Hs Hc].
  cbn [forallb] in He. apply andb_prop in He. destruct He as [He1 He].
  destruct (entry_ok_spec _ He1) as [Hk Hv]. cbn [fst snd] in Hk, Hv.
  assert (Hle : share_of c <= lcp prev k) by (destruct c as [s|]; cbn [share_of]; lia).
  pose proof (lcp_le_l prev k). pose proof (lcp_le_r prev k).
  cbn [pents legal pe_off pe_shared pe_key pe_val pe_canon]. splits; try reflexivity; try lia.
  - apply take_le_lcp, Hle.
  - rewrite enc1_pe. apply IH; assumption.
Qed.

(* how the restart array relates to the entries *)
Definition Rrel (ps : list pentry) (r : N) (j : nat) : Prop :=
  (j < length ps)%nat /\ r = pe_off (nth j ps dummy_pe) /\ pe_shared (nth j ps dummy_pe) = 0.

Lemma Rrel_shift p ps rs rx : Forall2 (Rrel ps) rs rx -> Forall2 (Rrel (p :: ps)) rs (map S rx).
Proof.
  induction 1 as [|r j rs rx (H1 & H2 & H3) _ IH]; [constructor|]. cbn [map]. constructor; [|exact IH].
  unfold Rrel. cbn [length nth]. splits; [lia|exact H2|exact H3].
Qed.

Lemma restart_rel : forall es ch off, length es = length ch ->
  Forall2 (Rrel (pents off es ch)) (restart_offsets off es ch) (ridx_of_choices ch).
Proof.
  induction es as [|[k v] es IH]; intros ch off H; destruct ch as [|c ch]; try discriminate; [constructor|].
  cbn [length] in H. cbn [pents restart_offsets ridx_of_choices].
  specialize (IH ch (off + len (enc_entry (share_of c) k v)) ltac:(lia)).
  destruct c as [s|].
  - apply Rrel_shift, IH.
  - constructor; [|apply Rrel_shift, IH]. unfold Rrel. cbn [length nth pe_off pe_shared share_of]. splits; [lia|reflexivity|reflexivity].
Qed.

Lemma ridx_inc : forall ch i j, (i < j < length (ridx_of_choices ch))%nat ->
  (nth i (ridx_of_choices ch) 0 < nth j (ridx_of_choices ch) 0)%nat.
Proof.
  induction ch as [|c ch IH]; intros i j Hij; [cbn in Hij; lia|].
  destruct c as [s|]; cbn [ridx_of_choices] in *.
  - rewrite map_length in Hij. rewrite !nth_map_S by lia. specialize (IH i j Hij). lia.
  - cbn [length] in Hij. rewrite map_length in Hij. destruct j as [|j]; [lia|]. cbn [nth].
    rewrite nth_map_S by lia. destruct i as [|i]; [lia|]. cbn [nth]. rewrite nth_map_S by lia.
    specialize (IH i j ltac:(lia)). lia.
Qed.

Lemma pents_sorted : forall es ch off, length es = length ch -> keys_increasing es = true ->
  chainb (fun x y => blt (pe_key x) (pe_key y)) (pents off es ch) = true.
Proof.
  unfold keys_increasing.
  induction es as [|[k v] es IH]; intros ch off H Hk; destruct ch as [|c ch]; try discriminate; [reflexivity|].
  cbn [length] in H. destruct es as [|[k2 v2] es]; [reflexivity|]. destruct ch as [|c2 ch]; [discriminate|].
  cbn [chain fst] in Hk. apply andb_prop in Hk. destruct Hk as [Hlt Hk].
  change (pents off ((k, v) :: (k2, v2) :: es) (c :: c2 :: ch))
    with (mkpe off (share_of c) k v true :: pents (off + len (enc_entry (share_of c) k v)) ((k2, v2) :: es) (c2 :: ch)).
  specialize (IH (c2 :: ch) (off + len (enc_entry (share_of c) k v)) ltac:(lia) Hk).
  change (pents (off + len (enc_entry (share_of c) k v)) ((k2, v2) :: es) (c2 :: ch))
    with (mkpe (off + len (enc_entry (share_of c) k v)) (share_of c2) k2 v2 true ::
          pents (off + len (enc_entry (share_of c) k v) + len (enc_entry (share_of c2) k2 v2)) es ch) in *.
  cbn [chainb pe_key] in *. rewrite Hlt. exact IH.
Qed.

(* a well-formed block from a legal run of entries and restart points *)
Lemma wfb_of_legal ps rs ridx sz w : legal 0 [] ps -> ps <> [] ->
  chainb (fun x y => blt (pe_key x) (pe_key y)) ps = true ->
  Forall2 (Rrel ps) rs ridx -> ridx <> [] -> nth 0 ridx 0%nat = 0%nat ->
  (forall i j, (i < j < length ridx)%nat -> (nth i ridx 0 < nth j ridx 0)%nat) ->
  wfb (mkab ps rs sz w) ridx.
Proof.
  intros Hleg Hps Hkeys Hrel Hne Hhd Hinc.
  constructor; unfold nentries, off_at, key_at, entry_at, restart_at; cbn [ab_entries ab_restarts].
  - destruct ps; [congruence|cbn; lia].
  - intros i j Hij. rewrite (legal_off ps 0 [] i Hleg) by lia. rewrite (legal_off ps 0 [] j Hleg) by lia.
    pose proof (offset_of_lt ps 0 [] i j Hleg ltac:(lia)). lia.
  - intros i j Hij.
    apply (chain_pairs (fun x y => bcmp (pe_key x) (pe_key y) = Lt) (fun x y => blt (pe_key x) (pe_key y)) dummy_pe); try assumption.
    + intros a c Hac. unfold blt in Hac. destruct (bcmp (pe_key a) (pe_key c)); congruence.
    + intros a c e. apply bcmp_lt_trans.
  - symmetry. eapply Forall2_length', Hrel.
  - destruct ridx; [congruence|cbn; lia].
  - intros i Hi. rewrite Nat2N.id.
    assert (Hi' : (i < length rs)%nat) by (rewrite (Forall2_length' _ _ _ Hrel); exact Hi).
    destruct (Forall2_nth _ _ _ 0 0%nat i Hrel Hi') as (H1 & H2 & H3). splits; assumption.
  - exact Hinc.
  - exact Hhd.
Qed.

(* block_init / parse_block on entries ++ 32-bit restart array ++ count *)
Lemma block_bytes_len ps (rs : list N) :
  len (enc_all ps ++ concat (map fixed_encode32 rs) ++ fixed_encode32 (N.of_nat (length rs)))
  = len (enc_all ps) + 4 * N.of_nat (length rs) + 4.
Proof. rewrite !len_app, len_concat_enc32, len_fixed32. lia. Qed.

Lemma block_init_bytes ps rs : legal 0 [] ps -> rs <> [] -> Forall (fun r => r < 2 ^ 32) rs ->
  let raw := enc_all ps ++ concat (map fixed_encode32 rs) ++ fixed_encode32 (N.of_nat (length rs)) in
  len raw < 2 ^ 32 -> block_init raw = Some (mkab ps rs (len raw) false).
Proof.
  intros Hleg Hne Hrs raw Hsz. subst raw.
  set (nr := N.of_nat (length rs)) in *. set (buf := enc_all ps) in *. set (renc := concat (map fixed_encode32 rs)) in *.
  assert (Hrl : len renc = 4 * nr) by apply len_concat_enc32.
  assert (Hnr : 1 <= nr) by (unfold nr; destruct rs; [congruence|cbn [length]; lia]).
  assert (Hsize : len (buf ++ renc ++ fixed_encode32 nr) = len buf + 4 * nr + 4) by apply block_bytes_len.
  rewrite Hsize in *. change (2 ^ 32) with 4294967296 in Hsz.
  unfold block_init. rewrite Hsize.
  replace (len buf + 4 * nr + 4 <? 4) with false by lia.
  replace (drop (len buf + 4 * nr + 4 - 4) (buf ++ renc ++ fixed_encode32 nr)) with (fixed_encode32 nr ++ []).
  2:{ rewrite app_nil_r, app_assoc. symmetry. apply drop_app_len. rewrite len_app, Hrl. lia. }
  rewrite fixed32_roundtrip by (change (2 ^ 32) with 4294967296; lia).
  assert (Hro : u64 (len buf + 4 * nr + 4 + 18446744073709551616 - u32 (1 + nr) * 4) = len buf).
  { unfold u32, u64. rewrite (N.mod_small (1 + nr)) by lia.
    replace (len buf + 4 * nr + 4 + 18446744073709551616 - (1 + nr) * 4) with (len buf + 1 * 18446744073709551616) by lia.
    rewrite N.mod_add by lia. apply N.mod_small. lia. }
  rewrite Hro. replace (4294967295 <? len buf) with false by lia. cbn [andb].
  replace (len buf + 4 * nr + 4 - 4 <? len buf) with false by lia.
  replace (len buf + 4 * nr + 4 <? 8) with false by lia.
  replace (drop (len buf) (buf ++ renc ++ fixed_encode32 nr)) with (renc ++ fixed_encode32 nr) by (symmetry; apply drop_app_len; reflexivity).
  unfold nr at 1. rewrite Nat2N.id. unfold renc.
  rewrite parse_array_enc32 by exact Hrs.
  rewrite (take_app_len buf _ (len buf) eq_refl). unfold buf.
  rewrite <- (app_nil_r (enc_all ps)). rewrite (parse_entries_enc ps _ 0 [] [] Hleg); [|rewrite app_nil_r|reflexivity].
  - rewrite app_nil_r. reflexivity.
  - pose proof (enc_all_length ps _ _ Hleg). rewrite !app_length. lia.
Qed.

Lemma parse_block_bytes ps rs : legal 0 [] ps -> rs <> [] -> Forall (fun r => r < 2 ^ 32) rs ->
  let raw := enc_all ps ++ concat (map fixed_encode32 rs) ++ fixed_encode32 (N.of_nat (length rs)) in
  len raw < 2 ^ 32 -> parse_block raw = Some (mkab ps rs (len raw) false).
Proof.
  intros Hleg Hne Hrs raw Hsz. subst raw.
  set (nr := N.of_nat (length rs)) in *. set (buf := enc_all ps) in *. set (renc := concat (map fixed_encode32 rs)) in *.
  assert (Hrl : len renc = 4 * nr) by apply len_concat_enc32.
  assert (Hnr : 1 <= nr) by (unfold nr; destruct rs; [congruence|cbn [length]; lia]).
  assert (Hsize : len (buf ++ renc ++ fixed_encode32 nr) = len buf + 4 * nr + 4) by apply block_bytes_len.
  rewrite Hsize in *. change (2 ^ 32) with 4294967296 in Hsz.
  unfold parse_block. rewrite Hsize.
  replace (len buf + 4 * nr + 4 <? 8) with false by lia.
  replace (drop (len buf + 4 * nr + 4 - 4) (buf ++ renc ++ fixed_encode32 nr)) with (fixed_encode32 nr ++ []).
  2:{ rewrite app_nil_r, app_assoc. symmetry. apply drop_app_len. rewrite len_app, Hrl. lia. }
  rewrite fixed32_roundtrip by (change (2 ^ 32) with 4294967296; lia).
  replace (nr =? 0) with false by lia. cbv zeta.
  replace (len buf + 4 * nr + 4 <? 4 + 4 * nr) with false by lia.
  replace (4294967295 <? len buf + 4 * nr + 4 - 4 - 4 * nr) with false by lia. cbn [andb].
  replace (len buf + 4 * nr + 4 - 4 - 4 * nr) with (len buf) by lia.
  replace (drop (len buf) (buf ++ renc ++ fixed_encode32 nr)) with (renc ++ fixed_encode32 nr) by (symmetry; apply drop_app_len; reflexivity).
  unfold nr at 1. rewrite Nat2N.id. unfold renc.
  rewrite parse_array_enc32 by exact Hrs.
  rewrite (take_app_len buf _ (len buf) eq_refl). unfold buf.
  rewrite <- (app_nil_r (enc_all ps)). rewrite (parse_entries_enc ps _ 0 [] [] Hleg); [|rewrite app_nil_r|reflexivity].
  - rewrite app_nil_r. reflexivity.
  - pose proof (enc_all_length ps _ _ Hleg). rewrite !app_length. lia.
Qed.

Definition block_ok (es : list entry) (ch : list choice) : bool :=
  forallb entry_ok es && keys_increasing es && block_choices_ok es ch && (len (encode_block es ch) <? 2 ^ 32).

Lemma Rrel_bound ps rs rx : legal 0 [] ps -> Forall2 (Rrel ps) rs rx -> Forall (fun r => r <= len (enc_all ps)) rs.
Proof.
  intros Hleg H. induction H as [|r j rs rx (H1 & H2 & H3) _ IH]; constructor; [|exact IH].
  rewrite H2, (legal_off ps 0 [] j Hleg H1). pose proof (offset_of_le ps j). lia.
Qed.

Lemma block_choices_ok_shape es ch : block_choices_ok es ch = true ->
  exists k v es' ch', es = (k, v) :: es' /\ ch = None :: ch' /\ choices_ok [] es ch = true.
Proof.
  unfold block_choices_ok. destruct ch as [|[s|] ch']; try discriminate. intros H.
  destruct es as [|[k v] es']; [discriminate|]. exists k, v, es', ch'. splits; [reflexivity|reflexivity|exact H].
Qed.

(* Tier 1: a block encoded with any legal choice of restart points and sharing decodes - both by
   block_init (the reader model) and by parse_block (the independent decoder) - to exactly its
   entries, with the restart array pointing at exactly the chosen entries; the result passes
   the executable block check *)
Theorem encode_block_decodes es ch : block_ok es ch = true ->
  block_init (encode_block es ch) = Some (ablock_of es ch) /\
  parse_block (encode_block es ch) = Some (ablock_of es ch) /\
  map ent (ab_entries (ablock_of es ch)) = es /\
  ab_restarts (ablock_of es ch) = restart_offsets 0 es ch /\
  Forall2 (Rrel (ab_entries (ablock_of es ch))) (ab_restarts (ablock_of es ch)) (ridx_of_choices ch) /\
  ridx_of (ablock_of es ch) = Some (ridx_of_choices ch) /\
  wfb (ablock_of es ch) (ridx_of_choices ch) /\
  wfb_check (ablock_of es ch) (ridx_of_choices ch) = true.
Proof.
  unfold block_ok. intros H. apply andb_prop in H. destruct H as [H Hsz]. apply andb_prop in H. destruct H as [H Hch].
  apply andb_prop in H. destruct H as [Hes Hkeys].
  destruct (block_choices_ok_shape _ _ Hch) as (k & v & es' & ch' & Ees & Ech & Hc).
  pose proof (choices_ok_length _ _ _ Hc) as Hlen.
  pose proof (pents_legal es ch 0 [] Hc Hes) as Hleg.
  pose proof (restart_rel es ch 0 Hlen) as Hrel.
  assert (Hrs : block_restarts es ch = restart_offsets 0 es ch).
  { unfold block_restarts. rewrite Ees, Ech. reflexivity. }
  assert (Hraw : encode_block es ch = enc_all (pents 0 es ch) ++ concat (map fixed_encode32 (restart_offsets 0 es ch))
                                      ++ fixed_encode32 (N.of_nat (length (restart_offsets 0 es ch)))).
  { unfold encode_block. fold (block_restarts es ch). rewrite Hrs, pents_enc_all. reflexivity. }
  assert (Hne : restart_offsets 0 es ch <> []) by (rewrite Ees, Ech; discriminate).
  assert (Hsz' : len (encode_block es ch) < 2 ^ 32) by lia.
  assert (Hb : Forall (fun r => r < 2 ^ 32) (restart_offsets 0 es ch)).
  { pose proof (Rrel_bound _ _ _ Hleg Hrel) as Hb. rewrite Forall_forall in *. intros r Hr. specialize (Hb r Hr). cbv beta in Hb.
    rewrite Hraw, len_app in Hsz'. lia. }
  assert (Hw : wfb (ablock_of es ch) (ridx_of_choices ch)).
  { unfold ablock_of. rewrite Hrs. apply wfb_of_legal; try assumption.
    - rewrite Ees, Ech. discriminate.
    - apply pents_sorted; assumption.
    - rewrite Ech. discriminate.
    - rewrite Ech. reflexivity.
    - apply ridx_inc. }
  unfold ablock_of at 1 2 3 4 5 6. cbn [ab_entries ab_restarts]. rewrite Hrs.
  splits.
  - rewrite Hraw at 1. rewrite (block_init_bytes _ _ Hleg Hne Hb) by (rewrite <- Hraw; exact Hsz'). rewrite <- Hraw. reflexivity.
  - rewrite Hraw at 1. rewrite (parse_block_bytes _ _ Hleg Hne Hb) by (rewrite <- Hraw; exact Hsz'). rewrite <- Hraw. reflexivity.
  - apply pents_ents, Hlen.
  - reflexivity.
  - exact Hrel.
  - apply wfb_ridx_of, Hw.
  - exact Hw.
  - apply wfb_check_complete, Hw.
Qed.

(* what "the chosen restarts and sharing" means for the decoded block: entry j was decoded with
   exactly the sharing chosen for it, and the restart indices are exactly the entries chosen as
   restart points *)
Lemma decoded_sharing : forall es ch off j, length es = length ch -> (j < length es)%nat ->
  pe_shared (nth j (pents off es ch) dummy_pe) = share_of (nth j ch None) /\
  (pe_key (nth j (pents off es ch) dummy_pe), pe_val (nth j (pents off es ch) dummy_pe)) = nth j es ([], []).
Proof.
  induction es as [|[k v] es IH]; intros ch off j H Hj; [cbn in Hj; lia|]. destruct ch as [|c ch]; [discriminate|].
  cbn [pents length] in *. destruct j as [|j]; [split; reflexivity|]. cbn [nth]. apply IH; lia.
Qed.

Lemma decoded_restarts : forall ch j, In j (ridx_of_choices ch) <-> nth_error ch j = Some None.
Proof.
  induction ch as [|c ch IH]; intros j.
  - split; [intros []|destruct j; discriminate].
  - assert (Hs : forall j', In (S j') (map S (ridx_of_choices ch)) <-> nth_error ch j' = Some None).
    { intros j'. rewrite <- IH, in_map_iff. split; [intros (x & E & Hx); inversion E; subst; exact Hx|intros Hx; exists j'; split; [reflexivity|exact Hx]]. }
    assert (H0 : ~ In 0%nat (map S (ridx_of_choices ch))) by (rewrite in_map_iff; intros (x & E & _); discriminate).
    destruct c as [s|]; cbn [ridx_of_choices]; destruct j as [|j]; cbn [nth_error].
    + split; [intros H; contradiction|discriminate].
    + apply Hs.
    + split; [reflexivity|intros _; left; reflexivity].
    + rewrite <- Hs. split; [intros [H|H]; [discriminate|exact H]|intros H; right; exact H].
Qed.

(* the block without entries: the index block of an empty table *)
Lemma encode_block_empty : block_init (encode_block [] []) = Some (mkab [] [0] 8 false)
                           /\ parse_block (encode_block [] []) = Some (mkab [] [0] 8 false).
Proof. split; vm_compute; reflexivity. Qed.

(* ---- frames and the trailer --------------------------------------------------------------------- *)
Definition ver_id (v : fversion) : N := match v with V1 => FORMAT_V1 | V2 => FORMAT_V2 end.
Definition frame_hdr (ver : fversion) (stored : bytes) : bytes :=
  match ver with V1 => fixed_encode32 (len stored) | V2 => varint_encode64 (len stored) end.
Definition fits (ver : fversion) (stored : bytes) : Prop :=
  len stored < 2 ^ 64 /\ (ver = V1 -> len stored < 2 ^ 32).

Lemma encode_frame_eq ver stored :
  encode_frame ver stored = frame_hdr ver stored ++ fixed_encode32 (crc32c_ref stored) ++ stored.
Proof. destruct ver; reflexivity. Qed.

Lemma frame_hdr_len ver stored : len stored < 2 ^ 64 -> 1 <= len (frame_hdr ver stored) <= 10.
Proof.
  intros Hs. destruct ver; cbn [frame_hdr]; [rewrite len_fixed32; lia|].
  pose proof (varint_encode64_len (len stored)). split; [|assumption].
  rewrite varint_encode64_spec by exact Hs. pose proof (leb128_nonempty (len stored)).
  destruct (leb128 (len stored)); [congruence|rewrite len_cons; lia].
Qed.

Lemma encode_frame_len ver stored : len (encode_frame ver stored) = len (frame_hdr ver stored) + 4 + len stored.
Proof. rewrite encode_frame_eq, !len_app, len_fixed32. lia. Qed.

Lemma crc32c_ref_lt l : wf_bytes l -> crc32c_ref l < 2 ^ 32.
Proof.
  intros H. unfold crc32c_ref. change (2 ^ 32) with 4294967296.
  apply lxor_lt32; [apply crc_update_lt32; [reflexivity|exact H]|reflexivity].
Qed.

Section Load.
Variable decompress : N -> bytes -> res bytes.

(* get_block on a frame of either format version, with or without checksum verification *)
Lemma get_block_encoded r ver pre stored post raw ab :
  r_version r = ver_id ver -> r_file r = pre ++ encode_frame ver stored ++ post ->
  fits ver stored -> wf_bytes stored ->
  (if r_comp r =? COMP_NONE then Ok stored else decompress (r_comp r) stored) = Ok raw ->
  block_init raw = Some ab ->
  get_block decompress r (len pre) = Ok ab.
Proof.
  intros Hver Hf [Hs Hs1] Hwf Hraw Hinit. unfold get_block. rewrite Hver, Hf.
  pose proof (frame_hdr_len ver stored Hs) as Hhl.
  pose proof (crc32c_ref_lt stored Hwf) as Hcrc.
  rewrite encode_frame_eq, <- !app_assoc. set (hdr := frame_hdr ver stored) in *. set (crc := fixed_encode32 (crc32c_ref stored)).
  rewrite !len_app. unfold crc at 1. rewrite len_fixed32.
  replace (len pre <? len pre + (len hdr + (4 + (len stored + len post)))) with true by lia.
  cbn [negb]. rewrite (drop_app_len pre _ (len pre) eq_refl).
  assert (Ehdr : (if ver_id ver =? FORMAT_V1
                  then match fixed_decode32 (hdr ++ crc ++ stored ++ post) with Some n => Ok (n, 4) | None => Oob end
                  else match varint_decode64 (hdr ++ crc ++ stored ++ post) with
                       | Ok (n, l) => Ok (n, l) | Oob => Oob | _ => Abort end) = Ok (len stored, len hdr)).
  { destruct ver; cbn [ver_id]; unfold FORMAT_V1, FORMAT_V2.
    - change (0 =? 0) with true. cbv iota. unfold hdr; cbn [frame_hdr].
      rewrite fixed32_roundtrip by (apply Hs1; reflexivity). rewrite len_fixed32. reflexivity.
    - change (1 =? 0) with false. cbv iota. unfold hdr; cbn [frame_hdr].
      rewrite varint64_roundtrip by exact Hs. reflexivity. }
  rewrite Ehdr. clear Ehdr.
  replace (pre ++ hdr ++ crc ++ stored ++ post) with ((pre ++ hdr ++ crc) ++ stored ++ post) by (rewrite <- !app_assoc; reflexivity).
  replace (len pre + len hdr + 4) with (len (pre ++ hdr ++ crc)) by (unfold crc; rewrite !len_app, len_fixed32; lia).
  rewrite slice_app_mid.
  assert (Ecrc : (if r_verify r
                  then match fixed_decode32 (drop (len pre + len hdr) ((pre ++ hdr ++ crc) ++ stored ++ post)) with
                       | Some c => c =? crc32c_ref stored | None => false end
                  else true) = true).
  { destruct (r_verify r); [|reflexivity].
    replace ((pre ++ hdr ++ crc) ++ stored ++ post) with ((pre ++ hdr) ++ crc ++ stored ++ post) by (rewrite <- !app_assoc; reflexivity).
    rewrite (drop_app_len (pre ++ hdr) _ (len pre + len hdr)) by (rewrite len_app; reflexivity).
    unfold crc. rewrite fixed32_roundtrip by exact Hcrc. apply N.eqb_refl. }
  rewrite Ecrc. cbn [negb]. rewrite Hraw, Hinit. reflexivity.
Qed.
End Load.

(* the trailer *)
Lemma fixed64_decode_u64 v rest :
  fixed_decode64 (fixed_encode64 v ++ rest) = Some (u64 v) /\ drop 8 (fixed_encode64 v ++ rest) = rest.
Proof.
  split; [|apply drop_app_len, len_fixed64].
  unfold fixed_decode64, fixed_encode64. rewrite le_decode_encode. f_equal. unfold u64.
  change (256 ^ N.of_nat 8) with 18446744073709551616. apply N.mod_mod. lia.
Qed.

Lemma trailer_read ver f0 f1 f2 f3 f4 f5 f6 f7 f8 :
  metadata_read (encode_trailer ver [f0; f1; f2; f3; f4; f5; f6; f7; f8])
  = Some (ver_id ver, mkmeta (u64 f0) (u64 f1) (u64 f2) (u64 f3) (u64 f4) (u64 f5) (u64 f6) (u64 f7) (u64 f8))
  /\ len (encode_trailer ver [f0; f1; f2; f3; f4; f5; f6; f7; f8]) = 512.
Proof.
  unfold encode_trailer. cbn [map concat]. rewrite app_nil_r.
  set (fields := fixed_encode64 f0 ++ _).
  assert (Hlen : len fields = 72) by (subst fields; rewrite !len_app, !len_fixed64; reflexivity).
  rewrite Hlen. change (512 - 72 - 4) with 436.
  split.
  2:{ rewrite !len_app, Hlen, len_repeat, len_fixed32. reflexivity. }
  unfold metadata_read, MTBL_METADATA_SIZE. change (512 - 4) with 508.
  assert (Hdrop : drop 508 (fields ++ repeat 0 (N.to_nat 436) ++ fixed_encode32 (magic_of ver)) = fixed_encode32 (magic_of ver)).
  { rewrite app_assoc. apply drop_app_len. rewrite len_app, Hlen, len_repeat. reflexivity. }
  rewrite Hdrop. rewrite <- (app_nil_r (fixed_encode32 (magic_of ver))), fixed32_roundtrip by (destruct ver; cbn; lia).
  assert (Ever : (if magic_of ver =? MTBL_MAGIC_V1 then Some FORMAT_V1
                  else if magic_of ver =? MTBL_MAGIC then Some FORMAT_V2 else None) = Some (ver_id ver))
    by (destruct ver; reflexivity).
  rewrite Ever. unfold META_READ_ORDER.
  subst fields. rewrite <- !app_assoc.
  cbn [meta_read_fields].
  repeat (match goal with |- context [fixed_decode64 (fixed_encode64 ?v ++ ?r)] =>
            destruct (fixed64_decode_u64 v r) as [-> Edrop]; try rewrite Edrop; clear Edrop end).
  cbv [meta_set meta_zero m_index_block_offset m_data_block_size m_compression_algorithm m_count_entries
       m_count_data_blocks m_bytes_data_blocks m_bytes_index_block m_bytes_keys m_bytes_values].
  reflexivity.
Qed.

(* reader_open on  pre ++ index frame ++ trailer  *)
Lemma reader_open_encoded ver pre idx verify f1 f2 f3 f4 f5 f6 f7 f8 :
  let tr := encode_trailer ver [len pre; f1; f2; f3; f4; f5; f6; f7; f8] in
  let f := pre ++ encode_frame ver idx ++ tr in
  len f < 2 ^ 64 -> fits ver idx -> wf_bytes idx -> 8 <= len idx ->
  exists m, fst (reader_open f verify) = Ok (Some (mkreader f (ver_id ver) (u64 f2) verify (block_init idx) m)).
Proof.
  intros tr f Hlen [Hs Hs1] Hwf Hidx.
  destruct (trailer_read ver (len pre) f1 f2 f3 f4 f5 f6 f7 f8) as [Hrt Hml]. fold tr in Hrt, Hml.
  pose proof (frame_hdr_len ver idx Hs) as Hhl. pose proof (crc32c_ref_lt idx Hwf) as Hcrc.
  pose proof (encode_frame_len ver idx) as Hfl.
  pose proof (encode_frame_eq ver idx) as Hfe.
  set (hdr := frame_hdr ver idx) in *. set (crc := fixed_encode32 (crc32c_ref idx)) in *.
  assert (Hn : len f = len pre + len (encode_frame ver idx) + 512) by (unfold f; rewrite !len_app, Hml; lia).
  change (2 ^ 64) with 18446744073709551616 in *.
  eexists. unfold reader_open. rewrite Hn. unfold MTBL_METADATA_SIZE.
  replace (len pre + len (encode_frame ver idx) + 512 <? 512) with false by lia.
  replace (len pre + len (encode_frame ver idx) + 512 - 512) with (len (pre ++ encode_frame ver idx)) by (rewrite len_app; lia).
  replace f with ((pre ++ encode_frame ver idx) ++ tr) at 1 by (unfold f; rewrite <- app_assoc; reflexivity).
  rewrite (drop_app_len (pre ++ encode_frame ver idx) _ _ eq_refl), Hrt.
  cbn [m_index_block_offset m_compression_algorithm].
  assert (Hibo : u64 (len pre) = len pre) by (unfold u64; apply N.mod_small; lia).
  rewrite Hibo.
  set (minlen := if ver_id ver =? FORMAT_V1 then READER_MIN_BLOCK_V1 else READER_MIN_BLOCK_V2).
  assert (Hmin : minlen <= len (encode_frame ver idx) /\ minlen <= 16).
  { unfold minlen. destruct ver; cbn [ver_id]; unfold FORMAT_V1, FORMAT_V2, READER_MIN_BLOCK_V1, READER_MIN_BLOCK_V2.
    - change (0 =? 0) with true. cbv iota. unfold hdr in Hfl; cbn [frame_hdr] in Hfl. rewrite len_fixed32 in Hfl. lia.
    - change (1 =? 0) with false. cbv iota. lia. }
  unfold u64. rewrite (N.mod_small (len pre + 512 + minlen)) by lia.
  replace ((len pre + len (encode_frame ver idx) + 512 <? len pre + 512 + minlen) || (len pre + 512 + minlen <? len pre)) with false by lia.
  unfold f at 1 2. rewrite (drop_app_len pre _ _ eq_refl). rewrite Hfe, <- !app_assoc.
  assert (Ehdr : (if ver_id ver =? FORMAT_V1
                  then (match fixed_decode32 (hdr ++ crc ++ idx ++ tr) with Some v => Ok (v, 4) | None => Oob end, [(len pre, 4)])
                  else match varint_decode64 (hdr ++ crc ++ idx ++ tr) with
                       | Ok (v, l) => (Ok (v, l), [(len pre, if l =? 0 then 10 else l)])
                       | Oob => (Oob, [(len pre, 10)])
                       | _ => (Abort, [(len pre, 10)])
                       end) = (Ok (len idx, len hdr), [(len pre, len hdr)])).
  { destruct ver; cbn [ver_id]; unfold FORMAT_V1, FORMAT_V2.
    - change (0 =? 0) with true. cbv iota. unfold hdr; cbn [frame_hdr].
      rewrite fixed32_roundtrip by (apply Hs1; reflexivity). rewrite len_fixed32. reflexivity.
    - change (1 =? 0) with false. cbv iota. unfold hdr; cbn [frame_hdr].
      rewrite varint64_roundtrip by exact Hs. fold (frame_hdr V2 idx). fold hdr.
      replace (len hdr =? 0) with false by lia. reflexivity. }
  rewrite Ehdr. clear Ehdr. cbv iota beta. rewrite len_app.
  replace ((len pre + len (hdr ++ crc ++ idx) - len pre <? len hdr + 4) || (len pre + len (hdr ++ crc ++ idx) - len pre - (len hdr + 4) <? len idx)) with false
    by (rewrite <- Hfe; lia).
  replace f with ((pre ++ hdr ++ crc) ++ idx ++ tr) by (unfold f; rewrite Hfe, <- !app_assoc; reflexivity).
  replace (len pre + len hdr + 4) with (len (pre ++ hdr ++ crc)) by (unfold crc; rewrite !len_app, len_fixed32; lia).
  rewrite slice_app_mid.
  assert (Ecrc : (if verify
                  then match fixed_decode32 (drop (len pre + len hdr) ((pre ++ hdr ++ crc) ++ idx ++ tr)) with
                       | Some c => c =? crc32c_ref idx | None => false end
                  else true) = true).
  { destruct verify; [|reflexivity].
    replace ((pre ++ hdr ++ crc) ++ idx ++ tr) with ((pre ++ hdr) ++ crc ++ idx ++ tr) by (rewrite <- !app_assoc; reflexivity).
    rewrite (drop_app_len (pre ++ hdr) _ (len pre + len hdr)) by (rewrite len_app; reflexivity).
    unfold crc. rewrite fixed32_roundtrip by exact Hcrc. apply N.eqb_refl. }
  rewrite Ecrc. cbn [negb fst].
  replace ((4 <=? len idx) && (len idx <? 8)) with false by lia.
  reflexivity.
Qed.

(* ---- all bytes of an encoded block are bytes ------------------------------------------------------ *)
Lemma wf_bytesb_spec l : wf_bytesb l = true <-> wf_bytes l.
Proof.
  unfold wf_bytesb, wf_bytes, wf_byte. rewrite forallb_forall, Forall_forall.
  split; intros H x Hx; specialize (H x Hx); lia.
Qed.
Lemma wf_app a b : wf_bytes a -> wf_bytes b -> wf_bytes (a ++ b).
Proof. intros Ha Hb. apply Forall_app. split; assumption. Qed.
Lemma wf_varint32 v : wf_bytes (varint_encode32 v).
Proof.
  assert (H : u32 v < 2 ^ 32) by (unfold u32; change (2 ^ 32) with 4294967296; lia).
  assert (E : varint_encode32 v = varint_encode32 (u32 v)).
  { unfold varint_encode32. f_equal. unfold u32. rewrite N.mod_mod by lia. reflexivity. }
  rewrite E, (varint_encode32_spec _ H). apply leb128_wf_bytes.
Qed.
Lemma wf_varint64 v : wf_bytes (varint_encode64 v).
Proof. rewrite varint_encode64_u64. apply leb128_wf_bytes. Qed.
Lemma wf_fixed32 v : wf_bytes (fixed_encode32 v).
Proof. apply le_encode_wf. Qed.
Lemma wf_fixed64 v : wf_bytes (fixed_encode64 v).
Proof. apply le_encode_wf. Qed.
Lemma wf_drop n l : wf_bytes l -> wf_bytes (drop n l).
Proof.
  unfold drop. generalize (N.to_nat n) as m. intros m. revert l.
  induction m as [|m IH]; intros l H; [exact H|]. destruct l as [|x l]; [exact H|]. cbn [skipn]. apply IH.
  inversion H; assumption.
Qed.
Lemma wf_concat (ls : list bytes) : Forall wf_bytes ls -> wf_bytes (concat ls).
Proof. induction 1 as [|l ls Hl _ IH]; [constructor|]. cbn [concat]. apply wf_app; assumption. Qed.
Lemma wf_repeat0 n : wf_bytes (repeat 0 n).
Proof. induction n; cbn [repeat]; constructor; [unfold wf_byte; lia|assumption]. Qed.

Definition entry_wf (e : entry) : Prop := wf_bytes (fst e) /\ wf_bytes (snd e).

Lemma entry_ok_wf e : entry_ok e = true -> entry_wf e.
Proof.
  unfold entry_ok. intros H. apply andb_prop in H. destruct H as [H _]. apply andb_prop in H. destruct H as [H _].
  apply andb_prop in H. destruct H as [H1 H2]. split; apply wf_bytesb_spec; assumption.
Qed.

Lemma enc_entries_wf : forall es ch, Forall entry_wf es -> wf_bytes (enc_entries es ch).
Proof.
  induction es as [|[k v] es IH]; intros ch H; [constructor|]. destruct ch as [|c ch]; [constructor|].
  inversion H as [|? ? [Hk Hv] Hes]; subst. cbn [fst snd] in *. cbn [enc_entries]. apply wf_app; [|apply IH, Hes].
  unfold enc_entry. repeat apply wf_app; try apply wf_varint32; [apply wf_drop, Hk|exact Hv].
Qed.

Lemma encode_block_wf es ch : Forall entry_wf es -> wf_bytes (encode_block es ch).
Proof.
  intros H. unfold encode_block. repeat apply wf_app; [apply enc_entries_wf, H| |apply wf_fixed32].
  apply wf_concat. apply Forall_forall. intros x Hx. apply in_map_iff in Hx. destruct Hx as (r & <- & _). apply wf_fixed32.
Qed.

Lemma encode_frame_wf ver stored : wf_bytes stored -> wf_bytes (encode_frame ver stored).
Proof.
  intros H. rewrite encode_frame_eq. repeat apply wf_app; [|apply wf_fixed32|exact H].
  destruct ver; [apply wf_fixed32|apply wf_varint64].
Qed.

(* ---- sub-lists of the entry list -------------------------------------------------------------------- *)
Lemma chain_tail {A} (rb : A -> A -> bool) a l : chain rb (a :: l) = true -> chain rb l = true.
Proof.
  destruct l as [|b l]; [reflexivity|]. change (chain rb (a :: b :: l)) with (rb a b && chain rb (b :: l)).
  intros H. apply andb_prop in H. tauto.
Qed.
Lemma chain_skipn {A} (rb : A -> A -> bool) : forall n l, chain rb l = true -> chain rb (skipn n l) = true.
Proof.
  induction n as [|n IH]; intros l H; [exact H|]. destruct l as [|a l]; [reflexivity|]. cbn [skipn].
  apply IH. eapply chain_tail, H.
Qed.
Lemma chain_firstn {A} (rb : A -> A -> bool) : forall n l, chain rb l = true -> chain rb (firstn n l) = true.
Proof.
  induction n as [|n IH]; intros l H; [reflexivity|]. destruct l as [|a l]; [reflexivity|]. cbn [firstn].
  destruct l as [|b l]; [destruct n; reflexivity|].
  change (chain rb (a :: b :: l)) with (rb a b && chain rb (b :: l)) in H. apply andb_prop in H. destruct H as [Hab Hc].
  specialize (IH (b :: l) Hc). destruct n as [|n]; [reflexivity|]. cbn [firstn] in *.
  change (chain rb (a :: b :: firstn n l)) with (rb a b && chain rb (b :: firstn n l)). rewrite Hab. exact IH.
Qed.
Lemma forallb_skipn {A} (P : A -> bool) : forall n l, forallb P l = true -> forallb P (skipn n l) = true.
Proof.
  induction n as [|n IH]; intros l H; [exact H|]. destruct l as [|a l]; [reflexivity|]. cbn [skipn]. apply IH.
  cbn [forallb] in H. apply andb_prop in H. tauto.
Qed.
Lemma forallb_firstn {A} (P : A -> bool) : forall n l, forallb P l = true -> forallb P (firstn n l) = true.
Proof.
  induction n as [|n IH]; intros l H; [reflexivity|]. destruct l as [|a l]; [reflexivity|]. cbn [firstn forallb] in *.
  apply andb_prop in H. destruct H as [Ha H]. rewrite Ha. apply IH, H.
Qed.

Lemma last_nth' {A} (l : list A) d : last l d = nth (length l - 1) l d.
Proof.
  induction l as [|a l IH]; [reflexivity|]. destruct l as [|b l]; [reflexivity|].
  change (last (a :: b :: l) d) with (last (b :: l) d). rewrite IH. cbn [length]. 
  replace (S (S (length l)) - 1)%nat with (S (S (length l) - 1)) by lia. reflexivity.
Qed.

Definition e0 : entry := ([], []).

Lemma keys_nth es : keys_increasing es = true -> forall i j, (i < j < length es)%nat ->
  bcmp (fst (nth i es e0)) (fst (nth j es e0)) = Lt.
Proof.
  unfold keys_increasing. rewrite chain_chainb. intros H i j Hij.
  apply (chain_pairs (fun x y : entry => bcmp (fst x) (fst y) = Lt) (fun x y => blt (fst x) (fst y)) e0); try assumption.
  - intros a c Hac. unfold blt in Hac. destruct (bcmp (fst a) (fst c)); congruence.
  - intros a c e. apply bcmp_lt_trans.
Qed.

Lemma first_le_last es : es <> [] -> keys_increasing es = true -> bcmp (Encode.first_key es) (Encode.last_key es) <> Gt.
Proof.
  intros Hne Hk. unfold Encode.last_key. rewrite last_nth'. fold e0.
  destruct es as [|e es]; [congruence|]. cbn [Encode.first_key]. change e with (nth 0 (e :: es) e0) at 1.
  destruct es as [|e2 es]; [cbn [length nth Nat.sub]; rewrite bcmp_refl; discriminate|].
  rewrite (keys_nth _ Hk 0%nat) by (cbn [length]; lia). discriminate.
Qed.

(* ---- Tier 2: the table ---------------------------------------------------------------------------------- *)
Definition blockT := (list entry * list choice * bytes)%type.
Definition b_es (b : blockT) : list entry := fst (fst b).
Definition b_ch (b : blockT) : list choice := snd (fst b).
Definition b_sep (b : blockT) : bytes := snd b.
Definition b_ab (b : blockT) : ablock := ablock_of (b_es b) (b_ch b).
Definition b_rx (b : blockT) : list nat := ridx_of_choices (b_ch b).
Definition b_raw (b : blockT) : bytes := encode_block (b_es b) (b_ch b).
(* what table_check must return for the data blocks *)
Definition loaded (blocks : list blockT) : list (ablock * list nat) := map (fun b => (b_ab b, b_rx b)) blocks.

Fixpoint incr_from (lo : N) (l : list N) : Prop :=
  match l with [] => True | x :: t => lo <= x /\ incr_from (x + 1) t end.
Lemma incr_from_weaken : forall l lo lo', lo <= lo' -> incr_from lo' l -> incr_from lo l.
Proof. destruct l as [|x t]; intros lo lo' H Hl; [exact I|]. destruct Hl as [H1 H2]. split; [lia|exact H2]. Qed.
Lemma incr_from_chain : forall l lo, incr_from lo l -> chainb N.ltb l = true.
Proof.
  induction l as [|x l IH]; intros lo H; [reflexivity|]. destruct H as [_ H]. destruct l as [|y l]; [reflexivity|].
  change (chainb N.ltb (x :: y :: l)) with ((x <? y) && chainb N.ltb (y :: l)). rewrite (IH _ H).
  destruct H as [H _]. replace (x <? y) with true by lia. reflexivity.
Qed.

Lemma split_blocks_concat : forall bls es,
  fold_right (fun b a => (length (fst b) + a)%nat) 0%nat bls = length es ->
  concat (map b_es (split_blocks es bls)) = es.
Proof.
  induction bls as [|[ch sp] bls IH]; intros es H; cbn [fold_right fst] in H.
  - destruct es; [reflexivity|discriminate].
  - cbn [split_blocks map concat]. unfold b_es at 1. cbn [fst]. rewrite IH; [apply firstn_skipn|].
    rewrite skipn_length. lia.
Qed.

Lemma split_blocks_sub : forall bls es, forallb entry_ok es = true -> keys_increasing es = true ->
  Forall (fun b => forallb entry_ok (b_es b) = true /\ keys_increasing (b_es b) = true) (split_blocks es bls).
Proof.
  induction bls as [|[ch sp] bls IH]; intros es He Hk; [constructor|]. cbn [split_blocks]. constructor.
  - unfold b_es. cbn [fst]. split; [apply forallb_firstn, He|apply chain_firstn, Hk].
  - apply IH; [apply forallb_skipn, He|apply chain_skipn, Hk].
Qed.

Section EncData.
Variable compress : N -> bytes -> option bytes.
Variable ver : fversion.
Variable comp : N.

Lemma encode_data_spec : forall blocks off data idx,
  encode_data compress ver comp off blocks = Some (data, idx) ->
  map fst idx = map b_sep blocks /\
  exists offs, map snd idx = map varint_encode64 offs /\ incr_from off offs /\
               Forall (fun o => o < off + len data) offs.
Proof.
  induction blocks as [|[[bes ch] sp] blocks IH]; intros off data idx H; cbn [encode_data] in H.
  - inversion H; subst. split; [reflexivity|]. exists []. splits; [reflexivity|exact I|constructor].
  - destruct (store compress comp (encode_block bes ch)) as [stored|]; [|discriminate].
    destruct (encode_data compress ver comp (off + len (encode_frame ver stored)) blocks) as [[rest idx']|] eqn:E; [|discriminate].
    inversion H; subst data idx; clear H. destruct (IH _ _ _ E) as (H1 & offs & H2 & H3 & H4).
    assert (Hpos : 4 <= len (encode_frame ver stored)) by (rewrite encode_frame_len; lia).
    cbn [map fst snd]. split; [f_equal; exact H1|]. exists (off :: offs). cbn [map]. splits.
    + f_equal. exact H2.
    + cbn [incr_from]. split; [lia|]. eapply incr_from_weaken; [|exact H3]. lia.
    + rewrite len_app. constructor; [lia|]. eapply Forall_impl; [|exact H4]. cbv beta. intros o Ho. lia.
Qed.
End EncData.

(* first and last key of a decoded block *)
Lemma pents_key : forall es ch off j, length es = length ch -> (j < length es)%nat ->
  pe_key (nth j (pents off es ch) dummy_pe) = fst (nth j es e0).
Proof.
  induction es as [|[k v] es IH]; intros ch off j H Hj; [cbn in Hj; lia|]. destruct ch as [|c ch]; [discriminate|].
  cbn [pents length] in *. destruct j as [|j]; [reflexivity|]. cbn [nth]. apply IH; lia.
Qed.

Lemma block_first_last b : block_ok (b_es b) (b_ch b) = true ->
  key_at (b_ab b) 0 = Encode.first_key (b_es b) /\
  key_at (b_ab b) (nentries (b_ab b) - 1) = Encode.last_key (b_es b) /\ b_es b <> [].
Proof.
  unfold block_ok. intros H. apply andb_prop in H. destruct H as [H _]. apply andb_prop in H. destruct H as [_ Hch].
  destruct (block_choices_ok_shape _ _ Hch) as (k & v & es' & ch' & Ees & Ech & Hc).
  pose proof (choices_ok_length _ _ _ Hc) as Hlen.
  unfold key_at, entry_at, nentries, b_ab, ablock_of. cbn [ab_entries]. rewrite pents_length by exact Hlen.
  assert (Hpos : (0 < length (b_es b))%nat) by (rewrite Ees; cbn [length]; lia).
  rewrite !pents_key by (try exact Hlen; lia). splits.
  - rewrite Ees. reflexivity.
  - unfold Encode.last_key. rewrite last_nth'. reflexivity.
  - rewrite Ees. discriminate.
Qed.

Lemma seps_check_encoded : forall blocks ies, seps_ok blocks = true ->
  Forall (fun b => block_ok (b_es b) (b_ch b) = true) blocks ->
  map pe_key ies = map b_sep blocks -> seps_check ies (loaded blocks) = true.
Proof.
  induction blocks as [|[[bes ch] sp] blocks IH]; intros ies Hs Hok Hk; [destruct ies; reflexivity|].
  destruct ies as [|ie ies]; [discriminate|]. cbn [map] in Hk. inversion Hk as [[Hk1 Hk2]]. clear Hk.
  unfold b_sep in Hk1; cbn [snd] in Hk1.
  pose proof (Forall_inv Hok) as Hb. pose proof (Forall_inv_tail Hok) as Hok'.
  destruct (block_first_last _ Hb) as (_ & Hlast & _). unfold b_es in Hlast; cbn [fst] in Hlast.
  cbn [seps_ok] in Hs. apply andb_prop in Hs. destruct Hs as [Hs Hs5]. apply andb_prop in Hs. destruct Hs as [Hs Hs4].
  apply andb_prop in Hs. destruct Hs as [Hs _]. apply andb_prop in Hs. destruct Hs as [Hs1 _].
  unfold loaded. cbn [map seps_check]. fold (loaded blocks). rewrite !Hk1, Hlast, Hs1, (IH ies Hs5 Hok' Hk2).
  destruct blocks as [|[[nes nch] nsp] blocks]; [reflexivity|]. cbn [loaded map].
  pose proof (Forall_inv Hok') as Hnb. destruct (block_first_last _ Hnb) as (Hfirst & _ & _).
  unfold b_es in Hfirst; cbn [fst] in Hfirst. rewrite Hfirst, Hs4. reflexivity.
Qed.

(* separators increase strictly *)
Lemma seps_increasing : forall blocks, seps_ok blocks = true ->
  Forall (fun b => b_es b <> [] /\ keys_increasing (b_es b) = true) blocks ->
  chain blt (map b_sep blocks) = true.
Proof.
  induction blocks as [|[[bes ch] sp] blocks IH]; intros Hs Hall; [reflexivity|].
  pose proof (Forall_inv_tail Hall) as Hall'.
  cbn [seps_ok] in Hs. apply andb_prop in Hs. destruct Hs as [Hs Hs5]. apply andb_prop in Hs. destruct Hs as [_ Hs4].
  specialize (IH Hs5 Hall').
  destruct blocks as [|[[nes nch] nsp] blocks]; [reflexivity|].
  cbn [map]. unfold b_sep at 1 2. cbn [snd].
  change (chain blt (sp :: nsp :: map b_sep blocks)) with (blt sp nsp && chain blt (nsp :: map b_sep blocks)).
  cbn [map] in IH. unfold b_sep at 1 in IH. cbn [snd] in IH. rewrite IH, Bool.andb_true_r.
  destruct (Forall_inv Hall') as [Hne Hk]. unfold b_es in Hne, Hk; cbn [fst] in Hne, Hk.
  cbn [seps_ok] in Hs5. apply andb_prop in Hs5. destruct Hs5 as [Hs5 _]. apply andb_prop in Hs5. destruct Hs5 as [Hs5 _].
  apply andb_prop in Hs5. destruct Hs5 as [Hs5 _]. apply andb_prop in Hs5. destruct Hs5 as [Hle _].
  assert (H1 : bcmp sp (Encode.first_key nes) = Lt) by (unfold blt in Hs4; destruct (bcmp sp (Encode.first_key nes)); congruence).
  assert (H3 : bcmp (Encode.last_key nes) nsp <> Gt) by (unfold ble in Hle; destruct (bcmp (Encode.last_key nes) nsp); congruence).
  pose proof (first_le_last nes Hne Hk) as H2.
  assert (H12 : bcmp sp (Encode.last_key nes) = Lt) by (eapply bcmp_lt_le_trans; eassumption).
  unfold blt. rewrite (bcmp_lt_le_trans _ _ _ H12 H3). reflexivity.
Qed.

Lemma chain_map_fst (idx : list entry) : chain (fun a b => blt (fst a) (fst b)) idx = chain blt (map fst idx).
Proof.
  induction idx as [|a idx IH]; [reflexivity|]. destruct idx as [|b idx]; [reflexivity|].
  change (chain (fun a b => blt (fst a) (fst b)) (a :: b :: idx)) with (blt (fst a) (fst b) && chain (fun a b => blt (fst a) (fst b)) (b :: idx)).
  rewrite IH. reflexivity.
Qed.

Section Table.
Variable compress : N -> bytes -> option bytes.
Variable decompress : N -> bytes -> res bytes.
Variable ver : fversion.
Variable comp : N.

(* a data block the reader can load *)
Definition block_good (b : blockT) : Prop :=
  block_ok (b_es b) (b_ch b) = true /\
  exists stored, store compress comp (b_raw b) = Some stored /\ fits ver stored /\ wf_bytes stored /\
                 (if comp =? COMP_NONE then Ok stored else decompress comp stored) = Ok (b_raw b).


Lemma load_blocks_encoded : forall blocks pre data idx post r ies,
  encode_data compress ver comp (len pre) blocks = Some (data, idx) ->
  r_file r = pre ++ data ++ post -> r_version r = ver_id ver -> r_comp r = comp ->
  len (r_file r) < 2 ^ 64 ->
  Forall block_good blocks ->
  map ent ies = idx ->
  load_blocks decompress r ies = Some (loaded blocks).
Proof.
  induction blocks as [|[[bes ch] sp] blocks IH]; intros pre data idx post r ies H Hf Hv Hc Hlen Hgood Hies; cbn [encode_data] in H.
  - inversion H; subst data idx. destruct ies; [reflexivity|discriminate].
  - destruct (Forall_inv Hgood) as (Hok & stored & Hst & Hfits & Hwf & Hdec). pose proof (Forall_inv_tail Hgood) as Hgood'.
    unfold b_raw, b_es, b_ch in Hst, Hdec, Hok. cbn [fst snd] in Hst, Hdec, Hok.
    rewrite Hst in H.
    destruct (encode_data compress ver comp (len pre + len (encode_frame ver stored)) blocks) as [[rest idx']|] eqn:E; [|discriminate].
    inversion H as [[Hd Hi]]; clear H. rewrite <- Hi in Hies. rewrite <- Hd in Hf. clear Hd Hi data idx.
    destruct ies as [|ie ies]; [discriminate|]. cbn [map] in Hies. inversion Hies as [[Hie Hies']]. clear Hies.
    rewrite <- Hc in Hdec.
    assert (Hval : pe_val ie = varint_encode64 (len pre)) by (unfold ent in Hie; congruence).
    assert (Hpre : len pre < 2 ^ 64) by (rewrite Hf, len_app in Hlen; lia).
    destruct (encode_block_decodes bes ch Hok) as (Hinit & _ & _ & _ & _ & Hrx & _ & Hchk).
    cbn [load_blocks]. rewrite Hval, <- (app_nil_r (varint_encode64 (len pre))), varint64_roundtrip by exact Hpre.
    rewrite (get_block_encoded decompress r ver pre stored (rest ++ post) (encode_block bes ch) (ablock_of bes ch)); try assumption.
    2:{ rewrite Hf, <- !app_assoc. reflexivity. }
    rewrite Hrx, Hchk.
    rewrite (IH (pre ++ encode_frame ver stored) rest idx' post r ies); try assumption; try reflexivity.
    + rewrite len_app. exact E.
    + rewrite Hf, <- !app_assoc. reflexivity.
Qed.

End Table.

Lemma encode_block_min es ch : 8 <= len (encode_block es ch).
Proof.
  unfold encode_block. set (rs := match restart_offsets 0 es ch with [] => [0] | r :: l => r :: l end).
  assert (Hne : (1 <= length rs)%nat) by (unfold rs; destruct (restart_offsets 0 es ch); cbn [length]; lia).
  rewrite !len_app, len_concat_enc32, len_fixed32. lia.
Qed.

Lemma seps_ok_wf : forall blocks, seps_ok blocks = true ->
  Forall (fun b => wf_bytes (b_sep b) /\ len (b_sep b) < 2 ^ 32) blocks.
Proof.
  induction blocks as [|[[bes ch] sp] blocks IH]; intros Hs; [constructor|].
  cbn [seps_ok] in Hs. apply andb_prop in Hs. destruct Hs as [Hs Hs5]. apply andb_prop in Hs. destruct Hs as [Hs _].
  apply andb_prop in Hs. destruct Hs as [Hs Hs3]. apply andb_prop in Hs. destruct Hs as [_ Hs2].
  constructor; [|apply IH, Hs5]. unfold b_sep. cbn [snd]. split; [apply wf_bytesb_spec, Hs2|lia].
Qed.

Lemma offs_decode : forall (ies : list pentry) offs, map pe_val ies = map varint_encode64 offs ->
  Forall (fun o => o < 2 ^ 64) offs ->
  map (fun ie => match varint_decode64 (pe_val ie) with Ok (v, _) => v | _ => 0 end) ies = offs.
Proof.
  induction ies as [|ie ies IH]; intros offs H Hb; destruct offs as [|o offs]; try discriminate; [reflexivity|].
  cbn [map] in *. inversion H as [[H1 H2]]. inversion Hb as [|? ? Ho Hb']; subst.
  rewrite H1, <- (app_nil_r (varint_encode64 o)), varint64_roundtrip by exact Ho. f_equal. apply IH; assumption.
Qed.

Lemma loaded_entries : forall blocks, Forall (fun b => length (b_es b) = length (b_ch b)) blocks ->
  table_entries_of (length (loaded blocks)) (blk (loaded blocks)) = concat (map b_es blocks).
Proof.
  intros blocks H. unfold table_entries_of, Gents, G, G_upto.
  assert (E : map (fun k => ab_entries (blk (loaded blocks) k)) (seq 0 (length (loaded blocks)))
              = map (fun x => ab_entries (fst x)) (loaded blocks)).
  { transitivity (map (fun x : ablock * list nat => ab_entries (fst x))
                    (map (fun k => nth k (loaded blocks) (dummy_ab, [])) (seq 0 (length (loaded blocks))))).
    - rewrite map_map. reflexivity.
    - rewrite map_nth_seq. reflexivity. }
  rewrite E. clear E. unfold loaded. rewrite map_map. cbn [fst].
  induction H as [|b blocks Hb _ IH]; [reflexivity|]. cbn [map concat]. rewrite map_app, IH. f_equal.
  unfold b_ab, ablock_of. cbn [ab_entries]. apply pents_ents, Hb.
Qed.

Lemma index_entries_ok (blocks : list blockT) (idx : list entry) offs :
  map fst idx = map b_sep blocks -> map snd idx = map varint_encode64 offs ->
  Forall (fun b => wf_bytes (b_sep b) /\ len (b_sep b) < 2 ^ 32) blocks -> forallb entry_ok idx = true.
Proof.
  intros Hf Hs Hb. apply forallb_forall. intros e He.
  assert (H1 : In (fst e) (map b_sep blocks)) by (rewrite <- Hf; apply in_map, He).
  assert (H2 : In (snd e) (map varint_encode64 offs)) by (rewrite <- Hs; apply in_map, He).
  apply in_map_iff in H1. destruct H1 as (b & Eb & Hin). rewrite Forall_forall in Hb. destruct (Hb b Hin) as [Hw Hl].
  apply in_map_iff in H2. destruct H2 as (o & Eo & _).
  unfold entry_ok. rewrite <- Eb, <- Eo.
  pose proof (varint_encode64_len o). change (2 ^ 32) with 4294967296 in *.
  repeat (apply andb_true_intro; split); try lia; apply wf_bytesb_spec; [exact Hw|apply wf_varint64].
Qed.

Definition data_blocks (lay : layout) (es : list entry) : list blockT := split_blocks es (l_blocks lay).
(* the uncompressed data blocks of the table *)
Definition raw_data_blocks (lay : layout) (es : list entry) : list bytes := map b_raw (data_blocks lay es).

Section LayoutFacts.
Variable compress : N -> bytes -> option bytes.

Record layout_facts (lay : layout) (es : list entry) (data : bytes) (idx : list entry) (f : bytes) : Prop := {
  lf_entries : forallb entry_ok es = true;
  lf_keys : keys_increasing es = true;
  lf_comp : l_comp lay < 2 ^ 64;
  lf_concat : concat (map b_es (data_blocks lay es)) = es;
  lf_blocks : Forall (fun b => block_ok (b_es b) (b_ch b) = true) (data_blocks lay es);
  lf_seps : seps_ok (data_blocks lay es) = true;
  lf_stored : Forall (fun b => exists stored, store compress (l_comp lay) (b_raw b) = Some stored /\
                                              fits (l_version lay) stored /\ wf_bytes stored) (data_blocks lay es);
  lf_data : encode_data compress (l_version lay) (l_comp lay) (len (l_prefix lay)) (data_blocks lay es) = Some (data, idx);
  lf_index : match idx with [] => l_index lay = [] | _ => block_choices_ok idx (l_index lay) = true end;
  lf_index_len : len (encode_block idx (l_index lay)) < 2 ^ 32;
  lf_file : encode_table compress lay es = Some f;
  lf_len : len f < 2 ^ 64;
}.

Lemma layout_ok_facts lay es : layout_ok compress lay es = true -> exists data idx f, layout_facts lay es data idx f.
Proof.
  unfold layout_ok. fold (data_blocks lay es). intros H.
  apply andb_prop in H; destruct H as [H H11]. apply andb_prop in H; destruct H as [H H10].
  apply andb_prop in H; destruct H as [H H9]. apply andb_prop in H; destruct H as [H H8].
  apply andb_prop in H; destruct H as [H H7]. apply andb_prop in H; destruct H as [H H6].
  apply andb_prop in H; destruct H as [H H5]. apply andb_prop in H; destruct H as [H H4].
  apply andb_prop in H; destruct H as [H H3]. apply andb_prop in H; destruct H as [H1 H2].
  destruct (encode_data compress (l_version lay) (l_comp lay) (len (l_prefix lay)) (data_blocks lay es)) as [[data idx]|] eqn:Ed; [|discriminate].
  destruct (encode_table compress lay es) as [f|] eqn:Ef; [|discriminate].
  apply andb_prop in H10; destruct H10 as [H10a H10b].
  exists data, idx, f. apply Nat.eqb_eq in H6.
  pose proof (split_blocks_sub (l_blocks lay) es H1 H2) as Hsub. fold (data_blocks lay es) in Hsub.
  rewrite Forall_forall in Hsub. rewrite forallb_forall in H7, H9.
  constructor; try assumption; try lia.
  - apply split_blocks_concat, H6.
  - apply Forall_forall. intros b Hb. destruct (Hsub b Hb) as [Ha Hk]. specialize (H7 b Hb). specialize (H9 b Hb).
    unfold block_ok. rewrite Ha, Hk. fold (b_es b) (b_ch b) in H7. rewrite H7. cbn [andb].
    destruct b as [[bes ch] sp]. unfold block_fits in H9. apply andb_prop in H9. destruct H9 as [H9 _].
    unfold b_es, b_ch. cbn [fst snd]. exact H9.
  - apply Forall_forall. intros b Hb. specialize (H9 b Hb). destruct b as [[bes ch] sp]. unfold block_fits in H9.
    apply andb_prop in H9. destruct H9 as [_ H9]. unfold b_raw, b_es, b_ch. cbn [fst snd].
    destruct (store compress (l_comp lay) (encode_block bes ch)) as [s|]; [|discriminate].
    apply andb_prop in H9. destruct H9 as [Hw Hl]. exists s. splits; [reflexivity| |apply wf_bytesb_spec, Hw].
    unfold fits. destruct (l_version lay).
    + change (2 ^ 32) with 4294967296 in *. change (2 ^ 64) with 18446744073709551616. split; [lia|intros _; lia].
    + split; [lia|discriminate].
  - destruct idx as [|e idx]; [|exact H10a]. destruct (l_index lay); [reflexivity|discriminate].
Qed.
End LayoutFacts.

Section EmptyTable.
Variable compress : N -> bytes -> option bytes.

(* the table without entries: no data block, an index block without entries and the single restart
   offset 0 - the reader opens it, and (empty_table) finds nothing in it *)
Theorem encoded_empty_table lay verify :
  layout_ok compress lay [] = true ->
  exists f r ib, encode_table compress lay [] = Some f /\ fst (reader_open f verify) = Ok (Some r) /\
                 r_index r = Some ib /\ ab_entries ib = [] /\ ab_restarts ib = [0].
Proof.
  intros Hok. destruct (layout_ok_facts compress lay [] Hok) as (data & idx & f & F).
  destruct F as [Hes Hkeys Hcomp Hconcat Hblocks Hseps Hstored Hdata Hindex Hilen Hfile Hlen].
  set (blocks := data_blocks lay []) in *. set (ver := l_version lay) in *. set (comp := l_comp lay) in *.
  set (ich := l_index lay) in *. set (pfx := l_prefix lay) in *.
  assert (Hb0 : blocks = []).
  { destruct blocks as [|b blocks]; [reflexivity|]. exfalso.
    destruct (block_first_last b (Forall_inv Hblocks)) as (_ & _ & Hn). cbn [map concat] in Hconcat.
    apply app_eq_nil in Hconcat. tauto. }
  rewrite Hb0 in Hdata. cbn [encode_data] in Hdata. inversion Hdata; subst data idx. clear Hdata.
  cbv iota in Hindex. rewrite Hindex in *.
  set (iraw := encode_block [] []) in *.
  assert (Hf : f = (pfx ++ []) ++ encode_frame ver iraw ++
                   encode_trailer ver [len (pfx ++ []); l_block_size lay; comp; N.of_nat (length (@nil entry));
                                       N.of_nat (length blocks); len (@nil N); len (encode_frame ver iraw);
                                       sumlen (map fst (@nil entry)); sumlen (map snd (@nil entry))]).
  { unfold encode_table in Hfile. fold ver comp pfx ich in Hfile. unfold data_blocks in blocks. fold blocks in Hfile.
    rewrite Hb0 in Hfile. cbn [encode_data] in Hfile. rewrite Hindex in Hfile. fold iraw in Hfile.
    inversion Hfile. rewrite Hb0, len_app, <- !app_assoc. reflexivity. }
  assert (Hiwf : wf_bytes iraw) by (apply encode_block_wf; constructor).
  assert (Hifits : fits ver iraw) by (split; [change (2 ^ 64) with 18446744073709551616; change (2 ^ 32) with 4294967296 in Hilen; lia|intros _; exact Hilen]).
  destruct (reader_open_encoded ver (pfx ++ []) iraw verify (l_block_size lay) comp (N.of_nat (length (@nil entry)))
              (N.of_nat (length blocks)) (len (@nil N)) (len (encode_frame ver iraw)) (sumlen (map fst (@nil entry))) (sumlen (map snd (@nil entry))))
    as [m Hopen]; try assumption; [rewrite <- Hf; exact Hlen|apply encode_block_min|].
  rewrite <- Hf in Hopen.
  eexists f, _, (mkab [] [0] 8 false).
  splits; [exact Hfile|exact Hopen|cbn [r_index]; exact (proj1 encode_block_empty)|reflexivity|reflexivity].
Qed.
End EmptyTable.

Section Main.
Variable compress : N -> bytes -> option bytes.
Variable decompress : N -> bytes -> res bytes.

(* the decompressor undoes the compressor on the blocks of this table *)
Definition decompress_inverts (lay : layout) (es : list entry) : Prop :=
  forall raw stored, In raw (raw_data_blocks lay es) ->
    compress (l_comp lay) raw = Some stored -> decompress (l_comp lay) stored = Ok raw.


(* Tier 2: the file of a non-empty table is opened by the reader (with or without checksum
   verification), passes the executable legality check, with exactly the chosen blocks, restart
   points and sharing, and its entry list is the encoded one *)
Theorem encoded_table_check lay es verify :
  layout_ok compress lay es = true -> decompress_inverts lay es -> es <> [] ->
  exists f r ib iridx,
    encode_table compress lay es = Some f /\
    fst (reader_open f verify) = Ok (Some r) /\
    table_check decompress r = Some (ib, iridx, loaded (data_blocks lay es)) /\
    table_entries_of (length (loaded (data_blocks lay es))) (blk (loaded (data_blocks lay es))) = es.
Proof.
  intros Hok Hinv Hne. destruct (layout_ok_facts compress lay es Hok) as (data & idx & f & F).
  destruct F as [Hes Hkeys Hcomp Hconcat Hblocks Hseps Hstored Hdata Hindex Hilen Hfile Hlen].
  unfold decompress_inverts, raw_data_blocks in Hinv.
  set (blocks := data_blocks lay es) in *. set (ver := l_version lay) in *. set (comp := l_comp lay) in *.
  set (ich := l_index lay) in *. set (pfx := l_prefix lay) in *.
  destruct (encode_data_spec compress ver comp blocks _ _ _ Hdata) as (Hfst & offs & Hsnd & Hincr & Hoffs).
  assert (Hbne : blocks <> []) by (intros E; rewrite E in Hconcat; cbn in Hconcat; congruence).
  assert (Hine : idx <> []) by (intros E; rewrite E in Hfst; destruct blocks; [congruence|discriminate]).
  set (iraw := encode_block idx ich) in *.
  assert (Hf : f = (pfx ++ data) ++ encode_frame ver iraw ++
                   encode_trailer ver [len (pfx ++ data); l_block_size lay; comp; N.of_nat (length es);
                                       N.of_nat (length blocks); len data; len (encode_frame ver iraw);
                                       sumlen (map fst es); sumlen (map snd es)]).
  { unfold encode_table in Hfile. fold blocks ver comp pfx ich in Hfile. unfold data_blocks in blocks. fold blocks in Hfile.
    rewrite Hdata in Hfile. inversion Hfile. rewrite len_app, <- !app_assoc. reflexivity. }
  (* the index block *)
  pose proof (seps_ok_wf blocks Hseps) as Hsepwf.
  assert (Hies : forallb entry_ok idx = true) by (eapply index_entries_ok; eassumption).
  assert (Hsub : Forall (fun b => b_es b <> [] /\ keys_increasing (b_es b) = true) blocks).
  { eapply Forall_impl; [|exact Hblocks]. cbv beta. intros b Hb. destruct (block_first_last b Hb) as (_ & _ & Hn).
    split; [exact Hn|]. unfold block_ok in Hb. apply andb_prop in Hb. destruct Hb as [Hb _]. apply andb_prop in Hb. destruct Hb as [Hb _].
    apply andb_prop in Hb. tauto. }
  assert (Hiok : block_ok idx ich = true).
  { unfold block_ok. fold iraw. rewrite Hies. unfold keys_increasing. rewrite chain_map_fst, Hfst, (seps_increasing blocks Hseps Hsub).
    destruct idx as [|e idx]; [congruence|]. rewrite Hindex. cbn [andb]. lia. }
  destruct (encode_block_decodes idx ich Hiok) as (Hinit & _ & Hents & _ & _ & Hrx & _ & Hchk). fold iraw in Hinit.
  assert (Hiwf : wf_bytes iraw).
  { apply encode_block_wf. apply Forall_forall. intros e He. apply entry_ok_wf. rewrite forallb_forall in Hies. apply Hies, He. }
  assert (Hifits : fits ver iraw) by (split; [change (2 ^ 64) with 18446744073709551616; change (2 ^ 32) with 4294967296 in Hilen; lia|intros _; exact Hilen]).
  destruct (reader_open_encoded ver (pfx ++ data) iraw verify (l_block_size lay) comp (N.of_nat (length es))
              (N.of_nat (length blocks)) (len data) (len (encode_frame ver iraw)) (sumlen (map fst es)) (sumlen (map snd es)))
    as [m Hopen]; try assumption; [rewrite <- Hf; exact Hlen|apply encode_block_min|].
  rewrite <- Hf in Hopen.
  assert (Hu : u64 comp = comp) by (unfold u64; apply N.mod_small; exact Hcomp). rewrite Hu in Hopen.
  set (r := mkreader f (ver_id ver) comp verify (block_init iraw) m) in *.
  exists f, r, (ablock_of idx ich), (ridx_of_choices ich). splits.
  - exact Hfile.
  - exact Hopen.
  - unfold table_check. unfold r at 1. cbn [r_index]. rewrite Hinit, Hrx, Hchk. cbn [negb].
    assert (Hgood : Forall (block_good compress decompress ver comp) blocks).
    { apply Forall_forall. intros b Hb. rewrite Forall_forall in Hblocks, Hstored. split; [apply Hblocks, Hb|].
      destruct (Hstored b Hb) as (stored & Hst & Hfit & Hwf). exists stored. splits; try assumption.
      unfold store in Hst. unfold COMP_NONE. destruct (comp =? 0); [congruence|].
      apply Hinv; [apply in_map, Hb|exact Hst]. }
    rewrite (load_blocks_encoded compress decompress ver comp blocks pfx data idx
               (encode_frame ver iraw ++ encode_trailer ver [len (pfx ++ data); l_block_size lay; comp; N.of_nat (length es);
                                       N.of_nat (length blocks); len data; len (encode_frame ver iraw);
                                       sumlen (map fst es); sumlen (map snd es)]) r (ab_entries (ablock_of idx ich)));
      try assumption; try reflexivity.
    2:{ unfold r. cbn [r_file]. rewrite Hf at 1. rewrite <- !app_assoc. reflexivity. }
    assert (Hoffs64 : Forall (fun o => o < 2 ^ 64) offs).
    { eapply Forall_impl; [|exact Hoffs]. cbv beta. intros o Ho. rewrite Hf, !len_app in Hlen. lia. }
    assert (Eoffs : offs_of (ablock_of idx ich) = offs).
    { unfold offs_of. apply offs_decode; [|exact Hoffs64].
      transitivity (map snd (map ent (ab_entries (ablock_of idx ich)))); [rewrite map_map; reflexivity|].
      rewrite Hents. exact Hsnd. }
    rewrite Eoffs, (incr_from_chain _ _ Hincr). cbn [andb].
    rewrite seps_check_encoded; [reflexivity|exact Hseps|exact Hblocks|].
    transitivity (map fst (map ent (ab_entries (ablock_of idx ich)))); [rewrite map_map; reflexivity|].
    rewrite Hents. exact Hfst.
  - rewrite loaded_entries; [exact Hconcat|]. eapply Forall_impl; [|exact Hblocks]. cbv beta. intros b Hb.
    unfold block_ok in Hb. apply andb_prop in Hb. destruct Hb as [Hb _]. apply andb_prop in Hb. destruct Hb as [_ Hb].
    destruct (block_choices_ok_shape _ _ Hb) as (_ & _ & _ & _ & _ & _ & Hc). eapply choices_ok_length, Hc.
Qed.


(* ---- Tier 3: end to end -------------------------------------------------------------------------------- *)
(* opening the encoded file and iterating from the start returns exactly the encoded entries *)
Theorem encoded_read_all lay es fuel :
  layout_ok compress lay es = true -> decompress_inverts lay es -> (length es < fuel)%nat ->
  exists f, encode_table compress lay es = Some f /\ read_all decompress fuel f = Ok es.
Proof.
  intros Hok Hinv Hfuel. destruct es as [|e es].
  - destruct (encoded_empty_table compress lay false Hok) as (f & r & ib & Hf & Hopen & Hi & He & Hr).
    exists f. split; [exact Hf|]. unfold read_all. rewrite Hopen.
    rewrite (proj1 (empty_table decompress r ib 0 Hi He Hr)). reflexivity.
  - destruct (encoded_table_check lay (e :: es) false Hok Hinv ltac:(discriminate)) as (f & r & ib & iridx & Hf & Hopen & Hchk & Hent).
    exists f. split; [exact Hf|]. unfold read_all. rewrite Hopen.
    destruct (legal_tables decompress r ib iridx _ Hchk) as (Hiter & _). cbv zeta in Hiter. rewrite Hent in Hiter.
    destruct (Hiter fuel Hfuel) as (it & -> & ->). reflexivity.
Qed.

(* the same with either setting of verify_checksums, and for the lookups: get / get_prefix /
   get_range return exactly the matching encoded entries *)
Theorem encoded_table_correct lay es verify :
  layout_ok compress lay es = true -> decompress_inverts lay es -> es <> [] ->
  exists f r, encode_table compress lay es = Some f /\ fst (reader_open f verify) = Ok (Some r) /\
    (forall fuel, (length es < fuel)%nat ->
       exists it, reader_iter decompress r = Ok (Some it) /\ drain decompress fuel r it = Ok es) /\
    (forall kind k0 k1 fuel, kind <> KIter -> (length es < fuel)%nat ->
       match reader_iter_init decompress r kind k0 (match kind with KRange => k1 | _ => k0 end) with
       | Ok (Some it) => drain decompress fuel r it = Ok (filter (fun e => lookup_pred kind k0 k1 (fst e)) es)
       | Ok None => filter (fun e => lookup_pred kind k0 k1 (fst e)) es = []
       | _ => False
       end).
Proof.
  intros Hok Hinv Hne.
  destruct (encoded_table_check lay es verify Hok Hinv Hne) as (f & r & ib & iridx & Hf & Hopen & Hchk & Hent).
  exists f, r. splits; [exact Hf|exact Hopen| |];
    destruct (legal_tables decompress r ib iridx _ Hchk) as (Hiter & Hlook & _); cbv zeta in Hiter, Hlook; rewrite Hent in *; assumption.
Qed.

(* every history of next / seek on an iterator over the encoded file equals the history of a
   cursor over the entry list of the blocks (which is the encoded entry list, encoded_table_check) *)
Theorem encoded_table_histories lay es verify :
  layout_ok compress lay es = true -> decompress_inverts lay es -> es <> [] ->
  exists f r, encode_table compress lay es = Some f /\ fst (reader_open f verify) = Ok (Some r) /\
    let bl := loaded (data_blocks lay es) in
    table_entries_of (length bl) (blk bl) = es /\
    (exists it, reader_iter decompress r = Ok (Some it) /\
       forall ops, run_model decompress r it ops = Ok (run_spec (length bl) (blk bl) KIter (it_k it) (Some 0%nat) ops)) /\
    (forall kind key bound,
       match reader_iter_init decompress r kind key bound with
       | Ok (Some it) => forall ops, run_model decompress r it ops =
                                     Ok (run_spec (length bl) (blk bl) kind bound (Some (gfirst (length bl) (blk bl) key)) ops)
       | Ok None => gfirst (length bl) (blk bl) key = total (length bl) (blk bl)
       | _ => False
       end).
Proof.
  intros Hok Hinv Hne.
  destruct (encoded_table_check lay es verify Hok Hinv Hne) as (f & r & ib & iridx & Hf & Hopen & Hchk & Hent).
  exists f, r. destruct (legal_tables decompress r ib iridx _ Hchk) as (_ & _ & H3 & H4).
  split; [exact Hf|]. split; [exact Hopen|]. cbv zeta. split; [exact Hent|]. split; [exact H3|exact H4].
Qed.

Theorem encoded_empty_correct lay verify :
  layout_ok compress lay [] = true ->
  exists f r, encode_table compress lay [] = Some f /\ fst (reader_open f verify) = Ok (Some r) /\
    reader_iter decompress r = Ok None /\
    forall kind key bound, reader_iter_init decompress r kind key bound = Ok None.
Proof.
  intros Hok. destruct (encoded_empty_table compress lay verify Hok) as (f & r & ib & Hf & Hopen & Hi & He & Hr).
  exists f, r. destruct (empty_table decompress r ib 0 Hi He Hr) as [H1 H2]. splits; assumption.
Qed.
End Main.

(* every byte of the encoded file is a byte (when the compressor returns bytes, which layout_ok checks) *)
Section FileBytes.
Variable compress : N -> bytes -> option bytes.

Lemma encode_data_wf ver comp : forall blocks off data idx,
  encode_data compress ver comp off blocks = Some (data, idx) ->
  Forall (fun b => exists stored, store compress comp (b_raw b) = Some stored /\ fits ver stored /\ wf_bytes stored) blocks ->
  wf_bytes data.
Proof.
  induction blocks as [|[[bes ch] sp] blocks IH]; intros off data idx H Hall; cbn [encode_data] in H.
  - inversion H. constructor.
  - destruct (Forall_inv Hall) as (stored & Hst & _ & Hwf). unfold b_raw, b_es, b_ch in Hst. cbn [fst snd] in Hst.
    rewrite Hst in H.
    destruct (encode_data compress ver comp (off + len (encode_frame ver stored)) blocks) as [[rest idx']|] eqn:E; [|discriminate].
    inversion H. apply wf_app; [apply encode_frame_wf, Hwf|]. eapply IH; [exact E|exact (Forall_inv_tail Hall)].
Qed.

Theorem encoded_file_wf lay es f :
  layout_ok compress lay es = true -> encode_table compress lay es = Some f -> wf_bytes f.
Proof.
  intros Hok Hf. destruct (layout_ok_facts compress lay es Hok) as (data & idx & f' & F).
  destruct F as [Hes Hkeys Hcomp Hconcat Hblocks Hseps Hstored Hdata Hindex Hilen Hfile Hlen].
  rewrite Hf in Hfile. inversion Hfile; subst f'. clear Hfile.
  destruct (encode_data_spec compress _ _ _ _ _ _ Hdata) as (Hfst & offs & Hsnd & _ & _).
  assert (Hies : forallb entry_ok idx = true) by (eapply index_entries_ok; [exact Hfst|exact Hsnd|apply seps_ok_wf, Hseps]).
  unfold encode_table in Hf. unfold data_blocks in Hdata. rewrite Hdata in Hf. inversion Hf.
  unfold layout_ok in Hok. repeat (apply andb_prop in Hok; destruct Hok as [Hok ?]).
  apply wf_app; [|apply wf_app; [|apply wf_app]].
  - apply wf_bytesb_spec. assumption.
  - eapply encode_data_wf; [exact Hdata|exact Hstored].
  - apply encode_frame_wf, encode_block_wf. apply Forall_forall. intros e He. apply entry_ok_wf.
    rewrite forallb_forall in Hies. apply Hies, He.
  - unfold encode_trailer. apply wf_app; [|apply wf_app; [apply wf_repeat0|apply wf_fixed32]].
    apply wf_concat. apply Forall_forall. intros x Hx. apply in_map_iff in Hx. destruct Hx as (v & <- & _). apply wf_fixed64.
Qed.
End FileBytes.

(* ---- non-vacuity: concrete layouts -------------------------------------------------------------------- *)
Module Examples.
Definition es0 : list entry :=
  [([97; 97; 97], [1]); ([97; 97; 98], [2; 2]); ([97; 97; 98; 99], []); ([97; 98], [3]);
   ([98; 0; 0], [4]); ([98; 0; 1], [5]); ([98; 1], repeat 7 20);
   ([99; 99; 99; 1], [6]); ([99; 99; 99; 2], [7])].
(* three data blocks of 4 / 3 / 2 entries behind five foreign bytes; irregular restart points
   (entries 0 and 3 of block 0; 0 of block 1; 0 and 1 of block 2); sharing below the common
   prefix (entry 2 of block 0 shares 1 of 3 common bytes, entry 2 of block 1 shares 0 of 1);
   separator of block 0 = its last key, of block 1 a key strictly between the blocks, of block 2
   beyond the last key; in the index block entry 1 shares nothing and entry 2 is a restart point *)
Definition lay0 (v : fversion) (comp : N) : layout :=
  mklayout v [222; 173; 190; 239; 0] comp 8192
    [([None; Some 2; Some 1; None], [97; 98]);
     ([None; Some 2; Some 0], [98; 2]);
     ([None; None], [99; 99; 99; 2; 5])]
    [None; Some 0; None].
(* a toy compression library: algorithm 3 reverses the block *)
Definition comp0 (c : N) (b : bytes) : option bytes := if c =? 3 then Some (rev b) else None.
Definition decomp0 (c : N) (b : bytes) : res bytes := if c =? 3 then Ok (rev b) else Fail.

Definition outcome (v : fversion) (comp : N) (verify : bool) :=
  match encode_table comp0 (lay0 v comp) es0 with
  | Some f =>
    match fst (reader_open f verify) with
    | Ok (Some r) =>
      match table_check decomp0 r with
      | Some (ib, iridx, bl) =>
        Some (iridx, map snd bl, map (fun x => map pe_shared (ab_entries (fst x))) bl,
              table_entries_of (length bl) (blk bl), read_all decomp0 10 f)
      | None => None
      end
    | _ => None
    end
  | None => None
  end.
Definition expected :=
  Some ([0; 2]%nat, [[0; 3]%nat; [0%nat]; [0; 1]%nat], [[0; 2; 1; 0]; [0; 2; 0]; [0; 0]], es0, Ok es0).

Example layout_v1_legal : layout_ok comp0 (lay0 V1 0) es0 = true.  Proof. vm_compute. reflexivity. Qed.
Example layout_v2_legal : layout_ok comp0 (lay0 V2 0) es0 = true.  Proof. vm_compute. reflexivity. Qed.
Example layout_v1c_legal : layout_ok comp0 (lay0 V1 3) es0 = true. Proof. vm_compute. reflexivity. Qed.
Example layout_v2c_legal : layout_ok comp0 (lay0 V2 3) es0 = true. Proof. vm_compute. reflexivity. Qed.
Example read_v1 : outcome V1 0 true = expected.   Proof. vm_compute. reflexivity. Qed.
Example read_v2 : outcome V2 0 true = expected.   Proof. vm_compute. reflexivity. Qed.
Example read_v1c : outcome V1 3 false = expected. Proof. vm_compute. reflexivity. Qed.
Example read_v2c : outcome V2 3 true = expected.  Proof. vm_compute. reflexivity. Qed.
Example empty_legal : layout_ok comp0 (mklayout V1 [1; 2; 3] 0 8192 [] []) [] = true /\
                      layout_ok comp0 (mklayout V2 [] 3 8192 [] []) [] = true.
Proof. split; vm_compute; reflexivity. Qed.

Lemma decomp0_inverts v c : decompress_inverts comp0 decomp0 (lay0 v c) es0.
Proof.
  intros raw stored _ H. cbn [lay0 l_comp] in *. unfold comp0, decomp0 in *. destruct (c =? 3); [|discriminate].
  inversion H. rewrite rev_involutive. reflexivity.
Qed.
(* the theorems apply to these layouts (their hypotheses are satisfiable) *)
Example theorem_applies : exists f, encode_table comp0 (lay0 V1 3) es0 = Some f /\ read_all decomp0 10 f = Ok es0.
Proof. apply encoded_read_all; [exact layout_v1c_legal|apply decomp0_inverts|cbn; lia]. Qed.
(* cross-check of the format: with the layout the model writer happens to choose (restart interval 2,
   maximal sharing, block size 64, shortest separators) the independent encoder produces, byte for
   byte, the file of the writer model *)
Example agrees_with_writer :
  let es := [([], [9]); ([97], repeat 120 30); ([97; 98], repeat 121 30); ([98], repeat 122 30); ([98; 0], [])] in
  let lay := mklayout V2 [] 0 64
               [([None; Some 0], [97]); ([None], [97; 98]); ([None; Some 1], [98; 0])]
               [None; Some 1; None] in
  match writer_session (fun _ _ => Fail) (fun _ _ _ => Fail) (mkwopts 0 (-10000)%Z 64 2) 0 es with
  | Ok (w, _) => encode_table comp0 lay es = Some (writer_bytes w) /\ layout_ok comp0 lay es = true
  | _ => False
  end.
Proof. vm_compute. split; reflexivity. Qed.
End Examples.

Print Assumptions encode_block_decodes.
Print Assumptions encoded_table_check.
Print Assumptions encoded_empty_table.
Print Assumptions encoded_read_all.
Print Assumptions encoded_table_correct.
Print Assumptions encoded_table_histories.
Print Assumptions encoded_empty_correct.
Print Assumptions encoded_file_wf.
Print Assumptions Examples.theorem_applies.
