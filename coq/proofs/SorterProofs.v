From Coq Require Import NArith ZArith List Lia ZifyBool ZifyN ZifyNat.
From Mtbl Require Import gen.Consts model.Bytes model.Order model.Heap model.Merger model.Sorter
  proofs.BytesLemmas proofs.OrderProofs.
Local Open Scope N_scope.
Ltac Zify.zify_post_hook ::= Z.div_mod_to_equations.

Section S.
Variable mergef : option (bytes -> bytes -> bytes -> option bytes).
Variable sort : list entry -> list entry.

(* T06b: after every add the buffered entries are below the memory limit *)
Lemma sorter_add_bound s k v s' r : 1 <= so_max_memory s ->
  sorter_add mergef sort s k v = Ok (s', r) -> so_iterating s = false ->
  so_entry_bytes s' + SORTER_PTR_BYTES * N.of_nat (length (so_vec s')) < so_max_memory s' /\
  so_max_memory s' = so_max_memory s.
Proof.
  intros Hm H Hi. unfold sorter_add in H. rewrite Hi in H.
  match type of H with (if ?c then _ else _) = _ => destruct c eqn:E end.
  - unfold sorter_flush in H. cbn [so_vec so_chunks so_iterating so_max_memory] in H.
    destruct (write_chunk mergef sort (so_vec s ++ [(k, v)])) as [c| | |]; try discriminate.
    inversion H; subst; clear H. cbn. unfold SORTER_PTR_BYTES. split; [lia|reflexivity].
  - inversion H; subst; clear H. cbn [so_entry_bytes so_vec so_max_memory]. split; [lia|reflexivity].
Qed.

(* T06d: once iteration has begun an add is refused and changes nothing *)
Lemma sorter_add_refused s k v : so_iterating s = true -> sorter_add mergef sort s k v = Ok (s, false).
Proof. intros H. unfold sorter_add. rewrite H. reflexivity. Qed.

Lemma sorter_iter_sets_flag s s' it : sorter_iter mergef sort s = Ok (s', Some it) -> so_iterating s' = true.
Proof.
  unfold sorter_iter. intros H.
  destruct (match so_vec s with [] => Ok (s, true) | _ :: _ => sorter_flush mergef sort s end) as [[s1 [|]]| | |]; try discriminate.
  destruct (existsb _ _); [discriminate|].
  destruct (merger_iter_make _ _ _); [|discriminate]. inversion H; subst. reflexivity.
Qed.

(* a written chunk has strictly increasing keys when the sort function sorts by key *)
Fixpoint keys_le (l : list entry) : Prop :=
  match l with
  | a :: ((b :: _) as tl) => bcmp (fst a) (fst b) <> Gt /\ keys_le tl
  | _ => True
  end.
Fixpoint keys_lt (l : list entry) : Prop :=
  match l with
  | a :: ((b :: _) as tl) => bcmp (fst a) (fst b) = Lt /\ keys_lt tl
  | _ => True
  end.

Lemma fold_sorted_strict : forall fuel l r, keys_le l -> fold_sorted mergef fuel l = Ok r ->
  keys_lt r /\ (match l with (k0, _) :: _ => match r with (k1, _) :: _ => k1 = k0 | [] => False end | [] => r = [] end).
Proof.
  induction fuel as [|fuel IH]; intros l r Hs H; cbn [fold_sorted] in H; [discriminate|].
  destruct l as [|[k0 v0] [|[k1 v1] tl]].
  - inversion H; subst. split; [exact I|reflexivity].
  - inversion H; subst. split; [exact I|reflexivity].
  - destruct Hs as [Hle Hs]. cbn [fst] in Hle.
    destruct (beq k0 k1) eqn:E.
    + destruct mergef as [mf|]; [|discriminate].
      destruct (mf k0 v0 v1) as [m|]; [|discriminate].
      assert (Hk : k0 = k1) by (unfold beq in E; destruct (bcmp k0 k1) eqn:Ec; try discriminate; apply bcmp_eq, Ec).
      subst k1.
      assert (Hs' : keys_le ((k0, m) :: tl)) by (destruct tl as [|[k2 v2] tl]; [exact I|exact Hs]).
      destruct (IH _ _ Hs' H) as [H1 H2]. split; [exact H1|exact H2].
    + match type of H with match ?x with Ok _ => _ | Fail => _ | Abort => _ | Oob => _ end = _ =>
        destruct x as [r'| | |] eqn:Er; try discriminate end.
      assert (Hr : r = (k0, v0) :: r') by congruence. subst r. clear H.
      destruct (IH _ _ Hs Er) as [H1 H2].
      split; [|reflexivity].
      destruct r' as [|[k2 v2] r']; [exact I|]. subst k2. split; [|exact H1]. cbn [fst].
      unfold beq in E. destruct (bcmp k0 k1) eqn:Ec; try discriminate; [reflexivity|congruence].
Qed.
End S.
