(* merger.c WITHOUT a merge function (mtbl_merger_options_set_merge_func not called), with or
   without a dupsort function, and the merge function TOGETHER with a dupsort function:
   closed statements about model/Merger.v over model/Heap.v (proofs/MergerGen.v instantiated).

   Tier 1  (no merge function, no dupsort):   T1_nomerge_sources, T1_next_call, T1_next_none_iff, T1_content
   Tier 2  (no merge function, dupsort f):    T2_nomerge_sources, T2_next_call, T2_next_none_iff, T2_content
           hypothesis on f: dupsort_ok f - for every key, "f k a b <> Gt" is total and transitive;
           dupsort_ok_iff: that is EXACTLY "the heap comparison mcmp (Some f) is a total preorder"
           T2_any_dupsort: for an ARBITRARY f (no hypothesis) still every entry once, keys ascending
   Tier 3  (merge function and dupsort f):    T3_merge_sources, T3_next_call
           the value delivered for a key is the fold over all its values taken in dupsort order
           T3_any_dupsort: for an ARBITRARY f the statement of MergerClosed.merge_sources
   any dupsort option at once:                nomerge_sources_fuel, nomerge_next, merge_sources_ds_fuel
   sources that hold several entries per key, in dupsort order (a merger as source): nomerge_sources_dups *)
From Coq Require Import NArith List Lia Permutation Sorting.Sorted.
From Mtbl Require Import model.Bytes model.Order model.Heap model.Merger spec.MergeSpec proofs.OrderProofs
  proofs.HeapProofs proofs.HeapWeak proofs.MergerProofs proofs.MergerClosed proofs.MergerGen.
Local Open Scope N_scope.

(* ---- what the dupsort function has to satisfy ---------------------------------------------------- *)
Definition dupsort_ok (f : bytes -> bytes -> bytes -> comparison) : Prop :=
  (forall k a b c, f k a b <> Gt -> f k b c <> Gt -> f k a c <> Gt) /\
  (forall k a b, f k a b <> Gt \/ f k b a <> Gt).
Definition ds_ok (ds : option (bytes -> bytes -> bytes -> comparison)) : Prop :=
  match ds with Some f => dupsort_ok f | None => True end.

Lemma mcmp_trans ds : ds_ok ds -> forall a b c, mcmp ds a b <> Gt -> mcmp ds b c <> Gt -> mcmp ds a c <> Gt.
Proof.
  intros Hds a b c. unfold mcmp.
  destruct (bcmp (he_key a) (he_key b)) eqn:E1; try congruence;
  destruct (bcmp (he_key b) (he_key c)) eqn:E2; try congruence; intros H1 H2.
  - apply bcmp_eq in E1. apply bcmp_eq in E2. rewrite E1, E2, bcmp_refl.
    destruct ds as [f|]; [|discriminate]. rewrite E1 in H1. rewrite <- E2. exact (proj1 Hds _ _ _ _ H1 H2).
  - apply bcmp_eq in E1. rewrite E1, E2. discriminate.
  - apply bcmp_eq in E2. rewrite <- E2, E1. discriminate.
  - rewrite (bcmp_lt_trans _ _ _ E1 E2). discriminate.
Qed.
Lemma mcmp_total ds : ds_ok ds -> forall a b, mcmp ds a b <> Gt \/ mcmp ds b a <> Gt.
Proof.
  intros Hds a b. unfold mcmp. rewrite (bcmp_antisym (he_key a) (he_key b)).
  destruct (bcmp (he_key a) (he_key b)) eqn:E; cbn [CompOpp]; [|left; discriminate|right; discriminate].
  destruct ds as [f|]; [|left; discriminate]. apply bcmp_eq in E. rewrite E. apply (proj2 Hds).
Qed.

(* the hypothesis is necessary as well: it is the total-preorder hypothesis of HeapProofs on mcmp (Some f) *)
Lemma dupsort_ok_iff f : dupsort_ok f <->
  (forall a b c, le hent (mcmp (Some f)) a b -> le hent (mcmp (Some f)) b c -> le hent (mcmp (Some f)) a c) /\
  (forall a b, le hent (mcmp (Some f)) a b \/ le hent (mcmp (Some f)) b a).
Proof.
  split.
  - intros H. split; [exact (mcmp_trans (Some f) H)|exact (mcmp_total (Some f) H)].
  - intros [Ht Ho]. split.
    + intros k a b c. specialize (Ht (mkhe 0 k a false) (mkhe 0 k b false) (mkhe 0 k c false)).
      unfold le, mcmp in Ht. cbn [he_key he_val] in Ht. rewrite bcmp_refl in Ht. exact Ht.
    + intros k a b. specialize (Ho (mkhe 0 k a false) (mkhe 0 k b false)).
      unfold le, mcmp in Ho. cbn [he_key he_val] in Ho. rewrite bcmp_refl in Ho. exact Ho.
Qed.

(* ---- the orders on entries --------------------------------------------------------------------------- *)
(* key, then dupsort *)
Definition ent_le (ds : option (bytes -> bytes -> bytes -> comparison)) (a b : entry) : Prop :=
  bcmp (fst a) (fst b) = Lt \/
  (fst a = fst b /\ match ds with Some f => f (fst a) (snd a) (snd b) <> Gt | None => True end).
(* the order on the values of one key *)
Definition val_le (ds : option (bytes -> bytes -> bytes -> comparison)) (k v w : bytes) : Prop :=
  match ds with Some f => f k v w <> Gt | None => True end.
(* the keys alone *)
Definition kle (a b : entry) : Prop := bcmp (fst a) (fst b) <> Gt.

(* the heap comparison IS the order "key, then dupsort" *)
Lemma mcmp_ent_le ds a b : mcmp ds a b <> Gt <-> ent_le ds (he_key a, he_val a) (he_key b, he_val b).
Proof.
  unfold ent_le, mcmp. cbn [fst snd]. destruct (bcmp (he_key a) (he_key b)) eqn:E.
  - apply bcmp_eq in E. split.
    + intros H. right. split; [exact E|]. destruct ds; [exact H|exact I].
    + intros [H|[_ H]]; [discriminate|]. destruct ds; [exact H|discriminate].
  - split; [intros _; left; reflexivity|intros _; discriminate].
  - split; [intros H; congruence|]. intros [H|[H _]]; [discriminate|]. rewrite H, bcmp_refl in E. discriminate.
Qed.
Lemma ent_le_mcmp ds a b : ent_le ds a b <-> mcmp ds (mkhe 0 (fst a) (snd a) false) (mkhe 0 (fst b) (snd b) false) <> Gt.
Proof. destruct a as [ka va], b as [kb vb]. symmetry. apply (mcmp_ent_le ds (mkhe 0 ka va false) (mkhe 0 kb vb false)). Qed.

Lemma ent_le_key ds a b : ent_le ds a b -> bcmp (fst a) (fst b) <> Gt.
Proof. intros [H|[H _]]; [congruence|]. rewrite H, bcmp_refl. discriminate. Qed.
Lemma ent_le_val_le ds k v w : ent_le ds (k, v) (k, w) -> val_le ds k v w.
Proof. intros [H|[_ H]]; [cbn [fst] in H; rewrite bcmp_refl in H; discriminate|exact H]. Qed.

(* "key, then dupsort" meets the requirements of MergerGen when the dupsort function is in order *)
Lemma E_trans ds : ds_ok ds -> forall a b c, ent_le ds a b -> ent_le ds b c -> ent_le ds a c.
Proof. intros Hds a b c H1 H2. apply ent_le_mcmp. apply ent_le_mcmp in H1. apply ent_le_mcmp in H2. exact (mcmp_trans ds Hds _ _ _ H1 H2). Qed.
Lemma E_total ds : ds_ok ds -> forall a b, ent_le ds a b \/ ent_le ds b a.
Proof.
  intros Hds a b. destruct (mcmp_total ds Hds (mkhe 0 (fst a) (snd a) false) (mkhe 0 (fst b) (snd b) false)) as [H|H];
    [left|right]; apply ent_le_mcmp, H.
Qed.
Lemma E_le ds : forall a b, mcmp ds a b <> Gt -> ent_le ds (he_key a, he_val a) (he_key b, he_val b).
Proof. intros a b. apply mcmp_ent_le. Qed.
Lemma E_gt ds : ds_ok ds -> forall a b, mcmp ds a b = Gt -> ent_le ds (he_key b, he_val b) (he_key a, he_val a).
Proof. intros Hds a b H. apply mcmp_ent_le. destruct (mcmp_total ds Hds a b) as [H1|H1]; [congruence|exact H1]. Qed.

(* the key order meets them for EVERY dupsort option *)
Lemma K_trans : forall a b c, kle a b -> kle b c -> kle a c.
Proof. intros a b c. unfold kle. apply bcmp_le_trans. Qed.
Lemma K_total : forall a b, kle a b \/ kle b a.
Proof. intros a b. unfold kle. rewrite (bcmp_antisym (fst a) (fst b)). destruct (bcmp (fst a) (fst b)); cbn; [left|left|right]; discriminate. Qed.
Lemma K_le ds : forall a b, mcmp ds a b <> Gt -> kle (he_key a, he_val a) (he_key b, he_val b).
Proof. intros a b. unfold kle, mcmp. cbn [fst]. destruct (bcmp (he_key a) (he_key b)); congruence. Qed.
Lemma K_gt ds : forall a b, mcmp ds a b = Gt -> kle (he_key b, he_val b) (he_key a, he_val a).
Proof.
  intros a b. unfold kle, mcmp. cbn [fst]. rewrite (bcmp_antisym (he_key a) (he_key b)).
  destruct (bcmp (he_key a) (he_key b)); cbn [CompOpp]; congruence.
Qed.
Lemma K_key : forall a b, kle a b -> bcmp (fst a) (fst b) <> Gt.
Proof. intros a b H. exact H. Qed.

(* a source content in the combined order: what a merger without merge function delivers *)
Definition dsorted (ds : option (bytes -> bytes -> bytes -> comparison)) (es : list entry) : Prop :=
  forall i j a b, (i < j)%nat -> nth_error es i = Some a -> nth_error es j = Some b -> ent_le ds a b.

(* ---- what "a permutation of all entries" says about keys and values ----------------------------------- *)
Lemma perm_content (out : list entry) (srcs : list (list entry)) : Permutation out (concat srcs) ->
  length out = length (concat srcs) /\
  (forall k, In k (map fst out) <-> In k (map fst (concat srcs))) /\
  (forall k, Permutation (vals k out) (values_for k srcs)).
Proof.
  intros Hp. split; [exact (Permutation_length Hp)|]. split.
  - intros k. split; intros H; eapply Permutation_in; try exact H; apply Permutation_map; [exact Hp|apply Permutation_sym, Hp].
  - intros k. rewrite <- vals_concat. apply vals_perm, Hp.
Qed.

Lemma mk_fresh (srt : list entry -> Prop) (srcs : list (list entry)) : Forall srt srcs -> Forall (gfresh srt) (map (fun es => mksc es 0 true BAll false) srcs).
Proof.
  intros Hs. apply Forall_forall. intros s Hin. apply in_map_iff in Hin. destruct Hin as (es & <- & Hes).
  rewrite Forall_forall in Hs. unfold gfresh. cbn. repeat split; try reflexivity. apply Hs, Hes.
Qed.

(* ======================================================================================================== *)
(* any dupsort option ds, any order [ele] on entries that MergerGen accepts for it                          *)
(* ======================================================================================================== *)
Section AnyOrder.
Variable ds : option (bytes -> bytes -> bytes -> comparison).
Variable ele : entry -> entry -> Prop.
Hypothesis O_trans : forall a b c, ele a b -> ele b c -> ele a c.
Hypothesis O_total : forall a b, ele a b \/ ele b a.
Hypothesis O_le : forall a b, mcmp ds a b <> Gt -> ele (he_key a, he_val a) (he_key b, he_val b).
Hypothesis O_gt : forall a b, mcmp ds a b = Gt -> ele (he_key b, he_val b) (he_key a, he_val a).
Hypothesis O_key : forall a b, ele a b -> bcmp (fst a) (fst b) <> Gt.

Lemma o_nomerge_next (srt : list entry -> Prop) it : (forall es, srt es -> gsorted ele es) -> gapi ele srt it ->
  match merger_next None ds it with
  | (it', Some e) =>
      In e (remaining it) /\
      (forall x, In x (remaining it) -> ele e x) /\
      Permutation (e :: remaining it') (remaining it) /\
      gapi ele srt it' /\ map sc_es (mi_srcs it') = map sc_es (mi_srcs it)
  | (it', None) => remaining it = [] /\ gapi ele srt it' /\ remaining it' = []
  end.
Proof.
  intros Hsrt Hapi.
  pose proof (next0_step ds ele O_trans O_total O_le O_gt O_key srt Hsrt it Hapi) as H.
  destruct (merger_next None ds it) as [it' [e|]].
  - destruct H as (Hp & Hmin & Hapi' & Hes). split; [|split; [exact Hmin|split; [exact Hp|split; [exact Hapi'|exact Hes]]]].
    eapply Permutation_in; [exact Hp|left; reflexivity].
  - destruct H as (H1 & H2 & H3 & _). split; [exact H1|split; [exact H2|exact H3]].
Qed.

Lemma o_nomerge_sources (srt : list entry -> Prop) : (forall es, srt es -> gsorted ele es) ->
  forall srcs : list (list entry), Forall srt srcs ->
  exists it, merger_iter_make ds (map (fun es => mksc es 0 true BAll false) srcs) false = Some it /\
    gapi ele srt it /\ Permutation (remaining it) (concat srcs) /\
    forall n, (length (concat srcs) <= n)%nat ->
    let out := mdrain0 ds (S n) it in
    Permutation out (concat srcs) /\ StronglySorted ele out.
Proof.
  intros Hsrt srcs Hs.
  destruct (gmerger_iter_make_spec ds ele O_trans O_total O_le O_gt srt _ (mk_fresh srt srcs Hs))
    as (it & Hmk & Hapi & Hperm & _).
  rewrite map_map in Hperm. cbn [sc_es] in Hperm. rewrite map_id in Hperm.
  exists it. split; [exact Hmk|]. split; [exact Hapi|]. split; [exact Hperm|]. intros n Hn. cbn zeta.
  destruct (drain0_spec ds ele O_trans O_total O_le O_gt O_key srt Hsrt n it Hapi
              ltac:(rewrite (Permutation_length Hperm); exact Hn)) as (Hp & Hsorted).
  split; [eapply Permutation_trans; [exact Hp|exact Hperm]|exact Hsorted].
Qed.

Variable mf : bytes -> bytes -> bytes -> option bytes.

Lemma o_merge_sources (srcs : list (list entry)) :
  Forall ssorted srcs -> (forall k a b, mf k a b <> None) ->
  exists it, merger_iter_make ds (map (fun es => mksc es 0 true BAll false) srcs) false = Some it /\
    forall n, (length (concat srcs) <= n)%nat ->
    let out := gmdrain ds mf (S n) it in
    StronglySorted (fun a b => bcmp (fst a) (fst b) = Lt) out /\
    (forall k, In k (map fst out) <-> In k (map fst (concat srcs))) /\
    Forall (fun e => exists first rest, Permutation (first :: rest) (values_for (fst e) srcs) /\
                       StronglySorted (fun v w => ele (fst e, v) (fst e, w)) (first :: rest) /\
                       fold_merge mf (fst e) first rest = Some (snd e)) out.
Proof.
  intros Hs Htot.
  destruct (gmerger_iter_make_spec ds ele O_trans O_total O_le O_gt ssorted _ (mk_fresh ssorted srcs Hs))
    as (it & Hmk & Hapi & Hperm & _).
  rewrite map_map in Hperm. cbn [sc_es] in Hperm. rewrite map_id in Hperm.
  exists it. split; [exact Hmk|]. intros n Hn. cbn zeta.
  destruct (gdrain_spec ds ele O_trans O_total O_le O_gt O_key ssorted (ssorted_gsorted ds ele O_le) mf Htot n it Hapi
              ltac:(rewrite (Permutation_length Hperm); exact Hn)) as (Hv & Hk & Hsorted).
  split; [exact Hsorted|]. split.
  - intros k. rewrite Hk. split; intros H; eapply Permutation_in; try exact H; apply Permutation_map; [exact Hperm|apply Permutation_sym, Hperm].
  - apply Forall_forall. intros [k v] Hin. cbn [fst snd]. destruct (Hv k v Hin) as (first & rest & Hp & Hss & Hf).
    exists first, rest. split; [|split; [exact Hss|exact Hf]].
    rewrite <- vals_concat. eapply Permutation_trans; [exact Hp|]. apply vals_perm, Hperm.
Qed.
End AnyOrder.

(* ======================================================================================================== *)
(* any dupsort option that is in order: the output is sorted by "key, then dupsort"                        *)
(* ======================================================================================================== *)
Section AnyDupsort.
Variable ds : option (bytes -> bytes -> bytes -> comparison).
Hypothesis Hds : ds_ok ds.

(* the states between calls of a merger iterator over tables (strictly ascending sources) *)
Definition dapi : miter -> Prop := gapi (ent_le ds) ssorted.

Lemma ssorted_dsorted es : ssorted es -> gsorted (ent_le ds) es.
Proof. exact (ssorted_gsorted ds (ent_le ds) (E_le ds) es). Qed.

(* one call, no merge function: ONE entry, a least one of all that remain, leaves the remaining multiset *)
Theorem nomerge_next it : dapi it ->
  match merger_next None ds it with
  | (it', Some e) =>
      In e (remaining it) /\
      (forall x, In x (remaining it) -> ent_le ds e x) /\
      Permutation (e :: remaining it') (remaining it) /\
      dapi it' /\ map sc_es (mi_srcs it') = map sc_es (mi_srcs it)
  | (it', None) => remaining it = [] /\ dapi it' /\ remaining it' = []
  end.
Proof.
  exact (o_nomerge_next ds (ent_le ds) (E_trans ds Hds) (E_total ds Hds) (E_le ds) (E_gt ds Hds) (ent_le_key ds)
           ssorted it ssorted_dsorted).
Qed.

Theorem nomerge_sources_fuel (srcs : list (list entry)) : Forall ssorted srcs ->
  exists it, merger_iter_make ds (map (fun es => mksc es 0 true BAll false) srcs) false = Some it /\ dapi it /\
    forall n, (length (concat srcs) <= n)%nat ->
    let out := mdrain0 ds (S n) it in
    (* EVERY entry of every source, each exactly once *)
    Permutation out (concat srcs) /\
    (* in ascending key order, equal keys in dupsort order *)
    StronglySorted (ent_le ds) out.
Proof.
  intros Hs.
  destruct (o_nomerge_sources ds (ent_le ds) (E_trans ds Hds) (E_total ds Hds) (E_le ds) (E_gt ds Hds) (ent_le_key ds)
              ssorted ssorted_dsorted srcs Hs) as (it & Hmk & Hapi & _ & H).
  exists it. split; [exact Hmk|]. split; [exact Hapi|exact H].
Qed.

(* sources that hold several entries per key, in dupsort order (the output of such a merger is one) *)
Theorem nomerge_sources_dups (srcs : list (list entry)) : Forall (dsorted ds) srcs ->
  exists it, merger_iter_make ds (map (fun es => mksc es 0 true BAll false) srcs) false = Some it /\
    forall n, (length (concat srcs) <= n)%nat ->
    let out := mdrain0 ds (S n) it in
    Permutation out (concat srcs) /\ StronglySorted (ent_le ds) out.
Proof.
  intros Hs.
  destruct (o_nomerge_sources ds (ent_le ds) (E_trans ds Hds) (E_total ds Hds) (E_le ds) (E_gt ds Hds) (ent_le_key ds)
              (dsorted ds) (fun es H => H) srcs Hs) as (it & Hmk & _ & _ & H).
  exists it. split; [exact Hmk|exact H].
Qed.

(* the output of the iteration is again such a source *)
Lemma StronglySorted_dsorted out : StronglySorted (ent_le ds) out -> dsorted ds out.
Proof.
  induction 1 as [|a l Hl IH Hall]; intros i j x y Hij Hx Hy; [destruct i; discriminate|].
  destruct j; [lia|]. cbn [nth_error] in Hy. destruct i.
  - cbn [nth_error] in Hx. inversion Hx; subst x. rewrite Forall_forall in Hall. apply Hall. eapply nth_error_In, Hy.
  - cbn [nth_error] in Hx. apply (IH i j x y); [lia|exact Hx|exact Hy].
Qed.

(* ---- merge function AND dupsort ------------------------------------------------------------------------ *)
Variable mf : bytes -> bytes -> bytes -> option bytes.

(* v is the fold of the merge function over all values held for k, each used once, in dupsort order *)
Definition merged_value_ok_ds (srcs : list (list entry)) (k v : bytes) : Prop :=
  exists first rest, Permutation (first :: rest) (values_for k srcs) /\
    StronglySorted (val_le ds k) (first :: rest) /\ fold_merge mf k first rest = Some v.

Lemma merged_value_ok_ds_weaken srcs k v : merged_value_ok_ds srcs k v -> merged_value_ok mf srcs k v.
Proof. intros (first & rest & Hp & _ & Hf). exists first, rest. split; assumption. Qed.

Theorem merge_next_ds it : dapi it ->
  match merger_next (Some mf) ds it with
  | (it', Some (k, v)) =>
    exists first rest,
      Permutation ((k, first) :: map (pair k) rest ++ remaining it') (remaining it) /\
      fold_merge mf k first rest = Some v /\
      StronglySorted (val_le ds k) (first :: rest) /\
      (forall x, In x (remaining it') -> bcmp k (fst x) = Lt) /\
      dapi it' /\ map sc_es (mi_srcs it') = map sc_es (mi_srcs it)
  | (it', None) =>
    (remaining it = [] /\ dapi it' /\ remaining it' = []) \/
    (exists k first rest v0 others,
       Permutation ((k, first) :: map (pair k) rest ++ (k, v0) :: others) (remaining it) /\
       (forall x, In x others -> bcmp k (fst x) <> Gt) /\
       fold_merge mf k first (rest ++ [v0]) = None)
  end.
Proof.
  intros Hapi.
  pose proof (gmerger_next_step ds (ent_le ds) (E_trans ds Hds) (E_total ds Hds) (E_le ds) (E_gt ds Hds) (ent_le_key ds)
                ssorted ssorted_dsorted mf it Hapi) as H.
  destruct (merger_next (Some mf) ds it) as [it' [[k v]|]]; [|exact H].
  destruct H as (first & rest & Hp & Hf & Hlt & _ & Hss & Hapi' & Hes). exists first, rest.
  split; [exact Hp|]. split; [exact Hf|]. split; [|split; [exact Hlt|split; [exact Hapi'|exact Hes]]].
  eapply StronglySorted_impl; [|exact Hss]. intros a b. apply ent_le_val_le.
Qed.

Theorem merge_sources_ds_fuel (srcs : list (list entry)) :
  Forall ssorted srcs -> (forall k a b, mf k a b <> None) ->
  exists it, merger_iter_make ds (map (fun es => mksc es 0 true BAll false) srcs) false = Some it /\
    forall n, (length (concat srcs) <= n)%nat ->
    let out := gmdrain ds mf (S n) it in
    StronglySorted (fun a b => bcmp (fst a) (fst b) = Lt) out /\
    (forall k, In k (map fst out) <-> In k (map fst (concat srcs))) /\
    Forall (fun e => merged_value_ok_ds srcs (fst e) (snd e)) out.
Proof.
  intros Hs Htot.
  destruct (o_merge_sources ds (ent_le ds) (E_trans ds Hds) (E_total ds Hds) (E_le ds) (E_gt ds Hds) (ent_le_key ds)
              mf srcs Hs Htot) as (it & Hmk & H).
  exists it. split; [exact Hmk|]. intros n Hn. destruct (H n Hn) as (H1 & H2 & H3). cbn zeta.
  split; [exact H1|]. split; [exact H2|].
  eapply Forall_impl; [|exact H3]. intros e (first & rest & Hp & Hss & Hf). exists first, rest.
  split; [exact Hp|]. split; [|exact Hf]. eapply StronglySorted_impl; [|exact Hss]. intros a b. apply ent_le_val_le.
Qed.
End AnyDupsort.

(* ======================================================================================================== *)
(* an ARBITRARY dupsort option (no hypothesis on the function): nothing is lost, keys stay in order         *)
(* ======================================================================================================== *)
Section ArbitraryDupsort.
Variable ds : option (bytes -> bytes -> bytes -> comparison).

Definition kapi : miter -> Prop := gapi kle ssorted.

Theorem nomerge_next_any it : kapi it ->
  match merger_next None ds it with
  | (it', Some e) =>
      In e (remaining it) /\
      (forall x, In x (remaining it) -> bcmp (fst e) (fst x) <> Gt) /\
      Permutation (e :: remaining it') (remaining it) /\
      kapi it' /\ map sc_es (mi_srcs it') = map sc_es (mi_srcs it)
  | (it', None) => remaining it = [] /\ kapi it' /\ remaining it' = []
  end.
Proof.
  exact (o_nomerge_next ds kle K_trans K_total (K_le ds) (K_gt ds) K_key ssorted it (ssorted_gsorted ds kle (K_le ds))).
Qed.

Theorem nomerge_sources_any (srcs : list (list entry)) : Forall ssorted srcs ->
  exists it, merger_iter_make ds (map (fun es => mksc es 0 true BAll false) srcs) false = Some it /\ kapi it /\
    forall n, (length (concat srcs) <= n)%nat ->
    let out := mdrain0 ds (S n) it in
    Permutation out (concat srcs) /\ StronglySorted (fun a b => bcmp (fst a) (fst b) <> Gt) out.
Proof.
  intros Hs.
  destruct (o_nomerge_sources ds kle K_trans K_total (K_le ds) (K_gt ds) K_key ssorted (ssorted_gsorted ds kle (K_le ds)) srcs Hs)
    as (it & Hmk & Hapi & _ & H).
  exists it. split; [exact Hmk|]. split; [exact Hapi|exact H].
Qed.

Theorem merge_sources_any (mf : bytes -> bytes -> bytes -> option bytes) (srcs : list (list entry)) :
  Forall ssorted srcs -> (forall k a b, mf k a b <> None) ->
  exists it, merger_iter_make ds (map (fun es => mksc es 0 true BAll false) srcs) false = Some it /\
    forall n, (length (concat srcs) <= n)%nat ->
    let out := gmdrain ds mf (S n) it in
    StronglySorted (fun a b => bcmp (fst a) (fst b) = Lt) out /\
    (forall k, In k (map fst out) <-> In k (map fst (concat srcs))) /\
    Forall (fun e => merged_value_ok mf srcs (fst e) (snd e)) out.
Proof.
  intros Hs Htot.
  destruct (o_merge_sources ds kle K_trans K_total (K_le ds) (K_gt ds) K_key mf srcs Hs Htot) as (it & Hmk & H).
  exists it. split; [exact Hmk|]. intros n Hn. destruct (H n Hn) as (H1 & H2 & H3). cbn zeta.
  split; [exact H1|]. split; [exact H2|].
  eapply Forall_impl; [|exact H3]. intros e (first & rest & Hp & _ & Hf). exists first, rest. split; assumption.
Qed.
End ArbitraryDupsort.

(* ======================================================================================================== *)
(* Tier 1: no merge function, no dupsort                                                                    *)
(* ======================================================================================================== *)
(* the states of MergerClosed are the states used here *)
Lemma hk_ghk ds l : hok hent (mcmp ds) dummy_he l <-> ghk (ent_le ds) l.
Proof.
  unfold ghk, HW.hok, hok, le, hle. split; intros H i Hi.
  - apply mcmp_ent_le. exact (H i Hi).
  - apply mcmp_ent_le. exact (H i Hi).
Qed.
Lemma api_dapi it : api it <-> dapi None it.
Proof.
  unfold api, api_inv, dapi, gapi, inv, ginv, hk.
  split; intros ((H1 & H2) & H3); (split; [split; [apply hk_ghk, H1|exact H2]|exact H3]).
Qed.

Theorem T1_nomerge_sources (srcs : list (list entry)) : Forall ssorted srcs ->
  exists it, merger_iter_make None (map (fun es => mksc es 0 true BAll false) srcs) false = Some it /\
    forall n, (length (concat srcs) <= n)%nat ->
    let out := mdrain0 None (S n) it in
    Permutation out (concat srcs) /\
    StronglySorted (fun a b => bcmp (fst a) (fst b) <> Gt) out.
Proof.
  intros Hs. destruct (nomerge_sources_any None srcs Hs) as (it & Hmk & _ & H). exists it. split; [exact Hmk|exact H].
Qed.

Theorem T1_next_call it : api it ->
  match merger_next None None it with
  | (it', Some e) =>
      In e (remaining it) /\
      (forall x, In x (remaining it) -> bcmp (fst e) (fst x) <> Gt) /\
      Permutation (e :: remaining it') (remaining it) /\
      api it' /\ map sc_es (mi_srcs it') = map sc_es (mi_srcs it)
  | (it', None) => remaining it = [] /\ api it' /\ remaining it' = []
  end.
Proof.
  intros Hapi. apply api_dapi in Hapi. pose proof (nomerge_next None I it Hapi) as H.
  destruct (merger_next None None it) as [it' [e|]].
  - destruct H as (Hin & Hmin & Hp & Hapi' & Hes). split; [exact Hin|]. split; [|split; [exact Hp|split; [apply api_dapi, Hapi'|exact Hes]]].
    intros x Hx. apply (ent_le_key None), Hmin, Hx.
  - destruct H as (H1 & H2 & H3). split; [exact H1|split; [apply api_dapi, H2|exact H3]].
Qed.

(* failure of the call exactly when nothing remains *)
Corollary T1_next_none_iff it : api it -> (snd (merger_next None None it) = None <-> remaining it = []).
Proof.
  intros Hapi. pose proof (T1_next_call it Hapi) as H. destruct (merger_next None None it) as [it' [e|]]; cbn [snd].
  - destruct H as (Hin & _). split; [discriminate|]. intros E. rewrite E in Hin. destruct Hin.
  - destruct H as (H & _). split; [intros _; exact H|reflexivity].
Qed.

(* keys and per-key values: nothing lost, nothing merged, nothing invented *)
Corollary T1_content (srcs : list (list entry)) : Forall ssorted srcs ->
  exists it, merger_iter_make None (map (fun es => mksc es 0 true BAll false) srcs) false = Some it /\
    let out := mdrain0 None (S (length (concat srcs))) it in
    length out = length (concat srcs) /\
    (forall k, In k (map fst out) <-> In k (map fst (concat srcs))) /\
    (forall k, Permutation (vals k out) (values_for k srcs)).
Proof.
  intros Hs. destruct (T1_nomerge_sources srcs Hs) as (it & Hmk & H). exists it. split; [exact Hmk|].
  apply perm_content. exact (proj1 (H _ (le_n _))).
Qed.

(* ======================================================================================================== *)
(* Tier 2: no merge function, a dupsort function                                                            *)
(* ======================================================================================================== *)
Theorem T2_nomerge_sources (f : bytes -> bytes -> bytes -> comparison) (srcs : list (list entry)) :
  dupsort_ok f -> Forall ssorted srcs ->
  exists it, merger_iter_make (Some f) (map (fun es => mksc es 0 true BAll false) srcs) false = Some it /\
    forall n, (length (concat srcs) <= n)%nat ->
    let out := mdrain0 (Some f) (S n) it in
    Permutation out (concat srcs) /\
    StronglySorted (fun a b => bcmp (fst a) (fst b) = Lt \/ (fst a = fst b /\ f (fst a) (snd a) (snd b) <> Gt)) out.
Proof.
  intros Hf Hs. destruct (nomerge_sources_fuel (Some f) Hf srcs Hs) as (it & Hmk & _ & H). exists it. split; [exact Hmk|exact H].
Qed.

Theorem T2_next_call (f : bytes -> bytes -> bytes -> comparison) it : dupsort_ok f -> dapi (Some f) it ->
  match merger_next None (Some f) it with
  | (it', Some e) =>
      In e (remaining it) /\
      (forall x, In x (remaining it) ->
         bcmp (fst e) (fst x) = Lt \/ (fst e = fst x /\ f (fst e) (snd e) (snd x) <> Gt)) /\
      Permutation (e :: remaining it') (remaining it) /\
      dapi (Some f) it' /\ map sc_es (mi_srcs it') = map sc_es (mi_srcs it)
  | (it', None) => remaining it = [] /\ dapi (Some f) it' /\ remaining it' = []
  end.
Proof. intros Hf. exact (nomerge_next (Some f) Hf it). Qed.

Corollary T2_next_none_iff (f : bytes -> bytes -> bytes -> comparison) it : dupsort_ok f -> dapi (Some f) it ->
  (snd (merger_next None (Some f) it) = None <-> remaining it = []).
Proof.
  intros Hf Hapi. pose proof (T2_next_call f it Hf Hapi) as H. destruct (merger_next None (Some f) it) as [it' [e|]]; cbn [snd].
  - destruct H as (Hin & _). split; [discriminate|]. intros E. rewrite E in Hin. destruct Hin.
  - destruct H as (H & _). split; [intros _; exact H|reflexivity].
Qed.

Corollary T2_content (f : bytes -> bytes -> bytes -> comparison) (srcs : list (list entry)) :
  dupsort_ok f -> Forall ssorted srcs ->
  exists it, merger_iter_make (Some f) (map (fun es => mksc es 0 true BAll false) srcs) false = Some it /\
    let out := mdrain0 (Some f) (S (length (concat srcs))) it in
    length out = length (concat srcs) /\
    (forall k, In k (map fst out) <-> In k (map fst (concat srcs))) /\
    (forall k, Permutation (vals k out) (values_for k srcs)) /\
    StronglySorted (fun a b => bcmp (fst a) (fst b) <> Gt) out.
Proof.
  intros Hf Hs. destruct (T2_nomerge_sources f srcs Hf Hs) as (it & Hmk & H). exists it. split; [exact Hmk|].
  destruct (H _ (le_n _)) as [Hp Hss]. cbn zeta.
  destruct (perm_content _ _ Hp) as (H1 & H2 & H3). split; [exact H1|]. split; [exact H2|]. split; [exact H3|].
  eapply StronglySorted_impl; [|exact Hss]. intros a b. apply (ent_le_key (Some f)).
Qed.

(* whatever the dupsort function answers - no hypothesis on f - no entry is lost or invented and
   the keys come out in ascending order *)
Theorem T2_any_dupsort (f : bytes -> bytes -> bytes -> comparison) (srcs : list (list entry)) :
  Forall ssorted srcs ->
  exists it, merger_iter_make (Some f) (map (fun es => mksc es 0 true BAll false) srcs) false = Some it /\
    forall n, (length (concat srcs) <= n)%nat ->
    let out := mdrain0 (Some f) (S n) it in
    Permutation out (concat srcs) /\ StronglySorted (fun a b => bcmp (fst a) (fst b) <> Gt) out.
Proof.
  intros Hs. destruct (nomerge_sources_any (Some f) srcs Hs) as (it & Hmk & _ & H). exists it. split; [exact Hmk|exact H].
Qed.

(* ======================================================================================================== *)
(* Tier 3: a merge function and a dupsort function                                                          *)
(* ======================================================================================================== *)
Theorem T3_merge_sources (f : bytes -> bytes -> bytes -> comparison) (mf : bytes -> bytes -> bytes -> option bytes)
  (srcs : list (list entry)) :
  dupsort_ok f -> Forall ssorted srcs -> (forall k a b, mf k a b <> None) ->
  exists it, merger_iter_make (Some f) (map (fun es => mksc es 0 true BAll false) srcs) false = Some it /\
    let out := gmdrain (Some f) mf (S (length (concat srcs))) it in
    StronglySorted (fun a b => bcmp (fst a) (fst b) = Lt) out /\
    (forall k, In k (map fst out) <-> In k (map fst (concat srcs))) /\
    Forall (fun e => merged_value_ok mf srcs (fst e) (snd e)) out /\
    (* moreover the fold takes the values of a key in dupsort order *)
    Forall (fun e => exists first rest, Permutation (first :: rest) (values_for (fst e) srcs) /\
                       StronglySorted (fun v w => f (fst e) v w <> Gt) (first :: rest) /\
                       fold_merge mf (fst e) first rest = Some (snd e)) out.
Proof.
  intros Hf Hs Htot. destruct (merge_sources_ds_fuel (Some f) Hf mf srcs Hs Htot) as (it & Hmk & H).
  exists it. split; [exact Hmk|]. destruct (H _ (le_n _)) as (H1 & H2 & H3). cbn zeta.
  split; [exact H1|]. split; [exact H2|]. split; [|exact H3].
  eapply Forall_impl; [|exact H3]. intros e. apply merged_value_ok_ds_weaken.
Qed.

Theorem T3_next_call (f : bytes -> bytes -> bytes -> comparison) (mf : bytes -> bytes -> bytes -> option bytes) it :
  dupsort_ok f -> dapi (Some f) it ->
  match merger_next (Some mf) (Some f) it with
  | (it', Some (k, v)) =>
    exists first rest,
      Permutation ((k, first) :: map (pair k) rest ++ remaining it') (remaining it) /\
      fold_merge mf k first rest = Some v /\
      StronglySorted (fun v w => f k v w <> Gt) (first :: rest) /\
      (forall x, In x (remaining it') -> bcmp k (fst x) = Lt) /\
      dapi (Some f) it' /\ map sc_es (mi_srcs it') = map sc_es (mi_srcs it)
  | (it', None) =>
    (remaining it = [] /\ dapi (Some f) it' /\ remaining it' = []) \/
    (exists k first rest v0 others,
       Permutation ((k, first) :: map (pair k) rest ++ (k, v0) :: others) (remaining it) /\
       (forall x, In x others -> bcmp k (fst x) <> Gt) /\
       fold_merge mf k first (rest ++ [v0]) = None)
  end.
Proof. intros Hf. exact (merge_next_ds (Some f) Hf mf it). Qed.

(* the statement of MergerClosed.merge_sources for an arbitrary dupsort function (no hypothesis on f) *)
Theorem T3_any_dupsort (f : bytes -> bytes -> bytes -> comparison) (mf : bytes -> bytes -> bytes -> option bytes)
  (srcs : list (list entry)) :
  Forall ssorted srcs -> (forall k a b, mf k a b <> None) ->
  exists it, merger_iter_make (Some f) (map (fun es => mksc es 0 true BAll false) srcs) false = Some it /\
    let out := gmdrain (Some f) mf (S (length (concat srcs))) it in
    StronglySorted (fun a b => bcmp (fst a) (fst b) = Lt) out /\
    (forall k, In k (map fst out) <-> In k (map fst (concat srcs))) /\
    Forall (fun e => merged_value_ok mf srcs (fst e) (snd e)) out.
Proof.
  intros Hs Htot. destruct (merge_sources_any (Some f) mf srcs Hs Htot) as (it & Hmk & H).
  exists it. split; [exact Hmk|]. exact (H _ (le_n _)).
Qed.

(* the merge-function iteration of MergerClosed is the ds = None instance *)
Lemma gmdrain_mdrain mf : forall n it, gmdrain None mf n it = mdrain mf n it.
Proof. induction n as [|n IH]; intros it; [reflexivity|]. cbn [gmdrain mdrain]. destruct (merger_next (Some mf) None it) as [it' [e|]]; [rewrite IH|]; reflexivity. Qed.

(* ---- instances ------------------------------------------------------------------------------------------ *)
Definition byval (_ a b : bytes) : comparison := bcmp a b.       (* values ascending *)
Definition byval_rev (_ a b : bytes) : comparison := bcmp b a.   (* values descending *)
(* not an order at all: "rock, paper, scissors" on the first byte *)
Definition rps (_ a b : bytes) : comparison :=
  match a, b with
  | x :: _, y :: _ => match (x + 3 - y) mod 3 with 0 => Eq | 1 => Gt | _ => Lt end
  | _, _ => Eq
  end.

Lemma byval_ok : dupsort_ok byval.
Proof.
  split.
  - intros k a b c. unfold byval. apply bcmp_le_trans.
  - intros k a b. unfold byval. rewrite (bcmp_antisym a b). destruct (bcmp a b); cbn; [left|left|right]; discriminate.
Qed.
Lemma byval_rev_ok : dupsort_ok byval_rev.
Proof.
  split.
  - intros k a b c H1 H2. unfold byval_rev in *. exact (bcmp_le_trans _ _ _ H2 H1).
  - intros k a b. unfold byval_rev. rewrite (bcmp_antisym a b). destruct (bcmp a b); cbn; [left|right|left]; discriminate.
Qed.
Lemma rps_not_ok : ~ dupsort_ok rps.
Proof. intros [Ht _]. apply (Ht [] [0] [1] [2]); vm_compute; congruence. Qed.

Definition ex_srcs : list (list entry) :=
  [ [([], [1]); ([97], [2]); ([99], [3])];
    [([], [4]); ([98], [5]); ([99], [6])];
    [([], [0]); ([99], [1])];
    [] ].
Definition cat (_ a b : bytes) : option bytes := Some (a ++ [124] ++ b).

Example nomerge_examples :
  (* no dupsort: all 8 entries, keys ascending; the order inside a key is the heap's (here not the
     order of the sources: the values 1, 0, 4 of the empty key come from sources 0, 2, 1) *)
  (match merger_iter_make None (map (fun es => mksc es 0 true BAll false) ex_srcs) false with
   | Some it => mdrain0 None 20 it =
       [([], [1]); ([], [0]); ([], [4]); ([97], [2]); ([98], [5]); ([99], [6]); ([99], [3]); ([99], [1])]
   | None => False end) /\
  (* dupsort by value *)
  (match merger_iter_make (Some byval) (map (fun es => mksc es 0 true BAll false) ex_srcs) false with
   | Some it => mdrain0 (Some byval) 20 it =
       [([], [0]); ([], [1]); ([], [4]); ([97], [2]); ([98], [5]); ([99], [1]); ([99], [3]); ([99], [6])]
   | None => False end) /\
  (* dupsort by value, descending *)
  (match merger_iter_make (Some byval_rev) (map (fun es => mksc es 0 true BAll false) ex_srcs) false with
   | Some it => mdrain0 (Some byval_rev) 20 it =
       [([], [4]); ([], [1]); ([], [0]); ([97], [2]); ([98], [5]); ([99], [6]); ([99], [3]); ([99], [1])]
   | None => False end) /\
  (* merge function and dupsort: the fold runs in dupsort order *)
  (match merger_iter_make (Some byval) (map (fun es => mksc es 0 true BAll false) ex_srcs) false with
   | Some it => gmdrain (Some byval) cat 20 it =
       [([], [0; 124; 1; 124; 4]); ([97], [2]); ([98], [5]); ([99], [1; 124; 3; 124; 6])]
   | None => False end) /\
  (match merger_iter_make (Some byval_rev) (map (fun es => mksc es 0 true BAll false) ex_srcs) false with
   | Some it => gmdrain (Some byval_rev) cat 20 it =
       [([], [4; 124; 1; 124; 0]); ([97], [2]); ([98], [5]); ([99], [6; 124; 3; 124; 1])]
   | None => False end).
Proof. vm_compute. repeat split. Qed.

(* an inconsistent dupsort function: still all 8 entries, keys ascending *)
Example nomerge_example_rps :
  match merger_iter_make (Some rps) (map (fun es => mksc es 0 true BAll false) ex_srcs) false with
  | Some it => let out := mdrain0 (Some rps) 20 it in
               length out = 8%nat /\ map fst out = [[]; []; []; [97]; [98]; [99]; [99]; [99]]
  | None => False end.
Proof. vm_compute. repeat split. Qed.

Print Assumptions T1_nomerge_sources.
Print Assumptions T1_next_call.
Print Assumptions T1_next_none_iff.
Print Assumptions T1_content.
Print Assumptions T2_nomerge_sources.
Print Assumptions T2_next_call.
Print Assumptions T2_next_none_iff.
Print Assumptions T2_content.
Print Assumptions T2_any_dupsort.
Print Assumptions T3_merge_sources.
Print Assumptions T3_next_call.
Print Assumptions T3_any_dupsort.
Print Assumptions nomerge_sources_dups.
Print Assumptions dupsort_ok_iff.
