(* C12, double flips, part 1: 2^31 - 1 = 2147483647 is prime, by trial division. *)
From Coq Require Import NArith ZArith List Lia Bool ZifyBool ZifyN ZifyNat.
Local Open Scope N_scope.
Ltac Zify.zify_post_hook ::= Z.div_mod_to_equations.

Definition M31 : N := 2147483647.

(* no divisor among d, d+1, ..., d+fuel-1 *)
Fixpoint nodiv (fuel : nat) (d : N) : bool :=
  match fuel with
  | O => true
  | S f => negb (M31 mod d =? 0) && nodiv f (d + 1)
  end.

Lemma nodiv_spec : forall fuel d0, nodiv fuel d0 = true ->
  forall d, d0 <= d < d0 + N.of_nat fuel -> M31 mod d <> 0.
Proof.
  induction fuel as [|f IH]; intros d0 H d Hd; [lia|].
  cbn [nodiv] in H. apply andb_true_iff in H. destruct H as [H1 H2].
  destruct (N.eq_dec d d0) as [->|Hne].
  - apply negb_true_iff, N.eqb_neq in H1. exact H1.
  - apply (IH (d0 + 1) H2). lia.
Qed.

Lemma nodiv_check : nodiv (N.to_nat 46340) 2 = true.
Proof. vm_compute. reflexivity. Qed.

Lemma small_nodiv d : 2 <= d < 46342 -> M31 mod d <> 0.
Proof.
  intros H. apply (nodiv_spec _ _ nodiv_check). rewrite N2Nat.id. lia.
Qed.

Theorem M31_prime d : 1 < d < 2147483647 -> 2147483647 mod d <> 0.
Proof.
  intros Hd H. fold M31 in *.
  destruct (N.lt_ge_cases d 46342) as [Hs|Hb]; [apply (small_nodiv d); [lia|exact H]|].
  set (q := M31 / d).
  assert (E : M31 = d * q) by (pose proof (N.div_mod M31 d ltac:(lia)); unfold q; lia).
  assert (Hq2 : 2 <= q) by (unfold M31 in *; nia).
  assert (Hq : q < 46342).
  { destruct (N.lt_ge_cases q 46342) as [Hq|Hq]; [exact Hq|]. exfalso.
    assert (46342 * 46342 <= d * q) by (apply N.mul_le_mono; assumption). unfold M31 in E. lia. }
  apply (small_nodiv q); [lia|]. rewrite E. apply N.mod_mul. lia.
Qed.

Print Assumptions M31_prime.
