(* C13: the number of worker threads never exceeds the configured maximum, in every
   reachable state of the LTS (every schedule, spurious wake-ups included). *)
From Coq Require Import NArith List Lia ZifyBool ZifyN ZifyNat.
From Mtbl Require Import model.Bytes model.Pool.
Local Open Scope N_scope.

Definition cinv (st : pstate) : Prop := ps_count st <= ps_max st.

Lemma caller_next_cinv st : cinv st -> cinv (fst (caller_next st)) /\ ps_max (fst (caller_next st)) = ps_max st.
Proof.
  intros H. unfold caller_next. destruct (ps_prog st) as [|c rest]; [split; [exact H|reflexivity]|].
  destruct c; cbn; split; try exact H; reflexivity.
Qed.

Ltac crush :=
  repeat match goal with
         | |- context [if ?c then _ else _] => destruct c eqn:?
         | |- context [match ?x with _ => _ end] => destruct x eqn:?
         end; cbn in *; unfold cinv in *; cbn in *; try (split; [lia|reflexivity]).

Lemma continue_cinv st t l : cinv st -> cinv (fst (continue st t l)) /\ ps_max (fst (continue st t l)) = ps_max st.
Proof.
  intros H. destruct l; cbn [continue];
    try (apply caller_next_cinv; exact H);
    try (split; [exact H|reflexivity]);
    try (unfold set_pool, set_abort, set_workers, set_queues, getw, getq; crush).
Qed.

Lemma stash_deliver_cinv st t lab stash :
  ps_count (snd (stash_deliver st t lab stash)) = ps_count st /\ ps_max (snd (stash_deliver st t lab stash)) = ps_max st.
Proof.
  destruct lab; cbn [stash_deliver]; try (split; reflexivity).
  - destruct (wk_running _); [split; reflexivity|]. destruct (wk_res _); split; reflexivity.
  - destruct (find _ stash) as [[a r0]|]; split; reflexivity.
Qed.
Lemma wake_step_cinv st op wake : ps_count (wake_step st op wake) = ps_count st /\ ps_max (wake_step st op wake) = ps_max st.
Proof. unfold wake_step. destruct op, wake; split; reflexivity. Qed.

Lemma pstep_cinv st t wake stash st' op o stash' : cinv st ->
  pstep st t wake stash = Some (st', op, o, stash') -> cinv st' /\ ps_max st' = ps_max st.
Proof.
  intros H E. unfold pstep in E.
  destruct (negb (enabled st t)); [discriminate|].
  set (th := gett st t) in *.
  destruct (t_op th) eqn:Eop;
    try (inversion E; subst; clear E; unfold cinv, set_thread, set_owner in *; cbn; split; [exact H|reflexivity]).
  all: match type of E with
       | (let '(stash1, st3) := stash_deliver ?S2 ?T ?L ?SS in _) = _ =>
         pose proof (stash_deliver_cinv S2 T L SS) as [Hs1 Hs2];
         destruct (stash_deliver S2 T L SS) as [stash1 st3]; cbn [snd] in Hs1, Hs2;
         assert (Hc3 : cinv st3 /\ ps_max st3 = ps_max st)
       end.
  all: try (destruct (wake_step_cinv (set_owner st (t_obj th) (Some t)) (t_op th) wake);
            destruct (wake_step_cinv (set_owner st (t_obj th) None) (t_op th) wake);
            destruct (wake_step_cinv st (t_op th) wake);
            rewrite Eop in *;
            unfold cinv in *; split; [rewrite Hs1, Hs2|rewrite Hs2];
            first [ match goal with Hx : ps_count (wake_step _ _ _) = _ |- _ => rewrite Hx end
                  | idtac ]; cbn; try congruence; try lia; fail).
  all: try (match goal with Hs1 : ps_count ?s3 = ps_count (wake_step ?S ?O ?W) |- cinv ?s3 /\ _ =>
              destruct (wake_step_cinv S O W) as [Hw1 Hw2]; unfold cinv in *; rewrite Hs1, Hs2, Hw1, Hw2; split; [exact H|reflexivity] end).
  all: try (destruct Hc3 as [Hc3 Hm3];
            destruct (continue st3 t (t_lab th)) as [st4 th'] eqn:EC;
            pose proof (continue_cinv st3 t (t_lab th) Hc3) as Hc4; rewrite EC in Hc4; cbn [fst] in Hc4;
            inversion E; subst; clear E; unfold cinv, set_thread in *; cbn; destruct Hc4 as [Hc4 Hm4];
            split; [exact Hc4|congruence]).
Qed.

Lemma pool_init_cinv maxt prog : cinv (pool_init maxt prog) /\ ps_max (pool_init maxt prog) = maxt.
Proof.
  unfold pool_init.
  set (st0 := mkp [dummy_t] [] [] 0 maxt [] [] prog 0 [] false).
  assert (H0 : cinv st0) by (unfold cinv; cbn; lia).
  pose proof (caller_next_cinv st0 H0) as [H1 H2].
  destruct (caller_next st0) as [st1 th]. cbn [fst] in H1, H2. unfold cinv, set_thread in *. cbn. split; [exact H1|exact H2].
Qed.

Lemma pspurious_cinv st t st' : cinv st -> pspurious st t = Some st' -> cinv st' /\ ps_max st' = ps_max st.
Proof.
  intros H E. unfold pspurious in E. destruct (t_blocked (gett st t)); [|discriminate].
  inversion E; subst. unfold cinv, set_thread in *. cbn. split; [exact H|reflexivity].
Qed.
