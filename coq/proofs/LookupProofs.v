(* Lookups as filters: on a strictly sorted entry list, "start at the first entry >= k0 and
   stop at the first entry that fails the bound" returns exactly the entries that satisfy
   the lookup predicate (equal / has-prefix / inside the closed range). *)
From Coq Require Import NArith List Lia Sorting.Sorted.
From Mtbl Require Import model.Bytes model.Order spec.Parse model.Reader proofs.OrderProofs proofs.BlockProofs.
Import ListNotations.
Local Open Scope N_scope.

Fixpoint take_while {A} (f : A -> bool) (l : list A) : list A :=
  match l with
  | [] => []
  | x :: tl => if f x then x :: take_while f tl else []
  end.

Definition klt (a b : pentry) : Prop := bcmp (pe_key a) (pe_key b) = Lt.

Lemma sorted_of_index : forall (l : list pentry),
  (forall p q, (p < q < length l)%nat -> bcmp (pe_key (nth p l dummy_pe)) (pe_key (nth q l dummy_pe)) = Lt) ->
  StronglySorted klt l.
Proof.
  induction l as [|e l IH]; intros H; [constructor|]. constructor.
  - apply IH. intros p q Hpq. apply (H (S p) (S q)). cbn. lia.
  - apply Forall_forall. intros x Hx. destruct (In_nth _ _ dummy_pe Hx) as (n & Hn & <-).
    apply (H 0%nat (S n)). cbn. lia.
Qed.

(* is_prefix and the order *)
Lemma prefix_ge : forall p k, is_prefix p k = true -> bcmp k p <> Lt.
Proof.
  induction p as [|x p IH]; intros k H; [destruct k; cbn; discriminate|].
  destruct k as [|y k]; [discriminate|]. cbn [is_prefix] in H. apply Bool.andb_true_iff in H. destruct H as [E H].
  apply N.eqb_eq in E. subst y. cbn [bcmp]. rewrite N.compare_refl. apply IH, H.
Qed.

(* the keys with prefix p form an interval that starts at p *)
Lemma prefix_interval : forall p a b, bcmp a p <> Lt -> bcmp a b = Lt -> is_prefix p b = true -> is_prefix p a = true.
Proof.
  induction p as [|x p IH]; intros a b Ha Hab Hb; [reflexivity|].
  destruct b as [|y b]; [discriminate|]. cbn [is_prefix] in Hb. apply Bool.andb_true_iff in Hb. destruct Hb as [E Hb].
  apply N.eqb_eq in E. subst y.
  destruct a as [|z a]; [cbn in Ha; congruence|].
  cbn [bcmp] in Ha, Hab. cbn [is_prefix].
  destruct (z ?= x) eqn:E1.
  - apply N.compare_eq in E1. subst z. rewrite N.eqb_refl. cbn [andb]. eapply IH; eassumption.
  - congruence.
  - discriminate.
Qed.

Section Filter.
Variable k0 : bytes.
Variable hi : bytes -> bool.
(* among keys >= k0 the bound is downward closed *)
Hypothesis Hdown : forall a b, bcmp a k0 <> Lt -> bcmp a b = Lt -> hi b = true -> hi a = true.

Definition inside (e : pentry) : bool := negb (blt (pe_key e) k0) && hi (pe_key e).

Lemma filter_none e : bcmp (pe_key e) k0 <> Lt -> hi (pe_key e) = false ->
  forall l, Forall (klt e) l -> filter inside l = [].
Proof.
  intros He Eh. induction l as [|x l IHl]; intros Hall; [reflexivity|].
  inversion Hall as [|? ? Hx Hall']; subst. cbn [filter]. unfold inside at 1.
  destruct (hi (pe_key x)) eqn:Ex.
  - rewrite (Hdown (pe_key e) (pe_key x)) in Eh; [discriminate|exact He|exact Hx|exact Ex].
  - rewrite Bool.andb_false_r. apply IHl, Hall'.
Qed.

Lemma filter_above : forall l, StronglySorted klt l -> Forall (fun e => bcmp (pe_key e) k0 <> Lt) l ->
  filter inside l = take_while (fun e => hi (pe_key e)) l.
Proof.
  induction l as [|e l IH]; intros Hs Hge; [reflexivity|].
  inversion Hs as [|? ? Hs' Hall]; subst. inversion Hge as [|? ? He Hge']; subst.
  cbn [filter take_while]. unfold inside at 1. unfold blt.
  destruct (hi (pe_key e)) eqn:Eh.
  - destruct (bcmp (pe_key e) k0) eqn:E; try congruence; cbn [negb andb]; f_equal; apply IH; assumption.
  - rewrite Bool.andb_false_r. apply (filter_none e He Eh), Hall.
Qed.

Theorem filter_is_take_while : forall l, StronglySorted klt l ->
  filter inside l = take_while (fun e => hi (pe_key e)) (skipn (count_lt l k0) l).
Proof.
  induction l as [|e l IH]; intros Hs; [reflexivity|].
  inversion Hs as [|? ? Hs' Hall]; subst. cbn [count_lt].
  destruct (bcmp (pe_key e) k0) eqn:E.
  - cbn [skipn]. apply filter_above; [exact Hs|]. constructor; [congruence|].
    apply Forall_forall. intros x Hx. rewrite Forall_forall in Hall. specialize (Hall x Hx). unfold klt in Hall.
    apply bcmp_eq in E. rewrite <- E. intros Hc. apply bcmp_lt_gt in Hc. congruence.
  - cbn [skipn filter]. unfold inside at 1, blt. rewrite E. cbn [negb andb]. apply IH, Hs'.
  - cbn [skipn]. apply filter_above; [exact Hs|]. constructor; [congruence|].
    apply Forall_forall. intros x Hx. rewrite Forall_forall in Hall. specialize (Hall x Hx). unfold klt in Hall.
    intros Hc. apply bcmp_lt_gt in E. pose proof (bcmp_lt_trans _ _ _ E Hall) as H1.
    apply bcmp_lt_gt in H1. congruence.
Qed.
End Filter.

(* the three lookup predicates are of that shape *)
Lemma get_shape k0 key : beq key k0 = negb (blt key k0) && bound_ok KGet k0 key.
Proof. unfold beq, blt, bound_ok. destruct (bcmp key k0); reflexivity. Qed.
Lemma prefix_shape k0 key : is_prefix k0 key = negb (blt key k0) && bound_ok KPrefix k0 key.
Proof.
  unfold blt, bound_ok. destruct (is_prefix k0 key) eqn:E; [|apply eq_sym, Bool.andb_false_r].
  pose proof (prefix_ge _ _ E). destruct (bcmp key k0); try reflexivity. congruence.
Qed.
Lemma range_shape k0 k1 key : ble k0 key && ble key k1 = negb (blt key k0) && bound_ok KRange k1 key.
Proof.
  unfold ble, blt, bound_ok. rewrite (bcmp_antisym key k0). destruct (bcmp key k0); reflexivity.
Qed.

Lemma get_down k0 : forall a b, bcmp a k0 <> Lt -> bcmp a b = Lt -> bound_ok KGet k0 b = true -> bound_ok KGet k0 a = true.
Proof.
  intros a b Ha Hab Hb. unfold bound_ok in *. destruct (bcmp b k0) eqn:E; try discriminate.
  apply bcmp_eq in E. subst b. congruence.
Qed.
Lemma prefix_down k0 : forall a b, bcmp a k0 <> Lt -> bcmp a b = Lt -> bound_ok KPrefix k0 b = true -> bound_ok KPrefix k0 a = true.
Proof. intros a b Ha Hab Hb. unfold bound_ok in *. eapply prefix_interval; eassumption. Qed.
Lemma range_down k0 k1 : forall a b, bcmp a k0 <> Lt -> bcmp a b = Lt -> bound_ok KRange k1 b = true -> bound_ok KRange k1 a = true.
Proof.
  intros a b _ Hab Hb. unfold bound_ok in *. destruct (bcmp b k1) eqn:E; try discriminate.
  - apply bcmp_eq in E. subst b. rewrite Hab. reflexivity.
  - rewrite (bcmp_lt_trans _ _ _ Hab E). reflexivity.
Qed.
