(* Table round trip (C01 / C09): the file the writer model produces is opened by the reader
   model, and satisfies table_ok with exactly the accepted entries as its entry list; so
   iteration returns what was added and every theorem of ReaderProofs applies to it. *)
From Coq Require Import NArith ZArith List Lia ZifyBool ZifyN ZifyNat.
From Mtbl Require Import gen.Consts model.Bytes model.Codec model.Order model.Block model.Crc model.Writer
  spec.Leb128 spec.Parse model.Reader
  proofs.BytesLemmas proofs.CodecProofs proofs.OrderProofs proofs.WriterProofs proofs.MetaProofs
  proofs.BlockProofs proofs.LookupProofs proofs.ReaderProofs proofs.BlockRT proofs.VerifyProofs.
Local Open Scope N_scope.
Ltac Zify.zify_post_hook ::= Z.div_mod_to_equations.
Ltac splits := repeat match goal with |- _ /\ _ => split end.

(* ---- reader side: loading one framed block ------------------------------------------------ *)
Lemma varint_encode64_u64 v : varint_encode64 v = leb128 (u64 v).
Proof.
  assert (H : u64 v < 2 ^ 64) by (unfold u64; change (2 ^ 64) with 18446744073709551616; lia).
  rewrite <- (varint_encode64_spec (u64 v) H). unfold varint_encode64. f_equal. unfold u64.
  rewrite N.mod_mod by lia. reflexivity.
Qed.
Lemma varint_encode64_len v : len (varint_encode64 v) <= 10.
Proof.
  rewrite varint_encode64_u64. apply (leb128_len_le (u64 v) 9).
  unfold u64. change (128 ^ N.of_nat 10) with 1180591620717411303424. lia.
Qed.
Lemma varint64_roundtrip v rest : v < 2 ^ 64 -> varint_decode64 (varint_encode64 v ++ rest) = Ok (v, len (varint_encode64 v)).
Proof. intros H. rewrite varint_encode64_spec by exact H. apply varint_decode64_leb, H. Qed.

Section Load.
Variable decompress : N -> bytes -> res bytes.

Lemma get_block_frame r pre stored post raw ab :
  r_verify r = false -> r_version r = FORMAT_V2 -> r_file r = pre ++ frame stored ++ post ->
  len stored < 2 ^ 64 ->
  (if r_comp r =? COMP_NONE then Ok stored else decompress (r_comp r) stored) = Ok raw ->
  block_init raw = Some ab ->
  get_block decompress r (len pre) = Ok ab.
Proof.
  intros Hv Hver Hf Hs Hraw Hinit. unfold get_block. rewrite Hv, Hver, Hf.
  pose proof (varint_encode64_len (len stored)) as Hl10.
  assert (Hne : 0 < len (varint_encode64 (len stored))).
  { rewrite varint_encode64_spec by exact Hs. pose proof (leb128_nonempty (len stored)).
    destruct (leb128 (len stored)); [congruence|rewrite len_cons; lia]. }
  unfold frame. rewrite !len_app, len_fixed32.
  replace (len pre <? len pre + (len (varint_encode64 (len stored)) + (4 + len stored) + len post)) with true by lia.
  cbn [negb]. unfold FORMAT_V2, FORMAT_V1. change (1 =? 0) with false. cbv iota.
  rewrite (drop_app_len pre _ (len pre) eq_refl). rewrite <- !app_assoc.
  rewrite varint64_roundtrip by exact Hs.
  set (hdr := varint_encode64 (len stored)) in *.
  replace (pre ++ hdr ++ fixed_encode32 (crc32c_ref stored) ++ stored ++ post)
    with ((pre ++ hdr ++ fixed_encode32 (crc32c_ref stored)) ++ stored ++ post) by (rewrite <- !app_assoc; reflexivity).
  replace (len pre + len hdr + 4) with (len (pre ++ hdr ++ fixed_encode32 (crc32c_ref stored))) by (rewrite !len_app, len_fixed32; lia).
  rewrite VerifyProofs.slice_app_mid. cbn [negb]. rewrite Hraw, Hinit. reflexivity.
Qed.
End Load.

(* ---- writer side: ghost state ----------------------------------------------------------- *)
Record dblk := mkd { d_ps : list pentry; d_ridx : list nat; d_raw : bytes; d_stored : bytes; d_sep : bytes; d_off : N }.
Definition d_ab (d : dblk) : ablock := mkab (d_ps d) (map (offset_of (d_ps d)) (d_ridx d)) (len (d_raw d)) false.
Definition dummy_d : dblk := mkd [] [] [] [] [] 0.
Definition lastkey (ps : list pentry) : bytes := last (map pe_key ps) [].
Definition firstkey (ps : list pentry) : bytes := pe_key (nth 0 ps dummy_pe).
Definition sorted_ps (ps : list pentry) : Prop :=
  forall i j, (i < j < length ps)%nat -> bcmp (pe_key (nth i ps dummy_pe)) (pe_key (nth j ps dummy_pe)) = Lt.
Definition fence_of (ps : list pentry) : option (bytes * bytes) := match ps with p :: _ => Some (pe_key p, pe_val p) | [] => None end.
Definition first_kv (ps : list pentry) : bytes * bytes := (pe_key (nth 0 ps dummy_pe), pe_val (nth 0 ps dummy_pe)).
Definition ent_of (p : pentry) : entry := (pe_key p, pe_val p).
Definition all_entries (ds : list dblk) (ps : list pentry) : list entry :=
  concat (map (fun d => map ent_of (d_ps d)) ds) ++ map ent_of ps.

Fixpoint offs_ok (off : N) (ds : list dblk) : Prop :=
  match ds with
  | [] => True
  | d :: tl => d_off d = off /\ offs_ok (off + len (frame (d_stored d))) tl
  end.
(* what links a finished block to the first entry of the block after it: the separator is below
   that entry's key, and the block was closed only because that entry (with 15 bytes allowed for
   its header) would have brought it to the configured size *)
Definition link (bs : N) (d : dblk) (kv : bytes * bytes) : Prop :=
  bcmp (d_sep d) (fst kv) = Lt /\ bs <= len (d_raw d) + 15 + len (fst kv) + len (snd kv).
Fixpoint fences_ok (bs : N) (ds : list dblk) (f : option (bytes * bytes)) : Prop :=
  match ds with
  | [] => True
  | d :: tl => match tl with
               | d' :: _ => link bs d (first_kv (d_ps d'))
               | [] => match f with Some kv => link bs d kv | None => True end
               end /\ fences_ok bs tl f
  end.
Definition idx_entry (p : pentry) (d : dblk) : Prop := pe_key p = d_sep d /\ pe_val p = varint_encode64 (d_off d).

Lemma lastkey_nth ps : ps <> [] -> lastkey ps = pe_key (nth (length ps - 1) ps dummy_pe).
Proof.
  intros H. unfold lastkey. destruct (exists_last H) as (l & x & ->). rewrite map_app. cbn [map].
  rewrite last_app_one, app_length. cbn [length]. rewrite app_nth2 by lia.
  replace (length l + 1 - 1 - length l)%nat with 0%nat by lia. reflexivity.
Qed.

Lemma sorted_le_last ps i : sorted_ps ps -> (i < length ps)%nat -> bcmp (pe_key (nth i ps dummy_pe)) (lastkey ps) <> Gt.
Proof.
  intros Hs Hi. rewrite lastkey_nth by (destruct ps; [cbn in Hi; lia|discriminate]).
  destruct (Nat.eq_dec i (length ps - 1)) as [->|Hne]; [rewrite bcmp_refl; discriminate|].
  rewrite (Hs i (length ps - 1)%nat) by lia. discriminate.
Qed.

Lemma sorted_app ps p : sorted_ps ps -> (ps <> [] -> bcmp (lastkey ps) (pe_key p) = Lt) -> sorted_ps (ps ++ [p]).
Proof.
  intros Hs Hl i j Hij. rewrite app_length in Hij. cbn [length] in Hij.
  destruct (Nat.lt_ge_cases j (length ps)) as [Hj|Hj].
  - rewrite !app_nth1 by lia. apply Hs. lia.
  - assert (j = length ps) by lia. subst j. rewrite app_nth1 by lia. rewrite app_nth2 by lia.
    rewrite Nat.sub_diag. cbn [nth].
    assert (Hne : ps <> []) by (destruct ps; [cbn in Hij; lia|discriminate]).
    eapply bcmp_le_lt_trans; [apply sorted_le_last; [exact Hs|lia]|apply Hl, Hne].
Qed.

Lemma offs_ok_app : forall ds off d, offs_ok off ds ->
  d_off d = off + len (concat (map frame (map d_stored ds))) -> offs_ok off (ds ++ [d]).
Proof.
  induction ds as [|x ds IH]; intros off d Ho Hd.
  - cbn in *. split; [lia|exact I].
  - cbn [app offs_ok]. destruct Ho as [H1 H2]. split; [exact H1|]. apply IH; [exact H2|].
    rewrite Hd. cbn [map concat]. rewrite len_app. lia.
Qed.

Lemma fences_ok_app bs : forall ds f d, fences_ok bs ds f ->
  (match f with Some kv => kv = first_kv (d_ps d) | None => ds = [] end) -> fences_ok bs (ds ++ [d]) None.
Proof.
  induction ds as [|x ds IH]; intros f d Hf Hk; [cbn; split; exact I|].
  cbn [app fences_ok]. destruct Hf as [H1 H2]. destruct ds as [|y ds].
  - cbn [app]. split; [|cbn; split; exact I]. destruct f as [k|]; [subst k; exact H1|discriminate].
  - split; [exact H1|]. apply (IH f d H2). destruct f; [exact Hk|discriminate].
Qed.

Lemma fences_ok_set bs : forall ds kv, fences_ok bs ds None ->
  (forall d, ds <> [] -> d = last ds dummy_d -> link bs d kv) -> fences_ok bs ds (Some kv).
Proof.
  induction ds as [|x ds IH]; intros k Hf Hl; [exact I|].
  cbn [fences_ok] in *. destruct Hf as [H1 H2]. destruct ds as [|y ds].
  - split; [|exact I]. apply (Hl x); [discriminate|reflexivity].
  - split; [exact H1|]. apply IH; [exact H2|]. intros d Hne Hd. apply Hl; [discriminate|]. rewrite Hd. reflexivity.
Qed.

Lemma fences_ok_same_head bs ds ps p : ps <> [] -> fences_ok bs ds (fence_of ps) -> fences_ok bs ds (fence_of (ps ++ [p])).
Proof. intros H. destruct ps; [congruence|]. exact (fun x => x). Qed.

Section Writer.
Variable compress_default : N -> bytes -> res bytes.
Variable compress_level : N -> Z -> bytes -> res bytes.
Variable o : wopts.
Variable off0 : N.
Local Notation writer_add := (Writer.writer_add compress_default compress_level).
Local Notation writer_flush := (Writer.writer_flush compress_default compress_level).
Local Notation writer_finish := (Writer.writer_finish compress_default compress_level).
Local Notation writer_adds := (Writer.writer_adds compress_default compress_level).
Local Notation compress_block := (Writer.compress_block compress_default compress_level).

Definition dblk_ok (d : dblk) : Prop :=
  d_ps d <> [] /\ sorted_ps (d_ps d) /\ block_init (d_raw d) = Some (d_ab d) /\ wfb (d_ab d) (d_ridx d) /\
  compress_block o (d_raw d) = Ok (d_stored d) /\ bcmp (lastkey (d_ps d)) (d_sep d) <> Gt /\
  (* how the block was built, and its size *)
  (exists b, bbinv b (d_ps d) (d_ridx d) /\ d_raw d = bb_finish b /\ bb_interval b = wo_interval o) /\
  len (d_raw d) < 2 ^ 32 /\
  ((2 <= length (d_ps d))%nat -> len (d_raw d) < wo_block_size o).

Record tcore (w : writer) (ds : list dblk) (ps : list pentry) (ridx : list nat) (f : option (bytes * bytes)) : Prop := {
  tc_open : w_closed w = false;
  tc_opt : w_opt w = o;
  tc_out : wout off0 o w (map d_stored ds);
  tc_data : bbinv (w_data w) ps ridx;
  tc_index : exists ips iridx, bbinv (w_index w) ips iridx /\ Forall2 idx_entry ips ds;
  tc_blocks : Forall dblk_ok ds;
  tc_offs : offs_ok off0 ds;
  tc_fences : fences_ok (wo_block_size o) ds f;
  tc_sorted : sorted_ps ps;
  tc_int : bb_interval (w_data w) = wo_interval o /\ bb_interval (w_index w) = wo_interval o;
}.

Lemma bb_nonempty b ps ridx : bbinv b ps ridx -> ps <> [] -> bb_empty b = false.
Proof.
  intros Hb Hps. unfold bb_empty. rewrite (bi_buf _ _ _ Hb).
  pose proof (enc_all_length ps _ _ (bi_legal _ _ _ Hb)). destruct ps; [congruence|]. cbn [length] in H. unfold len. lia.
Qed.
Lemma bb_is_empty b ridx : bbinv b [] ridx -> bb_empty b = true.
Proof. intros Hb. unfold bb_empty. rewrite (bi_buf _ _ _ Hb). reflexivity. Qed.

Lemma Forall2_app_one {A B} (R : A -> B -> Prop) l1 l2 a b : Forall2 R l1 l2 -> R a b -> Forall2 R (l1 ++ [a]) (l2 ++ [b]).
Proof. intros H Hab. apply Forall2_app; [exact H|constructor; [exact Hab|constructor]]. Qed.

(* _mtbl_writer_flush with a non-empty data block: one more finished block *)
Lemma flush_core w ds ps ridx w' : tcore w ds ps ridx (fence_of ps) -> ps <> [] ->
  bcmp (lastkey ps) (w_last_key w) <> Gt -> len (w_last_key w) < 2 ^ 32 ->
  len (bb_finish (w_data w)) < 2 ^ 32 ->
  ((2 <= length ps)%nat -> len (bb_finish (w_data w)) < wo_block_size o) ->
  writer_flush w = Ok w' ->
  exists d, tcore w' (ds ++ [d]) [] [0%nat] None /\ d_ps d = ps /\ d_sep d = w_last_key w /\ d_raw d = bb_finish (w_data w) /\
            w_last_key w' = w_last_key w /\ m_count_entries (w_m w') = m_count_entries (w_m w) /\
            m_bytes_keys (w_m w') = m_bytes_keys (w_m w) /\ m_bytes_values (w_m w') = m_bytes_values (w_m w).
Proof.
  intros [Hc Hopt Hout Hdata (ips & iridx & Hidx & Hrel) Hblocks Hoffs Hfences Hsorted [Hint1 Hint2]] Hps Hle Hlk Hsz Hs1 H.
  unfold Writer.writer_flush in H. rewrite Hc, (bb_nonempty _ _ _ Hdata Hps) in H.
  destruct (compress_block (w_opt w) (bb_finish (w_data w))) as [stored| | |] eqn:Ecomp; try discriminate.
  unfold write_data_block in H. cbn [w_index w_pending_offset w_m w_opt w_data w_last_key w_last_offset w_closed w_out] in H.
  destruct (bb_add (w_index w) (w_last_key w) (varint_encode64 (w_pending_offset w))) as [idx| | |] eqn:Eadd; try discriminate.
  assert (Hvl : len (varint_encode64 (w_pending_offset w)) < 2 ^ 32).
  { pose proof (varint_encode64_len (w_pending_offset w)). change (2 ^ 32) with 4294967296. lia. }
  destruct (bb_add_inv _ _ _ _ _ _ Hidx Hlk Hvl Eadd) as (p & iridx' & Hidx' & Hpk & Hpv & Hint').
  inversion H; subst w'; clear H.
  set (d := mkd ps ridx (bb_finish (w_data w)) stored (w_last_key w) (w_pending_offset w)).
  exists d. cbn [w_last_key w_m m_count_entries m_bytes_keys m_bytes_values]. splits; try reflexivity.
  constructor; cbn [w_closed w_opt w_data w_index].
  - first [exact Hc|reflexivity].
  - exact Hopt.
  - rewrite map_app. cbn [map d_stored d].
    match goal with |- wout _ _ ?W _ => assert (Hw : write_data_block
        (mkwriter (w_opt w) (w_m w) (bb_reset (w_data w)) (w_index w) (w_last_key w) (w_last_offset w) (w_pending_offset w) (w_closed w) (w_out w))
        (w_last_key w) stored = Ok W) end.
    { unfold write_data_block. cbn [w_index w_pending_offset w_m w_opt w_data w_last_key w_last_offset w_closed w_out]. rewrite Eadd, ?Hc. reflexivity. }
    eapply (write_data_block_out compress_default compress_level); [|exact Hw].
    eapply wout_same; [exact Hout| | | | | |]; reflexivity.
  - eapply bbinv_reset. exact Hdata.
  - exists (ips ++ [p]), iridx'. split; [exact Hidx'|]. apply Forall2_app_one; [exact Hrel|]. split; [exact Hpk|exact Hpv].
  - apply Forall_app. split; [exact Hblocks|]. constructor; [|constructor].
    unfold dblk_ok. cbn [d_ps d_raw d_stored d_sep d_ridx d]. splits; try assumption.
    + unfold d_ab. cbn [d_ps d_raw d_ridx d]. apply block_init_finish; assumption.
    + unfold d_ab. cbn [d_ps d_raw d_ridx d]. eapply finish_wfb; eassumption.
    + rewrite <- Hopt. exact Ecomp.
    + exists (w_data w). splits; [exact Hdata|reflexivity|exact Hint1].
  - apply offs_ok_app; [exact Hoffs|]. cbn [d_off d]. exact (wo_pending _ _ _ _ Hout).
  - eapply fences_ok_app; [exact Hfences|]. destruct ps as [|p0 ps0]; [congruence|]. reflexivity.
  - intros i j Hij. cbn in Hij. lia.
  - split; [exact Hint1|]. rewrite Hint'. exact Hint2.
Qed.

(* ---- sizes: no block reaches 4 GiB --------------------------------------------------------- *)
Lemma varint_encode32_len v : len (varint_encode32 v) <= 5.
Proof.
  assert (H : u32 v < 2 ^ 32) by (unfold u32; change (2 ^ 32) with 4294967296; lia).
  assert (E : varint_encode32 v = varint_encode32 (u32 v)).
  { unfold varint_encode32. f_equal. unfold u32. rewrite N.mod_mod by lia. reflexivity. }
  rewrite E, (varint_encode32_spec _ H). apply (leb128_len_le (u32 v) 4).
  change (128 ^ N.of_nat 5) with 34359738368. change (2 ^ 32) with 4294967296 in H. lia.
Qed.
Lemma entry_encode_len s k v : len (entry_encode s k v) <= 15 + len k + len v.
Proof.
  unfold entry_encode. rewrite !len_app.
  pose proof (varint_encode32_len s). pose proof (varint_encode32_len (len k - s)). pose proof (varint_encode32_len (len v)).
  assert (len (drop s k) <= len k) by (unfold drop, len; rewrite skipn_length; lia). lia.
Qed.
Lemma bb_add_sizes b k v b' : bb_add b k v = Ok b' ->
  len (bb_buf b') <= len (bb_buf b) + 15 + len k + len v /\ nrestarts b' <= nrestarts b + 1.
Proof.
  unfold bb_add. destruct (negb (bb_counter b <=? bb_interval b) || bb_finished b); [discriminate|].
  intros H. inversion H; subst b'; clear H. cbn [bb_buf]. unfold nrestarts. cbn [bb_restarts]. rewrite len_app.
  pose proof (entry_encode_len (if bb_counter b <? bb_interval b then lcp (bb_last_key b) k else 0) k v).
  split; [lia|]. destruct (bb_counter b <? bb_interval b); [lia|]. rewrite app_length. cbn [length]. lia.
Qed.
Lemma finish_len_small b : len (bb_buf b) <= UINT32_MAX ->
  len (bb_finish b) = len (bb_buf b) + 4 * nrestarts b + 4 /\ bb_estimate b = len (bb_buf b) + 4 * nrestarts b + 4.
Proof.
  intros H. unfold bb_finish, bb_estimate. replace (UINT32_MAX <? len (bb_buf b)) with false by lia.
  change (map (fun r : N => if false then fixed_encode64 r else fixed_encode32 r) (bb_restarts b)) with (map fixed_encode32 (bb_restarts b)).
  rewrite !len_app, len_fixed32. unfold nrestarts.
  pose proof (len_concat_enc32 (bb_restarts b)) as E. change (map fixed_encode32 (bb_restarts b)) with (map (fun r : N => fixed_encode32 r) (bb_restarts b)) in E.
  rewrite E. split; lia.
Qed.

Lemma entry_encode_len0 k v : len (entry_encode 0 k v) <= 11 + len k + len v.
Proof.
  unfold entry_encode. rewrite !len_app. change (len (varint_encode32 0)) with 1.
  pose proof (varint_encode32_len (len k - 0)). pose proof (varint_encode32_len (len v)).
  assert (len (drop 0 k) <= len k) by (unfold drop, len; rewrite skipn_length; lia). lia.
Qed.
(* the size of the block after an add, against the estimate made before it *)
Lemma bb_add_finish_bound b k v b' : bb_add b k v = Ok b' -> len (bb_buf b') <= UINT32_MAX ->
  len (bb_finish b') <= bb_estimate b + 15 + len k + len v.
Proof.
  intros H Hsmall'. destruct (finish_len_small b' Hsmall') as [-> _].
  unfold bb_add in H. destruct (negb (bb_counter b <=? bb_interval b) || bb_finished b); [discriminate|].
  inversion H; subst b'; clear H. cbn [bb_buf] in *. unfold nrestarts. cbn [bb_restarts]. rewrite len_app in *.
  assert (Hsmall : len (bb_buf b) <= UINT32_MAX) by lia.
  destruct (finish_len_small b Hsmall) as [_ ->]. unfold nrestarts.
  destruct (bb_counter b <? bb_interval b).
  - pose proof (entry_encode_len (lcp (bb_last_key b) k) k v). lia.
  - pose proof (entry_encode_len0 k v). rewrite app_length. cbn [length]. lia.
Qed.

(* ---- the invariant between API calls ------------------------------------------------------ *)
Record tinv (w : writer) (ds : list dblk) (ps : list pentry) (ridx : list nat) : Prop := {
  ti_core : tcore w ds ps ridx (fence_of ps);
  ti_last : ps <> [] -> w_last_key w = lastkey ps /\ 0 < m_count_entries (w_m w);
  ti_fresh : ps = [] -> ds = [] /\ m_count_entries (w_m w) = 0 /\ ridx = [0%nat];
  ti_lkwf : wf_bytes (w_last_key w);
  ti_lklen : len (w_last_key w) < 2 ^ 32;
  ti_size : len (bb_finish (w_data w)) < 2 ^ 32;
  ti_s1 : (2 <= length ps)%nat -> len (bb_finish (w_data w)) < wo_block_size o;
}.

Lemma tinv_init : 1 <= wo_interval o -> tinv (writer_init o off0) [] [] [0%nat].
Proof.
  intros Hi. constructor.
  - constructor; cbn [writer_init w_closed w_opt w_data w_index map].
    + reflexivity.
    + reflexivity.
    + apply (wout_init compress_default compress_level).
    + apply bbinv_init, Hi.
    + exists [], [0%nat]. split; [apply bbinv_init, Hi|constructor].
    + constructor.
    + exact I.
    + exact I.
    + intros i j Hij. cbn in Hij. lia.
    + split; reflexivity.
  - intros H. congruence.
  - intros _. splits; reflexivity.
  - constructor.
  - cbn. change (2 ^ 32) with 4294967296. lia.
  - cbn. change (2 ^ 32) with 4294967296. lia.
  - intros H. cbn in H. lia.
Qed.

Lemma all_entries_add ds ps p k v : pe_key p = k -> pe_val p = v -> all_entries ds (ps ++ [p]) = all_entries ds ps ++ [(k, v)].
Proof. intros <- <-. unfold all_entries. rewrite map_app, app_assoc. reflexivity. Qed.
Lemma all_entries_cut ds d p k v : pe_key p = k -> pe_val p = v ->
  all_entries (ds ++ [d]) [p] = all_entries ds (d_ps d) ++ [(k, v)].
Proof. intros <- <-. unfold all_entries. rewrite map_app, concat_app. cbn [map concat]. rewrite app_nil_r. reflexivity. Qed.

(* the part of a step that is common to "no cut" and "cut": add to the data block *)
Lemma add_to_block w1 ds ps ridx k v d (w' : writer) :
  tcore w1 ds ps ridx (fence_of ps) -> (ps = [] -> fences_ok (wo_block_size o) ds (Some (k, v))) ->
  (ps <> [] -> bcmp (lastkey ps) k = Lt) ->
  (ps <> [] -> len (bb_finish d) < wo_block_size o) ->
  wf_bytes k -> len k < 2 ^ 32 -> len v < 2 ^ 32 ->
  len (bb_buf (w_data w1)) + 15 + len k + len v + 4 * (nrestarts (w_data w1) + 1) + 4 < 2 ^ 32 ->
  bb_add (w_data w1) k v = Ok d ->
  w_closed w' = w_closed w1 -> w_opt w' = w_opt w1 -> w_data w' = d -> w_index w' = w_index w1 ->
  w_out w' = w_out w1 -> w_pending_offset w' = w_pending_offset w1 -> w_last_key w' = k ->
  m_count_entries (w_m w') = m_count_entries (w_m w1) + 1 ->
  m_count_data_blocks (w_m w') = m_count_data_blocks (w_m w1) ->
  m_bytes_data_blocks (w_m w') = m_bytes_data_blocks (w_m w1) ->
  m_data_block_size (w_m w') = m_data_block_size (w_m w1) ->
  m_compression_algorithm (w_m w') = m_compression_algorithm (w_m w1) ->
  exists p ridx', tinv w' ds (ps ++ [p]) ridx' /\ pe_key p = k /\ pe_val p = v.
Proof.
  intros [Hc Hopt Hout Hdata Hindex Hblocks Hoffs Hfences Hsorted [Hint1 Hint2]] Hfresh Hlt Hbs Hwf Hk Hv Hsz Hadd
         E1 E2 E3 E4 E5 E6 E7 E8 E9 E10 E11 E12.
  destruct (bb_add_inv _ _ _ _ _ _ Hdata Hk Hv Hadd) as (p & ridx' & Hdata' & Hpk & Hpv & Hint').
  destruct (bb_add_sizes _ _ _ _ Hadd) as [Hs1 Hs2].
  exists p, ridx'. splits; try assumption. constructor.
  - constructor.
    + congruence.
    + congruence.
    + eapply wout_same; [exact Hout| | | | | |]; assumption.
    + rewrite E3. exact Hdata'.
    + rewrite E4. exact Hindex.
    + exact Hblocks.
    + exact Hoffs.
    + destruct ps as [|p0 ps0]; [cbn [app fence_of]; rewrite Hpk, Hpv; apply Hfresh; reflexivity|exact Hfences].
    + apply sorted_app; [exact Hsorted|]. rewrite Hpk. exact Hlt.
    + rewrite E3, E4, Hint'. split; assumption.
  - intros _. split; [|lia]. rewrite E7. unfold lastkey. rewrite map_app. cbn [map]. rewrite last_app_one. symmetry. exact Hpk.
  - intros E. destruct ps; discriminate.
  - rewrite E7. exact Hwf.
  - rewrite E7. exact Hk.
  - rewrite E3. change (2 ^ 32) with 4294967296 in *.
    destruct (finish_len_small d ltac:(unfold UINT32_MAX; lia)) as [-> _]. lia.
  - intros H2. rewrite E3. apply Hbs. rewrite app_length in H2. cbn [length] in H2. destruct ps; [cbn in H2; lia|discriminate].
Qed.

Lemma tcore_fields w w0 ds ps ridx f : tcore w ds ps ridx f ->
  w_closed w0 = w_closed w -> w_opt w0 = w_opt w -> w_data w0 = w_data w -> w_index w0 = w_index w ->
  w_out w0 = w_out w -> w_pending_offset w0 = w_pending_offset w ->
  m_count_data_blocks (w_m w0) = m_count_data_blocks (w_m w) ->
  m_bytes_data_blocks (w_m w0) = m_bytes_data_blocks (w_m w) ->
  m_data_block_size (w_m w0) = m_data_block_size (w_m w) ->
  m_compression_algorithm (w_m w0) = m_compression_algorithm (w_m w) ->
  tcore w0 ds ps ridx f.
Proof.
  intros [Hc Hopt Hout Hdata Hindex Hblocks Hoffs Hfences Hsorted Hint] E1 E2 E3 E4 E5 E6 E7 E8 E9 E10.
  constructor; try assumption; try congruence.
  - eapply wout_same; [exact Hout| | | | | |]; assumption.
  - rewrite E4. exact Hindex.
Qed.

(* mtbl_writer_add *)
Theorem add_inv w ds ps ridx k v w' r : tinv w ds ps ridx ->
  wf_bytes k -> len k < 2 ^ 32 -> len v < 2 ^ 32 -> wo_block_size o + len k + len v + 32 < 2 ^ 32 ->
  writer_add w k v = Ok (w', r) ->
  exists ds' ps' ridx', tinv w' ds' ps' ridx' /\
    all_entries ds' ps' = all_entries ds ps ++ (if r then [(k, v)] else []) /\
    (r = true -> w_last_key w' = k).
Proof.
  intros Hinv Hwf Hk Hv Hbig H. pose proof Hinv as [Hcore Hlast Hfresh Hlkwf Hlklen Hsize Hs1inv].
  pose proof Hcore as [Hc Hopt Hout Hdata Hindex Hblocks Hoffs Hfences Hsorted Hint].
  unfold Writer.writer_add in H. rewrite Hc in H. unfold WRITER_GATE_IS_STRICT, WRITER_CUT_IS_GE, WRITER_ENTRY_OVERHEAD in H. cbn [negb] in H.
  match type of H with (if ?c then _ else _) = _ => destruct c eqn:Egate end.
  { inversion H; subst w' r. exists ds, ps, ridx. split; [exact Hinv|]. split; [rewrite app_nil_r; reflexivity|discriminate]. }
  (* accepted: the key is above the last key of the current block *)
  assert (Hlt : ps <> [] -> bcmp (lastkey ps) k = Lt).
  { intros Hne. destruct (Hlast Hne) as [Hl Hcnt]. rewrite <- Hl.
    replace (0 <? m_count_entries (w_m w)) with true in Egate by lia. cbn [andb] in Egate.
    apply bcmp_lt_gt. destruct (bcmp k (w_last_key w)); [discriminate|discriminate|reflexivity]. }
  change (2 ^ 32) with 4294967296 in *.
  assert (Hsmall : len (bb_buf (w_data w)) <= UINT32_MAX).
  { unfold bb_finish in Hsize. rewrite len_app in Hsize. unfold UINT32_MAX. lia. }
  destruct (finish_len_small _ Hsmall) as [Hfl Hest].
  rewrite Hopt in H.
  match type of H with context [if ?c then _ else Ok w] => destruct c eqn:Ecut end.
  - (* the block is cut before the add *)
    match type of H with context [if ?c then Abort else _] => destruct c eqn:Eassert end; [discriminate|].
    destruct ps as [|p0 ps0] eqn:Eps.
    + (* nothing to flush *)
      destruct (Hfresh eq_refl) as (-> & Hcnt0 & ->).
      unfold Writer.writer_flush in H. cbn [w_closed w_data] in H. rewrite ?Hc, (bb_is_empty _ _ Hdata) in H.
      cbn [w_m w_data w_opt w_index w_last_offset w_pending_offset w_closed w_out] in H.
      destruct (bb_add (w_data w) k v) as [d| | |] eqn:Eadd; try discriminate. inversion H; subst w' r; clear H.
      match goal with |- context [tinv ?W _ _ _] =>
        destruct (add_to_block w [] [] [0%nat] k v d W Hcore ltac:(intros; exact I) ltac:(congruence) ltac:(congruence) Hwf Hk Hv) as (p & ridx' & Hinv' & Hpk & Hpv) end;
        try reflexivity; try exact Eadd; try (cbn [w_closed w_opt]; congruence).
      { change (2 ^ 32) with 4294967296. unfold nrestarts. rewrite (bi_buf _ _ _ Hdata), (bi_restarts _ _ _ Hdata).
        cbn [map length]. change (len (enc_all [])) with 0. lia. }
      exists [], ([] ++ [p]), ridx'. split; [exact Hinv'|]. split; [apply all_entries_add; assumption|reflexivity].
    + (* flush the block under the separator, then add to the fresh block *)
      assert (Hne : p0 :: ps0 <> []) by discriminate. rewrite <- Eps in *.
      destruct (Hlast Hne) as [Hl Hcnt]. specialize (Hlt Hne).
      rewrite Hl in *.
      destruct (sep_between (lastkey ps) k Hlkwf Hwf Hlt) as (Hs1 & Hs2 & Hs3).
      set (lk := sep (lastkey ps) k) in *.
      match type of H with context [writer_flush ?W0] => set (w0 := W0) in H end.
      destruct (writer_flush w0) as [w1| | |] eqn:Eflush; try discriminate.
      assert (Hcore0 : tcore w0 ds ps ridx (fence_of ps)) by (eapply tcore_fields; [exact Hcore| | | | | | | | | |]; first [reflexivity|unfold w0; cbn [w_closed w_opt]; congruence]).
      destruct (flush_core w0 ds ps ridx w1 Hcore0 Hne) as (d & Hcore1 & Hdps & Hdsep & Hdraw & Hlk1 & Hc1 & Hk1 & Hv1); try exact Eflush.
      { exact Hs1. }
      { cbn [w0 w_last_key]. fold lk. lia. }
      { cbn [w0 w_data]. change (2 ^ 32) with 4294967296. exact Hsize. }
      { cbn [w0 w_data]. exact Hs1inv. }
      cbn [w0 w_data] in Hdraw.
      cbn [w0 w_last_key] in Hdsep, Hlk1. fold lk in Hdsep, Hlk1.
      destruct (bb_add (w_data w1) k v) as [dd| | |] eqn:Eadd; try discriminate. inversion H; subst w' r; clear H.
      pose proof (tc_data _ _ _ _ _ Hcore1) as Hd1.
      match goal with |- context [tinv ?W _ _ _] =>
        destruct (add_to_block w1 (ds ++ [d]) [] [0%nat] k v dd W Hcore1) as (p & ridx' & Hinv' & Hpk & Hpv) end;
        try reflexivity; try exact Eadd; try assumption; try (cbn [w_closed w_opt]; congruence).
      { intros _. apply fences_ok_set; [exact (tc_fences _ _ _ _ _ Hcore1)|].
        intros d' _ Hd'. rewrite last_app_one in Hd'. subst d'. split; cbn [fst snd]; [rewrite Hdsep; exact Hs2|].
        rewrite Hdraw, Hfl, <- Hest. lia. }
      { change (2 ^ 32) with 4294967296. rewrite (bi_buf _ _ _ Hd1). unfold nrestarts. rewrite (bi_restarts _ _ _ Hd1).
        cbn [map length]. change (len (enc_all [])) with 0. lia. }
      exists (ds ++ [d]), ([] ++ [p]), ridx'. split; [exact Hinv'|]. split; [cbn [app]; rewrite <- Hdps; apply all_entries_cut; assumption|reflexivity].
  - (* no cut *)
    destruct (bb_add (w_data w) k v) as [d| | |] eqn:Eadd; try discriminate. inversion H; subst w' r; clear H.
    match goal with |- context [tinv ?W _ _ _] =>
      destruct (add_to_block w ds ps ridx k v d W Hcore) as (p & ridx' & Hinv' & Hpk & Hpv) end;
      try reflexivity; try exact Eadd; try assumption; try (cbn [w_closed w_opt]; congruence).
    { intros E. destruct (Hfresh E) as (-> & _ & _). exact I. }
    { intros _. pose proof (bb_add_finish_bound _ _ _ _ Eadd) as Hb. destruct (bb_add_sizes _ _ _ _ Eadd) as [Hb1 _].
      rewrite Hest in Ecut. specialize (Hb ltac:(unfold UINT32_MAX; lia)). rewrite Hest in Hb. lia. }
    { change (2 ^ 32) with 4294967296. rewrite Hest in Ecut. lia. }
    exists ds, (ps ++ [p]), ridx'. split; [exact Hinv'|]. split; [apply all_entries_add; assumption|reflexivity].
Qed.

(* the entries whose add returned success *)
Definition kept (ops : list entry) (rs : list bool) : list entry := map fst (filter snd (combine ops rs)).

Definition entry_fits (kv : entry) : Prop :=
  wf_bytes (fst kv) /\ len (fst kv) < 2 ^ 32 /\ len (snd kv) < 2 ^ 32 /\
  wo_block_size o + len (fst kv) + len (snd kv) + 32 < 2 ^ 32.

Theorem adds_inv : forall ops w ds ps ridx w' rs, tinv w ds ps ridx -> Forall entry_fits ops ->
  writer_adds w ops = Ok (w', rs) ->
  exists ds' ps' ridx', tinv w' ds' ps' ridx' /\ all_entries ds' ps' = all_entries ds ps ++ kept ops rs.
Proof.
  induction ops as [|[k v] ops IH]; intros w ds ps ridx w' rs Hinv Hfit H; cbn [Writer.writer_adds] in H.
  - inversion H; subst. exists ds, ps, ridx. split; [exact Hinv|]. unfold kept. cbn. rewrite app_nil_r. reflexivity.
  - inversion Hfit as [|? ? (Hwf & Hk & Hv & Hbig) Hfit']; subst. cbn [fst snd] in *.
    destruct (writer_add w k v) as [[w1 r]| | |] eqn:Ea; try discriminate.
    destruct (writer_adds w1 ops) as [[w2 rs2]| | |] eqn:Er; try discriminate. inversion H; subst w' rs; clear H.
    destruct (add_inv _ _ _ _ _ _ _ _ Hinv Hwf Hk Hv Hbig Ea) as (ds1 & ps1 & ridx1 & Hinv1 & He1 & _).
    destruct (IH _ _ _ _ _ _ Hinv1 Hfit' Er) as (ds2 & ps2 & ridx2 & Hinv2 & He2).
    exists ds2, ps2, ridx2. split; [exact Hinv2|]. rewrite He2, He1, <- app_assoc. f_equal.
    unfold kept. cbn [combine filter snd]. destruct r; reflexivity.
Qed.

(* strictly increasing input: every add succeeds *)
Fixpoint strictly_sorted (l : list bytes) : Prop :=
  match l with
  | a :: ((b :: _) as tl) => bcmp a b = Lt /\ strictly_sorted tl
  | _ => True
  end.

Lemma add_accepts w k v w' r : w_closed w = false ->
  (m_count_entries (w_m w) = 0 \/ bcmp k (w_last_key w) = Gt) -> writer_add w k v = Ok (w', r) -> r = true.
Proof.
  intros Hc Hg H. unfold Writer.writer_add in H. rewrite Hc in H.
  match type of H with (if ?c then _ else _) = _ => assert (Eg : c = false) end.
  { destruct Hg as [H0|Hgt]; [rewrite H0; reflexivity|]. rewrite Hgt. cbn [negb]. apply Bool.andb_false_r. }
  rewrite Eg in H.
  match type of H with (match ?r1 with Ok _ => _ | _ => _ end) = _ => destruct r1 as [w1| | |]; try discriminate end.
  destruct (bb_add (w_data w1) k v); try discriminate. inversion H. reflexivity.
Qed.

Theorem adds_sorted : forall ops w ds ps ridx w' rs, tinv w ds ps ridx -> Forall entry_fits ops ->
  (match ops with [] => True | kv :: _ => m_count_entries (w_m w) = 0 \/ bcmp (fst kv) (w_last_key w) = Gt end) ->
  strictly_sorted (map fst ops) -> writer_adds w ops = Ok (w', rs) -> kept ops rs = ops.
Proof.
  induction ops as [|[k v] ops IH]; intros w ds ps ridx w' rs Hinv Hfit Hfirst Hs H; cbn [Writer.writer_adds] in H.
  - inversion H. reflexivity.
  - inversion Hfit as [|? ? (Hwf & Hk & Hv & Hbig) Hfit']; subst. cbn [fst snd] in *.
    destruct (writer_add w k v) as [[w1 r]| | |] eqn:Ea; try discriminate.
    destruct (writer_adds w1 ops) as [[w2 rs2]| | |] eqn:Er; try discriminate. inversion H; subst w' rs; clear H.
    pose proof (add_accepts w k v w1 r (tc_open _ _ _ _ _ (ti_core _ _ _ _ Hinv)) Hfirst Ea) as ->.
    destruct (add_inv _ _ _ _ _ _ _ _ Hinv Hwf Hk Hv Hbig Ea) as (ds1 & ps1 & ridx1 & Hinv1 & _ & Hlk).
    unfold kept. cbn [combine filter snd map fst]. f_equal.
    apply (IH w1 ds1 ps1 ridx1 w2 rs2 Hinv1 Hfit'); [| |exact Er].
    + destruct ops as [|[k2 v2] ops]; [exact I|]. right. rewrite (Hlk eq_refl). cbn [fst map strictly_sorted] in *.
      apply bcmp_lt_gt. tauto.
    + cbn [map strictly_sorted] in Hs. destruct (map fst ops) eqn:E; [exact I|]. tauto.
Qed.

(* _mtbl_writer_finish: the last block, the index block, the trailer *)
Theorem finish_inv w ds ps ridx w' : tinv w ds ps ridx -> writer_finish w = Ok w' ->
  exists ds' ib ips iridx,
    writer_bytes w' = concat (map frame (map d_stored ds')) ++ frame (bb_finish ib) ++ metadata_write (w_m w') /\
    Forall dblk_ok ds' /\ offs_ok off0 ds' /\ fences_ok (wo_block_size o) ds' None /\
    bbinv ib ips iridx /\ bb_interval ib = wo_interval o /\ Forall2 idx_entry ips ds' /\
    m_index_block_offset (w_m w') = off0 + len (concat (map frame (map d_stored ds'))) /\
    m_compression_algorithm (w_m w') = wo_comp o /\
    m_bytes_index_block (w_m w') = len (frame (bb_finish ib)) /\
    all_entries ds' [] = all_entries ds ps.
Proof.
  intros [Hcore Hlast Hfresh Hlkwf Hlklen Hsize Hs1inv] H. unfold Writer.writer_finish in H.
  destruct (writer_flush w) as [w1| | |] eqn:Ef; try discriminate.
  assert (Hw1 : exists ds', tcore w1 ds' [] [0%nat] None /\ all_entries ds' [] = all_entries ds ps).
  { destruct ps as [|p0 ps0] eqn:Eps.
    - destruct (Hfresh eq_refl) as (-> & _ & ->). unfold Writer.writer_flush in Ef.
      rewrite (tc_open _ _ _ _ _ Hcore), (bb_is_empty _ _ (tc_data _ _ _ _ _ Hcore)) in Ef. inversion Ef; subst w1.
      exists []. split; [exact Hcore|reflexivity].
    - assert (Hne : p0 :: ps0 <> []) by discriminate. rewrite <- Eps in *. destruct (Hlast Hne) as [Hl _].
      destruct (flush_core w ds ps ridx w1 Hcore Hne) as (d & Hc1 & Hdps & _); try assumption.
      { rewrite Hl, bcmp_refl. discriminate. }
      exists (ds ++ [d]). split; [exact Hc1|]. unfold all_entries. rewrite map_app, concat_app. cbn [map concat]. rewrite Hdps, !app_nil_r. reflexivity. }
  destruct Hw1 as (ds' & [Hc Hopt Hout Hdata (ips & iridx & Hidx & Hrel) Hblocks Hoffs Hfences Hsorted Hint] & Hall).
  inversion H; subst w'; clear H.
  exists ds', (w_index w1), ips, iridx.
  destruct Hout as [Hb Hcnt Hd Hp Hbs Halg].
  cbn [w_m m_index_block_offset m_compression_algorithm m_bytes_index_block].
  splits; try assumption; try exact (proj2 Hint).
  - unfold writer_bytes, writer_chunks in *. cbn [w_out]. cbn [rev]. rewrite !concat_app. cbn [concat].
    rewrite !app_nil_r, <- !app_assoc, Hb. unfold frame. rewrite <- !app_assoc. reflexivity.
  - rewrite frame_len. reflexivity.
Qed.
End Writer.

(* ---- reader side: opening the file ---------------------------------------------------------- *)
Lemma reader_open_layout pre idx m :
  meta_small m -> m_index_block_offset m = len pre -> len (pre ++ frame idx ++ metadata_write m) < 2 ^ 64 ->
  8 <= len idx ->
  fst (reader_open (pre ++ frame idx ++ metadata_write m) false) =
  Ok (Some (mkreader (pre ++ frame idx ++ metadata_write m) FORMAT_V2 (m_compression_algorithm m) false (block_init idx) m)).
Proof.
  intros Hm Hibo Hlen Hidx. destruct (metadata_roundtrip m Hm) as [Hrt Hml]. unfold MTBL_METADATA_SIZE in Hml.
  set (f := pre ++ frame idx ++ metadata_write m) in *.
  assert (Hs : len idx < 2 ^ 64) by (unfold f in Hlen; rewrite !len_app in Hlen; unfold frame in Hlen; rewrite !len_app in Hlen; lia).
  pose proof (varint_encode64_len (len idx)) as Hl10.
  assert (Hl1 : 0 < len (varint_encode64 (len idx))).
  { rewrite varint_encode64_spec by exact Hs. pose proof (leb128_nonempty (len idx)).
    destruct (leb128 (len idx)); [congruence|rewrite len_cons; lia]. }
  set (hdr := varint_encode64 (len idx)) in *.
  assert (Hfl : len (frame idx) = len hdr + 4 + len idx) by (unfold frame; rewrite !len_app, len_fixed32; fold hdr; lia).
  assert (Hn : len f = len pre + len (frame idx) + 512) by (unfold f; rewrite !len_app, Hml; lia).
  change (2 ^ 64) with 18446744073709551616 in *.
  unfold reader_open. fold f. rewrite Hn. unfold MTBL_METADATA_SIZE.
  replace (len pre + len (frame idx) + 512 <? 512) with false by lia.
  replace (len pre + len (frame idx) + 512 - 512) with (len (pre ++ frame idx)) by (rewrite len_app; lia).
  replace f with ((pre ++ frame idx) ++ metadata_write m) at 1 by (unfold f; rewrite <- app_assoc; reflexivity).
  rewrite (drop_app_len (pre ++ frame idx) _ _ eq_refl). rewrite <- (app_nil_r (metadata_write m)) at 1.
  rewrite app_nil_r, Hrt. unfold FORMAT_V2, FORMAT_V1. change (1 =? 0) with false. cbv iota.
  unfold READER_MIN_BLOCK_V2. rewrite Hibo. unfold u64.
  rewrite (N.mod_small (len pre + 512 + 13)) by lia.
  replace ((len pre + len (frame idx) + 512 <? len pre + 512 + 13) || (len pre + 512 + 13 <? len pre)) with false by lia.
  unfold f at 1. rewrite (drop_app_len pre _ _ eq_refl). unfold frame at 1. rewrite <- !app_assoc.
  rewrite varint64_roundtrip by (change (2 ^ 64) with 18446744073709551616; exact Hs). fold hdr.
  cbv iota beta. rewrite len_app.
  replace ((len pre + len (frame idx) - len pre <? len hdr + 4) || (len pre + len (frame idx) - len pre - (len hdr + 4) <? len idx)) with false by lia.
  replace f with ((pre ++ hdr ++ fixed_encode32 (crc32c_ref idx)) ++ idx ++ metadata_write m)
    by (unfold f, frame; fold hdr; rewrite <- !app_assoc; reflexivity).
  replace (len pre + len hdr + 4) with (len (pre ++ hdr ++ fixed_encode32 (crc32c_ref idx))) by (rewrite !len_app, len_fixed32; lia).
  rewrite slice_app_mid. cbn [negb fst].
  replace ((4 <=? len idx) && (len idx <? 8)) with false by lia.
  reflexivity.
Qed.

(* ---- indexed views of the ghost lists ------------------------------------------------------- *)
Definition frames_of (ds : list dblk) : bytes := concat (map frame (map d_stored ds)).

Lemma frames_split : forall ds i, (i < length ds)%nat ->
  frames_of ds = frames_of (firstn i ds) ++ frame (d_stored (nth i ds dummy_d)) ++ frames_of (skipn (S i) ds).
Proof.
  induction ds as [|d ds IH]; intros i Hi; [cbn in Hi; lia|]. destruct i as [|i].
  - reflexivity.
  - cbn [firstn skipn nth]. unfold frames_of in *. cbn [map concat]. rewrite (IH i) by (cbn in Hi; lia).
    rewrite <- !app_assoc. reflexivity.
Qed.

Lemma offs_nth : forall ds off i, offs_ok off ds -> (i < length ds)%nat ->
  d_off (nth i ds dummy_d) = off + len (frames_of (firstn i ds)).
Proof.
  induction ds as [|d ds IH]; intros off i Ho Hi; [cbn in Hi; lia|]. destruct Ho as [H1 H2]. destruct i as [|i].
  - cbn. lia.
  - cbn [nth firstn]. rewrite (IH _ i H2) by (cbn in Hi; lia). unfold frames_of. cbn [map concat]. rewrite len_app. lia.
Qed.

Lemma frame_pos s : 0 < len (frame s).
Proof. unfold frame. rewrite !len_app, len_fixed32. lia. Qed.

Lemma offs_lt ds off i j : offs_ok off ds -> (i < j < length ds)%nat ->
  d_off (nth i ds dummy_d) < d_off (nth j ds dummy_d).
Proof.
  intros Ho Hij. rewrite (offs_nth ds off i Ho), (offs_nth ds off j Ho) by lia.
  replace (firstn j ds) with (firstn i ds ++ firstn (j - i) (skipn i ds)).
  2:{ rewrite <- (firstn_add' i (j - i)). f_equal. lia. }
  unfold frames_of. rewrite !map_app, concat_app, len_app.
  destruct (skipn i ds) as [|x rest] eqn:E.
  { exfalso. apply (f_equal (@length dblk)) in E. rewrite skipn_length in E. cbn in E. lia. }
  destruct (j - i)%nat as [|n] eqn:En; [lia|]. cbn [firstn map concat]. rewrite len_app. pose proof (frame_pos (d_stored x)). lia.
Qed.

Lemma fences_nth bs : forall ds f i, fences_ok bs ds f -> (S i < length ds)%nat ->
  link bs (nth i ds dummy_d) (first_kv (d_ps (nth (S i) ds dummy_d))).
Proof.
  induction ds as [|d ds IH]; intros f i Hf Hi; [cbn in Hi; lia|]. destruct Hf as [H1 H2]. destruct i as [|i].
  - destruct ds as [|d' ds]; [cbn in Hi; lia|]. exact H1.
  - change (nth (S i) (d :: ds) dummy_d) with (nth i ds dummy_d). change (nth (S (S i)) (d :: ds) dummy_d) with (nth (S i) ds dummy_d).
    apply (IH f). exact H2. cbn in Hi. lia.
Qed.
Lemma fences_nth_lt bs ds f i : fences_ok bs ds f -> (S i < length ds)%nat ->
  bcmp (d_sep (nth i ds dummy_d)) (firstkey (d_ps (nth (S i) ds dummy_d))) = Lt.
Proof. intros H Hi. exact (proj1 (fences_nth bs ds f i H Hi)). Qed.

Lemma Forall2_nth {A B} (R : A -> B -> Prop) : forall l1 l2 da db i, Forall2 R l1 l2 -> (i < length l1)%nat -> R (nth i l1 da) (nth i l2 db).
Proof.
  induction l1 as [|a l1 IH]; intros l2 da db i H Hi; [cbn in Hi; lia|]. inversion H; subst. destruct i; [assumption|].
  cbn [nth]. apply IH; [assumption|cbn in Hi; lia].
Qed.
Lemma Forall2_length' {A B} (R : A -> B -> Prop) l1 l2 : Forall2 R l1 l2 -> length l1 = length l2.
Proof. induction 1; cbn; congruence. Qed.

Lemma firstkey_le_last ps : ps <> [] -> sorted_ps ps -> bcmp (firstkey ps) (lastkey ps) <> Gt.
Proof. intros Hne Hs. apply (sorted_le_last ps 0 Hs). destruct ps; [congruence|cbn; lia]. Qed.

Section Seps.
Variable dok : dblk -> Prop.
Hypothesis dok_ne : forall d, dok d -> d_ps d <> [].
Hypothesis dok_sorted : forall d, dok d -> sorted_ps (d_ps d).
Hypothesis dok_sep : forall d, dok d -> bcmp (lastkey (d_ps d)) (d_sep d) <> Gt.

(* separators increase strictly *)
Lemma seps_sorted bs ds : Forall dok ds -> fences_ok bs ds None ->
  forall i j, (i < j < length ds)%nat -> bcmp (d_sep (nth i ds dummy_d)) (d_sep (nth j ds dummy_d)) = Lt.
Proof.
  intros Hall Hf i j [Hij Hj]. rewrite Forall_forall in Hall.
  assert (Hstep : forall a, (S a < length ds)%nat -> bcmp (d_sep (nth a ds dummy_d)) (d_sep (nth (S a) ds dummy_d)) = Lt).
  { intros a Ha. pose proof (Hall _ (nth_In ds dummy_d Ha)) as Hd.
    eapply bcmp_lt_le_trans; [apply (fences_nth_lt bs ds None a Hf Ha)|].
    pose proof (firstkey_le_last _ (dok_ne _ Hd) (dok_sorted _ Hd)) as H1. pose proof (dok_sep _ Hd) as H2.
    destruct (bcmp (firstkey (d_ps (nth (S a) ds dummy_d))) (lastkey (d_ps (nth (S a) ds dummy_d)))) eqn:E1; [| |congruence].
    - apply bcmp_eq in E1. rewrite E1. exact H2.
    - rewrite (bcmp_lt_le_trans _ _ _ E1 H2). discriminate. }
  induction j as [|j IH]; [lia|]. destruct (Nat.eq_dec i j) as [->|Hne]; [apply Hstep, Hj|].
  eapply bcmp_lt_trans; [apply IH; lia|apply Hstep, Hj].
Qed.
End Seps.

Lemma bbinv_nil_ridx b ridx : bbinv b [] ridx -> ridx = [0%nat].
Proof.
  intros Hb. destruct ridx as [|a [|c rest]].
  - pose proof (bi_ridx_ne _ _ _ Hb) as H. cbn in H. lia.
  - pose proof (bi_ridx_hd _ _ _ Hb) as H. cbn in H. subst. reflexivity.
  - exfalso. pose proof (bi_ridx_inc _ _ _ Hb 0%nat 1%nat ltac:(cbn; lia)) as H. cbn in H.
    destruct (bi_ridx_bound _ _ _ Hb c ltac:(cbn; auto)) as [Hl|[-> _]]; [cbn in Hl; lia|lia].
Qed.

Lemma map_nth_seq {A} (l : list A) d : map (fun k => nth k l d) (seq 0 (length l)) = l.
Proof.
  induction l as [|a l IH]; [reflexivity|]. cbn [length seq map nth]. f_equal.
  rewrite <- seq_shift, map_map. exact IH.
Qed.

(* the table without entries *)
Lemma empty_table_iter decompress r ib r0 :
  r_index r = Some ib -> ab_entries ib = [] -> ab_restarts ib = [r0] -> reader_iter decompress r = Ok None.
Proof.
  intros Hi He Hr. unfold reader_iter. rewrite Hi. destruct ib as [es rs rl w]. cbn [ab_entries ab_restarts] in He, Hr. subst es rs.
  unfold block_seek_to_first, seek_restart, nrest, restart_at. cbn [ab_restarts ab_entries length find_off nth N.to_nat].
  change (0 <? N.of_nat 1) with true. cbn [negb].
  replace (r0 <? 0) with false by (symmetry; apply N.ltb_ge, N.le_0_l). reflexivity.
Qed.

(* ---- the round trip -------------------------------------------------------------------------- *)
Section RoundTrip.
Variable compress_default : N -> bytes -> res bytes.
Variable compress_level : N -> Z -> bytes -> res bytes.
Variable decompress : N -> bytes -> res bytes.
Hypothesis Hrt_default : forall a raw c, compress_default a raw = Ok c -> decompress a c = Ok raw.
Hypothesis Hrt_level : forall a l raw c, compress_level a l raw = Ok c -> decompress a c = Ok raw.

Lemma decompress_block o raw stored : compress_block compress_default compress_level o raw = Ok stored ->
  (if wo_comp o =? COMP_NONE then Ok stored else decompress (wo_comp o) stored) = Ok raw.
Proof.
  unfold compress_block. destruct (wo_comp o =? COMP_NONE); [congruence|].
  destruct (Z.eqb (wo_level o) DEFAULT_COMPRESSION_LEVEL).
  - destruct (compress_default (wo_comp o) raw) as [c| | |] eqn:E; try discriminate. intros H. inversion H; subst. eapply Hrt_default, E.
  - destruct (compress_level (wo_comp o) (wo_level o) raw) as [c| | |] eqn:E; try discriminate. intros H. inversion H; subst. eapply Hrt_level, E.
Qed.

Definition Bof (ds : list dblk) (i : nat) : ablock := d_ab (nth i ds dummy_d).
Definition Rof (ds : list dblk) (i : nat) : list nat := d_ridx (nth i ds dummy_d).

Lemma entries_of_blocks ds : table_entries_of (length ds) (Bof ds) = all_entries ds [].
Proof.
  unfold table_entries_of, Gents, G, G_upto, all_entries. cbn [map]. rewrite app_nil_r.
  unfold Bof, d_ab. cbn [ab_entries].
  rewrite <- (map_nth_seq ds dummy_d) at 2. rewrite map_map, concat_map, map_map. reflexivity.
Qed.

Theorem written_table_ok o prefix ops w' rs :
  1 <= wo_interval o -> Forall (entry_fits o) ops ->
  writer_session compress_default compress_level o (len prefix) ops = Ok (w', rs) ->
  meta_small (w_m w') -> m_bytes_index_block (w_m w') < 2 ^ 32 -> len (prefix ++ writer_bytes w') < 2 ^ 64 ->
  exists r, fst (reader_open (prefix ++ writer_bytes w') false) = Ok (Some r) /\
    ((kept ops rs = [] /\ exists ib r0, r_index r = Some ib /\ ab_entries ib = [] /\ ab_restarts ib = [r0]) \/
     (exists ib iridx ds, table_ok decompress r ib iridx (length ds) (Bof ds) (Rof ds) /\
                          table_entries_of (length ds) (Bof ds) = kept ops rs)).
Proof.
  intros Hint Hfit Hsess Hmeta Hidxsz Hflen. unfold writer_session in Hsess.
  destruct (writer_adds compress_default compress_level (writer_init o (len prefix)) ops) as [[w rs0]| | |] eqn:Eadds; try discriminate.
  destruct (writer_finish compress_default compress_level w) as [wf| | |] eqn:Efin; try discriminate.
  inversion Hsess; subst wf rs0; clear Hsess.
  pose proof (tinv_init compress_default compress_level o (len prefix) Hint) as Hinv0.
  destruct (adds_inv _ _ _ _ _ _ _ _ _ _ _ Hinv0 Hfit Eadds) as (ds1 & ps1 & ridx1 & Hinv1 & Hent1).
  destruct (finish_inv _ _ _ _ _ _ _ _ _ Hinv1 Efin) as (ds & ib & ips & iridx & Hbytes & Hblocks & Hoffs & Hfences & Hib & _ & Hrel & Hibo & Halg & Hibytes & Hent).
  unfold all_entries in Hent1 at 2. cbn [map concat app] in Hent1. rewrite Hent1 in Hent. clear Hent1.
  set (idx := bb_finish ib) in *. set (m := w_m w') in *.
  fold (frames_of ds) in Hbytes, Hibo.
  assert (Hf : prefix ++ writer_bytes w' = (prefix ++ frames_of ds) ++ frame idx ++ metadata_write m)
    by (rewrite Hbytes, <- !app_assoc; reflexivity).
  rewrite Hf in *.
  assert (Hidx8 : 8 <= len idx).
  { unfold idx, bb_finish. rewrite !len_app, len_fixed32.
    assert (0 < nrestarts ib) by (unfold nrestarts; rewrite (bi_restarts _ _ _ Hib), map_length; pose proof (bi_ridx_ne _ _ _ Hib); lia).
    destruct (UINT32_MAX <? len (bb_buf ib)).
    - pose proof (len_concat_map (fun r => fixed_encode64 r) (bb_restarts ib)) as E. rewrite E.
      unfold nrestarts in H. destruct (bb_restarts ib); [cbn in H; lia|]. cbn [fold_right]. rewrite len_fixed64. lia.
    - pose proof (len_concat_map (fun r => fixed_encode32 r) (bb_restarts ib)) as E. rewrite E.
      unfold nrestarts in H. destruct (bb_restarts ib); [cbn in H; lia|]. cbn [fold_right]. rewrite len_fixed32. lia. }
  assert (Hlenidx : len idx < 2 ^ 32).
  { rewrite Hibytes in Hidxsz. unfold frame in Hidxsz. rewrite !len_app in Hidxsz. lia. }
  assert (Hcase : ds = [] \/ (0 < length ds)%nat) by (destruct ds; [left; reflexivity|right; cbn; lia]).
  rewrite (reader_open_layout (prefix ++ frames_of ds) idx m Hmeta) by (try assumption; rewrite len_app; exact Hibo).
  eexists. split; [reflexivity|].
  set (r := mkreader _ _ _ _ _ _).
  destruct Hcase as [Eds|Hnelen].
  - (* no data block *)
    left. rewrite Eds in Hrel, Hent. inversion Hrel; subst ips. split; [symmetry; exact Hent|].
    pose proof (bbinv_nil_ridx _ _ Hib) as ->.
    exists (mkab [] [0] 8 false), 0. unfold r; cbn [r_index]. split; [apply block_init_finish_empty, Hib|split; reflexivity].
  - right.
    assert (Hlenips : length ips = length ds) by (eapply Forall2_length'; exact Hrel).
    assert (Hipsne : ips <> []) by (intros E; rewrite E in Hlenips; cbn in Hlenips; lia).
    assert (Hdok : forall i, (i < length ds)%nat -> dblk_ok compress_default compress_level o (nth i ds dummy_d)).
    { intros i Hi. rewrite Forall_forall in Hblocks. apply Hblocks, nth_In, Hi. }
    assert (Hips_sorted : sorted_ps ips).
    { intros i j Hij. destruct (Forall2_nth _ _ _ dummy_pe dummy_d i Hrel ltac:(lia)) as [-> _].
      destruct (Forall2_nth _ _ _ dummy_pe dummy_d j Hrel ltac:(lia)) as [-> _].
      apply (seps_sorted (dblk_ok compress_default compress_level o)) with (bs := wo_block_size o); try assumption; try lia.
      - intros d (H & _). exact H.
      - intros d (_ & H & _). exact H.
      - intros d (_ & _ & _ & _ & _ & H & _). exact H. }
    set (iab := mkab ips (map (offset_of ips) iridx) (len idx) false).
    exists iab, iridx, ds. split; [|rewrite entries_of_blocks; exact Hent].
    constructor.
    + unfold r; cbn [r_index]. apply block_init_finish; assumption.
    + apply (finish_wfb ib); assumption.
    + unfold nentries. cbn [iab ab_entries]. exact Hlenips.
    + (* loading block i *)
      intros i Hi. destruct (Hdok i Hi) as (Hne & Hsorted & Hinit & Hwfb & Hcomp & Hsep & _).
      destruct (Forall2_nth _ _ _ dummy_pe dummy_d i Hrel ltac:(lia)) as [_ Hval].
      assert (Hoff : d_off (nth i ds dummy_d) = len (prefix ++ frames_of (firstn i ds))).
      { rewrite (offs_nth ds (len prefix) i Hoffs Hi), len_app. reflexivity. }
      assert (Hfile : r_file r = (prefix ++ frames_of (firstn i ds)) ++ frame (d_stored (nth i ds dummy_d)) ++
                                 (frames_of (skipn (S i) ds) ++ frame idx ++ metadata_write m)).
      { unfold r; cbn [r_file]. rewrite (frames_split ds i Hi) at 1. rewrite <- !app_assoc. reflexivity. }
      assert (Hbound : d_off (nth i ds dummy_d) < 2 ^ 64 /\ len (d_stored (nth i ds dummy_d)) < 2 ^ 64).
      { unfold r in Hfile; cbn [r_file] in Hfile. rewrite Hfile in Hflen. rewrite Hoff. rewrite !len_app in Hflen. unfold frame in Hflen at 1.
        rewrite !len_app in Hflen. rewrite len_app. lia. }
      unfold ioff, entry_at. cbn [iab ab_entries]. rewrite Hval, <- (app_nil_r (varint_encode64 _)).
      rewrite varint64_roundtrip by tauto. rewrite Hoff.
      eapply get_block_frame; [reflexivity|reflexivity|exact Hfile|tauto| |exact Hinit].
      unfold r. cbn [r_comp]. rewrite Halg. apply decompress_block, Hcomp.
    + intros i Hi. destruct (Hdok i Hi) as (_ & _ & _ & Hwfb & _). exact Hwfb.
    + (* distinct offsets *)
      assert (Hio : forall i, (i < length ds)%nat -> ioff iab i = d_off (nth i ds dummy_d)).
      { intros i Hi. destruct (Forall2_nth _ _ _ dummy_pe dummy_d i Hrel ltac:(lia)) as [_ Hval].
        unfold ioff, entry_at. cbn [iab ab_entries]. rewrite Hval, <- (app_nil_r (varint_encode64 _)).
        rewrite varint64_roundtrip; [reflexivity|].
        rewrite (offs_nth ds (len prefix) i Hoffs Hi). rewrite (frames_split ds i Hi) in Hflen. rewrite !len_app in Hflen. lia. }
      intros i j Hi Hj E. rewrite (Hio i Hi), (Hio j Hj) in E.
      destruct (Nat.lt_trichotomy i j) as [Hlt|[->|Hgt]]; [|reflexivity|].
      * pose proof (offs_lt ds _ i j Hoffs ltac:(lia)). lia.
      * pose proof (offs_lt ds _ j i Hoffs ltac:(lia)). lia.
    + intros i Hi. destruct (Hdok i Hi) as (Hne & _ & _ & _ & _ & Hsep & _).
      destruct (Forall2_nth _ _ _ dummy_pe dummy_d i Hrel ltac:(lia)) as [Hkey _].
      unfold key_at, entry_at, Bof, d_ab, nentries. cbn [iab ab_entries]. rewrite Hkey, <- lastkey_nth by exact Hne. exact Hsep.
    + intros i Hi. destruct (Forall2_nth _ _ _ dummy_pe dummy_d i Hrel ltac:(lia)) as [Hkey _].
      unfold key_at, entry_at, Bof, d_ab. cbn [iab ab_entries]. rewrite Hkey. apply (fences_nth_lt _ ds None i Hfences Hi).
Qed.
End RoundTrip.

Section RoundTrip2.
Variable compress_default : N -> bytes -> res bytes.
Variable compress_level : N -> Z -> bytes -> res bytes.
Variable decompress : N -> bytes -> res bytes.
Hypothesis Hrt_default : forall a raw c, compress_default a raw = Ok c -> decompress a c = Ok raw.
Hypothesis Hrt_level : forall a l raw c, compress_level a l raw = Ok c -> decompress a c = Ok raw.

(* opening the written file and iterating from the start returns exactly the entries whose add
   succeeded, in order *)
Theorem roundtrip_read_all o prefix ops w' rs :
  1 <= wo_interval o -> Forall (entry_fits o) ops ->
  writer_session compress_default compress_level o (len prefix) ops = Ok (w', rs) ->
  meta_small (w_m w') -> m_bytes_index_block (w_m w') < 2 ^ 32 -> len (prefix ++ writer_bytes w') < 2 ^ 64 ->
  forall fuel, (length (kept ops rs) < fuel)%nat ->
  read_all decompress fuel (prefix ++ writer_bytes w') = Ok (kept ops rs).
Proof.
  intros Hint Hfit Hsess Hmeta Hidx Hlen fuel Hfuel.
  destruct (written_table_ok compress_default compress_level decompress Hrt_default Hrt_level o prefix ops w' rs Hint Hfit Hsess Hmeta Hidx Hlen)
    as (r & Hopen & [(Hk & ib & r0 & Hi & He & Hr)|(ib & iridx & ds & Htab & Hent)]).
  - unfold read_all. rewrite Hopen, (empty_table_iter decompress r ib r0 Hi He Hr), Hk. reflexivity.
  - unfold read_all. rewrite Hopen.
    destruct (table_iter_all decompress r ib iridx (length ds) (Bof ds) (Rof ds) Htab fuel) as (it & -> & Hdrain).
    + assert (E : length (table_entries_of (length ds) (Bof ds)) = total (length ds) (Bof ds)) by (unfold table_entries_of, Gents, total; apply map_length).
      rewrite Hent in E. lia.
    + rewrite Hdrain, Hent. reflexivity.
Qed.

(* for strictly increasing keys every add succeeds: the table is the input *)
Theorem roundtrip_sorted o prefix es w' rs :
  1 <= wo_interval o -> Forall (entry_fits o) es -> strictly_sorted (map fst es) ->
  writer_session compress_default compress_level o (len prefix) es = Ok (w', rs) ->
  kept es rs = es.
Proof.
  intros Hint Hfit Hs Hsess. unfold writer_session in Hsess.
  destruct (writer_adds compress_default compress_level (writer_init o (len prefix)) es) as [[w rs0]| | |] eqn:Eadds; try discriminate.
  destruct (writer_finish compress_default compress_level w) as [wf| | |]; try discriminate. inversion Hsess; subst wf rs0.
  eapply (adds_sorted compress_default compress_level o (len prefix)); [apply tinv_init, Hint|exact Hfit| |exact Hs|exact Eadds].
  destruct es; [exact I|]. left. reflexivity.
Qed.
End RoundTrip2.

(* ---- the structure of the written file (C09) --------------------------------------------------- *)
(* the bytes of a finished block below 4 GiB: entries, 32-bit restart offsets, restart count *)
Lemma bb_finish_bytes b ps ridx : bbinv b ps ridx -> len (bb_finish b) < 2 ^ 32 ->
  bb_finish b = enc_all ps ++ concat (map fixed_encode32 (map (offset_of ps) ridx)) ++ fixed_encode32 (N.of_nat (length ridx)).
Proof.
  intros Hb Hsz. unfold bb_finish in *.
  assert (Hsmall : UINT32_MAX <? len (bb_buf b) = false).
  { rewrite len_app in Hsz. unfold UINT32_MAX. change (2 ^ 32) with 4294967296 in Hsz. lia. }
  rewrite Hsmall. unfold nrestarts. rewrite (bi_buf _ _ _ Hb), (bi_restarts _ _ _ Hb), map_length. reflexivity.
Qed.

Section Structure.
Variable compress_default : N -> bytes -> res bytes.
Variable compress_level : N -> Z -> bytes -> res bytes.

Theorem written_structure o off0 ops w' rs :
  1 <= wo_interval o -> Forall (entry_fits o) ops ->
  writer_session compress_default compress_level o off0 ops = Ok (w', rs) ->
  exists ds ib ips iridx,
    writer_bytes w' = frames_of ds ++ frame (bb_finish ib) ++ metadata_write (w_m w') /\
    Forall (dblk_ok compress_default compress_level o) ds /\ offs_ok off0 ds /\
    fences_ok (wo_block_size o) ds None /\
    bbinv ib ips iridx /\ bb_interval ib = wo_interval o /\ Forall2 idx_entry ips ds /\
    m_index_block_offset (w_m w') = off0 + len (frames_of ds) /\
    m_bytes_index_block (w_m w') = len (frame (bb_finish ib)) /\
    all_entries ds [] = kept ops rs.
Proof.
  intros Hint Hfit Hsess. unfold writer_session in Hsess.
  destruct (writer_adds compress_default compress_level (writer_init o off0) ops) as [[w rs0]| | |] eqn:Eadds; try discriminate.
  destruct (writer_finish compress_default compress_level w) as [wf| | |] eqn:Efin; try discriminate.
  inversion Hsess; subst wf rs0; clear Hsess.
  pose proof (tinv_init compress_default compress_level o off0 Hint) as Hinv0.
  destruct (adds_inv _ _ _ _ _ _ _ _ _ _ _ Hinv0 Hfit Eadds) as (ds1 & ps1 & ridx1 & Hinv1 & Hent1).
  destruct (finish_inv _ _ _ _ _ _ _ _ _ Hinv1 Efin) as (ds & ib & ips & iridx & Hbytes & Hblocks & Hoffs & Hfences & Hib & Hibi & Hrel & Hibo & _ & Hibytes & Hent).
  unfold all_entries in Hent1 at 2. cbn [map concat app] in Hent1. rewrite Hent1 in Hent.
  exists ds, ib, ips, iridx. splits; assumption.
Qed.
End Structure.
