(* Memory-level reader iterators: several iterators of one reader.  The invariant of the
   multi-iterator machine (per-iterator invariant, functional invariant it_ok of
   proofs/ReaderProofs.v, pairwise disjoint ownership) and its preservation by every
   operation, together with the frame of each operation. *)
From Coq Require Import NArith ZArith List Lia.
From Mtbl Require Import gen.Consts model.Bytes model.Codec model.Order spec.Parse model.Reader model.IterMem
  proofs.BytesLemmas proofs.BlockProofs proofs.ReaderProofs
  proofs.IterMemBase proofs.IterMemStep proofs.IterMemNext proofs.IterMemSeek proofs.IterMemMake.
Local Open Scope N_scope.

(* ---------------------------------------------------------------- lists of slots *)
Lemma set_nth_length {A} i (x : A) l : length (set_nth i x l) = length l.
Proof. revert i. induction l as [|a l IH]; intros [|i]; cbn; try reflexivity. rewrite IH. reflexivity. Qed.

Lemma nth_set_nth_same {A} i (x d : A) l : (i < length l)%nat -> nth i (set_nth i x l) d = x.
Proof. revert i. induction l as [|a l IH]; intros [|i] H; cbn in *; try lia; [reflexivity|]. apply IH. lia. Qed.

Lemma nth_set_nth_other {A} i j (x d : A) l : i <> j -> nth j (set_nth i x l) d = nth j l d.
Proof.
  revert i j. induction l as [|a l IH]; intros [|i] [|j] H; cbn; try reflexivity; try congruence.
  apply IH. congruence.
Qed.

Lemma map_set_nth {A B} (f : A -> B) i x l : map f (set_nth i x l) = set_nth i (f x) (map f l).
Proof. revert i. induction l as [|a l IH]; intros [|i]; cbn; try reflexivity. rewrite IH. reflexivity. Qed.

Lemma nth_some_lt {A} i (l : list (option A)) x : nth i l None = Some x -> (i < length l)%nat.
Proof.
  intros H. destruct (Nat.lt_ge_cases i (length l)) as [Hl|Hl]; [exact Hl|].
  rewrite nth_overflow in H by exact Hl. discriminate.
Qed.

(* the iterator an operation acts on *)
Definition target (op : mop) : option nat :=
  match op with MNew _ _ _ => None | MNext i | MSeek i _ | MFree i => Some i end.

(* ---------------------------------------------------------------- the functional machine *)
Inductive fout := FBad | FNew (created : bool) | FNext (e : option entry) | FSeek (ok : bool) | FFree.

Definition fo (o : mout) : fout :=
  match o with
  | OBad => FBad | ONew c => FNew c | ONext n => FNext (nout_entry n) | OSeek b => FSeek b | OFree => FFree
  end.

Section Machine.
Variable decompress : N -> bytes -> res bytes.
Variable pol : mem -> nat -> bytes -> bool.
Variable r : reader.

(* the same operations on the purely functional iterators of model/Reader.v *)
Definition fstep (fs : list (option riter)) (op : mop) : res (list (option riter) * fout) :=
  match op with
  | MNew kind key bound =>
    bind (fun_make decompress r kind key bound)
         (fun o => Ok (fs ++ [o], FNew (match o with Some _ => true | None => false end)))
  | MNext i =>
    match nth i fs None with
    | None => Ok (fs, FBad)
    | Some it => bind (reader_iter_next decompress r it)
                      (fun x => Ok (set_nth i (Some (fst x)) fs, FNext (snd x)))
    end
  | MSeek i key =>
    match nth i fs None with
    | None => Ok (fs, FBad)
    | Some it => bind (reader_iter_seek decompress r it key)
                      (fun x => Ok (set_nth i (Some (fst x)) fs, FSeek (snd x)))
    end
  | MFree i =>
    match nth i fs None with
    | None => Ok (fs, FBad)
    | Some _ => Ok (set_nth i None fs, FFree)
    end
  end.

Fixpoint frun (fs : list (option riter)) (ops : list mop) : res (list (option riter) * list fout) :=
  match ops with
  | [] => Ok (fs, [])
  | op :: tl => bind (fstep fs op) (fun x => bind (frun (fst x) tl) (fun y => Ok (fst y, snd x :: snd y)))
  end.

Definition proj (st : mstate) : list (option riter) := map (option_map mi_it) (ms_its st).

Lemma nth_proj st i : nth i (proj st) None = option_map mi_it (slot st i).
Proof. unfold proj, slot. exact (map_nth (option_map mi_it) (ms_its st) None i). Qed.

End Machine.

Section Inv.
Variable r : reader.
Variable ib : ablock.
Variable iridx : list nat.
Variable nb : nat.
Variable B : nat -> ablock.
Variable Rr : nat -> list nat.

Definition itok (it : riter) : Prop := it_ok ib iridx nb B Rr it.

Definition ms_inv (st : mstate) : Prop :=
  m_file (ms_mem st) = r_file r /\
  (forall i mi, slot st i = Some mi -> mi_inv ib (ms_mem st) mi /\ itok (mi_it mi)) /\
  (forall i j mi mj, i <> j -> slot st i = Some mi -> slot st j = Some mj ->
     forall id, In id (owns mi) -> ~ In id (owns mj)).

(* what an operation may change: not the file; among the buffers that existed, only those
   owned by the iterator it acts on; and no other slot *)
Definition step_frame (st : mstate) (op : mop) (st' : mstate) : Prop :=
  m_file (ms_mem st') = m_file (ms_mem st) /\
  (m_next (ms_mem st) <= m_next (ms_mem st'))%nat /\
  (forall id, (id < m_next (ms_mem st))%nat ->
     (forall i mi, target op = Some i -> slot st i = Some mi -> ~ In id (owns mi)) ->
     hg (ms_mem st') id = hg (ms_mem st) id) /\
  (forall j, target op <> Some j -> (j < length (ms_its st))%nat -> slot st' j = slot st j).

Lemma owned_lt m mi id : mi_inv ib m mi -> In id (owns mi) -> (id < m_next m)%nat.
Proof. intros (_ & Hlv & _) Hid. apply (Hlv id Hid). Qed.

(* an iterator whose buffers are outside the footprint keeps its invariant *)
Lemma other_preserved own m m' mj : frame own m m' -> mi_inv ib m mj ->
  (forall id, In id (owns mj) -> ~ In id own) -> mi_inv ib m' mj.
Proof.
  intros (Hf & Hn & Hh) Hinv Hd. unfold mi_inv in *. eapply inv_c_frame; [exact Hf|exact Hn| |exact Hinv].
  intros id Hid. apply Hh; [|apply Hd, Hid]. apply (owned_lt m mj id Hinv Hid).
Qed.

Lemma itok_range it : itok it -> bi_range it.
Proof.
  intros (_ & Hb). unfold bi_range. destruct (it_b it) as [[o b]|]; [|exact I].
  destruct Hb as (i & Hi & _ & -> & _ & Hst & _). intros Hv. unfold st_ok in Hst. rewrite Hv in Hst. apply Hst.
Qed.

(* replacing the iterator in slot i after an operation on it *)
Lemma upd_inv st i mi m' (x : option miter) op : ms_inv st -> slot st i = Some mi -> target op = Some i ->
  frame (owns mi) (ms_mem st) m' ->
  match x with
  | Some mi' => fresh_or (owns mi) (ms_mem st) (owns mi') /\ mi_inv ib m' mi' /\ itok (mi_it mi')
  | None => True
  end ->
  ms_inv (mkms m' (set_nth i x (ms_its st))) /\ step_frame st op (mkms m' (set_nth i x (ms_its st))).
Proof.
  intros (Hfile & Hsl & Hdj) Hi Ht Hfr Hx.
  pose proof (nth_some_lt _ _ _ Hi) as Hlt.
  assert (Hslot : forall j, slot (mkms m' (set_nth i x (ms_its st))) j = if Nat.eqb i j then x else slot st j).
  { intros j. unfold slot. cbn [ms_its]. destruct (Nat.eqb i j) eqn:E.
    - apply Nat.eqb_eq in E. subst j. apply nth_set_nth_same. exact Hlt.
    - apply Nat.eqb_neq in E. apply nth_set_nth_other. exact E. }
  destruct (Hsl i mi Hi) as [Hinv_i Hok_i].
  split; [split; [|split]|].
  - cbn [ms_mem]. rewrite (proj1 Hfr). exact Hfile.
  - intros j mj Hj. rewrite Hslot in Hj. cbn [ms_mem]. destruct (Nat.eqb i j) eqn:E.
    + subst x. tauto.
    + apply Nat.eqb_neq in E. destruct (Hsl j mj Hj) as [Hinv_j Hok_j]. split; [|exact Hok_j].
      eapply other_preserved; [exact Hfr|exact Hinv_j|]. intros id Hid. apply (Hdj j i mj mi); auto.
  - intros a b ma mb Hab Ha Hb id Hida Hidb. rewrite Hslot in Ha, Hb.
    destruct (Nat.eqb i a) eqn:Ea, (Nat.eqb i b) eqn:Eb.
    + apply Nat.eqb_eq in Ea, Eb. congruence.
    + subst x. destruct Hx as (Hfo & _ & _). apply Nat.eqb_eq in Ea. subst a. apply Nat.eqb_neq in Eb.
      destruct (Hfo id Hida) as [Hin|Hge].
      * apply (Hdj i b mi mb Eb Hi Hb id Hin Hidb).
      * pose proof (owned_lt _ _ _ (proj1 (Hsl b mb Hb)) Hidb). lia.
    + subst x. destruct Hx as (Hfo & _ & _). apply Nat.eqb_eq in Eb. subst b. apply Nat.eqb_neq in Ea.
      destruct (Hfo id Hidb) as [Hin|Hge].
      * apply (Hdj i a mi ma Ea Hi Ha id Hin Hida).
      * pose proof (owned_lt _ _ _ (proj1 (Hsl a ma Ha)) Hida). lia.
    + apply (Hdj a b ma mb Hab Ha Hb id Hida Hidb).
  - unfold step_frame. cbn [ms_mem ms_its]. destruct Hfr as (Hf & Hn & Hh). split; [exact Hf|]. split; [exact Hn|]. split.
    + intros id Hid Hno. apply Hh; [exact Hid|]. apply (Hno i mi Ht Hi).
    + intros j Hj _. rewrite Hslot. rewrite Ht in Hj. destruct (Nat.eqb i j) eqn:E; [|reflexivity].
      apply Nat.eqb_eq in E. congruence.
Qed.

(* a new slot *)
Lemma new_inv st m' (x : option miter) kind key bound : ms_inv st -> frame [] (ms_mem st) m' ->
  match x with
  | Some mi' => mi_inv ib m' mi' /\ itok (mi_it mi') /\ (forall id, In id (owns mi') -> (m_next (ms_mem st) <= id)%nat)
  | None => True
  end ->
  ms_inv (mkms m' (ms_its st ++ [x])) /\ step_frame st (MNew kind key bound) (mkms m' (ms_its st ++ [x])).
Proof.
  intros (Hfile & Hsl & Hdj) Hfr Hx.
  assert (Hslot : forall j, slot (mkms m' (ms_its st ++ [x])) j =
                            if Nat.eqb j (length (ms_its st)) then x else slot st j).
  { intros j. unfold slot. cbn [ms_its]. destruct (Nat.eqb j (length (ms_its st))) eqn:E.
    - apply Nat.eqb_eq in E. subst j. rewrite app_nth2, Nat.sub_diag by lia. reflexivity.
    - apply Nat.eqb_neq in E. destruct (Nat.lt_ge_cases j (length (ms_its st))) as [Hl|Hl].
      + apply app_nth1. exact Hl.
      + rewrite !nth_overflow; [reflexivity|lia|rewrite app_length; cbn; lia]. }
  assert (Hold : forall j mj, slot st j = Some mj -> j <> length (ms_its st)).
  { intros j mj Hj. pose proof (nth_some_lt _ _ _ Hj). lia. }
  split; [split; [|split]|].
  - cbn [ms_mem]. rewrite (proj1 Hfr). exact Hfile.
  - intros j mj Hj. rewrite Hslot in Hj. cbn [ms_mem]. destruct (Nat.eqb j (length (ms_its st))) eqn:E.
    + subst x. tauto.
    + destruct (Hsl j mj Hj) as [Hinv_j Hok_j]. split; [|exact Hok_j].
      eapply other_preserved; [exact Hfr|exact Hinv_j|]. intros id _ [].
  - intros a b ma mb Hab Ha Hb id Hida Hidb. rewrite Hslot in Ha, Hb.
    destruct (Nat.eqb a (length (ms_its st))) eqn:Ea, (Nat.eqb b (length (ms_its st))) eqn:Eb.
    + apply Nat.eqb_eq in Ea, Eb. congruence.
    + subst x. destruct Hx as (_ & _ & Hge). pose proof (Hge id Hida).
      pose proof (owned_lt _ _ _ (proj1 (Hsl b mb Hb)) Hidb). lia.
    + subst x. destruct Hx as (_ & _ & Hge). pose proof (Hge id Hidb).
      pose proof (owned_lt _ _ _ (proj1 (Hsl a ma Ha)) Hida). lia.
    + apply (Hdj a b ma mb Hab Ha Hb id Hida Hidb).
  - unfold step_frame. cbn [ms_mem ms_its target]. destruct Hfr as (Hf & Hn & Hh). split; [exact Hf|]. split; [exact Hn|]. split.
    + intros id Hid _. apply Hh; [exact Hid|]. intros [].
    + intros j _ Hj. rewrite Hslot. replace (Nat.eqb j (length (ms_its st))) with false; [reflexivity|].
      symmetry. apply Nat.eqb_neq. lia.
Qed.

End Inv.
