(* C13, composition for the writer: the pooled writer of mtbl/writer.c (flush = snapshot + dispatch,
   ordered result handler = _mtbl_writer_write_data_block, finish waits for every job) writes the same
   bytes as the writer without a pool, for every interleaving of adds and deliveries.
   Part 1: the deferred writer and WP1 (any interleaving = the sequential writer).
   Part 2: WP2 (what the LTS of threadpool.c delivers to the writer's ordered handler).
   Part 3: WP3 (the composition). *)
From Coq Require Import NArith ZArith List Lia Bool Arith Sorting.Permutation.
From Mtbl Require Import gen.Consts model.Bytes model.Codec model.Order model.Block model.Crc model.Writer.
Import ListNotations.
Local Open Scope N_scope.

(* ---------- the job handed to the pool by _mtbl_writer_flush ---------- *)
(* struct block_job: the compression options, a copy of w->last_key, the finished raw block *)
Record job := mkjob { j_opt : wopts; j_key : bytes; j_raw : bytes }.

Inductive event := EAdd (key val : bytes) | EDeliver | EFinish.

Definition dstate := (writer * list job)%type.     (* the writer, the FIFO of outstanding jobs (oldest first) *)

Section WithCompress.
Variable compress_default : N -> bytes -> res bytes.
Variable compress_level : N -> Z -> bytes -> res bytes.
Notation compress_block := (compress_block compress_default compress_level).
Notation writer_flush := (writer_flush compress_default compress_level).
Notation writer_add := (writer_add compress_default compress_level).
Notation writer_adds := (writer_adds compress_default compress_level).
Notation writer_finish := (writer_finish compress_default compress_level).
Notation writer_session := (writer_session compress_default compress_level).

(* worker thread (_mtbl_writer_compress_block) + ordered handler (_mtbl_writer_write_data_block) *)
Definition apply_job (w : writer) (j : job) : res writer :=
  match compress_block (j_opt j) (j_raw j) with
  | Ok stored => write_data_block w (j_key j) stored
  | _ => Abort
  end.

Fixpoint apply_jobs (w : writer) (js : list job) : res writer :=
  match js with
  | [] => Ok w
  | j :: tl => match apply_job w j with Ok w1 => apply_jobs w1 tl | _ => Abort end
  end.

(* caller side of _mtbl_writer_flush with a pool: snapshot, reset the builder, dispatch *)
Definition cflush (w : writer) : res (writer * list job) :=
  if w_closed w then Abort
  else if bb_empty (w_data w) then Ok (w, [])
  else Ok (mkwriter (w_opt w) (w_m w) (bb_reset (w_data w)) (w_index w) (w_last_key w)
                    (w_last_offset w) (w_pending_offset w) (w_closed w) (w_out w),
           [mkjob (w_opt w) (w_last_key w) (bb_finish (w_data w))]).

(* caller side of mtbl_writer_add: writer_add with writer_flush replaced by cflush *)
Definition cadd (key val : bytes) (w : writer) : res (writer * (list job * bool)) :=
  if w_closed w then Abort
  else if (0 <? m_count_entries (w_m w)) &&
          negb (match bcmp key (w_last_key w) with
                | Gt => true
                | Eq => negb WRITER_GATE_IS_STRICT
                | Lt => false end)
  then Ok (w, ([], false))
  else
    let est := bb_estimate (w_data w) + WRITER_ENTRY_OVERHEAD + len key + len val in
    let cut := if WRITER_CUT_IS_GE then wo_block_size (w_opt w) <=? est else wo_block_size (w_opt w) <? est in
    let r1 :=
      if cut then
        let lk := sep (w_last_key w) key in
        if negb (sep_early (w_last_key w) key) && negb (blt lk key) then Abort
        else cflush (mkwriter (w_opt w) (w_m w) (w_data w) (w_index w) lk (w_last_offset w)
                              (w_pending_offset w) (w_closed w) (w_out w))
      else Ok (w, []) in
    match r1 with
    | Ok (w1, js) =>
      let m := w_m w1 in
      let m' := mkmeta (m_index_block_offset m) (m_data_block_size m) (m_compression_algorithm m)
                       (m_count_entries m + 1) (m_count_data_blocks m) (m_bytes_data_blocks m)
                       (m_bytes_index_block m) (m_bytes_keys m + len key) (m_bytes_values m + len val) in
      match bb_add (w_data w1) key val with
      | Ok d => Ok (mkwriter (w_opt w1) m' d (w_index w1) key (w_last_offset w1) (w_pending_offset w1)
                             (w_closed w1) (w_out w1), (js, true))
      | _ => Abort
      end
    | _ => Abort
    end.

(* what _mtbl_writer_finish does after its flush and after result_handler_destroy returned *)
Definition finish_tail (w1 : writer) : writer :=
  let idx := bb_finish (w_index w1) in
  let bw := block_written idx in
  let m := w_m w1 in
  let m' := mkmeta (w_pending_offset w1) (m_data_block_size m) (m_compression_algorithm m)
                   (m_count_entries m) (m_count_data_blocks m) (m_bytes_data_blocks m)
                   bw (m_bytes_keys m) (m_bytes_values m) in
  mkwriter (w_opt w1) m' (w_data w1) (bb_reset (w_index w1)) (w_last_key w1)
           (w_pending_offset w1) (w_pending_offset w1 + bw) true
           ([metadata_write m'] ++ rev (block_chunks idx) ++ w_out w1).

(* one event of the pooled writer.  Fail = the event is not enabled (EDeliver on an empty FIFO);
   Abort = a failed assert, as in the sequential model. *)
Definition dstep (D : dstate) (e : event) : res (dstate * list bool) :=
  let '(w, q) := D in
  match e with
  | EAdd k v => match cadd k v w with
                | Ok (w1, (js, b)) => Ok ((w1, q ++ js), [b])
                | _ => Abort
                end
  | EDeliver => match q with
                | [] => Fail
                | j :: q' => match apply_job w j with Ok w1 => Ok ((w1, q'), []) | _ => Abort end
                end
  | EFinish => match cflush w with
               | Ok (w1, js) => match apply_jobs w1 (q ++ js) with
                                | Ok w2 => Ok ((finish_tail w2, []), [])
                                | _ => Abort
                                end
               | _ => Abort
               end
  end.

Fixpoint drun (D : dstate) (evs : list event) : res (dstate * list bool) :=
  match evs with
  | [] => Ok (D, [])
  | e :: tl => match dstep D e with
               | Ok (D1, bs1) => match drun D1 tl with
                                 | Ok (D2, bs) => Ok (D2, bs1 ++ bs)
                                 | Fail => Fail | Abort => Abort | Oob => Oob
                                 end
               | Fail => Fail | Abort => Abort | Oob => Oob
               end
  end.

Definition dinit (o : wopts) (initial_offset : N) : dstate := (writer_init o initial_offset, []).
Definition prun_events (o : wopts) (initial_offset : N) (evs : list event) : res (writer * list job * list bool) :=
  drun (dinit o initial_offset) evs.

(* the adds of an event list, in order *)
Fixpoint erase (evs : list event) : list entry :=
  match evs with
  | [] => []
  | EAdd k v :: tl => (k, v) :: erase tl
  | _ :: tl => erase tl
  end.
Definition no_finish (evs : list event) : bool :=
  forallb (fun e => match e with EFinish => false | _ => true end) evs.
(* every EDeliver of the list happens when the FIFO is non-empty (checked along the run) *)
Fixpoint delivers_enabled (D : dstate) (evs : list event) : bool :=
  match evs with
  | [] => true
  | e :: tl => (match e, snd D with EDeliver, [] => false | _, _ => true end) &&
               match dstep D e with Ok (D1, _) => delivers_enabled D1 tl | _ => true end
  end.

(* ---------- outcomes: only Ok or Abort ---------- *)
Ltac proj := cbn [w_opt w_m w_data w_index w_last_key w_last_offset w_pending_offset w_closed w_out
                  m_index_block_offset m_data_block_size m_compression_algorithm m_count_entries
                  m_count_data_blocks m_bytes_data_blocks m_bytes_index_block m_bytes_keys m_bytes_values
                  j_opt j_key j_raw fst snd] in *.

Lemma wdb_cases w k s : (exists w', write_data_block w k s = Ok w') \/ write_data_block w k s = Abort.
Proof. unfold write_data_block. destruct (bb_add _ _ _); eauto. Qed.

Lemma apply_job_cases w j : (exists w', apply_job w j = Ok w') \/ apply_job w j = Abort.
Proof. unfold apply_job. destruct (compress_block _ _); auto. apply wdb_cases. Qed.

Lemma apply_jobs_cases q : forall w, (exists w', apply_jobs w q = Ok w') \/ apply_jobs w q = Abort.
Proof.
  induction q as [|j q IH]; intros w; cbn [apply_jobs]; [eauto|].
  destruct (apply_job w j); auto.
Qed.

Lemma apply_jobs_app q1 q2 : forall w,
  apply_jobs w (q1 ++ q2) = match apply_jobs w q1 with Ok w1 => apply_jobs w1 q2 | _ => Abort end.
Proof.
  induction q1 as [|j q1 IH]; intros w; cbn [apply_jobs app]; [reflexivity|].
  destruct (apply_job w j); auto.
Qed.

Lemma apply_jobs_one w j : apply_jobs w [j] = apply_job w j.
Proof. cbn [apply_jobs]. destruct (apply_job_cases w j) as [[w' E]|E]; rewrite E; reflexivity. Qed.

(* ---------- the sequential operations, split into caller part and handler part ---------- *)
Lemma flush_split w :
  writer_flush w = match cflush w with Ok (w1, js) => apply_jobs w1 js | _ => Abort end.
Proof.
  unfold Writer.writer_flush, cflush. destruct (w_closed w); [reflexivity|].
  destruct (bb_empty (w_data w)); [reflexivity|]. rewrite apply_jobs_one. unfold apply_job. proj.
  destruct (compress_block _ _); reflexivity.
Qed.

Lemma add_split w k v :
  writer_add w k v = match cadd k v w with
                     | Ok (w1, (js, b)) => match apply_jobs w1 js with Ok w2 => Ok (w2, b) | _ => Abort end
                     | _ => Abort
                     end.
Proof.
  unfold Writer.writer_add, cadd. destruct (w_closed w) eqn:Ec; [reflexivity|].
  destruct (_ && _); [reflexivity|]. cbv zeta.
  destruct (if WRITER_CUT_IS_GE then _ else _).
  - destruct (_ && _); [reflexivity|]. rewrite flush_split. unfold cflush. proj.
    destruct (bb_empty (w_data w)); proj.
    + cbn [apply_jobs]. proj. destruct (bb_add (w_data w) k v); reflexivity.
    + rewrite apply_jobs_one. unfold apply_job, write_data_block. proj.
      destruct (bb_add (bb_reset (w_data w)) k v) eqn:Eb; proj;
        try rewrite apply_jobs_one; unfold apply_job, write_data_block; proj;
        destruct (compress_block _ _); try reflexivity;
        destruct (bb_add (w_index w) _ _); proj; rewrite ?Eb; reflexivity.
  - destruct (bb_add (w_data w) k v); reflexivity.
Qed.

(* ---------- caller part and handler part commute ---------- *)
(* The caller part reads opt, the data builder, last_key, count_entries, closed (and updates the
   entry / key / value counters); the handler part touches the index builder, last_offset,
   pending_offset, out, count_data_blocks, bytes_data_blocks. *)
Definition nok {A} (r : res A) : Prop := match r with Ok _ => False | _ => True end.
Definition commutes {X} (f : writer -> res (writer * X)) : Prop :=
  forall w j,
  match f w with
  | Ok (w1, x) => match apply_job w j with
                  | Ok w2 => exists w3, apply_job w1 j = Ok w3 /\ f w2 = Ok (w3, x)
                  | _ => apply_job w1 j = Abort
                  end
  | _ => match apply_job w j with Ok w2 => nok (f w2) | _ => True end
  end.

Lemma commutes_cflush : commutes cflush.
Proof.
  intros w j. unfold apply_job, write_data_block.
  destruct (compress_block _ _);
    [destruct (bb_add (w_index w) (j_key j) (varint_encode64 (w_pending_offset w))) eqn:Ei|..];
    unfold cflush; proj; rewrite ?Ei;
    destruct (w_closed w) eqn:Ec; try exact I; try reflexivity;
    destruct (bb_empty (w_data w)); proj; rewrite ?Ei, ?Ec; try reflexivity; try exact I; eauto.
Qed.

Lemma commutes_cadd k v : commutes (cadd k v).
Proof.
  intros w j. unfold apply_job, write_data_block.
  destruct (compress_block _ _);
    [destruct (bb_add (w_index w) (j_key j) (varint_encode64 (w_pending_offset w))) eqn:Ei|..];
    unfold cadd, cflush; proj;
    (destruct (w_closed w) eqn:Ec; [try exact I; reflexivity|]);
    (destruct (_ && _); [proj; rewrite ?Ei, ?Ec; try reflexivity; try exact I; eauto|]); cbv zeta;
    (destruct (if WRITER_CUT_IS_GE then _ else _);
     [destruct (_ && _); [try exact I; reflexivity|]; proj; destruct (bb_empty (w_data w)); proj|]);
    (destruct (bb_add _ k v); proj; rewrite ?Ei, ?Ec; try exact I; try reflexivity; try exact I; eauto).
Qed.

(* lifted to a whole FIFO of outstanding jobs *)
Lemma commutes_jobs {X} (f : writer -> res (writer * X)) : commutes f -> forall q w,
  match f w with
  | Ok (w1, x) => match apply_jobs w q with
                  | Ok w2 => exists w3, apply_jobs w1 q = Ok w3 /\ f w2 = Ok (w3, x)
                  | _ => apply_jobs w1 q = Abort
                  end
  | _ => match apply_jobs w q with Ok w2 => nok (f w2) | _ => True end
  end.
Proof.
  intros C q. induction q as [|j q IH]; intros w; cbn [apply_jobs].
  - destruct (f w) as [[w1 x]| | |] eqn:E; try exact I.
    exists w1. split; reflexivity.
  - specialize (C w j). destruct (f w) as [[w1 x]| | |] eqn:E.
    + destruct (apply_job_cases w j) as [[w2 E2]|E2]; rewrite E2 in C |- *.
      * destruct C as (w3 & E3 & E4). rewrite E3. specialize (IH w2). rewrite E4 in IH. exact IH.
      * rewrite C. reflexivity.
    + destruct (apply_job w j) as [w2| | |]; try exact I. specialize (IH w2).
      destruct (f w2); [destruct C|exact IH..].
    + destruct (apply_job w j) as [w2| | |]; try exact I. specialize (IH w2).
      destruct (f w2); [destruct C|exact IH..].
    + destruct (apply_job w j) as [w2| | |]; try exact I. specialize (IH w2).
      destruct (f w2); [destruct C|exact IH..].
Qed.

(* ---------- the simulation ---------- *)
(* abstraction: the deferred state with its outstanding jobs applied in FIFO order *)
Definition flushed (D : dstate) : res writer := apply_jobs (fst D) (snd D).
Definition norm {A} (r : res A) : res A := match r with Ok a => Ok a | _ => Abort end.
Definition absr (R : res (dstate * list bool)) : res (writer * list bool) :=
  match R with
  | Ok (D, bs) => match flushed D with Ok w => Ok (w, bs) | _ => Abort end
  | _ => Abort
  end.
Definition seq_from (r : res writer) (ops : list entry) : res (writer * list bool) :=
  match r with Ok ws => norm (writer_adds ws ops) | _ => Abort end.

Lemma add_sim w q k v :
  match cadd k v w with
  | Ok (w1, (js, b)) =>
      flushed (w1, q ++ js) =
        match apply_jobs w q with
        | Ok ws => match writer_add ws k v with Ok (ws1, _) => Ok ws1 | _ => Abort end
        | _ => Abort
        end /\
      (forall ws ws1 b', apply_jobs w q = Ok ws -> writer_add ws k v = Ok (ws1, b') -> b' = b)
  | _ => match apply_jobs w q with Ok ws => nok (writer_add ws k v) | _ => True end
  end.
Proof.
  pose proof (commutes_jobs _ (commutes_cadd k v) q w) as C. unfold flushed. cbn [fst snd].
  destruct (cadd k v w) as [[w1 [js b]]| | |] eqn:E.
  - rewrite apply_jobs_app. destruct (apply_jobs_cases q w) as [[ws E2]|E2]; rewrite E2 in C |- *.
    + destruct C as (w3 & E3 & E4). rewrite E3, add_split, E4. split.
      * destruct (apply_jobs_cases js w3) as [[x Ex]|Ex]; rewrite Ex; reflexivity.
      * intros ws' ws1 b' H1 H2. inversion H1; subst ws'. rewrite add_split, E4 in H2.
        destruct (apply_jobs_cases js w3) as [[x Ex]|Ex]; rewrite Ex in H2; inversion H2; reflexivity.
    + rewrite C. split; [reflexivity|]. intros ws ws1 b' H. discriminate H.
  - destruct (apply_jobs w q) as [ws| | |]; try exact I. rewrite add_split. destruct (cadd k v ws); [destruct C|exact I..].
  - destruct (apply_jobs w q) as [ws| | |]; try exact I. rewrite add_split. destruct (cadd k v ws); [destruct C|exact I..].
  - destruct (apply_jobs w q) as [ws| | |]; try exact I. rewrite add_split. destruct (cadd k v ws); [destruct C|exact I..].
Qed.

Lemma finish_sim D :
  dstep D EFinish = match flushed D with
                    | Ok ws => match writer_finish ws with Ok w' => Ok ((w', []), []) | _ => Abort end
                    | _ => Abort
                    end.
Proof.
  destruct D as [w q]. unfold flushed, Writer.writer_finish. cbn [fst snd dstep].
  pose proof (commutes_jobs _ commutes_cflush q w) as C.
  destruct (cflush w) as [[w1 js]| | |] eqn:E.
  - rewrite apply_jobs_app. destruct (apply_jobs_cases q w) as [[ws E2]|E2]; rewrite E2 in C |- *.
    + destruct C as (w3 & E3 & E4). rewrite E3, flush_split, E4. destruct (apply_jobs_cases js w3) as [[x Ex]|Ex]; rewrite Ex; reflexivity.
    + rewrite C. reflexivity.
  - destruct (apply_jobs w q) as [ws| | |]; try reflexivity. rewrite flush_split. destruct (cflush ws); [destruct C|reflexivity..].
  - destruct (apply_jobs w q) as [ws| | |]; try reflexivity. rewrite flush_split. destruct (cflush ws); [destruct C|reflexivity..].
  - destruct (apply_jobs w q) as [ws| | |]; try reflexivity. rewrite flush_split. destruct (cflush ws); [destruct C|reflexivity..].
Qed.

Lemma absr_cons D1 tl bs1 :
  absr (match drun D1 tl with
        | Ok (D2, bs) => Ok (D2, bs1 ++ bs)
        | Fail => Fail | Abort => Abort | Oob => Oob end) =
  match absr (drun D1 tl) with Ok (w, bs) => Ok (w, bs1 ++ bs) | _ => Abort end.
Proof.
  destruct (drun D1 tl) as [[D2 bs]| | |]; cbn [absr]; try reflexivity.
  destruct (flushed D2); reflexivity.
Qed.

(* the adds and deliveries of any enabled interleaving, seen through the abstraction, are the sequential adds *)
Lemma sim_run evs : forall D, no_finish evs = true -> delivers_enabled D evs = true ->
  absr (drun D evs) = seq_from (flushed D) (erase evs).
Proof.
  induction evs as [|e tl IH]; intros [w q] NF EN.
  - cbn [drun absr erase seq_from]. destruct (flushed (w, q)); reflexivity.
  - cbn [no_finish forallb] in NF. apply andb_prop in NF. destruct NF as [NF1 NF]. fold (no_finish tl) in NF.
    cbn [delivers_enabled] in EN. apply andb_prop in EN. destruct EN as [EN1 EN].
    cbn [drun]. destruct e as [k v| |]; [| |discriminate NF1].
    + (* EAdd *)
      cbn [erase]. cbn [dstep] in EN |- *. pose proof (add_sim w q k v) as A.
      destruct (cadd k v w) as [[w1 [js b]]| | |].
      * destruct A as [A1 A2]. rewrite absr_cons, (IH _ NF EN), A1. unfold flushed at 1. cbn [fst snd].
        unfold seq_from. destruct (apply_jobs w q) as [ws| | |] eqn:E2; try reflexivity.
        cbn [Writer.writer_adds]. destruct (writer_add ws k v) as [[ws1 b']| | |] eqn:E3; try reflexivity.
        rewrite (A2 ws ws1 b' eq_refl E3).
        destruct (writer_adds ws1 (erase tl)) as [[w2 rs]| | |]; reflexivity.
      * cbn [absr]. unfold flushed, seq_from. cbn [fst snd]. destruct (apply_jobs w q) as [ws| | |]; try reflexivity.
        cbn [Writer.writer_adds]. destruct (writer_add ws k v); [destruct A|reflexivity..].
      * cbn [absr]. unfold flushed, seq_from. cbn [fst snd]. destruct (apply_jobs w q) as [ws| | |]; try reflexivity.
        cbn [Writer.writer_adds]. destruct (writer_add ws k v); [destruct A|reflexivity..].
      * cbn [absr]. unfold flushed, seq_from. cbn [fst snd]. destruct (apply_jobs w q) as [ws| | |]; try reflexivity.
        cbn [Writer.writer_adds]. destruct (writer_add ws k v); [destruct A|reflexivity..].
    + (* EDeliver *)
      cbn [erase]. cbn [snd] in EN1. destruct q as [|j q']; [discriminate EN1|].
      cbn [dstep] in EN |- *. unfold flushed. cbn [fst snd apply_jobs].
      destruct (apply_job w j) as [w1| | |]; try reflexivity.
      rewrite absr_cons, (IH _ NF EN). unfold flushed. cbn [fst snd app].
      unfold seq_from, norm. destruct (apply_jobs w1 q') as [ws| | |]; try reflexivity.
      destruct (writer_adds ws (erase tl)) as [[w2 bs]| | |]; reflexivity.
Qed.

Lemma drun_cases evs : forall D, delivers_enabled D evs = true ->
  (exists x, drun D evs = Ok x) \/ drun D evs = Abort.
Proof.
  induction evs as [|e tl IH]; intros [w q] EN; cbn [drun]; [eauto|].
  cbn [delivers_enabled] in EN. apply andb_prop in EN. destruct EN as [EN1 EN].
  assert (C : (exists x, dstep (w, q) e = Ok x) \/ dstep (w, q) e = Abort).
  { destruct e as [k v| |]; cbn [dstep].
    - destruct (cadd k v w) as [[w1 [js b]]| | |]; eauto.
    - cbn [snd] in EN1. destruct q as [|j q']; [discriminate EN1|]. destruct (apply_job w j); eauto.
    - destruct (cflush w) as [[w1 js]| | |]; auto. destruct (apply_jobs w1 (q ++ js)); eauto. }
  destruct C as [[[D1 bs1] E]|E]; rewrite E in EN |- *; [|auto].
  destruct (IH D1 EN) as [[[D2 bs] E2]|E2]; rewrite E2; eauto.
Qed.

Lemma drun_app evs1 evs2 : forall D,
  drun D (evs1 ++ evs2) = match drun D evs1 with
                          | Ok (D1, bs1) => match drun D1 evs2 with
                                            | Ok (D2, bs2) => Ok (D2, bs1 ++ bs2)
                                            | Fail => Fail | Abort => Abort | Oob => Oob end
                          | Fail => Fail | Abort => Abort | Oob => Oob end.
Proof.
  induction evs1 as [|e tl IH]; intros D; cbn [drun app].
  - destruct (drun D evs2) as [[D2 bs2]| | |]; reflexivity.
  - destruct (dstep D e) as [[D1 bs1]| | |]; try reflexivity. rewrite IH.
    destruct (drun D1 tl) as [[D2 bs2]| | |]; try reflexivity.
    destruct (drun D2 evs2) as [[D3 bs3]| | |]; try reflexivity. rewrite app_assoc. reflexivity.
Qed.

(* ---------- WP1: any interleaving = the sequential writer ---------- *)
(* evs: the caller's adds (erase evs, in order) interleaved with any number of deliveries, each at a
   point where a job is outstanding; then the finish.  The pooled run and the sequential session have
   the same outcome: both Ok with the same final writer (all fields: w_out, hence the file bytes, the
   metadata, ...) and the same per-add results, or both not Ok (the pooled run then is Abort). *)
Theorem WP1 : forall o off evs,
  no_finish evs = true -> delivers_enabled (dinit o off) evs = true ->
  prun_events o off (evs ++ [EFinish]) =
    match writer_session o off (erase evs) with
    | Ok (w, rs) => Ok (w, [], rs)
    | _ => Abort
    end.
Proof.
  intros o off evs NF EN. unfold prun_events. rewrite drun_app.
  pose proof (sim_run evs _ NF EN) as S.
  assert (F0 : flushed (dinit o off) = Ok (writer_init o off)) by reflexivity. rewrite F0 in S. cbn [seq_from] in S.
  unfold Writer.writer_session.
  destruct (drun_cases evs _ EN) as [[[D1 bs] E]|E]; rewrite E in S |- *; cbn [absr] in S.
  - cbn [drun]. rewrite finish_sim. destruct (flushed D1) as [ws| | |];
      destruct (writer_adds (writer_init o off) (erase evs)) as [[ws' rs]| | |]; cbn [norm] in S; try discriminate S; try reflexivity.
    inversion S; subst ws' rs. destruct (writer_finish ws) as [w'| | |]; try reflexivity.
    rewrite !app_nil_r. reflexivity.
  - destruct (writer_adds (writer_init o off) (erase evs)) as [[ws' rs]| | |]; cbn [norm] in S; try discriminate S; reflexivity.
Qed.

(* the form of the property: same per-add results, same bytes, same metadata *)
Corollary WP1_ok : forall o off ops evs w rs,
  erase evs = ops -> no_finish evs = true -> delivers_enabled (dinit o off) evs = true ->
  writer_session o off ops = Ok (w, rs) ->
  exists w', prun_events o off (evs ++ [EFinish]) = Ok (w', [], rs) /\
             writer_bytes w' = writer_bytes w /\ w_m w' = w_m w /\ w' = w.
Proof.
  intros o off ops evs w rs <- NF EN H. exists w. rewrite (WP1 o off evs NF EN), H. repeat split; reflexivity.
Qed.

Corollary WP1_converse : forall o off ops evs w' q rs,
  erase evs = ops -> no_finish evs = true -> delivers_enabled (dinit o off) evs = true ->
  prun_events o off (evs ++ [EFinish]) = Ok (w', q, rs) ->
  q = [] /\ writer_session o off ops = Ok (w', rs).
Proof.
  intros o off ops evs w' q rs <- NF EN H. rewrite (WP1 o off evs NF EN) in H.
  destruct (writer_session o off (erase evs)) as [[w rs']| | |]; inversion H; subst. split; reflexivity.
Qed.

(* an assert fails in one iff an assert fails in the other; neither can end in any other way *)
Lemma writer_add_cases w k v : (exists x, writer_add w k v = Ok x) \/ writer_add w k v = Abort.
Proof.
  rewrite add_split. destruct (cadd k v w) as [[w1 [js b]]| | |]; auto.
  destruct (apply_jobs w1 js); eauto.
Qed.
Lemma writer_adds_cases ops : forall w, (exists x, writer_adds w ops = Ok x) \/ writer_adds w ops = Abort.
Proof.
  induction ops as [|[k v] tl IH]; intros w; cbn [Writer.writer_adds]; [eauto|].
  destruct (writer_add_cases w k v) as [[[w1 r] E]|E]; rewrite E; [|auto].
  destruct (IH w1) as [[[w2 rs] E2]|E2]; rewrite E2; eauto.
Qed.
Lemma writer_session_cases o off ops : (exists x, writer_session o off ops = Ok x) \/ writer_session o off ops = Abort.
Proof.
  unfold Writer.writer_session. destruct (writer_adds_cases ops (writer_init o off)) as [[[w rs] E]|E]; rewrite E; [|auto].
  unfold Writer.writer_finish. rewrite flush_split. destruct (cflush w) as [[w1 js]| | |]; auto.
  destruct (apply_jobs_cases js w1) as [[w2 E2]|E2]; rewrite E2; eauto.
Qed.

Corollary WP1_abort : forall o off ops evs,
  erase evs = ops -> no_finish evs = true -> delivers_enabled (dinit o off) evs = true ->
  (writer_session o off ops = Abort <-> prun_events o off (evs ++ [EFinish]) = Abort).
Proof.
  intros o off ops evs <- NF EN. rewrite (WP1 o off evs NF EN).
  destruct (writer_session_cases o off (erase evs)) as [[[w rs] E]|E]; rewrite E; split; intros H; try discriminate H; reflexivity.
Qed.

(* the statement asked for, both directions, as one proposition *)
Definition WP1_full_statement : Prop :=
  forall o off ops evs, erase evs = ops -> no_finish evs = true -> delivers_enabled (dinit o off) evs = true ->
    (forall w rs, writer_session o off ops = Ok (w, rs) <-> prun_events o off (evs ++ [EFinish]) = Ok (w, [], rs)) /\
    (writer_session o off ops = Abort <-> prun_events o off (evs ++ [EFinish]) = Abort).
Theorem WP1_full : WP1_full_statement.
Proof.
  intros o off ops evs He NF EN. split; [|apply WP1_abort; assumption].
  intros w rs. split; intros H.
  - destruct (WP1_ok o off ops evs w rs He NF EN H) as (w' & H1 & _ & _ & ->). exact H1.
  - apply (WP1_converse o off ops evs w [] rs He NF EN H).
Qed.

End WithCompress.

(* ====================================================================================== *)
(* Part 2 - WP2: what the LTS of threadpool.c delivers to the writer's ordered handler   *)
(* ====================================================================================== *)
From Mtbl Require Import model.Pool proofs.PoolBase proofs.PoolSched proofs.PoolInv proofs.PoolLife
  proofs.PoolAbort proofs.PoolExact proofs.PoolOrdered.

(* the pool calls of a writer that cuts n blocks: mtbl_writer_init (result_handler_init, ordered),
   one dispatch per block, _mtbl_writer_finish (result_handler_destroy), threadpool_destroy *)
Definition writer_prog (n : nat) : list cmd :=
  [NewHandler true] ++ repeat (Dispatch 0) n ++ [Finish 0; DestroyPool].
Definition job_ids (n : nat) : list N := map N.of_nat (seq 0 n).
(* the job ids handler h has delivered so far, in delivery order *)
Definition delivered_ids (st : pstate) (h : nat) : list N :=
  map snd (filter (fun p => Nat.eqb (fst p) h) (ps_delivered st)).

Lemma writer_prog_wf n : prog_wf (writer_prog n) = true.
Proof.
  unfold prog_wf, writer_prog. cbn [app pwf_full].
  induction n as [|n IH]; [reflexivity|]. cbn [repeat app pwf_full]. rewrite IH. reflexivity.
Qed.

Lemma dispatched_repeat tl n : forall k,
  dispatched (repeat (Dispatch 0) n ++ tl) (N.of_nat k) 0 =
  map N.of_nat (seq k n) ++ dispatched tl (N.of_nat (k + n)) 0.
Proof.
  induction n as [|n IH]; intros k; cbn [repeat app seq map].
  - rewrite Nat.add_0_r. reflexivity.
  - rewrite dispatched_cons_dispatch. cbn [Nat.eqb app]. f_equal.
    replace (N.of_nat k + 1) with (N.of_nat (S k)) by lia. rewrite IH. do 2 f_equal. lia.
Qed.

Lemma writer_prog_dispatched n : dispatched (writer_prog n) 0 0 = job_ids n.
Proof.
  unfold writer_prog, job_ids. cbn [app dispatched]. rewrite (dispatched_repeat _ n 0%nat).
  cbn [dispatched]. apply app_nil_r.
Qed.

(* ---------- handler 0 exists from the initial state on and keeps its ordered flag ---------- *)
Definition hdq (b : bool) (qs : list queue) : Prop := exists q0 rest, qs = q0 :: rest /\ q_ordered q0 = b.

Lemma hdq_app b qs x : hdq b qs -> hdq b (qs ++ [x]).
Proof. intros (q0 & rest & -> & H). exists q0, (rest ++ [x]). split; [reflexivity|exact H]. Qed.

Lemma hdq_upd b qs q x : hdq b qs -> q_ordered x = q_ordered (nth q qs dummy_q) -> hdq b (upd_nth qs q x).
Proof.
  intros (q0 & rest & -> & H) Hx. unfold upd_nth. destruct q as [|q]; cbn [firstn skipn app nth] in *.
  - exists x, rest. split; [reflexivity|congruence].
  - eexists q0, _. split; [reflexivity|exact H].
Qed.

Lemma caller_next_hdq b st : hdq b (ps_queues st) -> hdq b (ps_queues (fst (caller_next st))).
Proof.
  intros H. unfold caller_next. destruct (ps_prog st) as [|c rest]; [exact H|].
  destruct c; cbn [fst ps_queues]; try exact H. apply hdq_app. exact H.
Qed.

Lemma continue_hdq b st t l : hdq b (ps_queues st) -> hdq b (ps_queues (fst (continue st t l))).
Proof.
  intros H. destruct l; cbn [continue]; try (apply caller_next_hdq; exact H); try exact H;
    unfold set_pool, set_abort, set_workers, set_queues, getw, getq;
    repeat match goal with
           | |- context [if ?c then _ else _] => destruct c eqn:?
           | |- context [match ?x with _ => _ end] => destruct x eqn:?
           end; cbn [fst ps_queues]; try exact H;
    try (apply hdq_upd; [exact H|cbn [q_ordered]; congruence]).
Qed.

Lemma wake_step_queues st op wake : ps_queues (wake_step st op wake) = ps_queues st.
Proof. unfold wake_step. destruct op, wake; reflexivity. Qed.
Lemma stash_deliver_queues st t lab stash : ps_queues (snd (stash_deliver st t lab stash)) = ps_queues st.
Proof.
  destruct lab; cbn [stash_deliver]; try reflexivity.
  - destruct (wk_running _); [reflexivity|]. destruct (wk_res _); reflexivity.
  - destruct (find _ stash) as [[a r0]|]; reflexivity.
Qed.

Lemma pstep_hdq b st t wake stash st' op o stash' : hdq b (ps_queues st) ->
  pstep st t wake stash = Some (st', op, o, stash') -> hdq b (ps_queues st').
Proof.
  intros H E. unfold pstep in E. destruct (negb (enabled st t)); [discriminate|].
  set (th := gett st t) in *.
  assert (G : forall st1, ps_queues st1 = ps_queues st ->
              forall r, (let '(stash1, st3) := stash_deliver (wake_step st1 (t_op th) wake) t (t_lab th) stash in
                         let '(st4, th') := continue st3 t (t_lab th) in
                         Some (set_thread st4 t th', t_op th, t_obj th, stash1)) = Some (r, op, o, stash') ->
              hdq b (ps_queues r)).
  { clear E. intros st1 Q r Er.
    pose proof (stash_deliver_queues (wake_step st1 (t_op th) wake) t (t_lab th) stash) as Q2.
    destruct (stash_deliver _ t (t_lab th) stash) as [stash1 st3]. cbn [snd] in Q2.
    pose proof (continue_hdq b st3 t (t_lab th)) as Q3.
    destruct (continue st3 t (t_lab th)) as [st4 th']. cbn [fst] in Q3. inversion Er; subst.
    cbn [set_thread ps_queues]. apply Q3. rewrite Q2, wake_step_queues, Q. exact H. }
  destruct (t_op th) eqn:Eop;
    try (apply (G _ eq_refl _ E)); try (apply (G (set_owner st (t_obj th) (Some t)) eq_refl _ E));
    try (apply (G (set_owner st (t_obj th) None) eq_refl _ E)).
  - inversion E; subst. exact H.
  - inversion E; subst. exact H.
Qed.

Lemma prun_hdq b s : forall st0 stash0 st stash, hdq b (ps_queues st0) ->
  prun st0 stash0 s = Some (st, stash) -> hdq b (ps_queues st).
Proof.
  induction s as [|[t w|t] s IH]; intros st0 stash0 st stash H E; cbn [prun] in E.
  - inversion E; subst. exact H.
  - destruct (pstep st0 t w stash0) as [[[[st1 op] o] stash1]|] eqn:Es; [|discriminate].
    apply (IH _ _ _ _ (pstep_hdq _ _ _ _ _ _ _ _ _ H Es) E).
  - unfold pspurious in E. destruct (t_blocked (gett st0 t)); [|discriminate].
    refine (IH _ _ _ _ _ E). exact H.
Qed.

Lemma writer_prog_handler maxt n s st stash :
  prun (pool_init maxt (writer_prog n)) [] s = Some (st, stash) -> q_ordered (getq st 0) = true.
Proof.
  intros E. assert (H : hdq true (ps_queues (pool_init maxt (writer_prog n)))).
  { eexists _, _. split; reflexivity. }
  destruct (prun_hdq true s _ _ _ _ H E) as (q0 & rest & Eq & Ho). unfold getq. rewrite Eq. exact Ho.
Qed.

Lemma ids_prefix : forall l n k rest, map N.of_nat (seq k n) = l ++ rest ->
  l = map N.of_nat (seq k (length l)) /\ (length l <= n)%nat.
Proof.
  induction l as [|a l IH]; intros n k rest H; cbn [length seq map]; [split; [reflexivity|lia]|].
  destruct n as [|n]; [discriminate H|]. cbn [seq map app] in H. inversion H as [[Ha Hl]].
  destruct (IH n (S k) rest Hl) as [E L]. split; [rewrite <- E; reflexivity|lia].
Qed.

(* WP2: in every complete run of the pool LTS on the writer's program - any pool size, any schedule
   (spurious wake-ups, arbitrary choice of woken waiters) - the ordered handler is called with the jobs
   0, 1, ..., n-1 in this order: the k-th callback receives the k-th block the caller cut. *)
Theorem WP2 : forall maxt n s st stash,
  sched_wf (pool_init maxt (writer_prog n)) [] s ->
  prun (pool_init maxt (writer_prog n)) [] s = Some (st, stash) ->
  all_done st ->
  delivered_ids st 0 = job_ids n.
Proof.
  intros maxt n s st stash W E A. unfold delivered_ids. rewrite <- writer_prog_dispatched.
  apply (T13_ordered_sequence maxt (writer_prog n) s st stash (writer_prog_wf n) W E A 0%nat).
  apply (writer_prog_handler maxt n s st stash E).
Qed.

(* ... and at every reachable state the callbacks made so far received the jobs 0, 1, ..., m-1:
   the handler consumes the dispatched blocks oldest first (the FIFO of the deferred writer) *)
Theorem WP2_prefix : forall maxt n s st stash,
  sched_wf (pool_init maxt (writer_prog n)) [] s ->
  prun (pool_init maxt (writer_prog n)) [] s = Some (st, stash) ->
  exists m, (m <= n)%nat /\ delivered_ids st 0 = job_ids m.
Proof.
  intros maxt n s st stash W E.
  destruct (T13_ordered_prefix maxt (writer_prog n) s st stash (writer_prog_wf n) W E 0%nat
              (writer_prog_handler maxt n s st stash E)) as [rest H].
  rewrite writer_prog_dispatched in H. fold (delivered_ids st 0) in H. unfold job_ids in H.
  destruct (ids_prefix _ _ _ _ H) as [E1 L]. exists (length (delivered_ids st 0)). split; [exact L|exact E1].
Qed.

(* ====================================================================================== *)
(* Part 3 - WP3: the composition                                                          *)
(* ====================================================================================== *)
Lemma map_nth_seq {A} (d : A) : forall l pre,
  map (fun i => nth i (pre ++ l) d) (seq (length pre) (length l)) = l.
Proof.
  induction l as [|a l IH]; intros pre; [reflexivity|]. cbn [length seq map]. f_equal.
  - rewrite app_nth2 by lia. rewrite Nat.sub_diag. reflexivity.
  - specialize (IH (pre ++ [a])). rewrite <- app_assoc, app_length in IH. cbn [app length] in IH.
    rewrite Nat.add_1_r in IH. exact IH.
Qed.

Lemma jobs_by_ids {A} (d : A) l : map (fun id => nth (N.to_nat id) l d) (job_ids (length l)) = l.
Proof.
  unfold job_ids. rewrite map_map. etransitivity; [|exact (map_nth_seq d l [])]. cbn [app length].
  apply map_ext. intros i. rewrite Nat2N.id. reflexivity.
Qed.

Section Compose.
Variable compress_default : N -> bytes -> res bytes.
Variable compress_level : N -> Z -> bytes -> res bytes.
Notation writer_session := (writer_session compress_default compress_level).
Notation drun := (drun compress_default compress_level).
Notation apply_jobs := (apply_jobs compress_default compress_level).
Notation prun_events := (prun_events compress_default compress_level).

Definition adds (ops : list entry) : list event := map (fun e => EAdd (fst e) (snd e)) ops.
Definition dummy_job : job := mkjob (mkwopts 0 0 0 0) [] [].

(* the caller thread alone: the adds, then the flush of _mtbl_writer_finish.  Returns the caller-side
   writer, the jobs it dispatched to the pool (job id k = the k-th element) and the per-add results *)
Definition caller_session (o : wopts) (off : N) (ops : list entry) : res (writer * list job * list bool) :=
  match drun (dinit o off) (adds ops) with
  | Ok ((w, q), rs) => match cflush w with Ok (w1, js) => Ok (w1, q ++ js, rs) | _ => Abort end
  | _ => Abort
  end.

(* the handler thread: one callback (_mtbl_writer_write_data_block on the compressed block) per delivered
   job id, in the order of delivery; then the rest of _mtbl_writer_finish *)
Definition handler_session (wc : writer) (jobs : list job) (ids : list N) : res writer :=
  match apply_jobs wc (map (fun id => nth (N.to_nat id) jobs dummy_job) ids) with
  | Ok w => Ok (finish_tail w)
  | _ => Abort
  end.

Lemma erase_adds ops : erase (adds ops) = ops.
Proof. induction ops as [|[k v] tl IH]; [reflexivity|]. cbn [adds map erase fst snd]. f_equal. exact IH. Qed.
Lemma no_finish_adds ops : no_finish (adds ops) = true.
Proof. induction ops as [|[k v] tl IH]; [reflexivity|]. exact IH. Qed.
Lemma enabled_adds ops : forall D, delivers_enabled compress_default compress_level D (adds ops) = true.
Proof.
  induction ops as [|[k v] tl IH]; intros D; [reflexivity|]. cbn [adds map delivers_enabled andb].
  destruct (dstep _ _ D _) as [[D' bs]| | |]; [apply IH|reflexivity..].
Qed.

(* the pooled session with every delivery after the last add = caller_session then handler_session *)
Lemma split_session o off ops :
  prun_events o off (adds ops ++ [EFinish]) =
  match caller_session o off ops with
  | Ok (wc, jobs, rs) => match handler_session wc jobs (job_ids (length jobs)) with
                         | Ok w => Ok (w, [], rs)
                         | _ => Abort
                         end
  | _ => Abort
  end.
Proof.
  pose proof (drun_cases compress_default compress_level (adds ops) _ (enabled_adds ops (dinit o off))) as C.
  unfold WriterPooled.prun_events, caller_session. rewrite drun_app.
  destruct C as [[[[w q] rs] E]|E]; rewrite E; [|reflexivity].
  cbn [WriterPooled.drun dstep]. destruct (cflush w) as [[w1 js]| | |]; try reflexivity.
  unfold handler_session. rewrite jobs_by_ids.
  destruct (apply_jobs w1 (q ++ js)); try reflexivity. rewrite !app_nil_r. reflexivity.
Qed.

(* WP3: for every pool size and every complete schedule of the pool LTS running the writer's pool calls
   (one dispatch per block the caller cut): calling the handler on the jobs in the order the pool
   delivered their ids, then finishing, gives the writer of the sequential session - all of its fields,
   so the same file bytes and metadata - with the same per-add results; and an assert fails in the one
   iff it does in the other. *)
Theorem WP3 : forall o off ops wc jobs rs,
  caller_session o off ops = Ok (wc, jobs, rs) ->
  forall maxt s st stash,
  sched_wf (pool_init maxt (writer_prog (length jobs))) [] s ->
  prun (pool_init maxt (writer_prog (length jobs))) [] s = Some (st, stash) ->
  all_done st ->
  match writer_session o off ops with
  | Ok (w, rs') => handler_session wc jobs (delivered_ids st 0) = Ok w /\ rs' = rs
  | _ => handler_session wc jobs (delivered_ids st 0) = Abort
  end.
Proof.
  intros o off ops wc jobs rs Hc maxt s st stash W E A.
  rewrite (WP2 maxt (length jobs) s st stash W E A).
  pose proof (WP1 compress_default compress_level o off (adds ops) (no_finish_adds ops) (enabled_adds ops _)) as H.
  rewrite split_session, Hc, erase_adds in H.
  destruct (writer_session o off ops) as [[w rs']| | |];
    destruct (handler_session wc jobs (job_ids (length jobs))) as [w'| | |] eqn:Eh;
    try discriminate H; try reflexivity;
    try (unfold handler_session in Eh; destruct (apply_jobs wc _); discriminate Eh).
  inversion H; subst. split; reflexivity.
Qed.

Corollary WP3_bytes : forall o off ops wc jobs rs w rs',
  caller_session o off ops = Ok (wc, jobs, rs) ->
  writer_session o off ops = Ok (w, rs') ->
  forall maxt s st stash,
  sched_wf (pool_init maxt (writer_prog (length jobs))) [] s ->
  prun (pool_init maxt (writer_prog (length jobs))) [] s = Some (st, stash) ->
  all_done st ->
  exists w', handler_session wc jobs (delivered_ids st 0) = Ok w' /\
             writer_bytes w' = writer_bytes w /\ w_m w' = w_m w /\ rs' = rs.
Proof.
  intros o off ops wc jobs rs w rs' Hc Hs maxt s st stash W E A.
  pose proof (WP3 o off ops wc jobs rs Hc maxt s st stash W E A) as H. rewrite Hs in H.
  destruct H as [H1 H2]. exists w. repeat split; assumption.
Qed.

(* if the caller's side alone fails an assert, so does the sequential session (and conversely the
   sequential session being Ok makes the caller's side Ok) *)
Theorem WP3_caller : forall o off ops,
  match caller_session o off ops with
  | Ok _ => True
  | _ => nok (writer_session o off ops)
  end.
Proof.
  intros o off ops.
  pose proof (WP1 compress_default compress_level o off (adds ops) (no_finish_adds ops) (enabled_adds ops _)) as H.
  rewrite split_session, erase_adds in H.
  destruct (caller_session o off ops) as [[[wc jobs] rs]| | |]; [exact I|..];
    destruct (writer_session o off ops) as [[w rs']| | |]; try exact I; discriminate H.
Qed.

End Compose.

(* ====================================================================================== *)
(* Non-vacuity: concrete instances meeting every hypothesis (vm_compute)                  *)
(* ====================================================================================== *)
Definition ex_cd : N -> bytes -> res bytes := fun _ _ => Fail.
Definition ex_cl : N -> Z -> bytes -> res bytes := fun _ _ _ => Fail.
Definition ex_opts : wopts := mkwopts 0 (-10000)%Z 64 2.          (* no compression, 64-byte blocks *)
Definition ex_entries : list entry :=
  [([], [9]); ([97], repeat 120 30); ([97; 98], repeat 121 30); ([98], repeat 122 30); ([98; 0], []);
   ([99], repeat 7 40); ([100], repeat 8 40)].
(* 7 adds cutting 5 blocks; deliveries in between, two jobs still outstanding at the finish *)
Definition ex_events : list event :=
  match adds ex_entries with
  | [a1; a2; a3; a4; a5; a6; a7] => [a1; a2; a3; EDeliver; a4; a5; a6; EDeliver; a7; EDeliver]
  | _ => []
  end.

Example WP1_example :
  erase ex_events = ex_entries /\ no_finish ex_events = true /\
  delivers_enabled ex_cd ex_cl (dinit ex_opts 5) ex_events = true /\
  match writer_session ex_cd ex_cl ex_opts 5 ex_entries, prun_events ex_cd ex_cl ex_opts 5 (ex_events ++ [EFinish]) with
  | Ok (w, rs), Ok (w', q, rs') =>
      m_count_data_blocks (w_m w) = 5 /\ rs = [true; true; true; true; true; true; true] /\
      q = [] /\ rs' = rs /\ writer_bytes w' = writer_bytes w /\ w_m w' = w_m w
  | _, _ => False
  end.
Proof. vm_compute. repeat split. Qed.

(* a delivery with nothing outstanding is not enabled: the hypothesis of WP1 excludes such lists *)
Example WP1_example_disabled :
  delivers_enabled ex_cd ex_cl (dinit ex_opts 5) (EDeliver :: ex_events) = false /\
  prun_events ex_cd ex_cl ex_opts 5 (EDeliver :: ex_events ++ [EFinish]) = Fail.
Proof. vm_compute. split; reflexivity. Qed.

(* the abort direction: a compression that fails.  The sequential writer aborts inside the add that
   cuts the first block, the pooled one at the delivery of that block; both sessions end in Abort. *)
Example WP1_example_abort :
  let o := mkwopts 1 (-10000)%Z 64 2 in
  delivers_enabled ex_cd ex_cl (dinit o 5) ex_events = true /\
  writer_session ex_cd ex_cl o 5 ex_entries = Abort /\
  prun_events ex_cd ex_cl o 5 (ex_events ++ [EFinish]) = Abort /\
  (exists D rs, drun ex_cd ex_cl (dinit o 5) (firstn 3 ex_events) = Ok (D, rs)) /\
  writer_adds ex_cd ex_cl (writer_init o 5) (firstn 3 ex_entries) = Abort.
Proof. vm_compute. repeat split. eexists _, _. reflexivity. Qed.

(* ---------- a concrete complete run of the pool LTS on the writer's program ---------- *)
Definition wake_okb (st : pstate) (t : nat) (wake : option nat) : bool :=
  match wake with
  | Some u => match t_op (gett st t) with
              | KSignal => negb (Nat.ltb u (length (ps_threads st))) ||
                           match t_blocked (gett st u) with Some _ => true | None => false end
              | _ => true
              end
  | None => true
  end.
Fixpoint sched_wfb (st : pstate) (stash : list (nat * N)) (s : list sched_step) : bool :=
  match s with
  | [] => true
  | SRun t w :: tl => wake_okb st t w &&
                      match pstep st t w stash with
                      | Some (st', _, _, stash') => sched_wfb st' stash' tl
                      | None => true
                      end
  | SSpurious t :: tl => match pspurious st t with Some st' => sched_wfb st' stash tl | None => true end
  end.
Lemma sched_wfb_sound : forall s st stash, sched_wfb st stash s = true -> sched_wf st stash s.
Proof.
  induction s as [|[t w|t] tl IH]; intros st stash H; cbn [sched_wfb sched_wf] in *; [exact I| |].
  - apply andb_prop in H. destruct H as [Hw Hr]. split.
    + unfold wake_okb in Hw. unfold wake_ok. destruct w as [u|]; [|exact I]. intros Hs Hu. rewrite Hs in Hw.
      apply Nat.ltb_lt in Hu. rewrite Hu in Hw. cbn [negb orb] in Hw.
      destruct (t_blocked (gett st u)); [discriminate|discriminate Hw].
    + destruct (pstep st t w stash) as [[[[st' ?] ?] stash']|]; [apply IH; exact Hr|exact I].
  - destruct (pspurious st t) as [st'|]; [apply IH; exact H|exact I].
Qed.

(* a scheduler: at each step run the first or the last enabled thread (alternating with the step
   number mod 3), a signal wakes the first thread blocked on the signalled condition variable *)
Definition pick_wake (st : pstate) (t : nat) : option nat :=
  match t_op (gett st t) with
  | KSignal => find (fun u => match t_blocked (gett st u) with
                              | Some o' => obj_eqb o' (t_obj (gett st t))
                              | None => false end) (seq 0 (length (ps_threads st)))
  | _ => None
  end.
Fixpoint gen_sched (fuel : nat) (st : pstate) (stash : list (nat * N)) : list sched_step :=
  match fuel with
  | O => []
  | S f =>
    let en := enabled_set st in
    match (if Nat.eqb (Nat.modulo fuel 3) 0 then hd_error en else hd_error (rev en)) with
    | None => []
    | Some t => let w := pick_wake st t in
                match pstep st t w stash with
                | Some (st', _, _, stash') => SRun t w :: gen_sched f st' stash'
                | None => []
                end
    end
  end.
Definition ex_sched : list sched_step := gen_sched 2000 (pool_init 2 (writer_prog 5)) [].

Example WP2_example :
  sched_wf (pool_init 2 (writer_prog 5)) [] ex_sched /\
  match prun (pool_init 2 (writer_prog 5)) [] ex_sched with
  | Some (st, _) => forallb t_done (ps_threads st) = true /\ delivered_ids st 0 = [0; 1; 2; 3; 4] /\
                    length (ps_workers st) = 2%nat
  | None => False
  end.
Proof. split; [apply sched_wfb_sound; vm_compute; reflexivity|]. vm_compute. repeat split. Qed.

Example WP3_example :
  match caller_session ex_cd ex_cl ex_opts 5 ex_entries, writer_session ex_cd ex_cl ex_opts 5 ex_entries,
        prun (pool_init 2 (writer_prog 5)) [] ex_sched with
  | Ok (wc, jobs, rs), Ok (w, rs'), Some (st, _) =>
      length jobs = 5%nat /\ forallb t_done (ps_threads st) = true /\
      match handler_session ex_cd ex_cl wc jobs (delivered_ids st 0) with
      | Ok w' => writer_bytes w' = writer_bytes w /\ w_m w' = w_m w /\ rs' = rs /\ 200 <? len (writer_bytes w) = true
      | _ => False
      end
  | _, _, _ => False
  end.
Proof. vm_compute. repeat split. Qed.

Print Assumptions WP1.
Print Assumptions WP1_full.
Print Assumptions WP2.
Print Assumptions WP2_prefix.
Print Assumptions WP3.
Print Assumptions WP3_bytes.
Print Assumptions WP3_caller.
