(* mtbl_fileset_partition: the two mergers split the loaded readers exactly. *)
From Coq Require Import ZArith List Permutation Bool Lia.
From Mtbl Require Import gen.Consts model.Bytes model.Fileset model.FilesetPart.
Import ListNotations.
Local Open Scope N_scope.

Definition all_sources (ents : list fentry) : list (N * N) := sources_where (fun _ => true) ents.

Lemma sources_where_split p ents :
  Permutation (sources_where p ents ++ sources_where (fun e => negb (p e)) ents) (all_sources ents).
Proof.
  unfold all_sources. induction ents as [|e tl IH]; cbn [sources_where]; [constructor|].
  destruct (p e) eqn:E; cbn [negb]; destruct (entry_source e) as [s|]; try exact IH.
  - cbn [app]. constructor. exact IH.
  - apply Permutation_sym, Permutation_cons_app, Permutation_sym. exact IH.
Qed.

Lemma sources_where_in p ents x : In x (sources_where p ents) <->
  exists e, In e ents /\ p e = true /\ entry_source e = Some x.
Proof.
  induction ents as [|e tl IH]; cbn [sources_where]; [split; [intros []|intros (e & [] & _)]|].
  destruct (p e) eqn:E; [destruct (entry_source e) as [s|] eqn:Es|].
  - split.
    + intros [<-|H]; [exists e; repeat split; [left; reflexivity|exact E|exact Es]|].
      apply IH in H. destruct H as (e' & Hi & Hp & Hs). exists e'. repeat split; [right; exact Hi|exact Hp|exact Hs].
    + intros (e' & [<-|Hi] & Hp & Hs); [left; congruence|right; apply IH; exists e'; repeat split; assumption].
  - rewrite IH. split; intros (e' & Hi & Hp & Hs).
    + exists e'. repeat split; [right; exact Hi|exact Hp|exact Hs].
    + destruct Hi as [<-|Hi]; [congruence|exists e'; repeat split; assumption].
  - rewrite IH. split; intros (e' & Hi & Hp & Hs).
    + exists e'. repeat split; [right; exact Hi|exact Hp|exact Hs].
    + destruct Hi as [<-|Hi]; [congruence|exists e'; repeat split; assumption].
Qed.

(* the statement: Ok exactly when every loaded entry has a reader; then the two source lists are the
   loaded readers whose NAME the callback accepts / rejects, in setfile (name) order, together a
   permutation of all loaded readers - whatever filters the handle itself carries *)
Theorem partition_spec cb ents :
  match partition_entries cb ents with
  | PAbort => exists e, In e ents /\ fe_reader e = None
  | POk m1 m2 =>
      (forall e, In e ents -> fe_reader e <> None) /\
      Permutation (m1 ++ m2) (all_sources ents) /\
      (forall x, In x m1 <-> exists e, In e ents /\ cb (fe_name e) = true /\ entry_source e = Some x) /\
      (forall x, In x m2 <-> exists e, In e ents /\ cb (fe_name e) = false /\ entry_source e = Some x)
  end.
Proof.
  unfold partition_entries. destruct (existsb _ ents) eqn:E.
  - apply existsb_exists in E. destruct E as (e & Hi & He). exists e. split; [exact Hi|]. destruct (fe_reader e); [discriminate|reflexivity].
  - split.
    + intros e Hi Hn. assert (existsb (fun e => match fe_reader e with None => true | Some _ => false end) ents = true) as Hc.
      { apply existsb_exists. exists e. split; [exact Hi|]. rewrite Hn. reflexivity. }
      congruence.
    + split; [apply (sources_where_split (fun e => cb (fe_name e)))|]. split; intros x; rewrite sources_where_in; [reflexivity|].
      split; intros (e & Hi & Hp & Hs); exists e; repeat split; try assumption.
      * apply negb_true_iff in Hp. exact Hp.
      * apply negb_true_iff. exact Hp.
Qed.

(* the handle's filters play no role: the result is a function of the entries and the callback alone *)
Lemma partition_ignores_handle_filters st hi cb :
  snd (fileset_partition st hi cb) =
  partition_entries cb (sh_entries (snd (fst (fileset_reload (fs_world st) (fs_shared st) (nth hi (fs_handles st) dummy_handle))))).
Proof. unfold fileset_partition. destruct (fileset_reload _ _ _) as [[w' s'] h']. reflexivity. Qed.
