(* Memory-level reader iterators: tactics for the memory side conditions. *)
From Coq Require Import NArith ZArith List Lia ZifyBool ZifyN ZifyNat.
From Mtbl Require Import gen.Consts model.Bytes model.Codec model.Order spec.Parse model.Reader model.IterMem
  proofs.BytesLemmas proofs.IterMemBase proofs.IterMemStep.
Local Open Scope N_scope.

(* ---- automation for the memory side conditions: every buffer id is a nat, every fact
   about the heap after a sequence of primitives is an if-chain over Nat.eqb ---- *)
Ltac own_norm :=
  unfold owns, owns_loc, blk_owned, data_owned in *; cbn [ml_ikey ml_blk ml_k mi_loc mi_it app dfree bkfree dafree] in *.
Ltac own_facts Hnd Hlv :=
  pose proof (Hlv _ (or_introl eq_refl));
  try pose proof (Hlv _ (or_intror (or_introl eq_refl)));
  try pose proof (Hlv _ (or_intror (or_intror (or_introl eq_refl))));
  try pose proof (Hlv _ (or_intror (or_intror (or_intror (or_introl eq_refl)))));
  repeat (let Hx := fresh "Hnd" in apply NoDup_cons_iff in Hnd; destruct Hnd as [Hx Hnd]; cbn [In] in Hx);
  repeat match goal with H : _ /\ _ |- _ => destruct H end.
Ltac shape da lk Hda Hnd Hlv :=
  destruct da as [fo|d doff]; [|cbn in Hda; subst doff]; destruct lk as [k|]; own_norm; own_facts Hnd Hlv.
Ltac live_tac :=
  rewrite ?live_hg; hg_chain; eqb_solve; cbv beta iota; rewrite <- ?live_hg;
  solve [assumption | discriminate | reflexivity | congruence
        | match goal with H : ?c = _ |- Some ?c = _ => rewrite H; reflexivity end
        | f_equal; auto ].
Ltac frame_tac :=
  own_norm; unfold frame; split; [congruence|split; [lia|]];
  let j := fresh "j" in let Hj := fresh "Hj" in let Hn := fresh "Hn" in
  intros j Hj Hn; cbn [In] in Hn; hg_chain; eqb_solve; reflexivity.
Ltac fresh_tac :=
  let j := fresh "j" in let Hj := fresh "Hj" in
  own_norm; intros j Hj; cbn [In] in *; lia.
Ltac nodup_tac := repeat (constructor; [cbn [In]; lia|]); constructor.
Ltac lives_tac :=
  apply Forall_forall; repeat (constructor; [split; [lia|live_tac]|]); constructor.
Ltac deref_tac Hraw :=
  cbn [deref] in *; rewrite ?live_hg; hg_chain; eqb_solve; cbv beta iota; rewrite <- ?live_hg;
  first [exact Hraw | congruence | apply slice_full
        | repeat match goal with H : m_file _ = m_file _ |- _ => rewrite H end; exact Hraw].
Ltac blk_tac raw Hraw Hinit :=
  unfold blk_coh; split;
  [ let Hv := fresh "Hv" in intros Hv; rewrite ?live_hg; hg_chain; eqb_solve; f_equal; f_equal; auto
  | split; [exists raw; split; [deref_tac Hraw|exact Hinit] | first [exact I|reflexivity]]].
Ltac inv_tac Hic Hkc tac :=
  unfold inv_c; own_norm; split; [nodup_tac|]; split; [lives_tac|];
  split; [let Hv := fresh "Hv" in intros Hv; try specialize (Hic Hv); live_tac|];
  split; [tac | unfold k_coh in *; cbn [ml_k] in *; first [exact Hkc | live_tac]].


(* shape of the owned set when the block may be absent *)
Ltac shape2 lb lk Hda Hnd Hlv :=
  destruct lb as [[[bk da] sz]|];
  [ destruct da as [fo|d doff]; [|cbn in Hda; subst doff] | ];
  destruct lk as [k|]; own_norm; own_facts Hnd Hlv.
