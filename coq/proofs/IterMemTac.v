(* Memory-level reader iterators: tactics for the memory side conditions. *)
From Coq Require Import NArith ZArith List Lia ZifyBool ZifyN ZifyNat.
From Mtbl Require Import gen.Consts model.Bytes model.Codec model.Order spec.Parse model.Reader model.IterMem
  proofs.BytesLemmas proofs.IterMemBase proofs.IterMemStep.
Local Open Scope N_scope.

(* ---- automation for the memory side conditions: every buffer id is a nat, every fact
   about the heap after a sequence of primitives is an if-chain over Nat.eqb ---- *)
(* lia is exponential in the number of disequalities in the context (NoDup of the owned set
   gives up to six) and zify is linear in the size of the context: every arithmetic side
   condition is therefore solved in a context reduced to the (in)equalities on buffer ids,
   with the disequalities left out ([lia_nd]) or restricted to the two ids compared. *)
Ltac neq_norm := repeat match goal with
  | H : ~ (_ \/ _) |- _ => apply Decidable.not_or in H; destruct H
  | H : ~ False |- _ => clear H end.
Ltac arith_ctx a b :=
  repeat match goal with H : ?T |- _ =>
    lazymatch T with
    | False => idtac | (_ < _)%nat => idtac | (_ <= _)%nat => idtac | @eq nat _ _ => idtac
    | @eq nat _ _ \/ _ => idtac | (_ < _)%nat /\ _ => idtac
    | a <> _ => idtac | _ <> a => idtac | b <> _ => idtac | _ <> b => idtac
    end; revert H end;
  let Hd := fresh "Hd" in pose proof I as Hd; clear - Hd; clear Hd; intros.
Ltac arith_all :=
  repeat match goal with H : ?T |- _ =>
    lazymatch T with
    | False => idtac | (_ < _)%nat => idtac | (_ <= _)%nat => idtac | @eq nat _ _ => idtac
    | @eq nat _ _ \/ _ => idtac | (_ < _)%nat /\ _ => idtac | ~ (@eq nat _ _) => idtac
    end; revert H end;
  let Hd := fresh "Hd" in pose proof I as Hd; clear - Hd; clear Hd; intros.
Ltac lia_nd := arith_ctx False False; lia.
Ltac neq_fast a b :=
  first [ assumption | apply not_eq_sym; assumption | lia_nd | neq_norm; arith_ctx a b; lia | arith_all; lia ].
Ltac neq_tac := match goal with |- ?a <> ?b => neq_fast a b end.
Ltac eqb_fast := repeat match goal with
  | |- context [Nat.eqb ?a ?a] => rewrite (Nat.eqb_refl a)
  | |- context [Nat.eqb ?a ?b] =>
   first [ replace (Nat.eqb a b) with false by (symmetry; apply Nat.eqb_neq; neq_fast a b)
         | replace (Nat.eqb a b) with true by (symmetry; apply Nat.eqb_eq; lia_nd) ] end.
Ltac notin_tac :=
  let HH := fresh "HH" in intros HH;
  repeat (destruct HH as [HH|HH]; [revert HH; match goal with |- ?a = ?b -> False => change (a <> b); neq_fast a b end|]);
  exact HH.
Ltac own_norm :=
  unfold owns, owns_loc, blk_owned, data_owned in *; cbn [ml_ikey ml_blk ml_k mi_loc mi_it app dfree bkfree dafree] in *.
Ltac own_facts Hnd Hlv :=
  pose proof (Hlv _ (or_introl eq_refl));
  try pose proof (Hlv _ (or_intror (or_introl eq_refl)));
  try pose proof (Hlv _ (or_intror (or_intror (or_introl eq_refl))));
  try pose proof (Hlv _ (or_intror (or_intror (or_intror (or_introl eq_refl)))));
  repeat (let Hx := fresh "Hnd" in apply NoDup_cons_iff in Hnd; destruct Hnd as [Hx Hnd]; cbn [In] in Hx);
  repeat match goal with H : _ /\ _ |- _ => destruct H end; neq_norm.
Ltac shape da lk Hda Hnd Hlv :=
  destruct da as [fo|d doff]; [|cbn in Hda; subst doff]; destruct lk as [k|]; own_norm; own_facts Hnd Hlv.
Ltac live_tac :=
  rewrite ?live_hg; hg_chain; eqb_fast; cbv beta iota; rewrite <- ?live_hg;
  solve [assumption | discriminate | reflexivity | congruence
        | match goal with H : ?c = _ |- Some ?c = _ => rewrite H; reflexivity end
        | f_equal; auto ].
Ltac frame_tac :=
  own_norm; unfold frame; split; [congruence|split; [lia_nd|]];
  let j := fresh "j" in let Hj := fresh "Hj" in let Hn := fresh "Hn" in
  intros j Hj Hn; cbn [In] in Hn; neq_norm; hg_chain; eqb_fast; reflexivity.
Ltac fresh_tac :=
  let j := fresh "j" in let Hj := fresh "Hj" in
  own_norm; intros j Hj; cbn [In] in *;
  repeat (destruct Hj as [<-|Hj]; [lia_nd|]); destruct Hj.
Ltac nodup_tac := repeat (constructor; [cbn [In]; notin_tac|]); constructor.
Ltac lives_tac :=
  apply Forall_forall; repeat (constructor; [split; [lia_nd|live_tac]|]); constructor.
Ltac deref_tac Hraw :=
  cbn [deref] in *; rewrite ?live_hg; hg_chain; eqb_fast; cbv beta iota; rewrite <- ?live_hg;
  first [exact Hraw | congruence | apply slice_full
        | repeat match goal with H : m_file _ = m_file _ |- _ => rewrite H end; exact Hraw].
Ltac blk_tac raw Hraw Hinit :=
  unfold blk_coh; split;
  [ let Hv := fresh "Hv" in intros Hv; rewrite ?live_hg; hg_chain; eqb_fast; f_equal; f_equal; auto
  | split; [exists raw; split; [deref_tac Hraw|exact Hinit] | first [exact I|reflexivity]]].
Ltac inv_tac Hic Hkc tac :=
  unfold inv_c; own_norm; split; [nodup_tac|]; split; [lives_tac|];
  split; [let Hv := fresh "Hv" in intros Hv; try specialize (Hic Hv); live_tac|];
  split; [tac | unfold k_coh in *; cbn [ml_k] in *; first [exact Hkc | live_tac]].


(* shape of the owned set when the block may be absent *)
Ltac shape2 lb lk Hda Hnd Hlv :=
  destruct lb as [[[bk da] sz]|];
  [ destruct da as [fo|d doff]; [|cbn in Hda; subst doff] | ];
  destruct lk as [k|]; own_norm; own_facts Hnd Hlv.
