(* Tier 2, definitions: the worker life-cycle invariant of the thread-pool LTS.
   Every worker carries exactly one "token": it is in the idle list, or in one result
   queue, or named by the label of exactly one thread (the caller that took it from the
   idle list / created it, or the handler that popped it), or it travels on its own
   (dispatched unordered and not yet queued; or told to exit). *)
From Coq Require Import NArith List Lia ZifyBool ZifyN ZifyNat Bool Arith.
From Mtbl Require Import model.Bytes model.Pool proofs.PoolBase proofs.PoolSched proofs.PoolInv.
Import ListNotations.

(* ---------- caller programs ---------- *)
Definition no_dispatch (q : nat) (p : list cmd) : bool :=
  forallb (fun c => match c with Dispatch q' => negb (Nat.eqb q q') | _ => true end) p.

(* what the proofs need: a dispatch names an existing handler that has not been finished *)
Fixpoint pwf (nq : nat) (p : list cmd) : bool :=
  match p with
  | [] => true
  | NewHandler _ :: r => pwf (S nq) r
  | Dispatch q :: r => Nat.ltb q nq && pwf nq r
  | Finish q :: r => no_dispatch q r && pwf nq r
  | DestroyPool :: r => pwf nq r
  end.
Definition prog_wf_weak (p : list cmd) : bool := pwf 0 p.

(* the API contract of threadpool.c as used by writer.c / sorter.c *)
Fixpoint pwf_full (nq : nat) (fin : list nat) (p : list cmd) : bool :=
  match p with
  | [] => true
  | NewHandler _ :: r => pwf_full (S nq) fin r
  | Dispatch q :: r => Nat.ltb q nq && negb (existsb (Nat.eqb q) fin) && pwf_full nq fin r
  | Finish q :: r => Nat.ltb q nq && negb (existsb (Nat.eqb q) fin) && pwf_full nq (q :: fin) r
  | DestroyPool :: r => forallb (fun q => existsb (Nat.eqb q) fin) (seq 0 nq) && match r with [] => true | _ => false end
  end.
Definition prog_wf (p : list cmd) : bool := pwf_full 0 [] p.

(* ---------- tokens ---------- *)
Definition b2n (b : bool) : nat := if b then 1%nat else 0%nat.
Definition sumf {A} (f : A -> nat) (l : list A) : nat := list_sum (map f l).

Definition ttok (ord : nat -> bool) (l : label) (i : nat) : nat :=
  match l with
  | D3 _ i' false | D4 _ i' | D5 _ i' | P3 i' | H3 _ (Some i') | H4 _ i' | H6 _ i' | H7 _ i' | W4u i' _ => b2n (Nat.eqb i i')
  | D5s q i' | D6 q i' | D7 q i' => b2n (Nat.eqb i i' && ord q)
  | _ => 0%nat
  end.
Definition dying (w : worker) : bool := wk_running w && negb (wk_hasjob w) && is_none (wk_res w).
Definition ftok (w : worker) : nat := b2n (negb (is_none (wk_rq w))) + b2n (dying w).

Definition ord_of (st : pstate) (q : nat) : bool := q_ordered (getq st q).
Definition tok_idle (st : pstate) (i : nat) : nat := count_occ Nat.eq_dec (ps_idle st) i.
Definition tok_q (st : pstate) (i : nat) : nat := sumf (fun qq => count_occ Nat.eq_dec (q_list qq) i) (ps_queues st).
Definition tok_t (st : pstate) (i : nat) : nat := sumf (fun th => ttok (ord_of st) (t_lab th) i) (ps_threads st).
Definition tokens (st : pstate) (i : nat) : nat := (tok_idle st i + tok_q st i + tok_t st i + ftok (getw st i))%nat.

(* ---------- field phases ---------- *)
Definition free_w (w : worker) : bool :=
  negb (wk_running w) && negb (wk_hasjob w) && is_none (wk_res w) && is_none (wk_rq w).
(* dispatched (ordered), or result computed, and not yet collected by the handler *)
Definition flight_w (w : worker) : bool :=
  is_none (wk_rq w) &&
  ((wk_running w && wk_hasjob w && is_none (wk_res w)) || (negb (wk_hasjob w) && negb (is_none (wk_res w)))).

Definition lab_free (l : label) : option nat :=
  match l with D3 _ i false | D4 _ i | D5 _ i | P3 i | H6 _ i | H7 _ i => Some i | _ => None end.
Definition lab_flight (ord : nat -> bool) (l : label) : option nat :=
  match l with
  | D5s q i | D6 q i | D7 q i => if ord q then Some i else None
  | H3 _ (Some i) | H4 _ i => Some i
  | _ => None
  end.

(* where worker i's own thread may be, as a function of the worker's fields *)
Definition wloop (i : nat) (l : label) : bool := match l with W0 i' | W1 i' => Nat.eqb i i' | _ => false end.
Definition wphase_ok (i : nat) (w : worker) (l : label) : bool :=
  match wk_running w, wk_hasjob w, wk_res w with
  | false, false, None => is_none (wk_rq w) && wloop i l
  | true, true, None => wloop i l || match l with W3 i' => Nat.eqb i i' | _ => false end
  | true, false, Some _ => is_none (wk_rq w) && match l with W4o i' => Nat.eqb i i' | _ => false end
  | false, false, Some _ =>
    is_none (wk_rq w) &&
    (wloop i l || match l with W4os i' | W5o i' | W4u i' _ | W4us i' _ | W5u i' => Nat.eqb i i' | _ => false end)
  | true, false, None => is_none (wk_rq w) && (wloop i l || match l with W3 i' => Nat.eqb i i' | LDone => true | _ => false end)
  | _, _, _ => false
  end.

Definition lab_worker (l : label) : option nat :=
  match l with
  | W0 i | W1 i | W3 i | W4u i _ | W4us i _ | W5u i | W4o i | W4os i | W5o i => Some i
  | _ => None
  end.
Definition caller_lab (l : label) : bool :=
  match l with
  | CNext | D1 _ | D3 _ _ _ | D4 _ _ | D5 _ _ | D5s _ _ | D6 _ _ | D7 _ _ | D7s _ | D8
  | F1 _ | F1s _ | F2 _ | F3 | P1 | P3 _ | P3s _ | P4 _ | P5 | P6 => true
  | _ => false
  end.
(* the queue a dispatch in progress targets (up to the D7 code) *)
Definition lab_dispatch (l : label) : option nat :=
  match l with D1 q | D3 q _ _ | D4 q _ | D5 q _ | D5s q _ | D6 q _ | D7 q _ => Some q | _ => None end.
(* worker thread between its enqueue and the queue unlock *)
Definition lab_queued (th : thread) : option (nat * nat) :=
  match t_lab th, t_obj th with
  | W4us i q, _ => Some (i, q)
  | W5u i, OQm q => Some (i, q)
  | _, _ => None
  end.

(* the facts a thread's label carries about the rest of the state *)
Record thread_ok (st : pstate) (x : nat) (th : thread) : Prop := {
  tk_free : forall i, lab_free (t_lab th) = Some i -> free_w (getw st i) = true;
  tk_flight : forall i, lab_flight (ord_of st) (t_lab th) = Some i -> flight_w (getw st i) = true;
  tk_worker : forall i, lab_worker (t_lab th) = Some i ->
     (i < length (ps_workers st))%nat /\ wk_tid (getw st i) = x;
  tk_caller : caller_lab (t_lab th) = true -> x = 0%nat;
  tk_w4u : forall i q, t_lab th = W4u i q -> (q < length (ps_queues st))%nat;
  tk_queued : forall i q, lab_queued th = Some (i, q) -> In i (q_list (getq st q));
  tk_h3none : forall j, t_lab th = H3 j None ->
     q_list (getq st j) = [] /\ q_finished (getq st j) = true /\ q_nthreads (getq st j) = 0%N;
  tk_fresh : forall q i, t_lab th = D3 q i true -> i = length (ps_workers st);
  tk_dispatch : forall q, lab_dispatch (t_lab th) = Some q ->
     (q < length (ps_queues st))%nat /\ q_finished (getq st q) = false;
  tk_fin : forall q, t_lab th = F1 q -> no_dispatch q (ps_prog st) = true;
}.

Record Inv2 (st : pstate) : Prop := {
  i2_tokens : forall i, tokens st i = if Nat.ltb i (length (ps_workers st)) then 1%nat else 0%nat;
  i2_idle : forall i, In i (ps_idle st) -> free_w (getw st i) = true;
  i2_listed : forall q i, In i (q_list (getq st q)) -> flight_w (getw st i) = true;
  i2_wthread : forall i, (i < length (ps_workers st))%nat ->
     (wk_tid (getw st i) < length (ps_threads st))%nat /\
     wphase_ok i (getw st i) (t_lab (gett st (wk_tid (getw st i)))) = true;
  i2_rq : forall i q, wk_rq (getw st i) = Some q -> (q < length (ps_queues st))%nat;
  i2_prog : pwf (length (ps_queues st)) (ps_prog st) = true;
  i2_finq : forall q, q_finished (getq st q) = true -> no_dispatch q (ps_prog st) = true;
  i2_noabort : ps_abort st = false;
  i2_threads : forall x, thread_ok st x (gett st x);
}.

(* ---------- sums over lists ---------- *)
Lemma sumf_app {A} (f : A -> nat) l1 l2 : sumf f (l1 ++ l2) = (sumf f l1 + sumf f l2)%nat.
Proof. unfold sumf. rewrite map_app, list_sum_app. reflexivity. Qed.
Lemma sumf_cons {A} (f : A -> nat) a l : sumf f (a :: l) = (f a + sumf f l)%nat.
Proof. reflexivity. Qed.
Lemma sumf_nil {A} (f : A -> nat) : sumf f [] = 0%nat.
Proof. reflexivity. Qed.

Lemma sumf_upd_nth {A} (f : A -> nat) l i x d : (i < length l)%nat ->
  (sumf f (upd_nth l i x) + f (nth i l d) = sumf f l + f x)%nat.
Proof.
  unfold upd_nth. revert i. induction l as [|a l IH]; intros [|i] H; cbn [length] in H; try lia.
  - cbn [firstn skipn app nth]. rewrite !sumf_cons. lia.
  - cbn [firstn skipn app nth]. rewrite !sumf_cons. specialize (IH i ltac:(lia)). lia.
Qed.

Lemma sumf_ext {A} (f g : A -> nat) l : (forall a, In a l -> f a = g a) -> sumf f l = sumf g l.
Proof.
  induction l as [|a l IH]; intros H; [reflexivity|]. rewrite !sumf_cons, IH.
  - rewrite (H a); [reflexivity|left; reflexivity].
  - intros b Hb. apply H. right. exact Hb.
Qed.

Lemma sumf_nth_le {A} (f : A -> nat) l i d : (i < length l)%nat -> (f (nth i l d) <= sumf f l)%nat.
Proof.
  revert i. induction l as [|a l IH]; intros [|i] H; cbn [length] in H; try lia; cbn [nth]; rewrite sumf_cons; [lia|].
  specialize (IH i ltac:(lia)). lia.
Qed.

Lemma sumf_nth2_le {A} (f : A -> nat) l i j d : (i < length l)%nat -> (j < length l)%nat -> i <> j ->
  (f (nth i l d) + f (nth j l d) <= sumf f l)%nat.
Proof.
  revert i j. induction l as [|a l IH]; intros [|i] [|j] Hi Hj Hne; cbn [length] in Hi, Hj; try lia; cbn [nth]; rewrite sumf_cons.
  - pose proof (sumf_nth_le f l j d ltac:(lia)). lia.
  - pose proof (sumf_nth_le f l i d ltac:(lia)). lia.
  - specialize (IH i j ltac:(lia) ltac:(lia) ltac:(lia)). lia.
Qed.

Lemma sumf_pos_ex {A} (f : A -> nat) l d : (0 < sumf f l)%nat -> exists i, (i < length l)%nat /\ (0 < f (nth i l d))%nat.
Proof.
  induction l as [|a l IH]; rewrite ?sumf_nil, ?sumf_cons; intros H; [lia|].
  destruct (f a) eqn:E.
  - destruct (IH ltac:(lia)) as (i & Hi & Hp). exists (S i). cbn [length nth]. split; [lia|exact Hp].
  - exists 0%nat. cbn [length nth]. split; [lia|lia].
Qed.

Lemma count_occ_in1 (l : list nat) i : In i l -> (1 <= count_occ Nat.eq_dec l i)%nat.
Proof. intros H. apply (count_occ_In Nat.eq_dec) in H. lia. Qed.

(* ---------- out-of-range accessors ---------- *)
Lemma getw_oob st i : (length (ps_workers st) <= i)%nat -> getw st i = dummy_w.
Proof. intros H. unfold getw. apply nth_overflow. exact H. Qed.
Lemma getq_oob st q : (length (ps_queues st) <= q)%nat -> getq st q = dummy_q.
Proof. intros H. unfold getq. apply nth_overflow. exact H. Qed.
Lemma listed_lt st q i : In i (q_list (getq st q)) -> (q < length (ps_queues st))%nat.
Proof.
  intros H. destruct (Nat.lt_ge_cases q (length (ps_queues st))) as [|Hge]; [assumption|].
  rewrite (getq_oob _ _ Hge) in H. destruct H.
Qed.

(* ---------- token bounds ---------- *)
Lemma tok_t_ge st x i : (ttok (ord_of st) (t_lab (gett st x)) i <= tok_t st i)%nat.
Proof.
  destruct (Nat.lt_ge_cases x (length (ps_threads st))) as [H|H].
  - unfold tok_t, gett. apply (sumf_nth_le (fun th => ttok (ord_of st) (t_lab th) i)). exact H.
  - rewrite (gett_oob _ _ H). cbn. lia.
Qed.
Lemma tok_t_ge2 st x y i : x <> y ->
  (ttok (ord_of st) (t_lab (gett st x)) i + ttok (ord_of st) (t_lab (gett st y)) i <= tok_t st i)%nat.
Proof.
  intros Hne.
  destruct (Nat.lt_ge_cases x (length (ps_threads st))) as [Hx|Hx];
    destruct (Nat.lt_ge_cases y (length (ps_threads st))) as [Hy|Hy].
  - unfold tok_t, gett. apply (sumf_nth2_le (fun th => ttok (ord_of st) (t_lab th) i)); assumption.
  - rewrite (gett_oob _ _ Hy). cbn [t_lab dummy_t ttok]. pose proof (tok_t_ge st x i). lia.
  - rewrite (gett_oob _ _ Hx). cbn [t_lab dummy_t ttok]. pose proof (tok_t_ge st y i). lia.
  - rewrite (gett_oob _ _ Hx). cbn [t_lab dummy_t ttok]. pose proof (tok_t_ge st y i). lia.
Qed.
Lemma tok_idle_ge st i : In i (ps_idle st) -> (1 <= tok_idle st i)%nat.
Proof. apply count_occ_in1. Qed.
Lemma tok_q_ge st q i : (count_occ Nat.eq_dec (q_list (getq st q)) i <= tok_q st i)%nat.
Proof.
  destruct (Nat.lt_ge_cases q (length (ps_queues st))) as [H|H].
  - unfold tok_q, getq. apply (sumf_nth_le (fun qq => count_occ Nat.eq_dec (q_list qq) i)). exact H.
  - rewrite (getq_oob _ _ H). cbn. lia.
Qed.
Lemma tok_q_ge2 st q q' i : q <> q' ->
  (count_occ Nat.eq_dec (q_list (getq st q)) i + count_occ Nat.eq_dec (q_list (getq st q')) i <= tok_q st i)%nat.
Proof.
  intros Hne.
  destruct (Nat.lt_ge_cases q (length (ps_queues st))) as [Hx|Hx];
    destruct (Nat.lt_ge_cases q' (length (ps_queues st))) as [Hy|Hy].
  - unfold tok_q, getq. apply (sumf_nth2_le (fun qq => count_occ Nat.eq_dec (q_list qq) i)); assumption.
  - rewrite (getq_oob _ _ Hy). cbn [q_list dummy_q count_occ]. pose proof (tok_q_ge st q i). lia.
  - rewrite (getq_oob _ _ Hx). cbn [q_list dummy_q count_occ]. pose proof (tok_q_ge st q' i). lia.
  - rewrite (getq_oob _ _ Hx). cbn [q_list dummy_q count_occ]. pose proof (tok_q_ge st q' i). lia.
Qed.
Lemma tokens_le1 st i : Inv2 st -> (tokens st i <= 1)%nat.
Proof. intros I. rewrite (i2_tokens _ I). destruct (Nat.ltb _ _); lia. Qed.
