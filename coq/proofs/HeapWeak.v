(* libmy/heap.c (model/Heap.v) for a comparison that need NOT be a total preorder itself: it is
   enough that some total preorder [le] is respected by every answer of the comparison -
   "cmp a b <= 0" only when le a b, "cmp a b > 0" only when le b a.  Then push / pop / replace
   keep the contents and the heap order FOR [le], and the root is a least element for [le].
   (proofs/HeapProofs.v is the instance le a b := cmp a b <> Gt; the proofs are the same.)
   Use: the merger's comparison with an arbitrary, possibly inconsistent dupsort function still
   respects the order of the keys. *)
From Coq Require Import List Arith Lia Permutation ZArith ZifyNat.
From Mtbl Require Import model.Heap.
Import ListNotations.
Ltac Zify.zify_post_hook ::= Z.div_mod_to_equations.

Module HW.
Ltac splits := repeat match goal with |- _ /\ _ => split end.

Section HeapWeak.
Variable A : Type.
Variable cmp : A -> A -> comparison.
Variable dflt : A.
Variable le : A -> A -> Prop.
Hypothesis le_trans : forall a b c, le a b -> le b c -> le a c.
Hypothesis le_total : forall a b, le a b \/ le b a.

Local Notation get := (get A dflt).
Local Notation set_nth := (set_nth A).
Local Notation le_c := (le_c A cmp).

Hypothesis le_c_true : forall a b, le_c a b = true -> le a b.
Hypothesis le_c_false : forall a b, le_c a b = false -> le b a.

Definition parent (i : nat) : nat := (i - 1) / 2.
Definition hok (l : list A) : Prop := forall i, 0 < i < length l -> le (get l (parent i)) (get l i).

(* ---- set_nth ---------------------------------------------------------------------------------- *)
Lemma set_nth_length : forall l i x, length (set_nth l i x) = length l.
Proof. induction l as [|h l IH]; intros i x; [destruct i; reflexivity|]. destruct i; cbn; [reflexivity|]. rewrite IH. reflexivity. Qed.
Lemma get_set_same : forall l i x, i < length l -> get (set_nth l i x) i = x.
Proof.
  induction l as [|h l IH]; intros i x Hi; [cbn in Hi; lia|]. destruct i; [reflexivity|].
  cbn [Heap.set_nth]. unfold Heap.get in *. cbn [nth]. apply IH. cbn in Hi. lia.
Qed.
Lemma get_set_other : forall l i j x, i <> j -> get (set_nth l i x) j = get l j.
Proof.
  induction l as [|h l IH]; intros i j x Hne; [destruct i; reflexivity|]. destruct i, j; try reflexivity; try congruence.
  cbn [Heap.set_nth]. unfold Heap.get in *. cbn [nth]. apply IH. congruence.
Qed.
Lemma set_nth_split : forall l i, i < length l -> exists a x b, l = a ++ x :: b /\ length a = i /\ forall v, set_nth l i v = a ++ v :: b.
Proof.
  induction l as [|h l IH]; intros i Hi; [cbn in Hi; lia|]. destruct i.
  - exists [], h, l. splits; reflexivity.
  - destruct (IH i ltac:(cbn in Hi; lia)) as (a & x & b & -> & Hl & Hs). exists (h :: a), x, b. splits; [reflexivity|cbn; lia|].
    intros v. cbn [Heap.set_nth app]. rewrite Hs. reflexivity.
Qed.
Lemma set_nth_same : forall l i, i < length l -> set_nth l i (get l i) = l.
Proof.
  induction l as [|h l IH]; intros i Hi; [cbn in Hi; lia|]. destruct i; [reflexivity|].
  cbn [Heap.set_nth]. unfold Heap.get in *. cbn [nth]. f_equal. apply IH. cbn in Hi. lia.
Qed.

Lemma set_nth_at : forall a0 (v u : A) rest, set_nth (a0 ++ v :: rest) (length a0) u = a0 ++ u :: rest.
Proof. induction a0 as [|h a0 IH]; intros v u rest; [reflexivity|]. cbn [app length Heap.set_nth]. f_equal. apply IH. Qed.
Lemma set_nth_mid : forall a0 (v : A) c u d w, set_nth (a0 ++ v :: c ++ u :: d) (length a0 + S (length c)) w = a0 ++ v :: c ++ w :: d.
Proof.
  induction a0 as [|h a0 IH]; intros v c u d w.
  - cbn [app length Nat.add Heap.set_nth]. f_equal. apply set_nth_at.
  - cbn [app length Nat.add Heap.set_nth]. f_equal. apply IH.
Qed.

(* moving the value at j into i and a new item into j permutes "item at i" *)
Lemma swap_perm l i j item : i < length l -> j < length l -> i <> j ->
  Permutation (set_nth (set_nth l i (get l j)) j item) (set_nth l i item).
Proof.
  intros Hi Hj Hne.
  assert (Hgen : forall p q, p < q -> q < length l ->
            Permutation (set_nth (set_nth l p (get l q)) q item) (set_nth l p item) /\
            Permutation (set_nth (set_nth l q (get l p)) p item) (set_nth l q item)).
  { intros p q Hpq Hq.
    destruct (set_nth_split l p ltac:(lia)) as (a & x & b & El & Hla & Hsp).
    assert (Hqb : q - p - 1 < length b) by (rewrite El, app_length in Hq; cbn in Hq; lia).
    destruct (set_nth_split b (q - p - 1) Hqb) as (c & y & d & Eb & Hlc & Hsb).
    assert (Egq : get l q = y).
    { unfold Heap.get. rewrite El, app_nth2 by lia. replace (q - length a) with (S (q - p - 1)) by lia. cbn [nth].
      rewrite Eb, app_nth2 by lia. replace (q - p - 1 - length c) with 0 by lia. reflexivity. }
    assert (Egp : get l p = x).
    { unfold Heap.get. rewrite El, app_nth2 by lia. replace (p - length a) with 0 by lia. reflexivity. }
    subst l b. split.
    - rewrite Egq. assert (Eq : q = length a + S (length c)) by lia. rewrite <- Hla, Eq. rewrite !set_nth_at, set_nth_mid.
      apply Permutation_app_head. apply Permutation_trans with (l' := item :: (y :: c) ++ d).
      + cbn [app]. rewrite (app_comm_cons c (item :: d) y). apply Permutation_sym, (Permutation_middle (y :: c) d item).
      + cbn [app]. apply perm_skip. apply (Permutation_middle c d y).
    - rewrite Egp. assert (Eq : q = length a + S (length c)) by lia. rewrite <- Hla, Eq. rewrite !set_nth_mid, set_nth_at.
      apply Permutation_app_head. apply Permutation_trans with (l' := item :: (x :: c) ++ d).
      + cbn [app]. apply perm_skip. apply Permutation_sym, (Permutation_middle c d x).
      + rewrite (app_comm_cons c (item :: d) x). apply (Permutation_middle (x :: c) d item). }
  destruct (Nat.lt_trichotomy i j) as [Hlt|[->|Hgt]]; [|lia|].
  - exact (proj1 (Hgen i j Hlt Hj)).
  - exact (proj2 (Hgen j i Hgt Hi)).
Qed.

(* ---- the root is a least element ---------------------------------------------------------------- *)
Lemma root_le l : hok l -> forall i, i < length l -> le (get l 0) (get l i).
Proof.
  intros H i. induction i as [i IH] using lt_wf_ind. intros Hi.
  destruct i as [|i]; [destruct (le_total (get l 0) (get l 0)); assumption|].
  eapply le_trans; [apply (IH (parent (S i)))|apply H; lia]; unfold parent; lia.
Qed.

(* ---- siftdown ------------------------------------------------------------------------------------ *)
(* [l] with a hole at [pos] that [item] is to fill: every edge that does not touch the hole is in
   order, the hole's parent is below the hole's children and below the item *)
Definition hole_down (l : list A) (pos : nat) (item : A) : Prop :=
  pos < length l /\
  (forall i, 0 < i < length l -> i <> pos -> parent i <> pos -> le (get l (parent i)) (get l i)) /\
  (0 < pos -> forall c, c < length l -> 0 < c -> parent c = pos -> le (get l (parent pos)) (get l c)) /\
  (0 < pos -> le (get l (parent pos)) item).

Lemma fill_hole_ok l pos item : hole_down l pos item ->
  (forall c, c < length l -> 0 < c -> parent c = pos -> le item (get l c)) -> hok (set_nth l pos item).
Proof.
  intros (Hpos & H1 & H2 & H3) Hch i Hi. rewrite set_nth_length in Hi.
  destruct (Nat.eq_dec i pos) as [->|Hne].
  - rewrite get_set_same by exact Hpos. rewrite get_set_other by (unfold parent; lia). apply H3. lia.
  - rewrite (get_set_other l pos i) by congruence. destruct (Nat.eq_dec (parent i) pos) as [E|E].
    + rewrite E, get_set_same by exact Hpos. apply Hch; [lia|lia|exact E].
    + rewrite get_set_other by congruence. apply H1; [lia|exact Hne|exact E].
Qed.

Lemma siftdown_loop_ok : forall fuel l pos item, hole_down l pos item -> length l - pos <= fuel ->
  hok (siftdown_loop A cmp dflt fuel l pos item) /\ Permutation (siftdown_loop A cmp dflt fuel l pos item) (set_nth l pos item).
Proof.
  induction fuel as [|fuel IH]; intros l pos item Hh Hf; [destruct Hh as (Hpos & _); lia|].
  pose proof Hh as (Hpos & H1 & H2 & H3). cbn [siftdown_loop].
  destruct (2 * pos + 1 <? length l) eqn:Ec.
  2:{ apply Nat.ltb_ge in Ec. split; [|reflexivity]. apply fill_hole_ok; [exact Hh|]. intros c Hc H0 Hp. unfold parent in Hp. lia. }
  apply Nat.ltb_lt in Ec.
  set (cp := 2 * pos + 1) in *. set (rp := cp + 1).
  (* the smaller child *)
  set (choice := if rp <? length l then if le_c (get l rp) (get l cp) then (rp, get l rp) else (cp, get l cp) else (cp, get l cp)).
  assert (Hchoice : exists cpos, choice = (cpos, get l cpos) /\ (cpos = cp \/ (cpos = rp /\ rp < length l)) /\
                      (forall c, c < length l -> 0 < c -> parent c = pos -> le (get l cpos) (get l c))).
  { unfold choice. destruct (rp <? length l) eqn:Er.
    - apply Nat.ltb_lt in Er. destruct (le_c (get l rp) (get l cp)) eqn:El.
      + exists rp. splits; [reflexivity|right; split; [reflexivity|exact Er]|].
        intros c Hc H0 Hp. assert (c = cp \/ c = rp) by (unfold parent in Hp; subst cp rp; lia).
        destruct H as [->| ->]; [apply le_c_true, El|destruct (le_total (get l rp) (get l rp)); assumption].
      + exists cp. splits; [reflexivity|left; reflexivity|].
        intros c Hc H0 Hp. assert (c = cp \/ c = rp) by (unfold parent in Hp; subst cp rp; lia).
        destruct H as [->| ->]; [destruct (le_total (get l cp) (get l cp)); assumption|apply le_c_false, El].
    - apply Nat.ltb_ge in Er. exists cp. splits; [reflexivity|left; reflexivity|].
      intros c Hc H0 Hp. assert (c = cp) by (unfold parent in Hp; subst cp rp; lia). subst c.
      destruct (le_total (get l cp) (get l cp)); assumption. }
  destruct Hchoice as (cpos & -> & Hcp & Hmin).
  assert (Hcl : cpos < length l) by (destruct Hcp as [->|[-> H]]; [exact Ec|exact H]).
  assert (Hcpar : parent cpos = pos) by (unfold parent; subst cp rp; lia).
  assert (Hcgt : pos < cpos) by (subst cp rp; lia).
  destruct (le_c item (get l cpos)) eqn:Eit.
  - split; [|reflexivity]. apply fill_hole_ok; [exact Hh|]. intros c Hc H0 Hp.
    eapply le_trans; [apply le_c_true, Eit|apply Hmin; assumption].
  - (* move the child up, continue below *)
    set (l1 := set_nth l pos (get l cpos)).
    assert (Hh1 : hole_down l1 cpos item).
    { unfold hole_down, l1. rewrite set_nth_length. splits.
      - exact Hcl.
      - intros i Hi Hne Hpe. destruct (Nat.eq_dec i pos) as [->|Hip].
        + rewrite get_set_same by exact Hpos. rewrite get_set_other by (unfold parent; lia).
          apply H2; [lia|exact Hcl|lia|exact Hcpar].
        + rewrite (get_set_other l pos i) by congruence. destruct (Nat.eq_dec (parent i) pos) as [E|E].
          * rewrite E, get_set_same by exact Hpos. apply Hmin; [lia|lia|exact E].
          * rewrite get_set_other by congruence. apply H1; [lia|exact Hip|exact E].
      - intros _ c Hc H0 Hp. rewrite Hcpar, get_set_same by exact Hpos.
        rewrite get_set_other by (unfold parent in Hp; lia).
        rewrite <- Hp. apply H1; [lia|unfold parent in Hp; lia|rewrite Hp; lia].
      - intros _. rewrite Hcpar, get_set_same by exact Hpos. apply le_c_false, Eit. }
    destruct (IH l1 cpos item Hh1 ltac:(unfold l1; rewrite set_nth_length; lia)) as [Hok Hperm].
    split; [exact Hok|]. eapply Permutation_trans; [exact Hperm|]. unfold l1. apply swap_perm; [exact Hpos|exact Hcl|lia].
Qed.

(* siftdown at the root of a list whose other edges are in order *)
Lemma siftdown_root_ok l : l <> [] -> (forall i, 0 < i < length l -> parent i <> 0 -> le (get l (parent i)) (get l i)) ->
  hok (siftdown A cmp dflt l 0) /\ Permutation (siftdown A cmp dflt l 0) l.
Proof.
  intros Hne H. unfold siftdown. assert (Hl : 0 < length l) by (destruct l; [congruence|cbn; lia]).
  replace (0 <? length l) with true by (symmetry; apply Nat.ltb_lt; exact Hl).
  destruct (siftdown_loop_ok (length l) l 0 (get l 0)) as [Hok Hperm].
  - unfold hole_down. splits; [exact Hl| |intros; lia|intros; lia]. intros i Hi Hn Hp. apply H; assumption.
  - lia.
  - split; [exact Hok|]. rewrite set_nth_same in Hperm by exact Hl. exact Hperm.
Qed.

Lemma hok_tail_edges x t y : hok (x :: t) -> forall i, 0 < i < length (y :: t) -> parent i <> 0 ->
  le (get (y :: t) (parent i)) (get (y :: t) i).
Proof.
  intros H i Hi Hp. specialize (H i ltac:(cbn [length] in *; lia)). unfold Heap.get in *.
  destruct i; [lia|]. destruct (parent (S i)) eqn:E; [congruence|]. cbn [nth] in *. exact H.
Qed.

Theorem heap_replace_ok r t x : hok (r :: t) ->
  hok (heap_replace A cmp dflt (r :: t) x) /\ Permutation (heap_replace A cmp dflt (r :: t) x) (x :: t).
Proof.
  intros H. unfold heap_replace. cbn [Heap.set_nth]. apply siftdown_root_ok; [discriminate|]. apply (hok_tail_edges r t x H).
Qed.

Lemma get_app_l a b i : i < length a -> get (a ++ b) i = get a i.
Proof. intros H. unfold Heap.get. apply app_nth1, H. Qed.
Lemma hok_prefix a b : hok (a ++ b) -> hok a.
Proof.
  intros H i Hi. specialize (H i ltac:(rewrite app_length; lia)).
  rewrite !get_app_l in H by (unfold parent; lia). exact H.
Qed.

Theorem heap_pop_ok r t : hok (r :: t) ->
  hok (heap_pop A cmp dflt (r :: t)) /\ Permutation (heap_pop A cmp dflt (r :: t)) t.
Proof.
  intros H. unfold heap_pop. destruct t as [|y t0].
  - cbn. split; [intros i Hi; cbn in Hi; lia|constructor].
  - destruct (@exists_last _ (y :: t0) ltac:(discriminate)) as (t' & z & Et). rewrite Et in *.
    assert (Hlen : length (r :: t' ++ [z]) - 1 = S (length t')) by (cbn [length]; rewrite app_length; cbn; lia).
    rewrite Hlen.
    assert (Hlast : get (r :: t' ++ [z]) (S (length t')) = z).
    { unfold Heap.get. cbn [nth]. rewrite app_nth2 by lia. rewrite Nat.sub_diag. reflexivity. }
    rewrite Hlast. cbn [firstn]. rewrite firstn_app, firstn_all, Nat.sub_diag. cbn [firstn]. rewrite app_nil_r. cbn [Heap.set_nth].
    destruct (siftdown_root_ok (z :: t')) as [Hok Hperm]; [discriminate| |].
    + apply (hok_tail_edges r t' z). apply (hok_prefix (r :: t') [z]). exact H.
    + split; [exact Hok|]. eapply Permutation_trans; [exact Hperm|]. apply Permutation_cons_append.
Qed.

(* ---- siftup -------------------------------------------------------------------------------------- *)
Definition hole_up (l : list A) (pos : nat) (item : A) : Prop :=
  pos < length l /\
  (forall i, 0 < i < length l -> i <> pos -> parent i <> pos -> le (get l (parent i)) (get l i)) /\
  (forall c, c < length l -> 0 < c -> parent c = pos -> le item (get l c)) /\
  (0 < pos -> forall c, c < length l -> 0 < c -> parent c = pos -> le (get l (parent pos)) (get l c)).

Lemma fill_up_ok l pos item : hole_up l pos item -> (0 < pos -> le (get l (parent pos)) item) -> hok (set_nth l pos item).
Proof.
  intros (Hpos & U1 & U2 & U3) Hp i Hi. rewrite set_nth_length in Hi.
  destruct (Nat.eq_dec i pos) as [->|Hne].
  - rewrite get_set_same by exact Hpos. rewrite get_set_other by (unfold parent; lia). apply Hp. lia.
  - rewrite (get_set_other l pos i) by congruence. destruct (Nat.eq_dec (parent i) pos) as [E|E].
    + rewrite E, get_set_same by exact Hpos. apply U2; [lia|lia|exact E].
    + rewrite get_set_other by congruence. apply U1; [lia|exact Hne|exact E].
Qed.

Lemma siftup_loop_ok : forall fuel l pos item, hole_up l pos item -> pos < fuel ->
  hok (siftup_loop A cmp dflt fuel l pos item) /\ Permutation (siftup_loop A cmp dflt fuel l pos item) (set_nth l pos item).
Proof.
  induction fuel as [|fuel IH]; intros l pos item Hh Hf; [lia|].
  pose proof Hh as (Hpos & U1 & U2 & U3). cbn [siftup_loop]. destruct pos as [|p].
  - split; [|reflexivity]. apply fill_up_ok; [exact Hh|lia].
  - set (pos := S p) in *. change (S p - 1) with (pos - 1). fold (parent pos). set (pp := parent pos) in *.
    assert (Hpp : pp < pos) by (unfold pp, parent; lia).
    destruct (le_c (get l pp) item) eqn:El.
    + split; [|reflexivity]. apply fill_up_ok; [exact Hh|]. intros _. apply le_c_true, El.
    + set (l1 := set_nth l pos (get l pp)).
      assert (Hh1 : hole_up l1 pp item).
      { unfold hole_up, l1. rewrite set_nth_length. splits.
        - lia.
        - intros i Hi Hne Hpe. assert (Hip : i <> pos) by (intros ->; fold pp in Hpe; congruence).
          rewrite (get_set_other l pos i) by congruence. destruct (Nat.eq_dec (parent i) pos) as [E|E].
          + rewrite E, get_set_same by exact Hpos. apply U3; [lia|lia|lia|exact E].
          + rewrite get_set_other by congruence. apply U1; [lia|exact Hip|exact E].
        - intros c Hc H0 Hp. destruct (Nat.eq_dec c pos) as [->|Hcp].
          + rewrite get_set_same by exact Hpos. apply le_c_false, El.
          + rewrite get_set_other by congruence. eapply le_trans; [apply le_c_false, El|].
            rewrite <- Hp. apply U1; [lia|exact Hcp|rewrite Hp; lia].
        - intros Hpp0 c Hc H0 Hp. rewrite (get_set_other l pos (parent pp)) by (unfold parent; lia).
          assert (Hstep : le (get l (parent pp)) (get l pp)) by (apply U1; [lia|lia|unfold parent; lia]).
          destruct (Nat.eq_dec c pos) as [->|Hcp].
          + rewrite get_set_same by exact Hpos. exact Hstep.
          + rewrite get_set_other by congruence. eapply le_trans; [exact Hstep|].
            rewrite <- Hp. apply U1; [lia|exact Hcp|rewrite Hp; lia]. }
      destruct (IH l1 pp item Hh1 ltac:(lia)) as [Hok Hperm].
      split; [exact Hok|]. eapply Permutation_trans; [exact Hperm|]. unfold l1. apply swap_perm; [exact Hpos|lia|lia].
Qed.

Theorem heap_push_ok h x : hok h -> hok (heap_push A cmp dflt h x) /\ Permutation (heap_push A cmp dflt h x) (x :: h).
Proof.
  intros H. unfold heap_push, siftup. destruct (h ++ [x]) as [|y l0] eqn:E; [destruct h; discriminate|]. rewrite <- E.
  assert (Hlen : length (h ++ [x]) - 1 = length h) by (rewrite app_length; cbn; lia). rewrite Hlen.
  assert (Hget : get (h ++ [x]) (length h) = x) by (unfold Heap.get; rewrite app_nth2 by lia; rewrite Nat.sub_diag; reflexivity).
  rewrite Hget.
  destruct (siftup_loop_ok (length (h ++ [x])) (h ++ [x]) (length h) x) as [Hok Hperm].
  - unfold hole_up. rewrite app_length. cbn [length]. splits.
    + lia.
    + intros i Hi Hne Hp. rewrite !get_app_l by (unfold parent; lia). apply H. lia.
    + intros c Hc H0 Hp. unfold parent in Hp. lia.
    + intros _ c Hc H0 Hp. unfold parent in Hp. lia.
  - rewrite app_length. cbn. lia.
  - split; [exact Hok|]. eapply Permutation_trans; [exact Hperm|].
    pose proof (set_nth_same (h ++ [x]) (length h) ltac:(rewrite app_length; cbn; lia)) as Es. rewrite Hget in Es. rewrite Es.
    apply Permutation_sym, Permutation_cons_append.
Qed.

Lemma hok_nil : hok [].
Proof. intros i Hi. cbn in Hi. lia. Qed.

Theorem heap_root_min r t y : hok (r :: t) -> In y t -> le r y.
Proof.
  intros H Hy. destruct (In_nth t y dflt Hy) as (n & Hn & <-).
  exact (root_le (r :: t) H (S n) ltac:(cbn; lia)).
Qed.

(* replacing the root by an element that is below whatever the root is below keeps the heap order *)
Theorem hok_root_equiv r r' t : hok (r :: t) -> (forall y, le r y -> le r' y) -> hok (r' :: t).
Proof.
  intros H Heq i Hi. specialize (H i ltac:(cbn [length] in *; lia)). unfold Heap.get in *.
  destruct i; [lia|]. destruct (parent (S i)) eqn:E; cbn [nth] in *; [|exact H].
  apply Heq. exact H.
Qed.
End HeapWeak.
End HW.
