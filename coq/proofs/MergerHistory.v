(* merger.c: every history of next / seek calls on a merger iterator behaves like a cursor over
   the merged content: the keys delivered are those of a cursor over all_keys (strictly ascending
   distinct keys of all sources), with the sticky end of mtbl iterators, and every value delivered
   is the fold of the merge function over all the values the sources hold for the key. *)
From Coq Require Import NArith List Arith Lia Permutation Sorting.Sorted.
From Mtbl Require Import model.Bytes model.Order model.Heap model.Merger spec.MergeSpec proofs.OrderProofs
  proofs.HeapProofs proofs.MergerProofs proofs.MergerClosed proofs.MergerSeek.
Import ListNotations.

(* ---- histories (as in props/Properties_C05.v) ------------------------------------------------------ *)
Inductive mop := MNext | MSeek (k : bytes).
Fixpoint mrun (mf : option (bytes -> bytes -> bytes -> option bytes)) (it : miter) (ops : list mop) : list (option entry) :=
  match ops with
  | [] => []
  | MNext :: tl => let '(it', e) := merger_next mf None it in e :: mrun mf it' tl
  | MSeek k :: tl => None :: mrun mf (merger_seek None it k) tl
  end.

(* specification: cursor over the (already merged) content *)
Fixpoint srun (content : list entry) (pos : option nat) (ops : list mop) : list (option entry) :=
  match ops with
  | [] => []
  | MNext :: tl =>
    match pos with
    | None => None :: srun content None tl
    | Some p => match nth_error content p with
                | Some e => Some e :: srun content (Some (S p)) tl
                | None => None :: srun content None tl
                end
    end
  | MSeek k :: tl => None :: srun content (Some (first_ge_from content k 0)) tl
  end.

(* the same cursor over keys only *)
Fixpoint kfirst_ge_from (ks : list bytes) (k : bytes) (i : nat) : nat :=
  match ks with
  | [] => i
  | key :: tl => if blt key k then kfirst_ge_from tl k (S i) else i
  end.
Fixpoint krun (keys : list bytes) (pos : option nat) (ops : list mop) : list (option bytes) :=
  match ops with
  | [] => []
  | MNext :: tl =>
    match pos with
    | None => None :: krun keys None tl
    | Some p => match nth_error keys p with
                | Some k => Some k :: krun keys (Some (S p)) tl
                | None => None :: krun keys None tl
                end
    end
  | MSeek k :: tl => None :: krun keys (Some (kfirst_ge_from keys k 0)) tl
  end.

Lemma first_ge_from_keys : forall content k i, first_ge_from content k i = kfirst_ge_from (map fst content) k i.
Proof.
  induction content as [|[key v] content IH]; intros k i; [reflexivity|]. cbn [first_ge_from map fst kfirst_ge_from].
  destruct (blt key k); [apply IH|reflexivity].
Qed.
Lemma srun_krun content : forall ops pos, map (option_map fst) (srun content pos ops) = krun (map fst content) pos ops.
Proof.
  induction ops as [|[|k] ops IH]; intros pos; [reflexivity| |].
  - cbn [srun krun]. destruct pos as [p|].
    + rewrite nth_error_map. unfold entry in *. destruct (nth_error content p) as [e|]; cbn [option_map map]; rewrite IH; reflexivity.
    + cbn [option_map map]. rewrite IH. reflexivity.
  - cbn [srun krun option_map map]. rewrite IH, first_ge_from_keys. reflexivity.
Qed.

(* ---- all_keys: the strictly ascending list of the distinct keys ------------------------------------- *)
Definition ksorted (l : list bytes) : Prop := StronglySorted (fun a b => bcmp a b = Lt) l.

Lemma In_insert_key k : forall l x, In x (insert_key k l) <-> x = k \/ In x l.
Proof.
  induction l as [|a l IH]; intros x; cbn [insert_key].
  - cbn. split; intros [H|[]]; left; congruence.
  - destruct (bcmp k a) eqn:E.
    + apply bcmp_eq in E. subst a. cbn [In]. split; [intros H; right; exact H|intros [->|H]; [left; reflexivity|exact H]].
    + cbn [In]. split; [intros [H|H]; [left; congruence|right; exact H]|intros [H|H]; [left; congruence|right; exact H]].
    + cbn [In]. rewrite IH. split; [intros [H|[H|H]]|intros [H|[H|H]]]; auto.
Qed.

Lemma ksorted_insert k : forall l, ksorted l -> ksorted (insert_key k l).
Proof.
  induction l as [|a l IH]; intros Hs; cbn [insert_key].
  - constructor; constructor.
  - inversion Hs as [|? ? Hs' Hall]; subst. destruct (bcmp k a) eqn:E.
    + exact Hs.
    + constructor; [exact Hs|]. constructor; [exact E|]. rewrite Forall_forall in *. intros x Hx.
      eapply bcmp_lt_trans; [exact E|apply Hall, Hx].
    + constructor; [apply IH, Hs'|]. rewrite Forall_forall in *. intros x Hx. apply In_insert_key in Hx.
      destruct Hx as [->|Hx]; [apply bcmp_lt_gt, E|apply Hall, Hx].
Qed.

Lemma all_keys_In srcs x : In x (all_keys srcs) <-> In x (map fst (concat srcs)).
Proof.
  unfold all_keys. induction (map fst (concat srcs)) as [|a l IH]; [reflexivity|].
  cbn [fold_right]. rewrite In_insert_key, IH. cbn [In]. split; intros [H|H]; auto.
Qed.
Lemma all_keys_sorted srcs : ksorted (all_keys srcs).
Proof.
  unfold all_keys. induction (map fst (concat srcs)) as [|a l IH]; [constructor|].
  cbn [fold_right]. apply ksorted_insert, IH.
Qed.

Lemma kfirst_ge_from_shift : forall ks k i, kfirst_ge_from ks k i = i + kfirst_ge_from ks k 0.
Proof.
  induction ks as [|key ks IH]; intros k i; cbn [kfirst_ge_from]; [lia|].
  destruct (blt key k); [|lia]. rewrite (IH k (S i)), (IH k 1). lia.
Qed.

(* in a strictly ascending list, the keys after position p are those greater than the key at p *)
Lemma ksorted_after : forall K p k0, ksorted K -> nth_error K p = Some k0 ->
  forall x, In x K -> (blt k0 x = true <-> In x (skipn (S p) K)).
Proof.
  induction K as [|a K IH]; intros p k0 Hs Hn x Hx; [destruct p; discriminate|].
  inversion Hs as [|? ? Hs' Hall]; subst. rewrite Forall_forall in Hall.
  assert (Hirr : forall y, In y K -> y <> a).
  { intros y Hy ->. specialize (Hall a Hy). rewrite bcmp_refl in Hall. discriminate. }
  destruct p as [|p].
  - cbn [nth_error] in Hn. inversion Hn; subst k0. cbn [skipn]. destruct Hx as [<-|Hx].
    + unfold blt. rewrite bcmp_refl. split; [discriminate|]. intros Hin. exfalso. exact (Hirr a Hin eq_refl).
    + unfold blt. rewrite (Hall x Hx). split; [intros _; exact Hx|reflexivity].
  - cbn [nth_error] in Hn. change (skipn (S (S p)) (a :: K)) with (skipn (S p) K). destruct Hx as [<-|Hx].
    + assert (Hk0 : bcmp a k0 = Lt) by (apply Hall; eapply nth_error_In; exact Hn).
      apply bcmp_lt_gt in Hk0. unfold blt. rewrite Hk0. split; [discriminate|]. intros Hin. exfalso.
      assert (Hin' : In a K).
      { clear -Hin. revert Hin. generalize (S p). intros n. revert K. induction n as [|n IHn]; intros K Hin; [exact Hin|].
        destruct K as [|b K]; [contradiction|]. right. apply IHn. exact Hin. }
      exact (Hirr a Hin' eq_refl).
    + apply IH; assumption.
Qed.

(* ... and the keys from the seek position on are those at or above the target *)
Lemma ksorted_from_ge : forall K k, ksorted K ->
  forall x, In x K -> (negb (blt x k) = true <-> In x (skipn (kfirst_ge_from K k 0) K)).
Proof.
  induction K as [|a K IH]; intros k Hs x Hx; [contradiction|].
  inversion Hs as [|? ? Hs' Hall]; subst. rewrite Forall_forall in Hall.
  cbn [kfirst_ge_from]. destruct (blt a k) eqn:Ea.
  - rewrite kfirst_ge_from_shift. cbn [Nat.add skipn]. destruct Hx as [<-|Hx].
    + rewrite Ea. cbn [negb]. split; [discriminate|]. intros Hin. exfalso.
      assert (Hin' : In a K).
      { clear -Hin. revert Hin. generalize (kfirst_ge_from K k 0). intros n. revert K. induction n as [|n IHn]; intros K Hin; [exact Hin|].
        destruct K as [|b K]; [contradiction|]. right. apply IHn. exact Hin. }
      specialize (Hall a Hin'). rewrite bcmp_refl in Hall. discriminate.
    + apply IH; assumption.
  - cbn [skipn]. split; [intros _; exact Hx|]. intros _. destruct Hx as [<-|Hx]; [rewrite Ea; reflexivity|].
    specialize (Hall x Hx). unfold blt in *. destruct (bcmp x k) eqn:Exk; try reflexivity.
    rewrite (bcmp_lt_trans _ _ _ Hall Exk) in Ea. discriminate.
Qed.

(* ---- the refinement ------------------------------------------------------------------------------------ *)
Section History.
Variable mf : bytes -> bytes -> bytes -> option bytes.
Hypothesis mf_total : forall k a b, mf k a b <> None.
Variable srcs : list (list entry).

Local Notation K := (all_keys srcs).

(* the state [it] of the merger stands for the cursor position [pos] *)
Definition R (it : miter) (pos : option nat) : Prop :=
  sinv it /\ Permutation (allof it) (concat srcs) /\
  match pos with
  | None => remaining it = []
  | Some p => exists P, Permutation (remaining it) (filter (fun e => P (fst e)) (allof it)) /\
                        forall x, In x K -> (P x = true <-> In x (skipn p K))
  end.

Lemma key_in_K it e : Permutation (allof it) (concat srcs) -> In e (allof it) -> In (fst e) K.
Proof. intros Hp He. apply all_keys_In, in_map. eapply Permutation_in; eassumption. Qed.

Lemma K_has_entry it x : Permutation (allof it) (concat srcs) -> In x K -> exists e, In e (allof it) /\ fst e = x.
Proof.
  intros Hp Hx. apply all_keys_In, in_map_iff in Hx. destruct Hx as (e & He & Hin). exists e. split; [|exact He].
  eapply Permutation_in; [apply Permutation_sym, Hp|exact Hin].
Qed.

Lemma next_at_end it : sinv it -> Permutation (allof it) (concat srcs) -> remaining it = [] ->
  let '(it', r) := merger_next (Some mf) None it in r = None /\ R it' None.
Proof.
  intros Hs Hall Hnil. pose proof (merger_next_sinv mf it Hs) as Hstep.
  destruct (merger_next (Some mf) None it) as [it' [[k v]|]].
  - destruct Hstep as (_ & _ & _ & _ & _ & _ & (first & rest & Hperm & _) & _). rewrite Hnil in Hperm.
    apply Permutation_sym, Permutation_nil in Hperm. discriminate.
  - split; [reflexivity|]. destruct Hstep as [(_ & Hs' & Hnil' & Hall' & _)|(k & first & rest & v0 & others & _ & _ & Hfail)].
    + split; [exact Hs'|]. split; [rewrite Hall'; exact Hall|exact Hnil'].
    + exfalso. exact (fold_merge_total mf k (mf_total k) _ _ Hfail).
Qed.

Lemma R_next it pos : R it pos ->
  let '(it', r) := merger_next (Some mf) None it in
  match pos with
  | None => r = None /\ R it' None
  | Some p =>
    match nth_error K p with
    | Some k0 => exists v, r = Some (k0, v) /\ merged_value_ok mf srcs k0 v /\ R it' (Some (S p))
    | None => r = None /\ R it' None
    end
  end.
Proof.
  intros (Hs & Hall & Hpos). destruct pos as [p|]; [|apply next_at_end; assumption].
  destruct Hpos as (P & HP & HPK).
  destruct (nth_error K p) as [k0|] eqn:En.
  2:{ (* past the last key: nothing remains *)
    apply next_at_end; [exact Hs|exact Hall|].
    assert (Hsk : skipn p K = []) by (apply skipn_all2, nth_error_None, En).
    rewrite filter_false_all in HP; [apply Permutation_nil, Permutation_sym, HP|].
    intros e He. destruct (P (fst e)) eqn:EP; [|reflexivity]. apply (HPK _ (key_in_K it e Hall He)) in EP.
    rewrite Hsk in EP. contradiction. }
  assert (Hk0K : In k0 K) by (eapply nth_error_In; exact En).
  assert (Hk0sk : In k0 (skipn p K)).
  { pose proof (skipn_nth_error K p k0 En) as E. rewrite E. left. reflexivity. }
  assert (HPk0 : P k0 = true) by (apply HPK; assumption).
  destruct (K_has_entry it k0 Hall Hk0K) as (e0 & He0 & Hfst0).
  assert (He0rem : In e0 (remaining it)).
  { eapply Permutation_in; [apply Permutation_sym, HP|]. apply filter_In. split; [exact He0|rewrite Hfst0; exact HPk0]. }
  pose proof (merger_next_sinv mf it Hs) as Hstep.
  destruct (merger_next (Some mf) None it) as [it' [[k v]|]].
  - destruct Hstep as (Hs' & Hck & Hall' & Hents & Hst & Hrem' & (first & rest & Hperm & Hfold) & Hmin).
    assert (Hkin : In (k, first) (filter (fun e => P (fst e)) (allof it))).
    { eapply Permutation_in; [exact HP|]. eapply Permutation_in; [exact Hperm|]. left. reflexivity. }
    apply filter_In in Hkin. destruct Hkin as [Hkall HPk]. cbn [fst] in HPk.
    assert (HkK : In k K) by (exact (key_in_K it (k, first) Hall Hkall)).
    assert (Hkk0 : k = k0).
    { pose proof (Hmin e0 He0rem) as Hle. rewrite Hfst0 in Hle.
      pose proof (proj1 (HPK k HkK) HPk) as Hin. rewrite (skipn_nth_error K p k0 En) in Hin. destruct Hin as [E|Hin]; [symmetry; exact E|].
      exfalso. apply (ksorted_after K p k0 (all_keys_sorted srcs) En k HkK) in Hin. unfold blt in Hin.
      destruct (bcmp k0 k) eqn:E; try discriminate. apply bcmp_lt_gt in E. contradiction. }
    clear Hfst0. subst k0. exists v. split; [reflexivity|]. split.
    + (* the value *)
      exists first, rest. split; [|exact Hfold].
      rewrite <- vals_concat.
      assert (Hgt : forall x, In x (remaining it') -> bcmp k (fst x) = Lt).
      { intros x Hx. apply (Permutation_in _ Hrem') in Hx. apply filter_In in Hx. destruct Hx as [_ Hx].
        unfold blt in Hx. destruct (bcmp k (fst x)); try discriminate. reflexivity. }
      eapply Permutation_trans; [|apply vals_perm, Hall].
      assert (Hvf : vals k (filter (fun e => P (fst e)) (allof it)) = vals k (allof it)).
      { unfold vals. f_equal. apply filter_filter_in. intros x _ Hx. unfold beq in Hx.
        destruct (bcmp (fst x) k) eqn:E; try discriminate. apply bcmp_eq in E. rewrite E. exact HPk. }
      rewrite <- Hvf. eapply Permutation_trans; [|apply vals_perm, HP]. eapply Permutation_trans; [|apply vals_perm, Hperm].
      change ((k, first) :: map (pair k) rest ++ remaining it') with (map (pair k) (first :: rest) ++ remaining it').
      rewrite vals_app, vals_same, (vals_none k _ Hgt), app_nil_r. reflexivity.
    + split; [exact Hs'|]. split; [rewrite Hall'; exact Hall|]. exists (fun x => blt k x). rewrite Hall'. split; [exact Hrem'|].
      intros x Hx. exact (ksorted_after K p k (all_keys_sorted srcs) En x Hx).
  - exfalso. destruct Hstep as [(Hnil & _)|(k & first & rest & v0 & others & _ & _ & Hfail)].
    + rewrite Hnil in He0rem. exact He0rem.
    + exact (fold_merge_total mf k (mf_total k) _ _ Hfail).
Qed.

Lemma R_seek it pos k : R it pos -> R (merger_seek None it k) (Some (kfirst_ge_from K k 0)).
Proof.
  intros (Hs & Hall & _). destruct (merger_seek_spec it k Hs) as (Hs' & _ & Hrem & Hall' & _).
  split; [exact Hs'|]. split; [rewrite Hall'; exact Hall|]. exists (fun x => negb (blt x k)). split; [exact Hrem|].
  intros x Hx. exact (ksorted_from_ge K k (all_keys_sorted srcs) x Hx).
Qed.

Lemma R_run : forall ops it pos, R it pos ->
  map (option_map fst) (mrun (Some mf) it ops) = krun K pos ops /\
  forall k v, In (Some (k, v)) (mrun (Some mf) it ops) -> merged_value_ok mf srcs k v.
Proof.
  induction ops as [|[|k] ops IH]; intros it pos HR; [split; [reflexivity|intros k v []]| |].
  - cbn [mrun krun]. pose proof (R_next it pos HR) as Hn. destruct (merger_next (Some mf) None it) as [it' r].
    destruct pos as [p|].
    + destruct (nth_error K p) as [k0|].
      * destruct Hn as (v & -> & Hv & HR'). destruct (IH it' _ HR') as [IH1 IH2]. split.
        -- cbn [map option_map fst]. rewrite IH1. reflexivity.
        -- intros k' v' [E|Hin]; [inversion E; subst; exact Hv|apply IH2, Hin].
      * destruct Hn as (-> & HR'). destruct (IH it' _ HR') as [IH1 IH2]. split.
        -- cbn [map option_map]. rewrite IH1. reflexivity.
        -- intros k' v' [E|Hin]; [discriminate|apply IH2, Hin].
    + destruct Hn as (-> & HR'). destruct (IH it' _ HR') as [IH1 IH2]. split.
      * cbn [map option_map]. rewrite IH1. reflexivity.
      * intros k' v' [E|Hin]; [discriminate|apply IH2, Hin].
  - cbn [mrun krun]. destruct (IH _ _ (R_seek it pos k HR)) as [IH1 IH2]. split.
    + cbn [map option_map]. rewrite IH1. reflexivity.
    + intros k' v' [E|Hin]; [discriminate|apply IH2, Hin].
Qed.

Hypothesis srcs_sorted : Forall ssorted srcs.

Lemma R_init : exists it, merger_iter_make None (map (fun es => mksc es 0 true BAll false) srcs) false = Some it /\ R it (Some 0).
Proof.
  assert (Hfresh : Forall fresh (map (fun es => mksc es 0 true BAll false) srcs)).
  { apply Forall_forall. intros s Hin. apply in_map_iff in Hin. destruct Hin as (es & <- & Hes).
    rewrite Forall_forall in srcs_sorted. unfold fresh. cbn. repeat split; try reflexivity. apply srcs_sorted, Hes. }
  destruct (merger_iter_make_sinv _ Hfresh) as (it & Hmk & Hs & Hrem & Hall & _).
  rewrite map_map in Hall. cbn [sc_es] in Hall. rewrite map_id in Hall.
  exists it. split; [exact Hmk|]. split; [exact Hs|]. split; [rewrite Hall; reflexivity|].
  exists (fun _ => true). split; [rewrite filter_true_all by (intros; reflexivity); exact Hrem|].
  intros x Hx. cbn [skipn]. split; [intros _; exact Hx|reflexivity].
Qed.
End History.

(* Tier 2: keys of every history *)
Theorem merger_history_keys mf srcs ops : Forall ssorted srcs -> (forall k a b, mf k a b <> None) ->
  exists it, merger_iter_make None (map (fun es => mksc es 0 true BAll false) srcs) false = Some it /\
    map (option_map fst) (mrun (Some mf) it ops) = krun (all_keys srcs) (Some 0) ops.
Proof.
  intros Hs Ht. destruct (R_init srcs Hs) as (it & Hmk & HR). exists it. split; [exact Hmk|].
  exact (proj1 (R_run mf Ht srcs ops it _ HR)).
Qed.

(* Tier 3: keys and values of every history *)
Theorem merger_history mf srcs ops : Forall ssorted srcs -> (forall k a b, mf k a b <> None) ->
  exists it, merger_iter_make None (map (fun es => mksc es 0 true BAll false) srcs) false = Some it /\
    map (option_map fst) (mrun (Some mf) it ops) = krun (all_keys srcs) (Some 0) ops /\
    forall k v, In (Some (k, v)) (mrun (Some mf) it ops) -> merged_value_ok mf srcs k v.
Proof.
  intros Hs Ht. destruct (R_init srcs Hs) as (it & Hmk & HR). exists it. split; [exact Hmk|].
  exact (R_run mf Ht srcs ops it _ HR).
Qed.

(* the statement of props/Properties_C05.v (C05_statement) with its side conditions made explicit:
   [content] holds exactly the keys of the merged content, in order *)
Theorem C05_refinement mf (srcs : list (list entry)) (content : list entry) ops :
  Forall ssorted srcs -> (forall k a b, mf k a b <> None) -> map fst content = all_keys srcs ->
  match merger_iter_make None (map (fun es => mksc es 0 true BAll false) srcs) false with
  | Some it => map (option_map fst) (mrun (Some mf) it ops) = map (option_map fst) (srun content (Some 0%nat) ops)
  | None => False
  end.
Proof.
  intros Hs Ht Hc. destruct (merger_history_keys mf srcs ops Hs Ht) as (it & -> & Hk).
  rewrite srun_krun, Hc. exact Hk.
Qed.

Print Assumptions merger_history_keys.
Print Assumptions merger_history.
Print Assumptions C05_refinement.
