(* General lemmas for the thread-pool LTS (model/Pool.v): upd_nth / nth, obj_eqb,
   owner_of / set_owner, state accessors after the elementary state updates. *)
From Coq Require Import NArith List Lia ZifyBool ZifyN ZifyNat Bool Arith.
From Mtbl Require Import model.Bytes model.Pool.
Import ListNotations.

(* ---------- upd_nth ---------- *)
Lemma upd_nth_length {A} (l : list A) i x : length (upd_nth l i x) = length l.
Proof.
  unfold upd_nth. revert i. induction l as [|a l IH]; intros [|i]; cbn; try reflexivity.
  specialize (IH i). cbn in IH. rewrite IH. reflexivity.
Qed.

Lemma nth_upd_nth_same {A} (l : list A) i x d : (i < length l)%nat -> nth i (upd_nth l i x) d = x.
Proof.
  unfold upd_nth. revert i. induction l as [|a l IH]; intros [|i] H; cbn in *; try lia; try reflexivity.
  apply IH. lia.
Qed.

Lemma nth_upd_nth_other {A} (l : list A) i k x d : k <> i -> nth k (upd_nth l i x) d = nth k l d.
Proof.
  unfold upd_nth. revert i k. induction l as [|a l IH]; intros i k H.
  - destruct i, k; reflexivity.
  - destruct i as [|i], k as [|k]; cbn; try reflexivity; try congruence.
    apply IH. congruence.
Qed.

Lemma upd_nth_oob {A} (l : list A) i x : (length l <= i)%nat -> upd_nth l i x = l.
Proof.
  unfold upd_nth. revert i. induction l as [|a l IH]; intros [|i] H; cbn in *; try lia; try reflexivity.
  f_equal. apply IH. lia.
Qed.

Lemma nth_upd_nth {A} (l : list A) i k x d :
  nth k (upd_nth l i x) d = if Nat.eqb k i && Nat.ltb i (length l) then x else nth k l d.
Proof.
  destruct (Nat.eqb_spec k i) as [->|Hne]; cbn [andb].
  - destruct (Nat.ltb_spec i (length l)).
    + apply nth_upd_nth_same; assumption.
    + rewrite upd_nth_oob by assumption. reflexivity.
  - apply nth_upd_nth_other; assumption.
Qed.

Lemma nth_app_last {A} (l : list A) x d : nth (length l) (l ++ [x]) d = x.
Proof. rewrite app_nth2 by lia. rewrite Nat.sub_diag. reflexivity. Qed.

Lemma nth_app_snoc {A} (l : list A) k x d :
  nth k (l ++ [x]) d = if Nat.ltb k (length l) then nth k l d else if Nat.eqb k (length l) then x else d.
Proof.
  destruct (Nat.ltb_spec k (length l)).
  - apply app_nth1; assumption.
  - destruct (Nat.eqb_spec k (length l)) as [->|].
    + apply nth_app_last.
    + rewrite app_nth2 by lia. destruct (k - length l)%nat eqn:E; [lia|]. destruct n0; reflexivity.
Qed.

(* ---------- obj_eqb ---------- *)
Lemma obj_eqb_spec a b : reflect (a = b) (obj_eqb a b).
Proof.
  destruct a, b; cbn; try (constructor; congruence);
    match goal with |- reflect _ (Nat.eqb ?x ?y) => destruct (Nat.eqb_spec x y); constructor; congruence end.
Qed.
Lemma obj_eqb_refl a : obj_eqb a a = true.
Proof. destruct (obj_eqb_spec a a); congruence. Qed.
Lemma obj_eqb_neq a b : a <> b -> obj_eqb a b = false.
Proof. destruct (obj_eqb_spec a b); congruence. Qed.

(* ---------- owner_of / set_owner ---------- *)
Definition owner_in (l : list (obj * nat)) (m : obj) : option nat :=
  match find (fun p => obj_eqb (fst p) m) l with Some p => Some (snd p) | None => None end.
Lemma owner_of_eq st m : owner_of st m = owner_in (ps_owner st) m.
Proof. reflexivity. Qed.

Lemma owner_in_filter_same l m : owner_in (filter (fun p => negb (obj_eqb (fst p) m)) l) m = None.
Proof.
  unfold owner_in. induction l as [|[a u] l IH]; cbn; [reflexivity|].
  destruct (obj_eqb_spec a m); cbn; [exact IH|].
  destruct (obj_eqb_spec a m); [contradiction|exact IH].
Qed.
Lemma owner_in_filter_other l m m' : m' <> m ->
  owner_in (filter (fun p => negb (obj_eqb (fst p) m)) l) m' = owner_in l m'.
Proof.
  intros Hne. unfold owner_in. induction l as [|[a u] l IH]; cbn; [reflexivity|].
  destruct (obj_eqb_spec a m) as [->|Ha]; cbn.
  - rewrite (obj_eqb_neq m m') by congruence. exact IH.
  - destruct (obj_eqb_spec a m'); [reflexivity|exact IH].
Qed.

Lemma owner_of_set_owner st m o m' :
  owner_of (set_owner st m o) m' = if obj_eqb m m' then o else owner_of st m'.
Proof.
  rewrite !owner_of_eq. unfold set_owner. cbn [ps_owner].
  destruct (obj_eqb_spec m m') as [<-|Hne].
  - destruct o as [u|].
    + unfold owner_in. cbn. rewrite obj_eqb_refl. reflexivity.
    + apply owner_in_filter_same.
  - destruct o as [u|].
    + unfold owner_in at 1. cbn [find fst]. rewrite (obj_eqb_neq m m') by assumption.
      fold (owner_in (filter (fun p => negb (obj_eqb (fst p) m)) (ps_owner st)) m').
      apply owner_in_filter_other. congruence.
    + apply owner_in_filter_other. congruence.
Qed.

Lemma map_fst_filter_notin l m : ~ In m (map fst (filter (fun p : obj * nat => negb (obj_eqb (fst p) m)) l)).
Proof.
  intros H. apply in_map_iff in H. destruct H as [[a u] [E H]]. apply filter_In in H. cbn in *. subst.
  rewrite obj_eqb_refl in H. destruct H; discriminate.
Qed.
Lemma NoDup_map_fst_filter (l : list (obj * nat)) f : NoDup (map fst l) -> NoDup (map fst (filter f l)).
Proof.
  induction l as [|[a u] l IH]; cbn; intros H; [constructor|].
  inversion H; subst. destruct (f (a, u)); cbn; [constructor|]; auto.
  intros Hin. apply H2. apply in_map_iff in Hin. destruct Hin as [p [E Hp]]. apply filter_In in Hp.
  apply in_map_iff. exists p. tauto.
Qed.
Lemma set_owner_nodup st m o : NoDup (map fst (ps_owner st)) -> NoDup (map fst (ps_owner (set_owner st m o))).
Proof.
  intros H. unfold set_owner. cbn [ps_owner]. destruct o; cbn [map fst].
  - constructor; [apply map_fst_filter_notin|apply NoDup_map_fst_filter; assumption].
  - apply NoDup_map_fst_filter; assumption.
Qed.
