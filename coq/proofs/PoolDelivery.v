(* Tier 3: delivery.  Every job id lives in exactly one place (a worker's job / result
   slot, the stash of a handler thread, the delivered log), and for an ordered handler the
   jobs "in the pipe" (delivered, stashed, popped, queued, being queued by the caller) are
   in increasing order.  Gives T13b_statement. *)
From Coq Require Import NArith List Lia ZifyBool ZifyN ZifyNat Bool Arith Sorting.Sorted.
From Mtbl Require Import model.Bytes model.Pool proofs.PoolBase proofs.PoolSched proofs.PoolInv proofs.PoolLife proofs.PoolStep2 proofs.PoolAbort.
Import ListNotations.

Definition jobs (w : worker) : list N :=
  (if wk_hasjob w then [wk_job w] else []) ++ match wk_res w with Some r => [r] | None => [] end.
Definition cntN (l : list N) (n : N) : nat := count_occ N.eq_dec l n.
Definition jcount (st : pstate) (stash : list (nat * N)) (n : N) : nat :=
  (sumf (fun w => cntN (jobs w) n) (ps_workers st) + cntN (map snd stash) n + cntN (map snd (ps_delivered st)) n)%nat.

Definition lab_handler (l : label) : option nat :=
  match l with H0 j | H1 j | H3 j _ | H4 j _ | H6 j _ | H7 j _ | H7s j _ | H8 j _ => Some j | _ => None end.
Definition lab_stash (l : label) : option nat :=
  match l with H6 j _ | H7 j _ | H7s j _ | H8 j _ => Some j | _ => None end.
Definition lab_popped (l : label) : option (nat * nat) :=
  match l with H3 j (Some i) | H4 j i => Some (j, i) | _ => None end.
Definition lab_pending (l : label) : option (nat * nat) :=
  match l with D5s q i | D6 q i | D7 q i => Some (q, i) | _ => None end.
Definition lab_w4u (l : label) : option (nat * nat) :=
  match l with W4u i q => Some (i, q) | _ => None end.

Definition stash_of (stash : list (nat * N)) (x : nat) : list N :=
  map snd (filter (fun p => Nat.eqb (fst p) x) stash).
(* what the handler thread x of queue j carries *)
Definition carry (st : pstate) (stash : list (nat * N)) (j x : nat) : list N :=
  match lab_popped (t_lab (gett st x)), lab_stash (t_lab (gett st x)) with
  | Some (j0, i), _ => if Nat.eqb j0 j then jobs (getw st i) else []
  | None, Some j0 => if Nat.eqb j0 j then stash_of stash x else []
  | None, None => []
  end.
Definition pend_jobs (st : pstate) (j : nat) : list N :=
  match lab_pending (t_lab (gett st 0)) with
  | Some (q, i) => if Nat.eqb q j then jobs (getw st i) else []
  | None => []
  end.
Definition delivered_of (st : pstate) (j : nat) : list N :=
  map snd (filter (fun p => Nat.eqb (fst p) j) (ps_delivered st)).
Definition listed_jobs (st : pstate) (j : nat) : list N :=
  flat_map (fun i => jobs (getw st i)) (q_list (getq st j)).
Definition pipeline (st : pstate) (stash : list (nat * N)) (j : nat) : list N :=
  delivered_of st j ++ carry st stash j (q_tid (getq st j)) ++ listed_jobs st j ++ pend_jobs st j.

Definition sorted (l : list N) : Prop := StronglySorted N.lt l.

Record Inv3 (st : pstate) (stash : list (nat * N)) : Prop := {
  k_handler : forall x j, lab_handler (t_lab (gett st x)) = Some j ->
     (j < length (ps_queues st))%nat /\ q_tid (getq st j) = x;
  k_keys : NoDup (map fst stash);
  k_stashlab : forall x r, In (x, r) stash -> lab_stash (t_lab (gett st x)) <> None;
  k_count : forall n, (jcount st stash n <= 1)%nat /\ ((ps_njobs st <= n)%N -> jcount st stash n = 0%nat);
  k_order : forall j, (j < length (ps_queues st))%nat -> q_ordered (getq st j) = true -> sorted (pipeline st stash j);
  k_deliv : forall j r, In (j, r) (ps_delivered st) -> (j < length (ps_queues st))%nat;
  k_rq : forall i q, wk_rq (getw st i) = Some q -> q_ordered (getq st q) = false;
  k_w4u : forall x i q, t_lab (gett st x) = W4u i q -> q_ordered (getq st q) = false;
}.

(* ---------- frame: Inv3 only reads this much of the state ---------- *)
Record frame3 (st st' : pstate) : Prop := {
  f_handler : forall x j, lab_handler (t_lab (gett st' x)) = Some j -> lab_handler (t_lab (gett st x)) = Some j;
  f_popped : forall x, lab_popped (t_lab (gett st' x)) = lab_popped (t_lab (gett st x));
  f_stash : forall x, lab_stash (t_lab (gett st' x)) = lab_stash (t_lab (gett st x));
  f_pending : forall x, lab_pending (t_lab (gett st' x)) = lab_pending (t_lab (gett st x));
  f_w4u' : forall x i q, t_lab (gett st' x) = W4u i q -> t_lab (gett st x) = W4u i q \/ q_ordered (getq st q) = false;
  f_jobs : forall i, jobs (getw st' i) = jobs (getw st i);
  f_rq : forall i q, wk_rq (getw st' i) = Some q -> wk_rq (getw st i) = Some q;
  f_qlist : forall q, q_list (getq st' q) = q_list (getq st q);
  f_qtid : forall q, q_tid (getq st' q) = q_tid (getq st q);
  f_qord : forall q, q_ordered (getq st' q) = q_ordered (getq st q);
  f_nq : length (ps_queues st') = length (ps_queues st);
  f_njobs : ps_njobs st' = ps_njobs st;
  f_deliv : ps_delivered st' = ps_delivered st;
  f_sum : forall n, sumf (fun w => cntN (jobs w) n) (ps_workers st') = sumf (fun w => cntN (jobs w) n) (ps_workers st);
}.

Lemma frame3_pipeline st st' stash j : frame3 st st' -> pipeline st' stash j = pipeline st stash j.
Proof.
  intros F. unfold pipeline, delivered_of, carry, listed_jobs, pend_jobs.
  rewrite (f_deliv _ _ F), (f_qtid _ _ F), (f_qlist _ _ F), (f_popped _ _ F), (f_stash _ _ F), (f_pending _ _ F).
  f_equal. f_equal.
  - destruct (lab_popped _) as [[j0 i]|]; [rewrite (f_jobs _ _ F); reflexivity|reflexivity].
  - f_equal.
    + apply flat_map_ext. intros i. apply (f_jobs _ _ F).
    + destruct (lab_pending _) as [[q i]|]; [rewrite (f_jobs _ _ F); reflexivity|reflexivity].
Qed.

Lemma inv3_frame st st' stash : frame3 st st' -> Inv3 st stash -> Inv3 st' stash.
Proof.
  intros F K. constructor.
  - intros x j H. rewrite (f_nq _ _ F), (f_qtid _ _ F). apply (k_handler _ _ K). apply (f_handler _ _ F). exact H.
  - apply (k_keys _ _ K).
  - intros x r H. rewrite (f_stash _ _ F). apply (k_stashlab _ _ K x r H).
  - intros n. unfold jcount. rewrite (f_sum _ _ F), (f_deliv _ _ F), (f_njobs _ _ F). apply (k_count _ _ K).
  - intros j. rewrite (f_nq _ _ F), (f_qord _ _ F), (frame3_pipeline _ _ _ _ F). apply (k_order _ _ K).
  - intros j r. rewrite (f_nq _ _ F), (f_deliv _ _ F). apply (k_deliv _ _ K).
  - intros i q H. rewrite (f_qord _ _ F). apply (k_rq _ _ K i). apply (f_rq _ _ F). exact H.
  - intros x i q H. rewrite (f_qord _ _ F). destruct (f_w4u' _ _ F x i q H) as [H1|H1]; [apply (k_w4u _ _ K x i); exact H1|exact H1].
Qed.

Lemma frame3_of_view st st' : same_view st st' -> ps_njobs st' = ps_njobs st -> ps_delivered st' = ps_delivered st -> frame3 st st'.
Proof.
  intros V En Ed. constructor; try assumption.
  - intros x j. rewrite (sv_lab _ _ x V). auto.
  - intros x. rewrite (sv_lab _ _ x V). reflexivity.
  - intros x. rewrite (sv_lab _ _ x V). reflexivity.
  - intros x. rewrite (sv_lab _ _ x V). reflexivity.
  - intros x i q. rewrite (sv_lab _ _ x V). auto.
  - intros i. rewrite (sv_getw _ _ i V). reflexivity.
  - intros i q. rewrite (sv_getw _ _ i V). auto.
  - intros q. rewrite (sv_getq _ _ q V). reflexivity.
  - intros q. rewrite (sv_getq _ _ q V). reflexivity.
  - intros q. rewrite (sv_getq _ _ q V). reflexivity.
  - rewrite (sv_queues _ _ V). reflexivity.
  - intros n. rewrite (sv_workers _ _ V). reflexivity.
Qed.

(* ---------- steps that do not touch jobs, queues' lists, the stash, the log ---------- *)
Definition nonspecial (s : pstate) (l : label) : bool :=
  match l with
  | D5 _ _ | D7 _ _ | W4u _ _ | H8 _ _ | LDone => false
  | H1 j => match q_list (getq s j) with [] => true | _ => false end
  | H4 _ i => wk_running (getw s i)
  | W3 i => negb (wk_hasjob (getw s i))
  | CNext | D8 | F3 | P6 => match ps_prog s with NewHandler _ :: _ => false | _ => true end
  | _ => true
  end.

Lemma continue_workers3 s t l : nonspecial s l = true ->
  let s' := fst (continue s t l) in
  ps_workers s' = ps_workers s \/
  (exists i0 w', ps_workers s' = upd_nth (ps_workers s) i0 w' /\ jobs w' = jobs (getw s i0) /\ wk_rq w' = wk_rq (getw s i0)) \/
  (exists w0, ps_workers s' = ps_workers s ++ [w0] /\ jobs w0 = [] /\ wk_rq w0 = None).
Proof.
  destruct l; cbn [nonspecial continue]; try discriminate; intros NS; cbn zeta;
    try (unfold caller_next; destruct (ps_prog s) as [|[]]; try discriminate; left; reflexivity);
    repeat break_match_goal; try discriminate;
    try (left; reflexivity);
    try (right; left; eexists; eexists; split; [reflexivity|split; reflexivity]);
    try (right; right; eexists; split; [reflexivity|split; reflexivity]).
Qed.

Lemma continue_queues3 s t l : nonspecial s l = true ->
  let s' := fst (continue s t l) in
  ps_queues s' = ps_queues s \/
  (exists q0 qq', ps_queues s' = upd_nth (ps_queues s) q0 qq' /\ q_list qq' = q_list (getq s q0) /\
                  q_tid qq' = q_tid (getq s q0) /\ q_ordered qq' = q_ordered (getq s q0)).
Proof.
  destruct l; cbn [nonspecial continue]; try discriminate; intros NS; cbn zeta;
    try (unfold caller_next; destruct (ps_prog s) as [|[]]; try discriminate; left; reflexivity);
    repeat break_match_goal; try discriminate;
    try (left; reflexivity);
    try (right; eexists; eexists; split; [reflexivity|split; [reflexivity|split; reflexivity]]).
Qed.

Lemma continue_scalars3 s t l : nonspecial s l = true ->
  let s' := fst (continue s t l) in ps_njobs s' = ps_njobs s /\ ps_delivered s' = ps_delivered s.
Proof.
  destruct l; cbn [nonspecial continue]; try discriminate; intros NS; cbn zeta;
    try (unfold caller_next; destruct (ps_prog s) as [|[]]; try discriminate; split; reflexivity);
    repeat break_match_goal; try discriminate; split; reflexivity.
Qed.

Lemma continue_threads3 s t l : nonspecial s l = true ->
  let s' := fst (continue s t l) in
  ps_threads s' = ps_threads s \/ (exists i, ps_threads s' = ps_threads s ++ [pend KStart ONone (W0 i)]).
Proof.
  destruct l; cbn [nonspecial continue]; try discriminate; intros NS; cbn zeta;
    try (unfold caller_next; destruct (ps_prog s) as [|[]]; try discriminate; left; reflexivity);
    repeat break_match_goal; try discriminate;
    try (left; reflexivity); right; eexists; reflexivity.
Qed.

Lemma continue_label3 s t l : nonspecial s l = true ->
  let l' := t_lab (snd (continue s t l)) in
  (forall j, lab_handler l' = Some j -> lab_handler l = Some j) /\
  lab_popped l' = lab_popped l /\ lab_stash l' = lab_stash l /\ lab_pending l' = lab_pending l /\
  (forall i q, l' <> W4u i q).
Proof.
  destruct l; cbn [nonspecial continue]; try discriminate; intros NS; cbn zeta;
    try (unfold caller_next; destruct (ps_prog s) as [|[]]; try discriminate);
    repeat break_match_goal; try discriminate;
    cbn [snd t_lab pend lab_handler lab_popped lab_stash lab_pending];
    (split; [intros ? H; first [exact H|discriminate H]|]); repeat split; try reflexivity; try (intros; discriminate).
Qed.

Lemma after_frame3 s t l : (t < length (ps_threads s))%nat -> t_lab (gett s t) = l -> nonspecial s l = true ->
  frame3 s (after s t l).
Proof.
  intros Ht Hl NS. unfold after.
  pose proof (continue_workers3 s t l NS) as HW. pose proof (continue_queues3 s t l NS) as HQ.
  pose proof (continue_scalars3 s t l NS) as [HN HD]. pose proof (continue_threads3 s t l NS) as HT.
  pose proof (continue_label3 s t l NS) as (L1 & L2 & L3 & L4 & L5). cbn zeta in *.
  set (s' := fst (continue s t l)) in *. set (th' := snd (continue s t l)) in *.
  (* labels *)
  assert (GL : forall x, (x = t /\ t_lab (gett (set_thread s' t th') x) = t_lab th') \/
                         (x <> t /\ t_lab (gett (set_thread s' t th') x) = t_lab (gett s x)) \/
                         (x <> t /\ (exists i, t_lab (gett (set_thread s' t th') x) = W0 i) /\ t_lab (gett s x) = LDone)).
  { intros x. rewrite gett_set_thread. destruct (Nat.eqb_spec x t) as [->|Hne]; cbn [andb].
    - left. split; [reflexivity|]. destruct (Nat.ltb_spec t (length (ps_threads s'))); [reflexivity|].
      exfalso. destruct HT as [E|[i E]]; rewrite E in H; [|rewrite app_length in H]; lia.
    - right. unfold gett at 1 3. destruct HT as [E|[i E]]; rewrite E; [left; split; [exact Hne|reflexivity]|].
      rewrite nth_app_snoc. destruct (Nat.ltb_spec x (length (ps_threads s))); [left; split; [exact Hne|reflexivity]|].
      destruct (Nat.eqb_spec x (length (ps_threads s))).
      + right. split; [exact Hne|]. split; [exists i; reflexivity|]. fold (gett s x). rewrite gett_oob by lia. reflexivity.
      + left. split; [exact Hne|]. fold (gett s x). rewrite gett_oob by lia. reflexivity. }
  assert (GW : forall i, getw (set_thread s' t th') i = getw s' i) by reflexivity.
  assert (GQ : forall q, getq (set_thread s' t th') q = getq s' q) by reflexivity.
  assert (JW : (forall i, jobs (getw s' i) = jobs (getw s i)) /\
               (forall i q, wk_rq (getw s' i) = Some q -> wk_rq (getw s i) = Some q) /\
               (forall n, sumf (fun w => cntN (jobs w) n) (ps_workers s') = sumf (fun w => cntN (jobs w) n) (ps_workers s))).
  { destruct HW as [E|[(i0 & w' & E & E1 & E2)|(w0 & E & E1 & E2)]].
    - unfold getw. rewrite E. repeat split; auto.
    - destruct (Nat.lt_ge_cases i0 (length (ps_workers s))) as [Hi|Hi].
      + assert (G : forall i, getw s' i = if Nat.eqb i i0 then w' else getw s i) by (intros; apply getw_upd; assumption).
        repeat split.
        * intros i. rewrite G. destruct (Nat.eqb_spec i i0) as [->|]; [exact E1|reflexivity].
        * intros i q. rewrite G. destruct (Nat.eqb_spec i i0) as [->|]; [rewrite E2; auto|auto].
        * intros n. rewrite E.
          pose proof (sumf_upd_nth (fun w => cntN (jobs w) n) (ps_workers s) i0 w' dummy_w Hi) as S.
          cbv beta in S. fold (getw s i0) in S. rewrite E1 in S. lia.
      + rewrite upd_nth_oob in E by exact Hi. unfold getw. rewrite E. repeat split; auto.
    - repeat split.
      + intros i. rewrite (getw_app s s' w0 i E). destruct (Nat.ltb_spec i (length (ps_workers s))); [reflexivity|].
        rewrite (getw_oob s i) by lia. destruct (Nat.eqb i (length (ps_workers s))); [exact E1|reflexivity].
      + intros i q. rewrite (getw_app s s' w0 i E). destruct (Nat.ltb_spec i (length (ps_workers s))); [auto|].
        destruct (Nat.eqb i (length (ps_workers s))); [rewrite E2; discriminate|discriminate].
      + intros n. rewrite E, sumf_app, sumf_cons, sumf_nil, E1. cbn. lia. }
  destruct JW as (J1 & J2 & J3).
  assert (JQ : (forall q, q_list (getq s' q) = q_list (getq s q) /\ q_tid (getq s' q) = q_tid (getq s q) /\
                          q_ordered (getq s' q) = q_ordered (getq s q)) /\ length (ps_queues s') = length (ps_queues s)).
  { destruct HQ as [E|(q0 & qq' & E & E1 & E2 & E3)].
    - unfold getq. rewrite E. split; [intros; repeat split|reflexivity].
    - split; [|rewrite E; apply upd_nth_length].
      intros q. destruct (Nat.lt_ge_cases q0 (length (ps_queues s))) as [Hi|Hi].
      + rewrite (getq_upd s s' q0 qq' q E Hi). destruct (Nat.eqb_spec q q0) as [->|]; [auto|repeat split].
      + rewrite upd_nth_oob in E by exact Hi. unfold getq. rewrite E. repeat split. }
  destruct JQ as (Q1 & Q2).
  constructor.
  - intros x j. destruct (GL x) as [[-> E]|[[Hne E]|(Hne & [i E] & E')]]; rewrite E.
    + rewrite Hl. apply L1.
    + auto.
    + discriminate.
  - intros x. destruct (GL x) as [[-> E]|[[Hne E]|(Hne & [i E] & E')]]; rewrite E; [rewrite Hl; exact L2|reflexivity|rewrite E'; reflexivity].
  - intros x. destruct (GL x) as [[-> E]|[[Hne E]|(Hne & [i E] & E')]]; rewrite E; [rewrite Hl; exact L3|reflexivity|rewrite E'; reflexivity].
  - intros x. destruct (GL x) as [[-> E]|[[Hne E]|(Hne & [i E] & E')]]; rewrite E; [rewrite Hl; exact L4|reflexivity|rewrite E'; reflexivity].
  - intros x i q. destruct (GL x) as [[-> E]|[[Hne E]|(Hne & [i' E] & E')]]; rewrite E.
    + intros H. exfalso. exact (L5 i q H).
    + auto.
    + discriminate.
  - intros i. rewrite GW. apply J1.
  - intros i q. rewrite GW. apply J2.
  - intros q. rewrite GQ. apply Q1.
  - intros q. rewrite GQ. apply Q1.
  - intros q. rewrite GQ. apply Q1.
  - exact Q2.
  - exact HN.
  - exact HD.
  - exact J3.
Qed.

(* ---------- helpers for the steps that move jobs ---------- *)
Lemma cntN_in l n : In n l -> (1 <= cntN l n)%nat.
Proof. intros H. apply (count_occ_In N.eq_dec) in H. unfold cntN. lia. Qed.
Lemma cntN_app l1 l2 n : cntN (l1 ++ l2) n = (cntN l1 n + cntN l2 n)%nat.
Proof. unfold cntN. apply count_occ_app. Qed.
Lemma cntN_cons a l n : cntN (a :: l) n = (b2n (N.eqb a n) + cntN l n)%nat.
Proof.
  unfold cntN. cbn [count_occ]. destruct (N.eq_dec a n) as [->|Hne].
  - rewrite N.eqb_refl. reflexivity.
  - destruct (N.eqb_spec a n); [contradiction|reflexivity].
Qed.
Lemma cntN_nil n : cntN [] n = 0%nat.
Proof. reflexivity. Qed.

Lemma jobs_in_count st i n : In n (jobs (getw st i)) -> (1 <= sumf (fun w => cntN (jobs w) n) (ps_workers st))%nat.
Proof.
  intros H. destruct (Nat.lt_ge_cases i (length (ps_workers st))) as [Hi|Hi].
  - pose proof (sumf_nth_le (fun w => cntN (jobs w) n) (ps_workers st) i dummy_w Hi) as L. cbv beta in L.
    fold (getw st i) in L. pose proof (cntN_in _ _ H). lia.
  - rewrite (getw_oob _ _ Hi) in H. destruct H.
Qed.

Lemma stash_of_in stash x n : In n (stash_of stash x) -> In n (map snd stash).
Proof.
  unfold stash_of. intros H. apply in_map_iff in H. destruct H as (p & E & H). apply filter_In in H.
  apply in_map_iff. exists p. tauto.
Qed.

Lemma pipeline_count st stash j n : In n (pipeline st stash j) -> (1 <= jcount st stash n)%nat.
Proof.
  unfold pipeline, jcount. intros H. repeat (apply in_app_or in H; destruct H as [H|H]).
  - unfold delivered_of in H. apply in_map_iff in H. destruct H as (p & E & H). apply filter_In in H.
    assert (In n (map snd (ps_delivered st))) by (apply in_map_iff; exists p; tauto).
    pose proof (cntN_in _ _ H0). lia.
  - unfold carry in H. destruct (lab_popped _) as [[j0 i]|].
    + destruct (Nat.eqb j0 j); [|destruct H]. pose proof (jobs_in_count _ _ _ H). lia.
    + destruct (lab_stash _) as [j0|]; [|destruct H]. destruct (Nat.eqb j0 j); [|destruct H].
      pose proof (cntN_in _ _ (stash_of_in _ _ _ H)). lia.
  - unfold listed_jobs in H. apply in_flat_map in H. destruct H as (i & _ & H). pose proof (jobs_in_count _ _ _ H). lia.
  - unfold pend_jobs in H. destruct (lab_pending _) as [[q i]|]; [|destruct H].
    destruct (Nat.eqb q j); [|destruct H]. pose proof (jobs_in_count _ _ _ H). lia.
Qed.

Lemma pipeline_lt st stash j n : Inv3 st stash -> In n (pipeline st stash j) -> (n < ps_njobs st)%N.
Proof.
  intros K H. pose proof (pipeline_count _ _ _ _ H) as C. destruct (k_count _ _ K n) as [_ Z].
  destruct (N.lt_ge_cases n (ps_njobs st)) as [|Hge]; [assumption|]. specialize (Z Hge). lia.
Qed.

Lemma sorted_snoc l x : sorted l -> (forall y, In y l -> (y < x)%N) -> sorted (l ++ [x]).
Proof.
  unfold sorted. induction l as [|a l IH]; intros S H; cbn [app].
  - constructor; constructor.
  - inversion S; subst. constructor.
    + apply IH; [assumption|]. intros y Hy. apply H. right. exact Hy.
    + apply Forall_app. split; [assumption|]. constructor; [|constructor]. apply H. left. reflexivity.
Qed.

Lemma sorted_increasing l : sorted l -> increasing l.
Proof.
  unfold sorted. induction l as [|a l IH]; intros S; [exact Logic.I|].
  inversion S; subst. destruct l as [|b l]; [exact Logic.I|]. split.
  - inversion H2; subst. assumption.
  - apply IH. assumption.
Qed.

Lemma sorted_app_l l1 l2 : sorted (l1 ++ l2) -> sorted l1.
Proof.
  unfold sorted. induction l1 as [|a l1 IH]; intros S; [constructor|].
  cbn [app] in S. inversion S; subst. constructor; [apply IH; assumption|].
  apply Forall_app in H2. tauto.
Qed.

Lemma getw_jobs_ne st st' i w' k : ps_workers st' = upd_nth (ps_workers st) i w' -> (i < length (ps_workers st))%nat ->
  k <> i -> getw st' k = getw st k.
Proof. intros E H Hne. rewrite (getw_upd st st' i w' k E H). destruct (Nat.eqb_spec k i); [contradiction|reflexivity]. Qed.

Lemma lab_popped_ttok ord l j i : lab_popped l = Some (j, i) -> ttok ord l i = 1%nat.
Proof.
  destruct l; cbn [lab_popped ttok]; try discriminate; try (destruct w; try discriminate);
    intros H; inversion H; subst; rewrite Nat.eqb_refl; reflexivity.
Qed.

(* weaker frame: the pipelines are compared separately *)
Record frame3w (st st' : pstate) : Prop := {
  g_handler : forall x j, lab_handler (t_lab (gett st' x)) = Some j -> lab_handler (t_lab (gett st x)) = Some j;
  g_stash : forall x, lab_stash (t_lab (gett st' x)) = lab_stash (t_lab (gett st x));
  g_w4u : forall x i q, t_lab (gett st' x) = W4u i q -> t_lab (gett st x) = W4u i q \/ q_ordered (getq st q) = false;
  g_rq : forall i q, wk_rq (getw st' i) = Some q -> wk_rq (getw st i) = Some q;
  g_qtid : forall q, q_tid (getq st' q) = q_tid (getq st q);
  g_qord : forall q, q_ordered (getq st' q) = q_ordered (getq st q);
  g_nq : length (ps_queues st') = length (ps_queues st);
  g_njobs : ps_njobs st' = ps_njobs st;
  g_deliv : ps_delivered st' = ps_delivered st;
  g_sum : forall n, sumf (fun w => cntN (jobs w) n) (ps_workers st') = sumf (fun w => cntN (jobs w) n) (ps_workers st);
}.

Lemma inv3_framew st st' stash : frame3w st st' ->
  (forall j, (j < length (ps_queues st))%nat -> q_ordered (getq st j) = true -> pipeline st' stash j = pipeline st stash j) ->
  Inv3 st stash -> Inv3 st' stash.
Proof.
  intros F P K. constructor.
  - intros x j H. rewrite (g_nq _ _ F), (g_qtid _ _ F). apply (k_handler _ _ K). apply (g_handler _ _ F). exact H.
  - apply (k_keys _ _ K).
  - intros x r H. rewrite (g_stash _ _ F). apply (k_stashlab _ _ K x r H).
  - intros n. unfold jcount. rewrite (g_sum _ _ F), (g_deliv _ _ F), (g_njobs _ _ F). apply (k_count _ _ K).
  - intros j. rewrite (g_nq _ _ F), (g_qord _ _ F). intros Hj Ho. rewrite (P j Hj Ho). apply (k_order _ _ K j Hj Ho).
  - intros j r. rewrite (g_nq _ _ F), (g_deliv _ _ F). apply (k_deliv _ _ K).
  - intros i q H. rewrite (g_qord _ _ F). apply (k_rq _ _ K i). apply (g_rq _ _ F). exact H.
  - intros x i q H. rewrite (g_qord _ _ F). destruct (g_w4u _ _ F x i q H) as [H1|H1]; [apply (k_w4u _ _ K x i); exact H1|exact H1].
Qed.

Lemma flat_map_ext_in' {A B} (f g : A -> list B) l : (forall a, In a l -> f a = g a) -> flat_map f l = flat_map g l.
Proof.
  induction l as [|a l IH]; intros H; [reflexivity|]. cbn [flat_map]. rewrite (H a) by (left; reflexivity).
  rewrite IH; [reflexivity|]. intros b Hb. apply H. right. exact Hb.
Qed.

Lemma stash_of_none stash x : ~ In x (map fst stash) -> stash_of stash x = [].
Proof.
  unfold stash_of. induction stash as [|[a r] l IH]; cbn; intros H; [reflexivity|].
  destruct (Nat.eqb_spec a x); [exfalso; apply H; left; assumption|]. apply IH. tauto.
Qed.
Lemma stash_of_cons_same stash x r : stash_of ((x, r) :: stash) x = r :: stash_of stash x.
Proof. unfold stash_of. cbn. rewrite Nat.eqb_refl. reflexivity. Qed.
Lemma stash_of_cons_other stash x y r : y <> x -> stash_of ((y, r) :: stash) x = stash_of stash x.
Proof. unfold stash_of. cbn. intros H. destruct (Nat.eqb_spec y x); [contradiction|reflexivity]. Qed.

Definition drop_key (stash : list (nat * N)) (t : nat) : list (nat * N) := filter (fun p : nat * N => negb (Nat.eqb (fst p) t)) stash.

Lemma find_key_some (stash : list (nat * N)) t x r : NoDup (map fst stash) -> find (fun p : nat * N => Nat.eqb (fst p) t) stash = Some (x, r) ->
  x = t /\ In (t, r) stash /\ stash_of stash t = [r].
Proof.
  induction stash as [|[a b] l IH]; cbn [find map fst]; intros N H; [discriminate|].
  inversion N; subst. destruct (Nat.eqb_spec a t) as [->|Hne].
  - inversion H; subst. split; [reflexivity|]. split; [left; reflexivity|].
    rewrite stash_of_cons_same, (stash_of_none _ _ H2). reflexivity.
  - destruct (IH H3 H) as (E1 & E2 & E3). split; [exact E1|]. split; [right; exact E2|].
    rewrite stash_of_cons_other by exact Hne. exact E3.
Qed.
Lemma find_key_none (stash : list (nat * N)) t : find (fun p : nat * N => Nat.eqb (fst p) t) stash = None -> ~ In t (map fst stash).
Proof.
  induction stash as [|[a b] l IH]; cbn [find map fst]; intros H; [tauto|].
  destruct (Nat.eqb_spec a t); [discriminate|]. intros [E|E]; [contradiction|]. exact (IH H E).
Qed.
Lemma drop_key_in stash t p : In p (drop_key stash t) -> In p stash /\ fst p <> t.
Proof.
  unfold drop_key. intros H. apply filter_In in H. destruct H as [H1 H2]. split; [exact H1|].
  destruct (Nat.eqb_spec (fst p) t); [discriminate|assumption].
Qed.
Lemma drop_key_nodup stash t : NoDup (map fst stash) -> NoDup (map fst (drop_key stash t)).
Proof.
  unfold drop_key. induction stash as [|[a b] l IH]; cbn; intros N; [constructor|]. inversion N; subst.
  destruct (Nat.eqb a t); cbn; [apply IH; assumption|]. constructor; [|apply IH; assumption].
  intros H. apply H1. apply in_map_iff in H. destruct H as (p & E & H). apply filter_In in H.
  apply in_map_iff. exists p. tauto.
Qed.
Lemma stash_of_drop stash t x : stash_of (drop_key stash t) x = if Nat.eqb x t then [] else stash_of stash x.
Proof.
  unfold stash_of, drop_key. induction stash as [|[a b] l IH]; cbn; [destruct (Nat.eqb x t); reflexivity|].
  destruct (Nat.eqb_spec a t) as [->|Hne]; cbn.
  - rewrite IH. destruct (Nat.eqb_spec t x) as [<-|]; [rewrite Nat.eqb_refl; reflexivity|reflexivity].
  - destruct (Nat.eqb_spec a x) as [->|]; cbn; rewrite IH.
    + destruct (Nat.eqb_spec x t); [contradiction|reflexivity].
    + reflexivity.
Qed.
Lemma cnt_drop stash t n : (cntN (map snd (drop_key stash t)) n + cntN (stash_of stash t) n = cntN (map snd stash) n)%nat.
Proof.
  unfold stash_of, drop_key. induction stash as [|[a b] l IH]; cbn [filter map snd fst]; [reflexivity|].
  destruct (Nat.eqb a t); cbn [negb map snd]; rewrite ?cntN_cons; lia.
Qed.

Section Special.
Variable s : pstate.
Variable t : nat.
Variable stash : list (nat * N).
Hypothesis I2 : Inv2 s.
Hypothesis K : Inv3 s stash.
Hypothesis Ht : (t < length (ps_threads s))%nat.
Let Tt := i2_threads s I2 t.

(* D5: the caller hands job number ps_njobs to worker i *)
Lemma special_D5 q i : t_lab (gett s t) = D5 q i -> Inv3 (after s t (D5 q i)) stash.
Proof.
  intros Hlab.
  assert (Hf : free_w (getw s i) = true) by (apply (tk_free _ _ _ Tt); rewrite Hlab; reflexivity).
  destruct (free_fields _ Hf) as (F1 & F2 & F3 & F4).
  assert (Hone : ttok (ord_of s) (t_lab (gett s t)) i = 1%nat) by (rewrite Hlab; cbn; rewrite Nat.eqb_refl; reflexivity).
  destruct (sole_thread s t i I2 Hone) as (Hi & S1 & S2 & S3 & S4).
  assert (Ht0 : t = 0%nat) by (apply (tk_caller _ _ _ Tt); rewrite Hlab; reflexivity).
  unfold after. cbn [continue fst snd].
  set (w' := mkw (wk_tid (getw s i)) true true (ps_njobs s) (wk_res (getw s i)) (if q_ordered (getq s q) then None else Some q)).
  set (th' := pend KSignal (OWc i) (D5s q i)).
  match goal with |- Inv3 ?S _ => set (st' := S) end.
  assert (G : forall x, gett st' x = if Nat.eqb x t then th' else gett s x) by (intros; apply (gett_upd s st' t th' x eq_refl Ht)).
  assert (Gw : forall k, getw st' k = if Nat.eqb k i then w' else getw s k) by (intros; apply (getw_upd s st' i w' k eq_refl Hi)).
  assert (Gq : forall k, getq st' k = getq s k) by reflexivity.
  assert (Jw : jobs (getw s i) = []) by (unfold jobs; rewrite F2, F3; reflexivity).
  assert (Jw' : jobs w' = [ps_njobs s]) by (unfold jobs, w'; cbn; rewrite F3; reflexivity).
  assert (JC : forall n, jcount st' stash n = (jcount s stash n + b2n (N.eqb (ps_njobs s) n))%nat).
  { intros n. unfold jcount. change (ps_delivered st') with (ps_delivered s).
    change (ps_workers st') with (upd_nth (ps_workers s) i w').
    pose proof (sumf_upd_nth (fun w => cntN (jobs w) n) (ps_workers s) i w' dummy_w Hi) as E. cbv beta in E.
    fold (getw s i) in E. rewrite Jw, Jw', cntN_cons, !cntN_nil in E. lia. }
  assert (Lx : forall x, x <> t -> t_lab (gett st' x) = t_lab (gett s x)).
  { intros x Hne. rewrite G. destruct (Nat.eqb_spec x t); [contradiction|reflexivity]. }
  assert (Lt : t_lab (gett st' t) = D5s q i) by (rewrite G, Nat.eqb_refl; reflexivity).
  constructor.
  - intros x j. change (length (ps_queues st')) with (length (ps_queues s)). rewrite Gq.
    destruct (Nat.eq_dec x t) as [->|Hne]; [rewrite Lt; discriminate|rewrite (Lx x Hne); apply (k_handler _ _ K)].
  - apply (k_keys _ _ K).
  - intros x r H. pose proof (k_stashlab _ _ K x r H) as H1.
    destruct (Nat.eq_dec x t) as [->|Hne]; [rewrite Hlab in H1; exfalso; apply H1; reflexivity|rewrite (Lx x Hne); exact H1].
  - intros n. rewrite JC. change (ps_njobs st') with (ps_njobs s + 1)%N. destruct (k_count _ _ K n) as [C1 C2].
    destruct (N.eqb_spec (ps_njobs s) n) as [<-|Hne]; cbn [b2n].
    + rewrite (C2 (N.le_refl _)). split; [lia|intros; lia].
    + split; [lia|]. intros H. rewrite C2 by lia. reflexivity.
  - intros j Hj Ho. change (q_ordered (getq s j) = true) in Ho.
    assert (E : pipeline st' stash j = pipeline s stash j ++ (if Nat.eqb q j then [ps_njobs s] else [])).
    { assert (EC : carry st' stash j (q_tid (getq st' j)) = carry s stash j (q_tid (getq s j))).
      { unfold carry. rewrite Gq. set (x := q_tid (getq s j)).
        destruct (Nat.eq_dec x t) as [->|Hne]; [rewrite Lt, Hlab; reflexivity|]. rewrite (Lx x Hne).
        destruct (lab_popped (t_lab (gett s x))) as [[j0 i0]|] eqn:Ep; [|reflexivity].
        rewrite Gw. destruct (Nat.eqb_spec i0 i) as [->|]; [|reflexivity].
        pose proof (lab_popped_ttok (ord_of s) _ _ _ Ep) as E1. rewrite (S2 x Hne) in E1. discriminate. }
      assert (EL : listed_jobs st' j = listed_jobs s j).
      { unfold listed_jobs. rewrite Gq. apply flat_map_ext_in'. intros k Hk. rewrite Gw.
        destruct (Nat.eqb_spec k i) as [->|]; [|reflexivity]. exfalso. exact (S3 j Hk). }
      assert (EP : pend_jobs st' j = if Nat.eqb q j then [ps_njobs s] else []).
      { unfold pend_jobs. rewrite <- Ht0, Lt. cbn [lab_pending]. rewrite Gw, Nat.eqb_refl, Jw'. reflexivity. }
      assert (EP0 : pend_jobs s j = []) by (unfold pend_jobs; rewrite <- Ht0, Hlab; reflexivity).
      unfold pipeline. rewrite EC, EL, EP, EP0, app_nil_r, <- !app_assoc. reflexivity. }
    rewrite E. destruct (Nat.eqb q j); [|rewrite app_nil_r; apply (k_order _ _ K j Hj Ho)].
    apply sorted_snoc; [apply (k_order _ _ K j Hj Ho)|]. intros y Hy. apply (pipeline_lt s stash j y K Hy).
  - apply (k_deliv _ _ K).
  - intros k q'. rewrite Gw, Gq. destruct (Nat.eqb_spec k i) as [->|]; [|apply (k_rq _ _ K)].
    unfold w'. cbn [wk_rq]. destruct (q_ordered (getq s q)) eqn:Eo; [discriminate|]. intros H. inversion H; subst. exact Eo.
  - intros x i' q'. rewrite Gq. destruct (Nat.eq_dec x t) as [->|Hne]; [rewrite Lt; discriminate|rewrite (Lx x Hne); apply (k_w4u _ _ K)].
Qed.

(* thread t relabels and worker i changes without changing its jobs *)
Lemma frame3_worker_thread (st' : pstate) th' i w' :
  ps_threads st' = upd_nth (ps_threads s) t th' -> ps_workers st' = upd_nth (ps_workers s) i w' ->
  ps_queues st' = ps_queues s -> ps_njobs st' = ps_njobs s -> ps_delivered st' = ps_delivered s ->
  (i < length (ps_workers s))%nat ->
  jobs w' = jobs (getw s i) -> (forall q, wk_rq w' = Some q -> wk_rq (getw s i) = Some q) ->
  (forall j, lab_handler (t_lab th') = Some j -> lab_handler (t_lab (gett s t)) = Some j) ->
  lab_popped (t_lab th') = lab_popped (t_lab (gett s t)) ->
  lab_stash (t_lab th') = lab_stash (t_lab (gett s t)) ->
  lab_pending (t_lab th') = lab_pending (t_lab (gett s t)) ->
  (forall i0 q, t_lab th' = W4u i0 q -> q_ordered (getq s q) = false) ->
  frame3 s st'.
Proof.
  intros Eth Ew Eq En Ed Hi Hj Hrq L1 L2 L3 L4 L5.
  assert (G : forall x, gett st' x = if Nat.eqb x t then th' else gett s x) by (intros; apply (gett_upd s st' t th' x Eth Ht)).
  assert (Gw : forall k, getw st' k = if Nat.eqb k i then w' else getw s k) by (intros; apply (getw_upd s st' i w' k Ew Hi)).
  assert (Gq : forall k, getq st' k = getq s k) by (intros; unfold getq; rewrite Eq; reflexivity).
  constructor; try assumption.
  - intros x j. rewrite G. destruct (Nat.eqb_spec x t) as [->|]; auto.
  - intros x. rewrite G. destruct (Nat.eqb_spec x t) as [->|]; auto.
  - intros x. rewrite G. destruct (Nat.eqb_spec x t) as [->|]; auto.
  - intros x. rewrite G. destruct (Nat.eqb_spec x t) as [->|]; auto.
  - intros x i0 q. rewrite G. destruct (Nat.eqb_spec x t) as [->|]; [intros H; right; apply (L5 i0 q H)|auto].
  - intros k. rewrite Gw. destruct (Nat.eqb_spec k i) as [->|]; auto.
  - intros k q. rewrite Gw. destruct (Nat.eqb_spec k i) as [->|]; auto.
  - intros q. rewrite Gq. reflexivity.
  - intros q. rewrite Gq. reflexivity.
  - intros q. rewrite Gq. reflexivity.
  - rewrite Eq. reflexivity.
  - intros n. rewrite Ew.
    pose proof (sumf_upd_nth (fun w => cntN (jobs w) n) (ps_workers s) i w' dummy_w Hi) as S.
    cbv beta in S. fold (getw s i) in S. rewrite Hj in S. lia.
Qed.

Lemma special_W3 i : t_lab (gett s t) = W3 i -> wk_hasjob (getw s i) = true -> Inv3 (after s t (W3 i)) stash.
Proof.
  intros Hlab Hj.
  destruct (wthread_self s t i I2) as (W1 & W2 & W3 & W4); [rewrite Hlab; reflexivity|].
  rewrite Hlab in W3. unfold after. cbn [continue]. rewrite Hj. cbn [negb].
  revert W3. unfold wphase_ok. cbn [wloop]. rewrite Hj.
  destruct (wk_running (getw s i)) eqn:F1, (wk_res (getw s i)) as [r|] eqn:F3; rewrite ?andb_false_r; cbn [orb]; try discriminate.
  intros _.
  assert (Jw : jobs (getw s i) = [wk_job (getw s i)]) by (unfold jobs; rewrite Hj, F3; reflexivity).
  destruct (wk_rq (getw s i)) as [q|] eqn:F4; cbn [fst snd].
  - apply (inv3_frame s); [|exact K].
    apply (frame3_worker_thread _ (pend KLock (OQm q) (W4u i q)) i (mkw (wk_tid (getw s i)) false false 0 (Some (wk_job (getw s i))) None));
      try reflexivity; try assumption; rewrite ?Hlab; try reflexivity; try (cbn; intros; discriminate).
    + rewrite Jw. reflexivity.
    + cbn. intros i0 q0 H. injection H as E1 E2. subst i0 q0. apply (k_rq _ _ K i). exact F4.
  - apply (inv3_frame s); [|exact K].
    apply (frame3_worker_thread _ (pend KLock (OWm i) (W4o i)) i (mkw (wk_tid (getw s i)) true false 0 (Some (wk_job (getw s i))) None));
      try reflexivity; try assumption; rewrite ?Hlab; try reflexivity; try (cbn; intros; discriminate).
    rewrite Jw. reflexivity.
Qed.

(* thread t relabels and queue q0 changes (same thread id, same mode) *)
Lemma frame3w_queue_thread (st' : pstate) th' q0 qq' :
  ps_threads st' = upd_nth (ps_threads s) t th' -> ps_queues st' = upd_nth (ps_queues s) q0 qq' ->
  ps_workers st' = ps_workers s -> ps_njobs st' = ps_njobs s -> ps_delivered st' = ps_delivered s ->
  (q0 < length (ps_queues s))%nat ->
  q_tid qq' = q_tid (getq s q0) -> q_ordered qq' = q_ordered (getq s q0) ->
  (forall j, lab_handler (t_lab th') = Some j -> lab_handler (t_lab (gett s t)) = Some j) ->
  lab_stash (t_lab th') = lab_stash (t_lab (gett s t)) ->
  (forall i0 q, t_lab th' <> W4u i0 q) ->
  frame3w s st'.
Proof.
  intros Eth Eq Ew En Ed Hq Htid Hord L1 L3 L5.
  assert (G : forall x, gett st' x = if Nat.eqb x t then th' else gett s x) by (intros; apply (gett_upd s st' t th' x Eth Ht)).
  assert (Gq : forall k, getq st' k = if Nat.eqb k q0 then qq' else getq s k) by (intros; apply (getq_upd s st' q0 qq' k Eq Hq)).
  assert (Gw : forall k, getw st' k = getw s k) by (intros; unfold getw; rewrite Ew; reflexivity).
  constructor; try assumption.
  - intros x j. rewrite G. destruct (Nat.eqb_spec x t) as [->|]; auto.
  - intros x. rewrite G. destruct (Nat.eqb_spec x t) as [->|]; auto.
  - intros x i0 q. rewrite G. destruct (Nat.eqb_spec x t) as [->|]; [intros H; exfalso; exact (L5 i0 q H)|auto].
  - intros k q. rewrite Gw. auto.
  - intros q. rewrite Gq. destruct (Nat.eqb_spec q q0) as [->|]; auto.
  - intros q. rewrite Gq. destruct (Nat.eqb_spec q q0) as [->|]; auto.
  - rewrite Eq. apply upd_nth_length.
  - intros n. rewrite Ew. reflexivity.
Qed.

Lemma carry_same (st' : pstate) th' :
  (forall x, gett st' x = if Nat.eqb x t then th' else gett s x) -> (forall k, getw st' k = getw s k) ->
  lab_popped (t_lab th') = None -> lab_stash (t_lab th') = None ->
  lab_popped (t_lab (gett s t)) = None -> lab_stash (t_lab (gett s t)) = None ->
  forall j x, carry st' stash j x = carry s stash j x.
Proof.
  intros G Gw A1 A2 A3 A4 j x. unfold carry. rewrite G. destruct (Nat.eqb_spec x t) as [->|].
  - rewrite A1, A2, A3, A4. reflexivity.
  - cbv iota. destruct (lab_popped (t_lab (gett s x))) as [[j0 i0]|].
    + rewrite Gw. reflexivity.
    + reflexivity.
Qed.

Lemma flat_map_snoc {A B} (f : A -> list B) l a : flat_map f (l ++ [a]) = flat_map f l ++ f a.
Proof. rewrite flat_map_app. cbn [flat_map]. rewrite app_nil_r. reflexivity. Qed.

(* D7: the caller queues worker i (ordered mode) / counts it (unordered mode) *)
Lemma special_D7 q i : t_lab (gett s t) = D7 q i -> Inv3 (after s t (D7 q i)) stash.
Proof.
  intros Hlab.
  destruct (tk_dispatch _ _ _ Tt q) as [Dq Df]; [rewrite Hlab; reflexivity|].
  assert (Ht0 : t = 0%nat) by (apply (tk_caller _ _ _ Tt); rewrite Hlab; reflexivity).
  unfold after. cbn [continue]. rewrite Df.
  destruct (q_ordered (getq s q)) eqn:Eo; cbn [fst snd].
  - match goal with |- Inv3 (set_thread (set_queues s (upd_nth _ q ?Q)) t ?T) _ => set (qq' := Q); set (th' := T) end.
    match goal with |- Inv3 ?S _ => set (st' := S) end.
    assert (G : forall x, gett st' x = if Nat.eqb x t then th' else gett s x) by (intros; apply (gett_upd s st' t th' x eq_refl Ht)).
    assert (Gq : forall k, getq st' k = if Nat.eqb k q then qq' else getq s k) by (intros; apply (getq_upd s st' q qq' k eq_refl Dq)).
    assert (Gw : forall k, getw st' k = getw s k) by reflexivity.
    apply (inv3_framew s); [| |exact K].
    + apply (frame3w_queue_thread st' th' q qq'); try reflexivity; try assumption; rewrite ?Hlab; try reflexivity; try (cbn; intros; discriminate);
        try (unfold qq'; cbn [q_ordered]; symmetry; exact Eo).
    + intros j Hj Ho. unfold pipeline.
      rewrite (carry_same st' th' G Gw) by (rewrite ?Hlab; reflexivity).
      assert (ET : q_tid (getq st' j) = q_tid (getq s j)) by (rewrite Gq; destruct (Nat.eqb_spec j q) as [->|]; reflexivity).
      rewrite ET. f_equal. f_equal.
      unfold listed_jobs, pend_jobs. rewrite <- Ht0, G, Nat.eqb_refl, Hlab. cbn [t_lab th' pend lab_pending].
      rewrite Gq. destruct (Nat.eqb_spec j q) as [->|Hne].
      * rewrite Nat.eqb_refl. cbn [qq' q_list]. rewrite flat_map_snoc, app_nil_r. reflexivity.
      * destruct (Nat.eqb_spec q j); [congruence|]. reflexivity.
  - match goal with |- Inv3 (set_thread (set_queues s (upd_nth _ q ?Q)) t ?T) _ => set (qq' := Q); set (th' := T) end.
    match goal with |- Inv3 ?S _ => set (st' := S) end.
    assert (G : forall x, gett st' x = if Nat.eqb x t then th' else gett s x) by (intros; apply (gett_upd s st' t th' x eq_refl Ht)).
    assert (Gq : forall k, getq st' k = if Nat.eqb k q then qq' else getq s k) by (intros; apply (getq_upd s st' q qq' k eq_refl Dq)).
    assert (Gw : forall k, getw st' k = getw s k) by reflexivity.
    apply (inv3_framew s); [| |exact K].
    + apply (frame3w_queue_thread st' th' q qq'); try reflexivity; try assumption; rewrite ?Hlab; try reflexivity; try (cbn; intros; discriminate);
        try (unfold qq'; cbn [q_ordered]; symmetry; exact Eo).
    + intros j Hj Ho. unfold pipeline.
      rewrite (carry_same st' th' G Gw) by (rewrite ?Hlab; reflexivity).
      assert (Hne : j <> q) by (intros ->; rewrite Eo in Ho; discriminate).
      assert (EQ : getq st' j = getq s j) by (rewrite Gq; destruct (Nat.eqb_spec j q); [contradiction|reflexivity]).
      rewrite EQ. f_equal. f_equal.
      unfold listed_jobs, pend_jobs. rewrite <- Ht0, G, Nat.eqb_refl, Hlab, EQ. cbn [t_lab th' pend lab_pending].
      destruct (Nat.eqb_spec q j); [congruence|]. reflexivity.
Qed.

Lemma pend_same (st' : pstate) th' :
  (forall x, gett st' x = if Nat.eqb x t then th' else gett s x) -> (forall k, getw st' k = getw s k) ->
  lab_pending (t_lab th') = lab_pending (t_lab (gett s t)) ->
  forall j, pend_jobs st' j = pend_jobs s j.
Proof.
  intros G Gw A j. unfold pend_jobs. rewrite G. destruct (Nat.eqb_spec 0 t) as [<-|]; cbv iota.
  - rewrite A. destruct (lab_pending (t_lab (gett s 0))) as [[q i]|].
    + rewrite Gw. reflexivity.
    + reflexivity.
  - destruct (lab_pending (t_lab (gett s 0))) as [[q i]|].
    + rewrite Gw. reflexivity.
    + reflexivity.
Qed.

(* W4u: an unordered worker queues itself *)
Lemma special_W4u i q : t_lab (gett s t) = W4u i q -> Inv3 (after s t (W4u i q)) stash.
Proof.
  intros Hlab.
  pose proof (tk_w4u _ _ _ Tt i q Hlab) as Dq.
  pose proof (k_w4u _ _ K t i q Hlab) as Eo.
  unfold after. cbn [continue fst snd].
  match goal with |- Inv3 (set_thread (set_queues s (upd_nth _ q ?Q)) t ?T) _ => set (qq' := Q); set (th' := T) end.
  match goal with |- Inv3 ?S _ => set (st' := S) end.
  assert (G : forall x, gett st' x = if Nat.eqb x t then th' else gett s x) by (intros; apply (gett_upd s st' t th' x eq_refl Ht)).
  assert (Gq : forall k, getq st' k = if Nat.eqb k q then qq' else getq s k) by (intros; apply (getq_upd s st' q qq' k eq_refl Dq)).
  assert (Gw : forall k, getw st' k = getw s k) by reflexivity.
  apply (inv3_framew s); [| |exact K].
  - apply (frame3w_queue_thread st' th' q qq'); try reflexivity; try assumption; rewrite ?Hlab; try reflexivity; try (cbn; intros; discriminate).
  - intros j Hj Ho. unfold pipeline.
    rewrite (carry_same st' th' G Gw) by (rewrite ?Hlab; reflexivity).
    rewrite (pend_same st' th' G Gw) by (rewrite ?Hlab; reflexivity).
    assert (Hne : j <> q) by (intros ->; rewrite Eo in Ho; discriminate).
    assert (EQ : getq st' j = getq s j) by (rewrite Gq; destruct (Nat.eqb_spec j q); [contradiction|reflexivity]).
    unfold listed_jobs. rewrite EQ. reflexivity.
Qed.

(* H1: the handler pops worker i *)
Lemma special_H1 j0 i rest : t_lab (gett s t) = H1 j0 -> q_list (getq s j0) = i :: rest -> Inv3 (after s t (H1 j0)) stash.
Proof.
  intros Hlab El.
  destruct (k_handler _ _ K t j0) as [Dq Etid]; [rewrite Hlab; reflexivity|].
  unfold after. cbn [continue]. rewrite El. cbn [fst snd].
  match goal with |- Inv3 (set_thread (set_queues s (upd_nth _ j0 ?Q)) t ?T) _ => set (qq' := Q); set (th' := T) end.
  match goal with |- Inv3 ?S _ => set (st' := S) end.
  assert (G : forall x, gett st' x = if Nat.eqb x t then th' else gett s x) by (intros; apply (gett_upd s st' t th' x eq_refl Ht)).
  assert (Gq : forall k, getq st' k = if Nat.eqb k j0 then qq' else getq s k) by (intros; apply (getq_upd s st' j0 qq' k eq_refl Dq)).
  assert (Gw : forall k, getw st' k = getw s k) by reflexivity.
  apply (inv3_framew s); [| |exact K].
  - apply (frame3w_queue_thread st' th' j0 qq'); try reflexivity; try assumption; rewrite ?Hlab; try reflexivity; try (cbn; intros; discriminate).
    cbn. intros j H. exact H.
  - intros j Hj Ho. unfold pipeline.
    rewrite (pend_same st' th' G Gw) by (rewrite ?Hlab; reflexivity).
    f_equal. rewrite !app_assoc. f_equal.
    assert (ET : q_tid (getq st' j) = q_tid (getq s j)) by (rewrite Gq; destruct (Nat.eqb_spec j j0) as [->|]; reflexivity).
    rewrite ET. unfold carry, listed_jobs. rewrite G, Gq.
    destruct (Nat.eqb_spec j j0) as [->|Hne].
    + rewrite Etid, Nat.eqb_refl, Hlab. cbn [t_lab th' pend lab_popped lab_stash qq' q_list]. rewrite Nat.eqb_refl, El.
      cbn [flat_map]. reflexivity.
    + destruct (Nat.eqb_spec (q_tid (getq s j)) t) as [E|E]; [|reflexivity].
      rewrite E, Hlab. cbn [t_lab th' pend lab_popped lab_stash]. destruct (Nat.eqb_spec j0 j); [congruence|]. reflexivity.
Qed.

(* H4: the handler takes the result out of worker i and stashes it *)
Lemma special_H4 j0 i r : t_lab (gett s t) = H4 j0 i -> wk_running (getw s i) = false -> wk_res (getw s i) = Some r ->
  Inv3 (after s t (H4 j0 i)) ((t, r) :: stash).
Proof.
  intros Hlab Er F3.
  assert (Hf : flight_w (getw s i) = true) by (apply (tk_flight _ _ _ Tt); rewrite Hlab; reflexivity).
  destruct (flight_notrunning _ Hf Er) as (F2 & _ & F4).
  assert (Hone : ttok (ord_of s) (t_lab (gett s t)) i = 1%nat) by (rewrite Hlab; cbn; rewrite Nat.eqb_refl; reflexivity).
  destruct (sole_thread s t i I2 Hone) as (Hi & S1 & S2 & S3 & S4).
  destruct (k_handler _ _ K t j0) as [Dq Etid]; [rewrite Hlab; reflexivity|].
  unfold after. cbn [continue]. rewrite Er, F2, F4. cbn [fst snd].
  set (w' := mkw (wk_tid (getw s i)) false false (wk_job (getw s i)) None None).
  set (th' := pend KUnlock (OWm i) (H6 j0 i)).
  match goal with |- Inv3 ?S _ => set (st' := S) end.
  assert (G : forall x, gett st' x = if Nat.eqb x t then th' else gett s x) by (intros; apply (gett_upd s st' t th' x eq_refl Ht)).
  assert (Gw : forall k, getw st' k = if Nat.eqb k i then w' else getw s k) by (intros; apply (getw_upd s st' i w' k eq_refl Hi)).
  assert (Gq : forall k, getq st' k = getq s k) by reflexivity.
  assert (Jw : jobs (getw s i) = [r]) by (unfold jobs; rewrite F2, F3; reflexivity).
  assert (Lx : forall x, x <> t -> t_lab (gett st' x) = t_lab (gett s x)).
  { intros x Hne. rewrite G. destruct (Nat.eqb_spec x t); [contradiction|reflexivity]. }
  assert (Lt : t_lab (gett st' t) = H6 j0 i) by (rewrite G, Nat.eqb_refl; reflexivity).
  assert (Nk : ~ In t (map fst stash)).
  { intros H. apply in_map_iff in H. destruct H as ([x r'] & E & H). cbn in E. subst x.
    apply (k_stashlab _ _ K t r' H). rewrite Hlab. reflexivity. }
  constructor.
  - intros x j. change (length (ps_queues st')) with (length (ps_queues s)). rewrite Gq.
    destruct (Nat.eq_dec x t) as [->|Hne]; [rewrite Lt; cbn; intros H; inversion H; subst; auto|rewrite (Lx x Hne); apply (k_handler _ _ K)].
  - cbn [map fst]. constructor; [exact Nk|apply (k_keys _ _ K)].
  - intros x r' [H|H].
    + inversion H; subst. rewrite Lt. discriminate.
    + assert (x <> t) by (intros ->; apply Nk; apply in_map_iff; exists (t, r'); split; [reflexivity|exact H]).
      rewrite (Lx x H0). apply (k_stashlab _ _ K x r' H).
  - intros n. change (ps_njobs st') with (ps_njobs s).
    assert (E : jcount st' ((t, r) :: stash) n = jcount s stash n).
    { unfold jcount. change (ps_delivered st') with (ps_delivered s). change (ps_workers st') with (upd_nth (ps_workers s) i w').
      pose proof (sumf_upd_nth (fun w => cntN (jobs w) n) (ps_workers s) i w' dummy_w Hi) as E. cbv beta in E.
      fold (getw s i) in E. rewrite Jw in E. change (jobs w') with (@nil N) in E. cbn [map snd]. rewrite cntN_cons in *. rewrite !cntN_nil in E. lia. }
    rewrite E. apply (k_count _ _ K).
  - intros j Hj Ho. change (q_ordered (getq s j) = true) in Ho.
    assert (E : pipeline st' ((t, r) :: stash) j = pipeline s stash j); [|rewrite E; apply (k_order _ _ K j Hj Ho)].
    unfold pipeline. f_equal. f_equal; [|f_equal].
    + unfold carry. rewrite Gq. set (x := q_tid (getq s j)).
      destruct (Nat.eq_dec x t) as [E|Hne].
      * rewrite E, Lt, Hlab. cbn [lab_popped lab_stash]. destruct (Nat.eqb j0 j); [|reflexivity].
        rewrite stash_of_cons_same, (stash_of_none _ _ Nk), Jw. reflexivity.
      * rewrite (Lx x Hne). destruct (lab_popped (t_lab (gett s x))) as [[j1 i1]|] eqn:Ep.
        -- rewrite Gw. destruct (Nat.eqb_spec i1 i) as [->|]; [|reflexivity].
           pose proof (lab_popped_ttok (ord_of s) _ _ _ Ep) as E1. rewrite (S2 x Hne) in E1. discriminate.
        -- rewrite stash_of_cons_other by congruence. reflexivity.
    + unfold listed_jobs. rewrite Gq. apply flat_map_ext_in'. intros k Hk. rewrite Gw.
      destruct (Nat.eqb_spec k i) as [->|]; [|reflexivity]. exfalso. exact (S3 j Hk).
    + unfold pend_jobs. destruct (Nat.eq_dec 0 t) as [E0|Hne].
      * rewrite E0, Lt, Hlab. reflexivity.
      * rewrite (Lx 0%nat Hne). destruct (lab_pending (t_lab (gett s 0))) as [[q i1]|] eqn:Ep; [|reflexivity].
        destruct (Nat.eqb_spec q j) as [->|]; [|reflexivity]. rewrite Gw.
        destruct (Nat.eqb_spec i1 i) as [->|]; [|reflexivity]. exfalso.
        assert (E1 : ttok (ord_of s) (t_lab (gett s 0)) i = 1%nat).
        { destruct (t_lab (gett s 0)); cbn in Ep; try discriminate; inversion Ep; subst; cbn [ttok];
            unfold ord_of; rewrite Ho, Nat.eqb_refl; reflexivity. }
        rewrite (S2 0%nat Hne) in E1. discriminate.
  - apply (k_deliv _ _ K).
  - intros k q'. rewrite Gw, Gq. destruct (Nat.eqb_spec k i) as [->|]; [discriminate|apply (k_rq _ _ K)].
  - intros x i' q'. rewrite Gq. destruct (Nat.eq_dec x t) as [->|Hne]; [rewrite Lt; discriminate|rewrite (Lx x Hne); apply (k_w4u _ _ K)].
Qed.

(* H8: the handler delivers what it stashed *)
Lemma filter_app_single {A} (f : A -> bool) l a : filter f (l ++ [a]) = filter f l ++ (if f a then [a] else []).
Proof. rewrite filter_app. reflexivity. Qed.

Lemma special_H8 j0 r0 (mv : list N) (st3 : pstate) (stash' : list (nat * N)) :
  t_lab (gett s t) = H8 j0 r0 -> stash_of stash t = mv -> (length mv <= 1)%nat -> stash' = drop_key stash t ->
  ps_threads st3 = ps_threads s -> ps_workers st3 = ps_workers s -> ps_queues st3 = ps_queues s ->
  ps_njobs st3 = ps_njobs s -> ps_delivered st3 = ps_delivered s ++ map (pair j0) mv ->
  Inv3 (after st3 t (H8 j0 r0)) stash'.
Proof.
  intros Hlab Emv Hlen Est Eth Ew Eq En Ed. subst stash'.
  destruct (k_handler _ _ K t j0) as [Dq Etid]; [rewrite Hlab; reflexivity|].
  unfold after. cbn [continue fst snd].
  set (th' := pend KLock (OQm j0) (H1 j0)).
  set (st' := set_thread st3 t th').
  assert (G : forall x, gett st' x = if Nat.eqb x t then th' else gett s x).
  { intros x. unfold st'. rewrite gett_set_thread, Eth. destruct (Nat.eqb_spec x t); cbn [andb].
    - destruct (Nat.ltb_spec t (length (ps_threads s))); [reflexivity|lia].
    - unfold gett. rewrite Eth. reflexivity. }
  assert (Gw : forall k, getw st' k = getw s k) by (intros; unfold getw, st'; cbn [ps_workers set_thread]; rewrite Ew; reflexivity).
  assert (Gq : forall k, getq st' k = getq s k) by (intros; unfold getq, st'; cbn [ps_queues set_thread]; rewrite Eq; reflexivity).
  assert (Lq : length (ps_queues st') = length (ps_queues s)) by (unfold st'; cbn [ps_queues set_thread]; rewrite Eq; reflexivity).
  assert (Dl : ps_delivered st' = ps_delivered s ++ map (pair j0) mv) by exact Ed.
  assert (Lx : forall x, x <> t -> t_lab (gett st' x) = t_lab (gett s x)).
  { intros x Hne. rewrite G. destruct (Nat.eqb_spec x t); [contradiction|reflexivity]. }
  assert (Lt : t_lab (gett st' t) = H1 j0) by (rewrite G, Nat.eqb_refl; reflexivity).
  constructor.
  - intros x j. rewrite Lq, Gq.
    destruct (Nat.eq_dec x t) as [->|Hne]; [rewrite Lt; cbn; intros H; inversion H; subst; auto|rewrite (Lx x Hne); apply (k_handler _ _ K)].
  - apply drop_key_nodup. apply (k_keys _ _ K).
  - intros x r H. apply drop_key_in in H. destruct H as [H Hne]. cbn [fst] in Hne. rewrite (Lx x Hne). apply (k_stashlab _ _ K x r H).
  - intros n. change (ps_njobs st') with (ps_njobs st3). rewrite En.
    assert (E : jcount st' (drop_key stash t) n = jcount s stash n).
    { unfold jcount. rewrite Dl, map_app, cntN_app, map_map. cbn [snd]. rewrite map_id.
      change (ps_workers st') with (ps_workers st3). rewrite Ew.
      pose proof (cnt_drop stash t n) as C. rewrite Emv in C. lia. }
    rewrite E. apply (k_count _ _ K).
  - intros j. rewrite Lq, Gq. intros Hj Ho.
    assert (E : pipeline st' (drop_key stash t) j = pipeline s stash j); [|rewrite E; apply (k_order _ _ K j Hj Ho)].
    assert (EL : listed_jobs st' j = listed_jobs s j).
    { unfold listed_jobs. rewrite Gq. apply flat_map_ext_in'. intros; rewrite Gw; reflexivity. }
    assert (EP : pend_jobs st' j = pend_jobs s j).
    { apply (pend_same st' th' G Gw). rewrite Hlab. reflexivity. }
    assert (EC : delivered_of st' j ++ carry st' (drop_key stash t) j (q_tid (getq st' j)) =
                 delivered_of s j ++ carry s stash j (q_tid (getq s j))).
    { unfold delivered_of, carry. rewrite Dl, Gq, filter_app, map_app. set (x := q_tid (getq s j)).
      destruct (Nat.eqb_spec j0 j) as [->|Hne].
      - unfold x. rewrite Etid, Lt, Hlab. cbn [lab_popped lab_stash]. rewrite Nat.eqb_refl, Emv, app_nil_r. f_equal.
        clear. induction mv as [|a l IH]; cbn; [reflexivity|]. rewrite Nat.eqb_refl. cbn. f_equal. exact IH.
      - assert (E0 : map snd (filter (fun p : nat * N => Nat.eqb (fst p) j) (map (pair j0) mv)) = []).
        { clear - Hne. induction mv as [|a l IH]; cbn; [reflexivity|]. destruct (Nat.eqb_spec j0 j); [contradiction|exact IH]. }
        rewrite E0, app_nil_r. f_equal.
        destruct (Nat.eq_dec x t) as [E|Hx].
        + rewrite E, Lt, Hlab. cbn [lab_popped lab_stash]. destruct (Nat.eqb_spec j0 j); [contradiction|reflexivity].
        + rewrite (Lx x Hx). destruct (lab_popped (t_lab (gett s x))) as [[j1 i1]|]; [rewrite Gw; reflexivity|].
          rewrite stash_of_drop. destruct (Nat.eqb_spec x t); [contradiction|reflexivity]. }
    unfold pipeline. rewrite EL, EP, app_assoc, EC, <- app_assoc. reflexivity.
  - intros j r. rewrite Lq, Dl. intros H. apply in_app_or in H. destruct H as [H|H]; [apply (k_deliv _ _ K j r H)|].
    apply in_map_iff in H. destruct H as (a & E & _). inversion E; subst. exact Dq.
  - intros k q'. rewrite Gw, Gq. apply (k_rq _ _ K).
  - intros x i' q'. rewrite Gq. destruct (Nat.eq_dec x t) as [->|Hne]; [rewrite Lt; discriminate|rewrite (Lx x Hne); apply (k_w4u _ _ K)].
Qed.

(* the caller creates a handler *)
Lemma special_newhandler ord r :
  ps_prog s = NewHandler ord :: r ->
  lab_handler (t_lab (gett s t)) = None -> lab_popped (t_lab (gett s t)) = None -> lab_stash (t_lab (gett s t)) = None ->
  lab_pending (t_lab (gett s t)) = None ->
  Inv3 (set_thread (fst (caller_next s)) t (snd (caller_next s))) stash.
Proof.
  intros Ep A0 A1 A2 A3. unfold caller_next. rewrite Ep. cbn [fst snd].
  set (nq := length (ps_queues s)). set (nt := length (ps_threads s)).
  set (q0 := mkq ord nt false 0 []). set (th' := pend KCreate (OThread nt) CNext). set (nth := pend KStart ONone (H0 nq)).
  match goal with |- Inv3 ?S _ => set (st' := S) end.
  assert (G := fun x => gett_app_upd s st' t th' nth x eq_refl Ht). fold nt in G.
  assert (Gq := fun q => getq_app s st' q0 q eq_refl). fold nq in Gq.
  assert (Gw : forall k, getw st' k = getw s k) by reflexivity.
  assert (Lq : length (ps_queues st') = S nq) by (unfold st'; cbn [ps_queues set_thread]; rewrite app_length; cbn; lia).
  assert (Lab : forall x, x <> t -> (t_lab (gett st' x) = t_lab (gett s x)) \/ (x = nt /\ t_lab (gett st' x) = H0 nq /\ t_lab (gett s x) = LDone)).
  { intros x Hne. rewrite G. destruct (Nat.eqb_spec x t); [contradiction|].
    destruct (Nat.ltb_spec x nt); [left; reflexivity|]. destruct (Nat.eqb_spec x nt) as [->|].
    - right. split; [reflexivity|]. split; [reflexivity|]. rewrite gett_oob by (fold nt; lia). reflexivity.
    - left. rewrite gett_oob by (fold nt; lia). reflexivity. }
  assert (Lt : t_lab (gett st' t) = CNext) by (rewrite G, Nat.eqb_refl; reflexivity).
  assert (Gq1 : forall q, (q < nq)%nat -> getq st' q = getq s q).
  { intros q Hq. rewrite Gq. destruct (Nat.ltb_spec q nq); [reflexivity|lia]. }
  assert (Oq : forall q, q_ordered (getq s q) = false -> (q < nq)%nat).
  { intros q H. destruct (Nat.lt_ge_cases q nq) as [|Hge]; [assumption|]. rewrite (getq_oob s q Hge) in H. discriminate. }
  constructor.
  - intros x j. rewrite Lq. destruct (Nat.eq_dec x t) as [->|Hne]; [rewrite Lt; discriminate|].
    destruct (Lab x Hne) as [E|(-> & E & _)]; rewrite E.
    + intros H. destruct (k_handler _ _ K x j H) as [H1 H2]. fold nq in H1. rewrite (Gq1 j H1). split; [lia|exact H2].
    + cbn [lab_handler]. intros H. inversion H; subst j. rewrite Gq. destruct (Nat.ltb_spec nq nq); [lia|]. rewrite Nat.eqb_refl. split; [lia|reflexivity].
  - apply (k_keys _ _ K).
  - intros x r0 H. pose proof (k_stashlab _ _ K x r0 H) as H1.
    destruct (Nat.eq_dec x t) as [->|Hne]; [rewrite A2 in H1; exfalso; apply H1; reflexivity|].
    destruct (Lab x Hne) as [E|(-> & _ & E)]; [rewrite E; exact H1|rewrite E in H1; exfalso; apply H1; reflexivity].
  - intros n. apply (k_count _ _ K).
  - intros j. rewrite Lq. intros Hj Ho.
    assert (EP : forall j', pend_jobs st' j' = pend_jobs s j').
    { intros j'. unfold pend_jobs. destruct (Nat.eq_dec 0 t) as [E0|Hne].
      - rewrite E0, Lt, A3. reflexivity.
      - destruct (Lab 0%nat Hne) as [E|(_ & E & E')]; rewrite E; [reflexivity|rewrite E'; reflexivity]. }
    assert (EC : forall j' x, carry st' stash j' x = carry s stash j' x).
    { intros j' x. unfold carry. destruct (Nat.eq_dec x t) as [->|Hne]; [rewrite Lt, A1, A2; reflexivity|].
      destruct (Lab x Hne) as [E|(_ & E & E')]; rewrite E; [reflexivity|rewrite E'; reflexivity]. }
    destruct (Nat.lt_ge_cases j nq) as [Hlt|Hge].
    + rewrite (Gq1 j Hlt) in Ho.
      assert (E : pipeline st' stash j = pipeline s stash j); [|rewrite E; apply (k_order _ _ K j Hlt Ho)].
      unfold pipeline. rewrite EP, EC. unfold listed_jobs. rewrite (Gq1 j Hlt). reflexivity.
    + assert (j = nq) by lia. subst j.
      assert (E : pipeline st' stash nq = []); [|rewrite E; constructor].
      unfold pipeline. rewrite EP, EC. unfold listed_jobs, delivered_of. rewrite Gq.
      destruct (Nat.ltb_spec nq nq); [lia|]. rewrite Nat.eqb_refl. cbn [q0 q_list q_tid flat_map].
      assert (E1 : filter (fun p : nat * N => Nat.eqb (fst p) nq) (ps_delivered s) = []).
      { assert (D := k_deliv _ _ K). fold nq in D. clear - D. induction (ps_delivered s) as [|[a b] l IH]; [reflexivity|].
        cbn. destruct (Nat.eqb_spec a nq) as [->|]; [pose proof (D nq b (or_introl eq_refl)); lia|].
        apply IH. intros j r H. apply (D j r). right. exact H. }
      change (ps_delivered st') with (ps_delivered s). rewrite E1. cbn [map app].
      unfold carry. rewrite gett_oob by (fold nt; lia). cbn [dummy_t t_lab lab_popped lab_stash].
      unfold pend_jobs. destruct (lab_pending (t_lab (gett s 0))) as [[q i]|] eqn:El; [|reflexivity].
      destruct (Nat.eqb_spec q nq) as [->|]; [|reflexivity]. exfalso.
      assert (Hd : lab_dispatch (t_lab (gett s 0)) = Some nq) by (destruct (t_lab (gett s 0)); cbn in El; try discriminate; inversion El; subst; reflexivity).
      destruct (tk_dispatch _ _ _ (i2_threads _ I2 0%nat) nq Hd) as [H1 _]. fold nq in H1. lia.
  - intros j r0. rewrite Lq. intros H. pose proof (k_deliv _ _ K j r0 H). fold nq in H0. lia.
  - intros k q' H. pose proof (k_rq _ _ K k q' H) as H1. rewrite (Gq1 q' (Oq q' H1)). exact H1.
  - intros x i' q'. destruct (Nat.eq_dec x t) as [->|Hne]; [rewrite Lt; discriminate|].
    destruct (Lab x Hne) as [E|(_ & E & _)]; rewrite E; [|discriminate].
    intros H. pose proof (k_w4u _ _ K x i' q' H) as H1. rewrite (Gq1 q' (Oq q' H1)). exact H1.
Qed.

End Special.

(* ---------- one step ---------- *)
Lemma wake_step_scalars st op wake :
  ps_njobs (wake_step st op wake) = ps_njobs st /\ ps_delivered (wake_step st op wake) = ps_delivered st.
Proof. unfold wake_step. destruct op, wake; split; reflexivity. Qed.
Lemma st1_of_scalars st t : ps_njobs (st1_of st t) = ps_njobs st /\ ps_delivered (st1_of st t) = ps_delivered st.
Proof. unfold st1_of. destruct (t_op (gett st t)); split; reflexivity. Qed.

Lemma drop_key_none stash t : ~ In t (map fst stash) -> drop_key stash t = stash.
Proof.
  unfold drop_key. induction stash as [|[a b] l IH]; cbn; intros H; [reflexivity|].
  destruct (Nat.eqb_spec a t); [exfalso; apply H; left; assumption|]. cbn. f_equal. apply IH. tauto.
Qed.

Lemma stash_deliver_other st t l stash :
  (forall j i, l <> H4 j i) -> (forall j r, l <> H8 j r) -> stash_deliver st t l stash = (stash, st).
Proof. intros H1 H2. destruct l; try reflexivity; [exfalso; eapply H1; reflexivity|exfalso; eapply H2; reflexivity]. Qed.

Lemma frame_step s t l stash : Inv3 s stash -> (t < length (ps_threads s))%nat -> t_lab (gett s t) = l ->
  nonspecial s l = true -> Inv3 (after s t l) stash.
Proof. intros K Ht Hl NS. apply (inv3_frame s); [apply after_frame3; assumption|exact K]. Qed.

Lemma caller_lab_none l : l = CNext \/ l = D8 \/ l = F3 \/ l = P6 ->
  lab_handler l = None /\ lab_popped l = None /\ lab_stash l = None /\ lab_pending l = None.
Proof. intros [->|[->|[->| ->]]]; repeat split. Qed.

(* the part of a step after the owner / wake-up bookkeeping *)
Lemma tail_inv3 s t stash :
  Inv2 s -> Inv3 s stash -> (t < length (ps_threads s))%nat -> t_lab (gett s t) <> LDone ->
  let l := t_lab (gett s t) in
  let st3 := snd (stash_deliver s t l stash) in
  let stash1 := fst (stash_deliver s t l stash) in
  Inv3 (after st3 t l) stash1.
Proof.
  intros I2 K Ht Hld l st3 stash1. subst st3 stash1.
  assert (Hnext : forall l', l = l' -> (l' = CNext \/ l' = D8 \/ l' = F3 \/ l' = P6) ->
                  continue s t l' = caller_next s -> Inv3 (after s t l') stash).
  { intros l' E Hc Hcn. destruct (nonspecial s l') eqn:NS.
    - apply frame_step; assumption.
    - assert (exists ord r, ps_prog s = NewHandler ord :: r) as (ord & r & Ep).
      { destruct Hc as [->|[->|[->| ->]]]; cbn in NS; destruct (ps_prog s) as [|[]]; try discriminate; eauto. }
      unfold after. rewrite Hcn. destruct (caller_lab_none l' Hc) as (A0 & A1 & A2 & A3). rewrite <- E in *.
      apply (special_newhandler s t stash I2 K Ht ord r Ep A0 A1 A2 A3). }
  destruct l eqn:El; subst l;
    try (rewrite stash_deliver_other by (intros; discriminate); cbn [fst snd]);
    try (apply frame_step; [assumption|assumption|assumption|reflexivity]).
  - apply Hnext; auto.
  - apply special_D5; assumption.
  - apply special_D7; assumption.
  - apply Hnext; auto.
  - apply Hnext; auto.
  - apply Hnext; auto.
  - destruct (wk_hasjob (getw s i)) eqn:Ej.
    + apply special_W3; assumption.
    + apply frame_step; try assumption. cbn. rewrite Ej. reflexivity.
  - apply special_W4u; assumption.
  - destruct (q_list (getq s j)) as [|i rest] eqn:Elist.
    + apply frame_step; try assumption. cbn. rewrite Elist. reflexivity.
    + apply (special_H1 s t stash I2 K Ht j i rest); assumption.
  - (* H4 *)
    cbn [stash_deliver]. destruct (wk_running (getw s w)) eqn:Er; cbn [fst snd].
    + apply frame_step; assumption.
    + assert (Hf : flight_w (getw s w) = true) by (apply (tk_flight _ _ _ (i2_threads _ I2 t)); rewrite El; reflexivity).
      destruct (flight_notrunning _ Hf Er) as (_ & (r & F3) & _). rewrite F3. cbn [fst snd].
      apply special_H4; assumption.
  - (* H8 *)
    cbn [stash_deliver]. destruct (find (fun p : nat * N => Nat.eqb (fst p) t) stash) as [[x r0]|] eqn:Ef; cbn [fst snd].
    + destruct (find_key_some stash t x r0 (k_keys _ _ K) Ef) as (_ & _ & E3).
      apply (special_H8 s t stash I2 K Ht j r [r0]); try reflexivity; try assumption; try (cbn; lia).
    + pose proof (find_key_none stash t Ef) as Hn.
      apply (special_H8 s t stash I2 K Ht j r []); try reflexivity; try assumption; try (cbn; lia).
      * apply stash_of_none. exact Hn.
      * symmetry. apply drop_key_none. exact Hn.
      * cbn. rewrite app_nil_r. reflexivity.
  - congruence.
Qed.

Lemma pstep_inv3 st t wake stash st' op o stash' :
  Inv1 st -> Inv2 st -> Inv3 st stash -> wake_ok st t wake ->
  pstep st t wake stash = Some (st', op, o, stash') -> Inv3 st' stash'.
Proof.
  intros I1 I2 K W E.
  destruct (enabled st t) eqn:En; [|unfold pstep in E; rewrite En in E; discriminate].
  destruct (enabled_live _ _ En) as (Hlt & Hd & Hb).
  pose proof (shape_allowed _ (i1_shape _ I1 t)) as Hal.
  destruct (opk_eqb (t_op (gett st t)) KWait) eqn:Ew.
  { unfold pstep in E. rewrite En in E. cbn [negb] in E.
    destruct (t_op (gett st t)) eqn:Eop; try discriminate. inversion E; subst; clear E.
    apply (inv3_frame st); [|exact K].
    set (m := wait_mutex (t_lab (gett st t))).
    assert (L : forall x, t_lab (gett (set_thread (set_owner st m None) t
                 (mkt KReacq m (t_lab (gett st t)) (Some (t_obj (gett st t))) m false)) x) = t_lab (gett st x)).
    { intros x. rewrite gett_set_thread. destruct (Nat.eqb_spec x t) as [->|]; cbn [andb]; [|reflexivity].
      destruct (Nat.ltb _ _); reflexivity. }
    constructor; try reflexivity; try (intros x; rewrite L; reflexivity); try (intros x j; rewrite L; auto);
      try (intros x i q; rewrite L; auto); auto. }
  destruct (opk_eqb (t_op (gett st t)) KExit) eqn:Ee.
  { unfold pstep in E. rewrite En in E. cbn [negb] in E.
    destruct (t_op (gett st t)) eqn:Eop; try discriminate. inversion E; subst; clear E.
    destruct (exit_lab _ _ Hal) as [El Eo].
    apply (inv3_frame st); [|exact K]. apply frame3_of_view; try reflexivity.
    apply set_thread_same_view. unfold tview. rewrite El, Eo. reflexivity. }
  assert (Hw : t_op (gett st t) <> KWait) by (intros H; rewrite H in Ew; discriminate).
  assert (He : t_op (gett st t) <> KExit) by (intros H; rewrite H in Ee; discriminate).
  rewrite (pstep_general _ _ wake stash En Hw He) in E. inversion E; subst; clear E.
  unfold step_tail.
  set (st1 := st1_of st t).
  set (st2 := wake_step st1 (t_op (gett st t)) wake).
  assert (V1 : same_view st st1).
  { unfold st1, st1_of. destruct (t_op (gett st t)); try apply same_view_refl; apply set_owner_view. }
  assert (V2 : same_view st1 st2).
  { apply wake_step_view. intros u -> Hop Hu. unfold st1, st1_of in *. rewrite Hop in *.
    apply (blocked_obj st u I1). unfold wake_ok in W. apply W; assumption. }
  assert (V : same_view st st2) by (eapply same_view_trans; eassumption).
  assert (I2' : Inv2 st2) by (apply (inv2_view st); assumption).
  assert (K' : Inv3 st2 stash).
  { apply (inv3_frame st); [|exact K]. apply frame3_of_view; [exact V| |].
    - unfold st2. rewrite (proj1 (wake_step_scalars _ _ _)). apply st1_of_scalars.
    - unfold st2. rewrite (proj2 (wake_step_scalars _ _ _)). apply st1_of_scalars. }
  assert (El : t_lab (gett st2 t) = t_lab (gett st t)) by (apply sv_lab; exact V).
  assert (Hlt2 : (t < length (ps_threads st2))%nat) by (rewrite (sv_len _ _ V); exact Hlt).
  assert (Hld : t_lab (gett st2 t) <> LDone).
  { rewrite El. intros H. rewrite H in Hal. destruct (t_op (gett st t)); cbn in Hal; try discriminate; try congruence. }
  pose proof (tail_inv3 st2 t stash I2' K' Hlt2 Hld) as T. cbn zeta in T. rewrite El in T. exact T.
Qed.

(* ---------- initial state, reachable states ---------- *)
Lemma pre_init_lab maxt prog x : t_lab (gett (pre_init maxt prog) x) = CNext \/ t_lab (gett (pre_init maxt prog) x) = LDone.
Proof.
  destruct x as [|x]; [left; reflexivity|right]. unfold gett. cbn [ps_threads pre_init]. destruct x; reflexivity.
Qed.

Lemma pre_init_inv3 maxt prog : Inv3 (pre_init maxt prog) [].
Proof.
  constructor.
  - intros x j. destruct (pre_init_lab maxt prog x) as [-> | ->]; discriminate.
  - constructor.
  - intros x r [].
  - intros n. unfold jcount. cbn. split; [lia|reflexivity].
  - intros j Hj. cbn in Hj. lia.
  - intros j r [].
  - intros i q. unfold getw. cbn [ps_workers pre_init]. destruct i; discriminate.
  - intros x i q. destruct (pre_init_lab maxt prog x) as [-> | ->]; discriminate.
Qed.

Lemma pool_init_inv3 maxt prog : prog_wf_weak prog = true -> Inv3 (pool_init maxt prog) [].
Proof.
  intros Hp. rewrite pool_init_eq.
  assert (Ht : (0 < length (ps_threads (pre_init maxt prog)))%nat) by (cbn; lia).
  assert (Hld : t_lab (gett (pre_init maxt prog) 0) <> LDone) by discriminate.
  pose proof (tail_inv3 (pre_init maxt prog) 0 [] (pre_init_inv2 maxt prog Hp) (pre_init_inv3 maxt prog) Ht Hld) as T.
  exact T.
Qed.

Lemma pspurious_inv3 st t st' stash : Inv1 st -> Inv3 st stash -> pspurious st t = Some st' -> Inv3 st' stash.
Proof.
  intros I1 K E. apply (inv3_frame st); [|exact K].
  pose proof (pspurious_view st t st' I1 E) as V. apply frame3_of_view; [exact V| |];
    unfold pspurious in E; destruct (t_blocked (gett st t)); inversion E; reflexivity.
Qed.

Lemma prun_inv123 s : forall st0 stash0 st stash,
  Inv1 st0 -> Inv2 st0 -> Inv3 st0 stash0 -> sched_wf st0 stash0 s -> prun st0 stash0 s = Some (st, stash) ->
  Inv1 st /\ Inv2 st /\ Inv3 st stash.
Proof.
  induction s as [|[t w|t] s IH]; intros st0 stash0 st stash I1 I2 K W E; cbn [prun sched_wf] in *.
  - inversion E; subst. auto.
  - destruct W as [W1 W2]. destruct (pstep st0 t w stash0) as [[[[st1 op] o] stash1]|] eqn:Es; [|discriminate].
    eapply IH; [| | |exact W2|exact E].
    + eapply pstep_inv1; eassumption.
    + eapply pstep_inv2; eassumption.
    + eapply pstep_inv3; eassumption.
  - destruct (pspurious st0 t) as [st1|] eqn:Es; [|discriminate].
    eapply IH; [| | |exact W|exact E].
    + eapply pspurious_inv1; eassumption.
    + eapply pspurious_inv2; eassumption.
    + eapply pspurious_inv3; eassumption.
Qed.

Theorem T13_delivery_inv : forall maxt prog st stash, prog_wf_weak prog = true ->
  reachable maxt prog st stash -> Inv1 st /\ Inv2 st /\ Inv3 st stash.
Proof.
  intros maxt prog st stash Hp (s & W & E).
  eapply prun_inv123; [apply pool_init_inv1|apply pool_init_inv2; exact Hp|apply pool_init_inv3; exact Hp|exact W|exact E].
Qed.

(* ---------- Tier 3: T13b ---------- *)
Lemma inv3_nodup_delivered st stash : Inv3 st stash -> NoDup (ps_delivered st).
Proof.
  intros K. apply (NoDup_map_inv snd). apply (NoDup_count_occ N.eq_dec). intros n.
  destruct (k_count _ _ K n) as [C _]. unfold jcount, cntN in C. lia.
Qed.

Lemma inv3_increasing st stash h : Inv3 st stash -> q_ordered (getq st h) = true ->
  increasing (map snd (filter (fun p => Nat.eqb (fst p) h) (ps_delivered st))).
Proof.
  intros K Ho. destruct (Nat.lt_ge_cases h (length (ps_queues st))) as [Hh|Hh].
  - apply sorted_increasing. pose proof (k_order _ _ K h Hh Ho) as S. unfold pipeline in S.
    apply sorted_app_l in S. exact S.
  - assert (E : filter (fun p : nat * N => Nat.eqb (fst p) h) (ps_delivered st) = []).
    { assert (D := k_deliv _ _ K). induction (ps_delivered st) as [|[a b] l IH]; [reflexivity|].
      cbn. destruct (Nat.eqb_spec a h) as [->|]; [pose proof (D h b (or_introl eq_refl)); lia|].
      apply IH. intros j r H. apply (D j r). right. exact H. }
    rewrite E. exact Logic.I.
Qed.

(* T13b_statement of props/Properties_C13.v, for well-formed programs and schedules *)
Theorem T13b : forall maxt prog s st stash, prog_wf prog = true ->
  sched_wf (pool_init maxt prog) [] s ->
  prun (pool_init maxt prog) [] s = Some (st, stash) ->
  NoDup (ps_delivered st) /\
  forall h, q_ordered (getq st h) = true ->
    increasing (map snd (filter (fun p => Nat.eqb (fst p) h) (ps_delivered st))).
Proof.
  intros maxt prog s st stash Hp W E.
  destruct (T13_delivery_inv maxt prog st stash (prog_wf_weaken _ Hp)) as (_ & _ & K); [exists s; split; assumption|].
  split; [apply (inv3_nodup_delivered st stash K)|]. intros h Ho. apply (inv3_increasing st stash h K Ho).
Qed.

Theorem T13b_weak : forall maxt prog s st stash, prog_wf_weak prog = true ->
  sched_wf (pool_init maxt prog) [] s ->
  prun (pool_init maxt prog) [] s = Some (st, stash) ->
  NoDup (ps_delivered st) /\
  forall h, q_ordered (getq st h) = true ->
    increasing (map snd (filter (fun p => Nat.eqb (fst p) h) (ps_delivered st))).
Proof.
  intros maxt prog s st stash Hp W E.
  destruct (T13_delivery_inv maxt prog st stash Hp) as (_ & _ & K); [exists s; split; assumption|].
  split; [apply (inv3_nodup_delivered st stash K)|]. intros h Ho. apply (inv3_increasing st stash h K Ho).
Qed.

Print Assumptions T13_delivery_inv.
Print Assumptions T13b.
Print Assumptions T13b_weak.
