(* sorter.c (C06): where spill files are created.  _mtbl_sorter_write_chunk builds the name
       tmp_dname ++ sprintf("/.mtbl.%ld.XXXXXX", (long) getpid())
   (strlen of tmp_dname, i.e. up to its first NUL) and hands it to mkstemp, which replaces the six
   trailing X.  With mkstemp modelled as "the six X become arbitrary characters other than '/'", every
   spill path is  tmp_dname ++ "/" ++ name  with a non-empty name that contains no '/': the file is
   created directly inside the configured directory.  The format string is SORTER_TEMPLATE of
   gen/Consts.v (scraped from sorter.c). *)
From Coq Require Import NArith ZArith Lia String Ascii Bool DecimalString List.
From Mtbl Require Import gen.Consts.
Import ListNotations.
Local Open Scope char_scope.
Local Open Scope list_scope.

Definition chars := list ascii.
Definition slash : ascii := "/".
Definition nul : ascii := "000".
Definition is_slash (c : ascii) : bool := Ascii.eqb c slash.

(* what strlen / a C string function sees of a buffer: up to the first NUL *)
Fixpoint c_str (s : chars) : chars :=
  match s with
  | [] => []
  | c :: tl => if Ascii.eqb c nul then [] else c :: c_str tl
  end.

Lemma c_str_no_nul : forall s, ~ In nul s -> c_str s = s.
Proof.
  induction s as [|c s IH]; intros H; [reflexivity|]. cbn [c_str].
  destruct (Ascii.eqb c nul) eqn:E.
  - apply Ascii.eqb_eq in E. exfalso. apply H. left. exact E.
  - f_equal. apply IH. intros Hin. apply H. right. exact Hin.
Qed.

(* sprintf with one %ld conversion: the first "%ld" of the format is replaced by the digits *)
Fixpoint subst_ld (t d : chars) : chars :=
  match t with
  | [] => []
  | c :: tl =>
    if Ascii.eqb c "%" && (match tl with c2 :: c3 :: _ => Ascii.eqb c2 "l" && Ascii.eqb c3 "d" | _ => false end)
    then d ++ skipn 2 tl
    else c :: subst_ld tl d
  end.

(* %ld of a long *)
Definition dec (z : Z) : chars := list_ascii_of_string (NilEmpty.string_of_int (Z.to_int z)).

Definition template_chars : chars := list_ascii_of_string SORTER_TEMPLATE.
Definition six_x : chars := ["X"; "X"; "X"; "X"; "X"; "X"].

(* the buffer handed to mkstemp *)
Definition spill_template (tmp_dname : chars) (pid : Z) : chars :=
  c_str tmp_dname ++ subst_ld template_chars (dec pid).

Fixpoint chars_eqb (a b : chars) : bool :=
  match a, b with
  | [], [] => true
  | x :: a', y :: b' => Ascii.eqb x y && chars_eqb a' b'
  | _, _ => false
  end.
Lemma chars_eqb_eq : forall a b, chars_eqb a b = true -> a = b.
Proof.
  induction a as [|x a IH]; intros [|y b] H; try discriminate; [reflexivity|]. cbn [chars_eqb] in H.
  apply andb_true_iff in H. destruct H as [H1 H2]. apply Ascii.eqb_eq in H1. subst. f_equal. apply IH, H2.
Qed.
Lemma chars_eqb_refl : forall a, chars_eqb a a = true.
Proof. induction a as [|x a IH]; [reflexivity|]. cbn [chars_eqb]. rewrite Ascii.eqb_refl. exact IH. Qed.

(* mkstemp(template) with the random suffix [r]: EINVAL (None) unless the template ends in XXXXXX;
   the suffix has six characters, none of them '/' *)
Definition mkstemp (tmpl r : chars) : option chars :=
  let n := (length tmpl - 6)%nat in
  if (6 <=? length tmpl)%nat && chars_eqb (skipn n tmpl) six_x &&
     (length r =? 6)%nat && forallb (fun c => negb (is_slash c)) r
  then Some (firstn n tmpl ++ r) else None.

(* the directory part of a path: everything before its last '/' *)
Fixpoint dirname (p : chars) : chars :=
  match p with
  | [] => []
  | c :: tl => if existsb is_slash tl then c :: dirname tl else []
  end.

(* ---- facts ------------------------------------------------------------------------------------------------- *)
Lemma uint_no_slash : forall d, ~ In slash (list_ascii_of_string (NilEmpty.string_of_uint d)).
Proof.
  induction d as [|d IH|d IH|d IH|d IH|d IH|d IH|d IH|d IH|d IH|d IH]; cbn [NilEmpty.string_of_uint list_ascii_of_string];
    [intros []| | | | | | | | | |]; (intros [H|H]; [discriminate H|exact (IH H)]).
Qed.
Lemma dec_no_slash z : ~ In slash (dec z).
Proof.
  unfold dec. destruct (Z.to_int z) as [d|d]; cbn [NilEmpty.string_of_int].
  - apply uint_no_slash.
  - cbn [list_ascii_of_string]. intros [H|H]; [discriminate H|exact (uint_no_slash d H)].
Qed.

(* the sprintf result: "/.mtbl." digits ".XXXXXX" *)
Lemma template_expanded d : subst_ld template_chars d = ["/"; "."; "m"; "t"; "b"; "l"; "."] ++ d ++ ["."] ++ six_x.
Proof. reflexivity. Qed.

Lemma firstn_skipn_app {A} (a b : list A) :
  firstn (length (a ++ b) - length b) (a ++ b) = a /\ skipn (length (a ++ b) - length b) (a ++ b) = b.
Proof.
  rewrite app_length. replace (length a + length b - length b)%nat with (length a + 0)%nat by lia.
  rewrite firstn_app_2, skipn_app. cbn [firstn]. rewrite app_nil_r.
  replace (length a + 0 - length a)%nat with 0%nat by lia. rewrite skipn_all2 by lia. split; reflexivity.
Qed.

Lemma forallb_no_slash r : forallb (fun c => negb (is_slash c)) r = true -> ~ In slash r.
Proof.
  intros H Hin. rewrite forallb_forall in H. specialize (H slash Hin). unfold is_slash in H.
  rewrite Ascii.eqb_refl in H. discriminate.
Qed.

Lemma dirname_app : forall dir name, ~ In slash name -> dirname (dir ++ slash :: name) = dir.
Proof.
  induction dir as [|c dir IH]; intros name Hn.
  - cbn [app dirname]. destruct (existsb is_slash name) eqn:E; [|reflexivity].
    apply existsb_exists in E. destruct E as (x & Hx & Es). unfold is_slash in Es. apply Ascii.eqb_eq in Es. subst x. contradiction.
  - cbn [app dirname].
    assert (E : existsb is_slash (dir ++ slash :: name) = true).
    { apply existsb_exists. exists slash. split; [apply in_or_app; right; left; reflexivity|]. unfold is_slash. apply Ascii.eqb_refl. }
    rewrite E, IH by exact Hn. reflexivity.
Qed.

(* the file name mkstemp creates inside the directory *)
Definition spill_name (pid : Z) (r : chars) : chars := ["."; "m"; "t"; "b"; "l"; "."] ++ dec pid ++ ["."] ++ r.

Lemma spill_name_no_slash pid r : ~ In slash r -> ~ In slash (spill_name pid r).
Proof.
  intros Hr Hin. unfold spill_name in Hin. apply in_app_or in Hin. destruct Hin as [Hin|Hin].
  - cbn [In] in Hin. repeat (destruct Hin as [Hin|Hin]; [discriminate Hin|]). exact Hin.
  - apply in_app_or in Hin. destruct Hin as [Hin|Hin]; [exact (dec_no_slash pid Hin)|].
    cbn [app In] in Hin. destruct Hin as [Hin|Hin]; [discriminate Hin|exact (Hr Hin)].
Qed.

(* mkstemp on the sorter's template: exactly the paths  c_str tmp_dname / .mtbl.<pid>.<six characters> *)
Theorem mkstemp_spill tmp_dname pid r :
  mkstemp (spill_template tmp_dname pid) r =
  if (length r =? 6)%nat && forallb (fun c => negb (is_slash c)) r
  then Some (c_str tmp_dname ++ slash :: spill_name pid r) else None.
Proof.
  unfold mkstemp, spill_template. rewrite template_expanded.
  set (base := c_str tmp_dname ++ ["/"; "."; "m"; "t"; "b"; "l"; "."] ++ dec pid ++ ["."]).
  assert (E : c_str tmp_dname ++ ["/"; "."; "m"; "t"; "b"; "l"; "."] ++ dec pid ++ ["."] ++ six_x = base ++ six_x).
  { unfold base. rewrite <- !app_assoc. reflexivity. }
  rewrite E. destruct (firstn_skipn_app base six_x) as [Hf Hs]. change (length six_x) with 6%nat in Hf, Hs.
  rewrite Hf, Hs, chars_eqb_refl.
  assert (Hlen : (6 <=? length (base ++ six_x))%nat = true) by (apply Nat.leb_le; rewrite app_length; cbn [six_x length]; lia).
  rewrite Hlen. cbn [andb].
  destruct ((length r =? 6)%nat && forallb (fun c => negb (is_slash c)) r); [|reflexivity].
  f_equal. unfold base, spill_name, slash. rewrite <- !app_assoc. reflexivity.
Qed.

(* T5 *)
Theorem spill_path_inside_tmp_dir tmp_dname pid r path :
  ~ In nul tmp_dname ->
  mkstemp (spill_template tmp_dname pid) r = Some path ->
  exists name, path = tmp_dname ++ slash :: name /\ name <> [] /\ ~ In slash name /\
               (length (tmp_dname ++ [slash]) < length path)%nat /\ firstn (length (tmp_dname ++ [slash])) path = tmp_dname ++ [slash] /\
               dirname path = tmp_dname.
Proof.
  intros Hnul H. rewrite mkstemp_spill, (c_str_no_nul _ Hnul) in H.
  destruct ((length r =? 6)%nat && forallb (fun c => negb (is_slash c)) r) eqn:E; [|discriminate].
  apply andb_true_iff in E. destruct E as [_ Er]. inversion H; subst path; clear H.
  pose proof (spill_name_no_slash pid r (forallb_no_slash r Er)) as Hns.
  exists (spill_name pid r). split; [reflexivity|]. split; [unfold spill_name; discriminate|]. split; [exact Hns|].
  split; [|split].
  - rewrite !app_length. unfold spill_name. cbn [length app]. lia.
  - change (tmp_dname ++ slash :: spill_name pid r) with (tmp_dname ++ [slash] ++ spill_name pid r).
    rewrite app_assoc, firstn_app, firstn_all, Nat.sub_diag. cbn [firstn]. apply app_nil_r.
  - apply dirname_app, Hns.
Qed.

(* mkstemp does succeed on the template for every admissible suffix (the statement above is not vacuous) *)
Theorem mkstemp_spill_succeeds tmp_dname pid r :
  length r = 6%nat -> ~ In slash r -> exists path, mkstemp (spill_template tmp_dname pid) r = Some path.
Proof.
  intros Hl Hr. rewrite mkstemp_spill. rewrite (proj2 (Nat.eqb_eq _ _) Hl).
  assert (E : forallb (fun c => negb (is_slash c)) r = true).
  { apply forallb_forall. intros x Hx. unfold is_slash. destruct (Ascii.eqb x slash) eqn:Ex; [|reflexivity].
    apply Ascii.eqb_eq in Ex. subst x. contradiction. }
  rewrite E. eexists. reflexivity.
Qed.

(* a directory name with an embedded NUL: the C code uses what precedes it *)
Theorem spill_path_c_string tmp_dname pid r path :
  mkstemp (spill_template tmp_dname pid) r = Some path ->
  exists name, path = c_str tmp_dname ++ slash :: name /\ name <> [] /\ ~ In slash name /\ dirname path = c_str tmp_dname.
Proof.
  intros H. rewrite mkstemp_spill in H.
  destruct ((length r =? 6)%nat && forallb (fun c => negb (is_slash c)) r) eqn:E; [|discriminate].
  apply andb_true_iff in E. destruct E as [_ Er]. inversion H; subst path; clear H.
  pose proof (spill_name_no_slash pid r (forallb_no_slash r Er)) as Hns.
  exists (spill_name pid r). split; [reflexivity|]. split; [unfold spill_name; discriminate|]. split; [exact Hns|apply dirname_app, Hns].
Qed.

Example spill_example :
  mkstemp (spill_template (list_ascii_of_string DEFAULT_SORTER_TEMP_DIR) 4242) (list_ascii_of_string "a1B2c3")
  = Some (list_ascii_of_string "/var/tmp/.mtbl.4242.a1B2c3") /\
  dirname (list_ascii_of_string "/var/tmp/.mtbl.4242.a1B2c3") = list_ascii_of_string "/var/tmp" /\
  mkstemp (spill_template (list_ascii_of_string "/var/tmp") 4242) (list_ascii_of_string "a/B2c3") = None.
Proof. vm_compute. repeat split. Qed.

Print Assumptions spill_path_inside_tmp_dir.
Print Assumptions mkstemp_spill_succeeds.
Print Assumptions spill_path_c_string.
