(* Schedules of the thread-pool LTS (model/Pool.v) and the statements about them that the proof files and
   props/Properties_C13.v share. *)
From Coq Require Import NArith List Lia.
From Mtbl Require Import model.Bytes model.Pool.
Local Open Scope N_scope.

(* a schedule: at each step, the thread that runs; for a signal the waiter woken (if any);
   or a spurious wake-up of a blocked thread *)
Inductive sched_step := SRun (t : nat) (wake : option nat) | SSpurious (t : nat).

Fixpoint prun (st : pstate) (stash : list (nat * N)) (s : list sched_step) : option (pstate * list (nat * N)) :=
  match s with
  | [] => Some (st, stash)
  | SRun t w :: tl => match pstep st t w stash with
                      | Some (st', _, _, stash') => prun st' stash' tl
                      | None => None
                      end
  | SSpurious t :: tl => match pspurious st t with Some st' => prun st' stash tl | None => None end
  end.


(* statements referred to by the proof files *)
Definition terminal (st : pstate) : Prop := forall t, enabled st t = false.
Definition all_done (st : pstate) : Prop := Forall (fun th => t_done th = true) (ps_threads st).
Definition T13d_statement : Prop :=   (* no hang: without spurious wake-ups, a state where nothing can run has finished *)
  forall maxt prog s st stash, 1 <= maxt ->
    prun (pool_init maxt prog) [] s = Some (st, stash) -> terminal st -> all_done st /\ ps_abort st = false.
Fixpoint increasing (l : list N) : Prop :=
  match l with a :: ((b :: _) as tl) => a < b /\ increasing tl | _ => True end.
Definition T13b_statement : Prop :=   (* job ids grow with dispatch order: ordered handlers deliver in that order, nobody delivers twice *)
  forall maxt prog s st stash, prun (pool_init maxt prog) [] s = Some (st, stash) ->
    NoDup (ps_delivered st) /\
    forall h, q_ordered (getq st h) = true ->
      increasing (map snd (filter (fun p => Nat.eqb (fst p) h) (ps_delivered st))).

