(* Reader iterators (reader.c) refine a cursor over the sorted list of all entries, for every
   history of next / seek calls and the four iterator kinds.  The table is abstract: an
   index block and data blocks that satisfy wfb, with the separator conditions of the
   format; how such blocks arise from bytes is the business of ParseProofs. *)
From Coq Require Import NArith ZArith List Lia ZifyBool ZifyN ZifyNat Sorting.Sorted.
From Mtbl Require Import gen.Consts model.Bytes model.Codec model.Order spec.Parse model.Reader
  proofs.BytesLemmas proofs.OrderProofs proofs.BlockProofs proofs.LookupProofs.
Local Open Scope N_scope.
Ltac splits := repeat match goal with |- _ /\ _ => split end.

Section Table.
Variable decompress : N -> bytes -> res bytes.
Variable r : reader.
Variable ib : ablock.
Variable iridx : list nat.
Variable nb : nat.
Variable B : nat -> ablock.
Variable Rr : nat -> list nat.

Definition ioff (i : nat) : N :=
  match varint_decode64 (pe_val (entry_at ib i)) with Ok (v, _) => v | _ => 0 end.

Hypothesis Hidx : r_index r = Some ib.
Hypothesis Wib : wfb ib iridx.
Hypothesis Hnb : nentries ib = nb.
Hypothesis Hget : forall i, (i < nb)%nat -> get_block decompress r (ioff i) = Ok (B i).
Hypothesis HW : forall i, (i < nb)%nat -> wfb (B i) (Rr i).
Hypothesis Hinj : forall i j, (i < nb)%nat -> (j < nb)%nat -> ioff i = ioff j -> i = j.
Hypothesis Hsep1 : forall i, (i < nb)%nat -> bcmp (key_at (B i) (nentries (B i) - 1)) (key_at ib i) <> Gt.
Hypothesis Hsep2 : forall i, (S i < nb)%nat -> bcmp (key_at ib i) (key_at (B (S i)) 0) = Lt.

Lemma index_offset_ioff s : index_offset ib s = ioff (bs_cur s).
Proof. reflexivity. Qed.

(* ---- the global entry list ------------------------------------------------------------ *)
Definition G_upto (i : nat) : list pentry := concat (map (fun k => ab_entries (B k)) (seq 0 i)).
Definition G : list pentry := G_upto nb.
Definition base (i : nat) : nat := length (G_upto i).
Definition total : nat := length G.
Definition gkey (p : nat) : bytes := pe_key (nth p G dummy_pe).

Lemma G_upto_S i : G_upto (S i) = G_upto i ++ ab_entries (B i).
Proof. unfold G_upto. rewrite seq_S, map_app, concat_app. cbn. rewrite app_nil_r. reflexivity. Qed.
Lemma base_S i : base (S i) = (base i + nentries (B i))%nat.
Proof. unfold base. rewrite G_upto_S, app_length. reflexivity. Qed.
Lemma base_mono i j : (i <= j)%nat -> (base i <= base j)%nat.
Proof. induction 1 as [|j Hle IH]; [lia|]. rewrite base_S. lia. Qed.

Lemma G_upto_prefix : forall i j, (i <= j)%nat -> exists rest, G_upto j = G_upto i ++ rest.
Proof.
  intros i j H. induction H as [|j Hle [rest IH]]; [exists []; rewrite app_nil_r; reflexivity|].
  exists (rest ++ ab_entries (B j)). rewrite G_upto_S, IH, app_assoc. reflexivity.
Qed.

Lemma nth_G i j : (i < nb)%nat -> (j < nentries (B i))%nat -> nth (base i + j) G dummy_pe = entry_at (B i) j.
Proof.
  intros Hi Hj. unfold G. destruct (G_upto_prefix (S i) nb ltac:(lia)) as [rest ->].
  rewrite G_upto_S, <- app_assoc. unfold base. rewrite app_nth2_plus.
  rewrite app_nth1 by exact Hj. reflexivity.
Qed.
Lemma base_le_total i : (i <= nb)%nat -> (base i <= total)%nat.
Proof. intros H. unfold total, G. apply base_mono, H. Qed.
Lemma base_nb : base nb = total.
Proof. reflexivity. Qed.

Lemma gkey_at i j : (i < nb)%nat -> (j < nentries (B i))%nat -> gkey (base i + j) = key_at (B i) j.
Proof. intros Hi Hj. unfold gkey. rewrite nth_G by assumption. reflexivity. Qed.

(* every global position lies in exactly one block *)
Lemma locate : forall p, (p < total)%nat -> exists i j, (i < nb)%nat /\ (j < nentries (B i))%nat /\ p = (base i + j)%nat.
Proof.
  intros p Hp. unfold total, G in Hp.
  assert (Hgen : forall n, (n <= nb)%nat -> (p < base n)%nat -> exists i j, (i < n)%nat /\ (j < nentries (B i))%nat /\ p = (base i + j)%nat).
  { induction n as [|n IH]; intros Hn Hlt; [unfold base, G_upto in Hlt; cbn in Hlt; lia|].
    rewrite base_S in Hlt. destruct (Nat.lt_ge_cases p (base n)) as [Hl|Hg].
    - destruct (IH ltac:(lia) Hl) as (i & j & Hi & Hj & E). exists i, j. splits; [lia|exact Hj|exact E].
    - exists n, (p - base n)%nat. splits; lia. }
  destruct (Hgen nb (le_n _) Hp) as (i & j & Hi & Hj & E). exists i, j. splits; assumption.
Qed.

Lemma blocks_nonempty i : (i < nb)%nat -> (0 < nentries (B i))%nat.
Proof. intros Hi. exact (wb_ne _ _ (HW i Hi)). Qed.

(* ---- global order ----------------------------------------------------------------------- *)
Lemma bkey_lt i a b : (i < nb)%nat -> (a < b < nentries (B i))%nat -> bcmp (key_at (B i) a) (key_at (B i) b) = Lt.
Proof. intros Hi H. exact (wb_key_inc _ _ (HW i Hi) a b H). Qed.
Lemma bkey_le i a b : (i < nb)%nat -> (a <= b < nentries (B i))%nat -> bcmp (key_at (B i) a) (key_at (B i) b) <> Gt.
Proof.
  intros Hi H. destruct (Nat.eq_dec a b) as [->|Hne]; [rewrite bcmp_refl; discriminate|].
  rewrite (bkey_lt i a b Hi ltac:(lia)). discriminate.
Qed.
Lemma ikey_lt a b : (a < b < nb)%nat -> bcmp (key_at ib a) (key_at ib b) = Lt.
Proof. intros H. apply (wb_key_inc _ _ Wib). rewrite Hnb. exact H. Qed.
Lemma ikey_le a b : (a <= b < nb)%nat -> bcmp (key_at ib a) (key_at ib b) <> Gt.
Proof.
  intros H. destruct (Nat.eq_dec a b) as [->|Hne]; [rewrite bcmp_refl; discriminate|].
  rewrite (ikey_lt a b ltac:(lia)). discriminate.
Qed.

(* every key of block i is <= separator i *)
Lemma key_le_sep i j : (i < nb)%nat -> (j < nentries (B i))%nat -> bcmp (key_at (B i) j) (key_at ib i) <> Gt.
Proof.
  intros Hi Hj. pose proof (bkey_le i j (nentries (B i) - 1) Hi ltac:(lia)) as H1. pose proof (Hsep1 i Hi) as H2.
  destruct (bcmp (key_at (B i) j) (key_at (B i) (nentries (B i) - 1))) eqn:E1.
  - apply bcmp_eq in E1. rewrite E1. exact H2.
  - intros Hc. apply bcmp_lt_gt in Hc. pose proof (bcmp_lt_trans _ _ _ Hc E1) as H3.
    apply bcmp_lt_gt in H3. congruence.
  - congruence.
Qed.
(* separator i is < every key of any later block *)
Lemma sep_lt_later i i' j : (i < i')%nat -> (i' < nb)%nat -> (j < nentries (B i'))%nat -> bcmp (key_at ib i) (key_at (B i') j) = Lt.
Proof.
  intros Hlt Hi' Hj.
  assert (H1 : bcmp (key_at ib i) (key_at (B i') 0) = Lt).
  { destruct i' as [|k]; [lia|]. pose proof (Hsep2 k Hi') as Hs.
    destruct (Nat.eq_dec i k) as [->|Hne]; [exact Hs|].
    eapply bcmp_lt_trans; [apply (ikey_lt i k); lia|exact Hs]. }
  destruct (Nat.eq_dec j 0) as [->|Hne]; [exact H1|].
  eapply bcmp_lt_trans; [exact H1|apply (bkey_lt i' 0 j Hi'); lia].
Qed.

Lemma gkey_lt p q : (p < q < total)%nat -> bcmp (gkey p) (gkey q) = Lt.
Proof.
  intros [Hpq Hq]. destruct (locate p ltac:(lia)) as (i & j & Hi & Hj & ->).
  destruct (locate q Hq) as (i' & j' & Hi' & Hj' & ->).
  rewrite !gkey_at by assumption.
  destruct (Nat.lt_trichotomy i i') as [Hlt|[->|Hgt]].
  - eapply bcmp_le_lt_trans; [apply key_le_sep; assumption|apply sep_lt_later; assumption].
  - apply bkey_lt; [exact Hi'|lia].
  - exfalso. pose proof (base_mono (S i') i ltac:(lia)) as Hb. rewrite base_S in Hb. lia.
Qed.

(* ---- first position with key >= k ------------------------------------------------------- *)
Definition gfirst (k : bytes) : nat := count_lt G k.

Lemma count_lt_unique : forall (l : list pentry) k p, (p <= length l)%nat ->
  (forall q, (q < p)%nat -> bcmp (pe_key (nth q l dummy_pe)) k = Lt) ->
  ((p < length l)%nat -> bcmp (pe_key (nth p l dummy_pe)) k <> Lt) ->
  count_lt l k = p.
Proof.
  induction l as [|e l IH]; intros k p Hp Hbefore Hat.
  - cbn in Hp. cbn. lia.
  - cbn [count_lt]. destruct p as [|p].
    + specialize (Hat ltac:(cbn; lia)). cbn [nth] in Hat. destruct (bcmp (pe_key e) k); try reflexivity. congruence.
    + pose proof (Hbefore 0%nat ltac:(lia)) as H0. cbn [nth] in H0. rewrite H0. f_equal.
      apply IH; [cbn in Hp; lia| |].
      * intros q Hq. apply (Hbefore (S q)). lia.
      * intros Hlt. apply Hat. cbn. lia.
Qed.

Lemma gfirst_unique k p : (p <= total)%nat ->
  (forall q, (q < p)%nat -> bcmp (gkey q) k = Lt) -> ((p < total)%nat -> bcmp (gkey p) k <> Lt) -> gfirst k = p.
Proof. intros. apply count_lt_unique; assumption. Qed.

(* the index says block i': separators before i' are < key, separator i' is not; the block
   iterator of B i' is positioned for key: where is the first global entry >= key? *)
Lemma gfirst_from_block i' bi' key : (i' < nb)%nat ->
  (forall j, (j < i')%nat -> bcmp (key_at ib j) key = Lt) ->
  bcmp (key_at ib i') key <> Lt ->
  positioned (B i') (Rr i') bi' key ->
  gfirst key = (if bs_valid bi' then base i' + bs_cur bi' else base (S i'))%nat.
Proof.
  intros Hi Hbefore Hsep (Hok & Hlt & Hge).
  assert (Hblocks_before : forall q, (q < base i')%nat -> bcmp (gkey q) key = Lt).
  { intros q Hq. destruct (locate q ltac:(pose proof (base_le_total i' ltac:(lia)); lia)) as (i & j & Hib & Hj & ->).
    assert (Hii : (i < i')%nat).
    { destruct (Nat.lt_ge_cases i i') as [|Hge']; [assumption|]. pose proof (base_mono i' i Hge'). lia. }
    rewrite gkey_at by assumption.
    eapply bcmp_le_lt_trans; [apply key_le_sep; assumption|apply Hbefore, Hii]. }
  pose proof (base_le_total (S i') ltac:(lia)) as Hbt. rewrite base_S in Hbt.
  destruct (bs_valid bi') eqn:Ev.
  - unfold st_ok in Hok. rewrite Ev in Hok. destruct Hok as (Hcur & _).
    apply gfirst_unique; [lia| |].
    + intros q Hq. destruct (Nat.lt_ge_cases q (base i')) as [Hl|Hg]; [apply Hblocks_before, Hl|].
      replace q with (base i' + (q - base i'))%nat by lia. rewrite gkey_at by (try assumption; lia).
      apply Hlt; lia.
    + intros _. rewrite gkey_at by assumption. apply Hge. reflexivity.
  - rewrite base_S. apply gfirst_unique; [lia| |].
    + intros q Hq. destruct (Nat.lt_ge_cases q (base i')) as [Hl|Hg]; [apply Hblocks_before, Hl|].
      replace q with (base i' + (q - base i'))%nat by lia. rewrite gkey_at by (try assumption; lia).
      apply Hlt; lia.
    + intros Hlt2.
      assert (Hnext : (S i' < nb)%nat).
      { destruct (Nat.lt_ge_cases (S i') nb) as [|Hge2]; [assumption|].
        assert (S i' = nb) by lia. rewrite <- base_S in Hlt2. rewrite H in Hlt2. rewrite base_nb in Hlt2. lia. }
      rewrite <- base_S. replace (base (S i')) with (base (S i') + 0)%nat by lia.
      rewrite gkey_at by (try assumption; apply blocks_nonempty; assumption).
      intros Hc. apply Hsep. eapply bcmp_lt_trans; [apply (Hsep2 i' Hnext)|exact Hc].
Qed.

Lemma gfirst_past_all key : (forall j, (j < nb)%nat -> bcmp (key_at ib j) key = Lt) -> gfirst key = total.
Proof.
  intros H. apply gfirst_unique; [lia| |lia].
  intros q Hq. destruct (locate q Hq) as (i & j & Hi & Hj & ->). rewrite gkey_at by assumption.
  eapply bcmp_le_lt_trans; [apply key_le_sep; assumption|apply H, Hi].
Qed.

(* ---- iterator invariant and abstraction ------------------------------------------------- *)
Definition it_ok (it : riter) : Prop :=
  st_ok ib iridx (it_index it) /\
  match it_b it with
  | None => it_valid it = false
  | Some (o, b) =>
    exists i, (i < nb)%nat /\ o = ioff i /\ b = B i /\ it_block_offset it = o /\
              st_ok (B i) (Rr i) (it_bi it) /\
              (bs_valid (it_index it) = true -> bs_cur (it_index it) = i) /\
              (it_valid it = true -> bs_valid (it_index it) = true /\ (it_first it = false -> bs_valid (it_bi it) = true))
  end.

(* global position of the next entry to deliver; None = failed (sticky) *)
Definition abs (it : riter) : option nat :=
  if negb (it_valid it) then None else
  match it_b it with
  | None => None
  | Some _ =>
    let i := bs_cur (it_index it) in
    if it_first it then (if bs_valid (it_bi it) then Some (base i + bs_cur (it_bi it)) else Some (base (S i)))%nat
    else Some (base i + bs_cur (it_bi it) + 1)%nat
  end.

Definition spec_next (kind : ikind) (k : bytes) (c : option nat) : option nat * option entry :=
  match c with
  | None => (None, None)
  | Some p =>
    if (p <? total)%nat then
      let e := nth p G dummy_pe in
      if bound_ok kind k (pe_key e) then (Some (S p), Some (pe_key e, pe_val e)) else (None, None)
    else (None, None)
  end.

Lemma st_ok_ib_valid s : st_ok ib iridx s -> bs_valid s = true -> (bs_cur s < nb)%nat.
Proof. intros H Hv. unfold st_ok in H. rewrite Hv, Hnb in H. tauto. Qed.

(* advancing the index iterator and loading the next block *)
Lemma next_block it i : it_ok it -> it_valid it = true -> it_b it = Some (ioff i, B i) -> (i < nb)%nat ->
  bs_cur (it_index it) = i ->
  let idx1 := block_next ib (it_index it) in
  st_ok ib iridx idx1 /\
  ((S i < nb)%nat -> bs_valid idx1 = true /\ bs_cur idx1 = S i) /\ (~ (S i < nb)%nat -> bs_valid idx1 = false).
Proof.
  intros (Hidxok & Hb) Hv Eb Hi Hc. rewrite Eb in Hb. destruct Hb as (i0 & _ & _ & _ & _ & _ & _ & Hval).
  destruct (Hval Hv) as [Hiv _].
  destruct (block_next_ok ib iridx Wib (it_index it) Hidxok Hiv) as [Hok Hn]. rewrite Hc, Hnb in Hn.
  split; [exact Hok|]. split.
  - intros Hlt. replace (S i <? nb)%nat with true in Hn by lia. exact Hn.
  - intros Hge. replace (S i <? nb)%nat with false in Hn by lia. exact Hn.
Qed.

(* T03b (reader level), next: one call refines one step of the cursor *)
Theorem reader_next_refines it : it_ok it ->
  exists it' e, reader_iter_next decompress r it = Ok (it', e) /\ it_ok it' /\
    (abs it', e) = spec_next (it_kind it) (it_k it) (abs it) /\ it_kind it' = it_kind it /\ it_k it' = it_k it.
Proof.
  intros Hok. unfold reader_iter_next. rewrite Hidx.
  destruct (it_valid it) eqn:Ev; cbn [negb].
  2:{ exists it, None. splits; try reflexivity; [exact Hok|]. unfold abs. rewrite Ev. reflexivity. }
  pose proof Hok as (Hidxok & Hb).
  destruct (it_b it) as [[o b]|] eqn:Eb; [|congruence].
  destruct Hb as (i & Hi & -> & -> & Hoff & Hbi & Hcur & Hval).
  destruct (Hval Ev) as [Hiv Hnf]. specialize (Hcur Hiv).
  pose proof (HW i Hi) as Wi.
  (* a helper: what happens when block i is exhausted *)
  assert (Hexh : forall bi1, bs_valid bi1 = false ->
    exists it' e,
      (let idx1 := block_next ib (it_index it) in
       let step := if negb (bs_valid idx1) then Ok (None, it_block_offset it, bi1, idx1, false)
                   else match get_block decompress r (index_offset ib idx1) with
                        | Ok nb0 => match block_seek_to_first nb0 with
                                    | Ok nbi => Ok (Some (index_offset ib idx1, nb0), index_offset ib idx1, nbi, idx1, bs_valid nbi)
                                    | _ => Abort end
                        | Abort => Abort | Oob => Oob | Fail => Fail end in
       match step with
       | Ok (blk, boff, bi2, idx2, valid) =>
         if negb valid then Ok (mkri (it_kind it) (it_k it) boff blk bi2 idx2 false false, None)
         else match blk with
              | Some (_, cb) => let e := entry_at cb (bs_cur bi2) in
                                let ok := bound_ok (it_kind it) (it_k it) (pe_key e) in
                                Ok (mkri (it_kind it) (it_k it) boff blk bi2 idx2 false ok, if ok then Some (pe_key e, pe_val e) else None)
              | None => Abort end
       | Abort => Abort | Oob => Oob | Fail => Fail
       end) = Ok (it', e) /\ it_ok it' /\
      (abs it', e) = spec_next (it_kind it) (it_k it) (Some (base (S i))) /\ it_kind it' = it_kind it /\ it_k it' = it_k it).
  { intros bi1 Hbv.
    destruct (next_block it i Hok Ev Eb Hi Hcur) as (Hok1 & Hlt & Hge). cbn zeta.
    destruct (Nat.lt_ge_cases (S i) nb) as [Hnext|Hlast].
    - destruct (Hlt Hnext) as [Hv1 Hc1]. rewrite Hv1. cbn [negb]. rewrite index_offset_ioff, Hc1, (Hget (S i) Hnext).
      destruct (seek_first_ok (B (S i)) (Rr (S i)) (HW (S i) Hnext)) as (s0 & -> & Hs0 & Hs0v & Hs0c).
      rewrite Hs0v. cbn [negb]. rewrite Hs0c.
      eexists _, _. split; [reflexivity|].
      unfold spec_next.
      pose proof (base_le_total (S (S i)) ltac:(lia)) as Hbt. rewrite base_S in Hbt.
      pose proof (blocks_nonempty (S i) Hnext) as Hne.
      replace (base (S i) <? total)%nat with true by lia.
      assert (Hnth : nth (base (S i)) G dummy_pe = entry_at (B (S i)) 0).
      { rewrite <- (nth_G (S i) 0 Hnext Hne). f_equal. lia. }
      rewrite Hnth.
      destruct (bound_ok (it_kind it) (it_k it) (pe_key (entry_at (B (S i)) 0))) eqn:Ebd.
      + splits; try reflexivity.
        * unfold it_ok. cbn [it_index it_b it_valid it_block_offset it_bi it_first]. split; [exact Hok1|].
          exists (S i). splits; try reflexivity; try assumption; try (intros; assumption).
          intros _. split; [exact Hv1|intros _; exact Hs0v].
        * unfold abs. cbn [it_valid it_b it_first it_index it_bi negb]. rewrite Hc1, Hs0c. f_equal. f_equal. lia.
      + splits; try reflexivity.
        * unfold it_ok. cbn [it_index it_b it_valid it_block_offset it_bi it_first]. split; [exact Hok1|].
          exists (S i). splits; try reflexivity; try assumption; try (intros; assumption). intros; discriminate.
    - rewrite (Hge ltac:(lia)). cbn [negb].
      eexists _, _. split; [reflexivity|]. splits; try reflexivity.
      + unfold it_ok. cbn [it_index it_b it_valid]. split; [exact Hok1|reflexivity].
      + unfold spec_next, abs. cbn [it_valid negb].
        assert (S i = nb) by lia. rewrite H, base_nb. replace (total <? total)%nat with false by lia. reflexivity. }
  destruct (it_first it) eqn:Ef.
  - (* the entry at the current position, if any *)
    destruct (bs_valid (it_bi it)) eqn:Ebv.
    + assert (Hj : (bs_cur (it_bi it) < nentries (B i))%nat) by (unfold st_ok in Hbi; rewrite Ebv in Hbi; tauto).
      eexists _, _. split; [reflexivity|].
      unfold abs. rewrite Ev, Eb, Ef, Ebv, Hcur. cbn [negb]. unfold spec_next.
      pose proof (base_le_total (S i) ltac:(lia)) as Hbt. rewrite base_S in Hbt.
      replace (base i + bs_cur (it_bi it) <? total)%nat with true by lia. rewrite (nth_G i _ Hi Hj).
      destruct (bound_ok _ _ _) eqn:Ebd.
      * splits; try reflexivity.
        -- unfold it_ok. cbn [it_index it_b it_valid it_block_offset it_bi it_first]. split; [exact Hidxok|].
           exists i. splits; try reflexivity; try assumption; try (intros; assumption). intros _. split; [exact Hiv|intros _; exact Ebv].
        -- cbn [it_valid it_b it_first it_index it_bi negb]. rewrite Hcur. f_equal. f_equal. lia.
      * splits; try reflexivity.
        unfold it_ok. cbn [it_index it_b it_valid it_block_offset it_bi it_first]. split; [exact Hidxok|].
        exists i. splits; try reflexivity; try assumption; try (intros; assumption). intros; discriminate.
    + destruct (Hexh (it_bi it) Ebv) as (it' & e & Hr & Hok' & Hs & Hk1 & Hk2).
      exists it', e. split; [exact Hr|]. splits; try assumption.
      unfold abs at 2. rewrite Ev, Eb, Ef, Ebv, Hcur. cbn [negb]. exact Hs.
  - (* not first: step inside the block *)
    specialize (Hnf eq_refl).
    destruct (block_next_ok (B i) (Rr i) Wi (it_bi it) Hbi Hnf) as [Hok1 Hn].
    assert (Hj : (bs_cur (it_bi it) < nentries (B i))%nat) by (unfold st_ok in Hbi; rewrite Hnf in Hbi; tauto).
    destruct (S (bs_cur (it_bi it)) <? nentries (B i))%nat eqn:Elt.
    + destruct Hn as [Hv1 Hc1]. rewrite Hv1.
      eexists _, _. split; [reflexivity|].
      unfold abs. rewrite Ev, Eb, Ef, Hcur. cbn [negb]. unfold spec_next.
      pose proof (base_le_total (S i) ltac:(lia)) as Hbt. rewrite base_S in Hbt.
      replace (base i + bs_cur (it_bi it) + 1 <? total)%nat with true by lia.
      replace (base i + bs_cur (it_bi it) + 1)%nat with (base i + S (bs_cur (it_bi it)))%nat by lia.
      rewrite (nth_G i (S (bs_cur (it_bi it))) Hi ltac:(lia)). rewrite Hc1.
      destruct (bound_ok _ _ _) eqn:Ebd.
      * splits; try reflexivity.
        -- unfold it_ok. cbn [it_index it_b it_valid it_block_offset it_bi it_first]. split; [exact Hidxok|].
           exists i. splits; try reflexivity; try assumption; try (intros; assumption). intros _. split; [exact Hiv|intros _; exact Hv1].
        -- cbn [it_valid it_b it_first it_index it_bi negb]. rewrite Hcur, Hc1. f_equal. f_equal. lia.
      * splits; try reflexivity.
        unfold it_ok. cbn [it_index it_b it_valid it_block_offset it_bi it_first]. split; [exact Hidxok|].
        exists i. splits; try reflexivity; try assumption; try (intros; assumption). intros; discriminate.
    + rewrite Hn.
      destruct (Hexh (block_next (B i) (it_bi it)) Hn) as (it' & e & Hr & Hok' & Hs & Hk1 & Hk2).
      exists it', e. split; [exact Hr|]. splits; try assumption.
      unfold abs at 2. rewrite Ev, Eb, Ef, Hcur. cbn [negb].
      replace (base i + bs_cur (it_bi it) + 1)%nat with (base (S i)) by (rewrite base_S; lia). exact Hs.
Qed.

(* ---- seek ------------------------------------------------------------------------------- *)
(* what the index iterator says once it is positioned for key *)
Lemma index_positioned_facts idx key : positioned ib iridx idx key ->
  (bs_valid idx = true -> (bs_cur idx < nb)%nat /\
     (forall j, (j < bs_cur idx)%nat -> bcmp (key_at ib j) key = Lt) /\ bcmp (key_at ib (bs_cur idx)) key <> Lt) /\
  (bs_valid idx = false -> forall j, (j < nb)%nat -> bcmp (key_at ib j) key = Lt).
Proof.
  intros (Hok & Hlt & Hge). split.
  - intros Hv. rewrite Hv in Hlt. splits; [apply st_ok_ib_valid; assumption| |apply Hge, Hv].
    intros j Hj. apply Hlt; [|exact Hj]. pose proof (st_ok_ib_valid _ Hok Hv). rewrite Hnb. lia.
  - intros Hv. rewrite Hv in Hlt. intros j Hj. apply Hlt; rewrite Hnb; exact Hj.
Qed.

(* the state after a seek: either the iterator is failed and no entry is >= key, or it stands
   before the first entry >= key *)
Definition seek_post (it' : riter) (key : bytes) : Prop :=
  it_ok it' /\ ((abs it' = Some (gfirst key)) \/ (abs it' = None /\ gfirst key = total)).

Lemma finish_seek it idx i' bi0 key (blk_same : bool) :
  st_ok ib iridx idx -> bs_valid idx = true -> bs_cur idx = i' -> (i' < nb)%nat ->
  (forall j, (j < i')%nat -> bcmp (key_at ib j) key = Lt) -> bcmp (key_at ib i') key <> Lt ->
  st_ok (B i') (Rr i') bi0 ->
  exists bi, block_seek (B i') bi0 key = Ok bi /\
    seek_post (mkri (it_kind it) (it_k it) (ioff i') (Some (ioff i', B i')) bi idx true true) key.
Proof.
  intros Hidxok Hiv Hc Hi Hbefore Hsep Hbi0.
  destruct (block_seek_ok (B i') (Rr i') (HW i' Hi) bi0 key Hbi0) as (bi & Hseek & Hpos).
  exists bi. split; [exact Hseek|].
  pose proof (gfirst_from_block i' bi key Hi Hbefore Hsep Hpos) as Hg.
  destruct Hpos as (Hbiok & _ & _).
  split.
  - unfold it_ok. cbn [it_index it_b it_valid it_block_offset it_bi it_first]. split; [exact Hidxok|].
    exists i'. splits; try reflexivity; try assumption; try (intros; assumption).
    intros _. split; [exact Hiv|intros; discriminate].
  - left. unfold abs. cbn [it_valid it_b it_first it_index it_bi negb]. rewrite Hc, Hg.
    destruct (bs_valid bi); reflexivity.
Qed.

(* T03b (reader level), seek *)
Theorem reader_seek_refines it key : it_ok it ->
  exists it', reader_iter_seek decompress r it key = Ok (it', true) /\ seek_post it' key /\
    it_kind it' = it_kind it /\ it_k it' = it_k it.
Proof.
  intros Hok. unfold reader_iter_seek. rewrite Hidx.
  pose proof Hok as (Hidxok & Hb).
  destruct (needs_index_seek ib it key) eqn:Ens.
  - (* the index is consulted *)
    destruct (block_seek_ok ib iridx Wib (it_index it) key Hidxok) as (idx & -> & Hpos).
    pose proof (index_positioned_facts idx key Hpos) as [Hvalid Hinvalid].
    destruct Hpos as (Hidx'ok & _ & _).
    destruct (bs_valid idx) eqn:Eiv; cbn [negb].
    + destruct (Hvalid eq_refl) as (Hi' & Hbefore & Hsep).
      rewrite index_offset_ioff.
      set (i' := bs_cur idx) in *.
      (* reuse of the decoded block: only when it is the block the index points to *)
      destruct (it_b it) as [[o b]|] eqn:Eb.
      * destruct Hb as (i & Hi & -> & -> & Hoff & Hbi & Hcur & Hval).
        rewrite Hoff. destruct (ioff i =? ioff i') eqn:Eo.
        -- apply N.eqb_eq in Eo. pose proof (Hinj i i' Hi Hi' Eo) as ->.
           destruct (finish_seek it idx i' (it_bi it) key true Hidx'ok Eiv eq_refl Hi' Hbefore Hsep Hbi) as (bi & -> & Hpost).
           eexists. split; [reflexivity|]. splits; [exact Hpost|reflexivity|reflexivity].
        -- rewrite (Hget i' Hi').
           destruct (finish_seek it idx i' (bs_invalid (B i')) key false Hidx'ok Eiv eq_refl Hi' Hbefore Hsep
                       (st_ok_invalid (B i') (Rr i') (HW i' Hi'))) as (bi & -> & Hpost).
           eexists. split; [reflexivity|]. splits; [exact Hpost|reflexivity|reflexivity].
      * rewrite (Hget i' Hi').
        destruct (finish_seek it idx i' (bs_invalid (B i')) key false Hidx'ok Eiv eq_refl Hi' Hbefore Hsep
                    (st_ok_invalid (B i') (Rr i') (HW i' Hi'))) as (bi & -> & Hpost).
        eexists. split; [reflexivity|]. splits; [exact Hpost|reflexivity|reflexivity].
    + (* past the last separator: the iterator is marked invalid *)
      eexists. split; [reflexivity|]. splits; try reflexivity.
      split.
      * unfold it_ok. cbn [it_index it_b it_valid it_block_offset it_bi it_first]. split; [exact Hidx'ok|].
        destruct (it_b it) as [[o b]|] eqn:Eb; [|reflexivity].
        destruct Hb as (i & Hi & -> & -> & Hoff & Hbi & Hcur & Hval).
        exists i. splits; try reflexivity; try assumption; try (intros; congruence); try (intros; discriminate).
      * right. split; [unfold abs; cbn [it_valid negb]; reflexivity|]. apply gfirst_past_all. exact (Hinvalid eq_refl).
  - (* the current block still covers the target: cur_key <= key <= separator of the block held *)
    unfold needs_index_seek in Ens.
    destruct (it_first it) eqn:Ef; [discriminate|].
    destruct (it_b it) as [[o b]|] eqn:Eb; [|discriminate].
    destruct Hb as (i & Hi & -> & -> & Hoff & Hbi & Hcur & Hval).
    destruct (bs_valid (it_bi it)) eqn:Ebv; cbn [negb] in Ens; [|discriminate].
    unfold bs_key in Ens. fold (key_at (B i) (bs_cur (it_bi it))) in Ens.
    destruct (bcmp (key_at (B i) (bs_cur (it_bi it))) key) eqn:Ecur; try discriminate;
      (destruct (bs_valid (it_index it)) eqn:Eiv; cbn [negb] in Ens; [|discriminate]);
      fold (key_at ib (bs_cur (it_index it))) in Ens;
      (destruct (bcmp (key_at ib (bs_cur (it_index it))) key) eqn:Esep; try discriminate);
      specialize (Hcur eq_refl); cbn [negb]; rewrite index_offset_ioff, Hcur, Hoff, N.eqb_refl.
    all: assert (Hj : (bs_cur (it_bi it) < nentries (B i))%nat) by (unfold st_ok in Hbi; rewrite Ebv in Hbi; tauto).
    all: assert (Hbefore : forall j, (j < i)%nat -> bcmp (key_at ib j) key = Lt)
      by (intros j Hjlt;
          assert (Hsl : bcmp (key_at ib j) (key_at (B i) (bs_cur (it_bi it))) = Lt) by (apply sep_lt_later; assumption);
          first [ (apply bcmp_eq in Ecur; rewrite <- Ecur; exact Hsl) | exact (bcmp_lt_trans _ _ _ Hsl Ecur) ]).
    all: assert (Hsep : bcmp (key_at ib i) key <> Lt) by (rewrite <- Hcur, Esep; discriminate).
    all: destruct (finish_seek it (it_index it) i (it_bi it) key true Hidxok Eiv Hcur Hi Hbefore Hsep Hbi) as (bi & -> & Hpost).
    all: eexists; split; [reflexivity|]; splits; [exact Hpost|reflexivity|reflexivity].
Qed.

(* ---- creation ----------------------------------------------------------------------------- *)
Theorem reader_iter_refines :
  exists it, reader_iter decompress r = Ok (Some it) /\ it_ok it /\ abs it = Some 0%nat /\ it_kind it = KIter.
Proof.
  unfold reader_iter. rewrite Hidx.
  destruct (seek_first_ok ib iridx Wib) as (idx & -> & Hidxok & Hiv & Hic).
  unfold get_block_at_index. rewrite Hiv, index_offset_ioff, Hic.
  assert (H0 : (0 < nb)%nat) by (rewrite <- Hnb; exact (wb_ne _ _ Wib)).
  rewrite (Hget 0%nat H0).
  destruct (seek_first_ok (B 0%nat) (Rr 0%nat) (HW 0%nat H0)) as (bi & -> & Hbiok & Hbv & Hbc).
  eexists. split; [reflexivity|]. splits; [|unfold abs; cbn [it_valid it_b it_first it_index it_bi negb]; rewrite Hbv, Hic, Hbc; reflexivity|reflexivity].
  unfold it_ok. cbn [it_index it_b it_valid it_block_offset it_bi it_first]. split; [exact Hidxok|].
  exists 0%nat. splits; try reflexivity; try assumption; try (intros; assumption). intros _. split; [exact Hiv|intros; discriminate].
Qed.

(* get / get_prefix / get_range: NULL exactly when no entry is >= the start key; otherwise an
   iterator standing before the first entry >= the start key, with the requested bound *)
Theorem reader_iter_init_refines kind key bound :
  match reader_iter_init decompress r kind key bound with
  | Ok None => gfirst key = total
  | Ok (Some it) => it_ok it /\ abs it = Some (gfirst key) /\ it_kind it = kind /\ it_k it = bound
  | _ => False
  end.
Proof.
  unfold reader_iter_init. rewrite Hidx.
  destruct (block_seek_ok ib iridx Wib (bs_invalid ib) key (st_ok_invalid ib iridx Wib)) as (idx & -> & Hpos).
  pose proof (index_positioned_facts idx key Hpos) as [Hvalid Hinvalid].
  destruct Hpos as (Hidx'ok & _ & _).
  unfold get_block_at_index. destruct (bs_valid idx) eqn:Eiv.
  - destruct (Hvalid eq_refl) as (Hi' & Hbefore & Hsep). rewrite index_offset_ioff. rewrite (Hget _ Hi').
    destruct (block_seek_ok (B (bs_cur idx)) (Rr (bs_cur idx)) (HW _ Hi') (bs_invalid _) key (st_ok_invalid _ _ (HW _ Hi')))
      as (bi & -> & Hpos).
    pose proof (gfirst_from_block _ bi key Hi' Hbefore Hsep Hpos) as Hg. destruct Hpos as (Hbiok & _ & _).
    splits; try reflexivity.
    + unfold it_ok. cbn [it_index it_b it_valid it_block_offset it_bi it_first]. split; [exact Hidx'ok|].
      exists (bs_cur idx). splits; try reflexivity; try assumption; try (intros; reflexivity).
      intros _. split; [exact Eiv|intros; discriminate].
    + unfold abs. cbn [it_valid it_b it_first it_index it_bi negb]. rewrite Hg. destruct (bs_valid bi); reflexivity.
  - apply gfirst_past_all. exact (Hinvalid eq_refl).
Qed.
(* ---- histories --------------------------------------------------------------------------- *)
Inductive rop := RNext | RSeek (k : bytes).

(* the model: reader_iter_next / reader_iter_seek; outputs None for a failed next and for seeks *)
Fixpoint run_model (it : riter) (ops : list rop) : res (list (option entry)) :=
  match ops with
  | [] => Ok []
  | RNext :: tl =>
    match reader_iter_next decompress r it with
    | Ok (it', e) => match run_model it' tl with Ok l => Ok (e :: l) | Fail => Fail | Abort => Abort | Oob => Oob end
    | Fail => Fail | Abort => Abort | Oob => Oob
    end
  | RSeek k :: tl =>
    match reader_iter_seek decompress r it k with
    | Ok (it', _) => match run_model it' tl with Ok l => Ok (None :: l) | Fail => Fail | Abort => Abort | Oob => Oob end
    | Fail => Fail | Abort => Abort | Oob => Oob
    end
  end.

(* the specification: a cursor over the sorted list of all entries *)
Fixpoint run_spec (kind : ikind) (k : bytes) (c : option nat) (ops : list rop) : list (option entry) :=
  match ops with
  | [] => []
  | RNext :: tl => let '(c', e) := spec_next kind k c in e :: run_spec kind k c' tl
  | RSeek key :: tl => None :: run_spec kind k (Some (gfirst key)) tl
  end.

Definition rel (it : riter) (c : option nat) : Prop :=
  abs it = c \/ (abs it = None /\ c = Some total).

Lemma spec_next_total kind k : spec_next kind k (Some total) = (None, None).
Proof. unfold spec_next. replace (total <? total)%nat with false by lia. reflexivity. Qed.

(* T03c: every history of next / seek calls *)
Theorem history_refines : forall ops it c, it_ok it -> rel it c ->
  run_model it ops = Ok (run_spec (it_kind it) (it_k it) c ops).
Proof.
  induction ops as [|[|key] ops IH]; intros it c Hok Hrel; [reflexivity| |].
  - cbn [run_model run_spec].
    destruct (reader_next_refines it Hok)
      as (it' & e & -> & Hok' & Hs & Hk1 & Hk2).
    assert (Hc : spec_next (it_kind it) (it_k it) c = spec_next (it_kind it) (it_k it) (abs it)).
    { destruct Hrel as [->|[Ha ->]]; [reflexivity|]. rewrite Ha, spec_next_total. reflexivity. }
    rewrite Hc, <- Hs. rewrite <- Hk1, <- Hk2. rewrite (IH it' (abs it') Hok' (or_introl eq_refl)). reflexivity.
  - cbn [run_model run_spec].
    destruct (reader_seek_refines it key Hok)
      as (it' & -> & (Hok' & Hpost) & Hk1 & Hk2).
    rewrite <- Hk1, <- Hk2. rewrite (IH it' (Some (gfirst key)) Hok'); [reflexivity|].
    destruct Hpost as [Ha|[Ha Ht]]; [left; exact Ha|right; split; [exact Ha|rewrite Ht; reflexivity]].
Qed.
(* ---- draining an iterator; lookups as filters ------------------------------------------- *)
Definition ent (e : pentry) : entry := (pe_key e, pe_val e).
Definition Gents : list entry := map ent G.
Definition spec_drain (kind : ikind) (k : bytes) (p : nat) : list entry :=
  map ent (take_while (fun e => bound_ok kind k (pe_key e)) (skipn p G)).

Lemma skipn_nth_cons : forall (l : list pentry) p, (p < length l)%nat -> skipn p l = nth p l dummy_pe :: skipn (S p) l.
Proof.
  induction l as [|x l IH]; intros p Hp; [cbn in Hp; lia|]. destruct p as [|p]; [reflexivity|].
  cbn [skipn nth]. rewrite IH by (cbn in Hp; lia). reflexivity.
Qed.

Lemma drain_refines : forall fuel it, it_ok it ->
  (match abs it with Some p => total - p < fuel | None => 0 < fuel end)%nat ->
  drain decompress fuel r it =
  Ok (match abs it with Some p => spec_drain (it_kind it) (it_k it) p | None => [] end).
Proof.
  induction fuel as [|fuel IH]; intros it Hok Hf; [destruct (abs it); lia|].
  cbn [drain]. destruct (reader_next_refines it Hok) as (it' & e & -> & Hok' & Hs & Hk1 & Hk2).
  destruct (abs it) as [p|] eqn:Ea; [|cbn in Hs; inversion Hs; reflexivity].
  unfold spec_next in Hs. unfold spec_drain. destruct (Nat.ltb_spec p total) as [Hlt|Hge].
  - rewrite (skipn_nth_cons G p Hlt). cbn [take_while].
    destruct (bound_ok (it_kind it) (it_k it) (pe_key (nth p G dummy_pe))) eqn:Eb; inversion Hs as [[Ha He]]; [|reflexivity].
    rewrite (IH it' Hok') by (rewrite Ha; lia). rewrite Ha, Hk1, Hk2. reflexivity.
  - inversion Hs. rewrite skipn_all2 by exact Hge. reflexivity.
Qed.

Lemma G_sorted : StronglySorted klt G.
Proof. apply sorted_of_index. intros p q H. apply (gkey_lt p q H). Qed.

(* T01/T11 (reader level): iterating from the start returns every entry, in order *)
Theorem reader_iter_all : forall fuel, (total < fuel)%nat ->
  exists it, reader_iter decompress r = Ok (Some it) /\ drain decompress fuel r it = Ok Gents.
Proof.
  intros fuel Hf. destruct reader_iter_refines as (it & Hit & Hok & Ha & Hk). exists it. split; [exact Hit|].
  rewrite (drain_refines fuel it Hok) by (rewrite Ha; lia). rewrite Ha, Hk. unfold spec_drain, Gents. cbn [skipn bound_ok].
  f_equal. f_equal. induction G as [|x l IHl]; [reflexivity|]. cbn [take_while]. f_equal. exact IHl.
Qed.

(* T02 (reader level): the three lookups return exactly the matching entries *)
Definition lookup_pred (kind : ikind) (k0 k1 : bytes) (key : bytes) : bool :=
  match kind with
  | KIter => true
  | KGet => beq key k0
  | KPrefix => is_prefix k0 key
  | KRange => ble k0 key && ble key k1
  end.

Lemma filter_map_ent f : filter (fun e => f (fst e)) Gents = map ent (filter (fun e => f (pe_key e)) G).
Proof.
  unfold Gents. induction G as [|x l IHl]; [reflexivity|]. cbn [map filter]. cbn [ent fst].
  destruct (f (pe_key x)); cbn [map]; rewrite IHl; reflexivity.
Qed.

Theorem reader_lookup_refines : forall kind k0 k1 fuel, kind <> KIter -> (total < fuel)%nat ->
  let bound := match kind with KRange => k1 | _ => k0 end in
  match reader_iter_init decompress r kind k0 bound with
  | Ok (Some it) => drain decompress fuel r it = Ok (filter (fun e => lookup_pred kind k0 k1 (fst e)) Gents)
  | Ok None => filter (fun e => lookup_pred kind k0 k1 (fst e)) Gents = []
  | _ => False
  end.
Proof.
  intros kind k0 k1 fuel Hkind Hf bound.
  assert (Hfilter : filter (fun e => lookup_pred kind k0 k1 (fst e)) Gents = spec_drain kind bound (gfirst k0)).
  { rewrite filter_map_ent. unfold spec_drain. f_equal. unfold gfirst.
    rewrite <- (filter_is_take_while k0 (bound_ok kind bound)); [|destruct kind; subst bound; [congruence|apply get_down|apply prefix_down|apply range_down]|exact G_sorted].
    apply filter_ext. intros e. unfold inside, lookup_pred. subst bound.
    destruct kind; [congruence|apply get_shape|apply prefix_shape|apply range_shape]. }
  pose proof (reader_iter_init_refines kind k0 bound) as Hinit.
  destruct (reader_iter_init decompress r kind k0 bound) as [[it|]| | |]; try contradiction.
  - destruct Hinit as (Hok & Ha & Hk1 & Hk2).
    rewrite (drain_refines fuel it Hok) by (rewrite Ha; lia). rewrite Ha, Hk1, Hk2, Hfilter. reflexivity.
  - rewrite Hfilter, Hinit. unfold spec_drain. rewrite skipn_all2 by (unfold total; lia). reflexivity.
Qed.
End Table.

(* ---- the hypotheses as one record, and the theorems restated over it -------------------- *)
Record table_ok (decompress : N -> bytes -> res bytes) (r : reader) (ib : ablock) (iridx : list nat)
                (nb : nat) (B : nat -> ablock) (Rr : nat -> list nat) : Prop := {
  t_index : r_index r = Some ib;                 (* the index block loaded by reader_open *)
  t_index_wf : wfb ib iridx;
  t_count : nentries ib = nb;                    (* one index entry per data block *)
  t_load : forall i, (i < nb)%nat -> get_block decompress r (ioff ib i) = Ok (B i);
  t_block_wf : forall i, (i < nb)%nat -> wfb (B i) (Rr i);
  t_offsets_distinct : forall i j, (i < nb)%nat -> (j < nb)%nat -> ioff ib i = ioff ib j -> i = j;
  t_sep_ge_last : forall i, (i < nb)%nat -> bcmp (key_at (B i) (nentries (B i) - 1)) (key_at ib i) <> Gt;
  t_sep_lt_next : forall i, (S i < nb)%nat -> bcmp (key_at ib i) (key_at (B (S i)) 0) = Lt;
}.

Section OverTable.
Variable decompress : N -> bytes -> res bytes.
Variables (r : reader) (ib : ablock) (iridx : list nat) (nb : nat) (B : nat -> ablock) (Rr : nat -> list nat).
Hypothesis T : table_ok decompress r ib iridx nb B Rr.

Definition table_entries_of : list entry := Gents nb B.

Theorem table_iter_all : forall fuel, (total nb B < fuel)%nat ->
  exists it, reader_iter decompress r = Ok (Some it) /\ drain decompress fuel r it = Ok table_entries_of.
Proof. destruct T. eapply reader_iter_all; eassumption. Qed.

Theorem table_lookup : forall kind k0 k1 fuel, kind <> KIter -> (total nb B < fuel)%nat ->
  match reader_iter_init decompress r kind k0 (match kind with KRange => k1 | _ => k0 end) with
  | Ok (Some it) => drain decompress fuel r it = Ok (filter (fun e => lookup_pred kind k0 k1 (fst e)) table_entries_of)
  | Ok None => filter (fun e => lookup_pred kind k0 k1 (fst e)) table_entries_of = []
  | _ => False
  end.
Proof. destruct T. intros. eapply reader_lookup_refines; eassumption. Qed.

(* every history of next / seek on an iterator obtained from the API *)
Theorem table_history_iter : exists it, reader_iter decompress r = Ok (Some it) /\
  forall ops, run_model decompress r it ops = Ok (run_spec nb B KIter (it_k it) (Some 0%nat) ops).
Proof.
  destruct T. destruct (reader_iter_refines decompress r ib iridx nb B Rr) as (it & Hit & Hok & Ha & Hk); try assumption.
  exists it. split; [exact Hit|]. intros ops. rewrite <- Hk.
  eapply history_refines; try eassumption. left. exact Ha.
Qed.

Theorem table_history_lookup : forall kind key bound,
  match reader_iter_init decompress r kind key bound with
  | Ok (Some it) => forall ops, run_model decompress r it ops = Ok (run_spec nb B kind bound (Some (gfirst nb B key)) ops)
  | Ok None => gfirst nb B key = total nb B
  | _ => False
  end.
Proof.
  destruct T. intros kind key bound.
  pose proof (reader_iter_init_refines decompress r ib iridx nb B Rr) as H.
  specialize (H t_index0 t_index_wf0 t_count0 t_load0 t_block_wf0 t_offsets_distinct0 t_sep_ge_last0 t_sep_lt_next0 kind key bound).
  destruct (reader_iter_init decompress r kind key bound) as [[it|]| | |]; try exact H.
  destruct H as (Hok & Ha & Hk1 & Hk2). intros ops. rewrite <- Hk1, <- Hk2.
  eapply history_refines; try eassumption. left. exact Ha.
Qed.
End OverTable.
