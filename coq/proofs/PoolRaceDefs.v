(* C14, definitions: shared locations of threadpool.c, the accesses made by the code
   segment of each label of the LTS (model/Pool.v), the segment a thread has most recently
   entered ("in flight"), and the no-conflict predicate.

   One LTS step = one pthread operation followed ATOMICALLY by the straight-line code up
   to the next operation.  In the C code that straight-line code is not atomic: it runs
   at some time between the operation and the thread's next one.  Hence in a reachable
   LTS state every live thread may still be executing the segment it entered last. *)
From Coq Require Import NArith List Lia ZifyBool ZifyN ZifyNat Bool Arith.
From Mtbl Require Import model.Bytes model.Pool proofs.PoolBase proofs.PoolSched proofs.PoolInv proofs.PoolLife.
Import ListNotations.

(* ---------- shared locations ---------- *)
Inductive loc :=
| LPool                (* struct threadpool: head, count  (max is immutable after init) *)
| LQueue (q : nat)     (* struct resultq q: finished, nthreads, head, ptail *)
| LRun (i : nat)       (* struct thread i: running *)
| LBox (i : nat)       (* struct thread i: cb, arg, res, rq  (model: hasjob, job, res, rq) *)
| LNext (i : nat)      (* struct thread i: next  (link of the idle list / of a result queue) *)
| LRh (j : nat).       (* struct result_handler j: rq, cb, cbdata *)
(* not locations: thr->pool, thr->t, thr->m, thr->c (written before the worker is published,
   then only read or used through pthread calls); rh->thread (written by pthread_create, read
   by pthread_join). *)

Definition access := (loc * bool)%type.      (* (location, is a write) *)
Definition R (l : loc) : access := (l, false).
Definition W (l : loc) : access := (l, true).

Definition loc_eqb (a b : loc) : bool :=
  match a, b with
  | LPool, LPool => true
  | LQueue x, LQueue y | LRun x, LRun y | LBox x, LBox y | LNext x, LNext y | LRh x, LRh y => Nat.eqb x y
  | _, _ => false
  end.

(* ---------- per-label accesses (on the state the label's code starts from) ---------- *)
(* threadpool_destroy frees the worker it has just joined (threadpool.c:264-266).  The label
   P5 does not name that worker; over-approximation: every worker that was told to exit
   (running, cb == NULL, res == NULL) and whose thread has exited. *)
Definition dead_frees (st : pstate) : list access :=
  flat_map (fun i => if dying (getw st i) && t_done (gett st (wk_tid (getw st i)))
                     then [W (LBox i); W (LRun i); W (LNext i)] else [])
           (seq 0 (length (ps_workers st))).

(* threadpool_destroy: loop test, inner loop test, pop of the idle list, assert(thr->cb == NULL)
   (threadpool.c:248-255) *)
Definition pop_access (idle : list nat) (count : N) : list access :=
  if (0 <? count)%N then
    match idle with
    | [] => [R LPool]
    | i :: _ => [R LPool; W LPool; R (LNext i); R (LBox i)]
    end
  else [R LPool].

(* result_handler_destroy frees the handler it has just joined (threadpool.c:397).  The label
   F3 does not name it; over-approximation: every handler that has been finished and whose
   thread has exited. *)
Definition rh_frees (st : pstate) : list access :=
  flat_map (fun j => if q_finished (getq st j) && t_done (gett st (q_tid (getq st j))) then [W (LRh j)] else [])
           (seq 0 (length (ps_queues st))).

(* the caller's code up to the first pthread operation of its next command:
   result_handler_init / resultq_init create the handler and its queue (threadpool.c:285-291,
   380-385); threadpool_dispatch and result_handler_destroy start by reading rh->rq (:213, :395) *)
Definition next_access (st : pstate) : list access :=
  match ps_prog st with
  | NewHandler _ :: _ => [W (LQueue (length (ps_queues st))); W (LRh (length (ps_queues st)))]
  | Dispatch q :: _ | Finish q :: _ => [R (LRh q)]
  | _ => []
  end.

Definition tail_link (l : list nat) : list access :=
  match l with [] => [] | _ => [W (LNext (last l 0%nat))] end.

Definition seg_access (l : label) (st : pstate) : list access :=
  match l with
  | CNext | D8 | P6 => next_access st
  | F3 => rh_frees st ++ next_access st                   (* :397 free(rh), then the next command *)
  | D1 q =>                                          (* threadpool.c:171-184, pool->m held *)
    match ps_idle st with
    | [] => if (ps_count st =? ps_max st)%N then [R LPool] else [R LPool; W LPool]
    | i :: _ => [R LPool; W LPool; R (LNext i); W (LNext i); R (LBox i); R (LRun i)]
    end
  | D3 q i true => [W (LBox i); W (LRun i); W (LNext i)]   (* :189-192 calloc, init; no lock *)
  | D3 q i false | D4 q i => [R (LRun i); R (LNext i)]     (* :216-217 asserts; no lock *)
  | D5 q i => [W (LBox i); W (LRun i)]                     (* :220-223, thr->m held *)
  | D7 q i =>                                              (* :228-233, rq->m held *)
    [R (LQueue q); W (LQueue q)] ++ (if q_ordered (getq st q) then tail_link (q_list (getq st q)) else [])
  | F1 q => [W (LQueue q)]                                 (* :340 *)
  | P1 => pop_access (ps_idle st) (ps_count st)            (* :248-255, pool->m held *)
  | P3 i => [W (LRun i)]                                   (* :259, thr->m and pool->m held *)
  | P5 => dead_frees st ++ [R LPool; W LPool] ++ pop_access (ps_idle st) (ps_count st - 1)  (* :264-268, then :248-255 *)
  | W1 i => [R (LRun i)]                                   (* :113, me->m held *)
  | W3 i =>                                                (* :117-134, NO lock held *)
    let w := getw st i in
    if negb (wk_hasjob w) then [R (LBox i)]
    else match wk_rq w with
         | Some _ => [R (LBox i); W (LBox i); W (LRun i)]  (* me->running = false without the lock *)
         | None => [R (LBox i); W (LBox i)]
         end
  | W4u i q => [R (LQueue q); W (LQueue q)] ++ tail_link (q_list (getq st q))   (* :137-138, rq->m held *)
  | W4o i => [W (LRun i)]                                  (* :143, me->m held *)
  | H1 j =>                                                (* :301-312, rq->m held *)
    match q_list (getq st j) with
    | [] => [R (LQueue j)]
    | i :: _ => [R (LQueue j); W (LQueue j); R (LNext i); W (LNext i)]
    end
  | H0 j | H8 j _ => [R (LRh j)]                           (* :369-370 rh->rq, rh->cb, rh->cbdata *)
  | H3 j None => [R (LRh j); R (LQueue j); W (LQueue j); W (LRh j)]   (* :353-357 resultq_destroy: assert, free, *rqp = NULL; NO lock *)
  | H4 j i =>                                              (* :320-323, thr->m held *)
    if wk_running (getw st i) then [R (LRun i)] else [R (LRun i); R (LBox i); W (LBox i)]
  | H7 j i => [W (LNext i); R LPool; W LPool]              (* :328-329, pool->m held *)
  | _ => []
  end.

(* ---------- the segment a thread has most recently entered ---------- *)
(* The model does not store the label whose code a thread ran last; it is recovered from the
   pending (operation, object, label) triple that this code ends with (predecessor table),
   taking the union where several paths end with the same triple.  [cre]: include the
   accesses that create a worker / a queue before pthread_create; [ext]: include the
   accesses of resultq_destroy by an exiting handler. *)
Definition links (l : list nat) : list access := map (fun p => W (LNext p)) l.

Definition exit_access (ext : bool) (st : pstate) (t : nat) : list access :=
  flat_map (fun i => if Nat.eqb (wk_tid (getw st i)) t then [R (LBox i)] else []) (seq 0 (length (ps_workers st))) ++
  (if ext then
     flat_map (fun j => if Nat.eqb (q_tid (getq st j)) t then [R (LRh j); R (LQueue j); W (LQueue j); W (LRh j)] else [])
              (seq 0 (length (ps_queues st)))
   else []).

Definition inflight_gen (cre ext : bool) (st : pstate) (t : nat) : list access :=
  let th := gett st t in
  if t_done th then [] else
  match t_op th, t_lab th with
  | KStart, _ | KReacq, _ => []            (* not started; inside pthread_cond_wait *)
  (* caller *)
  | KCreate, CNext => (if cre then [W (LQueue (length (ps_queues st) - 1)); W (LRh (length (ps_queues st) - 1))] else [])
                      ++ rh_frees st                                                      (* <- caller_next, NewHandler *)
  | KLock, D1 q => rh_frees st ++ [R (LRh q)]                                             (* <- caller_next, Dispatch *)
  | KLock, F1 q => rh_frees st ++ [R (LRh q)]                                             (* <- caller_next, Finish *)
  | KLock, P1 => rh_frees st                                                              (* <- caller_next, DestroyPool *)
  | KWait, D1 _ => [R LPool]                                                             (* <- D1 *)
  | KUnlock, D3 _ i true => [R LPool; W LPool]                                           (* <- D1 *)
  | KUnlock, D3 _ i false => [R LPool; W LPool; R (LNext i); W (LNext i); R (LBox i); R (LRun i)]   (* <- D1 *)
  | KCreate, D4 _ i => if cre then [W (LBox i); W (LRun i); W (LNext i)] else []         (* <- D3 fresh *)
  | KLock, D5 _ i => [R (LRun i); R (LNext i)]                                           (* <- D3 not fresh, D4 *)
  | KSignal, D5s _ i => [W (LBox i); W (LRun i)]                                         (* <- D5 *)
  | KSignal, D7s q => [R (LQueue q); W (LQueue q)] ++ links (q_list (getq st q))         (* <- D7 ordered *)
  | KUnlock, D8 => match t_obj th with OQm q => [R (LQueue q); W (LQueue q)] | _ => [] end   (* <- D7 unordered, D7s *)
  | KSignal, F1s q => [W (LQueue q)]                                                     (* <- F1 *)
  | KWait, P1 => dead_frees st ++ [R LPool; W LPool]                                     (* <- P1, P5 *)
  | KLock, P3 i => dead_frees st ++ [R LPool; W LPool; R (LNext i); R (LBox i)]          (* <- P1, P5 *)
  | KUnlock, P6 => dead_frees st ++ [R LPool; W LPool]                                   (* <- P1, P5 *)
  | KSignal, P3s i => [W (LRun i)]                                                       (* <- P3 *)
  (* worker *)
  | KUnlock, W3 i => [R (LRun i)]                                                        (* <- W1 *)
  | KWait, W1 i => [R (LRun i)]                                                          (* <- W1 *)
  | KLock, W4u i _ => [R (LBox i); W (LBox i); W (LRun i)]                               (* <- W3 unordered *)
  | KLock, W4o i => [R (LBox i); W (LBox i)]                                             (* <- W3 ordered *)
  | KSignal, W4us _ q => [R (LQueue q); W (LQueue q)] ++ links (q_list (getq st q))      (* <- W4u *)
  | KSignal, W4os i => [W (LRun i)]                                                      (* <- W4o *)
  (* handler *)
  | KLock, H1 j => [R (LRh j)]                                                            (* <- H0, H8 *)
  | KUnlock, H3 j None => [R (LQueue j)]                                                 (* <- H1 *)
  | KWait, H1 j => [R (LQueue j)]                                                        (* <- H1 *)
  | KUnlock, H3 j (Some i) => [R (LQueue j); W (LQueue j); R (LNext i); W (LNext i)]     (* <- H1 *)
  | KWait, H4 _ i => [R (LRun i)]                                                        (* <- H4 *)
  | KUnlock, H6 _ i => [R (LRun i); R (LBox i); W (LBox i)]                              (* <- H4 *)
  | KSignal, H7s _ i => [W (LNext i); R LPool; W LPool]                                  (* <- H7 *)
  (* an exiting worker (<- W3, cb == NULL) or handler (<- H3 j None) *)
  | KExit, _ => exit_access ext st t
  | _, _ => []
  end.

Definition inflight := inflight_gen true true.          (* everything *)
Definition inflight_core := inflight_gen false false.   (* without creation / destruction of objects *)

(* two accesses conflict: same location, at least one write *)
Definition conflict (a b : access) : Prop := fst a = fst b /\ (snd a = true \/ snd b = true).

Definition race_free_gen (cre ext : bool) (st : pstate) : Prop :=
  forall t1 t2, t1 <> t2 -> forall a1 a2,
    In a1 (inflight_gen cre ext st t1) -> In a2 (inflight_gen cre ext st t2) -> fst a1 = fst a2 ->
    snd a1 = false /\ snd a2 = false.
Definition race_free := race_free_gen true true.

(* executable check, for tests *)
Definition conflictb (a b : access) : bool := loc_eqb (fst a) (fst b) && (snd a || snd b).
Definition racy_pairs (cre ext : bool) (st : pstate) : list (nat * nat) :=
  let n := length (ps_threads st) in
  flat_map (fun t1 => flat_map (fun t2 =>
     if Nat.ltb t1 t2 && existsb (fun a => existsb (conflictb a) (inflight_gen cre ext st t2)) (inflight_gen cre ext st t1)
     then [(t1, t2)] else []) (seq 0 n)) (seq 0 n).

(* a thread starts only after the pthread_create that creates it has been performed *)
Definition start_ok (st : pstate) (t : nat) : Prop :=
  t_op (gett st t) = KStart ->
  forall x, ~ (t_op (gett st x) = KCreate /\ t_obj (gett st x) = OThread t).
Fixpoint sched_causal (st : pstate) (stash : list (nat * N)) (s : list sched_step) : Prop :=
  match s with
  | [] => True
  | SRun t w :: tl => start_ok st t /\
                      match pstep st t w stash with
                      | Some (st', _, _, stash') => sched_causal st' stash' tl
                      | None => True
                      end
  | SSpurious t :: tl => match pspurious st t with Some st' => sched_causal st' stash tl | None => True end
  end.

(* Variant for ALL schedules.  The LTS lets a created thread take steps before the step of
   the pthread_create that creates it.  In the C code the creator's initialisation of the new
   object happens-before everything the created thread does; so once the created thread has
   started, the creating code has certainly completed: the creation accesses are counted only
   while the created thread has not started. *)
Definition create_pending (st : pstate) (t : nat) : bool :=
  match t_op (gett st t), t_obj (gett st t) with
  | KCreate, OThread u => opk_eqb (t_op (gett st u)) KStart
  | _, _ => true
  end.
Definition inflight_hb (st : pstate) (t : nat) : list access := inflight_gen (create_pending st t) true st t.
Definition race_free_hb (st : pstate) : Prop :=
  forall t1 t2, t1 <> t2 -> forall a1 a2,
    In a1 (inflight_hb st t1) -> In a2 (inflight_hb st t2) -> fst a1 = fst a2 ->
    snd a1 = false /\ snd a2 = false.
