(* C14: the in-flight accesses of a thread can only grow while OTHER threads step.
   Together with proofs/PoolRaceLink.v: from the step that enters a code segment until the
   thread's next step, the accesses of that segment are in [inflight]. *)
From Coq Require Import NArith List Lia ZifyBool ZifyN ZifyNat Bool Arith.
From Mtbl Require Import model.Bytes model.Pool proofs.PoolBase proofs.PoolSched proofs.PoolGuard proofs.PoolInv proofs.PoolLife
  proofs.PoolStep2 proofs.PoolAbort proofs.PoolRaceDefs proofs.PoolRaceStep proofs.PoolRaceInv proofs.PoolRace proofs.PoolRaceInvB
  proofs.PoolRaceGuard proofs.PoolRaceInvE proofs.PoolRaceLink.
Import ListNotations.

Lemma inflight_incl a b t :
  key (gett b t) = key (gett a t) ->
  (t_lab (gett a t) = CNext -> length (ps_queues b) = length (ps_queues a)) ->
  (forall q, t_lab (gett a t) = D7s q \/ (exists i, t_lab (gett a t) = W4us i q) -> q_list (getq b q) = q_list (getq a q)) ->
  incl (dead_frees a) (dead_frees b) -> incl (exit_access true a t) (exit_access true b t) ->
  incl (rh_frees a) (rh_frees b) ->
  incl (inflight a t) (inflight b t).
Proof.
  intros K C1 C2 C3 C4 C5. destruct (key_fields _ _ K) as (K1 & K2 & K3 & K4).
  unfold inflight, inflight_gen. rewrite K1, K2, K3, K4.
  destruct (t_done (gett a t)); [apply incl_refl|].
  destruct (t_op (gett a t)); try apply incl_refl; destruct (t_lab (gett a t)) eqn:El; try apply incl_refl;
    try (apply incl_app; [apply incl_appl; exact C3|apply incl_appr, incl_refl]); try exact C4; try exact C5;
    try (apply incl_app; [apply incl_appl; exact C5|apply incl_appr, incl_refl]).
  - rewrite C2 by (left; reflexivity). apply incl_refl.
  - rewrite C2 by (right; eexists; reflexivity). apply incl_refl.
  - rewrite C1 by reflexivity. apply incl_app; [apply incl_appl, incl_refl|apply incl_appr; exact C5].
Qed.

Lemma dead_frees_intro st i a : (i < length (ps_workers st))%nat -> dying (getw st i) = true ->
  t_done (gett st (wk_tid (getw st i))) = true -> a = W (LBox i) \/ a = W (LRun i) \/ a = W (LNext i) -> In a (dead_frees st).
Proof.
  intros Hi Hd Ht Ha. unfold dead_frees. apply in_flat_map. exists i. split; [apply in_seq; lia|].
  rewrite Hd, Ht. cbn [andb In]. destruct Ha as [-> | [-> | ->]]; auto.
Qed.

Lemma dead_frees_mono a b :
  (forall i, (i < length (ps_workers a))%nat -> dying (getw a i) = true -> t_done (gett a (wk_tid (getw a i))) = true ->
     (i < length (ps_workers b))%nat /\ dying (getw b i) = true /\ t_done (gett b (wk_tid (getw b i))) = true) ->
  incl (dead_frees a) (dead_frees b).
Proof.
  intros H x Hx. apply in_dead_frees in Hx. destruct Hx as (i & Hi & Hd & Ht & Ha).
  destruct (H i Hi Hd Ht) as (H1 & H2 & H3). eapply dead_frees_intro; eassumption.
Qed.

Lemma in_exit_worker' ext s t i : (i < length (ps_workers s))%nat -> wk_tid (getw s i) = t -> In (R (LBox i)) (exit_access ext s t).
Proof.
  intros Hi E. unfold exit_access. apply in_or_app. left. apply in_flat_map. exists i. split; [apply in_seq; lia|].
  rewrite E, Nat.eqb_refl. left. reflexivity.
Qed.
Lemma in_exit_queue' s t j a : (j < length (ps_queues s))%nat -> q_tid (getq s j) = t -> In a [R (LRh j); R (LQueue j); W (LQueue j); W (LRh j)] ->
  In a (exit_access true s t).
Proof.
  intros Hj E Ha. unfold exit_access. apply in_or_app. right. apply in_flat_map. exists j. split; [apply in_seq; lia|].
  rewrite E, Nat.eqb_refl. exact Ha.
Qed.

Lemma exit_access_mono a b t :
  (length (ps_workers a) <= length (ps_workers b))%nat -> (length (ps_queues a) <= length (ps_queues b))%nat ->
  (forall i, (i < length (ps_workers a))%nat -> wk_tid (getw b i) = wk_tid (getw a i)) ->
  (forall j, (j < length (ps_queues a))%nat -> q_tid (getq b j) = q_tid (getq a j)) ->
  incl (exit_access true a t) (exit_access true b t).
Proof.
  intros Lw Lq Hw Hq x Hx. apply in_exit_access in Hx.
  destruct Hx as [(i & Hi & E & ->)|(_ & j & Hj & E & Ha)]; apply Nat.eqb_eq in E.
  - apply in_exit_worker'; [lia|]. rewrite Hw by exact Hi. exact E.
  - apply (in_exit_queue' b t j); [lia|rewrite Hq by exact Hj; exact E|]. destruct Ha as [-> | [-> | [-> | ->]]]; cbn; auto.
Qed.

Lemma rh_frees_intro' s j : (j < length (ps_queues s))%nat -> q_finished (getq s j) = true ->
  t_done (gett s (q_tid (getq s j))) = true -> In (W (LRh j)) (rh_frees s).
Proof.
  intros Hj Hf Hd. unfold rh_frees. apply in_flat_map. exists j. split; [apply in_seq; lia|]. rewrite Hf, Hd. left. reflexivity.
Qed.

Lemma rh_frees_mono a b :
  (forall j, (j < length (ps_queues a))%nat -> q_finished (getq a j) = true -> t_done (gett a (q_tid (getq a j))) = true ->
     (j < length (ps_queues b))%nat /\ q_finished (getq b j) = true /\ t_done (gett b (q_tid (getq b j))) = true) ->
  incl (rh_frees a) (rh_frees b).
Proof.
  intros H x Hx. apply in_rh_frees in Hx. destruct Hx as (j & Hj & Hf & Hd & ->).
  destruct (H j Hj Hf Hd) as (H1 & H2 & H3). apply rh_frees_intro'; assumption.
Qed.

Section StableCode.
Variable st : pstate.
Variables x t : nat.
Hypothesis I1 : Inv1 st.
Hypothesis I2 : Inv2 st.
Hypothesis IB : InvB st.
Hypothesis En : enabled st x = true.
Hypothesis Hw : t_op (gett st x) <> KWait.
Hypothesis Hne : x <> t.
Let l := t_lab (gett st x).
Let st' := after st x l.
Let Hx : (x < length (ps_threads st))%nat := proj1 (enabled_live _ _ En).
Let Tx := i2_threads st I2 x.

Lemma stable_code : incl (inflight st t) (inflight st' t).
Proof.
  destruct (Nat.lt_ge_cases t (length (ps_threads st))) as [Ht|Ht].
  2:{ unfold inflight, inflight_gen. rewrite (gett_oob _ _ Ht). apply incl_nil_l. }
  assert (G : gett st' t = gett st t) by (unfold st'; apply after_gett_old; [congruence|exact Ht]).
  apply inflight_incl.
  - rewrite G. reflexivity.
  - intros Hl. unfold st'. rewrite after_nqueues. destruct (is_next l) eqn:Hn; [|reflexivity]. exfalso. apply Hne.
    apply (caller_unique st x t I2); [apply is_next_caller; exact Hn|rewrite Hl; reflexivity].
  - intros q Hl.
    assert (Hh : In (OQm q) (holds (gett st t))).
    { apply lab_holds; [exact I1|]. destruct Hl as [Hl|[i Hl]]; rewrite Hl; left; reflexivity. }
    assert (Ng : guard_of l <> Some (OQm q)).
    { intros Hg. exact (code_guard_excl st x t (OQm q) I1 En Hw Hg Hh). }
    unfold st'. rewrite after_getq. destruct (is_next l) eqn:Hn.
    + destruct (ps_prog st) as [|[ord| | |] r]; try reflexivity.
      destruct (Nat.ltb_spec q (length (ps_queues st))); [reflexivity|]. rewrite (getq_oob _ _ H).
      destruct (Nat.eqb q (length (ps_queues st))); reflexivity.
    + destruct (ex_intro (fun l0 => l = l0) l eq_refl) as [l0 El]. rewrite El in *.
      destruct l0; try reflexivity; cbv zeta; cbn [guard_of] in Ng.
      * unfold upd_q. destruct (Nat.eqb_spec q q0) as [->|]; cbn [andb]; [congruence|reflexivity].
      * apply (upd_q_field q_list). reflexivity.
      * unfold upd_q. destruct (Nat.eqb_spec q q0) as [->|]; cbn [andb]; [congruence|reflexivity].
      * destruct (q_list (getq st j)); [reflexivity|]. unfold upd_q. destruct (Nat.eqb_spec q j) as [->|]; cbn [andb]; [congruence|reflexivity].
  - apply dead_frees_mono. intros i Hi Hd Hdn.
    assert (Hy : (wk_tid (getw st i) < length (ps_threads st))%nat) by (apply (i2_wthread _ I2 i Hi)).
    assert (Hyx : wk_tid (getw st i) <> x).
    { intros E. rewrite E in Hdn. pose proof (enabled_live _ _ En) as (_ & Hd' & _). congruence. }
    assert (Hr : wk_running (getw st i) = true /\ wk_hasjob (getw st i) = false /\ wk_res (getw st i) = None).
    { unfold dying in Hd. destruct (wk_running (getw st i)), (wk_hasjob (getw st i)), (wk_res (getw st i)); cbn in Hd; try discriminate; auto. }
    destruct Hr as (R1 & R2 & R3).
    split; [unfold st'; rewrite after_nworkers; destruct l; try lia; destruct fresh; lia|].
    assert (Gw : getw st' i = getw st i).
    { unfold st'. rewrite after_getw.
      destruct (ex_intro (fun l0 => l = l0) l eq_refl) as [l0 El]. rewrite El in *.
      destruct l0; try reflexivity; cbv zeta.
      - destruct fresh; [|reflexivity]. destruct (Nat.ltb_spec i (length (ps_workers st))); [reflexivity|lia].
      - match goal with |- upd_w st ?j ?w' i = _ => destruct (upd_w_cases st j w' i) as [E|[E _]]; [exact E|exfalso; rewrite <- E in El] end.
        assert (Hf : free_w (getw st i) = true) by (apply (tk_free _ _ _ Tx); fold l; rewrite El; reflexivity).
        destruct (free_fields _ Hf) as (F1 & _). congruence.
      - match goal with |- upd_w st ?j ?w' i = _ => destruct (upd_w_cases st j w' i) as [E|[E _]]; [exact E|exfalso; rewrite <- E in El] end.
        assert (Hf : free_w (getw st i) = true) by (apply (tk_free _ _ _ Tx); fold l; rewrite El; reflexivity).
        destruct (free_fields _ Hf) as (F1 & _). congruence.
      - destruct (negb (wk_hasjob (getw st i0))) eqn:Ej; [reflexivity|].
        assert (i <> i0).
        { intros ->. destruct (tk_worker _ _ _ Tx i0) as [_ E]; [fold l; rewrite El; reflexivity|]. apply Hyx. exact E. }
        destruct (wk_rq (getw st i0)); unfold upd_w; destruct (Nat.eqb_spec i i0); try contradiction; reflexivity.
      - assert (i <> i0).
        { intros ->. destruct (tk_worker _ _ _ Tx i0) as [_ E]; [fold l; rewrite El; reflexivity|]. apply Hyx. exact E. }
        unfold upd_w; destruct (Nat.eqb_spec i i0); try contradiction; reflexivity.
      - destruct (wk_running (getw st w)) eqn:Er; [reflexivity|].
        assert (i <> w) by (intros ->; congruence).
        unfold upd_w; destruct (Nat.eqb_spec i w); try contradiction; reflexivity. }
    rewrite Gw. split; [exact Hd|]. unfold st'. rewrite after_gett_old by assumption. exact Hdn.
  - apply exit_access_mono.
    + unfold st'. rewrite after_nworkers. destruct l; try lia. destruct fresh; lia.
    + apply after_nqueues_ge.
    + intros i Hi. apply after_wk_tid. exact Hi.
    + intros j Hj. apply after_q_tid. exact Hj.
  - apply rh_frees_mono. intros j Hj Hf Hd.
    pose proof (b_qtid _ IB j Hj) as Hh.
    assert (Hnx : q_tid (getq st j) <> x).
    { intros E. rewrite E in Hd. pose proof (enabled_live _ _ En) as (_ & Hd' & _). congruence. }
    split; [pose proof (after_nqueues_ge st x l); unfold st'; lia|].
    split; [unfold st'; rewrite after_q_finished, Hf; reflexivity|].
    unfold st'. rewrite after_q_tid by exact Hj. rewrite after_gett_old by assumption. exact Hd.
Qed.
End StableCode.

Lemma stable_set st x t th : x <> t -> (t_done (gett st x) = true -> t_done th = true) ->
  incl (inflight st t) (inflight (set_thread st x th) t).
Proof.
  intros Hne Hd. apply inflight_incl; try reflexivity.
  - rewrite gett_set_thread. destruct (Nat.eqb_spec t x); [congruence|reflexivity].
  - apply dead_frees_mono. intros i Hi H1 H2.
    change (ps_workers (set_thread st x th)) with (ps_workers st). change (getw (set_thread st x th) i) with (getw st i).
    split; [exact Hi|]. split; [exact H1|]. rewrite gett_set_thread.
    destruct (Nat.eqb_spec (wk_tid (getw st i)) x) as [E|]; cbn [andb]; [|exact H2].
    destruct (Nat.ltb _ _); [|exact H2]. apply Hd. rewrite <- E. exact H2.
  - apply exit_access_mono; try reflexivity; try (intros; reflexivity); apply le_n.
  - apply rh_frees_mono. intros j Hj H1 H2.
    change (ps_queues (set_thread st x th)) with (ps_queues st). change (getq (set_thread st x th) j) with (getq st j).
    split; [exact Hj|]. split; [exact H1|]. rewrite gett_set_thread.
    destruct (Nat.eqb_spec (q_tid (getq st j)) x) as [E|]; cbn [andb]; [|exact H2].
    destruct (Nat.ltb _ _); [|exact H2]. apply Hd. rewrite <- E. exact H2.
Qed.

(* the in-flight accesses of thread t can only grow while another thread x steps *)
Theorem inflight_stable st x t wake stash st' op o stash' :
  Inv1 st -> Inv2 st -> InvB st -> wake_ok st x wake -> pstep st x wake stash = Some (st', op, o, stash') -> x <> t ->
  incl (inflight st t) (inflight st' t).
Proof.
  intros I1 I2 IB W E Hne. destruct (pstep_op _ _ _ _ _ _ _ _ E) as (En & Eop & _).
  destruct (opk_dec (t_op (gett st x)) KWait) as [Hw|Hw].
  { destruct (pstep_wait_keq _ _ _ _ _ _ _ _ E Hw) as [_ K]. unfold inflight. rewrite (inflight_keq true true _ _ t K).
    apply stable_set; [exact Hne|]. intros Hd. destruct (enabled_live _ _ En) as (_ & Hd' & _). congruence. }
  destruct (opk_dec (t_op (gett st x)) KExit) as [He|He].
  { destruct (pstep_exit_keq _ _ _ _ _ _ _ _ E He) as [_ ->]. apply stable_set; [exact Hne|]. reflexivity. }
  destruct (pstep_code_keq _ _ _ _ _ _ _ _ I1 W E Hw He) as [_ K].
  unfold inflight. rewrite (inflight_keq true true _ _ t K). apply stable_code; assumption.
Qed.

Theorem inflight_stable_spurious st u t st' : Inv1 st -> pspurious st u = Some st' -> inflight st' t = inflight st t.
Proof. intros I1 E. apply inflight_keq. eapply pspurious_keq; eassumption. Qed.
