(* Memory-level reader iterators (model/IterMem.v): heap lemmas, the specifications of the
   primitive memory operations, get_block_loc against get_block, and the value offset
   recomputed from the block bytes against the parsed entry. *)
From Coq Require Import NArith ZArith List Lia ZifyBool ZifyN ZifyNat.
From Mtbl Require Import gen.Consts model.Bytes model.Codec model.Order spec.Parse model.Reader model.IterMem
  proofs.BytesLemmas.
Local Open Scope N_scope.

(* ---------------------------------------------------------------- heap *)
Definition hg (m : mem) (j : nat) : option (option bytes) := hget (m_heap m) j.

Lemma live_hg m j : live m j = match hg m j with Some (Some c) => Some c | _ => None end.
Proof. reflexivity. Qed.

Lemma alloc_spec m c m' id : alloc m c = (m', id) ->
  id = m_next m /\ m_next m' = S (m_next m) /\ m_file m' = m_file m /\
  (forall j, hg m' j = if Nat.eqb id j then Some (Some c) else hg m j).
Proof. unfold alloc. intros H. inversion H; subst. cbn. repeat split. Qed.

Lemma mwrite_spec m id c : live m id <> None ->
  exists m', mwrite m id c = Some m' /\ m_next m' = m_next m /\ m_file m' = m_file m /\
  (forall j, hg m' j = if Nat.eqb id j then Some (Some c) else hg m j).
Proof.
  unfold mwrite. intros H. destruct (live m id); [|congruence].
  eexists. split; [reflexivity|]. cbn. repeat split.
Qed.

Lemma mfree_spec m id : live m id <> None ->
  exists m', mfree m id = Some m' /\ m_next m' = m_next m /\ m_file m' = m_file m /\
  (forall j, hg m' j = if Nat.eqb id j then Some None else hg m j).
Proof.
  unfold mfree. intros H. destruct (live m id); [|congruence].
  eexists. split; [reflexivity|]. cbn. repeat split.
Qed.

Lemma mfree_inv m id m' : mfree m id = Some m' ->
  live m id <> None /\ m_next m' = m_next m /\ m_file m' = m_file m /\
  (forall j, hg m' j = if Nat.eqb id j then Some None else hg m j).
Proof.
  unfold mfree. destruct (live m id) eqn:E; [|discriminate]. intros H. inversion H; subst. cbn.
  repeat split. congruence.
Qed.

Section KeyUpdate.
Variable pol : mem -> nat -> bytes -> bool.

(* one rewrite of a key ubuf: the new location is the old one or a fresh buffer; in both
   cases the heap afterwards is described by the same formula *)
Lemma key_update_spec m id f old : live m id = Some old -> (id < m_next m)%nat ->
  exists m' id', key_update pol m id f = Some (m', id') /\
    m_file m' = m_file m /\ (m_next m <= m_next m')%nat /\ (id' < m_next m')%nat /\
    (id' = id \/ id' = m_next m) /\
    (forall j, hg m' j = if Nat.eqb id' j then Some (Some (f old))
                         else if Nat.eqb id j then Some None else hg m j).
Proof.
  intros Hl Hlt. unfold key_update. rewrite Hl. destruct (pol m id (f old)).
  - cbn [alloc]. set (m1 := mkmem _ _ _).
    assert (Hl1 : live m1 id <> None).
    { unfold live, m1. cbn. replace (Nat.eqb (m_next m) id) with false by lia.
      unfold live in Hl. destruct (hget (m_heap m) id) as [[c|]|]; congruence. }
    destruct (mfree_spec m1 id Hl1) as (m2 & -> & Hn & Hf & Hh).
    exists m2, (m_next m). split; [reflexivity|]. rewrite Hn, Hf. cbn. repeat split; try lia.
    intros j. rewrite Hh. unfold hg, m1. cbn.
    destruct (Nat.eqb (m_next m) j) eqn:E1, (Nat.eqb id j) eqn:E2; try reflexivity. lia.
  - destruct (mwrite_spec m id (f old)) as (m1 & -> & Hn & Hf & Hh); [congruence|].
    exists m1, id. split; [reflexivity|]. rewrite Hn, Hf. repeat split; try lia.
    intros j. rewrite Hh. destruct (Nat.eqb id j); reflexivity.
Qed.
End KeyUpdate.

(* ---------------------------------------------------------------- deref *)
Definition addr_in (a : addr) (own : list nat) : Prop :=
  match a with AFile _ => True | AHeap id _ => In id own end.

Lemma deref_frame m1 m2 a n own : m_file m2 = m_file m1 ->
  (forall id, In id own -> hg m2 id = hg m1 id) -> addr_in a own ->
  deref m2 a n = deref m1 a n.
Proof.
  intros Hf Hh Ha. destruct a as [off|id off]; cbn.
  - rewrite Hf. reflexivity.
  - rewrite !live_hg, (Hh id Ha). reflexivity.
Qed.

Lemma addr_in_add a d own : addr_in (addr_add a d) own <-> addr_in a own.
Proof. destruct a; cbn; tauto. Qed.

(* slices of slices *)
Lemma slice_some l off n v : slice l off n = Some v ->
  off + n <= len l /\ v = firstn (N.to_nat n) (skipn (N.to_nat off) l).
Proof. unfold slice. destruct (off + n <=? len l) eqn:E; [|discriminate]. intros H. inversion H. split; [lia|reflexivity]. Qed.

Lemma slice_slice l d n raw vo vl v : slice l d n = Some raw -> slice raw vo vl = Some v ->
  slice l (d + vo) vl = Some v.
Proof.
  intros H1 H2. apply slice_some in H1. destruct H1 as [B1 ->]. apply slice_some in H2. destruct H2 as [B2 ->].
  unfold len in B2. rewrite firstn_length, skipn_length in B2.
  unfold slice. replace (d + vo + vl <=? len l) with true by (unfold len in *; lia). f_equal.
  rewrite skipn_firstn_comm, firstn_firstn, skipn_skipn'.
  replace (N.to_nat d + N.to_nat vo)%nat with (N.to_nat (d + vo)) by lia.
  f_equal. lia.
Qed.

Lemma slice_full l : slice l 0 (len l) = Some l.
Proof.
  unfold slice. replace (0 + len l <=? len l) with true by lia. cbn. unfold len.
  rewrite Nnat.Nat2N.id, firstn_all. reflexivity.
Qed.

Lemma deref_add m da sz raw vo vl v : deref m da sz = Some raw -> slice raw vo vl = Some v ->
  deref m (addr_add da vo) vl = Some v.
Proof.
  destruct da as [off|id off]; cbn.
  - apply slice_slice.
  - destruct (live m id); [|discriminate]. apply slice_slice.
Qed.

Lemma slice_len l off n v : slice l off n = Some v -> len v = n.
Proof.
  intros H. apply slice_some in H. destruct H as [B ->]. unfold len in *.
  rewrite firstn_length, skipn_length. lia.
Qed.

(* ---------------------------------------------------------------- get_block_loc *)
Lemma get_block_loc_spec decompress r off b : get_block decompress r off = Ok b ->
  exists doff raw, get_block_loc decompress r off = Ok (b, doff, raw) /\ block_init raw = Some b /\
    (r_comp r =? COMP_NONE = true -> slice (r_file r) doff (len raw) = Some raw).
Proof.
  unfold get_block, get_block_loc.
  destruct (negb (off <? len (r_file r))); [discriminate|].
  match goal with |- match ?h with _ => _ end = _ -> _ => destruct h as [[n l]| | |] end; try discriminate.
  destruct (slice (r_file r) (off + l + 4) n) as [stored|] eqn:Es; [|discriminate].
  match goal with |- (if negb ?c then _ else _) = _ -> _ => destruct c end; cbn [negb]; [|discriminate].
  destruct (r_comp r =? COMP_NONE) eqn:Ec.
  - destruct (block_init stored) as [b0|] eqn:Eb; [|discriminate]. intros H. inversion H; subst.
    exists (off + l + 4), stored. repeat split; try assumption. intros _.
    rewrite (slice_len _ _ _ _ Es). exact Es.
  - destruct (decompress (r_comp r) stored) as [rb| | |]; try discriminate.
    destruct (block_init rb) as [b0|] eqn:Eb; [|discriminate]. intros H. inversion H; subst.
    exists (off + l + 4), rb. repeat split; try assumption. discriminate.
Qed.

(* ---------------------------------------------------------------- value offsets *)
Lemma block_init_entries raw b : block_init raw = Some b ->
  parse_entries (length raw) 0 [] (take (block_ro raw) raw) = Some (ab_entries b).
Proof.
  unfold block_init, block_ro.
  destruct (len raw <? 4); [discriminate|].
  destruct (fixed_decode32 (drop (len raw - 4) raw)) as [nr|]; [|discriminate].
  cbv zeta.
  set (ro32 := u64 (len raw + 18446744073709551616 - u32 (1 + nr) * 4)).
  set (ro64 := u64 (len raw + 18446744073709551616 * 8 - (4 + nr * 8))).
  destruct (4294967295 <? ro32) eqn:Ew; cbn [andb].
  - destruct (ro64 <=? 4294967295); [discriminate|].
    destruct (len raw - 4 <? ro64); [discriminate|]. destruct (len raw <? 8); [discriminate|].
    destruct (parse_array _ _ _); [|discriminate].
    destruct (parse_entries _ _ _ _) eqn:E; [|discriminate]. intros H. inversion H. reflexivity.
  - destruct (len raw - 4 <? ro32); [discriminate|]. destruct (len raw <? 8); [discriminate|].
    destruct (parse_array _ _ _); [|discriminate].
    destruct (parse_entries _ _ _ _) eqn:E; [|discriminate]. intros H. inversion H. reflexivity.
Qed.

Lemma get_varint32_suffix data v d c : get_varint32 data = Some (v, d, c) -> exists p, data = p ++ d.
Proof.
  unfold get_varint32. destruct (varint_decode32 data) as [[x n]| | |]; try discriminate.
  destruct (n =? 0); [discriminate|]. intros H. inversion H; subst.
  exists (take n data). unfold take, drop. symmetry. apply firstn_skipn.
Qed.

(* decode at offset [off] of D, where D = pre ++ data and len pre = off *)
Definition val_off_at (D : bytes) (eoff : N) : option N :=
  match get_varint32 (drop eoff D) with
  | Some (_, d1, _) =>
    match get_varint32 d1 with
    | Some (ns, d2, _) =>
      match get_varint32 d2 with
      | Some (_, d3, _) => Some (len D - len d3 + ns)
      | None => None
      end
    | None => None
    end
  | None => None
  end.

Lemma parse_entries_val : forall fuel off prev data es D pre,
  parse_entries fuel off prev data = Some es -> D = pre ++ data -> len pre = off ->
  forall e, In e es -> exists vo, val_off_at D (pe_off e) = Some vo /\
                                  slice D vo (len (pe_val e)) = Some (pe_val e).
Proof.
  induction fuel as [|f IH]; intros off prev data es D pre Hp HD Hlen e He.
  - destruct data; cbn in Hp; [inversion Hp; subst; destruct He|discriminate].
  - destruct data as [|x data0]; [cbn in Hp; inversion Hp; subst; destruct He|].
    remember (x :: data0) as data eqn:Edata.
    assert (Hp' : match get_varint32 data with
      | None => None
      | Some (shared, d1, c1) =>
        match get_varint32 d1 with
        | None => None
        | Some (nonshared, d2, c2) =>
          match get_varint32 d2 with
          | None => None
          | Some (vlen, d3, c3) =>
            if (len prev <? shared) || (len d3 <? nonshared + vlen) then None
            else
              match parse_entries f (off + (len data - len (drop (nonshared + vlen) d3)))
                      (take shared prev ++ take nonshared d3) (drop (nonshared + vlen) d3) with
              | None => None
              | Some tl => Some (mkpe off shared (take shared prev ++ take nonshared d3)
                                      (take vlen (drop nonshared d3)) (c1 && c2 && c3) :: tl)
              end
          end
        end
      end = Some es) by (rewrite Edata; rewrite Edata in Hp; exact Hp).
    clear Hp Edata x data0.
    destruct (get_varint32 data) as [[[sh d1] c1]|] eqn:E1; [|discriminate].
    destruct (get_varint32 d1) as [[[ns d2] c2]|] eqn:E2; [|discriminate].
    destruct (get_varint32 d2) as [[[vl d3] c3]|] eqn:E3; [|discriminate].
    destruct ((len prev <? sh) || (len d3 <? ns + vl)) eqn:Eb; [discriminate|].
    destruct (parse_entries f _ _ _) as [tl|] eqn:Et; [|discriminate].
    inversion Hp'; subst es; clear Hp'.
    destruct (get_varint32_suffix _ _ _ _ E1) as [p1 H1].
    destruct (get_varint32_suffix _ _ _ _ E2) as [p2 H2].
    destruct (get_varint32_suffix _ _ _ _ E3) as [p3 H3].
    assert (Hd3 : len d3 >= ns + vl) by lia.
    destruct He as [<-|He].
    + cbn [pe_off pe_val]. unfold val_off_at.
      replace (drop off D) with data by (rewrite HD; symmetry; apply drop_app_len; exact Hlen).
      rewrite E1, E2, E3. eexists. split; [reflexivity|].
      assert (HDd : D = (pre ++ p1 ++ p2 ++ p3) ++ d3).
      { rewrite HD, H1, H2, H3. rewrite <- !app_assoc. reflexivity. }
      set (q := pre ++ p1 ++ p2 ++ p3) in *.
      assert (Hq : len D - len d3 = len q) by (rewrite HDd, len_app; lia).
      rewrite Hq. unfold slice.
      assert (Hlv : len (take vl (drop ns d3)) = vl).
      { unfold len, take, drop in *. rewrite firstn_length, skipn_length. lia. }
      rewrite Hlv. replace (len q + ns + vl <=? len D) with true by (rewrite HDd, len_app; lia).
      f_equal. rewrite HDd. replace (N.to_nat (len q + ns)) with (length q + N.to_nat ns)%nat by (unfold len; lia).
      rewrite <- skipn_skipn'. rewrite skipn_app, skipn_all, Nat.sub_diag. reflexivity.
    + eapply (IH _ _ _ _ D (pre ++ p1 ++ p2 ++ p3 ++ take (ns + vl) d3) Et); [| |exact He].
      * rewrite HD, H1, H2, H3. rewrite <- !app_assoc. do 4 f_equal. unfold take, drop. symmetry. apply firstn_skipn.
      * rewrite H1, H2, H3. rewrite !len_app. unfold len, take, drop in *.
        rewrite firstn_length, skipn_length. lia.
Qed.

Lemma slice_take l ro vo n v : slice (take ro l) vo n = Some v -> slice l vo n = Some v.
Proof.
  intros H. apply slice_some in H. destruct H as [B ->]. unfold len, take in *.
  rewrite firstn_length in B. unfold slice.
  replace (vo + n <=? len l) with true by (unfold len; lia). f_equal.
  rewrite skipn_firstn_comm, firstn_firstn. f_equal. lia.
Qed.

(* the value offset recomputed from the block bytes designates the parsed value *)
Lemma val_off_ok raw b j : block_init raw = Some b -> (j < nentries b)%nat ->
  exists vo, val_off raw (pe_off (entry_at b j)) = Some vo /\
             slice raw vo (len (pe_val (entry_at b j))) = Some (pe_val (entry_at b j)).
Proof.
  intros Hb Hj. pose proof (block_init_entries raw b Hb) as Hp.
  assert (Hin : In (entry_at b j) (ab_entries b)) by (apply nth_In; exact Hj).
  destruct (parse_entries_val _ _ _ _ _ (take (block_ro raw) raw) [] Hp eq_refl eq_refl _ Hin) as (vo & Hv & Hs).
  exists vo. split; [exact Hv|]. eapply slice_take. exact Hs.
Qed.
