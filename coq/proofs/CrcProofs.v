(* C17: the table-driven (slicing-by-8) and the SSE4.2 models both compute the
   bit-serial CRC-32C of the standard. *)
From Coq Require Import NArith ZArith List Lia ZifyBool ZifyN ZifyNat.
From Mtbl Require Import gen.CrcTables model.Bytes model.Crc proofs.BytesLemmas.
Local Open Scope N_scope.
Ltac Zify.zify_post_hook ::= Z.div_mod_to_equations.
Ltac splits := repeat match goal with |- _ /\ _ => split end.

(* ---------- the shift register is GF(2)-linear ----------------------------------- *)
Lemma odd_lxor a b : N.odd (N.lxor a b) = xorb (N.odd a) (N.odd b).
Proof. rewrite <- !N.bit0_odd. apply N.lxor_spec. Qed.

Ltac xor_bits := apply N.bits_inj_iff; intros ?i; rewrite ?N.lxor_spec;
  repeat match goal with |- context [N.testbit ?x ?i] => destruct (N.testbit x i) end; reflexivity.
Lemma lxor_cancel_p x y p : N.lxor (N.lxor x p) (N.lxor y p) = N.lxor x y.
Proof. xor_bits. Qed.
Lemma lxor_move_p x y p : N.lxor (N.lxor x y) p = N.lxor (N.lxor x p) y.
Proof. xor_bits. Qed.
Lemma lxor_assoc_p x y p : N.lxor (N.lxor x y) p = N.lxor x (N.lxor y p).
Proof. xor_bits. Qed.

Lemma step_bit_lxor a b : crc_step_bit (N.lxor a b) = N.lxor (crc_step_bit a) (crc_step_bit b).
Proof.
  unfold crc_step_bit. rewrite odd_lxor, N.shiftr_lxor.
  destruct (N.odd a), (N.odd b); cbn [xorb].
  - symmetry. apply lxor_cancel_p.
  - apply lxor_move_p.
  - apply lxor_assoc_p.
  - reflexivity.
Qed.

Lemma step8_lxor a b : crc_step8 (N.lxor a b) = N.lxor (crc_step8 a) (crc_step8 b).
Proof. unfold crc_step8. rewrite !step_bit_lxor. reflexivity. Qed.

Lemma step_bit_double y : crc_step_bit (2 * y) = y.
Proof.
  unfold crc_step_bit. rewrite N.odd_mul, N.odd_2. cbn [andb].
  rewrite N.shiftr_div_pow2. change (2 ^ 1) with 2. rewrite N.mul_comm, N.div_mul; lia.
Qed.
Lemma step8_shift8 y : crc_step8 (256 * y) = y.
Proof.
  unfold crc_step8.
  replace (256 * y) with (2 * (2 * (2 * (2 * (2 * (2 * (2 * (2 * y)))))))) by lia.
  rewrite !step_bit_double. reflexivity.
Qed.
Lemma step8_0 : crc_step8 0 = 0.
Proof. reflexivity. Qed.

(* ---------- the tables (finite checks, lifted) ------------------------------------ *)
Lemma tbl0_check : forallb (fun b => tbl 0 b =? crc_step8 b) (map N.of_nat (seq 0 256)) = true.
Proof. vm_compute. reflexivity. Qed.
Lemma tblk_check : forallb (fun k => forallb (fun b => tbl (k + 1) b =? crc_step8 (tbl k b)) (map N.of_nat (seq 0 256)))
                     (map N.of_nat (seq 0 7)) = true.
Proof. vm_compute. reflexivity. Qed.
Lemma tbl_bound_check : forallb (fun k => forallb (fun b => tbl k b <? 4294967296) (map N.of_nat (seq 0 256)))
                     (map N.of_nat (seq 0 8)) = true.
Proof. vm_compute. reflexivity. Qed.

Lemma tbl0 b : b < 256 -> tbl 0 b = crc_step8 b.
Proof. intros H. apply N.eqb_eq. exact (sweep 256 _ tbl0_check b H). Qed.
Lemma tblk k b : k < 7 -> b < 256 -> tbl (k + 1) b = crc_step8 (tbl k b).
Proof.
  intros Hk Hb. apply N.eqb_eq.
  pose proof (sweep 7 _ tblk_check k Hk) as H. cbv beta in H. exact (sweep 256 _ H b Hb).
Qed.
Lemma tbl_bound k b : k < 8 -> b < 256 -> tbl k b < 4294967296.
Proof.
  intros Hk Hb. apply N.ltb_lt.
  pose proof (sweep 8 _ tbl_bound_check k Hk) as H. cbv beta in H. exact (sweep 256 _ H b Hb).
Qed.

(* ---------- the byte-table identity:  Z(w) = T0[w & 255] xor (w >> 8) -------------- *)
Lemma split_low8 w : w = N.lxor (N.land w 255) (256 * N.shiftr w 8).
Proof.
  apply N.bits_inj_iff. intros i. rewrite N.lxor_spec, land255.
  change 256 with (2 ^ 8). rewrite (N.mul_comm (2 ^ 8)).
  destruct (N.lt_ge_cases i 8) as [Hi|Hi].
  - rewrite N.mod_pow2_bits_low, N.mul_pow2_bits_low by exact Hi. rewrite xorb_false_r. reflexivity.
  - rewrite N.mod_pow2_bits_high, N.mul_pow2_bits_high by exact Hi. rewrite N.shiftr_spec'.
    replace (i - 8 + 8) with i by lia. destruct (N.testbit w i); reflexivity.
Qed.

Lemma step8_split w : crc_step8 w = N.lxor (tbl 0 (N.land w 255)) (N.shiftr w 8).
Proof.
  rewrite (split_low8 w) at 1. rewrite step8_lxor, step8_shift8.
  rewrite tbl0 by (rewrite land255; apply N.mod_lt; lia). reflexivity.
Qed.

(* the byte-wise loop of the slicing implementation is the reference step *)
Lemma shiftr8_byte b : b < 256 -> N.shiftr b 8 = 0.
Proof. intros H. rewrite N.shiftr_div_pow2. change (2 ^ 8) with 256. apply N.div_small, H. Qed.
Lemma sl_byte_ref c b : b < 256 -> sl_byte c b = crc_byte c b.
Proof.
  intros Hb. unfold sl_byte, crc_byte. rewrite step8_split. f_equal.
  rewrite N.shiftr_lxor, (shiftr8_byte b Hb), N.lxor_0_r. reflexivity.
Qed.

(* ---------- four and eight bytes at a time ------------------------------------------ *)
Definition Z4 (w : N) : N := crc_step8 (crc_step8 (crc_step8 (crc_step8 w))).

Lemma Z4_lxor a b : Z4 (N.lxor a b) = N.lxor (Z4 a) (Z4 b).
Proof. unfold Z4. rewrite !step8_lxor. reflexivity. Qed.

Lemma land255_lt x : N.land x 255 < 256.
Proof. rewrite land255. apply N.mod_lt. lia. Qed.

(* T(k+4)[b] = Z4 (Tk[b]) *)
Lemma tbl_plus4 k b : k < 4 -> b < 256 -> tbl (k + 4) b = Z4 (tbl k b).
Proof.
  intros Hk Hb. unfold Z4.
  replace (k + 4) with (k + 1 + 1 + 1 + 1) by lia.
  rewrite !tblk by lia. reflexivity.
Qed.

Lemma shiftr_shiftr8 w a : N.shiftr (N.shiftr w a) 8 = N.shiftr w (a + 8).
Proof. apply N.shiftr_shiftr. Qed.

Lemma Z4_split w : w < 4294967296 ->
  Z4 w = N.lxor (N.lxor (N.lxor (tbl 3 (N.land w 255)) (tbl 2 (N.land (N.shiftr w 8) 255)))
                        (tbl 1 (N.land (N.shiftr w 16) 255)))
                (tbl 0 (N.land (N.shiftr w 24) 255)).
Proof.
  intros Hw. unfold Z4.
  rewrite (step8_split w).
  rewrite step8_lxor, <- (tblk 0) by (try apply land255_lt; lia). change (0 + 1) with 1.
  rewrite (step8_split (N.shiftr w 8)), shiftr_shiftr8. change (8 + 8) with 16.
  rewrite !step8_lxor, <- (tblk 1), <- (tblk 0) by (try apply land255_lt; lia). change (1 + 1) with 2. change (0 + 1) with 1.
  rewrite (step8_split (N.shiftr w 16)), shiftr_shiftr8. change (16 + 8) with 24.
  rewrite !step8_lxor, <- (tblk 2), <- (tblk 1), <- (tblk 0) by (try apply land255_lt; lia).
  change (2 + 1) with 3. change (1 + 1) with 2. change (0 + 1) with 1.
  rewrite (step8_split (N.shiftr w 24)), shiftr_shiftr8. change (24 + 8) with 32.
  assert (Hz : N.shiftr w 32 = 0).
  { rewrite N.shiftr_div_pow2. change (2 ^ 32) with 4294967296. apply N.div_small, Hw. }
  rewrite Hz, N.lxor_0_r. xor_bits.
Qed.

(* one reference byte step absorbs the low byte of a word *)
Lemma step8_absorb s b rest : b < 256 ->
  crc_step8 (N.lxor s (b + 256 * rest)) = N.lxor (crc_byte s b) rest.
Proof.
  intros Hb. unfold crc_byte.
  assert (E : b + 256 * rest = N.lxor b (256 * rest)).
  { rewrite (N.mul_comm 256 rest). change 256 with (2 ^ 8).
    rewrite <- (lor_disjoint_add b rest 8 ltac:(change (2 ^ 8) with 256; exact Hb)).
    symmetry. apply N.lxor_lor. apply N.bits_inj_iff. intros i. rewrite N.land_spec, N.bits_0.
    destruct (N.lt_ge_cases i 8) as [Hi|Hi].
    - rewrite N.mul_pow2_bits_low by exact Hi. apply andb_false_r.
    - assert (Hbit : N.testbit b i = false).
      { destruct (N.eq_dec b 0) as [->|Hne]; [apply N.bits_0|].
        apply N.bits_above_log2. apply N.log2_lt_pow2; [lia|].
        eapply N.lt_le_trans; [exact Hb|]. change 256 with (2 ^ 8). apply N.pow_le_mono_r; lia. }
      rewrite Hbit. reflexivity. }
  rewrite E, <- N.lxor_assoc, step8_lxor, step8_shift8. reflexivity.
Qed.

Lemma four_bytes c b0 b1 b2 b3 : b0 < 256 -> b1 < 256 -> b2 < 256 -> b3 < 256 ->
  crc_update c [b0; b1; b2; b3] = Z4 (N.lxor c (le32 b0 b1 b2 b3)).
Proof.
  intros H0 H1 H2 H3. unfold crc_update, Z4, le32. cbn [fold_left].
  replace (b0 + 256 * b1 + 65536 * b2 + 16777216 * b3) with (b0 + 256 * (b1 + 256 * (b2 + 256 * (b3 + 256 * 0)))) by lia.
  rewrite step8_absorb by exact H0. rewrite step8_absorb by exact H1.
  rewrite step8_absorb by exact H2. rewrite step8_absorb by exact H3.
  rewrite N.lxor_0_r. reflexivity.
Qed.

Lemma lxor_lt32 a b : a < 4294967296 -> b < 4294967296 -> N.lxor a b < 4294967296.
Proof.
  intros Ha Hb. destruct (N.eq_dec (N.lxor a b) 0) as [->|Hne]; [lia|].
  change 4294967296 with (2 ^ 32). apply N.log2_lt_pow2; [lia|].
  eapply N.le_lt_trans; [apply N.log2_lxor|].
  destruct (N.eq_dec a 0) as [->|Ha0], (N.eq_dec b 0) as [->|Hb0]; cbn [N.log2 N.max]; try lia.
  - rewrite N.max_r by lia. apply N.log2_lt_pow2; [lia|exact Hb].
  - rewrite N.max_l by lia. apply N.log2_lt_pow2; [lia|exact Ha].
  - apply N.max_lub_lt; apply N.log2_lt_pow2; try lia; assumption.
Qed.

Lemma le32_lt b0 b1 b2 b3 : b0 < 256 -> b1 < 256 -> b2 < 256 -> b3 < 256 -> le32 b0 b1 b2 b3 < 4294967296.
Proof. unfold le32. lia. Qed.

Lemma crc_update_app c a b : crc_update c (a ++ b) = crc_update (crc_update c a) b.
Proof. unfold crc_update. apply fold_left_app. Qed.

(* the 8-byte step of the slicing loop = eight reference byte steps *)
Lemma sl_qword_ref c b0 b1 b2 b3 b4 b5 b6 b7 : c < 4294967296 ->
  b0 < 256 -> b1 < 256 -> b2 < 256 -> b3 < 256 -> b4 < 256 -> b5 < 256 -> b6 < 256 -> b7 < 256 ->
  sl_qword c b0 b1 b2 b3 b4 b5 b6 b7 = crc_update c [b0; b1; b2; b3; b4; b5; b6; b7].
Proof.
  intros Hc H0 H1 H2 H3 H4 H5 H6 H7.
  change [b0; b1; b2; b3; b4; b5; b6; b7] with ([b0; b1; b2; b3] ++ [b4; b5; b6; b7]).
  rewrite (crc_update_app c [b0; b1; b2; b3] [b4; b5; b6; b7]).
  rewrite (four_bytes c) by assumption. rewrite four_bytes by assumption.
  set (w0 := N.lxor c (le32 b0 b1 b2 b3)). set (w1 := le32 b4 b5 b6 b7).
  assert (Hw0 : w0 < 4294967296) by (apply lxor_lt32; [exact Hc|apply le32_lt; assumption]).
  assert (Hw1 : w1 < 4294967296) by (apply le32_lt; assumption).
  rewrite Z4_lxor, (Z4_split w0 Hw0), !Z4_lxor, (Z4_split w1 Hw1).
  rewrite <- !tbl_plus4 by (try apply land255_lt; lia).
  change (3 + 4) with 7. change (2 + 4) with 6. change (1 + 4) with 5. change (0 + 4) with 4.
  unfold sl_qword, CRC_SLICING_LOOKUPS. fold w0. fold w1. cbn [fold_left sl_lookup N.eqb Pos.eqb].
  rewrite !N.shiftr_0_r, N.lxor_0_l. xor_bits.
Qed.

Lemma crc_byte_lt32 c b : c < 4294967296 -> b < 256 -> crc_byte c b < 4294967296.
Proof.
  intros Hc Hb. rewrite <- sl_byte_ref by exact Hb. unfold sl_byte. apply lxor_lt32.
  - apply tbl_bound; [lia|apply land255_lt].
  - rewrite N.shiftr_div_pow2. change (2 ^ 8) with 256. lia.
Qed.
Lemma crc_update_lt32 : forall l c, c < 4294967296 -> wf_bytes l -> crc_update c l < 4294967296.
Proof.
  induction l as [|b l IH]; intros c Hc Hwf; [exact Hc|].
  inversion Hwf as [|? ? Hb Hl]; subst. unfold crc_update. cbn [fold_left].
  apply IH; [apply crc_byte_lt32; assumption|exact Hl].
Qed.


Lemma fold_sl_byte_ref : forall l c, wf_bytes l -> fold_left sl_byte l c = crc_update c l.
Proof.
  induction l as [|b l IH]; intros c Hwf; [reflexivity|].
  inversion Hwf as [|? ? Hb Hl]; subst. unfold crc_update. cbn [fold_left].
  rewrite sl_byte_ref by exact Hb. apply IH, Hl.
Qed.

Lemma sl_head_ref : forall n c l, wf_bytes l ->
  exists a r, l = a ++ r /\ sl_head n c l = (crc_update c a, r) /\ wf_bytes a /\ wf_bytes r.
Proof.
  induction n as [|n IH]; intros c l Hwf.
  - exists [], l. splits; [reflexivity|destruct l; reflexivity|constructor|exact Hwf].
  - destruct l as [|b l]; [exists [], []; splits; try reflexivity; constructor|].
    inversion Hwf as [|? ? Hb Hl]; subst. cbn [sl_head]. rewrite sl_byte_ref by exact Hb.
    destruct (IH (crc_byte c b) l Hl) as (a & r & -> & E & Ha & Hr).
    exists (b :: a), r. splits; [reflexivity|exact E|constructor; assumption|exact Hr].
Qed.

Lemma sl_main_ref : forall fuel c l, c < 4294967296 -> wf_bytes l ->
  exists a r, l = a ++ r /\ sl_main fuel c l = (crc_update c a, r) /\ wf_bytes a /\ wf_bytes r.
Proof.
  induction fuel as [|fuel IH]; intros c l Hc Hwf.
  - exists [], l. splits; [reflexivity|reflexivity|constructor|exact Hwf].
  - cbn [sl_main].
    destruct l as [|b0 [|b1 [|b2 [|b3 [|b4 [|b5 [|b6 [|b7 l]]]]]]]];
      try (eexists [], _; splits; [reflexivity|reflexivity|constructor|exact Hwf]).
    repeat match goal with H : wf_bytes (_ :: _) |- _ => inversion H; clear H; subst end.
    repeat match goal with H : Forall wf_byte (_ :: _) |- _ => inversion H; clear H; subst end.
    unfold wf_byte in *.
    rewrite sl_qword_ref by assumption.
    destruct (IH (crc_update c [b0; b1; b2; b3; b4; b5; b6; b7]) l) as (a & r & -> & E & Ha & Hr).
    + apply crc_update_lt32; [exact Hc|]. repeat constructor; assumption.
    + assumption.
    + exists ([b0; b1; b2; b3; b4; b5; b6; b7] ++ a), r. rewrite <- app_assoc.
      splits; [reflexivity|rewrite crc_update_app; exact E| |exact Hr].
      apply Forall_app. split; [repeat constructor; assumption|exact Ha].
Qed.

(* T17a *)
Theorem crc_slicing_ref misalign l : wf_bytes l -> crc_slicing misalign l = crc32c_ref l.
Proof.
  intros Hwf. unfold crc_slicing, crc32c_ref, CRC_SLICING_INIT.
  destruct (sl_head_ref (N.to_nat ((4 - misalign mod 4) mod 4)) 4294967295 l Hwf) as (a & r & -> & -> & Ha & Hr).
  destruct (sl_main_ref (Nat.div (length r) 8) (crc_update 4294967295 a) r
              (crc_update_lt32 a 4294967295 ltac:(lia) Ha) Hr) as (a2 & r2 & -> & -> & Ha2 & Hr2).
  rewrite fold_sl_byte_ref by exact Hr2. rewrite !crc_update_app. reflexivity.
Qed.

(* ---------- SSE4.2 ------------------------------------------------------------------ *)
Lemma sse_main_ref : forall fuel c l, (8 * fuel <= length l)%nat ->
  sse_main fuel c l = (crc_update c (firstn (8 * fuel) l), skipn (8 * fuel) l).
Proof.
  unfold CRC_SSE42_MAIN_WIDTH.
  induction fuel as [|fuel IH]; intros c l H; [reflexivity|].
  cbn [sse_main]. unfold CRC_SSE42_MAIN_WIDTH. change (N.to_nat 8) with 8%nat.
  rewrite IH by (rewrite skipn_length; lia).
  replace (8 * S fuel)%nat with (8 + 8 * fuel)%nat by lia.
  rewrite <- crc_update_app. f_equal.
  - f_equal. symmetry. apply firstn_add'.
  - rewrite skipn_skipn'. reflexivity.
Qed.

(* the tail switch: for every value of len & 7 the crc32 instructions executed read the
   tail bytes exactly once, in order (a finite check of the scraped table) *)
Fixpoint covers (ops : list (N * N)) (p total : N) : bool :=
  match ops with
  | [] => p =? total
  | (off, w) :: tl => (off =? p) && covers tl (p + w) total
  end.
Lemma sse_tail_table_ok : forallb (fun e => covers (snd e) 0 (fst e)) CRC_SSE42_TAIL = true.
Proof. vm_compute. reflexivity. Qed.
Lemma sse_tail_all : forallb (fun n => match find (fun e => fst e =? n) CRC_SSE42_TAIL with Some _ => true | None => false end)
                       (map N.of_nat (seq 0 8)) = true.
Proof. vm_compute. reflexivity. Qed.

Lemma covers_fold : forall ops p c (tail : bytes), covers ops p (len tail) = true ->
  fold_left (fun c op => crc_update c (firstn (N.to_nat (snd op)) (skipn (N.to_nat (fst op)) tail))) ops c
  = crc_update c (skipn (N.to_nat p) tail).
Proof.
  induction ops as [|[off w] ops IH]; intros p c tail H; cbn [covers] in H.
  - cbn [fold_left]. apply N.eqb_eq in H. rewrite skipn_all2 by (unfold len in H; lia). reflexivity.
  - apply andb_prop in H. destruct H as [H1 H2]. apply N.eqb_eq in H1. subst off.
    cbn [fold_left fst snd]. rewrite (IH (p + w) _ tail H2).
    rewrite <- crc_update_app. f_equal.
    replace (N.to_nat (p + w)) with (N.to_nat p + N.to_nat w)%nat by lia.
    rewrite <- skipn_skipn'. apply firstn_skipn.
Qed.

Lemma sse_tail_ref : forall (tail : bytes) c, (length tail < 8)%nat ->
  fold_left (fun c op => crc_update c (firstn (N.to_nat (snd op)) (skipn (N.to_nat (fst op)) tail)))
            (sse_tail_ops (N.of_nat (length tail))) c = crc_update c tail.
Proof.
  intros tail c H. unfold sse_tail_ops.
  pose proof (sweep 8 _ sse_tail_all (N.of_nat (length tail)) ltac:(lia)) as Hf. cbv beta in Hf.
  destruct (find (fun e => fst e =? N.of_nat (length tail)) CRC_SSE42_TAIL) as [e|] eqn:E; [|discriminate].
  apply find_some in E. destruct E as [Hin He]. apply N.eqb_eq in He.
  pose proof sse_tail_table_ok as Hall. rewrite forallb_forall in Hall. specialize (Hall e Hin).
  rewrite He in Hall. change (N.of_nat (length tail)) with (len tail) in Hall.
  rewrite (covers_fold (snd e) 0 c tail Hall). reflexivity.
Qed.

(* T17b *)
Theorem crc_sse42_ref l : crc_sse42 l = crc32c_ref l.
Proof.
  unfold crc_sse42, crc32c_ref, CRC_SSE42_INIT, CRC_SSE42_TAIL_MASK, CRC_SSE42_MAIN_WIDTH.
  change (N.to_nat 8) with 8%nat.
  pose proof (Nat.div_mod (length l) 8 ltac:(lia)) as Hdm.
  pose proof (Nat.mod_upper_bound (length l) 8 ltac:(lia)) as Hub.
  set (q := Nat.div (length l) 8) in *. set (r := Nat.modulo (length l) 8) in *.
  pose proof (sse_main_ref q 4294967295 l ltac:(lia)) as Hm. unfold CRC_SSE42_MAIN_WIDTH in Hm.
  rewrite Hm.
  assert (Hlen : length (skipn (8 * q) l) = r) by (rewrite skipn_length; lia).
  assert (Hland : N.land (len l) 7 = N.of_nat (length (skipn (8 * q) l))).
  { rewrite Hlen. change 7 with (N.ones 3). rewrite N.land_ones. change (2 ^ 3) with 8. unfold len. lia. }
  rewrite Hland, sse_tail_ref by lia.
  rewrite <- crc_update_app, firstn_skipn. reflexivity.
Qed.
