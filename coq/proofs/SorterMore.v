(* sorter.c, continued (C06): the order in which chunk readers are collected (thread pool), histories
   of next / seek on the sorter's iterator, and the canonical output for a commutative merge function.
   Nothing here changes model/Sorter.v; the statements are about sorter states whose chunk list is an
   arbitrary permutation of the one the sequential model builds. *)
From Coq Require Import NArith ZArith List Lia Permutation Sorting.Sorted.
From Mtbl Require Import gen.Consts model.Bytes model.Order model.Heap model.Merger model.Sorter spec.MergeSpec
  proofs.OrderProofs proofs.SorterProofs proofs.HeapProofs proofs.MergerProofs proofs.MergerClosed proofs.SorterFull
  proofs.MergerSeek proofs.MergerHistory.
Local Open Scope N_scope.
Ltac splits := repeat match goal with |- _ /\ _ => split end.

(* ---- the sorter state seen by mtbl_sorter_iter when a pool is used ------------------------------------ *)
(* the chunk readers in the order the result handler collected them *)
Definition with_chunks (s : sorter) (cs : list (option (list entry))) : sorter :=
  mkso (so_vec s) (so_entry_bytes s) cs (so_iterating s) (so_max_memory s).

(* the flush mtbl_sorter_iter starts with *)
Definition final_flush (mergef : option (bytes -> bytes -> bytes -> option bytes)) (sort : list entry -> list entry)
  (s : sorter) : res (sorter * bool) :=
  match so_vec s with [] => Ok (s, true) | _ => sorter_flush mergef sort s end.

Lemma with_chunks_same s : with_chunks s (so_chunks s) = s.
Proof. destruct s. reflexivity. Qed.

Lemma final_flush_vec mergef sort s s1 b : final_flush mergef sort s = Ok (s1, b) -> so_vec s1 = [].
Proof.
  unfold final_flush. destruct (so_vec s) eqn:Ev.
  - intros H. inversion H; subst. exact Ev.
  - unfold sorter_flush. destruct (write_chunk mergef sort (so_vec s)); try discriminate.
    intros H. inversion H; subst. reflexivity.
Qed.

(* mtbl_sorter_iter = the final flush, then the merger over the collected readers *)
Lemma sorter_iter_final mergef sort s s1 :
  final_flush mergef sort s = Ok (s1, true) -> sorter_iter mergef sort s = sorter_iter mergef sort s1.
Proof.
  intros H. pose proof (final_flush_vec _ _ _ _ _ H) as Hv. unfold sorter_iter. rewrite Hv.
  unfold final_flush in H. rewrite H. reflexivity.
Qed.

(* ---- generic list facts -------------------------------------------------------------------------------- *)
Lemma Forall2_perm_l {A B} (R : A -> B -> Prop) : forall l1' l1, Permutation l1' l1 ->
  forall l2, Forall2 R l1 l2 -> exists l2', Permutation l2' l2 /\ Forall2 R l1' l2'.
Proof.
  induction 1 as [|x l' l Hp IH|x y l|l' m l Hp1 IH1 Hp2 IH2]; intros l2 H2.
  - inversion H2; subst. exists []. split; constructor.
  - inversion H2 as [|? b ? t Hxb Ht]; subst. destruct (IH t Ht) as (t' & Hpt & Hf).
    exists (b :: t'). split; [constructor; exact Hpt|constructor; assumption].
  - inversion H2 as [|? a ? t0 Hxa Ht0]; subst. inversion Ht0 as [|? b ? t Hyb Ht]; subst.
    exists (b :: a :: t). split; [constructor|repeat constructor; assumption].
  - destruct (IH2 l2 H2) as (m2 & Hpm & Hfm). destruct (IH1 m2 Hfm) as (l2' & Hpl & Hfl).
    exists l2'. split; [eapply Permutation_trans; eassumption|exact Hfl].
Qed.

Lemma Permutation_concat {A} (l l' : list (list A)) : Permutation l l' -> Permutation (concat l) (concat l').
Proof.
  induction 1 as [|x l l' Hp IH|x y l|l m l' Hp1 IH1 Hp2 IH2]; cbn [concat].
  - constructor.
  - apply Permutation_app_head, IH.
  - rewrite !app_assoc. apply Permutation_app_tail, Permutation_app_comm.
  - eapply Permutation_trans; eassumption.
Qed.

(* two strictly ascending key lists with the same elements are equal *)
Lemma ksorted_unique : forall l l', ksorted l -> ksorted l' -> (forall x, In x l <-> In x l') -> l = l'.
Proof.
  induction l as [|a l IH]; intros l' Hs Hs' Hin.
  - destruct l' as [|b l']; [reflexivity|]. exfalso. apply (Hin b). left. reflexivity.
  - destruct l' as [|b l']; [exfalso; apply (Hin a); left; reflexivity|].
    inversion Hs as [|? ? Hsl Ha]; subst. inversion Hs' as [|? ? Hsl' Hb]; subst.
    rewrite Forall_forall in Ha, Hb.
    assert (Eab : a = b).
    { destruct (proj1 (Hin a) (or_introl eq_refl)) as [E|Hal']; [symmetry; exact E|].
      destruct (proj2 (Hin b) (or_introl eq_refl)) as [E|Hbl]; [exact E|].
      pose proof (Hb a Hal') as H1. pose proof (Ha b Hbl) as H2. apply bcmp_lt_gt in H1. congruence. }
    subst b. f_equal. apply IH; [exact Hsl|exact Hsl'|]. intros x. split; intros Hx.
    + destruct (proj1 (Hin x) (or_intror Hx)) as [E|H']; [|exact H']. subst x. specialize (Ha a Hx). rewrite bcmp_refl in Ha. discriminate.
    + destruct (proj2 (Hin x) (or_intror Hx)) as [E|H']; [|exact H']. subst x. specialize (Hb a Hx). rewrite bcmp_refl in Hb. discriminate.
Qed.

Lemma sorted_keys_ksorted (out : list entry) :
  StronglySorted (fun a b => bcmp (fst a) (fst b) = Lt) out -> ksorted (map fst out).
Proof.
  induction 1 as [|a l Hs IH Ha]; [constructor|]. cbn [map]. constructor; [exact IH|].
  rewrite Forall_forall in *. intros x Hx. apply in_map_iff in Hx. destruct Hx as (e & <- & He). apply Ha, He.
Qed.

Lemma values_for_single k (l : list entry) : values_for k [l] = vals k l.
Proof. unfold values_for, vals. cbn [map concat]. apply app_nil_r. Qed.

Lemma all_keys_single_In (ops : list entry) x : In x (all_keys [ops]) <-> In x (map fst ops).
Proof. rewrite all_keys_In. cbn [concat]. rewrite app_nil_r. reflexivity. Qed.

(* the entries held by the chunk readers *)
Definition chunk_entries (cs : list (option (list entry))) : list entry :=
  concat (map (fun c => match c with Some es => es | None => [] end) cs).
Lemma chunk_entries_Some rs : chunk_entries (map Some rs) = concat rs.
Proof. unfold chunk_entries. rewrite map_map, map_id. reflexivity. Qed.

(* the number of entries a merger iterator delivers is bounded by what remains: more fuel changes nothing *)
Lemma mdrain_enough mf : forall n it, api it -> (length (remaining it) <= n)%nat ->
  forall m, (n <= m)%nat -> mdrain mf (S m) it = mdrain mf (S n) it.
Proof.
  induction n as [|n IH]; intros it Hapi Hlen m Hm; rewrite !mdrain_S; pose proof (merger_next_closed mf it Hapi) as Hstep;
    destruct (merger_next (Some mf) None it) as [it' [[k v]|]]; try reflexivity.
  - destruct Hstep as (first & rest & Hp & _). apply Permutation_length in Hp. cbn [length] in Hp. unfold entry in *. lia.
  - destruct Hstep as (first & rest & Hp & _ & _ & Hapi' & _). apply Permutation_length in Hp.
    cbn [length] in Hp. rewrite app_length in Hp. unfold entry in *. destruct m as [|m]; [lia|]. f_equal. apply IH; [exact Hapi'|lia|lia].
Qed.

Section More.
Variable f : bytes -> bytes -> bytes -> bytes.
Hypothesis f_assoc : forall k a b c, f k (f k a b) c = f k a (f k b c).
Variable sort : list entry -> list entry.
Hypothesis sort_perm : forall l, Permutation (sort l) l.
Hypothesis sort_sorted : forall l, keys_le (sort l).

Local Notation mff := (mf f).
Local Notation crel := (chunk_rel f sort).

(* what the iterator delivers (fuel n+1 >= number of entries added) *)
Definition out_ok (ops out : list entry) : Prop :=
  StronglySorted (fun a b => bcmp (fst a) (fst b) = Lt) out /\
  map fst out = all_keys [ops] /\
  Forall (fun e => exists first rest, Permutation (first :: rest) (vals (fst e) ops) /\ F f (fst e) first rest = snd e) out.

Lemma existsb_map_Some (rs : list (list entry)) :
  existsb (fun c : option (list entry) => match c with Some _ => false | None => true end) (map Some rs) = false.
Proof. induction rs as [|r rs IH]; [reflexivity|exact IH]. Qed.

(* a merged value over the chunks is a fold over an arrangement of the values added *)
Lemma merged_value_flat rs batches ops k v :
  Forall2 crel rs batches -> Permutation (concat batches) ops ->
  merged_value_ok mff rs k v ->
  exists first rest, Permutation (first :: rest) (vals k ops) /\ F f k first rest = v.
Proof.
  intros Hrs Hperm (first & rest & Hp & Hf).
  destruct (values_groups f f_assoc sort sort_perm sort_sorted k rs batches Hrs) as (E1 & E2 & _). rewrite E1 in Hp.
  destruct (Permutation_map_inv _ _ Hp) as (gs' & Egs & Hpg).
  destruct gs' as [|[b1 ys1] gs'']; [discriminate|]. cbn [map] in Egs. inversion Egs; subst first rest.
  exists b1, (ys1 ++ concat (map gall gs'')). split.
  - change (b1 :: ys1 ++ concat (map gall gs'')) with (concat (map gall ((b1, ys1) :: gs''))).
    eapply Permutation_trans; [apply Permutation_concat_map, Permutation_sym, Hpg|].
    eapply Permutation_trans; [exact E2|]. apply vals_perm, Hperm.
  - rewrite fold_merge_F in Hf. inversion Hf as [Hf']. unfold gval at 1. cbn [fst snd]. rewrite (flatten_groups f f_assoc). reflexivity.
Qed.

(* the keys held by the chunks are the keys added *)
Lemma chunk_keys rs batches ops k :
  Forall2 crel rs batches -> Permutation (concat batches) ops ->
  (In k (map fst (concat rs)) <-> In k (map fst ops)).
Proof.
  intros Hrs Hperm. rewrite !in_keys_vals.
  destruct (values_groups f f_assoc sort sort_perm sort_sorted k rs batches Hrs) as (E1 & E2 & _).
  rewrite vals_concat, E1.
  assert (Hn : map (gval f k) (groups_of sort k batches) = [] <-> vals k ops = []).
  { rewrite <- (perm_nil_iff _ _ (vals_perm k _ _ Hperm)), <- (perm_nil_iff _ _ E2), <- groups_nil_iff.
    destruct (groups_of sort k batches); [tauto|split; discriminate]. }
  tauto.
Qed.

Lemma chunks_all_keys rs batches ops :
  Forall2 crel rs batches -> Permutation (concat batches) ops -> all_keys rs = all_keys [ops].
Proof.
  intros Hrs Hperm. apply ksorted_unique; [apply all_keys_sorted|apply all_keys_sorted|].
  intros x. rewrite all_keys_In, all_keys_single_In. apply (chunk_keys rs batches ops x Hrs Hperm).
Qed.

(* mtbl_sorter_iter on a state without buffered entries whose chunks are [rs], in that order *)
Lemma iter_of_chunks s rs batches ops :
  so_vec s = [] -> so_chunks s = map Some rs -> Forall2 crel rs batches -> Permutation (concat batches) ops ->
  exists it,
    sorter_iter (Some mff) sort s = Ok (mkso [] (so_entry_bytes s) (map Some rs) true (so_max_memory s), Some it) /\
    merger_iter_make None (map (fun es => mksc es 0 true BAll false) rs) false = Some it /\
    api it /\ Permutation (remaining it) (concat rs) /\
    (length (concat rs) <= length ops)%nat /\
    forall n, (length (concat rs) <= n)%nat -> out_ok ops (mdrain mff (S n) it).
Proof.
  intros Hv Hch Hrs Hperm. unfold sorter_iter. rewrite Hv, Hch, existsb_map_Some, map_map.
  pose proof (chunk_rel_sorted f f_assoc sort sort_perm sort_sorted rs batches Hrs) as Hsorted.
  assert (Htot : forall k a b, mff k a b <> None) by (intros; discriminate).
  destruct (merge_sources_fuel mff rs Hsorted Htot) as (it & Hmk & Hout). rewrite Hmk.
  exists it. split; [rewrite Hv; reflexivity|]. split; [reflexivity|].
  assert (Hapi : api it /\ Permutation (remaining it) (concat rs)).
  { assert (Hfresh : Forall fresh (map (fun es => mksc es 0 true BAll false) rs)).
    { apply Forall_forall. intros s0 Hin. apply in_map_iff in Hin. destruct Hin as (es & <- & Hes).
      rewrite Forall_forall in Hsorted. unfold fresh. cbn. repeat split; try reflexivity. apply Hsorted, Hes. }
    destruct (merger_iter_make_spec mff hk K_nil K_push K_pop K_replace K_min K_mark _ Hfresh) as (it0 & Hmk0 & Hapi & Hp & _).
    rewrite Hmk in Hmk0. inversion Hmk0; subst it0. rewrite map_map in Hp. cbn [sc_es] in Hp. rewrite map_id in Hp.
    split; [exact Hapi|exact Hp]. }
  destruct Hapi as [Hapi Hrem]. split; [exact Hapi|]. split; [exact Hrem|].
  assert (Hlen : (length (concat rs) <= length ops)%nat).
  { destruct (values_groups f f_assoc sort sort_perm sort_sorted [] rs batches Hrs) as (_ & _ & Hl).
    rewrite <- (Permutation_length Hperm). exact Hl. }
  split; [exact Hlen|]. intros n Hn.
  destruct (Hout n Hn) as (Hso & Hkeys & Hvals). unfold out_ok. splits.
  - exact Hso.
  - apply ksorted_unique; [apply sorted_keys_ksorted, Hso|apply all_keys_sorted|].
    intros x. rewrite Hkeys, all_keys_single_In. apply (chunk_keys rs batches ops x Hrs Hperm).
  - eapply Forall_impl; [|exact Hvals]. intros [k v] Hm. cbn [fst snd] in *.
    exact (merged_value_flat rs batches ops k v Hrs Hperm Hm).
Qed.

(* the sequential sorter after the adds and the final flush: chunks and the batches they were written from *)
Lemma adds_then_flush max_memory ops :
  exists s, adds f sort (sorter_init max_memory) ops = Ok s /\
  exists s1 rs batches, final_flush (Some mff) sort s = Ok (s1, true) /\
    so_vec s1 = [] /\ so_iterating s1 = false /\ so_chunks s1 = map Some rs /\
    Forall2 crel rs batches /\ Permutation (concat batches) ops.
Proof.
  assert (H0 : SorterFull.sinv f sort (sorter_init max_memory) []) by (unfold sinv, sorter_init; cbn; split; [reflexivity|exists []; split; constructor]).
  destruct (adds_spec f f_assoc sort sort_perm sort_sorted ops _ _ H0) as (s & Hadds & Hs). cbn [app] in Hs.
  exists s. split; [exact Hadds|].
  assert (Hfl : exists s1, final_flush (Some mff) sort s = Ok (s1, true) /\ SorterFull.sinv f sort s1 ops /\ so_vec s1 = []).
  { unfold final_flush. destruct (so_vec s) eqn:Ev; [exists s; splits; [reflexivity|exact Hs|exact Ev]|].
    destruct (flush_spec f f_assoc sort sort_perm sort_sorted s ops Hs) as (s1 & H1 & H2 & H3 & _). exists s1. splits; assumption. }
  destruct Hfl as (s1 & Hfl & (Hi1 & batches & Hf2 & Hperm) & Hv1). rewrite Hv1, app_nil_r in Hperm.
  destruct (Forall2_chunks _ _ _ _ Hf2) as (rs & Hch & Hrs).
  exists s1, rs, batches. splits; assumption.
Qed.

(* a history of next / seek calls on the iterator: keys of the cursor over the sorted distinct keys added,
   values folds over arrangements of the values added *)
Definition hist_ok (ops : list entry) (it : miter) (hist : list mop) : Prop :=
  map (option_map fst) (mrun (Some mff) it hist) = krun (all_keys [ops]) (Some 0%nat) hist /\
  forall k v, In (Some (k, v)) (mrun (Some mff) it hist) ->
    exists first rest, Permutation (first :: rest) (vals k ops) /\ F f k first rest = v.

(* T1 + T2: the readers collected in any order *)
Lemma any_order_core max_memory ops :
  exists s, adds f sort (sorter_init max_memory) ops = Ok s /\
  exists s1, final_flush (Some mff) sort s = Ok (s1, true) /\ so_iterating s1 = false /\
    sorter_iter (Some mff) sort s = sorter_iter (Some mff) sort (with_chunks s1 (so_chunks s1)) /\
    forall cs, Permutation cs (so_chunks s1) ->
    exists s' it, sorter_iter (Some mff) sort (with_chunks s1 cs) = Ok (s', Some it) /\
      so_iterating s' = true /\ so_chunks s' = cs /\ so_vec s' = [] /\
      api it /\ Permutation (remaining it) (chunk_entries cs) /\ (length (chunk_entries cs) <= length ops)%nat /\
      (forall n, (length (chunk_entries cs) <= n)%nat -> out_ok ops (mdrain mff (S n) it)) /\
      (forall hist, hist_ok ops it hist).
Proof.
  destruct (adds_then_flush max_memory ops) as (s & Hadds & s1 & rs & batches & Hfl & Hv1 & Hi1 & Hch & Hrs & Hperm).
  exists s. split; [exact Hadds|]. exists s1. splits; [exact Hfl|exact Hi1| |].
  - rewrite with_chunks_same. apply sorter_iter_final, Hfl.
  - intros cs Hcs. rewrite Hch in Hcs. destruct (Permutation_map_inv _ _ Hcs) as (rs' & -> & Hprs).
    destruct (Forall2_perm_l crel rs' rs (Permutation_sym Hprs) batches Hrs) as (batches' & Hpb & Hrs').
    assert (Hperm' : Permutation (concat batches') ops) by (eapply Permutation_trans; [apply Permutation_concat, Hpb|exact Hperm]).
    destruct (iter_of_chunks (with_chunks s1 (map Some rs')) rs' batches' ops Hv1 eq_refl Hrs' Hperm') as (it & Hit & Hmk & Hapi & Hrem & Hlen & Hout).
    rewrite chunk_entries_Some.
    eexists _, it. split; [exact Hit|]. splits; [reflexivity|reflexivity|reflexivity|exact Hapi|exact Hrem|exact Hlen|exact Hout|].
    intros hist.
    pose proof (chunk_rel_sorted f f_assoc sort sort_perm sort_sorted rs' batches' Hrs') as Hsorted.
    assert (Htot : forall k a b, mff k a b <> None) by (intros; discriminate).
    destruct (merger_history mff rs' hist Hsorted Htot) as (it' & Hmk' & Hk & Hv).
    rewrite Hmk in Hmk'. inversion Hmk'; subst it'. unfold hist_ok. split.
    + rewrite Hk, (chunks_all_keys rs' batches' ops Hrs' Hperm'). reflexivity.
    + intros k v Hin. exact (merged_value_flat rs' batches' ops k v Hrs' Hperm' (Hv k v Hin)).
Qed.

(* ---- a commutative merge function: the output does not depend on chunking or collection order ----- *)
Definition canon_val (k : bytes) (ops : list entry) : bytes :=
  match vals k ops with [] => [] | v :: vs => F f k v vs end.
Definition canonical (ops : list entry) : list entry :=
  map (fun k => (k, canon_val k ops)) (all_keys [ops]).

Hypothesis f_comm : forall k a b, f k a b = f k b a.

Lemma f_rcomm k a b c : f k (f k a b) c = f k (f k a c) b.
Proof. rewrite f_assoc, (f_comm k b c), <- f_assoc. reflexivity. Qed.

Lemma F_perm k : forall xs ys, Permutation xs ys -> forall a, F f k a xs = F f k a ys.
Proof.
  induction 1 as [|x l l' Hp IH|x y l|l m l' Hp1 IH1 Hp2 IH2]; intros a; unfold F in *; cbn [fold_left].
  - reflexivity.
  - apply IH.
  - rewrite f_rcomm. reflexivity.
  - rewrite IH1. apply IH2.
Qed.

Definition fold1 (k : bytes) (l : list bytes) : bytes := match l with [] => [] | a :: xs => F f k a xs end.
Lemma fold1_perm k : forall l l', Permutation l l' -> fold1 k l = fold1 k l'.
Proof.
  induction 1 as [|x l l' Hp IH|x y l|l m l' Hp1 IH1 Hp2 IH2]; cbn [fold1].
  - reflexivity.
  - apply F_perm, Hp.
  - unfold F. cbn [fold_left]. rewrite (f_comm k y x). reflexivity.
  - rewrite IH1. exact IH2.
Qed.

Lemma fold_any_arrangement k ops first rest :
  Permutation (first :: rest) (vals k ops) -> F f k first rest = canon_val k ops.
Proof. intros Hp. unfold canon_val. change (fold1 k (first :: rest) = fold1 k (vals k ops)). apply fold1_perm, Hp. Qed.

Lemma out_ok_canonical ops out : out_ok ops out -> out = canonical ops.
Proof.
  intros (_ & Hkeys & Hvals). unfold canonical. rewrite <- Hkeys. clear Hkeys.
  induction Hvals as [|[k v] out (first & rest & Hp & Hf) _ IH]; [reflexivity|]. cbn [map fst snd] in *.
  rewrite <- IH. f_equal. f_equal. rewrite <- Hf. apply fold_any_arrangement, Hp.
Qed.

Lemma canonical_keys ops : map fst (canonical ops) = all_keys [ops].
Proof. unfold canonical. rewrite map_map. cbn [fst]. apply map_id. Qed.

Lemma srun_In content : forall hist pos e, In (Some e) (srun content pos hist) -> In e content.
Proof.
  induction hist as [|[|k] hist IH]; intros pos e Hin; [contradiction| |].
  - cbn [srun] in Hin. destruct pos as [p|].
    + destruct (nth_error content p) as [e0|] eqn:En.
      * destruct Hin as [E|Hin]; [inversion E; subst; eapply nth_error_In; exact En|eapply IH; exact Hin].
      * destruct Hin as [E|Hin]; [discriminate|eapply IH; exact Hin].
    + destruct Hin as [E|Hin]; [discriminate|eapply IH; exact Hin].
  - cbn [srun] in Hin. destruct Hin as [E|Hin]; [discriminate|eapply IH; exact Hin].
Qed.

Lemma same_keys_same_values (c : bytes -> bytes) : forall l l' : list (option entry),
  map (option_map fst) l = map (option_map fst) l' ->
  (forall k v, In (Some (k, v)) l -> v = c k) -> (forall k v, In (Some (k, v)) l' -> v = c k) -> l = l'.
Proof.
  induction l as [|a l IH]; intros l' Hm H1 H2; destruct l' as [|b l']; try discriminate; [reflexivity|].
  cbn [map] in Hm. inversion Hm as [[Hab Hll]]. f_equal.
  - destruct a as [[k v]|], b as [[k' v']|]; try discriminate; [|reflexivity]. cbn [option_map fst] in Hab. inversion Hab; subst k'.
    rewrite (H1 k v (or_introl eq_refl)), (H2 k v' (or_introl eq_refl)). reflexivity.
  - apply IH; [exact Hll|intros k v Hin; apply H1; right; exact Hin|intros k v Hin; apply H2; right; exact Hin].
Qed.

Lemma hist_ok_canonical ops it hist : hist_ok ops it hist ->
  mrun (Some mff) it hist = srun (canonical ops) (Some 0%nat) hist.
Proof.
  intros (Hk & Hv). apply (same_keys_same_values (fun k => canon_val k ops)).
  - rewrite Hk, srun_krun, canonical_keys. reflexivity.
  - intros k v Hin. destruct (Hv k v Hin) as (first & rest & Hp & Hf). rewrite <- Hf. apply fold_any_arrangement, Hp.
  - intros k v Hin. apply srun_In in Hin. unfold canonical in Hin. apply in_map_iff in Hin.
    destruct Hin as (k0 & E & _). inversion E; subst. reflexivity.
Qed.
End More.

Print Assumptions mdrain_enough.
Print Assumptions any_order_core.
Print Assumptions out_ok_canonical.
Print Assumptions hist_ok_canonical.
