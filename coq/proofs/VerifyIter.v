(* C12, iterator level: a reader whose get_block stops (Abort) on one data block.
   Part A - every reader operation obtains at most one block through get_block, at an offset that is a
            function of the index block and the iterator state ([*_loads]); the operation's result
            depends on the reader only through that one get_block result.
   Part B - a table (intact reader r, table_ok) and a second reader r' with the same index block whose
            get_block agrees with r's on every data block except block i, where it aborts (the
            verify_checksums reader on a file with a damaged block i):
            each operation on r' either equals the operation on r, or aborts - and it aborts exactly
            when it has to load block i; no iterator obtained from r' ever holds block i; iterating
            from the start delivers exactly the entries of the blocks before i and then aborts. *)
From Coq Require Import NArith ZArith List Lia ZifyBool ZifyN ZifyNat.
From Mtbl Require Import gen.Consts model.Bytes model.Codec model.Order spec.Parse model.Reader
  proofs.BytesLemmas proofs.OrderProofs proofs.BlockProofs proofs.LookupProofs proofs.ReaderProofs.
Local Open Scope N_scope.
Local Ltac splits := repeat match goal with |- _ /\ _ => split end.

(* ================= Part A: which block an operation loads ========================================== *)
Definition iter_loads (ib : ablock) : option N :=
  match block_seek_to_first ib with
  | Ok idx => if bs_valid idx then Some (index_offset ib idx) else None
  | _ => None
  end.

Definition init_loads (ib : ablock) (key : bytes) : option N :=
  match block_seek ib (bs_invalid ib) key with
  | Ok idx => if bs_valid idx then Some (index_offset ib idx) else None
  | _ => None
  end.

Definition seek_index (ib : ablock) (it : riter) (key : bytes) : res bstate :=
  if needs_index_seek ib it key then block_seek ib (it_index it) key else Ok (it_index it).

Definition seek_loads (ib : ablock) (it : riter) (key : bytes) : option N :=
  match seek_index ib it key with
  | Ok idx =>
    if negb (bs_valid idx) then None
    else if match it_b it with Some _ => it_block_offset it =? index_offset ib idx | None => false end then None
    else Some (index_offset ib idx)
  | _ => None
  end.

Definition next_index (ib : ablock) (it : riter) : bstate := block_next ib (it_index it).

Definition next_loads (ib : ablock) (it : riter) : option N :=
  if negb (it_valid it) then None else
  match it_b it with
  | None => None
  | Some (o, b) =>
    if bs_valid (if it_first it then it_bi it else block_next b (it_bi it)) then None
    else if negb (bs_valid (next_index ib it)) then None
    else Some (index_offset ib (next_index ib it))
  end.

Section Loads.
Variable decompress : N -> bytes -> res bytes.
Variables (r r' : reader) (ib : ablock).
Hypothesis Hidx : r_index r = Some ib.
Hypothesis Hidx' : r_index r' = Some ib.
Local Notation get_block := (get_block decompress).

(* ---- same block result => same operation result -------------------------------------------------- *)
Lemma iter_congr : (forall off, iter_loads ib = Some off -> get_block r' off = get_block r off) ->
  reader_iter decompress r' = reader_iter decompress r.
Proof.
  intros H. unfold reader_iter, iter_loads in *. rewrite Hidx, Hidx'.
  destruct (block_seek_to_first ib) as [idx| | |]; try reflexivity.
  unfold get_block_at_index. destruct (bs_valid idx); [|reflexivity]. rewrite (H _ eq_refl). reflexivity.
Qed.

Lemma init_congr kind key bound : (forall off, init_loads ib key = Some off -> get_block r' off = get_block r off) ->
  reader_iter_init decompress r' kind key bound = reader_iter_init decompress r kind key bound.
Proof.
  intros H. unfold reader_iter_init, init_loads in *. rewrite Hidx, Hidx'.
  destruct (block_seek ib (bs_invalid ib) key) as [idx| | |]; try reflexivity.
  unfold get_block_at_index. destruct (bs_valid idx); [|reflexivity]. rewrite (H _ eq_refl). reflexivity.
Qed.

Lemma seek_congr it key : (forall off, seek_loads ib it key = Some off -> get_block r' off = get_block r off) ->
  reader_iter_seek decompress r' it key = reader_iter_seek decompress r it key.
Proof.
  intros H. unfold reader_iter_seek, seek_loads, seek_index in *. rewrite Hidx, Hidx'.
  destruct (if needs_index_seek ib it key then block_seek ib (it_index it) key else Ok (it_index it)) as [idx| | |]; try reflexivity.
  destruct (negb (bs_valid idx)); [reflexivity|]. cbv zeta.
  destruct (match it_b it with Some _ => it_block_offset it =? index_offset ib idx | None => false end); [reflexivity|].
  rewrite (H _ eq_refl). reflexivity.
Qed.

Lemma next_congr it : (forall off, next_loads ib it = Some off -> get_block r' off = get_block r off) ->
  reader_iter_next decompress r' it = reader_iter_next decompress r it.
Proof.
  intros H. unfold reader_iter_next, next_loads, next_index in *. rewrite Hidx, Hidx'.
  destruct (negb (it_valid it)); [reflexivity|]. destruct (it_b it) as [[o b]|]; [|reflexivity]. cbv zeta.
  destruct (bs_valid (if it_first it then it_bi it else block_next b (it_bi it))); [reflexivity|].
  destruct (negb (bs_valid (block_next ib (it_index it)))); [reflexivity|].
  rewrite (H _ eq_refl). reflexivity.
Qed.

(* ---- the loaded block stops the reader => the operation stops ------------------------------------- *)
Lemma iter_abort off : iter_loads ib = Some off -> get_block r' off = Abort -> reader_iter decompress r' = Abort.
Proof.
  intros Hl Ha. unfold reader_iter, iter_loads in *. rewrite Hidx'.
  destruct (block_seek_to_first ib) as [idx| | |]; try discriminate.
  unfold get_block_at_index. destruct (bs_valid idx); [|discriminate]. inversion Hl; subst off. rewrite Ha. reflexivity.
Qed.

Lemma init_abort kind key bound off : init_loads ib key = Some off -> get_block r' off = Abort ->
  reader_iter_init decompress r' kind key bound = Abort.
Proof.
  intros Hl Ha. unfold reader_iter_init, init_loads in *. rewrite Hidx'.
  destruct (block_seek ib (bs_invalid ib) key) as [idx| | |]; try discriminate.
  unfold get_block_at_index. destruct (bs_valid idx); [|discriminate]. inversion Hl; subst off. rewrite Ha. reflexivity.
Qed.

Lemma seek_abort it key off : seek_loads ib it key = Some off -> get_block r' off = Abort ->
  reader_iter_seek decompress r' it key = Abort.
Proof.
  intros Hl Ha. unfold reader_iter_seek, seek_loads, seek_index in *. rewrite Hidx'.
  destruct (if needs_index_seek ib it key then block_seek ib (it_index it) key else Ok (it_index it)) as [idx| | |]; try discriminate.
  destruct (negb (bs_valid idx)); [discriminate|]. cbv zeta.
  destruct (match it_b it with Some _ => it_block_offset it =? index_offset ib idx | None => false end); [discriminate|].
  inversion Hl; subst off. rewrite Ha. reflexivity.
Qed.

Lemma next_abort it off : next_loads ib it = Some off -> get_block r' off = Abort ->
  reader_iter_next decompress r' it = Abort.
Proof.
  intros Hl Ha. unfold reader_iter_next, next_loads, next_index in *. rewrite Hidx'.
  destruct (negb (it_valid it)); [discriminate|]. destruct (it_b it) as [[o b]|]; [|discriminate]. cbv zeta.
  destruct (bs_valid (if it_first it then it_bi it else block_next b (it_bi it))); [discriminate|].
  destruct (negb (bs_valid (block_next ib (it_index it)))); [discriminate|].
  inversion Hl; subst off. rewrite Ha. reflexivity.
Qed.
End Loads.

(* ---- every block an iterator holds was delivered by get_block ----------------------------------------- *)
Section Holds.
Variable decompress : N -> bytes -> res bytes.
Variable r : reader.
Local Notation get_block := (get_block decompress).

Definition holds (it : riter) : Prop := forall o b, it_b it = Some (o, b) -> get_block r o = Ok b.

Lemma iter_holds it : reader_iter decompress r = Ok (Some it) -> holds it.
Proof.
  unfold reader_iter. destruct (r_index r) as [ib|]; [|discriminate].
  destruct (block_seek_to_first ib) as [idx| | |]; try discriminate.
  unfold get_block_at_index. destruct (bs_valid idx); [|discriminate].
  destruct (get_block r (index_offset ib idx)) as [b| | |] eqn:E; try discriminate.
  destruct (block_seek_to_first b) as [bi| | |]; try discriminate.
  intros H. inversion H; subst it. intros o' b' Hb. cbn [it_b] in Hb. inversion Hb; subst. exact E.
Qed.

Lemma init_holds kind key bound it : reader_iter_init decompress r kind key bound = Ok (Some it) -> holds it.
Proof.
  unfold reader_iter_init. destruct (r_index r) as [ib|]; [|discriminate].
  destruct (block_seek ib (bs_invalid ib) key) as [idx| | |]; try discriminate.
  unfold get_block_at_index. destruct (bs_valid idx); [|discriminate].
  destruct (get_block r (index_offset ib idx)) as [b| | |] eqn:E; try discriminate.
  destruct (block_seek b (bs_invalid b) key) as [bi| | |]; try discriminate.
  intros H. inversion H; subst it. intros o' b' Hb. cbn [it_b] in Hb. inversion Hb; subst. exact E.
Qed.

Lemma seek_holds it key it' x : holds it -> reader_iter_seek decompress r it key = Ok (it', x) -> holds it'.
Proof.
  intros Hh. unfold reader_iter_seek. destruct (r_index r) as [ib|]; [|discriminate].
  destruct (if needs_index_seek ib it key then block_seek ib (it_index it) key else Ok (it_index it)) as [idx| | |]; try discriminate.
  destruct (negb (bs_valid idx)).
  { intros H. inversion H; subst it'. intros o b Hb. cbn [it_b] in Hb. apply Hh, Hb. }
  cbv zeta.
  destruct (match it_b it with Some _ => it_block_offset it =? index_offset ib idx | None => false end).
  - destruct (it_b it) as [[o b]|] eqn:Eb; [|discriminate].
    destruct (block_seek b (it_bi it) key) as [bi| | |]; try discriminate.
    intros H. inversion H; subst it'. intros o' b' Hb. cbn [it_b] in Hb. inversion Hb; subst. apply Hh. exact Eb.
  - destruct (get_block r (index_offset ib idx)) as [b| | |] eqn:E; try discriminate.
    destruct (block_seek b (bs_invalid b) key) as [bi| | |]; try discriminate.
    intros H. inversion H; subst it'. intros o' b' Hb. cbn [it_b] in Hb. inversion Hb; subst. exact E.
Qed.

Lemma next_holds it it' x : holds it -> reader_iter_next decompress r it = Ok (it', x) -> holds it'.
Proof.
  intros Hh. unfold reader_iter_next. destruct (r_index r) as [ib|]; [|discriminate].
  destruct (negb (it_valid it)); [intros H; inversion H; subst it'; exact Hh|].
  destruct (it_b it) as [[o b]|] eqn:Eb; [|discriminate]. cbv zeta.
  destruct (bs_valid (if it_first it then it_bi it else block_next b (it_bi it))).
  { cbn [negb]. intros H. inversion H; subst it'. intros o' b' Hb. cbn [it_b] in Hb. inversion Hb; subst. apply Hh. exact Eb. }
  destruct (negb (bs_valid (block_next ib (it_index it)))).
  { cbn [negb]. intros H. inversion H; subst it'. intros o' b' Hb. cbn [it_b] in Hb. discriminate. }
  destruct (get_block r (index_offset ib (block_next ib (it_index it)))) as [nb| | |] eqn:E; try discriminate.
  destruct (block_seek_to_first nb) as [nbi| | |]; try discriminate.
  destruct (negb (bs_valid nbi)); intros H; inversion H; subst it'; intros o' b' Hb; cbn [it_b] in Hb; inversion Hb; subst; exact E.
Qed.

(* an entry returned by next is the entry under the cursor of the block the iterator then holds *)
Lemma next_entry it it' e : reader_iter_next decompress r it = Ok (it', Some e) ->
  it_first it' = false /\ it_valid it' = true /\
  exists o b, it_b it' = Some (o, b) /\ e = (pe_key (entry_at b (bs_cur (it_bi it'))), pe_val (entry_at b (bs_cur (it_bi it')))).
Proof.
  unfold reader_iter_next. destruct (r_index r) as [ib|]; [|discriminate].
  destruct (negb (it_valid it)); [discriminate|].
  destruct (it_b it) as [[o b]|] eqn:Eb; [|discriminate]. cbv zeta.
  destruct (bs_valid (if it_first it then it_bi it else block_next b (it_bi it))).
  { cbn [negb]. destruct (bound_ok (it_kind it) (it_k it) _) eqn:Ebo; [|discriminate].
    intros H. inversion H; subst it' e. cbn [it_first it_valid it_b it_bi]. splits; try reflexivity. eexists _, _. split; reflexivity. }
  destruct (negb (bs_valid (block_next ib (it_index it)))); [discriminate|].
  destruct (get_block r (index_offset ib (block_next ib (it_index it)))) as [nb| | |] eqn:E; try discriminate.
  destruct (block_seek_to_first nb) as [nbi| | |]; try discriminate.
  destruct (negb (bs_valid nbi)); [discriminate|].
  destruct (bound_ok (it_kind it) (it_k it) _) eqn:Ebo; [|discriminate].
  intros H. inversion H; subst it' e. cbn [it_first it_valid it_b it_bi]. splits; try reflexivity. eexists _, _. split; reflexivity.
Qed.
End Holds.

(* the block loaded by next is the block the resulting iterator holds *)
Lemma next_loads_held decompress r ib it off it' x : r_index r = Some ib -> next_loads ib it = Some off ->
  reader_iter_next decompress r it = Ok (it', x) -> exists b, it_b it' = Some (off, b).
Proof.
  intros Hidx Hl. unfold reader_iter_next, next_loads, next_index in *. rewrite Hidx.
  destruct (negb (it_valid it)); [discriminate|]. destruct (it_b it) as [[o b]|]; [|discriminate]. cbv zeta.
  destruct (bs_valid (if it_first it then it_bi it else block_next b (it_bi it))); [discriminate|].
  destruct (negb (bs_valid (block_next ib (it_index it)))); [discriminate|]. inversion Hl; subst off.
  destruct (get_block decompress r (index_offset ib (block_next ib (it_index it)))) as [nb| | |]; try discriminate.
  destruct (block_seek_to_first nb) as [nbi| | |]; try discriminate.
  destruct (negb (bs_valid nbi)); intros H; inversion H; subst it'; eexists; reflexivity.
Qed.

Lemma skipn_nth_cons' : forall (l : list pentry) p, (p < length l)%nat -> skipn p l = nth p l dummy_pe :: skipn (S p) l.
Proof.
  induction l as [|x l IH]; intros p Hp; [cbn in Hp; lia|]. destruct p as [|p]; [reflexivity|].
  cbn [skipn nth]. rewrite IH by (cbn in Hp; lia). reflexivity.
Qed.

(* iteration with a log: the entries delivered, and how the iteration ended
   (Ok tt: the iterator reported the end, or the fuel ran out) *)
Section DrainLog.
Variable decompress : N -> bytes -> res bytes.
Fixpoint drain_log (fuel : nat) (r : reader) (it : riter) : list entry * res unit :=
  match fuel with
  | O => ([], Ok tt)
  | S f => match reader_iter_next decompress r it with
           | Ok (it', Some e) => let (l, s) := drain_log f r it' in (e :: l, s)
           | Ok (_, None) => ([], Ok tt)
           | Fail => ([], Fail) | Abort => ([], Abort) | Oob => ([], Oob)
           end
  end.

(* drain of Reader.v forgets the entries when the iteration does not end well *)
Lemma drain_of_log : forall fuel r it,
  drain decompress fuel r it =
  match drain_log fuel r it with (l, Ok _) => Ok l | (_, Fail) => Fail | (_, Abort) => Abort | (_, Oob) => Oob end.
Proof.
  induction fuel as [|f IH]; intros r it; [reflexivity|]. cbn [drain drain_log].
  destruct (reader_iter_next decompress r it) as [[it' [e|]]| | |]; try reflexivity.
  rewrite IH. destruct (drain_log f r it') as [l [[]| | |]]; reflexivity.
Qed.
End DrainLog.

(* ================= Part B: a table with one block that stops the reader ============================== *)
Section Damaged.
Variable decompress : N -> bytes -> res bytes.
Variables (r r' : reader) (ib : ablock) (iridx : list nat) (nb : nat) (B : nat -> ablock) (Rr : nat -> list nat).
(* the intact reader: the hypotheses of ReaderProofs (= table_ok) *)
Hypothesis Hidx : r_index r = Some ib.
Hypothesis Wib : wfb ib iridx.
Hypothesis Hnb : nentries ib = nb.
Hypothesis Hget : forall i, (i < nb)%nat -> get_block decompress r (ioff ib i) = Ok (B i).
Hypothesis HW : forall i, (i < nb)%nat -> wfb (B i) (Rr i).
Hypothesis Hinj : forall i j, (i < nb)%nat -> (j < nb)%nat -> ioff ib i = ioff ib j -> i = j.
Hypothesis Hsep1 : forall i, (i < nb)%nat -> bcmp (key_at (B i) (nentries (B i) - 1)) (key_at ib i) <> Gt.
Hypothesis Hsep2 : forall i, (S i < nb)%nat -> bcmp (key_at ib i) (key_at (B (S i)) 0) = Lt.
(* the second reader: same index block; block i stops it, the other blocks load as before *)
Hypothesis Hidx' : r_index r' = Some ib.
Variable i : nat.
Hypothesis Hi : (i < nb)%nat.
Hypothesis Hsame : forall j, (j < nb)%nat -> j <> i -> get_block decompress r' (ioff ib j) = Ok (B j).
Hypothesis Hbad : get_block decompress r' (ioff ib i) = Abort.

Local Notation it_ok := (it_ok ib iridx nb B Rr).
Local Notation abs := (abs B).
Local Notation base := (base B).
Local Notation G := (G nb B).
Local Notation total := (total nb B).

Lemma agree k off : (k < nb)%nat -> off = ioff ib k -> k <> i -> get_block decompress r' off = get_block decompress r off.
Proof. intros Hk -> Hne. rewrite (Hsame k Hk Hne), (Hget k Hk). reflexivity. Qed.

Lemma st_valid_lt s : st_ok ib iridx s -> bs_valid s = true -> (bs_cur s < nb)%nat.
Proof. intros H Hv. unfold st_ok in H. rewrite Hv, Hnb in H. tauto. Qed.

(* ---- each operation: as on the intact reader, or stopped because it has to load block i ------------ *)
Definition outcome {A} (loads : option N) (res' res0 : res A) : Prop :=
  (loads <> Some (ioff ib i) /\ res' = res0) \/ (loads = Some (ioff ib i) /\ res' = Abort).

Lemma outcome_of {A} (loads : option N) (res' res0 : res A) :
  (forall off, loads = Some off -> exists k, (k < nb)%nat /\ off = ioff ib k) ->
  ((forall off, loads = Some off -> get_block decompress r' off = get_block decompress r off) -> res' = res0) ->
  (loads = Some (ioff ib i) -> res' = Abort) ->
  outcome loads res' res0.
Proof.
  intros Hk Hcongr Habort. destruct loads as [off|].
  - destruct (Hk off eq_refl) as (k & Hklt & ->). destruct (Nat.eq_dec k i) as [->|Hne].
    + right. split; [reflexivity|apply Habort; reflexivity].
    + left. split; [intros E; inversion E as [E']; apply Hinj in E'; [congruence|assumption|assumption]|].
      apply Hcongr. intros off E. inversion E; subst off. apply (agree k); [exact Hklt|reflexivity|exact Hne].
  - left. split; [discriminate|]. apply Hcongr. intros off E. discriminate.
Qed.

Theorem iter_outcome : outcome (iter_loads ib) (reader_iter decompress r') (reader_iter decompress r).
Proof.
  apply outcome_of.
  - intros off E. unfold iter_loads in E. destruct (seek_first_ok ib iridx Wib) as (idx & Es & Hok & Hv & Hc).
    rewrite Es, Hv in E. inversion E. exists (bs_cur idx). split; [apply st_valid_lt; assumption|reflexivity].
  - apply (iter_congr decompress r r' ib Hidx Hidx').
  - intros E. apply (iter_abort decompress r' ib Hidx' _ E Hbad).
Qed.

Theorem init_outcome kind key bound :
  outcome (init_loads ib key) (reader_iter_init decompress r' kind key bound) (reader_iter_init decompress r kind key bound).
Proof.
  apply outcome_of.
  - intros off E. unfold init_loads in E.
    destruct (block_seek_ok ib iridx Wib (bs_invalid ib) key (st_ok_invalid ib iridx Wib)) as (idx & Es & Hok & _).
    rewrite Es in E. destruct (bs_valid idx) eqn:Hv; [|discriminate]. inversion E.
    exists (bs_cur idx). split; [apply st_valid_lt; assumption|reflexivity].
  - apply (init_congr decompress r r' ib Hidx Hidx').
  - intros E. apply (init_abort decompress r' ib Hidx' _ _ _ _ E Hbad).
Qed.

Theorem seek_outcome it key : it_ok it ->
  outcome (seek_loads ib it key) (reader_iter_seek decompress r' it key) (reader_iter_seek decompress r it key).
Proof.
  intros (Hidxok & _). apply outcome_of.
  - intros off E. unfold seek_loads, seek_index in E.
    assert (Hs : exists idx, (if needs_index_seek ib it key then block_seek ib (it_index it) key else Ok (it_index it)) = Ok idx /\ st_ok ib iridx idx).
    { destruct (needs_index_seek ib it key).
      - destruct (block_seek_ok ib iridx Wib (it_index it) key Hidxok) as (idx & Es & Hok & _). exists idx. split; assumption.
      - exists (it_index it). split; [reflexivity|exact Hidxok]. }
    destruct Hs as (idx & Es & Hok). rewrite Es in E. destruct (bs_valid idx) eqn:Hv; [|discriminate]. cbn [negb] in E.
    destruct (match it_b it with Some _ => it_block_offset it =? index_offset ib idx | None => false end); [discriminate|].
    inversion E. exists (bs_cur idx). split; [apply st_valid_lt; assumption|reflexivity].
  - apply (seek_congr decompress r r' ib Hidx Hidx').
  - intros E. apply (seek_abort decompress r' ib Hidx' _ _ _ E Hbad).
Qed.

Theorem next_outcome it : it_ok it ->
  outcome (next_loads ib it) (reader_iter_next decompress r' it) (reader_iter_next decompress r it).
Proof.
  intros (Hidxok & Hb). apply outcome_of.
  - intros off E. unfold next_loads, next_index in E.
    destruct (it_valid it) eqn:Ev; [|discriminate]. cbn [negb] in E.
    destruct (it_b it) as [[o b]|]; [|discriminate].
    destruct Hb as (j & _ & _ & _ & _ & _ & _ & Hval). destruct (Hval eq_refl) as [Hiv _].
    destruct (block_next_ok ib iridx Wib (it_index it) Hidxok Hiv) as [Hok _].
    destruct (bs_valid (if it_first it then it_bi it else block_next b (it_bi it))); [discriminate|].
    destruct (bs_valid (block_next ib (it_index it))) eqn:Hv; [|discriminate]. inversion E.
    exists (bs_cur (block_next ib (it_index it))). split; [apply st_valid_lt; assumption|reflexivity].
  - apply (next_congr decompress r r' ib Hidx Hidx').
  - intros E. apply (next_abort decompress r' ib Hidx' _ _ E Hbad).
Qed.

(* ---- no iterator of r' holds block i ---------------------------------------------------------------- *)
Lemma holds_not_i it : holds decompress r' it -> forall b, it_b it <> Some (ioff ib i, b).
Proof. intros Hh b E. specialize (Hh _ _ E). rewrite Hbad in Hh. discriminate. Qed.

(* ---- iterating from the start -------------------------------------------------------------------------- *)
Local Notation mono := (base_mono decompress r ib nb B Rr Hnb Hget HW Hinj Hsep1 Hsep2).

Lemma total_base : total = base nb.
Proof. reflexivity. Qed.

(* after next delivered the entry at global position p, the iterator holds the block containing p *)
Lemma delivered_from it it2 e p : it_ok it -> abs it = Some p -> it_kind it = KIter -> (p < total)%nat ->
  reader_iter_next decompress r it = Ok (it2, e) ->
  it_ok it2 /\ abs it2 = Some (S p) /\ it_kind it2 = KIter /\ e = Some (ent (nth p G dummy_pe)) /\
  exists j, (j < nb)%nat /\ it_b it2 = Some (ioff ib j, B j) /\ (base j <= p < base (S j))%nat.
Proof.
  intros Hok Ha Hk Hp Hnext.
  destruct (reader_next_refines decompress r ib iridx nb B Rr Hidx Wib Hnb Hget HW Hinj Hsep1 Hsep2 it Hok)
    as (it2' & e' & Hn & Hok2 & Hs & Hk2 & _).
  rewrite Hnext in Hn. inversion Hn; subst it2' e'. clear Hn.
  rewrite Ha, Hk in Hs. unfold spec_next in Hs. replace (p <? total)%nat with true in Hs by lia. cbn [bound_ok] in Hs.
  inversion Hs as [[Ha2 He]]. split; [exact Hok2|]. split; [reflexivity|]. split; [congruence|]. split; [reflexivity|].
  rewrite He in Hnext. destruct (next_entry decompress r it it2 _ Hnext) as (Hf & Hv & o & b & Eb & _).
  pose proof Hok2 as (Hidxok2 & Hb2). rewrite Eb in Hb2. destruct Hb2 as (j & Hj & -> & -> & _ & Hbi & Hcur & Hval).
  destruct (Hval Hv) as [Hiv Hnf]. specialize (Hcur Hiv). specialize (Hnf Hf).
  exists j. splits; [exact Hj|exact Eb| |].
  - unfold ReaderProofs.abs in Ha2. rewrite Hv, Eb, Hf, Hcur in Ha2. cbn [negb] in Ha2. inversion Ha2. lia.
  - unfold ReaderProofs.abs in Ha2. rewrite Hv, Eb, Hf, Hcur in Ha2. cbn [negb] in Ha2. inversion Ha2.
    rewrite base_S. unfold st_ok in Hbi. rewrite Hnf in Hbi. lia.
Qed.

Lemma block_unique j k p : (base j <= p < base (S j))%nat -> (base k <= p < base (S k))%nat -> j = k.
Proof.
  intros Hj Hk. destruct (Nat.lt_trichotomy j k) as [H|[H|H]]; [|exact H|].
  - pose proof (mono (S j) k ltac:(lia)). lia.
  - pose proof (mono (S k) j ltac:(lia)). lia.
Qed.

Lemma base_i_lt_total : (base i < total)%nat.
Proof.
  pose proof (blocks_nonempty nb B Rr HW i Hi). pose proof (base_S B i). pose proof (mono (S i) nb ltac:(lia)).
  rewrite total_base. lia.
Qed.

Lemma log_until_block : forall n p it, it_ok it -> abs it = Some p -> it_kind it = KIter -> holds decompress r' it ->
  (p + n = base i)%nat -> forall fuel, (n < fuel)%nat ->
  drain_log decompress fuel r' it = (map ent (firstn n (skipn p G)), Abort).
Proof.
  induction n as [|n IH]; intros p it Hok Ha Hk Hh Hpn fuel Hfuel; (destruct fuel as [|fuel]; [lia|]); cbn [drain_log].
  - (* the entry to deliver is the first one of block i *)
    assert (Hp : (p < total)%nat) by (pose proof base_i_lt_total; lia).
    destruct (reader_next_refines decompress r ib iridx nb B Rr Hidx Wib Hnb Hget HW Hinj Hsep1 Hsep2 it Hok) as (it2 & e & Hn & _).
    destruct (delivered_from it it2 e p Hok Ha Hk Hp Hn) as (Hok2 & Ha2 & Hk2 & He & j & Hj & Eb & Hrange).
    assert (j = i). { apply (block_unique j i p Hrange). pose proof (blocks_nonempty nb B Rr HW i Hi). rewrite base_S. lia. }
    subst j. destruct (next_outcome it Hok) as [[_ E]|[_ E]].
    + exfalso. rewrite Hn in E. pose proof (next_holds decompress r' it it2 e Hh E) as Hh2. exact (holds_not_i it2 Hh2 _ Eb).
    + rewrite E. reflexivity.
  - assert (Hp : (p < total)%nat) by (pose proof base_i_lt_total; lia).
    destruct (reader_next_refines decompress r ib iridx nb B Rr Hidx Wib Hnb Hget HW Hinj Hsep1 Hsep2 it Hok) as (it2 & e & Hn & _).
    destruct (delivered_from it it2 e p Hok Ha Hk Hp Hn) as (Hok2 & Ha2 & Hk2 & He & j & Hj & Eb & Hrange).
    assert (Hji : j <> i). { intros ->. lia. }
    destruct (next_outcome it Hok) as [[_ E]|[El _]].
    + rewrite E, Hn, He. rewrite Hn in E.
      rewrite (IH (S p) it2 Hok2 Ha2 Hk2 (next_holds decompress r' it it2 e Hh E) ltac:(lia) fuel ltac:(lia)).
      rewrite (skipn_nth_cons' G p Hp). reflexivity.
    + exfalso. destruct (next_loads_held decompress r ib it _ it2 e Hidx El Hn) as (b & Eb').
      rewrite Eb in Eb'. inversion Eb' as [[E1 E2]]. apply Hinj in E1; [congruence|assumption|assumption].
Qed.

(* T12b (iteration): the blocks before block i are delivered completely, then the reader stops;
   block 0 damaged: the iterator cannot even be created *)
Theorem iterate_damaged :
  (i = 0%nat -> reader_iter decompress r' = Abort) /\
  ((0 < i)%nat -> exists it, reader_iter decompress r' = Ok (Some it) /\ reader_iter decompress r = Ok (Some it) /\
     forall fuel, (base i < fuel)%nat ->
       drain_log decompress fuel r' it = (firstn (base i) (Gents nb B), Abort) /\
       drain decompress fuel r' it = Abort).
Proof.
  assert (Hl : iter_loads ib = Some (ioff ib 0)).
  { unfold iter_loads. destruct (seek_first_ok ib iridx Wib) as (idx & -> & _ & -> & Hc). rewrite <- Hc. reflexivity. }
  split.
  - intros E0. destruct iter_outcome as [[Hne _]|[_ E]]; [|exact E]. exfalso. apply Hne. rewrite Hl, E0. reflexivity.
  - intros Hpos.
    destruct (reader_iter_refines decompress r ib iridx nb B Rr Hidx Wib Hnb Hget HW) as (it & Hit & Hok & Ha & Hk).
    assert (Hit' : reader_iter decompress r' = Ok (Some it)).
    { destruct iter_outcome as [[_ E]|[E _]]; [rewrite E; exact Hit|].
      rewrite Hl in E. inversion E as [E']. apply Hinj in E'; [lia|lia|exact Hi]. }
    exists it. splits; [exact Hit'|exact Hit|]. intros fuel Hfuel.
    pose proof (log_until_block (base i) 0 it Hok Ha Hk (iter_holds decompress r' it Hit') eq_refl fuel Hfuel) as Hlog.
    cbn [skipn] in Hlog. unfold Gents. rewrite firstn_map. split; [exact Hlog|].
    rewrite drain_of_log, Hlog. reflexivity.
Qed.
End Damaged.

(* ---- the same, over the record table_ok ------------------------------------------------------------------ *)
Section DamagedTable.
Variable decompress : N -> bytes -> res bytes.
Variables (r r' : reader) (ib : ablock) (iridx : list nat) (nb : nat) (B : nat -> ablock) (Rr : nat -> list nat).
Hypothesis T : table_ok decompress r ib iridx nb B Rr.
Hypothesis Hidx' : r_index r' = r_index r.
Variable i : nat.
Hypothesis Hi : (i < nb)%nat.
Hypothesis Hsame : forall j, (j < nb)%nat -> j <> i -> get_block decompress r' (ioff ib j) = Ok (B j).
Hypothesis Hbad : get_block decompress r' (ioff ib i) = Abort.

Lemma idx'_eq : r_index r' = Some ib.
Proof. rewrite Hidx'. apply T. Qed.

Theorem table_iter_outcome : outcome ib i (iter_loads ib) (reader_iter decompress r') (reader_iter decompress r).
Proof. destruct T. eapply iter_outcome; try eassumption. exact idx'_eq. Qed.

Theorem table_init_outcome kind key bound :
  outcome ib i (init_loads ib key) (reader_iter_init decompress r' kind key bound) (reader_iter_init decompress r kind key bound).
Proof. destruct T. eapply init_outcome; try eassumption. exact idx'_eq. Qed.

Theorem table_seek_outcome it key : it_ok ib iridx nb B Rr it ->
  outcome ib i (seek_loads ib it key) (reader_iter_seek decompress r' it key) (reader_iter_seek decompress r it key).
Proof. destruct T. intros Hok. eapply seek_outcome; try eassumption. exact idx'_eq. Qed.

Theorem table_next_outcome it : it_ok ib iridx nb B Rr it ->
  outcome ib i (next_loads ib it) (reader_iter_next decompress r' it) (reader_iter_next decompress r it).
Proof. destruct T. intros Hok. eapply next_outcome; try eassumption. exact idx'_eq. Qed.

Theorem table_iterate_damaged :
  (i = 0%nat -> reader_iter decompress r' = Abort) /\
  ((0 < i)%nat -> exists it, reader_iter decompress r' = Ok (Some it) /\ reader_iter decompress r = Ok (Some it) /\
     forall fuel, (base B i < fuel)%nat ->
       drain_log decompress fuel r' it = (firstn (base B i) (Gents nb B), Abort) /\
       drain decompress fuel r' it = Abort).
Proof. destruct T. eapply iterate_damaged; try eassumption. exact idx'_eq. Qed.
End DamagedTable.

Print Assumptions table_iter_outcome.
Print Assumptions table_init_outcome.
Print Assumptions table_seek_outcome.
Print Assumptions table_next_outcome.
Print Assumptions table_iterate_damaged.
