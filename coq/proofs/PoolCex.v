(* Counterexamples (checked by vm_compute) showing that the hypotheses of the Tier 1/2
   theorems cannot be dropped on the model as written. *)
From Coq Require Import NArith List Lia Bool Arith.
From Mtbl Require Import model.Bytes model.Pool proofs.PoolBase proofs.PoolSched proofs.PoolInv proofs.PoolLife.
Import ListNotations.

(* 1. [wake_step] lets a signal name ANY thread as the woken waiter.  If the thread is not
   blocked in cond_wait (here: worker thread 2, about to unlock its mutex before running
   the job), its pending operation is replaced by a re-acquisition of "no mutex": the
   unlock is skipped, the worker keeps owning OWm 0 and then tries to lock it again -
   a self-deadlock that Tier 1 (lock_not_self) excludes for well-formed schedules.
   Model artefact: engine-side schedules only ever wake threads blocked on the signalled
   condition; hence the well-formedness condition [wake_ok]. *)
Definition cex_wake_sched : list sched_step :=
  repeat (SRun 0 None) 7 ++ [SRun 2 None; SRun 2 None; SRun 0 None; SRun 0 (Some 2%nat); SRun 2 None].
Example cex_rogue_wake :
  match prun (pool_init 1 [NewHandler true; Dispatch 0]) [] cex_wake_sched with
  | Some (st, _) => owner_of st (OWm 0) = Some 2%nat /\
                    t_op (gett st 2) = KLock /\ t_obj (gett st 2) = OWm 0 /\ t_done (gett st 2) = false
  | None => False
  end.
Proof. vm_compute. repeat split. Qed.
(* the offending step is not a well-formed schedule step *)
Example cex_rogue_wake_not_wf : ~ sched_wf (pool_init 1 [NewHandler true; Dispatch 0]) [] cex_wake_sched.
Proof. vm_compute. intros H. do 10 (destruct H as [_ H]). destruct H as [H _]. apply H; [reflexivity|lia|reflexivity]. Qed.

(* 2. A dispatch to a handler that was already finished makes assert(!rq->finished) fail:
   prog_wf (no Dispatch q after Finish q) is needed for T13_no_abort. *)
Definition cex_prog : list cmd := [NewHandler true; Finish 0; Dispatch 0].
Definition cex_prog_sched : list sched_step :=
  [SRun 0 None; SRun 0 None; SRun 0 None; SRun 1 None; SRun 0 None; SRun 1 None; SRun 1 None; SRun 1 None;
   SRun 0 None; SRun 0 None; SRun 0 None; SRun 2 None; SRun 0 None; SRun 0 None; SRun 0 None; SRun 0 None;
   SRun 2 None; SRun 0 None].
Example cex_dispatch_after_finish :
  prog_wf_weak cex_prog = false /\
  match prun (pool_init 1 cex_prog) [] cex_prog_sched with
  | Some (st, _) => ps_abort st = true
  | None => False
  end.
Proof. vm_compute. split; reflexivity. Qed.

(* 3. T13d_statement (no deadlock) is FALSE of the model as stated: a schedule may perform a
   signal with [wake = None] although a thread is blocked on that condition variable (a lost
   wake-up, which pthread_cond_signal does not allow).  Well-formed program, pool of 1, no
   spurious step, no rogue wake: the handler blocks in cond_wait on the empty queue, both
   signals on its queue (dispatch, finish) wake nobody, and the caller hangs in pthread_join.
   Model artefact: the statement needs the schedule condition "a signal wakes a waiter if
   there is one" (engine-side schedules satisfy it). *)
Definition cex_d_prog : list cmd := [NewHandler true; Dispatch 0; Finish 0; DestroyPool].
Definition cex_d_sched : list sched_step :=
  [SRun 0 None; SRun 1 None; SRun 1 None; SRun 1 None] ++ repeat (SRun 0 None) 12 ++ repeat (SRun 2 None) 8.
Example T13d_statement_false : ~ T13d_statement.
Proof.
  intros H. unfold T13d_statement in H.
  destruct (prun (pool_init 1 cex_d_prog) [] cex_d_sched) as [[st stash]|] eqn:E; [|vm_compute in E; discriminate].
  specialize (H 1%N cex_d_prog cex_d_sched st stash ltac:(lia) E).
  vm_compute in E. inversion E; subst; clear E.
  assert (T : terminal
    {| ps_threads := [mkt KJoin (OThread 1) F3 None ONone false; mkt KReacq (OQm 0) (H1 0) (Some (OQc 0)) (OQm 0) false;
                      mkt KReacq (OWm 0) (W1 0) (Some (OWc 0)) (OWm 0) false];
       ps_owner := []; ps_idle := []; ps_count := 1; ps_max := 1;
       ps_workers := [mkw 2 false false 0 (Some 0%N) None];
       ps_queues := [mkq true 1 true 1 [0%nat]]; ps_prog := [DestroyPool]; ps_njobs := 1; ps_delivered := []; ps_abort := false |}).
  { intros t. do 3 (destruct t as [|t]; [reflexivity|]). unfold enabled, gett. cbn. destruct t; reflexivity. }
  destruct (H T) as [A _]. inversion A; subst. discriminate.
Qed.
(* the schedule above is well-formed in the sense of sched_wf (it never names a woken thread) *)
Example cex_d_sched_wf : sched_wf (pool_init 1 cex_d_prog) [] cex_d_sched /\ prog_wf cex_d_prog = true.
Proof. vm_compute. repeat split. Qed.

(* 4. Non-vacuity of Tier 4: a complete well-formed run (2 handlers, 3 jobs) in which every
   thread exits; each handler delivered exactly the jobs dispatched to it. *)
Definition full_prog : list cmd :=
  [NewHandler true; NewHandler false; Dispatch 0; Dispatch 1; Dispatch 0; Finish 0; Finish 1; DestroyPool].
Definition full_sched : list sched_step :=
  [
   SRun 1 None; SRun 1 None; SRun 1 None; SRun 0 None; SRun 2 None; SRun 2 None; SRun 2 None; SRun 0 None;
   SRun 0 None; SRun 0 None; SRun 3 None; SRun 3 None; SRun 3 None; SRun 0 None; SRun 0 None; SRun 0 (Some 3%nat);
   SRun 0 None; SRun 3 None; SRun 3 None; SRun 3 None; SRun 3 None; SRun 3 None; SRun 3 None; SRun 3 None;
   SRun 0 None; SRun 0 (Some 1%nat); SRun 0 None; SRun 1 None; SRun 1 None; SRun 1 None; SRun 1 None; SRun 1 None;
   SRun 1 None; SRun 1 None; SRun 1 None; SRun 1 None; SRun 0 None; SRun 0 None; SRun 0 None; SRun 0 (Some 3%nat);
   SRun 0 None; SRun 3 None; SRun 3 None; SRun 3 None; SRun 3 (Some 2%nat); SRun 3 None; SRun 3 None; SRun 3 None;
   SRun 2 None; SRun 2 None; SRun 2 None; SRun 2 None; SRun 2 None; SRun 2 None; SRun 2 None; SRun 2 None;
   SRun 2 None; SRun 0 None; SRun 0 None; SRun 0 None; SRun 0 None; SRun 0 None; SRun 0 (Some 3%nat); SRun 0 None;
   SRun 3 None; SRun 3 None; SRun 3 None; SRun 3 None; SRun 3 None; SRun 3 None; SRun 3 None; SRun 0 None;
   SRun 0 (Some 1%nat); SRun 0 None; SRun 1 None; SRun 1 None; SRun 1 None; SRun 1 None; SRun 1 None; SRun 1 None;
   SRun 1 None; SRun 1 None; SRun 1 None; SRun 0 None; SRun 0 (Some 1%nat); SRun 0 None; SRun 1 None; SRun 1 None;
   SRun 1 None; SRun 0 None; SRun 0 None; SRun 0 (Some 2%nat); SRun 0 None; SRun 2 None; SRun 2 None; SRun 2 None;
   SRun 0 None; SRun 0 None; SRun 0 None; SRun 0 (Some 3%nat); SRun 0 None; SRun 3 None; SRun 3 None; SRun 3 None;
   SRun 0 None; SRun 0 None].
Example full_run :
  prog_wf full_prog = true /\
  match prun (pool_init 2 full_prog) [] full_sched with
  | Some (st, stash) => forallb t_done (ps_threads st) = true /\ ps_delivered st = [(0%nat, 0%N); (1%nat, 1%N); (0%nat, 2%N)] /\
                        stash = [] /\ ps_abort st = false
  | None => False
  end.
Proof. vm_compute. repeat split. Qed.
Example full_sched_wf : sched_wf (pool_init 2 full_prog) [] full_sched.
Proof. vm_compute. repeat split; intros; discriminate. Qed.

Print Assumptions T13d_statement_false.
