(* Tier 5, the final argument: a state satisfying Inv1, Inv2, Inv3, Inv5 in which no thread
   can run is a state in which every thread has exited. *)
From Coq Require Import NArith List Lia ZifyBool ZifyN ZifyNat Bool Arith.
From Mtbl Require Import model.Bytes model.Pool proofs.PoolBase proofs.PoolSched proofs.PoolInv proofs.PoolLife proofs.PoolStep2 proofs.PoolAbort proofs.PoolDelivery proofs.PoolLive proofs.PoolLive1.
Import ListNotations.

Section Stuck.
Variable st : pstate.
Variable stash : list (nat * N).
Hypothesis I1 : Inv1 st.
Hypothesis I2 : Inv2 st.
Hypothesis K : Inv3 st stash.
Hypothesis I5 : Inv5 st.
Hypothesis T : terminal_st st.

Lemma shape_parts x : allowed (t_lab (gett st x)) (t_op (gett st x)) (t_obj (gett st x)) = true /\
  (t_done (gett st x) = true -> t_op (gett st x) = KExit) /\
  (t_blocked (gett st x) <> None -> t_op (gett st x) = KReacq).
Proof.
  pose proof (i1_shape _ I1 x) as S. unfold shape in S.
  apply andb_prop in S. destruct S as [S S3]. apply andb_prop in S. destruct S as [S1 S2].
  split; [exact S1|]. split.
  - intros D. rewrite D in S2. apply andb_prop in S2. destruct S2 as [S2 _]. destruct (t_op (gett st x)); try discriminate; reflexivity.
  - intros B. destruct (t_blocked (gett st x)); [|congruence]. apply andb_prop in S3. destruct S3 as [S3 _].
    destruct (t_op (gett st x)); try discriminate; reflexivity.
Qed.

Lemma done_lab x : t_done (gett st x) = true -> t_lab (gett st x) = LDone.
Proof.
  intros D. destruct (shape_parts x) as (A & B & _). rewrite (B D) in A. apply (exit_lab _ _ A).
Qed.

(* a thread that has not exited is blocked in cond_wait, or wants a mutex, or joins *)
Lemma live_cases x : t_done (gett st x) = false ->
  t_blocked (gett st x) <> None \/
  (t_blocked (gett st x) = None /\ (t_op (gett st x) = KLock \/ t_op (gett st x) = KReacq) /\ owner_of st (t_obj (gett st x)) <> None) \/
  (t_blocked (gett st x) = None /\ t_op (gett st x) = KJoin).
Proof.
  intros D. pose proof (T x) as E. unfold enabled in E. rewrite D in E.
  destruct (t_blocked (gett st x)) eqn:Eb; [left; discriminate|]. right.
  destruct (t_op (gett st x)) eqn:Eo; try discriminate.
  - left. split; [reflexivity|]. split; [left; reflexivity|]. destruct (owner_of st (t_obj (gett st x))); [discriminate|discriminate].
  - left. split; [reflexivity|]. split; [right; reflexivity|]. destruct (owner_of st (t_obj (gett st x))); [discriminate|discriminate].
  - right. split; reflexivity.
Qed.

Lemma live_not_ldone x : t_done (gett st x) = false -> t_lab (gett st x) <> LDone.
Proof.
  intros D L. destruct (shape_parts x) as (A & _ & Bk). rewrite L in A. cbn [allowed] in A. unfold is_op in A.
  apply andb_prop in A. destruct A as [A _].
  destruct (live_cases x D) as [H|[(H1 & [H2|H2] & _)|(H1 & H2)]]; try (rewrite H2 in A; discriminate).
  rewrite (Bk H) in A. discriminate.
Qed.

Lemma no_sig l : ~ sig_pending st l.
Proof.
  intros (y & D & O & _). destruct (live_cases y D) as [H|[(H1 & [H2|H2] & _)|(H1 & H2)]]; try congruence.
  destruct (shape_parts y) as (_ & _ & Bk). rewrite (Bk H) in O. discriminate.
Qed.

(* no mutex is held, except possibly the pool mutex by the caller joining a worker *)
Lemma free_mutex m : owner_of st m <> None -> m = OPoolM /\ t_lab (gett st 0) = P5.
Proof.
  intros H. destruct (owner_of st m) as [u|] eqn:Eo; [|congruence].
  destruct (stuck_owner st m u I1 T Eo) as (E1 & E2 & E3). split; [exact E1|].
  assert (u = 0%nat) by (apply (tk_caller _ _ _ (i2_threads _ I2 u)); rewrite E3; reflexivity). subst u. exact E3.
Qed.

(* a worker thread that has not exited sleeps in W1 with nothing to do *)
Lemma live_worker x i : t_done (gett st x) = false -> lab_worker (t_lab (gett st x)) = Some i ->
  t_blocked (gett st x) <> None /\ t_lab (gett st x) = W1 i /\ wk_running (getw st i) = false.
Proof.
  intros D L. destruct (shape_parts x) as (A & _ & Bk).
  destruct (live_cases x D) as [H|[(H1 & H2 & H3)|(H1 & H2)]].
  - pose proof (Bk H) as Eo. rewrite Eo in A.
    assert (El : t_lab (gett st x) = W1 i).
    { destruct (t_lab (gett st x)); cbn in L; try discriminate; inversion L; subst;
        cbn [allowed] in A; unfold lwr, is_op in A; cbn [opk_eqb andb orb] in A; try discriminate; reflexivity. }
    split; [exact H|]. split; [exact El|].
    pose proof (l_wake _ I5 x (or_introl H)) as W. rewrite El in W. cbn [wpred] in W.
    destruct W as [W|W]; [exact W|exfalso; exact (no_sig _ W)].
  - exfalso. destruct (free_mutex _ H3) as [E1 _].
    destruct (t_lab (gett st x)); cbn in L; try discriminate; cbn [allowed] in A; unfold lwr, is_op in A;
      destruct H2 as [H2|H2]; rewrite H2, E1 in A; cbn in A; discriminate.
  - exfalso. rewrite H2 in A. destruct (t_lab (gett st x)); cbn in L; try discriminate; cbn in A; discriminate.
Qed.

(* a handler thread that has not exited (and is not locked out by the destroyer) sleeps in H1 or H4 *)
Lemma live_handler x j : t_done (gett st x) = false -> lab_handler (t_lab (gett st x)) = Some j ->
  t_lab (gett st 0) <> P5 ->
  t_blocked (gett st x) <> None /\
  ((t_lab (gett st x) = H1 j /\ q_list (getq st j) = [] /\ (q_finished (getq st j) && (q_nthreads (getq st j) =? 0)%N) = false) \/
   (exists i, t_lab (gett st x) = H4 j i /\ wk_running (getw st i) = true)).
Proof.
  intros D L NP. destruct (shape_parts x) as (A & _ & Bk).
  destruct (live_cases x D) as [H|[(H1 & H2 & H3)|(H1 & H2)]].
  - pose proof (Bk H) as Eo. rewrite Eo in A. split; [exact H|].
    pose proof (l_wake _ I5 x (or_introl H)) as W.
    destruct (t_lab (gett st x)) eqn:El; cbn in L; try discriminate; inversion L; subst;
      cbn [allowed] in A; unfold lwr, is_op in A; cbn [opk_eqb andb orb] in A; try discriminate; cbn [wpred] in W.
    + left. destruct W as [W|W]; [|exfalso; exact (no_sig _ W)]. destruct W as [W1 W2]. auto.
    + right. destruct W as [W|W]; [|exfalso; exact (no_sig _ W)]. eexists. split; [reflexivity|exact W].
  - exfalso. destruct (free_mutex _ H3) as [_ E2]. exact (NP E2).
  - exfalso. rewrite H2 in A. destruct (t_lab (gett st x)); cbn in L; try discriminate; cbn in A; discriminate.
Qed.

(* nobody waits for a result: the worker whose result is awaited could run *)
Lemma no_h4_wait x j i : t_lab (gett st x) = H4 j i -> wk_running (getw st i) = true -> False.
Proof.
  intros El Er.
  assert (F : flight_w (getw st i) = true) by (apply (tk_flight _ _ _ (i2_threads _ I2 x)); rewrite El; reflexivity).
  pose proof (flight_lt _ _ F) as Hi. destruct (i2_wthread _ I2 i Hi) as [Hx Wp].
  set (y := wk_tid (getw st i)) in *.
  assert (Ly : lab_worker (t_lab (gett st y)) = Some i).
  { destruct (wphase_lab _ _ _ Wp) as [H|H]; [exact H|]. exfalso. rewrite H in Wp. revert Wp F.
    unfold wphase_ok, flight_w. rewrite Er. destruct (wk_hasjob (getw st i)), (wk_res (getw st i)), (wk_rq (getw st i)); cbn; intros; discriminate. }
  destruct (t_done (gett st y)) eqn:Dy.
  - rewrite (done_lab y Dy) in Ly. discriminate.
  - destruct (live_worker y i Dy Ly) as (_ & _ & R). congruence.
Qed.

(* the caller is not joining a worker: that worker could run and exit *)
Lemma caller_not_p5 : t_lab (gett st 0) <> P5.
Proof.
  intros L. destruct (l_p5 _ I5 L) as (i & Hi & Eo & Dy).
  destruct (i2_wthread _ I2 i Hi) as [Hx Wp]. set (y := wk_tid (getw st i)) in *.
  assert (Er : wk_running (getw st i) = true) by (unfold dying in Dy; destruct (wk_running (getw st i)); [reflexivity|discriminate]).
  destruct (t_done (gett st y)) eqn:Dd.
  - (* the join could complete *)
    pose proof (T 0%nat) as E. unfold enabled in E.
    destruct (shape_parts 0%nat) as (A & Bd & Bk). rewrite L in A. cbn [allowed] in A. apply andb_prop in A. destruct A as [A _].
    destruct (t_op (gett st 0)) eqn:Eop; try discriminate.
    destruct (t_done (gett st 0)) eqn:D0; [specialize (Bd eq_refl); discriminate|].
    destruct (t_blocked (gett st 0)) eqn:B0; [assert (KJoin = KReacq) by (apply Bk; discriminate); discriminate|].
    rewrite Eo in E. fold y in E. rewrite Dd in E. discriminate.
  - destruct (wphase_lab _ _ _ Wp) as [H|H]; [|exact (live_not_ldone y Dd H)].
    destruct (live_worker y i Dd H) as (_ & _ & R). congruence.
Qed.

Lemma sumf_zero_all {A} (f : A -> nat) l d : sumf f l = 0%nat -> forall i, (i < length l)%nat -> f (nth i l d) = 0%nat.
Proof. intros H i Hi. pose proof (sumf_nth_le f l i d Hi). lia. Qed.

(* no unordered worker is on its way to a queue *)
Lemma self_none q : selfn st q = 0%nat.
Proof.
  unfold selfn.
  destruct (sumf (fun w => b2n (rq_is_q w q)) (ps_workers st)) eqn:E1.
  - destruct (sumf (fun th => b2n (w4u_is_q (t_lab th) q)) (ps_threads st)) eqn:E2; [reflexivity|exfalso].
    destruct (sumf_pos_ex (fun th => b2n (w4u_is_q (t_lab th) q)) (ps_threads st) dummy_t) as (x & Hx & Hp); [lia|].
    fold (gett st x) in Hp. destruct (t_lab (gett st x)) eqn:El; cbn in Hp; try lia.
    destruct (t_done (gett st x)) eqn:Dd; [rewrite (done_lab x Dd) in El; discriminate|].
    destruct (live_worker x i Dd) as (_ & L & _); [rewrite El; reflexivity|]. congruence.
  - exfalso.
    destruct (sumf_pos_ex (fun w => b2n (rq_is_q w q)) (ps_workers st) dummy_w) as (i & Hi & Hp); [lia|].
    fold (getw st i) in Hp. unfold rq_is_q in Hp. destruct (wk_rq (getw st i)) as [q'|] eqn:Er; [|cbn in Hp; lia].
    destruct (i2_wthread _ I2 i Hi) as [Hx Wp]. set (y := wk_tid (getw st i)) in *.
    assert (R : wk_running (getw st i) = true /\ lab_worker (t_lab (gett st y)) = Some i).
    { revert Wp. unfold wphase_ok. rewrite Er.
      destruct (wk_running (getw st i)), (wk_hasjob (getw st i)), (wk_res (getw st i)); cbn [is_none andb]; try discriminate.
      intros Wp. split; [reflexivity|]. destruct (t_lab (gett st y)); cbn in Wp; try discriminate;
        rewrite ?orb_false_r in Wp; apply Nat.eqb_eq in Wp; subst; reflexivity. }
    destruct R as [R1 R2].
    destruct (t_done (gett st y)) eqn:Dd; [rewrite (done_lab y Dd) in R2; discriminate|].
    destruct (live_worker y i Dd R2) as (_ & _ & R). congruence.
Qed.

(* a worker that was not told to exit, is not idle and is not held by the caller sits in a queue *)
Lemma nondying_listed i : (i < length (ps_workers st))%nat -> dying (getw st i) = false -> ~ In i (ps_idle st) ->
  ttok (ord_of st) (t_lab (gett st 0)) i = 0%nat ->
  exists q, (q < length (ps_queues st))%nat /\ In i (q_list (getq st q)).
Proof.
  intros Hi Dy Nid T0.
  pose proof (i2_tokens _ I2 i) as Tk. destruct (Nat.ltb_spec i (length (ps_workers st))); [|lia]. unfold tokens in Tk.
  assert (E1 : tok_idle st i = 0%nat) by (unfold tok_idle; apply count_occ_not_In; exact Nid).
  assert (E2 : ftok (getw st i) = 0%nat).
  { unfold ftok. rewrite Dy. destruct (wk_rq (getw st i)) as [q|] eqn:Er; [|reflexivity]. exfalso.
    pose proof (self_none q) as Z. unfold selfn in Z.
    pose proof (sumf_nth_le (fun w => b2n (rq_is_q w q)) (ps_workers st) i dummy_w Hi) as Le. cbv beta in Le.
    fold (getw st i) in Le. unfold rq_is_q at 1 in Le. rewrite Er, Nat.eqb_refl in Le. cbn [b2n] in Le. lia. }
  assert (E3 : tok_t st i = 0%nat).
  { destruct (tok_t st i) eqn:Et; [reflexivity|exfalso]. unfold tok_t in Et.
    destruct (sumf_pos_ex (fun th => ttok (ord_of st) (t_lab th) i) (ps_threads st) dummy_t) as (x & Hx & Hp); [lia|].
    fold (gett st x) in Hp.
    destruct (Nat.eq_dec x 0) as [->|Hne]; [lia|].
    assert (NC : caller_lab (t_lab (gett st x)) = false).
    { destruct (caller_lab (t_lab (gett st x))) eqn:Ec; [|reflexivity]. exfalso. apply Hne. apply (tk_caller _ _ _ (i2_threads _ I2 x)). exact Ec. }
    destruct (t_done (gett st x)) eqn:Dd; [rewrite (done_lab x Dd) in Hp; cbn in Hp; lia|].
    destruct (t_lab (gett st x)) eqn:El; cbn in NC; try discriminate; cbn [ttok] in Hp; try lia.
    - destruct (live_worker x i0 Dd) as (_ & L & _); [rewrite El; reflexivity|]. congruence.
    - destruct (live_handler x j Dd) as (_ & [(L & _)|(i1 & L & R)]); [rewrite El; reflexivity|exact caller_not_p5|congruence|congruence].
    - destruct (live_handler x j Dd) as (_ & [(L & _)|(i1 & L & R)]); [rewrite El; reflexivity|exact caller_not_p5|congruence|].
      rewrite El in L. inversion L; subst. exact (no_h4_wait x j i1 El R).
    - destruct (live_handler x j Dd) as (_ & [(L & _)|(i1 & L & R)]); [rewrite El; reflexivity|exact caller_not_p5|congruence|congruence].
    - destruct (live_handler x j Dd) as (_ & [(L & _)|(i1 & L & R)]); [rewrite El; reflexivity|exact caller_not_p5|congruence|congruence]. }
  assert (E4 : (0 < tok_q st i)%nat) by lia. unfold tok_q in E4.
  destruct (sumf_pos_ex (fun qq => count_occ Nat.eq_dec (q_list qq) i) (ps_queues st) dummy_q E4) as (q & Hq & Hp).
  exists q. split; [exact Hq|]. fold (getq st q) in Hp. apply (count_occ_In Nat.eq_dec). exact Hp.
Qed.

(* every result queue is empty *)
Lemma lists_empty q : (q < length (ps_queues st))%nat ->
  q_list (getq st q) = [] /\
  (t_done (gett st (q_tid (getq st q))) = false ->
   t_lab (gett st (q_tid (getq st q))) = H1 q /\ (q_finished (getq st q) && (q_nthreads (getq st q) =? 0)%N) = false).
Proof.
  intros Hq. destruct (l_handler _ I5 q Hq) as [Hx Hl]. set (x := q_tid (getq st q)) in *.
  destruct (t_done (gett st x)) eqn:Dd.
  - pose proof (done_lab x Dd) as L. destruct (l_drained _ I5 q Hq L) as (_ & E & _ & _). split; [exact E|discriminate].
  - destruct Hl as [Hl|Hl]; [|exfalso; exact (live_not_ldone x Dd Hl)].
    destruct (live_handler x q Dd Hl caller_not_p5) as (_ & [(L & E1 & E2)|(i & L & R)]).
    + split; [exact E1|]. intros _. split; assumption.
    + exfalso. exact (no_h4_wait x q i L R).
Qed.

Lemma no_nondying_stray i : (i < length (ps_workers st))%nat -> dying (getw st i) = false -> ~ In i (ps_idle st) ->
  ttok (ord_of st) (t_lab (gett st 0)) i = 0%nat -> False.
Proof.
  intros Hi Dy Nid T0. destruct (nondying_listed i Hi Dy Nid T0) as (q & Hq & Hin).
  destruct (lists_empty q Hq) as [E _]. rewrite E in Hin. destruct Hin.
Qed.

Lemma exists_nondying : (0 < nondying st)%nat -> exists i, (i < length (ps_workers st))%nat /\ dying (getw st i) = false.
Proof.
  intros H. destruct (sumf_pos_ex (fun w => b2n (negb (dying w))) (ps_workers st) dummy_w H) as (i & Hi & Hp).
  exists i. split; [exact Hi|]. fold (getw st i) in Hp. destruct (dying (getw st i)); [cbn in Hp; lia|reflexivity].
Qed.

Hypothesis Hmax1 : (1 <= ps_max st)%N.

Lemma caller_done : t_done (gett st 0) = true.
Proof.
  destruct (t_done (gett st 0)) eqn:D0; [reflexivity|exfalso].
  destruct (shape_parts 0%nat) as (A & _ & Bk).
  destruct (l_caller _ I5) as [Hc|Hc]; [|exact (live_not_ldone 0%nat D0 Hc)].
  destruct (live_cases 0%nat D0) as [H|[(H1 & H2 & H3)|(H1 & H2)]].
  - (* blocked on the pool condition *)
    pose proof (Bk H) as Eo. rewrite Eo in A.
    pose proof (l_wake _ I5 0%nat (or_introl H)) as W.
    destruct (l_count _ I5) as [Cn Cm].
    destruct (t_lab (gett st 0)) eqn:El; cbn in Hc; try discriminate;
      cbn [allowed] in A; unfold lwr, is_op in A; cbn [opk_eqb andb orb] in A; try discriminate; cbn [wpred] in W.
    + destruct W as [[W1 W2]|W]; [|exact (no_sig _ W)]. cbn [count_extra] in Cn.
      destruct (exists_nondying ltac:(lia)) as (i & Hi & Dy).
      apply (no_nondying_stray i Hi Dy); [rewrite W1; intros []|rewrite El; reflexivity].
    + destruct W as [W|W]; [|exact (no_sig _ W)]. cbn [count_extra] in Cn.
      pose proof (l_p1 _ I5 El (or_introl H)) as Cp.
      destruct (exists_nondying ltac:(lia)) as (i & Hi & Dy).
      apply (no_nondying_stray i Hi Dy); [rewrite W; intros []|rewrite El; reflexivity].
  - destruct (free_mutex _ H3) as [_ E2]. exact (caller_not_p5 E2).
  - rewrite H2 in A. destruct (t_lab (gett st 0)) eqn:El; cbn in Hc; try discriminate; cbn [allowed] in A; try discriminate.
    + (* joining a handler *)
      destruct (l_f3 _ I5 El) as (q & Hq & Eo & Ef).
      pose proof (T 0%nat) as E. unfold enabled in E. rewrite D0, H1, H2, Eo in E.
      destruct (lists_empty q Hq) as [El0 Hl]. destruct (Hl E) as [_ Hc2]. rewrite Ef in Hc2. cbn [andb] in Hc2.
      destruct (l_nthreads _ I5 q Hq) as [Rg Nt]. rewrite El0 in Nt. cbn [length] in Nt.
      destruct (q_ordered (getq st q)).
      * rewrite Nt in Hc2. vm_compute in Hc2. discriminate.
      * rewrite self_none in Nt. unfold pendn in Nt. rewrite El in Nt. cbn [lab_pending] in Nt.
        rewrite N.add_0_r in Nt. cbn in Nt. rewrite N.mod_small in Nt by exact Rg. rewrite Nt in Hc2. discriminate.
    + exact (caller_not_p5 El).
Qed.

Lemma label_class l : caller_lab l = true \/ lab_worker l <> None \/ lab_handler l <> None \/ l = LDone.
Proof. destruct l; cbn; auto; try (right; left; discriminate); right; right; left; discriminate. Qed.

Theorem stuck_all_done : all_done st.
Proof.
  pose proof caller_done as D0. pose proof (done_lab 0%nat D0) as L0.
  pose proof (l_done0 _ I5 L0) as Ep.
  assert (C0 : ps_count st = 0%N).
  { destruct (l_destroy _ I5) as [H|[H|[_ H]]]; [rewrite Ep in H; discriminate|rewrite L0 in H; discriminate|exact H]. }
  assert (Nd : nondying st = 0%nat) by (destruct (l_count _ I5) as [Cn _]; lia).
  unfold all_done. apply Forall_forall. intros th Hin. destruct (In_nth _ _ dummy_t Hin) as (x & Hx & <-). fold (gett st x).
  destruct (t_done (gett st x)) eqn:Dd; [reflexivity|exfalso].
  destruct (label_class (t_lab (gett st x))) as [Hc|[Hw|[Hh|Hl]]].
  - assert (x = 0%nat) by (apply (tk_caller _ _ _ (i2_threads _ I2 x)); exact Hc). subst x. congruence.
  - destruct (lab_worker (t_lab (gett st x))) as [i|] eqn:El; [|congruence].
    destruct (tk_worker _ _ _ (i2_threads _ I2 x) i El) as [Hi _].
    destruct (live_worker x i Dd El) as (_ & _ & R).
    pose proof (sumf_zero_all (fun w => b2n (negb (dying w))) (ps_workers st) dummy_w Nd i Hi) as Z. cbv beta in Z.
    fold (getw st i) in Z. unfold dying in Z. rewrite R in Z. cbn in Z. lia.
  - destruct (lab_handler (t_lab (gett st x))) as [j|] eqn:El; [|congruence].
    destruct (k_handler _ _ K x j El) as [Hj Ex].
    destruct (l_pphase _ I5 (or_intror L0) j Hj) as [_ Dj]. rewrite Ex in Dj. congruence.
  - exact (live_not_ldone x Dd Hl).
Qed.

End Stuck.
