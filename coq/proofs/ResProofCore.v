(* C18 operational resource model - counting semantics of event lists and its link to the
   live list.  [runT k evs m]: the number of live resources of kind [k] (of one owner) after
   the events, starting from [m]; release is truncated, exactly as [remove1] on the list. *)
From Coq Require Import NArith List Bool Lia ZifyBool ZifyN ZifyNat.
From Mtbl Require Import model.ResCore.
Import ListNotations.
Local Open Scope N_scope.

Definition ind (k x : rkind) : N := if rkind_beq k x then 1 else 0.
Fixpoint cnt (k : rkind) (l : list rkind) : N :=
  match l with [] => 0 | x :: t => ind k x + cnt k t end.
Definition stepT (k : rkind) (m : N) (e : ev) : N :=
  match e with Acq x => m + ind k x | Rel x => m - ind k x end.
Definition runT (k : rkind) (evs : list ev) (m : N) : N := fold_left (stepT k) evs m.

Lemma rkind_beq_eq : forall a b, rkind_beq a b = true <-> a = b.
Proof. split; [apply internal_rkind_dec_bl | apply internal_rkind_dec_lb]. Qed.

Lemma cnt_app : forall k a b, cnt k (a ++ b) = cnt k a + cnt k b.
Proof. induction a; intros; cbn [cnt app]; [reflexivity | rewrite IHa; lia]. Qed.
Lemma cnt_cons : forall k x l, cnt k (x :: l) = ind k x + cnt k l.
Proof. reflexivity. Qed.
Lemma cnt_nil : forall k, cnt k [] = 0.
Proof. reflexivity. Qed.
Lemma cnt_copies : forall k n ks, cnt k (copies n ks) = N.of_nat n * cnt k ks.
Proof. induction n; intros; cbn [copies]; [reflexivity | rewrite cnt_app, IHn; lia]. Qed.
Lemma cnt_ncopies : forall k n ks, cnt k (ncopies n ks) = n * cnt k ks.
Proof. intros. unfold ncopies. rewrite cnt_copies, N2Nat.id. reflexivity. Qed.
Lemma cnt_flat_map : forall (A : Type) k (f : A -> list rkind) l,
  cnt k (flat_map f l) = fold_right (fun a acc => cnt k (f a) + acc) 0 l.
Proof. induction l; cbn [flat_map fold_right]; [reflexivity | rewrite cnt_app, IHl; reflexivity]. Qed.

Lemma runT_app : forall k a b m, runT k (a ++ b) m = runT k b (runT k a m).
Proof. intros. unfold runT. apply fold_left_app. Qed.
Lemma runT_nil : forall k m, runT k [] m = m.
Proof. reflexivity. Qed.
Lemma runT_acq : forall k x m, runT k (acq x) m = m + ind k x.
Proof. reflexivity. Qed.
Lemma runT_rel : forall k x m, runT k (rel x) m = m - ind k x.
Proof. reflexivity. Qed.
Lemma runT_cons_acq : forall k x t m, runT k (Acq x :: t) m = runT k t (m + ind k x).
Proof. reflexivity. Qed.
Lemma runT_cons_rel : forall k x t m, runT k (Rel x :: t) m = runT k t (m - ind k x).
Proof. reflexivity. Qed.
Lemma runT_when : forall k b e m, runT k (when b e) m = if b then runT k e m else m.
Proof. destruct b; reflexivity. Qed.

(* code that only adds [fp] / only removes [fp], from ANY starting count: these two shapes
   compose by rewriting, which is how the recursive iterator code is handled *)
Definition adds (evs : list ev) (fp : list rkind) : Prop := forall k m, runT k evs m = m + cnt k fp.
Definition subs (evs : list ev) (fp : list rkind) : Prop := forall k m, runT k evs m = m - cnt k fp.

Lemma runT_times_rel : forall k x n m, runT k (times n (rel x)) m = m - N.of_nat n * ind k x.
Proof.
  induction n; intros; cbn [times]; [rewrite runT_nil; lia|].
  rewrite runT_app, runT_rel, IHn. lia.
Qed.
Lemma runT_ntimes_rel : forall k x n m, runT k (ntimes n (rel x)) m = m - n * ind k x.
Proof. intros. unfold ntimes. rewrite runT_times_rel, N2Nat.id. reflexivity. Qed.
Lemma runT_times_acq : forall k x n m, runT k (times n (acq x)) m = m + N.of_nat n * ind k x.
Proof.
  induction n; intros; cbn [times]; [rewrite runT_nil; lia|].
  rewrite runT_app, runT_acq, IHn. lia.
Qed.
Lemma runT_ntimes_acq : forall k x n m, runT k (ntimes n (acq x)) m = m + n * ind k x.
Proof. intros. unfold ntimes. rewrite runT_times_acq, N2Nat.id. reflexivity. Qed.

Lemma subs_flat_map : forall (A : Type) (c : A -> list ev) (f : A -> list rkind) l,
  (forall a, In a l -> subs (c a) (f a)) -> subs (flat_map c l) (flat_map f l).
Proof.
  induction l; intros H k m; cbn [flat_map]; [rewrite runT_nil; cbn; lia|].
  rewrite runT_app, cnt_app, (H a (or_introl eq_refl)), IHl by (intros; apply H; right; assumption). lia.
Qed.

(* an update of one object: from footprint [a], the events [evs] lead to footprint [b] *)
Definition sound (a : list rkind) (evs : list ev) (b : list rkind) : Prop :=
  forall k n, runT k evs (cnt k a + n) = cnt k b + n.

(* ---------- link with the live list ---------- *)
Fixpoint cntr (r : res) (l : list res) : N :=
  match l with [] => 0 | x :: t => (if res_eqb r x then 1 else 0) + cntr r t end.

Lemma res_eqb_eq : forall a b, res_eqb a b = true <-> a = b.
Proof.
  intros [ia ka] [ib kb]. unfold res_eqb. cbn [r_owner r_kind]. rewrite andb_true_iff, N.eqb_eq, rkind_beq_eq.
  split; [intros [-> ->]; reflexivity | intros E; injection E; auto].
Qed.
Lemma res_eqb_refl : forall a, res_eqb a a = true.
Proof. intros. apply res_eqb_eq. reflexivity. Qed.
Lemma res_eqb_sym : forall a b, res_eqb a b = res_eqb b a.
Proof.
  intros. destruct (res_eqb a b) eqn:E.
  - apply res_eqb_eq in E. subst. symmetry. apply res_eqb_refl.
  - destruct (res_eqb b a) eqn:E2; [|reflexivity]. apply res_eqb_eq in E2. subst. rewrite res_eqb_refl in E. discriminate.
Qed.

Lemma cntr_remove1_same : forall r l, cntr r (remove1 r l) = cntr r l - 1.
Proof.
  induction l as [|x t IH]; cbn [remove1 cntr]; [reflexivity|].
  destruct (res_eqb r x) eqn:E; [lia|]. cbn [cntr]. rewrite E, IH. reflexivity.
Qed.
Lemma cntr_remove1_other : forall r r' l, res_eqb r r' = false -> cntr r (remove1 r' l) = cntr r l.
Proof.
  induction l as [|x t IH]; intros Hne; cbn [remove1 cntr]; [reflexivity|].
  destruct (res_eqb r' x) eqn:E.
  - apply res_eqb_eq in E. subst x. rewrite Hne. lia.
  - cbn [cntr]. rewrite IH by assumption. reflexivity.
Qed.

Lemma cntr_apply_ev_same : forall id k e l,
  cntr (mkres id k) (apply_ev id l e) = stepT k (cntr (mkres id k) l) e.
Proof.
  intros id k [x|x] l; cbn [apply_ev stepT].
  - cbn [cntr]. unfold res_eqb, ind. cbn [r_owner r_kind]. rewrite N.eqb_refl. cbn [andb]. lia.
  - unfold ind. destruct (rkind_beq k x) eqn:E.
    + apply rkind_beq_eq in E. subst x. apply cntr_remove1_same.
    + rewrite cntr_remove1_other; [lia|]. unfold res_eqb. cbn [r_owner r_kind]. rewrite E. apply andb_false_r.
Qed.
Lemma cntr_apply_evs_same : forall id k evs l,
  cntr (mkres id k) (apply_evs id evs l) = runT k evs (cntr (mkres id k) l).
Proof.
  induction evs as [|e t IH]; intros; [reflexivity|].
  unfold apply_evs, runT in *. cbn [fold_left]. rewrite IH, cntr_apply_ev_same. reflexivity.
Qed.
Lemma cntr_apply_evs_other : forall id id' k evs l, id' <> id ->
  cntr (mkres id' k) (apply_evs id evs l) = cntr (mkres id' k) l.
Proof.
  induction evs as [|e t IH]; intros l Hne; [reflexivity|].
  unfold apply_evs in *. cbn [fold_left]. rewrite IH by assumption.
  assert (Hf : forall x, res_eqb (mkres id' k) (mkres id x) = false).
  { intros. unfold res_eqb. cbn [r_owner r_kind]. destruct (N.eqb_spec id' id); [contradiction | reflexivity]. }
  destruct e as [x|x]; cbn [apply_ev cntr].
  - rewrite Hf. lia.
  - apply cntr_remove1_other, Hf.
Qed.

Lemma cntr_zero_nil : forall l, (forall r, cntr r l = 0) -> l = [].
Proof.
  destruct l as [|x t]; intros H; [reflexivity|]. specialize (H x). cbn [cntr] in H.
  rewrite res_eqb_refl in H. lia.
Qed.
