(* Memory-level reader iterators: one call of mem_iter_seek. *)
From Coq Require Import NArith ZArith List Lia ZifyBool ZifyN ZifyNat.
From Mtbl Require Import gen.Consts model.Bytes model.Codec model.Order spec.Parse model.Reader model.IterMem
  proofs.BytesLemmas proofs.IterMemBase proofs.IterMemStep proofs.IterMemTac.
Local Open Scope N_scope.

Ltac split_in Hid := repeat (destruct Hid as [<-|Hid]); try solve [destruct Hid].

Section Seek.
Variable decompress : N -> bytes -> res bytes.
Variable pol : mem -> nat -> bytes -> bool.
Variable r : reader.
Variable ib : ablock.
Hypothesis Hidx : r_index r = Some ib.

Definition mseek_post (m : mem) (mi : miter) (it' : riter) (ok : bool) (res : mres (mem * miter * bool)) : Prop :=
  exists m' L', res = MOk (m', mkmi it' L', ok) /\ frame (owns mi) m m' /\
    fresh_or (owns mi) m (owns_loc L') /\ mi_inv ib m' (mkmi it' L').

Lemma seek_step m mi key it' ok : m_file m = r_file r -> mi_inv ib m mi ->
  reader_iter_seek decompress r (mi_it mi) key = Ok (it', ok) ->
  mseek_post m mi it' ok (mem_iter_seek decompress pol r m mi key).
Proof.
  intros Hfile Hinv Hf. destruct mi as [it L]. unfold mi_inv in Hinv. cbn [mi_it mi_loc] in *.
  unfold reader_iter_seek in Hf. unfold mem_iter_seek. cbn [mi_it mi_loc]. rewrite Hidx in *.
  pose proof Hinv as (Hnd & Hlv & Hic & Hbc & Hkc).
  destruct L as [ikey lb lk]; cbn [ml_blk ml_ikey ml_k] in *.
  assert (Hik : (ikey < m_next m)%nat /\ live m ikey <> None) by (apply Hlv; cbn; auto).
  destruct (live m ikey) as [oldi|] eqn:Eli; [|destruct Hik; congruence].
  set (nis := needs_index_seek ib it key) in *.
  destruct (if nis then block_seek ib (it_index it) key else Ok (it_index it)) as [idx| | |] eqn:Eidx;
    try discriminate.
  cbn [of_res mbind].
  assert (X1 : exists m1 ik1 c1, (if nis then bkey_sync pol m ikey ib idx else Some (m, ikey)) = Some (m1, ik1)
              /\ synced m ikey m1 ik1 c1 /\ (bs_valid idx = true -> c1 = bs_key ib idx)).
  { destruct nis.
    - apply bkey_sync_spec with (old := oldi); [exact Eli|apply Hik].
    - inversion Eidx; subst idx. exists m, ikey, oldi. split; [reflexivity|].
      split; [apply synced_refl; [exact Eli|apply Hik]|]. intros Hv. specialize (Hic Hv). congruence. }
  destruct X1 as (m1 & ik1 & c1 & -> & S1 & Hc1). cbn [of_opt mbind].
  destruct S1 as (F1 & N1 & I1 & D1 & H1).
  assert (Hda : match lb with Some (_, AHeap _ off, _) => off = 0 | _ => True end).
  { unfold blk_coh in Hbc. destruct lb as [[[? da] ?]|]; [|exact I]. destruct da; [exact I|].
    destruct (it_b it) as [[? ?]|]; [apply Hbc|destruct Hbc]. }
  destruct (bs_valid idx) eqn:Evi; cbn [negb] in *.
  2:{ inversion Hf; subst it' ok. exists m1, (mkml ik1 lb lk). split; [reflexivity|].
      split; [shape2 lb lk Hda Hnd Hlv; frame_tac|]. split; [shape2 lb lk Hda Hnd Hlv; fresh_tac|].
      unfold mi_inv. cbn [mi_it mi_loc it_index it_b it_bi it_kind it_k]. unfold inv_c.
      split; [shape2 lb lk Hda Hnd Hlv; nodup_tac|]. split; [shape2 lb lk Hda Hnd Hlv; lives_tac|].
      split; [intros Hv; congruence|]. cbn [ml_blk ml_k]. split.
      - apply (blk_coh_frame m m1); [exact F1| |exact Hbc]. intros id Hid.
        shape2 lb lk Hda Hnd Hlv; cbn [In] in Hid; split_in Hid; hg_chain; eqb_fast; reflexivity.
      - unfold k_coh in *. shape2 lb lk Hda Hnd Hlv; first [exact Hkc|live_tac]. }
  set (new_offset := index_offset ib idx) in *.
  remember (match it_b it with Some _ => it_block_offset it =? new_offset | None => false end) as reuse eqn:Er.
  destruct reuse.
  - (* the block already loaded is the one wanted: only bi->key is rewritten *)
    destruct (it_b it) as [[o b]|] eqn:Eb; [|discriminate].
    destruct lb as [[[bk da] sz]|]; [|destruct Hbc]. cbn [mbind].
    destruct Hbc as (Hkey & (raw & Hraw & Hinit) & Hda2).
    destruct (block_seek b (it_bi it) key) as [bi| | |] eqn:Es; try discriminate. cbn [of_res mbind].
    assert (Hbk : (bk < m_next m)%nat /\ live m bk <> None) by (apply Hlv; cbn; auto).
    destruct (live m bk) as [oldk|] eqn:Elk; [|destruct Hbk; congruence].
    destruct (bkey_sync_spec pol m1 bk b bi oldk) as (m6 & bk1 & c6 & -> & S6 & Hc6).
    { shape da lk Hda Hnd Hlv; live_tac. }
    { lia_nd. }
    destruct S6 as (F6 & N6 & I6 & D6 & HH6). cbn [of_opt mbind].
    inversion Hf; subst it' ok. exists m6, (mkml ik1 (Some (bk1, da, sz)) lk). split; [reflexivity|].
    split; [shape da lk Hda Hnd Hlv; frame_tac|]. split; [shape da lk Hda Hnd Hlv; fresh_tac|].
    unfold mi_inv. cbn [mi_it mi_loc it_index it_b it_bi it_kind it_k].
    shape da lk Hda Hnd Hlv; inv_tac Hic Hkc ltac:(blk_tac raw Hraw Hinit).
  - (* another block: destroy b and bi (if any), load the block, new block_iter *)
    destruct (mem_drop_blk_spec' m1 lb) as (m2 & -> & F2 & N2 & H2).
    { intros id Hid. shape2 lb lk Hda Hnd Hlv; cbn [In] in Hid; split_in Hid; live_tac. }
    { apply NoDup_cons_iff in Hnd. destruct Hnd as [_ Hnd']. unfold owns_loc in Hnd'. cbn [ml_blk] in Hnd'.
      destruct lk as [k|]; [apply NoDup_remove_1 in Hnd'|]; rewrite app_nil_r in Hnd'; exact Hnd'. }
    cbn [of_opt mbind].
    destruct (get_block decompress r new_offset) as [nb| | |] eqn:Eg; try discriminate.
    destruct (mem_get_block_spec decompress r m2 new_offset nb Eg) as (m3 & nda & nraw & -> & F3 & Hninit & Hcase);
      [congruence|].
    cbn [mbind].
    destruct (alloc m3 []) as [m4 nbk] eqn:Ea. destruct (alloc_spec _ _ _ _ Ea) as (Enbk & N4 & F4 & HH4).
    cbn [mbind].
    destruct (block_seek nb (bs_invalid nb) key) as [bi| | |] eqn:Es; try discriminate. cbn [of_res mbind].
    destruct (bkey_sync_spec pol m4 nbk nb bi []) as (m6 & nbk1 & c6 & -> & S6 & Hc6); [live_tac|lia_nd|].
    destruct S6 as (F6 & N6 & I6 & D6 & HH6). cbn [of_opt mbind].
    inversion Hf; subst it' ok. exists m6, (mkml ik1 (Some (nbk1, nda, len nraw)) lk). split; [reflexivity|].
    destruct Hcase as [((nfo & -> & Hnraw) & ->)|(-> & N3 & HH3)].
    + split; [shape2 lb lk Hda Hnd Hlv; frame_tac|]. split; [shape2 lb lk Hda Hnd Hlv; fresh_tac|].
      unfold mi_inv. cbn [mi_it mi_loc it_index it_b it_bi it_kind it_k].
      shape2 lb lk Hda Hnd Hlv; inv_tac Hic Hkc ltac:(blk_tac nraw Hnraw Hninit).
    + split; [shape2 lb lk Hda Hnd Hlv; frame_tac|]. split; [shape2 lb lk Hda Hnd Hlv; fresh_tac|].
      unfold mi_inv. cbn [mi_it mi_loc it_index it_b it_bi it_kind it_k].
      shape2 lb lk Hda Hnd Hlv; inv_tac Hic Hkc ltac:(blk_tac nraw Hninit Hninit).
Qed.
End Seek.
