(* C13, the pooled writer with the handler's callbacks labelled by the job id the pool delivered
   (extension of proofs/WriterPooled.v).  The caller's adds are interleaved with callbacks ICall id at
   arbitrary positions; the callback applies the job with that id (index in dispatch order), whatever
   id it is.  WP3i: if the sequence of ids is the one some complete run of the pool LTS delivers to the
   writer's ordered handler (WP2: 0, 1, 2, ...), the session equals the sequential one - both the
   positions of the callbacks between the adds and the pool's schedule are arbitrary. *)
From Coq Require Import NArith ZArith List Lia Bool Arith.
From Mtbl Require Import gen.Consts model.Bytes model.Block model.Writer proofs.WriterPooled.
Import ListNotations.
Local Open Scope N_scope.

Inductive ievent := IAdd (key val : bytes) | ICall (id : N).
Definition istate := (writer * list job)%type.       (* the writer, every job dispatched so far (job id = index) *)

Definition tr (e : ievent) : event := match e with IAdd k v => EAdd k v | ICall _ => EDeliver end.
Fixpoint calls (ievs : list ievent) : list N :=
  match ievs with [] => [] | ICall id :: tl => id :: calls tl | _ :: tl => calls tl end.
Fixpoint iadds (ievs : list ievent) : list entry :=
  match ievs with [] => [] | IAdd k v :: tl => (k, v) :: iadds tl | _ :: tl => iadds tl end.

(* ---------- list facts ---------- *)
Lemma skipn_nth_cons {A} (dflt : A) : forall l d, (d < length l)%nat -> skipn d l = nth d l dflt :: skipn (S d) l.
Proof.
  induction l as [|a l IH]; intros d H; cbn [length] in H; [lia|].
  destruct d as [|d]; [reflexivity|]. cbn [skipn nth]. apply IH. lia.
Qed.
Lemma skipn_app_le {A} (l1 l2 : list A) d : (d <= length l1)%nat -> skipn d (l1 ++ l2) = skipn d l1 ++ l2.
Proof. intros H. rewrite skipn_app. replace (d - length l1)%nat with 0%nat by lia. reflexivity. Qed.
Lemma map_nth_seq_skipn {A} (dflt : A) l c : (c <= length l)%nat ->
  map (fun i => nth i l dflt) (seq c (length l - c)) = skipn c l.
Proof.
  intros H. pose proof (map_nth_seq dflt (skipn c l) (firstn c l)) as M.
  rewrite firstn_skipn, firstn_length, skipn_length in M. rewrite Nat.min_l in M by exact H. exact M.
Qed.
Lemma ids_suffix : forall l n k rest, map N.of_nat (seq k n) = l ++ rest ->
  rest = map N.of_nat (seq (k + length l) (n - length l)).
Proof.
  induction l as [|a l IH]; intros n k rest H; cbn [length app] in *.
  - rewrite Nat.add_0_r, Nat.sub_0_r. symmetry. exact H.
  - destruct n as [|n]; [discriminate H|]. cbn [seq map] in H. inversion H as [[Ha Hl]].
    rewrite (IH n (S k) rest Hl). f_equal. f_equal; lia.
Qed.

Section Ids.
Variable compress_default : N -> bytes -> res bytes.
Variable compress_level : N -> Z -> bytes -> res bytes.
Notation apply_job := (apply_job compress_default compress_level).
Notation apply_jobs := (apply_jobs compress_default compress_level).
Notation drun := (drun compress_default compress_level).
Notation dstep := (dstep compress_default compress_level).
Notation delivers_enabled := (delivers_enabled compress_default compress_level).
Notation writer_session := (writer_session compress_default compress_level).

(* one event: an add by the caller, or the handler's callback on the job with the given id
   (Fail: that job has not been dispatched yet - the pool cannot deliver it) *)
Definition istep (X : istate) (e : ievent) : res (istate * list bool) :=
  let '(w, all) := X in
  match e with
  | IAdd k v => match cadd k v w with
                | Ok (w1, (js, b)) => Ok ((w1, all ++ js), [b])
                | _ => Abort
                end
  | ICall id => if Nat.ltb (N.to_nat id) (length all)
                then match apply_job w (nth (N.to_nat id) all dummy_job) with
                     | Ok w1 => Ok ((w1, all), [])
                     | _ => Abort
                     end
                else Fail
  end.
Fixpoint irun (X : istate) (ievs : list ievent) : res (istate * list bool) :=
  match ievs with
  | [] => Ok (X, [])
  | e :: tl => match istep X e with
               | Ok (X1, bs1) => match irun X1 tl with
                                 | Ok (X2, bs) => Ok (X2, bs1 ++ bs)
                                 | Fail => Fail | Abort => Abort | Oob => Oob
                                 end
               | Fail => Fail | Abort => Abort | Oob => Oob
               end
  end.

(* with the ids d, d+1, ... the id-labelled run is the FIFO run of WriterPooled *)
Lemma irun_drun ievs : forall w all d, (d <= length all)%nat ->
  calls ievs = map N.of_nat (seq d (length (calls ievs))) ->
  drun (w, skipn d all) (map tr ievs) =
    match irun (w, all) ievs with
    | Ok ((w', all'), rs) => Ok ((w', skipn (d + length (calls ievs)) all'), rs)
    | Fail => Fail | Abort => Abort | Oob => Oob
    end /\
  match irun (w, all) ievs with
  | Ok ((w', all'), _) => (d + length (calls ievs) <= length all')%nat
  | _ => True
  end.
Proof.
  induction ievs as [|e tl IH]; intros w all d Hd Hc.
  - cbn [map WriterPooled.drun irun calls length]. rewrite Nat.add_0_r. split; [reflexivity|exact Hd].
  - destruct e as [k v|id]; cbn [map tr WriterPooled.drun irun calls WriterPooled.dstep istep] in *.
    + destruct (cadd k v w) as [[w1 [js b]]| | |]; try (split; [reflexivity|exact I]).
      rewrite <- (skipn_app_le all js d Hd).
      assert (Hd' : (d <= length (all ++ js))%nat) by (rewrite app_length; lia).
      destruct (IH w1 (all ++ js) d Hd' Hc) as [E L]. rewrite E.
      destruct (irun (w1, all ++ js) tl) as [[[w' all'] rs]| | |]; split; try reflexivity; try exact I; exact L.
    + cbn [length seq map] in Hc. inversion Hc as [[Hid Htl]]. rewrite Nat2N.id.
      destruct (Nat.ltb_spec d (length all)) as [Hlt|Hge].
      * rewrite (skipn_nth_cons dummy_job all d Hlt).
        destruct (apply_job w (nth d all dummy_job)) as [w1| | |]; try (split; [reflexivity|exact I]).
        destruct (IH w1 all (S d) Hlt Htl) as [E L]. rewrite E.
        destruct (irun (w1, all) tl) as [[[w' all'] rs]| | |]; split; try reflexivity; try exact I.
        -- cbn [app length]. rewrite Nat.add_succ_r. reflexivity.
        -- cbn [length]. rewrite Nat.add_succ_r. exact L.
      * rewrite (skipn_all2 all Hge). split; [reflexivity|exact I].
Qed.

Lemma drun_enabled evs : forall D, drun D evs <> Fail -> delivers_enabled D evs = true.
Proof.
  induction evs as [|e tl IH]; intros [w q] H; [reflexivity|]. cbn [WriterPooled.delivers_enabled WriterPooled.drun snd] in *.
  apply andb_true_intro. split.
  - destruct e; try reflexivity. destruct q; [|reflexivity]. exfalso. apply H. reflexivity.
  - destruct (dstep (w, q) e) as [[D' bs1]| | |]; try reflexivity. apply IH. intros E. apply H. rewrite E. reflexivity.
Qed.
Lemma no_finish_tr ievs : no_finish (map tr ievs) = true.
Proof. induction ievs as [|[k v|id] tl IH]; [reflexivity|exact IH|exact IH]. Qed.
Lemma erase_tr ievs : erase (map tr ievs) = iadds ievs.
Proof. induction ievs as [|[k v|id] tl IH]; [reflexivity| |exact IH]. cbn [map tr erase iadds]. f_equal. exact IH. Qed.

(* the whole session: the interleaved adds and callbacks, then _mtbl_writer_finish: the caller's last flush
   (dispatch of the open block), the callbacks [rest] made while result_handler_destroy waits, the index
   block and the trailer *)
Definition isession (o : wopts) (off : N) (ievs : list ievent) (rest : list N) : res (writer * list bool) :=
  match irun (writer_init o off, []) ievs with
  | Ok ((w, all), rs) =>
      match cflush w with
      | Ok (w1, js) => match apply_jobs w1 (map (fun id => nth (N.to_nat id) (all ++ js) dummy_job) rest) with
                       | Ok w2 => Ok (finish_tail w2, rs)
                       | _ => Abort
                       end
      | _ => Abort
      end
  | Fail => Fail
  | _ => Abort
  end.
(* n is the number of jobs the caller dispatched (if it got to the end of the session) *)
Definition dispatched_total (o : wopts) (off : N) (ievs : list ievent) (n : nat) : Prop :=
  match irun (writer_init o off, []) ievs with
  | Ok ((w, all), _) => match cflush w with Ok (_, js) => n = length (all ++ js) | _ => True end
  | _ => True
  end.

(* WP3i, on the ids: callbacks at arbitrary positions, the ids being 0, 1, ..., n-1 in this order *)
Theorem WP3i_ids : forall o off ievs rest n,
  dispatched_total o off ievs n ->
  calls ievs ++ rest = job_ids n ->
  irun (writer_init o off, []) ievs <> Fail ->
  isession o off ievs rest =
    match writer_session o off (iadds ievs) with Ok (w, rs) => Ok (w, rs) | _ => Abort end.
Proof.
  intros o off ievs rest n Hn Hc NF. unfold job_ids in Hc. symmetry in Hc.
  destruct (ids_prefix _ _ _ _ Hc) as [Hp Hle]. set (c := length (calls ievs)) in *.
  destruct (irun_drun ievs (writer_init o off) [] 0%nat (Nat.le_0_l _) Hp) as [E L].
  change (skipn 0 (@nil job)) with (@nil job) in E. cbn [Nat.add] in E, L. fold c in E, L.
  assert (EN : delivers_enabled (dinit o off) (map tr ievs) = true).
  { apply drun_enabled. unfold dinit. rewrite E. destruct (irun (writer_init o off, []) ievs) as [[[w all] rs]| | |]; try discriminate.
    exfalso. apply NF. reflexivity. }
  pose proof (WP1 compress_default compress_level o off (map tr ievs) (no_finish_tr ievs) EN) as H.
  rewrite erase_tr in H. unfold prun_events, dinit in H. rewrite drun_app, E in H.
  unfold isession, dispatched_total in *.
  destruct (irun (writer_init o off, []) ievs) as [[[w all] rs]| | |].
  - cbn [WriterPooled.drun WriterPooled.dstep] in H.
    destruct (cflush w) as [[w1 js]| | |];
      try (destruct (writer_session o off (iadds ievs)) as [[ws rs']| | |]; try discriminate H; reflexivity).
    pose proof (ids_suffix _ _ _ _ Hc) as Hr. cbn [Nat.add] in Hr. fold c in Hr.
    assert (M : map (fun id => nth (N.to_nat id) (all ++ js) dummy_job) rest = skipn c all ++ js).
    { rewrite Hr, map_map, <- (skipn_app_le all js c L), Hn, <- (map_nth_seq_skipn dummy_job (all ++ js) c).
      - apply map_ext. intros i. rewrite Nat2N.id. reflexivity.
      - rewrite app_length. lia. }
    rewrite M. destruct (apply_jobs w1 (skipn c all ++ js)) as [w2| | |];
      destruct (writer_session o off (iadds ievs)) as [[ws rs']| | |]; try discriminate H; try reflexivity.
    rewrite !app_nil_r in H. inversion H; subst. reflexivity.
  - exfalso. apply NF. reflexivity.
  - destruct (writer_session o off (iadds ievs)) as [[ws rs']| | |]; try discriminate H; reflexivity.
  - destruct (writer_session o off (iadds ievs)) as [[ws rs']| | |]; discriminate H.
Qed.

End Ids.

(* ---------- with the pool LTS ---------- *)
From Mtbl Require Import model.Pool proofs.PoolSched proofs.PoolInv.

(* WP3i: the caller adds entries and cuts n blocks; the pool (any size) runs any complete schedule on the
   writer's n dispatches; the handler's callbacks - the ids in the order the pool delivered them - fall at
   arbitrary positions between the adds (each after the dispatch of its job) and, for the remaining ones,
   inside _mtbl_writer_finish.  The session has the outcome of the sequential one: the same writer (file
   bytes, metadata) and per-add results, or an Abort in both. *)
Theorem WP3i : forall compress_default compress_level o off ievs rest n,
  dispatched_total compress_default compress_level o off ievs n ->
  irun compress_default compress_level (writer_init o off, []) ievs <> Fail ->
  forall maxt s st stash,
  sched_wf (pool_init maxt (writer_prog n)) [] s ->
  prun (pool_init maxt (writer_prog n)) [] s = Some (st, stash) ->
  all_done st ->
  calls ievs ++ rest = delivered_ids st 0 ->
  isession compress_default compress_level o off ievs rest =
    match writer_session compress_default compress_level o off (iadds ievs) with
    | Ok (w, rs) => Ok (w, rs)
    | _ => Abort
    end.
Proof.
  intros cd cl o off ievs rest n Hn NF maxt s st stash W E A Hc.
  rewrite (WP2 maxt n s st stash W E A) in Hc. apply (WP3i_ids cd cl o off ievs rest n Hn Hc NF).
Qed.

(* non-vacuity: the 7 adds / 5 blocks of WriterPooled.ex_entries, three callbacks between the adds, two
   during the finish, the ids taken from the concrete LTS run WriterPooled.ex_sched (pool of 2) *)
Definition ex_ievents : list ievent :=
  match ex_entries with
  | [e1; e2; e3; e4; e5; e6; e7] =>
      [IAdd (fst e1) (snd e1); IAdd (fst e2) (snd e2); IAdd (fst e3) (snd e3); ICall 0;
       IAdd (fst e4) (snd e4); IAdd (fst e5) (snd e5); IAdd (fst e6) (snd e6); ICall 1;
       IAdd (fst e7) (snd e7); ICall 2]
  | _ => []
  end.
Example WP3i_example :
  dispatched_total ex_cd ex_cl ex_opts 5 ex_ievents 5 /\
  iadds ex_ievents = ex_entries /\
  match irun ex_cd ex_cl (writer_init ex_opts 5, []) ex_ievents, prun (pool_init 2 (writer_prog 5)) [] ex_sched,
        writer_session ex_cd ex_cl ex_opts 5 ex_entries with
  | Ok _, Some (st, _), Ok (w, rs) =>
      forallb t_done (ps_threads st) = true /\
      calls ex_ievents ++ [3; 4] = delivered_ids st 0 /\
      match isession ex_cd ex_cl ex_opts 5 ex_ievents [3; 4] with
      | Ok (w', rs') => writer_bytes w' = writer_bytes w /\ w_m w' = w_m w /\ rs' = rs
      | _ => False
      end
  | _, _, _ => False
  end.
Proof. vm_compute. repeat split. Qed.

(* a callback on a job that has not been dispatched yet is not enabled (excluded by the hypothesis) *)
Example WP3i_example_disabled :
  irun ex_cd ex_cl (writer_init ex_opts 5, []) (ICall 0 :: ex_ievents) = Fail.
Proof. vm_compute. reflexivity. Qed.

Print Assumptions WP3i_ids.
Print Assumptions WP3i.
