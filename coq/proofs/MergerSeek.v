(* merger.c: merger_iter_seek is correct from every reachable state.
   Part A: heap_heapify (libmy/heap.c) yields a heap and a permutation, for every total preorder
           (heapify_ok).
   Part B: the invariant of the merger (api of MergerClosed) strengthened to [sinv]: the registered
           sources mi_entries are distinct, in range, non-null, unbounded and sorted; every heap
           entry belongs to a registered source; the remaining multiset is an upward closed part
           of all registered entries that contains every entry above mi_cur_key (when that key is
           non-empty) - the fact the forward-seek shortcut relies on.
           merger_iter_make establishes sinv (merger_iter_make_sinv), merger_next and merger_seek
           preserve it (merger_next_sinv, merger_seek_spec).  After a seek to k the remaining
           multiset is exactly the entries with key >= k of the registered sources - on the full
           re-seek path and on the forward shortcut alike; after a next that returned k it is exactly
           the entries with key > k.  reachable_sinv / merger_seek_reachable / merger_next_reachable
           restate this for every state reachable through make, next and seek. *)
From Coq Require Import NArith List Arith Lia Permutation ZArith ZifyNat.
From Mtbl Require Import model.Bytes model.Order model.Heap model.Merger spec.MergeSpec proofs.OrderProofs
  proofs.HeapProofs proofs.MergerProofs proofs.MergerClosed.
Import ListNotations.

(* ================================================================================================== *)
(* Part A: heapify                                                                                    *)
(* ================================================================================================== *)
Section Heapify.
Ltac Zify.zify_post_hook ::= Z.div_mod_to_equations.
Variable A : Type.
Variable cmp : A -> A -> comparison.
Variable dflt : A.
Hypothesis le_trans : forall a b c, le A cmp a b -> le A cmp b c -> le A cmp a c.
Hypothesis le_total : forall a b, le A cmp a b \/ le A cmp b a.

Local Notation le := (le A cmp).
Local Notation get := (get A dflt).
Local Notation set_nth := (set_nth A).
Local Notation le_c := (le_c A cmp).
Local Notation hok := (hok A cmp dflt).
Local Notation get_set_same := (get_set_same A cmp dflt le_trans le_total).
Local Notation set_nth_same := (set_nth_same A cmp dflt le_trans le_total).
Local Notation swap_perm := (swap_perm A cmp dflt le_trans le_total).

(* the heap order on every edge whose parent index is at least [lo] *)
Definition hok_from (lo : nat) (l : list A) : Prop :=
  forall i, 0 < i < length l -> lo <= parent i -> le (get l (parent i)) (get l i).

Lemma hok_from_0 l : hok_from 0 l <-> hok l.
Proof.
  unfold hok_from, HeapProofs.hok. split; intros H i Hi; [apply H; [exact Hi|lia]|intros _; apply H, Hi].
Qed.

Definition hole_from (lo : nat) (l : list A) (pos : nat) (item : A) : Prop :=
  lo <= pos /\ pos < length l /\
  (forall i, 0 < i < length l -> lo <= parent i -> i <> pos -> parent i <> pos -> le (get l (parent i)) (get l i)) /\
  (0 < pos -> lo <= parent pos -> forall c, c < length l -> 0 < c -> parent c = pos -> le (get l (parent pos)) (get l c)) /\
  (0 < pos -> lo <= parent pos -> le (get l (parent pos)) item).

Lemma le_refl a : le a a.
Proof. destruct (le_total a a); assumption. Qed.

Lemma fill_hole_from lo l pos item : hole_from lo l pos item ->
  (forall c, c < length l -> 0 < c -> parent c = pos -> le item (get l c)) -> hok_from lo (set_nth l pos item).
Proof.
  intros (Hlo & Hpos & H1 & H2 & H3) Hch i Hi Hpi. rewrite set_nth_length in Hi.
  destruct (Nat.eq_dec i pos) as [->|Hne].
  - rewrite get_set_same by exact Hpos. rewrite get_set_other by (unfold parent; lia). apply H3; [lia|exact Hpi].
  - rewrite (get_set_other A dflt l pos i) by congruence. destruct (Nat.eq_dec (parent i) pos) as [E|E].
    + rewrite E, get_set_same by exact Hpos. apply Hch; [lia|lia|exact E].
    + rewrite get_set_other by congruence. apply H1; [lia|exact Hpi|exact Hne|exact E].
Qed.

Lemma siftdown_loop_from : forall fuel lo l pos item, hole_from lo l pos item -> length l - pos <= fuel ->
  hok_from lo (siftdown_loop A cmp dflt fuel l pos item) /\
  Permutation (siftdown_loop A cmp dflt fuel l pos item) (set_nth l pos item).
Proof.
  induction fuel as [|fuel IH]; intros lo l pos item Hh Hf; [destruct Hh as (_ & Hpos & _); lia|].
  pose proof Hh as (Hlo & Hpos & H1 & H2 & H3). cbn [siftdown_loop].
  destruct (2 * pos + 1 <? length l) eqn:Ec.
  2:{ apply Nat.ltb_ge in Ec. split; [|reflexivity]. apply fill_hole_from; [exact Hh|]. intros c Hc H0 Hp. unfold parent in Hp. lia. }
  apply Nat.ltb_lt in Ec.
  set (cp := 2 * pos + 1) in *. set (rp := cp + 1).
  set (choice := if rp <? length l then if le_c (get l rp) (get l cp) then (rp, get l rp) else (cp, get l cp) else (cp, get l cp)).
  assert (Hchoice : exists cpos, choice = (cpos, get l cpos) /\ (cpos = cp \/ (cpos = rp /\ rp < length l)) /\
                      (forall c, c < length l -> 0 < c -> parent c = pos -> le (get l cpos) (get l c))).
  { unfold choice. destruct (rp <? length l) eqn:Er.
    - apply Nat.ltb_lt in Er. destruct (le_c (get l rp) (get l cp)) eqn:El.
      + exists rp. split; [reflexivity|]. split; [right; split; [reflexivity|exact Er]|].
        intros c Hc H0 Hp. assert (Hcc : c = cp \/ c = rp) by (unfold parent in Hp; subst cp rp; lia).
        destruct Hcc as [->| ->]; [apply (le_c_true A cmp), El|apply le_refl].
      + exists cp. split; [reflexivity|]. split; [left; reflexivity|].
        intros c Hc H0 Hp. assert (Hcc : c = cp \/ c = rp) by (unfold parent in Hp; subst cp rp; lia).
        destruct Hcc as [->| ->]; [apply le_refl|apply (le_c_false A cmp le_total), El].
    - apply Nat.ltb_ge in Er. exists cp. split; [reflexivity|]. split; [left; reflexivity|].
      intros c Hc H0 Hp. assert (c = cp) by (unfold parent in Hp; subst cp rp; lia). subst c. apply le_refl. }
  destruct Hchoice as (cpos & -> & Hcp & Hmin).
  assert (Hcl : cpos < length l) by (destruct Hcp as [->|[-> H]]; [exact Ec|exact H]).
  assert (Hcpar : parent cpos = pos) by (unfold parent; subst cp rp; lia).
  assert (Hcgt : pos < cpos) by (subst cp rp; lia).
  destruct (le_c item (get l cpos)) eqn:Eit.
  - split; [|reflexivity]. apply fill_hole_from; [exact Hh|]. intros c Hc H0 Hp.
    eapply le_trans; [apply (le_c_true A cmp), Eit|apply Hmin; assumption].
  - set (l1 := set_nth l pos (get l cpos)).
    assert (Hh1 : hole_from lo l1 cpos item).
    { unfold hole_from, l1. rewrite set_nth_length. split; [lia|]. split; [exact Hcl|]. split; [|split].
      - intros i Hi Hpi Hne Hpe. destruct (Nat.eq_dec i pos) as [->|Hip].
        + rewrite get_set_same by exact Hpos. rewrite get_set_other by (unfold parent; lia).
          apply H2; [lia|exact Hpi|exact Hcl|lia|exact Hcpar].
        + rewrite (get_set_other A dflt l pos i) by congruence. destruct (Nat.eq_dec (parent i) pos) as [E|E].
          * rewrite E, get_set_same by exact Hpos. apply Hmin; [lia|lia|exact E].
          * rewrite get_set_other by congruence. apply H1; [lia|exact Hpi|exact Hip|exact E].
      - intros _ _ c Hc H0 Hp. rewrite Hcpar, get_set_same by exact Hpos.
        rewrite get_set_other by (unfold parent in Hp; lia).
        rewrite <- Hp. apply H1; [lia|rewrite Hp; lia|unfold parent in Hp; lia|rewrite Hp; lia].
      - intros _ _. rewrite Hcpar, get_set_same by exact Hpos. apply (le_c_false A cmp le_total), Eit. }
    destruct (IH lo l1 cpos item Hh1 ltac:(unfold l1; rewrite set_nth_length; lia)) as [Hok Hperm].
    split; [exact Hok|]. eapply Permutation_trans; [exact Hperm|]. unfold l1. apply swap_perm; [exact Hpos|exact Hcl|lia].
Qed.

Lemma siftdown_from l k : k < length l -> hok_from (S k) l ->
  hok_from k (siftdown A cmp dflt l k) /\ Permutation (siftdown A cmp dflt l k) l.
Proof.
  intros Hk H. unfold siftdown. replace (k <? length l) with true by (symmetry; apply Nat.ltb_lt; exact Hk).
  destruct (siftdown_loop_from (length l) k l k (get l k)) as [Hok Hperm].
  - unfold hole_from. split; [lia|]. split; [exact Hk|]. split; [|split].
    + intros i Hi Hpi Hne Hpe. apply H; [exact Hi|lia].
    + intros H0 Hp. unfold parent in Hp. lia.
    + intros H0 Hp. unfold parent in Hp. lia.
  - lia.
  - split; [exact Hok|]. rewrite set_nth_same in Hperm by exact Hk. exact Hperm.
Qed.

Lemma heapify_loop_ok : forall i l, i <= length l -> hok_from i l ->
  hok (heapify_loop A cmp dflt i l) /\ Permutation (heapify_loop A cmp dflt i l) l.
Proof.
  induction i as [|i IH]; intros l Hi H; cbn [heapify_loop].
  - split; [apply hok_from_0, H|reflexivity].
  - destruct (siftdown_from l i ltac:(lia) H) as [Hok Hperm].
    destruct (IH (siftdown A cmp dflt l i) ltac:(rewrite (Permutation_length Hperm); lia) Hok) as [Hok' Hperm'].
    split; [exact Hok'|]. eapply Permutation_trans; eassumption.
Qed.

Theorem heapify_ok l : hok (heapify A cmp dflt l) /\ Permutation (heapify A cmp dflt l) l.
Proof.
  unfold heapify. apply heapify_loop_ok.
  - apply Nat.div_le_upper_bound; lia.
  - intros i Hi Hp. exfalso. unfold parent in Hp. lia.
Qed.
End Heapify.

(* ================================================================================================== *)
(* Part B: the merger                                                                                 *)
(* ================================================================================================== *)
Theorem K_heapify l : hk (heapify hent (mcmp None) dummy_he l) /\ Permutation (heapify hent (mcmp None) dummy_he l) l.
Proof. apply heapify_ok; [exact mle_trans|exact mle_total]. Qed.

(* ---- lists ------------------------------------------------------------------------------------------ *)
Lemma filter_true_all {A} (f : A -> bool) l : (forall x, In x l -> f x = true) -> filter f l = l.
Proof.
  induction l as [|a l IH]; intros H; [reflexivity|]. cbn [filter]. rewrite (H a (or_introl eq_refl)).
  f_equal. apply IH. intros x Hx. apply H. right. exact Hx.
Qed.
Lemma filter_false_all {A} (f : A -> bool) l : (forall x, In x l -> f x = false) -> filter f l = [].
Proof.
  induction l as [|a l IH]; intros H; [reflexivity|]. cbn [filter]. rewrite (H a (or_introl eq_refl)).
  apply IH. intros x Hx. apply H. right. exact Hx.
Qed.
Lemma filter_idem {A} (f : A -> bool) l : filter f (filter f l) = filter f l.
Proof. apply filter_true_all. intros x Hx. apply filter_In in Hx. exact (proj2 Hx). Qed.
Lemma filter_filter_in {A} (f g : A -> bool) l : (forall x, In x l -> f x = true -> g x = true) ->
  filter f (filter g l) = filter f l.
Proof.
  induction l as [|a l IH]; intros H; [reflexivity|]. cbn [filter].
  assert (IH' : filter f (filter g l) = filter f l) by (apply IH; intros x Hx; apply H; right; exact Hx).
  destruct (g a) eqn:Eg.
  - cbn [filter]. rewrite IH'. reflexivity.
  - destruct (f a) eqn:Ef; [rewrite (H a (or_introl eq_refl) Ef) in Eg; discriminate|exact IH'].
Qed.
Lemma filter_concat {A} (f : A -> bool) (ls : list (list A)) : filter f (concat ls) = concat (map (filter f) ls).
Proof. induction ls as [|l ls IH]; [reflexivity|]. cbn [concat map]. rewrite filter_app, IH. reflexivity. Qed.

(* ---- key comparisons --------------------------------------------------------------------------------- *)
Definition geb (k : bytes) (e : entry) : bool := negb (blt (fst e) k).     (* key >= k *)
Definition gtb (k : bytes) (e : entry) : bool := blt k (fst e).            (* key > k *)

Lemma geb_true k e : geb k e = true <-> bcmp k (fst e) <> Gt.
Proof.
  unfold geb, blt. rewrite (bcmp_antisym (fst e) k). destruct (bcmp (fst e) k); cbn; split; congruence.
Qed.
Lemma geb_false k e : geb k e = false <-> bcmp (fst e) k = Lt.
Proof. unfold geb, blt. destruct (bcmp (fst e) k); cbn; split; congruence. Qed.
Lemma gtb_true k e : gtb k e = true <-> bcmp k (fst e) = Lt.
Proof. unfold gtb, blt. destruct (bcmp k (fst e)); split; congruence. Qed.

(* ---- sorted sources ---------------------------------------------------------------------------------- *)
Lemma ssorted_cons_inv a l : ssorted (a :: l) -> ssorted l /\ (forall b, In b l -> bcmp (fst a) (fst b) = Lt).
Proof.
  intros H. split.
  - intros i j x y Hij Hi Hj. apply (H (S i) (S j) x y); [lia|exact Hi|exact Hj].
  - intros b Hb. apply In_nth_error in Hb. destruct Hb as [n Hn]. apply (H 0 (S n) a b); [lia|reflexivity|exact Hn].
Qed.

Lemma first_ge_from_shift : forall es k i, first_ge_from es k i = i + first_ge_from es k 0.
Proof.
  induction es as [|[key v] es IH]; intros k i; cbn [first_ge_from]; [lia|].
  destruct (blt key k); [|lia]. rewrite (IH k (S i)), (IH k 1). lia.
Qed.

(* the cursor position of a seek: the suffix from there is exactly the entries with key >= k *)
Lemma skipn_first_ge : forall es k, ssorted es -> skipn (first_ge_from es k 0) es = filter (geb k) es.
Proof.
  induction es as [|[key v] es IH]; intros k Hs; [reflexivity|].
  destruct (ssorted_cons_inv _ _ Hs) as [Hs' Hlt]. cbn [first_ge_from filter]. unfold geb at 1. cbn [fst].
  destruct (blt key k) eqn:Eb; cbn [negb].
  - rewrite first_ge_from_shift. cbn [Nat.add skipn]. apply IH, Hs'.
  - cbn [skipn]. f_equal. symmetry. apply filter_true_all. intros x Hx. apply geb_true.
    specialize (Hlt x Hx). cbn [fst] in Hlt. intros Hgt. apply bcmp_lt_gt in Hgt.
    pose proof (bcmp_lt_trans _ _ _ Hlt Hgt) as Hk. unfold blt in Eb. rewrite Hk in Eb. discriminate.
Qed.

(* entries before one that is below k are below k *)
Lemma filter_geb_skipn : forall n es k a, ssorted es -> nth_error es n = Some a -> bcmp (fst a) k = Lt ->
  filter (geb k) (skipn n es) = filter (geb k) es.
Proof.
  induction n as [|n IH]; intros es k a Hs Hn Ha; [reflexivity|].
  destruct es as [|x es]; [discriminate|]. cbn [nth_error] in Hn. cbn [skipn].
  destruct (ssorted_cons_inv _ _ Hs) as [Hs' Hlt]. rewrite (IH es k a Hs' Hn Ha). cbn [filter].
  assert (Hx : geb k x = false).
  { apply geb_false. eapply bcmp_lt_trans; [apply Hlt; eapply nth_error_In; exact Hn|exact Ha]. }
  rewrite Hx. reflexivity.
Qed.

(* ---- static part of the sources --------------------------------------------------------------------- *)
Definition stat (s : scur) : list entry * sbound * bool := (sc_es s, sc_bound s, sc_null s).

Lemma map_set_src_same {B} (f : scur -> B) : forall l i x, f x = f (get_src l i) -> map f (set_src l i x) = map f l.
Proof.
  induction l as [|h l IH]; intros i x H; [destruct i; reflexivity|]. destruct i.
  - cbn [set_src map]. unfold get_src in H. cbn [nth] in H. rewrite H. reflexivity.
  - cbn [set_src map]. f_equal. apply IH. exact H.
Qed.
Lemma set_src_twice : forall l i a b, set_src (set_src l i a) i b = set_src l i b.
Proof.
  induction l as [|h l IH]; intros i a b; [destruct i; reflexivity|]. destruct i; cbn [set_src]; [reflexivity|].
  f_equal. apply IH.
Qed.
Lemma get_src_map {B} (f : scur -> B) l i : f (get_src l i) = nth i (map f l) (f null_cur).
Proof. unfold get_src. symmetry. apply map_nth. Qed.
Lemma get_src_stat l l' i : map stat l' = map stat l -> stat (get_src l' i) = stat (get_src l i).
Proof. intros H. rewrite !get_src_map, H. reflexivity. Qed.
Lemma stat_es l l' : map stat l' = map stat l -> map sc_es l' = map sc_es l.
Proof.
  intros H. assert (E : forall x, map sc_es x = map (fun p => fst (fst p)) (map stat x)) by (intros x; rewrite map_map; reflexivity).
  rewrite !E, H. reflexivity.
Qed.

Lemma sc_next_stat s : stat (fst (sc_next s)) = stat s.
Proof.
  unfold sc_next. destruct (sc_null s) eqn:En; [reflexivity|]. cbn [orb]. destruct (negb (sc_valid s)); [reflexivity|].
  unfold stat. destruct (nth_error (sc_es s) (sc_pos s)) as [[k v]|]; [destruct (sbound_ok (sc_bound s) k)|]; cbn [fst sc_es sc_bound sc_null]; rewrite ?En; reflexivity.
Qed.
Lemma fill_stat srcs i : map stat (fst (fill srcs i)) = map stat srcs.
Proof.
  unfold fill. pose proof (sc_next_stat (get_src srcs i)) as H. destruct (sc_next (get_src srcs i)) as [s' e].
  cbn [fst] in *. apply map_set_src_same. exact H.
Qed.

(* a registered source *)
Definition reg_ok (srcs : list scur) (i : nat) : Prop :=
  i < length srcs /\ sc_null (get_src srcs i) = false /\ sc_bound (get_src srcs i) = BAll /\ ssorted (sc_es (get_src srcs i)).

Lemma reg_ok_stat srcs srcs' i : map stat srcs' = map stat srcs -> reg_ok srcs i -> reg_ok srcs' i.
Proof.
  intros H (Hlt & Hn & Hb & Hs). pose proof (get_src_stat srcs srcs' i H) as E. unfold stat in E. inversion E as [[E1 E2 E3]].
  unfold reg_ok. rewrite E1, E2, E3. repeat split; try assumption.
  rewrite <- (map_length stat srcs'), H, map_length. exact Hlt.
Qed.

(* ---- seek and first fill of one source ------------------------------------------------------------ *)
Definition seek_cur (s : scur) (k : bytes) : scur := mksc (sc_es s) (first_ge_from (sc_es s) k 0) true (sc_bound s) false.
Definition sf_res (s : scur) (k : bytes) : scur * option entry :=
  let p := first_ge_from (sc_es s) k 0 in
  match nth_error (sc_es s) p with
  | Some (k', v) => (mksc (sc_es s) (S p) true BAll false, Some (k', v))
  | None => (mksc (sc_es s) p false BAll false, None)
  end.

Lemma seek_fill_eq srcs i k : i < length srcs -> sc_null (get_src srcs i) = false -> sc_bound (get_src srcs i) = BAll ->
  sc_seek (get_src srcs i) k = (seek_cur (get_src srcs i) k, true) /\
  fill (set_src srcs i (seek_cur (get_src srcs i) k)) i =
    (set_src srcs i (fst (sf_res (get_src srcs i) k)), snd (sf_res (get_src srcs i) k)).
Proof.
  intros Hlt Hn Hb. split; [unfold sc_seek; rewrite Hn; reflexivity|].
  unfold fill. rewrite get_set_src_same by exact Hlt. unfold sc_next, seek_cur, sf_res.
  cbn [sc_null sc_valid sc_es sc_pos sc_bound orb negb]. rewrite Hb.
  destruct (nth_error (sc_es (get_src srcs i)) (first_ge_from (sc_es (get_src srcs i)) k 0)) as [[k' v]|];
    cbn [sbound_ok fst snd]; rewrite set_src_twice; reflexivity.
Qed.

Lemma sf_res_spec s k : ssorted (sc_es s) ->
  let '(s2, r) := sf_res s k in
  sc_es s2 = sc_es s /\ sc_null s2 = false /\ sc_bound s2 = BAll /\
  match r with
  | Some (k', v) => sc_valid s2 = true /\ 0 < sc_pos s2 /\ nth_error (sc_es s) (sc_pos s2 - 1) = Some (k', v) /\
                    (k', v) :: skipn (sc_pos s2) (sc_es s) = filter (geb k) (sc_es s)
  | None => filter (geb k) (sc_es s) = []
  end.
Proof.
  intros Hs. unfold sf_res. pose proof (skipn_first_ge (sc_es s) k Hs) as Hsk.
  destruct (nth_error (sc_es s) (first_ge_from (sc_es s) k 0)) as [[k' v]|] eqn:En; cbn [sc_es sc_null sc_bound sc_valid sc_pos].
  - repeat split; try reflexivity; [lia|replace (S (first_ge_from (sc_es s) k 0) - 1) with (first_ge_from (sc_es s) k 0) by lia; exact En|].
    rewrite <- Hsk. symmetry. apply skipn_nth_error, En.
  - repeat split; try reflexivity. rewrite <- Hsk. apply skipn_nth_error_none, En.
Qed.

(* ---- closed instances of the MergerProofs lemmas ---------------------------------------------------- *)
Local Notation inv := (inv hk).
Definition mf0 : bytes -> bytes -> bytes -> option bytes := fun _ _ _ => None.
Local Notation root_min := (root_min hk K_push K_pop K_replace K_min K_mark).

Lemma rem_app srcs h1 h2 : rem srcs (h1 ++ h2) = rem srcs h1 ++ rem srcs h2.
Proof. unfold rem. rewrite map_app, concat_app. reflexivity. Qed.
Lemma rem_cons srcs e h : rem srcs (e :: h) = chunk srcs e ++ rem srcs h.
Proof. reflexivity. Qed.
Lemma rem_perm srcs h1 h2 : Permutation h1 h2 -> Permutation (rem srcs h1) (rem srcs h2).
Proof. intros H. unfold rem. apply Permutation_concat_map, H. Qed.

Lemma stat_eq s s' : sc_es s' = sc_es s -> sc_null s' = sc_null s -> sc_bound s' = sc_bound s -> stat s' = stat s.
Proof. intros H1 H2 H3. unfold stat. rewrite H1, H2, H3. reflexivity. Qed.

(* the heap entry made from a successful seek + fill *)
Lemma ent_ok_new srcs i s2 k' v : i < length srcs -> sc_null s2 = false -> sc_bound s2 = BAll -> ssorted (sc_es s2) ->
  sc_valid s2 = true -> 0 < sc_pos s2 -> nth_error (sc_es s2) (sc_pos s2 - 1) = Some (k', v) ->
  ent_ok (set_src srcs i s2) (mkhe i k' v false).
Proof.
  intros Hlt Hn Hb Hs Hv Hp Hnth. unfold ent_ok. cbn [he_src he_fin he_key he_val].
  rewrite set_src_length, get_set_src_same by exact Hlt. repeat split; assumption.
Qed.

(* ---- the full re-seek ---------------------------------------------------------------------------------- *)
Lemma reseek_all_spec k : forall ids srcs heap,
  NoDup ids -> (forall i, In i ids -> reg_ok srcs i /\ ~ In i (map he_src heap)) ->
  Forall (ent_ok srcs) heap -> NoDup (map he_src heap) -> nofin heap ->
  let '(srcs', heap') := reseek_all srcs ids k heap in
  Forall (ent_ok srcs') heap' /\ NoDup (map he_src heap') /\ nofin heap' /\
  Permutation (rem srcs' heap') (rem srcs heap ++ filter (geb k) (concat (map (fun i => sc_es (get_src srcs i)) ids))) /\
  map stat srcs' = map stat srcs /\ length heap' <= length heap + length ids.
Proof.
  induction ids as [|i ids IH]; intros srcs heap Hnd Hids Hall Hndh Hnf.
  - cbn [reseek_all map concat filter]. rewrite app_nil_r. repeat split; try assumption; try reflexivity. cbn [length]. lia.
  - inversion Hnd as [|? ? Hni Hnd']; subst.
    destruct (Hids i (or_introl eq_refl)) as ((Hlt & Hn & Hb & Hs) & Hnh).
    cbn [reseek_all]. destruct (seek_fill_eq srcs i k Hlt Hn Hb) as [E1 E2]. rewrite E1. cbn [negb]. rewrite E2.
    pose proof (sf_res_spec (get_src srcs i) k Hs) as Hsf. destruct (sf_res (get_src srcs i) k) as [s2 r]. cbn [fst snd].
    destruct Hsf as (Hes & Hn2 & Hb2 & Hr).
    assert (Hst : map stat (set_src srcs i s2) = map stat srcs).
    { apply map_set_src_same, stat_eq; congruence. }
    assert (Hmap : map (fun j => sc_es (get_src (set_src srcs i s2) j)) ids = map (fun j => sc_es (get_src srcs j)) ids).
    { apply map_ext_in. intros j Hj. rewrite get_set_src_other; [reflexivity|]. intros ->. contradiction. }
    cbn [map concat]. rewrite filter_app.
    destruct r as [[k' v]|].
    + destruct Hr as (Hv & Hp & Hnth & Hchunk). set (new := mkhe i k' v false).
      assert (Hperm : Permutation (heap ++ [new]) (new :: heap)) by (apply Permutation_sym, Permutation_cons_append).
      assert (Hids1 : forall j, In j ids -> reg_ok (set_src srcs i s2) j /\ ~ In j (map he_src (heap ++ [new]))).
      { intros j Hj. destruct (Hids j (or_intror Hj)) as [Hr1 Hr2]. split; [exact (reg_ok_stat _ _ j Hst Hr1)|].
        rewrite map_app. intros Hin. apply in_app_or in Hin. destruct Hin as [Hin|[Hin|[]]]; [contradiction|].
        cbn [he_src new] in Hin. subst j. contradiction. }
      assert (Hall1 : Forall (ent_ok (set_src srcs i s2)) (heap ++ [new])).
      { apply Forall_app. split; [apply Forall_ent_ok_other; assumption|]. constructor; [|constructor].
        apply ent_ok_new; try assumption; rewrite Hes; assumption. }
      assert (Hndh1 : NoDup (map he_src (heap ++ [new]))).
      { eapply Permutation_NoDup; [apply Permutation_map, Permutation_sym, Hperm|]. cbn [map he_src new]. constructor; assumption. }
      assert (Hnf1 : nofin (heap ++ [new])).
      { intros e He. apply in_app_or in He. destruct He as [He|[<-|[]]]; [apply Hnf, He|reflexivity]. }
      specialize (IH (set_src srcs i s2) (heap ++ [new]) Hnd' Hids1 Hall1 Hndh1 Hnf1).
      destruct (reseek_all (set_src srcs i s2) ids k (heap ++ [new])) as [srcs' heap'].
      destruct IH as (Hall' & Hnd'' & Hnf' & HpermR & Hst' & Hlen). repeat split; try assumption.
      * eapply Permutation_trans; [exact HpermR|]. rewrite Hmap, rem_app, rem_other by exact Hnh.
        rewrite <- app_assoc. apply Permutation_app_head. apply Permutation_app_tail.
        unfold rem. cbn [map concat]. rewrite app_nil_r. unfold chunk. cbn [he_fin he_src he_key he_val new].
        rewrite get_set_src_same by exact Hlt. rewrite Hes, Hchunk. reflexivity.
      * congruence.
      * rewrite app_length in Hlen. cbn [length] in *. lia.
    + specialize (IH (set_src srcs i s2) heap Hnd').
      assert (Hids1 : forall j, In j ids -> reg_ok (set_src srcs i s2) j /\ ~ In j (map he_src heap)).
      { intros j Hj. destruct (Hids j (or_intror Hj)) as [Hr1 Hr2]. split; [exact (reg_ok_stat _ _ j Hst Hr1)|exact Hr2]. }
      specialize (IH Hids1 (Forall_ent_ok_other _ _ _ _ Hnh Hall) Hndh Hnf).
      destruct (reseek_all (set_src srcs i s2) ids k heap) as [srcs' heap'].
      destruct IH as (Hall' & Hnd'' & Hnf' & HpermR & Hst' & Hlen). repeat split; try assumption.
      * eapply Permutation_trans; [exact HpermR|]. rewrite Hmap, rem_other by exact Hnh. rewrite Hr. reflexivity.
      * congruence.
      * cbn [length]. lia.
Qed.

Lemma inv_perm srcs h h' : hk h' -> Permutation h' h -> Forall (ent_ok srcs) h -> NoDup (map he_src h) -> nofin h ->
  inv srcs h' /\ nofin h'.
Proof.
  intros Hok Hperm Hall Hnd Hnf.
  assert (Hnf' : nofin h') by (intros e He; apply Hnf; eapply Permutation_in; [exact Hperm|exact He]).
  split; [|exact Hnf']. unfold MergerProofs.inv. split; [exact Hok|]. split; [|split].
  - eapply Permutation_Forall; [apply Permutation_sym, Hperm|exact Hall].
  - eapply Permutation_NoDup; [apply Permutation_map, Permutation_sym, Hperm|exact Hnd].
  - intros e He. apply Hnf'. destruct h'; [contradiction|right; exact He].
Qed.

Definition below (key : bytes) (e : hent) : bool := blt (he_key e) key.

(* ---- the forward seek ---------------------------------------------------------------------------------- *)
Definition fwd_post (key : bytes) (srcs : list scur) (heap : list hent) (changed finished : bool)
  (res : list scur * list hent * bool * bool) : Prop :=
  let '(srcs', heap', ch', fin') := res in
  inv srcs' heap' /\ nofin heap' /\ Permutation (rem srcs' heap') (filter (geb key) (rem srcs heap)) /\
  map stat srcs' = map stat srcs /\ length heap' <= length heap /\ incl (map he_src heap') (map he_src heap) /\
  (fin' = true -> heap' = [] \/ finished = true) /\
  (ch' = false -> changed = false /\ srcs' = srcs /\ heap' = heap) /\ (changed = true -> ch' = true).

Lemma fwd_post_stop key srcs heap changed finished : inv srcs heap -> nofin heap ->
  (forall x, In x (rem srcs heap) -> bcmp key (fst x) <> Gt) ->
  fwd_post key srcs heap changed finished (srcs, heap, changed, finished).
Proof.
  intros Hinv Hnf Hge. unfold fwd_post. split; [exact Hinv|]. split; [exact Hnf|]. split.
  { rewrite filter_true_all; [reflexivity|]. intros x Hx. apply geb_true, Hge, Hx. }
  split; [reflexivity|]. split; [lia|]. split; [apply incl_refl|]. split; [intros H; right; exact H|]. split; [|intros H; exact H].
  intros H. split; [exact H|]. split; reflexivity.
Qed.

Lemma fwd_post_step key srcs heap srcs2 heap2 changed finished res :
  fwd_post key srcs2 heap2 true finished res ->
  Permutation (filter (geb key) (rem srcs2 heap2)) (filter (geb key) (rem srcs heap)) ->
  map stat srcs2 = map stat srcs -> length heap2 <= length heap -> incl (map he_src heap2) (map he_src heap) ->
  fwd_post key srcs heap changed finished res.
Proof.
  destruct res as [[[srcs' heap'] ch'] fin']. unfold fwd_post.
  intros (Hinv' & Hnf' & HpermR & Hst' & Hlen' & Hincl' & Hfin' & Hch' & Hch2) Hp Hst Hlen Hincl.
  split; [exact Hinv'|]. split; [exact Hnf'|]. split; [eapply Permutation_trans; [exact HpermR|exact Hp]|].
  split; [congruence|]. split; [lia|]. split; [eapply incl_tran; eassumption|]. split; [exact Hfin'|]. split.
  - intros H. destruct (Hch' H) as [H0 _]. discriminate.
  - intros _. apply Hch2. reflexivity.
Qed.

Lemma forward_loop_spec key : forall fuel srcs heap changed finished,
  inv srcs heap -> nofin heap -> length (filter (below key) heap) < fuel ->
  fwd_post key srcs heap changed finished (forward_loop None fuel srcs heap key changed finished).
Proof.
  induction fuel as [|fuel IH]; intros srcs heap changed finished Hinv Hnf Hfuel; [lia|].
  cbn [forward_loop]. destruct heap as [|r t].
  { apply fwd_post_stop; [exact Hinv|exact Hnf|intros x []]. }
  assert (Hstop : bcmp key (he_key r) <> Gt -> fwd_post key srcs (r :: t) changed finished (srcs, r :: t, changed, finished)).
  { intros Hle. apply fwd_post_stop; [exact Hinv|exact Hnf|]. intros x Hx.
    eapply bcmp_le_trans; [exact Hle|]. exact (root_min srcs r t x Hinv Hnf Hx). }
  destruct (bcmp key (he_key r)) eqn:Ec; [apply Hstop; discriminate|apply Hstop; discriminate|]. clear Hstop.
  assert (Hrlt : bcmp (he_key r) key = Lt) by (apply bcmp_lt_gt; exact Ec).
  destruct Hinv as (Hok & Hall & Hnd & Htl). inversion Hall as [|? ? Hr Ht]; subst. inversion Hnd as [|? ? Hni Hnd']; subst.
  pose proof (Hnf r (or_introl eq_refl)) as Hrf. destruct Hr as (Hlt & Hn & Hb & Hs & Hv). destruct (Hv Hrf) as (Hval & Hpos & Hnth).
  assert (Hnft : nofin t) by (intros e He; apply Hnf; right; exact He).
  destruct (seek_fill_eq srcs (he_src r) key Hlt Hn Hb) as [E1 E2]. rewrite E1, E2.
  pose proof (sf_res_spec (get_src srcs (he_src r)) key Hs) as Hsf.
  set (s := get_src srcs (he_src r)) in *. destruct (sf_res s key) as [s2 r'].
  cbn [fst snd]. destruct Hsf as (Hes & Hn2 & Hb2 & Hr).
  assert (Hst : map stat (set_src srcs (he_src r) s2) = map stat srcs).
  { apply map_set_src_same, stat_eq; fold s; congruence. }
  assert (Hbelow : filter (below key) (r :: t) = r :: filter (below key) t).
  { cbn [filter]. unfold below at 1, blt. rewrite Hrlt. reflexivity. }
  assert (Hrem : filter (geb key) (rem srcs (r :: t)) = filter (geb key) (sc_es s) ++ filter (geb key) (rem srcs t)).
  { rewrite rem_cons, filter_app. f_equal. unfold chunk. rewrite Hrf. fold s.
    assert (Hsk : (he_key r, he_val r) :: skipn (sc_pos s) (sc_es s) = skipn (sc_pos s - 1) (sc_es s)).
    { rewrite (skipn_nth_error _ _ _ Hnth). replace (S (sc_pos s - 1)) with (sc_pos s) by lia. reflexivity. }
    rewrite Hsk. exact (filter_geb_skipn (sc_pos s - 1) (sc_es s) key (he_key r, he_val r) Hs Hnth Hrlt). }
  rewrite Hbelow in Hfuel. cbn [length] in Hfuel.
  destruct r' as [[k' v]|].
  - (* the source has an entry at or after the target *)
    destruct Hr as (Hv2 & Hp2 & Hnth2 & Hchunk). set (new := mkhe (he_src r) k' v false).
    destruct (K_replace r t new Hok) as [Hok' Hperm].
    assert (Hall1 : Forall (ent_ok (set_src srcs (he_src r) s2)) (new :: t)).
    { constructor; [|apply Forall_ent_ok_other; assumption]. apply ent_ok_new; try assumption; rewrite Hes; assumption. }
    assert (Hnd1 : NoDup (map he_src (new :: t))) by (cbn [map he_src new]; constructor; assumption).
    assert (Hnf1 : nofin (new :: t)) by (intros e [<-|He]; [reflexivity|apply Hnft, He]).
    destruct (inv_perm _ _ _ Hok' Hperm Hall1 Hnd1 Hnf1) as [Hinv2 Hnf2].
    assert (Hnewge : below key new = false).
    { assert (Hin : In (k', v) (filter (geb key) (sc_es s))) by (rewrite <- Hchunk; left; reflexivity).
      apply filter_In in Hin. destruct Hin as [_ Hg]. unfold geb in Hg. cbn [fst] in Hg. unfold below. cbn [he_key new].
      destruct (blt k' key); [discriminate|reflexivity]. }
    assert (Hfuel2 : length (filter (below key) (heap_replace hent (mcmp None) dummy_he (r :: t) new)) < fuel).
    { rewrite (Permutation_length (Permutation_filter (below key) _ _ Hperm)). cbn [filter]. rewrite Hnewge. lia. }
    specialize (IH (set_src srcs (he_src r) s2) _ true finished Hinv2 Hnf2 Hfuel2).
    eapply fwd_post_step; [exact IH| |exact Hst|rewrite (Permutation_length Hperm); cbn [length]; lia|].
    2:{ intros x Hx. exact (Permutation_in _ (Permutation_map he_src Hperm) Hx). }
    rewrite Hrem. eapply Permutation_trans; [apply Permutation_filter, rem_perm, Hperm|].
    rewrite rem_cons, filter_app, rem_other by exact Hni. apply Permutation_app_tail.
    unfold chunk. cbn [he_fin he_src he_key he_val new]. rewrite get_set_src_same by exact Hlt.
    rewrite Hes, Hchunk, filter_idem. reflexivity.
  - (* the source is exhausted: its entry leaves the heap *)
    destruct (K_pop r t Hok) as [Hok' Hperm].
    destruct (inv_perm (set_src srcs (he_src r) s2) _ _ Hok' Hperm (Forall_ent_ok_other _ _ _ _ Hni Ht) Hnd' Hnft) as [Hinv2 Hnf2].
    assert (Hrem2 : Permutation (rem (set_src srcs (he_src r) s2) (heap_pop hent (mcmp None) dummy_he (r :: t)))
                      (filter (geb key) (rem srcs t)) ->
                    Permutation (rem (set_src srcs (he_src r) s2) (heap_pop hent (mcmp None) dummy_he (r :: t)))
                      (filter (geb key) (rem srcs (r :: t)))).
    { intros H. rewrite Hrem, Hr. exact H. }
    destruct (heap_pop hent (mcmp None) dummy_he (r :: t)) as [|r1 t1] eqn:Ep.
    + apply Permutation_nil in Hperm. subst t. unfold fwd_post.
      split; [exact Hinv2|]. split; [exact Hnf2|]. split; [apply Hrem2; reflexivity|]. split; [exact Hst|].
      split; [cbn [length]; lia|]. split; [intros x []|]. split; [intros _; left; reflexivity|]. split; [discriminate|reflexivity].
    + assert (Hfuel2 : length (filter (below key) (r1 :: t1)) < fuel).
      { rewrite (Permutation_length (Permutation_filter (below key) _ _ Hperm)). lia. }
      specialize (IH (set_src srcs (he_src r) s2) (r1 :: t1) true finished Hinv2 Hnf2 Hfuel2).
      eapply fwd_post_step; [exact IH| |exact Hst|rewrite (Permutation_length Hperm); cbn [length]; lia|].
      2:{ intros x Hx. right. exact (Permutation_in _ (Permutation_map he_src Hperm) Hx). }
      rewrite Hrem, Hr. cbn [app]. eapply Permutation_trans; [apply Permutation_filter, rem_perm, Hperm|].
      rewrite rem_other by exact Hni. reflexivity.
Qed.

(* ---- what merger_next leaves alone ---------------------------------------------------------------- *)
Lemma refill_root_stat srcs heap : map stat (fst (refill_root None srcs heap)) = map stat srcs.
Proof.
  unfold refill_root. destruct heap as [|e t]; [reflexivity|].
  pose proof (fill_stat srcs (he_src e)) as H. destruct (fill srcs (he_src e)) as [srcs' r].
  destruct r as [[k v]|]; exact H.
Qed.

Lemma next_loop_frame mfo : forall fuel it,
  let '(it', ok) := next_loop mfo None fuel it in
  mi_entries it' = mi_entries it /\ map stat (mi_srcs it') = map stat (mi_srcs it) /\
  (mi_pending it = true -> mi_pending it' = true) /\
  (mi_pending it' = false -> mi_cur_key it' = mi_cur_key it) /\
  (ok = false -> mi_pending it' = true).
Proof.
  induction fuel as [|fuel IH]; intros it; cbn [next_loop].
  { repeat split; try reflexivity; try discriminate. intros H; exact H. }
  destruct (pop_finished None (S (length (mi_heap it))) (mi_heap it)) as [|e t].
  { cbn [mi_entries mi_srcs mi_pending mi_cur_key]. repeat split; try reflexivity; try discriminate. intros H; exact H. }
  assert (Hrec : forall ck cv, let '(srcs', heap') := refill_root None (mi_srcs it) (e :: t) in
            let '(it', ok) := next_loop mfo None fuel (mkmi srcs' heap' (mi_entries it) ck cv (mi_finished it) true) in
            mi_entries it' = mi_entries it /\ map stat (mi_srcs it') = map stat (mi_srcs it) /\
            (mi_pending it = true -> mi_pending it' = true) /\
            (mi_pending it' = false -> mi_cur_key it' = mi_cur_key it) /\
            (ok = false -> mi_pending it' = true)).
  { intros ck cv. pose proof (refill_root_stat (mi_srcs it) (e :: t)) as Hst.
    destruct (refill_root None (mi_srcs it) (e :: t)) as [srcs' heap']. cbn [fst] in Hst.
    specialize (IH (mkmi srcs' heap' (mi_entries it) ck cv (mi_finished it) true)).
    destruct (next_loop mfo None fuel (mkmi srcs' heap' (mi_entries it) ck cv (mi_finished it) true)) as [it' ok].
    cbn [mi_entries mi_srcs mi_pending mi_cur_key] in IH. destruct IH as (H1 & H2 & H3 & H4 & H5).
    split; [exact H1|]. split; [congruence|]. split; [intros _; apply H3; reflexivity|]. split; [|exact H5].
    intros H. rewrite (H3 eq_refl) in H. discriminate. }
  destruct (mi_pending it) eqn:Ep; cbn [negb].
  - destruct mfo as [mf|].
    + destruct (beq (mi_cur_key it) (he_key e)).
      * destruct (mf (mi_cur_key it) (mi_cur_val it) (he_val e)) as [merged|].
        -- pose proof (Hrec (mi_cur_key it) merged) as H. destruct (refill_root None (mi_srcs it) (e :: t)) as [srcs' heap']. exact H.
        -- cbn [mi_entries mi_srcs mi_pending mi_cur_key]. repeat split; try reflexivity; try discriminate.
      * cbn [mi_entries mi_srcs mi_pending mi_cur_key]. repeat split; try reflexivity; try discriminate.
    + cbn [mi_entries mi_srcs mi_pending mi_cur_key]. repeat split; try reflexivity; try discriminate.
  - pose proof (Hrec (he_key e) (he_val e)) as H. destruct (refill_root None (mi_srcs it) (e :: t)) as [srcs' heap']. exact H.
Qed.

Lemma merger_next_frame mf it :
  let '(it', r) := merger_next (Some mf) None it in
  mi_entries it' = mi_entries it /\ map stat (mi_srcs it') = map stat (mi_srcs it) /\
  match r with
  | Some (k, v) => mi_cur_key it' = k
  | None => mi_pending it' = false -> it' = it \/ mi_cur_key it' = []
  end.
Proof.
  unfold merger_next. destruct (mi_finished it) eqn:Ef.
  { split; [reflexivity|]. split; [reflexivity|]. intros _. left. reflexivity. }
  set (it0 := mkmi (mi_srcs it) (mi_heap it) (mi_entries it) [] [] false false).
  pose proof (next_loop_frame (Some mf) (S (S (total_remaining it + 2 * length (mi_srcs it)))) it0) as H.
  destruct (next_loop (Some mf) None (S (S (total_remaining it + 2 * length (mi_srcs it)))) it0) as [it1 ok].
  cbn [it0 mi_entries mi_srcs mi_pending mi_cur_key] in H. destruct H as (H1 & H2 & H3 & H4 & H5).
  destruct ok; cbn [negb].
  - destruct (mi_pending it1) eqn:Ep.
    + cbn [mi_entries mi_srcs mi_cur_key]. split; [exact H1|]. split; [exact H2|reflexivity].
    + split; [exact H1|]. split; [exact H2|]. intros _. right. apply H4. reflexivity.
  - split; [exact H1|]. split; [exact H2|]. intros Hp. rewrite (H5 eq_refl) in Hp. discriminate.
Qed.

(* ---- the sources of the heap entries ---------------------------------------------------------------- *)
Lemma reseek_all_srcs k : forall ids srcs heap,
  forall e, In e (snd (reseek_all srcs ids k heap)) -> In e heap \/ In (he_src e) ids.
Proof.
  induction ids as [|i ids IH]; intros srcs heap e; cbn [reseek_all]; [intros H; left; exact H|].
  destruct (sc_seek (get_src srcs i) k) as [s1 ok]. destruct (negb ok).
  { intros H. destruct (IH _ _ e H) as [H0|H0]; [left; exact H0|right; right; exact H0]. }
  destruct (fill (set_src srcs i s1) i) as [srcs2 [[k' v]|]]; intros H; destruct (IH _ _ e H) as [H0|H0].
  - apply in_app_or in H0. destruct H0 as [H0|[<-|[]]]; [left; exact H0|right; left; reflexivity].
  - right. right. exact H0.
  - left. exact H0.
  - right. right. exact H0.
Qed.

Lemma add_entries_srcs : forall ids srcs heap ents, hk heap -> (forall e, In e heap -> In (he_src e) ents) ->
  let '(srcs', heap', ents') := add_entries None srcs ids heap ents in
  forall e, In e heap' -> In (he_src e) ents'.
Proof.
  induction ids as [|i ids IH]; intros srcs heap ents Hok Hin; cbn [add_entries]; [exact Hin|].
  destruct (fill srcs i) as [srcs1 [[k v]|]]; [|apply IH; assumption].
  destruct (K_push heap (mkhe i k v false) Hok) as [Hok' Hperm]. apply IH; [exact Hok'|].
  intros e He. apply (Permutation_in _ Hperm) in He. apply in_or_app. destruct He as [<-|He]; [right; left; reflexivity|left; apply Hin, He].
Qed.

Lemma pop_finished_incl : forall n heap, hk heap -> incl (pop_finished None n heap) heap.
Proof.
  induction n as [|n IH]; intros heap Hok; cbn [pop_finished]; [apply incl_refl|].
  destruct heap as [|r t]; [apply incl_refl|]. destruct (he_fin r); [|apply incl_refl].
  destruct (K_pop r t Hok) as [Hok' Hperm]. intros x Hx. right. apply (Permutation_in _ Hperm). exact (IH _ Hok' x Hx).
Qed.

Lemma refill_root_incl srcs e t : hk (e :: t) ->
  incl (map he_src (snd (refill_root None srcs (e :: t)))) (map he_src (e :: t)).
Proof.
  intros Hok. cbn [refill_root]. destruct (fill srcs (he_src e)) as [srcs1 [[k v]|]]; cbn [snd].
  - destruct (K_replace e t (mkhe (he_src e) k v false) Hok) as [_ Hperm]. intros x Hx.
    exact (Permutation_in _ (Permutation_map he_src Hperm) Hx).
  - cbn [set_nth map he_src]. apply incl_refl.
Qed.

Lemma next_loop_srcs mf : forall f it, inv (mi_srcs it) (mi_heap it) ->
  incl (map he_src (mi_heap (fst (next_loop (Some mf) None f it)))) (map he_src (mi_heap it)).
Proof.
  induction f as [|f IH]; intros it Hinv; cbn [next_loop]; [apply incl_refl|].
  destruct (pop_finished_spec hk K_push K_pop K_replace K_min K_mark (mi_srcs it) (mi_heap it) (length (mi_heap it)) Hinv)
    as (Hinv1 & Hnf1 & _ & _).
  pose proof (pop_finished_incl (S (length (mi_heap it))) (mi_heap it) (proj1 Hinv)) as Hincl1.
  set (heap1 := pop_finished None (S (length (mi_heap it))) (mi_heap it)) in *.
  assert (Hincl1' : incl (map he_src heap1) (map he_src (mi_heap it))).
  { intros x Hx. apply in_map_iff in Hx. destruct Hx as (e & <- & He). apply in_map, Hincl1, He. }
  destruct heap1 as [|e t] eqn:Eh; [cbn [fst mi_heap map]; intros x []|].
  assert (Hrec : forall ck cv,
            incl (map he_src (mi_heap (fst (let '(srcs', heap') := refill_root None (mi_srcs it) (e :: t) in
                   next_loop (Some mf) None f (mkmi srcs' heap' (mi_entries it) ck cv (mi_finished it) true)))))
                 (map he_src (mi_heap it))).
  { intros ck cv. pose proof (refill_root_spec mf hk K_push K_pop K_replace K_min K_mark (mi_srcs it) e t Hinv1 Hnf1) as Hrf.
    pose proof (refill_root_incl (mi_srcs it) e t (proj1 Hinv1)) as Hri.
    destruct (refill_root None (mi_srcs it) (e :: t)) as [srcs' heap']. destruct Hrf as (Hinv2 & _). cbn [snd] in Hri.
    eapply incl_tran; [apply IH; exact Hinv2|]. cbn [mi_heap]. eapply incl_tran; eassumption. }
  destruct (negb (mi_pending it)); [apply Hrec|].
  destruct (beq (mi_cur_key it) (he_key e)); [|exact Hincl1'].
  destruct (mf (mi_cur_key it) (mi_cur_val it) (he_val e)); [apply Hrec|exact Hincl1'].
Qed.

Lemma merger_next_srcs mf it : api it ->
  incl (map he_src (mi_heap (fst (merger_next (Some mf) None it)))) (map he_src (mi_heap it)).
Proof.
  intros (Hinv & _). unfold merger_next. destruct (mi_finished it); [apply incl_refl|].
  set (it0 := mkmi (mi_srcs it) (mi_heap it) (mi_entries it) [] [] false false).
  pose proof (next_loop_srcs mf (S (S (total_remaining it + 2 * length (mi_srcs it)))) it0 Hinv) as H.
  destruct (next_loop (Some mf) None (S (S (total_remaining it + 2 * length (mi_srcs it)))) it0) as [it1 ok].
  cbn [fst it0 mi_heap] in H. destruct ok; cbn [negb]; [|exact H]. destruct (mi_pending it1); exact H.
Qed.

Lemma hsrc_incl (h h' : list hent) (ents : list nat) :
  incl (map he_src h') (map he_src h) -> (forall e, In e h -> In (he_src e) ents) -> forall e, In e h' -> In (he_src e) ents.
Proof.
  intros Hi Hh e He. assert (Hin : In (he_src e) (map he_src h)) by (apply Hi, in_map, He).
  apply in_map_iff in Hin. destruct Hin as (e0 & <- & He0). apply Hh, He0.
Qed.

(* ---- the strengthened invariant ------------------------------------------------------------------- *)
Definition all_of (srcs : list scur) (ents : list nat) : list entry := concat (map sc_es (map (get_src srcs) ents)).
(* the registered sources and the multiset of all their entries *)
Definition regs (it : miter) : list scur := map (get_src (mi_srcs it)) (mi_entries it).
Definition allof (it : miter) : list entry := concat (map sc_es (regs it)).

(* upward closed sets of keys *)
Definition up (P : bytes -> bool) : Prop := forall a b, P a = true -> bcmp a b <> Gt -> P b = true.

Definition sinv (it : miter) : Prop :=
  api it /\ NoDup (mi_entries it) /\ (forall i, In i (mi_entries it) -> reg_ok (mi_srcs it) i) /\
  (forall e, In e (mi_heap it) -> In (he_src e) (mi_entries it)) /\
  exists P, up P /\ Permutation (remaining it) (filter (fun e => P (fst e)) (allof it)) /\
    ((len (mi_cur_key it) =? 0)%N = false ->
     forall e, In e (allof it) -> bcmp (fst e) (mi_cur_key it) = Gt -> P (fst e) = true).

Lemma all_of_eq srcs srcs' ents : map sc_es srcs' = map sc_es srcs -> all_of srcs' ents = all_of srcs ents.
Proof.
  intros H. unfold all_of. rewrite !map_map. f_equal. apply map_ext. intros i. rewrite !(get_src_map sc_es), H. reflexivity.
Qed.
Lemma allof_eq it it' : mi_entries it' = mi_entries it -> map sc_es (mi_srcs it') = map sc_es (mi_srcs it) -> allof it' = allof it.
Proof. intros He Hs. unfold allof, regs. rewrite He. exact (all_of_eq _ _ _ Hs). Qed.

Lemma up_geb k : up (fun x => negb (blt x k)).
Proof.
  intros a b Ha Hab. apply (geb_true k (b, [])). cbn [fst]. apply (geb_true k (a, [])) in Ha. cbn [fst] in Ha.
  eapply bcmp_le_trans; eassumption.
Qed.
Lemma up_gtb k : up (fun x => blt k x).
Proof.
  intros a b Ha Hab. apply (gtb_true k (b, [])). cbn [fst]. apply (gtb_true k (a, [])) in Ha. cbn [fst] in Ha.
  eapply bcmp_lt_le_trans; eassumption.
Qed.

(* ---- merger_next keeps the invariant -------------------------------------------------------------- *)
Theorem merger_next_sinv mf it : sinv it ->
  match merger_next (Some mf) None it with
  | (it', Some (k, v)) =>
    sinv it' /\ mi_cur_key it' = k /\ allof it' = allof it /\ mi_entries it' = mi_entries it /\
    map stat (mi_srcs it') = map stat (mi_srcs it) /\
    Permutation (remaining it') (filter (fun e => blt k (fst e)) (allof it)) /\
    (exists first rest, Permutation ((k, first) :: map (pair k) rest ++ remaining it') (remaining it) /\
                        fold_merge mf k first rest = Some v) /\
    (forall x, In x (remaining it) -> bcmp k (fst x) <> Gt)
  | (it', None) =>
    (remaining it = [] /\ sinv it' /\ remaining it' = [] /\ allof it' = allof it /\ mi_entries it' = mi_entries it /\
     map stat (mi_srcs it') = map stat (mi_srcs it)) \/
    (exists k first rest v0 others,
       Permutation ((k, first) :: map (pair k) rest ++ (k, v0) :: others) (remaining it) /\
       (forall x, In x others -> bcmp k (fst x) <> Gt) /\
       fold_merge mf k first (rest ++ [v0]) = None)
  end.
Proof.
  intros (Hapi & Hnd & Hreg & Hhs & P & Hup & HP & Hck).
  pose proof (merger_next_closed mf it Hapi) as Hstep. pose proof (merger_next_frame mf it) as Hfr.
  pose proof (merger_next_srcs mf it Hapi) as Hsrc.
  destruct (merger_next (Some mf) None it) as [it' r]. cbn [fst] in Hsrc. destruct r as [[k v]|].
  - destruct Hstep as (first & rest & Hperm & Hfold & Hgt & Hapi' & Hes). destruct Hfr as (Hents & Hst & Hk).
    assert (Hall : allof it' = allof it) by (apply allof_eq; assumption).
    assert (Hmin : forall x, In x (remaining it) -> bcmp k (fst x) <> Gt).
    { intros x Hx. apply (Permutation_in _ (Permutation_sym Hperm)) in Hx. destruct Hx as [<-|Hx].
      - cbn [fst]. rewrite bcmp_refl. discriminate.
      - apply in_app_or in Hx. destruct Hx as [Hx|Hx].
        + apply in_map_iff in Hx. destruct Hx as (w & <- & _). cbn [fst]. rewrite bcmp_refl. discriminate.
        + rewrite (Hgt x Hx). discriminate. }
    assert (HPk : P k = true).
    { assert (Hin : In (k, first) (filter (fun e => P (fst e)) (allof it))).
      { eapply Permutation_in; [exact HP|]. eapply Permutation_in; [exact Hperm|]. left. reflexivity. }
      apply filter_In in Hin. exact (proj2 Hin). }
    assert (Hrem' : Permutation (remaining it') (filter (fun e => blt k (fst e)) (allof it))).
    { assert (E1 : filter (gtb k) ((k, first) :: map (pair k) rest ++ remaining it') = remaining it').
      { change ((k, first) :: map (pair k) rest ++ remaining it') with (map (pair k) (first :: rest) ++ remaining it').
        rewrite filter_app, filter_false_all, filter_true_all; [reflexivity| |].
        - intros x Hx. apply gtb_true, Hgt, Hx.
        - intros x Hx. apply in_map_iff in Hx. destruct Hx as (w & <- & _). unfold gtb, blt. cbn [fst]. rewrite bcmp_refl. reflexivity. }
      rewrite <- E1. eapply Permutation_trans; [apply Permutation_filter, Hperm|].
      eapply Permutation_trans; [apply Permutation_filter, HP|].
      rewrite filter_filter_in; [reflexivity|]. intros x _ Hx. apply gtb_true in Hx.
      apply (Hup k (fst x) HPk). rewrite Hx. discriminate. }
    split; [|split; [exact Hk|split; [exact Hall|split; [exact Hents|split; [exact Hst|split; [exact Hrem'|split; [|exact Hmin]]]]]]].
    + split; [exact Hapi'|]. split; [rewrite Hents; exact Hnd|]. split; [|split; [rewrite Hents; exact (hsrc_incl _ _ _ Hsrc Hhs)|]].
      * intros i Hi. rewrite Hents in Hi. exact (reg_ok_stat _ _ i Hst (Hreg i Hi)).
      * exists (fun x => blt k x). split; [apply up_gtb|]. rewrite Hall. split; [exact Hrem'|].
        intros _ e _ He. rewrite Hk in He. apply bcmp_lt_gt in He. unfold blt. rewrite He. reflexivity.
    + exists first, rest. split; assumption.
  - destruct Hstep as [(Hnil & Hapi' & Hnil')|Hfail]; [left|right; exact Hfail].
    destruct Hfr as (Hents & Hst & Hk).
    assert (Hall : allof it' = allof it) by (apply allof_eq; [exact Hents|apply stat_es, Hst]).
    split; [exact Hnil|]. split; [|split; [exact Hnil'|split; [exact Hall|split; [exact Hents|exact Hst]]]].
    split; [exact Hapi'|]. split; [rewrite Hents; exact Hnd|]. split; [|split; [rewrite Hents; exact (hsrc_incl _ _ _ Hsrc Hhs)|]].
    + intros i Hi. rewrite Hents in Hi. exact (reg_ok_stat _ _ i Hst (Hreg i Hi)).
    + exists P. split; [exact Hup|]. rewrite Hall, Hnil'. rewrite Hnil in HP. split; [exact HP|].
      destruct Hapi' as (_ & _ & Hpend & _). destruct (Hk Hpend) as [->|Hc]; [exact Hck|].
      rewrite Hc. cbn. discriminate.
Qed.

(* ---- sizes ------------------------------------------------------------------------------------------- *)
Lemma filter_len_le {A} (f : A -> bool) l : length (filter f l) <= length l.
Proof. induction l as [|a l IH]; [cbn; lia|]. cbn [filter]. destruct (f a); cbn [length]; lia. Qed.

Lemma NoDup_incl_split {A} : forall (l l' : list A), NoDup l -> incl l l' -> exists r, Permutation l' (l ++ r).
Proof.
  induction l as [|a l IH]; intros l' Hnd Hincl; [exists l'; reflexivity|].
  inversion Hnd as [|? ? Hni Hnd']; subst.
  destruct (in_split a l' (Hincl a (or_introl eq_refl))) as (l1 & l2 & ->).
  destruct (IH (l1 ++ l2) Hnd') as [r Hr].
  - intros x Hx. assert (Hin : In x (l1 ++ a :: l2)) by (apply Hincl; right; exact Hx).
    apply in_app_or in Hin. apply in_or_app. destruct Hin as [Hin|[<-|Hin]]; [left; exact Hin|contradiction|right; exact Hin].
  - exists r. eapply Permutation_trans; [apply Permutation_sym, Permutation_middle|]. cbn [app]. apply perm_skip, Hr.
Qed.

Lemma all_of_length srcs ents : NoDup ents -> (forall i, In i ents -> i < length srcs) ->
  length (all_of srcs ents) <= total_es srcs /\ length ents <= length srcs.
Proof.
  intros Hnd Hlt.
  assert (Hincl : incl ents (seq 0 (length srcs))) by (intros i Hi; apply in_seq; specialize (Hlt i Hi); lia).
  destruct (NoDup_incl_split ents _ Hnd Hincl) as [r Hr]. split.
  - rewrite <- length_concat_es, <- (map_nth_seq' sc_es srcs).
    rewrite (Permutation_length (Permutation_concat_map (fun i => sc_es (get_src srcs i)) _ _ Hr)).
    rewrite map_app, concat_app, app_length. unfold all_of. rewrite map_map. lia.
  - pose proof (Permutation_length Hr) as L. rewrite seq_length, app_length in L. lia.
Qed.

Lemma sinv_mk srcs heap ents ck cv fin (P : bytes -> bool) :
  inv srcs heap -> nofin heap -> (fin = true -> heap = []) ->
  length (rem srcs heap) + length heap <= total_es srcs + 2 * length srcs ->
  NoDup ents -> (forall i, In i ents -> reg_ok srcs i) -> (forall e, In e heap -> In (he_src e) ents) -> up P ->
  Permutation (rem srcs heap) (filter (fun e => P (fst e)) (all_of srcs ents)) ->
  ((len ck =? 0)%N = false -> forall e, In e (all_of srcs ents) -> bcmp (fst e) ck = Gt -> P (fst e) = true) ->
  sinv (mkmi srcs heap ents ck cv fin false).
Proof.
  intros Hinv Hnf Hfin Hlen Hnd Hreg Hhs Hup HP Hck. unfold sinv, api, api_inv, remaining, allof, regs.
  cbn [mi_srcs mi_heap mi_entries mi_cur_key mi_finished mi_pending].
  split; [split; [exact Hinv|split; [exact Hnf|split; [reflexivity|split; [exact Hfin|exact Hlen]]]]|].
  split; [exact Hnd|]. split; [exact Hreg|]. split; [exact Hhs|]. exists P. split; [exact Hup|]. split; [exact HP|exact Hck].
Qed.

(* ---- merger_seek ----------------------------------------------------------------------------------- *)
Theorem merger_seek_spec it k : sinv it ->
  let it' := merger_seek None it k in
  sinv it' /\ (mi_finished it' = true -> mi_heap it' = []) /\
  Permutation (remaining it') (filter (fun e => negb (blt (fst e) k)) (allof it')) /\
  allof it' = allof it /\ mi_entries it' = mi_entries it /\ map stat (mi_srcs it') = map stat (mi_srcs it).
Proof.
  intros (Hapi & Hnd & Hreg & Hhs & P & Hup & HP & Hck). cbn zeta.
  destruct Hapi as (Hinv & Hnf & Hpend & Hfin & Hbound).
  assert (Hfinal : forall it', sinv it' -> Permutation (remaining it') (filter (geb k) (allof it)) ->
            mi_entries it' = mi_entries it -> map stat (mi_srcs it') = map stat (mi_srcs it) ->
            sinv it' /\ (mi_finished it' = true -> mi_heap it' = []) /\
            Permutation (remaining it') (filter (fun e => negb (blt (fst e) k)) (allof it')) /\
            allof it' = allof it /\ mi_entries it' = mi_entries it /\ map stat (mi_srcs it') = map stat (mi_srcs it)).
  { intros it' Hs Hp He Hst. assert (Hall : allof it' = allof it) by (apply allof_eq; [exact He|apply stat_es, Hst]).
    split; [exact Hs|]. split; [destruct Hs as ((_ & _ & _ & Hf & _) & _); exact Hf|]. rewrite Hall.
    split; [exact Hp|]. split; [reflexivity|]. split; assumption. }
  unfold merger_seek.
  set (backward := match mi_heap it with
                   | [] => true
                   | _ => (len (mi_cur_key it) =? 0)%N || (match bcmp k (mi_cur_key it) with Gt => false | _ => true end)
                   end).
  destruct backward eqn:Eb.
  - (* full re-seek *)
    assert (Hids : forall i, In i (mi_entries it) -> reg_ok (mi_srcs it) i /\ ~ In i (map he_src [])).
    { intros i Hi. split; [apply Hreg, Hi|intros []]. }
    pose proof (reseek_all_spec k (mi_entries it) (mi_srcs it) [] Hnd Hids (Forall_nil _) (NoDup_nil _) ltac:(intros e [])) as Hrs.
    pose proof (reseek_all_srcs k (mi_entries it) (mi_srcs it) []) as Hrsrc.
    destruct (reseek_all (mi_srcs it) (mi_entries it) k []) as [srcs' heap']. cbn [snd] in Hrsrc.
    destruct Hrs as (Hall' & Hnd' & Hnf' & Hperm & Hst & Hlen).
    destruct (K_heapify heap') as [Hok Hhp].
    destruct (inv_perm srcs' heap' _ Hok Hhp Hall' Hnd' Hnf') as [Hinv2 Hnf2].
    assert (Hes : map sc_es srcs' = map sc_es (mi_srcs it)) by (apply stat_es, Hst).
    assert (Hrem : Permutation (rem srcs' (heapify hent (mcmp None) dummy_he heap')) (filter (geb k) (allof it))).
    { eapply Permutation_trans; [apply rem_perm, Hhp|]. eapply Permutation_trans; [exact Hperm|].
      cbn [rem map concat app]. unfold allof, regs. rewrite map_map. reflexivity. }
    assert (Hregs' : forall i, In i (mi_entries it) -> reg_ok srcs' i).
    { intros i Hi. exact (reg_ok_stat _ _ i Hst (Hreg i Hi)). }
    destruct (all_of_length srcs' (mi_entries it) Hnd (fun i Hi => proj1 (Hregs' i Hi))) as [Hl1 Hl2].
    apply Hfinal; [|exact Hrem|reflexivity|exact Hst].
    apply (sinv_mk srcs' _ (mi_entries it) (mi_cur_key it) (mi_cur_val it) false (fun x => negb (blt x k))).
    + exact Hinv2.
    + exact Hnf2.
    + discriminate.
    + rewrite (Permutation_length Hrem), (Permutation_length Hhp).
      pose proof (filter_len_le (geb k) (allof it)) as L1.
      assert (L2 : length (allof it) = length (all_of srcs' (mi_entries it))).
      { unfold allof, regs. fold (all_of (mi_srcs it) (mi_entries it)). rewrite (all_of_eq _ _ _ Hes). reflexivity. }
      cbn [length] in Hlen. lia.
    + exact Hnd.
    + exact Hregs'.
    + intros e He. apply (Permutation_in _ Hhp) in He. destruct (Hrsrc e He) as [[]|H0]; exact H0.
    + apply up_geb.
    + rewrite (all_of_eq _ _ _ Hes). exact Hrem.
    + intros Hlen0 e He Hgt. rewrite (all_of_eq _ _ _ Hes) in He. fold (geb k e). apply geb_true.
      subst backward. destruct (mi_heap it) as [|r t] eqn:Eh.
      * (* the heap was empty: nothing lies above the current key *)
        exfalso. specialize (Hck Hlen0 e He Hgt).
        assert (Hin : In e (filter (fun e => P (fst e)) (allof it))) by (apply filter_In; split; assumption).
        apply (Permutation_in _ (Permutation_sym HP)) in Hin. unfold remaining in Hin. rewrite Eh in Hin. exact Hin.
      * rewrite Hlen0 in Eb. cbn [orb] in Eb. apply bcmp_lt_gt in Hgt. intros Hk. apply bcmp_lt_gt in Hk.
        pose proof (bcmp_lt_trans _ _ _ Hgt Hk) as Hc. apply bcmp_lt_gt in Hc. rewrite Hc in Eb. discriminate.
  - (* forward shortcut *)
    subst backward. destruct (mi_heap it) as [|r t] eqn:Eh; [discriminate|].
    apply orb_false_iff in Eb. destruct Eb as [Hlen0 Hcmp].
    assert (Hkc : bcmp k (mi_cur_key it) = Gt) by (destruct (bcmp k (mi_cur_key it)); try discriminate; reflexivity).
    assert (Hckk : bcmp (mi_cur_key it) k = Lt) by (apply bcmp_lt_gt; exact Hkc).
    specialize (Hck Hlen0).
    pose proof (forward_loop_spec k (S (length (r :: t))) (mi_srcs it) (r :: t) false false Hinv Hnf
                  ltac:(pose proof (filter_len_le (below k) (r :: t)); lia)) as Hfw.
    destruct (forward_loop None (S (length (r :: t))) (mi_srcs it) (r :: t) k false false) as [[[srcs' heap'] ch] fin].
    unfold fwd_post in Hfw. destruct Hfw as (Hinv' & Hnf' & Hperm & Hst & Hlen & Hincl & Hfin' & Hch & _).
    assert (Hes : map sc_es srcs' = map sc_es (mi_srcs it)) by (apply stat_es, Hst).
    assert (Hrem : Permutation (rem srcs' heap') (filter (geb k) (allof it))).
    { eapply Permutation_trans; [exact Hperm|]. unfold remaining in HP. rewrite Eh in HP.
      eapply Permutation_trans; [apply Permutation_filter, HP|].
      apply Permutation_refl'. apply filter_filter_in. intros x Hx Hg. apply Hck; [exact Hx|].
      apply geb_true in Hg. apply bcmp_lt_gt. eapply bcmp_lt_le_trans; eassumption. }
    assert (Hregs' : forall i, In i (mi_entries it) -> reg_ok srcs' i).
    { intros i Hi. exact (reg_ok_stat _ _ i Hst (Hreg i Hi)). }
    assert (Hbound' : length (rem srcs' heap') + length heap' <= total_es srcs' + 2 * length srcs').
    { rewrite (total_es_map _ _ Hes). assert (Hls : length srcs' = length (mi_srcs it)).
      { rewrite <- (map_length stat srcs'), Hst, map_length. reflexivity. }
      rewrite Hls, (Permutation_length Hperm). pose proof (filter_len_le (geb k) (rem (mi_srcs it) (r :: t))) as L.
      lia. }
    assert (Hhs' : forall e, In e heap' -> In (he_src e) (mi_entries it)) by (exact (hsrc_incl _ _ _ Hincl Hhs)).
    assert (Hmk : forall ck cv, ((len ck =? 0)%N = false -> forall e, In e (allof it) -> bcmp (fst e) ck = Gt -> geb k e = true) ->
              sinv (mkmi srcs' heap' (mi_entries it) ck cv fin false)).
    { intros ck cv Hc. apply (sinv_mk srcs' heap' (mi_entries it) ck cv fin (fun x => negb (blt x k))); try assumption.
      - intros Hf. destruct (Hfin' Hf) as [H0|H0]; [exact H0|discriminate].
      - apply up_geb.
      - rewrite (all_of_eq _ _ _ Hes). exact Hrem.
      - intros Hl e He Hgt. rewrite (all_of_eq _ _ _ Hes) in He. exact (Hc Hl e He Hgt). }
    destruct ch.
    + apply Hfinal; [|exact Hrem|reflexivity|exact Hst]. apply Hmk. intros _ e _ Hgt. apply geb_true.
      apply bcmp_lt_gt in Hgt. rewrite Hgt. discriminate.
    + apply Hfinal; [|exact Hrem|reflexivity|exact Hst]. apply Hmk. intros _ e He Hgt.
      destruct (Hch eq_refl) as (_ & -> & ->).
      assert (Hin : In e (filter (fun e => P (fst e)) (allof it))) by (apply filter_In; split; [exact He|apply Hck; assumption]).
      apply (Permutation_in _ (Permutation_sym HP)) in Hin. unfold remaining in Hin. rewrite Eh in Hin.
      apply (Permutation_in _ Hperm) in Hin. apply filter_In in Hin. exact (proj2 Hin).
Qed.

(* ---- construction ------------------------------------------------------------------------------------ *)
Lemma add_entries_ents : forall ids srcs heap ents,
  NoDup ids -> (forall i, In i ids -> i < length srcs /\ fresh (get_src srcs i)) ->
  let '(srcs', heap', ents') := add_entries None srcs ids heap ents in
  exists new, ents' = ents ++ new /\ incl new ids /\ NoDup new /\
    concat (map (fun i => sc_es (get_src srcs i)) new) = concat (map (fun i => sc_es (get_src srcs i)) ids) /\
    map stat srcs' = map stat srcs.
Proof.
  induction ids as [|i ids IH]; intros srcs heap ents Hnd Hids.
  - cbn [add_entries]. exists []. rewrite app_nil_r. split; [reflexivity|]. split; [intros x []|]. split; [constructor|]. split; reflexivity.
  - inversion Hnd as [|? ? Hni Hnd']; subst.
    destruct (Hids i (or_introl eq_refl)) as (Hlt & (Hpos & Hval & Hb & Hnull & Hs)).
    cbn [add_entries]. pose proof (fill_stat srcs i) as Hst. unfold fill, sc_next in *. rewrite Hnull, Hval, Hpos in *. cbn [orb negb] in *.
    assert (Hrest : forall s', forall j, In j ids ->
              (j < length (set_src srcs i s') /\ fresh (get_src (set_src srcs i s') j)) /\
              sc_es (get_src (set_src srcs i s') j) = sc_es (get_src srcs j)).
    { intros s' j Hj. assert (i <> j) by (intros ->; contradiction).
      destruct (Hids j (or_intror Hj)) as (Hjl & Hjf). rewrite set_src_length, get_set_src_other by assumption.
      split; [split; assumption|reflexivity]. }
    destruct (nth_error (sc_es (get_src srcs i)) 0) as [[k v]|] eqn:En.
    + rewrite Hb in *. cbn [sbound_ok fst] in *.
      set (s' := mksc (sc_es (get_src srcs i)) 1 true BAll false) in *.
      specialize (IH (set_src srcs i s') (heap_push hent (mcmp None) dummy_he heap (mkhe i k v false)) (ents ++ [i]) Hnd'
                    (fun j Hj => proj1 (Hrest s' j Hj))).
      destruct (add_entries None (set_src srcs i s') ids (heap_push hent (mcmp None) dummy_he heap (mkhe i k v false)) (ents ++ [i]))
        as [[srcs' heap'] ents'].
      destruct IH as (new & He & Hincl & Hndn & Hcc & Hst').
      exists (i :: new). split; [rewrite He, <- app_assoc; reflexivity|]. split; [|split; [|split]].
      * intros x [<-|Hx]; [left; reflexivity|right; apply Hincl, Hx].
      * constructor; [intros Hin; apply Hni, Hincl, Hin|exact Hndn].
      * cbn [map concat]. f_equal.
        rewrite (map_ext_in _ _ new (fun j Hj => proj2 (Hrest s' j (Hincl j Hj)))) in Hcc.
        rewrite (map_ext_in _ _ ids (fun j Hj => proj2 (Hrest s' j Hj))) in Hcc. exact Hcc.
      * congruence.
    + cbn [fst] in *.
      set (s' := mksc (sc_es (get_src srcs i)) 0 false (sc_bound (get_src srcs i)) false) in *.
      specialize (IH (set_src srcs i s') heap ents Hnd' (fun j Hj => proj1 (Hrest s' j Hj))).
      destruct (add_entries None (set_src srcs i s') ids heap ents) as [[srcs' heap'] ents'].
      destruct IH as (new & He & Hincl & Hndn & Hcc & Hst').
      exists new. split; [exact He|]. split; [|split; [|split]].
      * intros x Hx. right. apply Hincl, Hx.
      * exact Hndn.
      * cbn [map concat]. assert (E0 : sc_es (get_src srcs i) = []) by (destruct (sc_es (get_src srcs i)); [reflexivity|discriminate]).
        rewrite E0. cbn [app].
        rewrite (map_ext_in _ _ new (fun j Hj => proj2 (Hrest s' j (Hincl j Hj)))) in Hcc.
        rewrite (map_ext_in _ _ ids (fun j Hj => proj2 (Hrest s' j Hj))) in Hcc. exact Hcc.
      * congruence.
Qed.

Lemma fresh_reg_ok srcs i : i < length srcs -> fresh (get_src srcs i) -> reg_ok srcs i.
Proof. intros Hlt (_ & _ & Hb & Hn & Hs). repeat split; assumption. Qed.

(* mtbl_source_iter on a merger *)
Theorem merger_iter_make_sinv (srcs : list scur) : Forall fresh srcs ->
  exists it, merger_iter_make None srcs false = Some it /\ sinv it /\
    Permutation (remaining it) (allof it) /\ allof it = concat (map sc_es srcs) /\
    mi_finished it = false /\ map stat (mi_srcs it) = map stat srcs.
Proof.
  intros Hfresh.
  destruct (merger_iter_make_spec mf0 hk K_nil K_push K_pop K_replace K_min K_mark srcs Hfresh) as (it & Hmk & Hapi & Hperm & Hfin).
  exists it. split; [exact Hmk|]. unfold merger_iter_make in Hmk.
  assert (Hf : forall l : list nat, filter (fun i => negb (false && sc_null (get_src srcs i))) l = l).
  { induction l as [|x l IHl]; [reflexivity|]. cbn [filter andb negb]. f_equal. exact IHl. }
  rewrite Hf in Hmk. cbn [andb] in Hmk.
  assert (Hids : forall i, In i (seq 0 (length srcs)) -> i < length srcs /\ fresh (get_src srcs i)).
  { intros i Hi. apply in_seq in Hi. split; [lia|]. rewrite Forall_forall in Hfresh. apply Hfresh. unfold get_src. apply nth_In. lia. }
  pose proof (add_entries_ents (seq 0 (length srcs)) srcs [] [] (seq_NoDup _ _) Hids) as Hae.
  pose proof (add_entries_srcs (seq 0 (length srcs)) srcs [] [] K_nil ltac:(intros e [])) as Hsrc.
  destruct (add_entries None srcs (seq 0 (length srcs)) [] []) as [[srcs' heap'] ents'].
  destruct Hae as (new & He & Hincl & Hndn & Hcc & Hst). cbn [app] in He. subst ents'.
  inversion Hmk as [Hit]. clear Hmk. subst it.
  assert (Hes : map sc_es srcs' = map sc_es srcs) by (apply stat_es, Hst).
  set (it := mkmi srcs' heap' new [] [] false false) in *.
  assert (Hall : allof it = concat (map sc_es srcs)).
  { unfold allof, regs, it. cbn [mi_srcs mi_entries]. fold (all_of srcs' new). rewrite (all_of_eq _ _ _ Hes).
    unfold all_of. rewrite map_map, Hcc. rewrite (map_nth_seq' sc_es srcs). reflexivity. }
  assert (Hrem : Permutation (remaining it) (allof it)) by (rewrite Hall; exact Hperm).
  split; [|split; [exact Hrem|split; [exact Hall|split; [exact Hfin|exact Hst]]]].
  split; [exact Hapi|]. split; [exact Hndn|]. split; [|split; [exact Hsrc|]].
  - intros i Hi. apply (reg_ok_stat srcs srcs' i Hst). destruct (Hids i (Hincl i Hi)) as [H1 H2]. apply fresh_reg_ok; assumption.
  - exists (fun _ => true). split; [intros a b _ _; reflexivity|]. split.
    + rewrite filter_true_all by (intros; reflexivity). exact Hrem.
    + cbn. discriminate.
Qed.

(* ---- every reachable state ----------------------------------------------------------------------------- *)
Section Reachable.
Variable mf : bytes -> bytes -> bytes -> option bytes.
Hypothesis mf_total : forall k a b, mf k a b <> None.
Variable srcs0 : list scur.
Hypothesis srcs0_fresh : Forall fresh srcs0.

(* the states an application can reach through the API: construction, next, seek *)
Inductive reachable : miter -> Prop :=
| reach_make it : merger_iter_make None srcs0 false = Some it -> reachable it
| reach_next it : reachable it -> reachable (fst (merger_next (Some mf) None it))
| reach_seek it k : reachable it -> reachable (merger_seek None it k).

Theorem reachable_sinv it : reachable it -> sinv it /\ allof it = concat (map sc_es srcs0).
Proof.
  induction 1 as [it Hmk|it _ [Hs Hall]|it k _ [Hs Hall]].
  - destruct (merger_iter_make_sinv srcs0 srcs0_fresh) as (it0 & Hmk0 & Hs & _ & Hall & _).
    rewrite Hmk in Hmk0. inversion Hmk0; subst it0. split; assumption.
  - pose proof (merger_next_sinv mf it Hs) as Hn. destruct (merger_next (Some mf) None it) as [it' [[k v]|]]; cbn [fst].
    + destruct Hn as (Hs' & _ & Hall' & _). split; [exact Hs'|congruence].
    + destruct Hn as [(_ & Hs' & _ & Hall' & _)|(k & first & rest & v0 & others & _ & _ & Hfail)]; [split; [exact Hs'|congruence]|].
      exfalso. exact (fold_merge_total mf k (mf_total k) _ _ Hfail).
  - destruct (merger_seek_spec it k Hs) as (Hs' & _ & _ & Hall' & _). split; [exact Hs'|congruence].
Qed.

(* merger_iter_seek from any reachable state: what remains is exactly the entries with key >= k *)
Theorem merger_seek_reachable it k : reachable it ->
  let it' := merger_seek None it k in
  sinv it' /\ (mi_finished it' = true -> mi_heap it' = []) /\
  Permutation (remaining it') (filter (fun e => negb (blt (fst e) k)) (concat (map sc_es srcs0))).
Proof.
  intros Hr. destruct (reachable_sinv it Hr) as [Hs Hall]. cbn zeta.
  destruct (merger_seek_spec it k Hs) as (Hs' & Hfin & Hrem & Hall' & _). rewrite Hall', Hall in Hrem.
  split; [exact Hs'|]. split; assumption.
Qed.

(* merger_iter_next from any reachable state: the least remaining key is delivered, what remains is
   exactly the entries with a greater key *)
Theorem merger_next_reachable it : reachable it ->
  match merger_next (Some mf) None it with
  | (it', Some (k, v)) =>
    sinv it' /\ (forall x, In x (remaining it) -> bcmp k (fst x) <> Gt) /\
    Permutation (remaining it') (filter (fun e => blt k (fst e)) (concat (map sc_es srcs0)))
  | (it', None) => sinv it' /\ remaining it = [] /\ remaining it' = []
  end.
Proof.
  intros Hr. destruct (reachable_sinv it Hr) as [Hs Hall]. pose proof (merger_next_sinv mf it Hs) as Hn.
  destruct (merger_next (Some mf) None it) as [it' [[k v]|]].
  - destruct Hn as (Hs' & _ & _ & _ & _ & Hrem & _ & Hmin). rewrite Hall in Hrem. split; [exact Hs'|]. split; assumption.
  - destruct Hn as [(Hnil & Hs' & Hnil' & _)|(k & first & rest & v0 & others & _ & _ & Hfail)]; [split; [exact Hs'|split; assumption]|].
    exfalso. exact (fold_merge_total mf k (mf_total k) _ _ Hfail).
Qed.
End Reachable.

Print Assumptions heapify_ok.
Print Assumptions merger_iter_make_sinv.
Print Assumptions merger_next_sinv.
Print Assumptions merger_seek_spec.
Print Assumptions reachable_sinv.
Print Assumptions merger_seek_reachable.
Print Assumptions merger_next_reachable.
