From Coq Require Import NArith ZArith List Lia String.
From Mtbl Require Import gen.Consts model.Bytes model.Codec model.Compress proofs.BytesLemmas proofs.CodecProofs.
Local Open Scope N_scope.

(* names round-trip for every defined algorithm; the tables are regenerated from the source *)
Lemma names_roundtrip : forallb (fun t => match compression_type_to_str t with
                                           | Some s => match compression_type_from_str s with Some t' => t' =? t | None => false end
                                           | None => false end) COMP_ALL = true.
Proof. vm_compute. reflexivity. Qed.

Lemma from_str_sound : forall s t, compression_type_from_str s = Some t ->
  exists name, In (name, t) COMP_FROM_STR /\ lower s = lower name.
Proof.
  unfold compression_type_from_str. generalize COMP_FROM_STR.
  induction l as [|[name t0] l IH]; intros s t H; cbn [assoc_from_str] in H; [discriminate|].
  destruct (String.eqb (lower s) (lower name)) eqn:E.
  - inversion H; subst. exists name. split; [left; reflexivity|apply String.eqb_eq, E].
  - destruct (IH s t H) as (n & Hin & Hl). exists n. split; [right; exact Hin|exact Hl].
Qed.

Lemma from_str_unknown : forall s, (forall name t, In (name, t) COMP_FROM_STR -> lower s <> lower name) ->
  compression_type_from_str s = None.
Proof.
  unfold compression_type_from_str. generalize COMP_FROM_STR.
  induction l as [|[name t0] l IH]; intros s H; cbn [assoc_from_str]; [reflexivity|].
  destruct (String.eqb (lower s) (lower name)) eqn:E.
  - apply String.eqb_eq in E. exfalso. exact (H name t0 (or_introl eq_refl) E).
  - apply IH. intros n t Hin. apply (H n t). right. exact Hin.
Qed.

(* level clamping lands in each library's legal range *)
Local Open Scope Z_scope.
Lemma zlib_level_range l : -1 <= zlib_level l <= 9.
Proof. unfold zlib_level. destruct (l <? -1) eqn:E1; [lia|]. destruct (9 <? l) eqn:E2; lia. Qed.
Lemma lz4hc_level_range l : 0 <= lz4hc_level l.
Proof. unfold lz4hc_level. destruct (l <? 0) eqn:E; lia. Qed.
Lemma zstd_level_range minl maxl l : minl <= maxl -> minl <= zstd_level minl maxl l <= maxl.
Proof. intros H. unfold zstd_level. destruct (l <? minl) eqn:E1; [lia|]. destruct (maxl <? l) eqn:E2; lia. Qed.
Local Close Scope Z_scope.

(* the LZ4 length prefix survives the round trip *)
Lemma lz4_prefix_roundtrip n body : n < 2 ^ 32 -> lz4_unwrap (lz4_wrap n body) = Some (n, body).
Proof.
  intros H. unfold lz4_unwrap, lz4_wrap. rewrite len_app.
  assert (Hl : len (fixed_encode32 n) = 4) by (unfold fixed_encode32, len; rewrite le_encode_length; reflexivity).
  rewrite Hl. replace (4 + len body <? 4) with false by lia.
  rewrite fixed32_roundtrip by exact H. rewrite (drop_app_len _ _ 4 Hl). reflexivity.
Qed.

(* ==== the wrappers around the libraries ================================================= *)
Require Import ZifyBool ZifyN.
Ltac Zify.zify_post_hook ::= Z.div_mod_to_equations.

(* Library contracts.  [libs_sound]: whatever a compressor returns fits the capacity it was
   given and is inverted by the matching decompressor when that is offered exactly the original
   size (zstd and snappy also report that size).  For zlib, inflate(Z_FINISH) ends the stream as
   soon as the output space offered so far holds the whole output and reports Z_BUF_ERROR before. *)
Record libs_sound (L : libs) : Prop := {
  snd_lz4 : forall x cap z, lz4_c L x cap = Some z -> len z <= cap /\ lz4_d L z (len x) = Some x;
  snd_lz4hc : forall x cap l z, lz4hc_c L x cap l = Some z -> len z <= cap /\ lz4_d L z (len x) = Some x;
  snd_zstd : forall x cap l z, zstd_c L x cap l = Some z ->
             len z <= cap /\ zstd_size L z = Some (len x) /\ zstd_d L z (len x) = Some x;
  snd_snappy : forall x cap z, snappy_c L x cap = Some z -> snappy_len L z = Some (len x) /\ snappy_d L z (len x) = Some x;
  snd_zlib : forall x cap l z, zl_deflate L x cap l = Some z ->
             forall c, zl_inflate L z c = if len x <=? c then IEnd x else IBuf;
}.
(* [libs_complete]: offered its documented bound as capacity, and a level in its legal range, a
   compressor does not fail. *)
Record libs_complete (L : libs) : Prop := {
  cpl_lz4 : forall x cap, len x <= LZ4_MAX_INPUT_SIZE -> lz4_bound (len x) <= cap -> lz4_c L x cap <> None;
  cpl_lz4hc : forall x cap l, len x <= LZ4_MAX_INPUT_SIZE -> lz4_bound (len x) <= cap -> lz4hc_c L x cap l <> None;   (* any level: LZ4_compress_HC maps levels below 1 to its default and levels above the maximum to the maximum *)
  cpl_zstd_levels : (zstd_min L <= zstd_max L)%Z;
  cpl_zstd : forall x cap l, (zstd_min L <= l <= zstd_max L)%Z -> zstd_bound (len x) <= cap -> zstd_c L x cap l <> None;
  cpl_snappy : forall x cap, snappy_bound (len x) <= cap -> snappy_c L x cap <> None;
  cpl_zl_init : forall l, (-1 <= l <= 9)%Z -> zl_init_ok L l = true;
  cpl_zl : forall x cap l, (-1 <= l <= 9)%Z -> zl_bound L l (len x) <= cap -> zl_deflate L x cap l <> None;
  cpl_zl_end : zl_end_ok L = true;
}.

Lemma len_fixed32 n : len (fixed_encode32 n) = 4.
Proof. unfold fixed_encode32, len. rewrite le_encode_length. reflexivity. Qed.

Lemma lz4_bound_le n : lz4_bound n + 4 <= INT_MAX.
Proof.
  unfold lz4_bound, LZ4_MAX_INPUT_SIZE, INT_MAX. destruct (2113929216 <? n) eqn:E; [lia|].
  apply N.ltb_ge in E. assert (n / 255 <= 2113929216 / 255) by (apply N.div_le_mono; lia).
  change (2113929216 / 255) with 8289918 in H. lia.
Qed.

Lemma zstd_capacity_ge n : zstd_bound n <= zstd_capacity n.
Proof. unfold zstd_capacity. cbv zeta. destruct (zstd_bound n <? INT_MAX / 2); lia. Qed.
Lemma zstd_capacity_le n : zstd_bound n <= INT_MAX -> zstd_capacity n <= INT_MAX.
Proof.
  unfold zstd_capacity, INT_MAX. cbv zeta. change (2147483647 / 2) with 1073741823.
  intros H. destruct (zstd_bound n <? 1073741823) eqn:E; lia.
Qed.

Section WrapProofs.
Variable L : libs.

(* ---- soundness: a successful compression is inverted by the decompression wrapper ---------- *)
Hypothesis Hs : libs_sound L.

Lemma lz4_frame_roundtrip x z : len x <= INT_MAX -> len z <= lz4_bound (len x) -> lz4_d L z (len x) = Some x ->
  decompress_lz4 L (lz4_wrap (len x) z) = COk x.
Proof.
  intros Hx Hz Hd. unfold decompress_lz4.
  assert (Hlen : len (lz4_wrap (len x) z) = 4 + len z) by (unfold lz4_wrap; rewrite len_app, len_fixed32; reflexivity).
  rewrite Hlen. pose proof (lz4_bound_le (len x)) as Hb.
  replace (INT_MAX <? 4 + len z) with false by lia. replace (4 + len z <? 4) with false by lia. cbn [orb].
  rewrite lz4_prefix_roundtrip by (unfold INT_MAX in Hx; change (2 ^ 32) with 4294967296; lia).
  rewrite Hd. reflexivity.
Qed.

Lemma inflate_loop_ok x z : (forall c, zl_inflate L z c = if len x <=? c then IEnd x else IBuf) ->
  forall fuel cap, len x <= cap * 2 ^ N.of_nat fuel -> 0 < cap -> inflate_loop L (S fuel) z cap = COk x.
Proof.
  intros Hi. induction fuel as [|f IH]; intros cap Hc Hpos; cbn [inflate_loop]; rewrite Hi.
  - change (2 ^ N.of_nat 0) with 1 in Hc. replace (len x <=? cap) with true by lia. reflexivity.
  - destruct (len x <=? cap) eqn:E; [reflexivity|].
    change (match zl_inflate L z (2 * cap) with IEnd out => COk out | IBuf => inflate_loop L f z (2 * (2 * cap)) | IOther => CAbort end)
      with (inflate_loop L (S f) z (2 * cap)).
    apply IH; [|lia]. rewrite Nnat.Nat2N.inj_succ, N.pow_succ_r' in Hc. lia.
Qed.

Lemma inflate_cap0_ge n : 1024 <= inflate_cap0 n.
Proof. unfold inflate_cap0. pose proof (N.mod_le (4 * n) 1024 ltac:(lia)). lia. Qed.

Theorem wrapper_roundtrip alg level x s :
  len x < 2 ^ 64 -> (alg = COMP_ZSTD -> zstd_bound (len x) <= INT_MAX) ->
  wrapper_compress_level L alg level x = COk s -> wrapper_decompress L alg s = COk x.
Proof.
  intros Hx Hzs. unfold wrapper_compress_level, wrapper_decompress.
  destruct (alg =? COMP_SNAPPY) eqn:E1.
  { unfold compress_snappy, decompress_snappy. destruct (snappy_c L x _) as [z|] eqn:Ec; [|discriminate].
    intros H; inversion H; subst s. destruct (snd_snappy L Hs _ _ _ Ec) as [H1 H2]. rewrite H1, H2. reflexivity. }
  destruct (alg =? COMP_ZLIB) eqn:E2.
  { unfold compress_zlib, decompress_zlib. destruct (negb (zl_init_ok L _)); [discriminate|].
    destruct (zl_deflate L x _ _) as [z|] eqn:Ec; [|discriminate]. destruct (zl_end_ok L); [|discriminate].
    intros H; inversion H; subst s.
    apply (inflate_loop_ok x z (snd_zlib L Hs _ _ _ _ Ec) 63).
    - pose proof (inflate_cap0_ge (len z)). change (2 ^ N.of_nat 63) with 9223372036854775808.
      change (2 ^ 64) with 18446744073709551616 in Hx. nia.
    - pose proof (inflate_cap0_ge (len z)). lia. }
  destruct (alg =? COMP_LZ4) eqn:E3.
  { cbn [orb]. unfold compress_lz4. destruct (INT_MAX <? len x) eqn:Ei; [discriminate|].
    destruct (lz4_c L x _) as [z|] eqn:Ec; [|discriminate]. intros H; inversion H; subst s.
    destruct (snd_lz4 L Hs _ _ _ Ec) as [H1 H2]. apply lz4_frame_roundtrip; [lia|exact H1|exact H2]. }
  destruct (alg =? COMP_LZ4HC) eqn:E4.
  { cbn [orb]. unfold compress_lz4hc. destruct (INT_MAX <? len x) eqn:Ei; [discriminate|].
    destruct (lz4hc_c L x _ _) as [z|] eqn:Ec; [|discriminate]. intros H; inversion H; subst s.
    destruct (snd_lz4hc L Hs _ _ _ _ Ec) as [H1 H2]. apply lz4_frame_roundtrip; [lia|exact H1|exact H2]. }
  cbn [orb]. destruct (alg =? COMP_ZSTD) eqn:E5; [|discriminate].
  unfold compress_zstd, decompress_zstd. destruct (INT_MAX <? len x) eqn:Ei; [discriminate|].
  destruct (zstd_c L x _ _) as [z|] eqn:Ec; [|discriminate]. intros H; inversion H; subst s.
  destruct (snd_zstd L Hs _ _ _ _ Ec) as (H1 & H2 & H3).
  apply N.eqb_eq in E5. pose proof (zstd_capacity_le _ (Hzs E5)) as Hcap.
  replace (INT_MAX <? len z) with false by lia. rewrite H2, H3. reflexivity.
Qed.

(* ---- completeness: with the libraries' documented guarantees the compression wrappers neither
   fail nor abort on inputs every library accepts, for EVERY requested level ----------------- *)
Hypothesis Hc : libs_complete L.

Theorem wrapper_compress_succeeds alg level x :
  In alg [COMP_SNAPPY; COMP_ZLIB; COMP_LZ4; COMP_LZ4HC; COMP_ZSTD] -> len x <= LZ4_MAX_INPUT_SIZE ->
  exists s, wrapper_compress_level L alg level x = COk s.
Proof.
  intros Hin Hx. unfold wrapper_compress_level.
  assert (Hi : (INT_MAX <? len x) = false) by (unfold LZ4_MAX_INPUT_SIZE, INT_MAX in *; lia).
  cbn [In] in Hin. destruct Hin as [<-|[<-|[<-|[<-|[<-|[]]]]]]; cbn [N.eqb Pos.eqb COMP_SNAPPY COMP_ZLIB COMP_LZ4 COMP_LZ4HC COMP_ZSTD].
  - unfold compress_snappy. destruct (snappy_c L x _) as [z|] eqn:E; [eexists; reflexivity|].
    exfalso. exact (cpl_snappy L Hc x _ (N.le_refl _) E).
  - unfold compress_zlib. pose proof (zlib_level_range level) as Hl.
    rewrite (cpl_zl_init L Hc _ Hl). cbn [negb].
    destruct (zl_deflate L x _ _) as [z|] eqn:E; [|exfalso; exact (cpl_zl L Hc x _ _ Hl (N.le_refl _) E)].
    rewrite (cpl_zl_end L Hc). eexists; reflexivity.
  - unfold compress_lz4. rewrite Hi. destruct (lz4_c L x _) as [z|] eqn:E; [eexists; reflexivity|].
    exfalso. exact (cpl_lz4 L Hc x _ Hx (N.le_refl _) E).
  - unfold compress_lz4hc. rewrite Hi. destruct (lz4hc_c L x _ _) as [z|] eqn:E; [eexists; reflexivity|].
    exfalso. exact (cpl_lz4hc L Hc x _ _ Hx (N.le_refl _) E).
  - unfold compress_zstd. rewrite Hi. destruct (zstd_c L x _ _) as [z|] eqn:E; [eexists; reflexivity|].
    exfalso. exact (cpl_zstd L Hc x _ _ (zstd_level_range _ _ level (cpl_zstd_levels L Hc)) (zstd_capacity_ge _) E).
Qed.

(* no input, level or algorithm makes a compression wrapper abort *)
Theorem wrapper_compress_never_aborts alg level x : wrapper_compress_level L alg level x <> CAbort.
Proof.
  unfold wrapper_compress_level.
  destruct (alg =? COMP_SNAPPY). { unfold compress_snappy. destruct (snappy_c L x _); discriminate. }
  destruct (alg =? COMP_ZLIB).
  { unfold compress_zlib. pose proof (zlib_level_range level) as Hl. rewrite (cpl_zl_init L Hc _ Hl). cbn [negb].
    destruct (zl_deflate L x _ _) as [z|] eqn:E; [|exfalso; exact (cpl_zl L Hc x _ _ Hl (N.le_refl _) E)].
    destruct (zl_end_ok L); discriminate. }
  destruct (alg =? COMP_LZ4). { unfold compress_lz4. destruct (INT_MAX <? len x); [discriminate|]. destruct (lz4_c L x _); discriminate. }
  destruct (alg =? COMP_LZ4HC). { unfold compress_lz4hc. destruct (INT_MAX <? len x); [discriminate|]. destruct (lz4hc_c L x _ _); discriminate. }
  destruct (alg =? COMP_ZSTD); [|discriminate].
  unfold compress_zstd. destruct (INT_MAX <? len x); [discriminate|]. destruct (zstd_c L x _ _); discriminate.
Qed.
End WrapProofs.

(* the pinned tree sized the zlib destination 2n: below the bound for every short input
   (deflateBound n >= n + 13 for the default wrapper, zlib.h) - finding F4 *)
Lemma zlib_2n_too_small n : n < 13 -> 2 * n < n + 13.
Proof. lia. Qed.

(* ---- the contracts are satisfiable: "store" libraries (output = input when it fits) ------- *)
Definition store_c (x : bytes) (cap : N) : option bytes := if len x <=? cap then Some x else None.
Definition store_libs : libs :=
  mklibs store_c (fun x cap _ => store_c x cap) (fun z cap => if len z =? cap then Some z else None)
         (-5)%Z 22%Z (fun x cap _ => store_c x cap) (fun z => Some (len z)) (fun z cap => if len z =? cap then Some z else None)
         store_c (fun z => Some (len z)) (fun z cap => if len z =? cap then Some z else None)
         (fun l => (-1 <=? l)%Z && (l <=? 9)%Z) (fun _ n => n + 13) (fun x cap _ => store_c x cap) true
         (fun z c => if len z <=? c then IEnd z else IBuf).

Lemma store_c_some x cap z : store_c x cap = Some z -> z = x /\ len x <= cap.
Proof. unfold store_c. destruct (len x <=? cap) eqn:E; [|discriminate]. intros H; inversion H; subst. split; [reflexivity|lia]. Qed.

Lemma store_libs_sound : libs_sound store_libs.
Proof.
  constructor; cbn [store_libs lz4_c lz4hc_c lz4_d zstd_c zstd_size zstd_d snappy_c snappy_len snappy_d zl_deflate zl_inflate].
  - intros x cap z H. apply store_c_some in H. destruct H as [-> H]. rewrite N.eqb_refl. split; [exact H|reflexivity].
  - intros x cap l z H. apply store_c_some in H. destruct H as [-> H]. rewrite N.eqb_refl. split; [exact H|reflexivity].
  - intros x cap l z H. apply store_c_some in H. destruct H as [-> H]. rewrite N.eqb_refl. repeat split; [exact H].
  - intros x cap z H. apply store_c_some in H. destruct H as [-> H]. rewrite N.eqb_refl. split; reflexivity.
  - intros x cap l z H. apply store_c_some in H. destruct H as [-> H]. intros c. reflexivity.
Qed.
Lemma store_libs_complete : libs_complete store_libs.
Proof.
  constructor; cbn [store_libs lz4_c lz4hc_c zstd_min zstd_max zstd_c snappy_c zl_init_ok zl_bound zl_deflate zl_end_ok]; unfold store_c, LZ4_MAX_INPUT_SIZE.
  - intros x cap Hx Hb. unfold lz4_bound, LZ4_MAX_INPUT_SIZE in Hb. replace (2113929216 <? len x) with false in Hb by lia.
    replace (len x <=? cap) with true by lia. discriminate.
  - intros x cap l Hx Hb. unfold lz4_bound, LZ4_MAX_INPUT_SIZE in Hb. replace (2113929216 <? len x) with false in Hb by lia.
    replace (len x <=? cap) with true by lia. discriminate.
  - lia.
  - intros x cap l _ Hb. unfold zstd_bound in Hb. replace (len x <=? cap) with true by lia. discriminate.
  - intros x cap Hb. unfold snappy_bound in Hb. replace (len x <=? cap) with true by lia. discriminate.
  - intros l Hl. lia.
  - intros x cap l _ Hb. replace (len x <=? cap) with true by lia. discriminate.
  - reflexivity.
Qed.
