From Coq Require Import NArith ZArith List Lia String.
From Mtbl Require Import gen.Consts model.Bytes model.Codec model.Compress proofs.BytesLemmas proofs.CodecProofs.
Local Open Scope N_scope.

(* names round-trip for every defined algorithm; the tables are regenerated from the source *)
Lemma names_roundtrip : forallb (fun t => match compression_type_to_str t with
                                           | Some s => match compression_type_from_str s with Some t' => t' =? t | None => false end
                                           | None => false end) COMP_ALL = true.
Proof. vm_compute. reflexivity. Qed.

Lemma from_str_sound : forall s t, compression_type_from_str s = Some t ->
  exists name, In (name, t) COMP_FROM_STR /\ lower s = lower name.
Proof.
  unfold compression_type_from_str. generalize COMP_FROM_STR.
  induction l as [|[name t0] l IH]; intros s t H; cbn [assoc_from_str] in H; [discriminate|].
  destruct (String.eqb (lower s) (lower name)) eqn:E.
  - inversion H; subst. exists name. split; [left; reflexivity|apply String.eqb_eq, E].
  - destruct (IH s t H) as (n & Hin & Hl). exists n. split; [right; exact Hin|exact Hl].
Qed.

Lemma from_str_unknown : forall s, (forall name t, In (name, t) COMP_FROM_STR -> lower s <> lower name) ->
  compression_type_from_str s = None.
Proof.
  unfold compression_type_from_str. generalize COMP_FROM_STR.
  induction l as [|[name t0] l IH]; intros s H; cbn [assoc_from_str]; [reflexivity|].
  destruct (String.eqb (lower s) (lower name)) eqn:E.
  - apply String.eqb_eq in E. exfalso. exact (H name t0 (or_introl eq_refl) E).
  - apply IH. intros n t Hin. apply (H n t). right. exact Hin.
Qed.

(* level clamping lands in each library's legal range *)
Local Open Scope Z_scope.
Lemma zlib_level_range l : -1 <= zlib_level l <= 9.
Proof. unfold zlib_level. destruct (l <? -1) eqn:E1; [lia|]. destruct (9 <? l) eqn:E2; lia. Qed.
Lemma lz4hc_level_range l : 0 <= lz4hc_level l.
Proof. unfold lz4hc_level. destruct (l <? 0) eqn:E; lia. Qed.
Lemma zstd_level_range minl maxl l : minl <= maxl -> minl <= zstd_level minl maxl l <= maxl.
Proof. intros H. unfold zstd_level. destruct (l <? minl) eqn:E1; [lia|]. destruct (maxl <? l) eqn:E2; lia. Qed.
Local Close Scope Z_scope.

(* the LZ4 length prefix survives the round trip *)
Lemma lz4_prefix_roundtrip n body : n < 2 ^ 32 -> lz4_unwrap (lz4_wrap n body) = Some (n, body).
Proof.
  intros H. unfold lz4_unwrap, lz4_wrap. rewrite len_app.
  assert (Hl : len (fixed_encode32 n) = 4) by (unfold fixed_encode32, len; rewrite le_encode_length; reflexivity).
  rewrite Hl. replace (4 + len body <? 4) with false by lia.
  rewrite fixed32_roundtrip by exact H. rewrite (drop_app_len _ _ 4 Hl). reflexivity.
Qed.
