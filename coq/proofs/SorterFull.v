(* sorter.c: the sorter's output is the sorted, merged input whatever the chunking.  For a total,
   associative merge function: every distinct key once, ascending, with the left fold of the merge
   function over some arrangement of exactly the values added for the key.  (Chunks are folded
   first, then the merger folds chunk results: associativity is what makes that a fold of the
   values themselves; qsort is any function returning a key-sorted permutation.) *)
From Coq Require Import NArith List Lia Permutation Sorting.Sorted.
From Mtbl Require Import gen.Consts model.Bytes model.Order model.Heap model.Merger model.Sorter spec.MergeSpec
  proofs.OrderProofs proofs.SorterProofs proofs.HeapProofs proofs.MergerProofs proofs.MergerClosed.
Local Open Scope N_scope.
Ltac splits := repeat match goal with |- _ /\ _ => split end.

Section SorterFull.
Variable f : bytes -> bytes -> bytes -> bytes.
Hypothesis f_assoc : forall k a b c, f k (f k a b) c = f k a (f k b c).
Definition mf (k a b : bytes) : option bytes := Some (f k a b).
Variable sort : list entry -> list entry.
Hypothesis sort_perm : forall l, Permutation (sort l) l.
Hypothesis sort_sorted : forall l, keys_le (sort l).

Definition F (k a : bytes) (vs : list bytes) : bytes := fold_left (f k) vs a.
Lemma fold_merge_F k : forall vs a, fold_merge mf k a vs = Some (F k a vs).
Proof. induction vs as [|v vs IH]; intros a; [reflexivity|]. cbn [fold_merge mf F fold_left]. apply IH. Qed.

Lemma f_F k : forall ys x b, f k x (F k b ys) = F k (f k x b) ys.
Proof.
  induction ys as [|y ys IH]; intros x b; [reflexivity|]. unfold F in *. cbn [fold_left]. rewrite IH, f_assoc. reflexivity.
Qed.
Lemma F_F k a xs b ys : f k (F k a xs) (F k b ys) = F k a (xs ++ b :: ys).
Proof. rewrite f_F. unfold F. rewrite fold_left_app. reflexivity. Qed.

(* a group: the values one chunk holds for a key, first value and the rest *)
Definition gval (k : bytes) (g : bytes * list bytes) : bytes := F k (fst g) (snd g).
Definition gall (g : bytes * list bytes) : list bytes := fst g :: snd g.
Lemma flatten_groups k : forall gs a xs, F k (F k a xs) (map (gval k) gs) = F k a (xs ++ concat (map gall gs)).
Proof.
  induction gs as [|[b ys] gs IH]; intros a xs; [cbn; rewrite app_nil_r; reflexivity|].
  cbn [map concat gall fst snd]. unfold F at 1. cbn [fold_left]. fold (F k (f k (F k a xs) (gval k (b, ys))) (map (gval k) gs)).
  unfold gval at 1. cbn [fst snd]. rewrite F_F, IH, <- app_assoc. reflexivity.
Qed.

(* ---- one chunk -------------------------------------------------------------------------------- *)
Lemma keys_le_head_min : forall l k v x, keys_le ((k, v) :: l) -> In x l -> bcmp k (fst x) <> Gt.
Proof.
  induction l as [|[k1 v1] l IH]; intros k v x H Hx; [contradiction|]. destruct H as [H1 H2]. cbn [fst] in H1.
  destruct Hx as [<-|Hx]; [exact H1|]. eapply bcmp_le_trans; [exact H1|]. eapply IH; eassumption.
Qed.

Lemma vals_cons_same k v l : vals k ((k, v) :: l) = v :: vals k l.
Proof. unfold vals. cbn [filter fst]. unfold beq. rewrite bcmp_refl. reflexivity. Qed.
Lemma vals_cons_other k k' v l : k' <> k -> vals k ((k', v) :: l) = vals k l.
Proof.
  intros Hne. unfold vals. cbn [filter fst]. unfold beq. destruct (bcmp k' k) eqn:E; [apply bcmp_eq in E; contradiction| |]; reflexivity.
Qed.

Definition group_of (k : bytes) (l : list entry) : list bytes :=
  match vals k l with [] => [] | v :: vs => [F k v vs] end.

Lemma fold_sorted_spec : forall fuel l, keys_le l -> (length l < fuel)%nat ->
  exists r, fold_sorted (Some mf) fuel l = Ok r /\ keys_lt r /\ (length r <= length l)%nat /\ forall k, vals k r = group_of k l.
Proof.
  induction fuel as [|fuel IH]; intros l Hs Hf; [lia|]. cbn [fold_sorted]. unfold entry in *.
  destruct l as [|[k0 v0] [|[k1 v1] tl]].
  - exists []. splits; [reflexivity|exact I|apply le_n|reflexivity].
  - exists [(k0, v0)]. splits; [reflexivity|exact I|apply le_n|]. intros k. unfold group_of.
    destruct (list_eq_dec N.eq_dec k0 k) as [->|Hne]; [rewrite !vals_cons_same; reflexivity|rewrite !vals_cons_other by exact Hne; reflexivity].
  - destruct Hs as [Hle Hs]. cbn [fst] in Hle. destruct (beq k0 k1) eqn:E.
    + assert (Hk : k0 = k1) by (unfold beq in E; destruct (bcmp k0 k1) eqn:Ec; try discriminate; apply bcmp_eq, Ec). subst k1.
      cbn [mf].
      assert (Hs' : keys_le ((k0, f k0 v0 v1) :: tl)) by (destruct tl as [|[k2 v2] tl]; [exact I|exact Hs]).
      destruct (IH ((k0, f k0 v0 v1) :: tl) Hs' ltac:(cbn [length] in *; lia)) as (r & Hr & Hlt & Hlen & Hv).
      exists r. splits; [exact Hr|exact Hlt|cbn [length] in *; lia|]. intros k. rewrite Hv. unfold group_of.
      destruct (list_eq_dec N.eq_dec k0 k) as [->|Hne].
      * rewrite !vals_cons_same. reflexivity.
      * rewrite !vals_cons_other by exact Hne. reflexivity.
    + destruct (IH ((k1, v1) :: tl) Hs ltac:(cbn [length] in *; lia)) as (r' & Hr & Hlt & Hlen & Hv).
      assert (Hk01 : bcmp k0 k1 = Lt) by (unfold beq in E; destruct (bcmp k0 k1); congruence).
      assert (Hnone : vals k0 ((k1, v1) :: tl) = []).
      { apply vals_none. intros x Hx. destruct Hx as [<-|Hx]; [exact Hk01|].
        eapply bcmp_lt_le_trans; [exact Hk01|]. eapply keys_le_head_min; eassumption. }
      exists ((k0, v0) :: r'). splits; [rewrite Hr; reflexivity| |cbn [length] in *; lia|].
      * pose proof (fold_sorted_strict (Some mf) fuel _ _ Hs Hr) as [_ Hhd].
        destruct r' as [|[k2 v2] r']; [exact I|]. subst k2. split; [exact Hk01|exact Hlt].
      * intros k. unfold group_of. destruct (list_eq_dec N.eq_dec k0 k) as [->|Hne].
        -- rewrite !vals_cons_same, Hv. unfold group_of. rewrite Hnone. reflexivity.
        -- rewrite !vals_cons_other by exact Hne. rewrite Hv. reflexivity.
Qed.

Lemma keys_lt_head : forall r k v x, keys_lt ((k, v) :: r) -> In x r -> bcmp k (fst x) = Lt.
Proof.
  induction r as [|[k1 v1] r IH]; intros k v x H Hx; [contradiction|]. destruct H as [H1 H2]. cbn [fst] in H1.
  destruct Hx as [<-|Hx]; [exact H1|]. eapply bcmp_lt_trans; [exact H1|]. eapply IH; eassumption.
Qed.
Lemma keys_lt_ssorted : forall r, keys_lt r -> ssorted r.
Proof.
  induction r as [|[k v] r IH]; intros H i j a b Hij Ha Hb; [destruct i; discriminate|].
  assert (Hr : keys_lt r) by (destruct r as [|[k1 v1] r]; [exact I|exact (proj2 H)]).
  destruct j as [|j]; [lia|]. cbn [nth_error] in Hb. destruct i as [|i].
  - cbn in Ha. inversion Ha; subst a. cbn [fst]. eapply keys_lt_head; [exact H|]. eapply nth_error_In, Hb.
  - cbn [nth_error] in Ha. eapply (IH Hr i j); [lia|eassumption|eassumption].
Qed.

(* ---- the add phase ------------------------------------------------------------------------------- *)
Fixpoint adds (s : sorter) (ops : list entry) : res sorter :=
  match ops with
  | [] => Ok s
  | (k, v) :: tl => match sorter_add (Some mf) sort s k v with
                    | Ok (s', _) => adds s' tl
                    | Fail => Fail | Abort => Abort | Oob => Oob
                    end
  end.

(* chunk c was written from batch b *)
Definition chunk_of (c : option (list entry)) (b : list entry) : Prop :=
  exists r, c = Some r /\ keys_lt r /\ (length r <= length b)%nat /\ forall k, vals k r = group_of k (sort b).

Definition sinv (s : sorter) (seen : list entry) : Prop :=
  so_iterating s = false /\ exists batches, Forall2 chunk_of (so_chunks s) batches /\ Permutation (concat batches ++ so_vec s) seen.

Lemma write_chunk_spec b : exists r, write_chunk (Some mf) sort b = Ok (Some r) /\ chunk_of (Some r) b.
Proof.
  unfold write_chunk.
  destruct (fold_sorted_spec (S (length b)) (sort b) (sort_sorted b)) as (r & Hr & Hlt & Hlen & Hv).
  { rewrite (Permutation_length (sort_perm b)). lia. }
  rewrite Hr. exists r. split; [reflexivity|]. exists r. splits; [reflexivity|exact Hlt|rewrite <- (Permutation_length (sort_perm b)); exact Hlen|exact Hv].
Qed.

Lemma flush_spec s seen : sinv s seen -> exists s', sorter_flush (Some mf) sort s = Ok (s', true) /\ sinv s' seen /\ so_vec s' = [] /\ so_max_memory s' = so_max_memory s.
Proof.
  intros (Hi & batches & Hf2 & Hperm). unfold sorter_flush.
  destruct (write_chunk_spec (so_vec s)) as (r & -> & Hc). eexists. split; [reflexivity|]. cbn [so_vec so_max_memory]. splits; try reflexivity.
  unfold sinv. cbn [so_iterating so_chunks so_vec]. split; [exact Hi|]. exists (batches ++ [so_vec s]). split.
  - apply Forall2_app; [exact Hf2|constructor; [exact Hc|constructor]].
  - rewrite concat_app. cbn [concat]. rewrite !app_nil_r. exact Hperm.
Qed.

Lemma add_spec s seen k v : sinv s seen -> exists s' r, sorter_add (Some mf) sort s k v = Ok (s', r) /\ sinv s' (seen ++ [(k, v)]) /\ so_max_memory s' = so_max_memory s.
Proof.
  intros Hs. pose proof Hs as (Hi & batches & Hf2 & Hperm). unfold sorter_add. rewrite Hi.
  set (s1 := mkso (so_vec s ++ [(k, v)]) (so_entry_bytes s + SORTER_ENTRY_HEADER + len k + len v) (so_chunks s) false (so_max_memory s)).
  assert (Hs1 : sinv s1 (seen ++ [(k, v)])).
  { unfold sinv, s1. cbn [so_iterating so_chunks so_vec]. split; [reflexivity|]. exists batches. split; [exact Hf2|].
    rewrite app_assoc. apply Permutation_app_tail, Hperm. }
  match goal with |- context [if ?c then _ else _] => destruct c end.
  - destruct (flush_spec s1 _ Hs1) as (s' & Hfl & Hs' & _ & Hmm). exists s', true. splits; [exact Hfl|exact Hs'|exact Hmm].
  - exists s1, true. splits; [reflexivity|exact Hs1|reflexivity].
Qed.

Lemma adds_spec : forall ops s seen, sinv s seen -> exists s', adds s ops = Ok s' /\ sinv s' (seen ++ ops).
Proof.
  induction ops as [|[k v] ops IH]; intros s seen Hs.
  - exists s. rewrite app_nil_r. split; [reflexivity|exact Hs].
  - cbn [adds]. destruct (add_spec s seen k v Hs) as (s1 & r & -> & Hs1 & _).
    destruct (IH s1 _ Hs1) as (s' & Ha & Hs'). exists s'. split; [exact Ha|]. rewrite <- app_assoc in Hs'. exact Hs'.
Qed.

(* ---- iteration ------------------------------------------------------------------------------------- *)
Definition chunk_rel (r b : list entry) : Prop :=
  keys_lt r /\ (length r <= length b)%nat /\ forall k, vals k r = group_of k (sort b).

Lemma Forall2_chunks chunks batches : Forall2 chunk_of chunks batches ->
  exists rs, chunks = map Some rs /\ Forall2 chunk_rel rs batches.
Proof.
  induction 1 as [|c b chunks batches (r & -> & Hlt & Hlen & Hv) _ (rs & -> & IH)]; [exists []; split; [reflexivity|constructor]|].
  exists (r :: rs). split; [reflexivity|constructor; [unfold chunk_rel; splits; assumption|exact IH]].
Qed.

(* the values of key k over the chunks, as groups *)
Definition groups_of (k : bytes) (batches : list (list entry)) : list (bytes * list bytes) :=
  concat (map (fun b => match vals k (sort b) with [] => [] | v :: vs => [(v, vs)] end) batches).

Lemma values_groups k : forall rs batches, Forall2 chunk_rel rs batches ->
  values_for k rs = map (gval k) (groups_of k batches) /\
  Permutation (concat (map gall (groups_of k batches))) (vals k (concat batches)) /\
  (length (concat rs) <= length (concat batches))%nat.
Proof.
  induction 1 as [|r b rs batches (_ & Hlen & Hv) _ (IH1 & IH2 & IH3)]; [splits; [reflexivity|constructor|apply le_n]|].
  rewrite <- vals_concat in *. unfold groups_of in *. cbn [concat map].
  rewrite vals_app, map_app, map_app, concat_app, vals_app, IH1, Hv, !app_length. splits.
  - f_equal. unfold group_of. destruct (vals k (sort b)); reflexivity.
  - apply Permutation_app; [|exact IH2]. eapply Permutation_trans; [|apply vals_perm, sort_perm].
    destruct (vals k (sort b)); [constructor|]. cbn [map concat gall fst snd]. rewrite app_nil_r. reflexivity.
  - lia.
Qed.

Lemma in_keys_vals k : forall l : list entry, In k (map fst l) <-> vals k l <> [].
Proof.
  intros l. unfold vals. induction l as [|[k' v'] l IHl]; [cbn; tauto|]. cbn [map fst filter In]. unfold beq.
  destruct (bcmp k' k) eqn:E; cbn [map]; [|rewrite <- IHl|rewrite <- IHl].
  - apply bcmp_eq in E. split; [discriminate|]. intros _. left. exact E.
  - split; [intros [Ek|Hx]; [subst; rewrite bcmp_refl in E; discriminate|exact Hx]|intros Hx; right; exact Hx].
  - split; [intros [Ek|Hx]; [subst; rewrite bcmp_refl in E; discriminate|exact Hx]|intros Hx; right; exact Hx].
Qed.

Lemma perm_nil_iff {A} (a b : list A) : Permutation a b -> (a = [] <-> b = []).
Proof.
  intros H. split; intros ->; [apply Permutation_nil, H|apply Permutation_nil, Permutation_sym, H].
Qed.

Lemma groups_nil_iff (gs : list (bytes * list bytes)) : gs = [] <-> concat (map gall gs) = [].
Proof. destruct gs as [|[b ys] gs]; [tauto|]. split; discriminate. Qed.

Lemma chunk_rel_sorted rs batches : Forall2 chunk_rel rs batches -> Forall ssorted rs.
Proof.
  induction 1 as [|r b rs0 bs Hrb _ IH]; [constructor|]. constructor; [|exact IH].
  apply keys_lt_ssorted. exact (proj1 Hrb).
Qed.

Theorem sorter_output max_memory ops :
  exists s, adds (sorter_init max_memory) ops = Ok s /\
  exists s' it, sorter_iter (Some mf) sort s = Ok (s', Some it) /\
    let out := mdrain mf (S (length ops)) it in
    StronglySorted (fun a b => bcmp (fst a) (fst b) = Lt) out /\
    (forall k, In k (map fst out) <-> In k (map fst ops)) /\
    Forall (fun e => exists first rest, Permutation (first :: rest) (values_for (fst e) [ops]) /\
                                        fold_merge mf (fst e) first rest = Some (snd e)) out.
Proof.
  assert (H0 : sinv (sorter_init max_memory) []) by (unfold sinv, sorter_init; cbn; split; [reflexivity|exists []; split; constructor]).
  destruct (adds_spec ops _ _ H0) as (s & Hadds & Hs). cbn [app] in Hs. exists s. split; [exact Hadds|].
  (* the final flush *)
  assert (Hfl : exists s1, (match so_vec s with [] => Ok (s, true) | _ :: _ => sorter_flush (Some mf) sort s end) = Ok (s1, true) /\ sinv s1 ops /\ so_vec s1 = []).
  { destruct (so_vec s) eqn:Ev; [exists s; splits; [reflexivity|exact Hs|exact Ev]|].
    destruct (flush_spec s ops Hs) as (s1 & H1 & H2 & H3 & _). exists s1. splits; assumption. }
  destruct Hfl as (s1 & Hfl & (Hi1 & batches & Hf2 & Hperm) & Hv1). rewrite Hv1, app_nil_r in Hperm.
  destruct (Forall2_chunks _ _ Hf2) as (rs & Hch & Hrs).
  unfold sorter_iter. rewrite Hfl, Hch.
  replace (existsb (fun c : option (list entry) => match c with Some _ => false | None => true end) (map Some rs)) with false
    by (symmetry; clear; induction rs as [|r rs IHrs]; [reflexivity|exact IHrs]).
  rewrite map_map.
  pose proof (chunk_rel_sorted rs batches Hrs) as Hsorted.
  assert (Htot : forall k a b, mf k a b <> None) by (intros; discriminate).
  destruct (merge_sources_fuel mf rs Hsorted Htot) as (it & Hmk & Hout). rewrite Hmk.
  eexists _, it. split; [reflexivity|].
  assert (Hlen : (length (concat rs) <= length ops)%nat).
  { destruct (values_groups [] rs batches Hrs) as (_ & _ & Hl). rewrite <- (Permutation_length Hperm). exact Hl. }
  destruct (Hout (length ops) Hlen) as (Hso & Hkeys & Hvals). splits.
  - exact Hso.
  - intros k. rewrite Hkeys, !in_keys_vals. destruct (values_groups k rs batches Hrs) as (E1 & E2 & _).
    rewrite vals_concat, E1.
    assert (Hn : map (gval k) (groups_of k batches) = [] <-> vals k ops = []).
    { rewrite <- (perm_nil_iff _ _ (vals_perm k _ _ Hperm)), <- (perm_nil_iff _ _ E2), <- groups_nil_iff.
      destruct (groups_of k batches); [tauto|split; discriminate]. }
    tauto.
  - eapply Forall_impl; [|exact Hvals]. intros [k v] (first & rest & Hp & Hf). cbn [fst snd] in *.
    destruct (values_groups k rs batches Hrs) as (E1 & E2 & _). rewrite E1 in Hp.
    destruct (Permutation_map_inv _ _ Hp) as (gs' & Egs & Hpg).
    destruct gs' as [|[b1 ys1] gs'']; [discriminate|]. cbn [map] in Egs. inversion Egs; subst first rest.
    exists b1, (ys1 ++ concat (map gall gs'')). split.
    + change (b1 :: ys1 ++ concat (map gall gs'')) with (concat (map gall ((b1, ys1) :: gs''))).
      eapply Permutation_trans; [apply Permutation_concat_map, Permutation_sym, Hpg|].
      eapply Permutation_trans; [exact E2|]. rewrite <- vals_concat. cbn [concat]. rewrite app_nil_r. apply vals_perm, Hperm.
    + rewrite fold_merge_F in Hf |- *. rewrite <- Hf. unfold gval at 1. cbn [fst snd]. rewrite flatten_groups. reflexivity.
Qed.
End SorterFull.
