(* C18: the OLD sorter code (before 7721227, 541a3d1, 650dd74, 6dca6c0) run in the same model
   violates all_destroyed_clean; each variant comes with a concrete history (vm_compute). *)
From Coq Require Import NArith List Bool.
From Mtbl Require Import model.ResCore model.ResT1 model.ResSorter model.Resources proofs.ResourceProofs.
Import ListNotations.
Local Open Scope N_scope.

Definition clean_v (v : svariant) : Prop :=
  forall ops, wf_history ops = true -> all_destroyed (rrun_v v ops) -> live (rrun_v v ops) = [].

(* the theorem of ResourceProofs is clean_v v_current *)
Lemma clean_current : clean_v v_current.
Proof. exact all_destroyed_clean. Qed.

Ltac refute h :=
  match goal with |- ~ clean_v ?v =>
    intros H;
    assert (W : wf_history h = true) by (vm_compute; reflexivity);
    assert (D : all_destroyedb (rrun_v v h) = true) by (vm_compute; reflexivity);
    specialize (H h W (all_destroyedb_spec _ D)); vm_compute in H; discriminate H
  end.

(* 7721227: the spill in mtbl_sorter_add never closed the mkstemp descriptor *)
Definition h_spill : list rop :=
  [RSorterInit 1 None; RSorterAdd 1 None false; RSorterAdd 1 (Some [CWrite; CWrite]) false; RSorterDestroy 1].
Example spill_noclose_leak : live (rrun_v (mkv false true true true) h_spill) = [mkres 1 KFd].
Proof. vm_compute. reflexivity. Qed.
Theorem spill_noclose_pinned_refuted : ~ clean_v (mkv false true true true).
Proof. refute h_spill. Qed.

(* 541a3d1: merge callback failure inside _mtbl_sorter_write_chunk *)
Definition h_mergefail : list rop :=
  [RSorterInit 1 None; RSorterAdd 1 None false; RSorterAdd 1 None false;
   RSorterAdd 1 (Some [CWrite; CMergeFail]) false; RSorterDestroy 1].
Example spill_mergefail_leak :
  live (rrun_v (mkv true false true true) h_mergefail)
  = [mkres 1 KFd; mkres 1 HSEntry; mkres 1 HSEntry; mkres 1 HEntryVec].
Proof. vm_compute. reflexivity. Qed.
Theorem spill_mergefail_pinned_refuted : ~ clean_v (mkv true false true true).
Proof. refute h_mergefail. Qed.

(* 650dd74: mtbl_sorter_iter, final flush fails *)
Definition h_iterfail : list rop :=
  [RSorterInit 1 None; RSorterAdd 1 None false; RSorterAdd 1 None false;
   RSorterIter 2 1 [CMergeFail] oc_default false; RIterDestroy 2; RSorterDestroy 1].
Example iter_mopt_leak : live (rrun_v (mkv true true false true) h_iterfail) = [mkres 2 HMergerOpts].
Proof. vm_compute. reflexivity. Qed.
Theorem sorter_iter_pinned_refuted : ~ clean_v (mkv true true false true).
Proof. refute h_iterfail. Qed.

(* 6dca6c0: mtbl_sorter_destroy freed the readers before joining the handler *)
Definition h_latejoin : list rop :=
  [RPoolInit 9 1; RSorterInit 1 (Some 9); RSorterAdd 1 (Some [CWrite]) false; RSorterDestroy 1; RPoolDestroy 9].
Example destroy_latejoin_leak :
  live (rrun_v (mkv true true true false) h_latejoin)
  = [mkres 1 HSource; mkres 1 HBlock; mkres 1 KMap; mkres 1 HReader].
Proof. vm_compute. reflexivity. Qed.
Theorem sorter_destroy_pinned_refuted : ~ clean_v (mkv true true true false).
Proof. refute h_latejoin. Qed.

(* the pinned tree had all four defects *)
Theorem pinned_tree_refuted : ~ clean_v (mkv false false false false).
Proof. refute h_spill. Qed.

(* the same histories are clean with the current code *)
Example current_clean :
  live (rrun h_spill) = [] /\ live (rrun h_mergefail) = [] /\ live (rrun h_iterfail) = [] /\ live (rrun h_latejoin) = [].
Proof. vm_compute. repeat split; reflexivity. Qed.

Print Assumptions spill_noclose_pinned_refuted.
Print Assumptions spill_mergefail_pinned_refuted.
Print Assumptions sorter_iter_pinned_refuted.
Print Assumptions sorter_destroy_pinned_refuted.
