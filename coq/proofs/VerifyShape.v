(* C12, file level: the shape of a file that differs from  pre ++ frame ++ post  only inside the
   checksum field and the stored bytes of that frame: it is  pre ++ fr c s' ++ post  for the field value
   c < 2^32 and stored bytes s' of the same length that it contains there. *)
From Coq Require Import NArith ZArith List Lia ZifyBool ZifyN ZifyNat.
From Mtbl Require Import model.Bytes model.Codec model.Crc spec.Leb128
  proofs.BytesLemmas proofs.CodecProofs proofs.WriterProofs proofs.CrcBurst proofs.VerifyProofs.
Local Open Scope N_scope.

Lemma nth_firstn_lt {A} (d : A) : forall l n k, (k < n)%nat -> nth k (firstn n l) d = nth k l d.
Proof.
  induction l as [|x l IH]; intros n k H; [rewrite firstn_nil; reflexivity|].
  destruct n as [|n]; [lia|]. destruct k as [|k]; [reflexivity|]. cbn [firstn nth]. apply IH. lia.
Qed.
Lemma nth_skipn_add {A} (d : A) : forall l n k, nth k (skipn n l) d = nth (n + k) l d.
Proof.
  induction l as [|x l IH]; intros n k; [rewrite skipn_nil; destruct k, n; reflexivity|].
  destruct n as [|n]; [reflexivity|]. cbn [skipn Nat.add nth]. apply IH.
Qed.

(* a list that agrees with  a ++ body ++ post  outside [body] *)
Lemma splice_shape {A} (d : A) (a body post l' : list A) :
  length l' = length (a ++ body ++ post) ->
  (forall k, (k < length a \/ length a + length body <= k)%nat -> nth k l' d = nth k (a ++ body ++ post) d) ->
  exists body', length body' = length body /\ l' = a ++ body' ++ post.
Proof.
  intros Hlen Hag. rewrite !app_length in Hlen.
  exists (firstn (length body) (skipn (length a) l')). split.
  - rewrite firstn_length, skipn_length. lia.
  - rewrite <- (firstn_skipn (length a) l') at 1. f_equal.
    + apply (nth_ext _ _ d d); [rewrite firstn_length; lia|]. intros k Hk. rewrite firstn_length in Hk.
      rewrite nth_firstn_lt by lia. rewrite Hag by lia. rewrite app_nth1 by lia. reflexivity.
    + rewrite <- (firstn_skipn (length body) (skipn (length a) l')) at 1. f_equal.
      rewrite skipn_skipn'. apply (nth_ext _ _ d d); [rewrite skipn_length; lia|]. intros k Hk. rewrite skipn_length in Hk.
      rewrite nth_skipn_add. rewrite Hag by lia. rewrite app_nth2 by lia. rewrite app_nth2 by lia. f_equal. lia.
Qed.

Lemma wf_firstn n (l : bytes) : wf_bytes l -> wf_bytes (firstn n l).
Proof. intros H. rewrite <- (firstn_skipn n l) in H. apply Forall_app in H. tauto. Qed.
Lemma wf_skipn n (l : bytes) : wf_bytes l -> wf_bytes (skipn n l).
Proof. intros H. rewrite <- (firstn_skipn n l) in H. apply Forall_app in H. tauto. Qed.

(* four bytes are the little-endian encoding of their value *)
Lemma le_encode_of_bytes (l : bytes) : wf_bytes l -> length l = 4%nat -> le_value l < 2 ^ 32 /\ le_encode 4 (le_value l) = l.
Proof.
  intros Hw Hl. pose proof (le_value_bound l Hw) as Hb. rewrite Hl in Hb. change (2 ^ N.of_nat (8 * 4)) with (2 ^ 32) in Hb.
  split; [exact Hb|]. apply le_value_inj; [apply le_encode_wf|exact Hw|rewrite le_encode_length; congruence|].
  rewrite le_encode_value. change (256 ^ N.of_nat 4) with 4294967296. change (2 ^ 32) with 4294967296 in Hb.
  apply N.mod_small, Hb.
Qed.

(* T12b_damage_shape *)
Theorem damage_shape (pre s post f' : bytes) (c0 : N) :
  wf_bytes f' ->
  length f' = length (pre ++ fr c0 s ++ post) ->
  (forall k, (k < length pre + length (leb128 (len s)) \/ length pre + length (leb128 (len s)) + 4 + length s <= k)%nat ->
             nth k f' 0 = nth k (pre ++ fr c0 s ++ post) 0) ->
  exists c s', c < 2 ^ 32 /\ len s' = len s /\ f' = pre ++ fr c s' ++ post.
Proof.
  intros Hw Hlen Hag.
  set (hdr := leb128 (len s)) in *.
  assert (E : pre ++ fr c0 s ++ post = (pre ++ hdr) ++ (le_encode 4 c0 ++ s) ++ post)
    by (unfold fr; fold hdr; rewrite <- !app_assoc; reflexivity).
  rewrite E in Hlen, Hag.
  destruct (splice_shape 0 (pre ++ hdr) (le_encode 4 c0 ++ s) post f' Hlen) as (body' & Hbl & Hf').
  { intros k Hk. apply Hag. rewrite !app_length, le_encode_length in Hk. lia. }
  rewrite app_length, le_encode_length in Hbl.
  assert (Hwb : wf_bytes body').
  { rewrite Hf' in Hw. apply Forall_app in Hw as [_ Hw]. apply Forall_app in Hw as [Hw _]. exact Hw. }
  destruct (le_encode_of_bytes (firstn 4 body') (wf_firstn 4 body' Hwb)) as [Hc Henc].
  { rewrite firstn_length. lia. }
  exists (le_value (firstn 4 body')), (skipn 4 body'). split; [exact Hc|]. split.
  - unfold len. rewrite skipn_length. lia.
  - rewrite Hf'. unfold fr. replace (len (skipn 4 body')) with (len s) by (unfold len; rewrite skipn_length; lia).
    fold hdr. rewrite Henc. rewrite <- !app_assoc. f_equal. f_equal. rewrite app_assoc, firstn_skipn. reflexivity.
Qed.
Print Assumptions damage_shape.
