(* Tier 5, partial: what a stuck state can look like.  In every reachable state (Inv1) in
   which no thread can run, a thread that has not exited is waiting in pthread_cond_wait,
   or in pthread_join, or for the pool mutex held by the destroyer which itself waits in
   pthread_join: there is no cycle of threads waiting for each other's mutexes.
   (The unconditional T13d_statement is false: see PoolCex.T13d_statement_false.) *)
From Coq Require Import NArith List Lia ZifyBool ZifyN ZifyNat Bool Arith.
From Mtbl Require Import model.Bytes model.Pool proofs.PoolBase proofs.PoolSched proofs.PoolInv proofs.PoolLife proofs.PoolStep2 proofs.PoolAbort.
Import ListNotations.

(* a thread that holds a mutex and cannot run is the destroyer, at P3 (locking a worker) or P5 (joining it) *)
Lemma stuck_holder st u m : Inv1 st -> enabled st u = false -> In m (holds (gett st u)) ->
  m = OPoolM /\ ((t_op (gett st u) = KLock /\ exists i, t_lab (gett st u) = P3 i /\ t_obj (gett st u) = OWm i) \/
                 (t_op (gett st u) = KJoin /\ t_lab (gett st u) = P5)).
Proof.
  intros I En Hin. pose proof (i1_shape _ I u) as S. unfold shape in S.
  apply andb_prop in S. destruct S as [S S3]. apply andb_prop in S. destruct S as [S1 S2].
  unfold enabled in En. unfold holds in Hin.
  destruct (t_done (gett st u)) eqn:Ed.
  { apply andb_prop in S2. destruct S2 as [S2 _]. destruct (t_op (gett st u)); try discriminate. destruct Hin. }
  destruct (t_blocked (gett st u)) eqn:Eb.
  { apply andb_prop in S3. destruct S3 as [S3 _]. destruct (t_op (gett st u)); try discriminate. destruct Hin. }
  destruct (t_op (gett st u)) eqn:Eop; try discriminate; try (destruct Hin; fail).
  - (* KLock *)
    destruct (t_lab (gett st u)) eqn:El; try (destruct Hin; fail). destruct Hin as [<-|[]].
    split; [reflexivity|]. left. split; [reflexivity|]. eexists. split; [reflexivity|].
    cbn [allowed] in S1. unfold is_op in S1. cbn [opk_eqb andb] in S1.
    match type of S1 with obj_eqb ?a ?b = true => destruct (obj_eqb_spec a b); [assumption|discriminate] end.
  - (* KJoin *)
    destruct (t_lab (gett st u)) eqn:El; try (destruct Hin; fail). destruct Hin as [<-|[]].
    split; [reflexivity|]. right. split; reflexivity.
Qed.

Definition terminal_st (st : pstate) : Prop := forall t, enabled st t = false.

Theorem T13_no_mutex_cycle : forall st, Inv1 st -> terminal_st st ->
  forall t, (t < length (ps_threads st))%nat -> t_done (gett st t) = false ->
    t_blocked (gett st t) <> None \/
    t_op (gett st t) = KJoin \/
    (t_obj (gett st t) = OPoolM /\ (t_op (gett st t) = KLock \/ t_op (gett st t) = KReacq) /\
     exists u, owner_of st OPoolM = Some u /\ t_op (gett st u) = KJoin /\ t_lab (gett st u) = P5).
Proof.
  intros st I T t Ht Hd.
  destruct (t_blocked (gett st t)) eqn:Eb; [left; discriminate|]. right.
  pose proof (T t) as En. unfold enabled in En. rewrite Hd, Eb in En.
  assert (Lk : forall m, owner_of st m <> None ->
               m = OPoolM /\ exists u, owner_of st OPoolM = Some u /\ t_op (gett st u) = KJoin /\ t_lab (gett st u) = P5).
  { intros m Hm. destruct (owner_of st m) as [u|] eqn:Eo; [|congruence].
    pose proof (proj1 (i1_own _ I m u) Eo) as Hin.
    destruct (stuck_holder st u m I (T u) Hin) as [-> [[Eop (i & El & Eob)]|[Eop El]]].
    - exfalso. pose proof (T u) as Eu. unfold enabled in Eu.
      pose proof (i1_shape _ I u) as S. unfold shape in S.
      destruct (t_done (gett st u)) eqn:Ed.
      { apply andb_prop in S. destruct S as [S _]. apply andb_prop in S. destruct S as [_ S].
        apply andb_prop in S. destruct S as [S _]. rewrite Eop in S. discriminate. }
      destruct (t_blocked (gett st u)) eqn:Ebu.
      { apply andb_prop in S. destruct S as [_ S]. apply andb_prop in S. destruct S as [S _]. rewrite Eop in S. discriminate. }
      rewrite Eop, Eob in Eu. destruct (owner_of st (OWm i)) as [v|] eqn:Ev; [|discriminate].
      pose proof (proj1 (i1_own _ I (OWm i) v) Ev) as Hv.
      destruct (stuck_holder st v (OWm i) I (T v) Hv) as [Hc _]. discriminate.
    - split; [reflexivity|]. exists u. auto. }
  destruct (t_op (gett st t)) eqn:Eop; try discriminate; try (left; reflexivity); right.
  - destruct (owner_of st (t_obj (gett st t))) as [u|] eqn:Eo; [|discriminate].
    destruct (Lk (t_obj (gett st t))) as [E1 E2]; [rewrite Eo; discriminate|]. rewrite E1. split; [reflexivity|]. split; [left; reflexivity|exact E2].
  - destruct (owner_of st (t_obj (gett st t))) as [u|] eqn:Eo; [|discriminate].
    destruct (Lk (t_obj (gett st t))) as [E1 E2]; [rewrite Eo; discriminate|]. rewrite E1. split; [reflexivity|]. split; [right; reflexivity|exact E2].
Qed.

(* in a stuck state the only mutex that can be held is the pool mutex, by the destroyer joining a worker *)
Lemma stuck_owner st m u : Inv1 st -> terminal_st st -> owner_of st m = Some u ->
  m = OPoolM /\ t_op (gett st u) = KJoin /\ t_lab (gett st u) = P5.
Proof.
  intros I T Eo.
  pose proof (proj1 (i1_own _ I m u) Eo) as Hin.
  destruct (stuck_holder st u m I (T u) Hin) as [-> [[Eop (i & El & Eob)]|[Eop El]]]; [|auto].
  exfalso. pose proof (T u) as Eu. unfold enabled in Eu.
  pose proof (i1_shape _ I u) as S. unfold shape in S.
  destruct (t_done (gett st u)) eqn:Ed.
  { apply andb_prop in S. destruct S as [S _]. apply andb_prop in S. destruct S as [_ S].
    apply andb_prop in S. destruct S as [S _]. rewrite Eop in S. discriminate. }
  destruct (t_blocked (gett st u)) eqn:Ebu.
  { apply andb_prop in S. destruct S as [_ S]. apply andb_prop in S. destruct S as [S _]. rewrite Eop in S. discriminate. }
  rewrite Eop, Eob in Eu. destruct (owner_of st (OWm i)) as [v|] eqn:Ev; [|discriminate].
  pose proof (proj1 (i1_own _ I (OWm i) v) Ev) as Hv.
  destruct (stuck_holder st v (OWm i) I (T v) Hv) as [Hc _]. discriminate.
Qed.

Print Assumptions T13_no_mutex_cycle.
