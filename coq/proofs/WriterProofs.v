From Coq Require Import NArith ZArith List Lia ZifyBool ZifyN ZifyNat.
From Mtbl Require Import gen.Consts model.Bytes model.Codec model.Order model.Block model.Crc model.Writer
  spec.Leb128 proofs.BytesLemmas proofs.CodecProofs proofs.OrderProofs.
Local Open Scope N_scope.
Ltac Zify.zify_post_hook ::= Z.div_mod_to_equations.
Ltac splits := repeat match goal with |- _ /\ _ => split end.

(* ---------------- specification of acceptance (C08) --------------------------- *)
(* an add is accepted iff it is the first accepted one or its key is strictly
   greater than the last accepted key *)
Fixpoint accept_spec (last : option bytes) (ops : list entry) : list bool :=
  match ops with
  | [] => []
  | (k, v) :: tl =>
    let ok := match last with None => true | Some l => match bcmp k l with Gt => true | _ => false end end in
    ok :: accept_spec (if ok then Some k else last) tl
  end.
Fixpoint accepted (last : option bytes) (ops : list entry) : list entry :=
  match ops with
  | [] => []
  | (k, v) :: tl =>
    let ok := match last with None => true | Some l => match bcmp k l with Gt => true | _ => false end end in
    if ok then (k, v) :: accepted (Some k) tl else accepted last tl
  end.
Definition last_of (last : option bytes) (ops : list entry) : option bytes :=
  fold_left (fun l kv => match l with
                         | None => Some (fst kv)
                         | Some x => match bcmp (fst kv) x with Gt => Some (fst kv) | _ => l end
                         end) ops last.

Section WithCompress.
Variable compress_default : N -> bytes -> res bytes.
Variable compress_level : N -> Z -> bytes -> res bytes.
(* assumption about the outside world: compression of a block never fails *)
Hypothesis compress_default_total : forall a raw, exists c, compress_default a raw = Ok c.
Hypothesis compress_level_total : forall a l raw, exists c, compress_level a l raw = Ok c.

Notation writer_add := (writer_add compress_default compress_level).
Notation writer_flush := (writer_flush compress_default compress_level).
Notation writer_finish := (writer_finish compress_default compress_level).
Notation writer_adds := (writer_adds compress_default compress_level).
Notation writer_session := (writer_session compress_default compress_level).
Notation compress_block := (compress_block compress_default compress_level).

Lemma compress_block_total o raw : exists c, compress_block o raw = Ok c.
Proof.
  unfold Writer.compress_block. destruct (wo_comp o =? COMP_NONE); [eexists; reflexivity|].
  destruct (Z.eqb (wo_level o) DEFAULT_COMPRESSION_LEVEL).
  - destruct (compress_default_total (wo_comp o) raw) as [c ->]. eexists; reflexivity.
  - destruct (compress_level_total (wo_comp o) (wo_level o) raw) as [c ->]. eexists; reflexivity.
Qed.

(* ---------------- block builder invariant --------------------------------------- *)
Definition bb_ok (b : bb) : Prop :=
  bb_counter b <= bb_interval b /\ bb_finished b = false /\ 1 <= bb_interval b.

Lemma bb_init_ok i : 1 <= i -> bb_ok (bb_init i).
Proof. intros H. unfold bb_ok, bb_init; cbn. repeat split; lia. Qed.
Lemma bb_reset_ok b : bb_ok b -> bb_ok (bb_reset b).
Proof. intros (H1 & H2 & H3). unfold bb_ok, bb_reset; cbn. repeat split; lia. Qed.

Lemma bb_add_ok b k v : bb_ok b -> exists b', bb_add b k v = Ok b' /\ bb_ok b' /\
  bb_interval b' = bb_interval b.
Proof.
  intros (H1 & H2 & H3). unfold bb_add. rewrite H2.
  replace (bb_counter b <=? bb_interval b) with true by lia. cbn [negb orb].
  eexists. split; [reflexivity|]. unfold bb_ok; cbn. split; [|reflexivity].
  repeat split; try lia. destruct (bb_counter b <? bb_interval b) eqn:E; lia.
Qed.

(* ---------------- writer invariant ---------------------------------------------- *)
Definition wlast (w : writer) : option bytes :=
  if m_count_entries (w_m w) =? 0 then None else Some (w_last_key w).

Record winv (w : writer) : Prop := {
  wi_open : w_closed w = false;
  wi_data : bb_ok (w_data w);
  wi_index : bb_ok (w_index w);
  wi_lk : wf_bytes (w_last_key w);
  wi_first : m_count_entries (w_m w) = 0 -> w_last_key w = [];
}.

Lemma write_data_block_ok w lk stored : bb_ok (w_index w) ->
  exists w', write_data_block w lk stored = Ok w' /\ bb_ok (w_index w') /\
    w_data w' = w_data w /\ w_closed w' = w_closed w /\ w_last_key w' = w_last_key w /\
    w_opt w' = w_opt w /\
    m_count_entries (w_m w') = m_count_entries (w_m w) /\
    m_bytes_keys (w_m w') = m_bytes_keys (w_m w) /\ m_bytes_values (w_m w') = m_bytes_values (w_m w).
Proof.
  intros Hi. unfold write_data_block.
  destruct (bb_add_ok (w_index w) lk (varint_encode64 (w_pending_offset w)) Hi) as (idx & -> & Hok & _).
  eexists. split; [reflexivity|]. cbn. splits; try reflexivity. exact Hok.
Qed.

Lemma writer_flush_ok w : w_closed w = false -> bb_ok (w_data w) -> bb_ok (w_index w) ->
  exists w', writer_flush w = Ok w' /\ bb_ok (w_data w') /\ bb_ok (w_index w') /\
    w_closed w' = false /\ w_last_key w' = w_last_key w /\ w_opt w' = w_opt w /\
    m_count_entries (w_m w') = m_count_entries (w_m w) /\
    m_bytes_keys (w_m w') = m_bytes_keys (w_m w) /\ m_bytes_values (w_m w') = m_bytes_values (w_m w).
Proof.
  intros Hc Hd Hi. unfold Writer.writer_flush. rewrite Hc.
  destruct (bb_empty (w_data w)); [exists w; splits; try assumption; reflexivity|].
  destruct (compress_block_total (w_opt w) (bb_finish (w_data w))) as [c ->].
  match goal with |- context [write_data_block ?w1 ?lk ?st] =>
    destruct (write_data_block_ok w1 lk st Hi) as (w' & -> & Hok & Hdat & Hcl & Hlk & Hopt & Hm1 & Hm2 & Hm3) end.
  exists w'. cbn in *. split; [reflexivity|]. rewrite Hdat, Hcl, Hlk, Hopt, Hm1, Hm2, Hm3.
  splits; try assumption; try reflexivity. apply bb_reset_ok, Hd.
Qed.

(* T08a / T08c: the gate, and a refused add returns the state unchanged *)
Lemma writer_add_spec w k v : winv w -> wf_bytes k ->
  let ok := match wlast w with None => true | Some l => match bcmp k l with Gt => true | _ => false end end in
  exists w', writer_add w k v = Ok (w', ok) /\
    (ok = false -> w' = w) /\
    (ok = true -> winv w' /\ w_last_key w' = k /\
                  m_count_entries (w_m w') = m_count_entries (w_m w) + 1 /\
                  m_bytes_keys (w_m w') = m_bytes_keys (w_m w) + len k /\
                  m_bytes_values (w_m w') = m_bytes_values (w_m w) + len v /\
                  w_opt w' = w_opt w).
Proof.
  intros [Hc Hd Hi Hlk Hfirst] Hk. unfold wlast. cbn zeta.
  unfold Writer.writer_add. rewrite Hc. unfold WRITER_GATE_IS_STRICT. cbn [negb].
  destruct (m_count_entries (w_m w) =? 0) eqn:E0.
  - (* first entry *)
    replace (0 <? m_count_entries (w_m w)) with false by lia. cbn [andb].
    assert (Hl : w_last_key w = []) by (apply Hfirst; lia). rewrite Hl.
    cbn [sep sep_early negb andb].
    match goal with |- context [if ?c then _ else Ok w] => destruct c end.
    + match goal with |- context [Writer.writer_flush _ _ ?w0] =>
        assert (Hc0 : w_closed w0 = false) by (cbn; first [reflexivity|exact Hc]); destruct (writer_flush_ok w0 Hc0 Hd Hi) as (w1 & -> & Hd1 & Hi1 & Hc1 & Hlk1 & Hopt1 & Hm1 & Hm2 & Hm3) end.
      destruct (bb_add_ok (w_data w1) k v Hd1) as (d & -> & Hdok & _).
      eexists. split; [reflexivity|]. split; [discriminate|]. intros _. cbn in *.
      split; [constructor; cbn; try assumption; lia|]. rewrite Hm1, Hm2, Hm3. splits; try reflexivity. exact Hopt1.
    + destruct (bb_add_ok (w_data w) k v Hd) as (d & -> & Hdok & _).
      eexists. split; [reflexivity|]. split; [discriminate|]. intros _. cbn.
      split; [constructor; cbn; try assumption; lia|]. splits; reflexivity.
  - replace (0 <? m_count_entries (w_m w)) with true by lia. cbn [andb].
    destruct (bcmp k (w_last_key w)) eqn:Ecmp; cbn [negb].
    + exists w. split; [reflexivity|]. split; [reflexivity|discriminate].
    + exists w. split; [reflexivity|]. split; [reflexivity|discriminate].
    + assert (Hlt : bcmp (w_last_key w) k = Lt) by (apply bcmp_lt_gt; exact Ecmp).
      match goal with |- context [if ?c then _ else Ok w] => destruct c end.
      * rewrite (sep_assert_ok _ _ Hlk Hk Hlt). rewrite Bool.andb_false_r.
        match goal with |- context [Writer.writer_flush _ _ ?w0] =>
          assert (Hc0 : w_closed w0 = false) by (cbn; first [reflexivity|exact Hc]); destruct (writer_flush_ok w0 Hc0 Hd Hi) as (w1 & -> & Hd1 & Hi1 & Hc1 & Hlk1 & Hopt1 & Hm1 & Hm2 & Hm3) end.
        destruct (bb_add_ok (w_data w1) k v Hd1) as (d & -> & Hdok & _).
        eexists. split; [reflexivity|]. split; [discriminate|]. intros _. cbn in *.
        split; [constructor; cbn; try assumption; lia|]. rewrite Hm1, Hm2, Hm3. splits; try reflexivity. exact Hopt1.
      * destruct (bb_add_ok (w_data w) k v Hd) as (d & -> & Hdok & _).
        eexists. split; [reflexivity|]. split; [discriminate|]. intros _. cbn.
        split; [constructor; cbn; try assumption; lia|]. splits; reflexivity.
Qed.

Lemma wlast_after_accept w w' k : m_count_entries (w_m w') = m_count_entries (w_m w) + 1 ->
  w_last_key w' = k -> wlast w' = Some k.
Proof. intros H1 H2. unfold wlast. replace (m_count_entries (w_m w') =? 0) with false by lia. congruence. Qed.

(* T08b: any sequence of adds - results are exactly the specification's, never aborts;
   counters equal the accepted totals (used by C10) *)
Lemma writer_adds_spec : forall ops w, winv w -> Forall (fun kv => wf_bytes (fst kv)) ops ->
  exists w', writer_adds w ops = Ok (w', accept_spec (wlast w) ops) /\ winv w' /\
    wlast w' = last_of (wlast w) ops /\
    m_count_entries (w_m w') = m_count_entries (w_m w) + N.of_nat (length (accepted (wlast w) ops)) /\
    m_bytes_keys (w_m w') = m_bytes_keys (w_m w) + fold_right (fun kv s => len (fst kv) + s) 0 (accepted (wlast w) ops) /\
    m_bytes_values (w_m w') = m_bytes_values (w_m w) + fold_right (fun kv s => len (snd kv) + s) 0 (accepted (wlast w) ops) /\
    w_opt w' = w_opt w.
Proof.
  induction ops as [|[k v] ops IH]; intros w Hw Hwf.
  - exists w. cbn. splits; try assumption; try reflexivity; lia.
  - inversion Hwf as [|? ? Hk Hwf']; subst. cbn [fst] in Hk.
    destruct (writer_add_spec w k v Hw Hk) as (w1 & Hadd & Hno & Hyes). cbn zeta in *.
    cbn [Writer.writer_adds accept_spec accepted last_of fold_left fst]. rewrite Hadd.
    destruct (match wlast w with None => true | Some l => match bcmp k l with Gt => true | _ => false end end) eqn:Eok.
    + destruct (Hyes eq_refl) as (Hw1 & Hlk1 & Hc1 & Hk1 & Hv1 & Ho1).
      pose proof (wlast_after_accept w w1 k Hc1 Hlk1) as Hl1.
      destruct (IH w1 Hw1 Hwf') as (w2 & -> & Hw2 & Hl2 & Hc2 & Hk2 & Hv2 & Ho2).
      exists w2. rewrite Hl1 in *. split; [reflexivity|]. split; [exact Hw2|].
      split.
      { rewrite Hl2. f_equal. destruct (wlast w) as [l|]; [|reflexivity].
        destruct (bcmp k l); try discriminate; reflexivity. }
      cbn [length fold_right fst snd]. rewrite Hc2, Hk2, Hv2, Hc1, Hk1, Hv1, Ho2, Ho1. splits; try reflexivity; lia.
    + rewrite (Hno eq_refl) in *.
      destruct (IH w Hw Hwf') as (w2 & -> & Hw2 & Hl2 & Hc2 & Hk2 & Hv2 & Ho2).
      exists w2. split; [reflexivity|]. split; [exact Hw2|]. split.
      { rewrite Hl2. f_equal. destruct (wlast w) as [l|]; [|discriminate].
        destruct (bcmp k l); try discriminate; reflexivity. }
      splits; assumption.
Qed.

Lemma writer_init_inv o off : 1 <= wo_interval o -> winv (writer_init o off).
Proof.
  intros H. constructor; cbn; try reflexivity; try (apply bb_init_ok; exact H); try constructor.
Qed.

End WithCompress.

(* ================= output structure and statistics (C10, framing part of C09) ===== *)

Definition frame (stored : bytes) : bytes :=
  varint_encode64 (len stored) ++ fixed_encode32 (crc32c_ref stored) ++ stored.

Lemma len_le_encode n v : len (le_encode n v) = N.of_nat n.
Proof. unfold len. rewrite le_encode_length. reflexivity. Qed.
Lemma len_fixed32 v : len (fixed_encode32 v) = 4.
Proof. unfold fixed_encode32. rewrite len_le_encode. reflexivity. Qed.
Lemma len_fixed64 v : len (fixed_encode64 v) = 8.
Proof. unfold fixed_encode64. rewrite len_le_encode. reflexivity. Qed.

Lemma frame_chunks stored : concat (block_chunks stored) = frame stored.
Proof. unfold block_chunks, frame. cbn [concat]. rewrite app_nil_r. reflexivity. Qed.
Lemma frame_len stored : len (frame stored) = block_written stored.
Proof. unfold frame, block_written. rewrite !len_app, len_fixed32. lia. Qed.

Lemma writer_bytes_cons_chunks w chunks :
  concat (rev (rev chunks ++ w_out w)) = concat (rev (w_out w)) ++ concat chunks.
Proof. rewrite rev_app_distr, rev_involutive, concat_app. reflexivity. Qed.

Section WithCompress2.
Variable compress_default : N -> bytes -> res bytes.
Variable compress_level : N -> Z -> bytes -> res bytes.
Notation writer_add := (writer_add compress_default compress_level).
Notation writer_flush := (writer_flush compress_default compress_level).
Notation writer_finish := (writer_finish compress_default compress_level).
Notation writer_adds := (writer_adds compress_default compress_level).
Notation writer_session := (writer_session compress_default compress_level).

(* ghost: [sl] = the stored (possibly compressed) data blocks written so far, in order *)
Record wout (off0 : N) (o : wopts) (w : writer) (sl : list bytes) : Prop := {
  wo_bytes : writer_bytes w = concat (map frame sl);
  wo_count : m_count_data_blocks (w_m w) = N.of_nat (length sl);
  wo_dbytes : m_bytes_data_blocks (w_m w) = len (concat (map frame sl));
  wo_pending : w_pending_offset w = off0 + len (concat (map frame sl));
  wo_bs : m_data_block_size (w_m w) = wo_block_size o;
  wo_alg : m_compression_algorithm (w_m w) = wo_comp o;
}.

Lemma wout_init o off0 : wout off0 o (writer_init o off0) [].
Proof. constructor; cbn; try reflexivity; lia. Qed.

Lemma write_data_block_out off0 o w lk stored sl w' :
  wout off0 o w sl -> write_data_block w lk stored = Ok w' -> wout off0 o w' (sl ++ [stored]).
Proof.
  intros [Hb Hc Hd Hp Hbs Halg] H. unfold write_data_block in H.
  destruct (bb_add (w_index w) lk (varint_encode64 (w_pending_offset w))) as [idx| | |]; try discriminate.
  inversion H; subst; clear H. unfold writer_bytes, writer_chunks in *. cbn [w_out w_m w_pending_offset
    m_count_data_blocks m_bytes_data_blocks m_data_block_size m_compression_algorithm].
  assert (Hm : concat (map frame (sl ++ [stored])) = concat (map frame sl) ++ frame stored)
    by (rewrite map_app, concat_app; cbn [map concat]; rewrite app_nil_r; reflexivity).
  constructor; unfold writer_bytes, writer_chunks;
    cbn [w_out w_m w_pending_offset m_count_data_blocks m_bytes_data_blocks m_data_block_size m_compression_algorithm];
    rewrite ?Hm.
  - cbn [rev]. rewrite !concat_app. cbn [concat]. rewrite !app_nil_r, <- !app_assoc, Hb. reflexivity.
  - rewrite Hc, app_length. cbn [length]. lia.
  - rewrite Hd, len_app, frame_len. reflexivity.
  - rewrite Hp, len_app, frame_len. lia.
  - exact Hbs.
  - exact Halg.
Qed.

Lemma wout_same off0 o w w' sl : wout off0 o w sl ->
  w_out w' = w_out w -> w_pending_offset w' = w_pending_offset w ->
  m_count_data_blocks (w_m w') = m_count_data_blocks (w_m w) ->
  m_bytes_data_blocks (w_m w') = m_bytes_data_blocks (w_m w) ->
  m_data_block_size (w_m w') = m_data_block_size (w_m w) ->
  m_compression_algorithm (w_m w') = m_compression_algorithm (w_m w) ->
  wout off0 o w' sl.
Proof.
  intros [Hb Hc Hd Hp Hbs Halg] H1 H2 H3 H4 H5 H6. constructor; try congruence.
  unfold writer_bytes, writer_chunks in *. rewrite H1. exact Hb.
Qed.

Lemma writer_flush_out off0 o w sl w' :
  wout off0 o w sl -> writer_flush w = Ok w' -> exists sl', wout off0 o w' sl'.
Proof.
  intros Ho H. unfold Writer.writer_flush in H.
  destruct (w_closed w); [discriminate|].
  destruct (bb_empty (w_data w)); [inversion H; subst; exists sl; exact Ho|].
  destruct (compress_block compress_default compress_level (w_opt w) (bb_finish (w_data w))) as [st| | |]; try discriminate.
  eexists. eapply write_data_block_out; [|exact H].
  eapply wout_same; [exact Ho| | | | | |]; reflexivity.
Qed.

Lemma writer_add_out off0 o w sl k v w' r :
  wout off0 o w sl -> writer_add w k v = Ok (w', r) -> exists sl', wout off0 o w' sl'.
Proof.
  intros Ho H. unfold Writer.writer_add in H.
  destruct (w_closed w); [discriminate|].
  match type of H with (if ?c then _ else _) = _ => destruct c end; [inversion H; subst; exists sl; exact Ho|].
  match type of H with context [if ?c then _ else Ok w] => destruct c end.
  - match type of H with context [if ?c then Abort else _] => destruct c end; [discriminate|].
    match type of H with context [Writer.writer_flush _ _ ?w0] =>
      destruct (Writer.writer_flush compress_default compress_level w0) as [w1| | |] eqn:Ef; try discriminate;
      assert (Ho0 : wout off0 o w0 sl) by (eapply wout_same; [exact Ho| | | | | |]; reflexivity) end.
    destruct (writer_flush_out _ _ _ _ _ Ho0 Ef) as [sl1 Ho1].
    destruct (bb_add (w_data w1) k v) as [d| | |]; try discriminate. inversion H; subst; clear H.
    exists sl1. eapply wout_same; [exact Ho1| | | | | |]; reflexivity.
  - destruct (bb_add (w_data w) k v) as [d| | |]; try discriminate. inversion H; subst; clear H.
    exists sl. eapply wout_same; [exact Ho| | | | | |]; reflexivity.
Qed.

Lemma writer_adds_out : forall ops off0 o w sl w' rs,
  wout off0 o w sl -> writer_adds w ops = Ok (w', rs) -> exists sl', wout off0 o w' sl'.
Proof.
  induction ops as [|[k v] ops IH]; intros off0 o w sl w' rs Ho H; cbn [Writer.writer_adds] in H.
  - inversion H; subst. exists sl. exact Ho.
  - destruct (writer_add w k v) as [[w1 r]| | |] eqn:Ea; try discriminate.
    destruct (writer_add_out _ _ _ _ _ _ _ _ Ho Ea) as [sl1 Ho1].
    destruct (writer_adds w1 ops) as [[w2 rs2]| | |] eqn:Er; try discriminate.
    inversion H; subst. eapply IH; eassumption.
Qed.

(* the finished file: data frames, index frame, trailer; statistics as stated *)
Lemma writer_finish_out off0 o w sl w' :
  wout off0 o w sl -> writer_finish w = Ok w' ->
  exists sl' idx,
    writer_bytes w' = concat (map frame sl') ++ frame idx ++ metadata_write (w_m w') /\
    m_count_data_blocks (w_m w') = N.of_nat (length sl') /\
    m_bytes_data_blocks (w_m w') = len (concat (map frame sl')) /\
    m_index_block_offset (w_m w') = off0 + len (concat (map frame sl')) /\
    m_bytes_index_block (w_m w') = len (frame idx) /\
    m_data_block_size (w_m w') = wo_block_size o /\
    m_compression_algorithm (w_m w') = wo_comp o /\
    (exists w1, writer_flush w = Ok w1 /\
       m_count_entries (w_m w') = m_count_entries (w_m w1) /\
       m_bytes_keys (w_m w') = m_bytes_keys (w_m w1) /\ m_bytes_values (w_m w') = m_bytes_values (w_m w1)).
Proof.
  intros Ho H. unfold Writer.writer_finish in H.
  destruct (writer_flush w) as [w1| | |] eqn:Ef; try discriminate.
  destruct (writer_flush_out _ _ _ _ _ Ho Ef) as [sl1 [Hb Hc Hd Hp Hbs Halg]].
  inversion H; subst; clear H. exists sl1, (bb_finish (w_index w1)).
  unfold writer_bytes, writer_chunks in *.
  cbn [w_out w_m m_count_data_blocks m_bytes_data_blocks m_index_block_offset m_bytes_index_block
       m_data_block_size m_compression_algorithm m_count_entries m_bytes_keys m_bytes_values].
  splits; try assumption.
  - cbn [rev]. rewrite !concat_app. cbn [concat]. rewrite !app_nil_r, <- !app_assoc, Hb.
    unfold frame. rewrite <- !app_assoc. reflexivity.
  - rewrite frame_len. reflexivity.
  - exists w1. splits; reflexivity.
Qed.

End WithCompress2.


(* ================= every buffer handed to _write_all is non-empty (C20) ============ *)
Section WithCompress3.
Variable compress_default : N -> bytes -> res bytes.
Variable compress_level : N -> Z -> bytes -> res bytes.
Hypothesis compress_default_nonempty : forall a raw c, compress_default a raw = Ok c -> c <> [].
Hypothesis compress_level_nonempty : forall a l raw c, compress_level a l raw = Ok c -> c <> [].
Notation writer_add := (writer_add compress_default compress_level).
Notation writer_flush := (writer_flush compress_default compress_level).
Notation writer_finish := (writer_finish compress_default compress_level).
Notation writer_adds := (writer_adds compress_default compress_level).

Definition chunks_ne (w : writer) : Prop := Forall (fun c : bytes => c <> []) (w_out w).

Lemma le_encode_ne n v : le_encode (S n) v <> [].
Proof. cbn. discriminate. Qed.
Lemma varint_encode64_ne v : varint_encode64 v <> [].
Proof.
  unfold varint_encode64. generalize (u64 v) 64%nat. intros x f.
  destruct f as [|f]; cbn [varint_encode64_loop]; [discriminate|].
  destruct (VARINT_B64 <=? x); discriminate.
Qed.
Lemma bb_finish_ne b : bb_finish b <> [].
Proof.
  unfold bb_finish. intros H. apply app_eq_nil in H as [_ H]. apply app_eq_nil in H as [_ H].
  unfold fixed_encode32 in H. exact (le_encode_ne _ _ H).
Qed.
Lemma metadata_write_ne m : metadata_write m <> [].
Proof.
  unfold metadata_write. intros H. apply app_eq_nil in H as [_ H]. apply app_eq_nil in H as [_ H].
  unfold fixed_encode32 in H. exact (le_encode_ne _ _ H).
Qed.

Lemma block_chunks_ne stored : stored <> [] -> Forall (fun c : bytes => c <> []) (block_chunks stored).
Proof.
  intros H. unfold block_chunks. repeat constructor; [apply varint_encode64_ne| |exact H].
  unfold fixed_encode32. apply le_encode_ne.
Qed.

Lemma compress_block_ne o raw c : raw <> [] ->
  compress_block compress_default compress_level o raw = Ok c -> c <> [].
Proof.
  intros Hr H. unfold compress_block in H. destruct (wo_comp o =? COMP_NONE); [inversion H; subst; exact Hr|].
  destruct (Z.eqb (wo_level o) DEFAULT_COMPRESSION_LEVEL).
  - destruct (compress_default (wo_comp o) raw) eqn:E; try discriminate. inversion H; subst.
    eapply compress_default_nonempty, E.
  - destruct (compress_level (wo_comp o) (wo_level o) raw) eqn:E; try discriminate. inversion H; subst.
    eapply compress_level_nonempty, E.
Qed.

Lemma write_data_block_ne w lk stored w' : chunks_ne w -> stored <> [] ->
  write_data_block w lk stored = Ok w' -> chunks_ne w'.
Proof.
  intros Hw Hs H. unfold write_data_block in H.
  destruct (bb_add (w_index w) lk (varint_encode64 (w_pending_offset w))); try discriminate.
  inversion H; subst; clear H. unfold chunks_ne. cbn [w_out].
  constructor; [exact Hs|]. constructor; [unfold fixed_encode32; apply le_encode_ne|].
  constructor; [apply varint_encode64_ne|exact Hw].
Qed.

Lemma writer_flush_ne w w' : chunks_ne w -> writer_flush w = Ok w' -> chunks_ne w'.
Proof.
  intros Hw H. unfold Writer.writer_flush in H. destruct (w_closed w); [discriminate|].
  destruct (bb_empty (w_data w)); [inversion H; subst; exact Hw|].
  destruct (compress_block compress_default compress_level (w_opt w) (bb_finish (w_data w))) eqn:E; try discriminate.
  eapply write_data_block_ne; [|eapply compress_block_ne; [apply bb_finish_ne|exact E]|exact H]. exact Hw.
Qed.

Lemma writer_add_ne w k v w' r : chunks_ne w -> writer_add w k v = Ok (w', r) -> chunks_ne w'.
Proof.
  intros Hw H. unfold Writer.writer_add in H. destruct (w_closed w); [discriminate|].
  match type of H with (if ?c then _ else _) = _ => destruct c end; [inversion H; subst; exact Hw|].
  match type of H with context [if ?c then _ else Ok w] => destruct c end.
  - match type of H with context [if ?c then Abort else _] => destruct c end; [discriminate|].
    match type of H with context [Writer.writer_flush _ _ ?w0] =>
      destruct (Writer.writer_flush compress_default compress_level w0) as [w1| | |] eqn:Ef; try discriminate;
      assert (H0 : chunks_ne w0) by exact Hw end.
    pose proof (writer_flush_ne _ _ H0 Ef) as H1.
    destruct (bb_add (w_data w1) k v); try discriminate. inversion H; subst. exact H1.
  - destruct (bb_add (w_data w) k v); try discriminate. inversion H; subst. exact Hw.
Qed.

Lemma writer_adds_ne : forall ops w w' rs, chunks_ne w -> writer_adds w ops = Ok (w', rs) -> chunks_ne w'.
Proof.
  induction ops as [|[k v] ops IH]; intros w w' rs Hw H; cbn [Writer.writer_adds] in H.
  - inversion H; subst; exact Hw.
  - destruct (writer_add w k v) as [[w1 r]| | |] eqn:Ea; try discriminate.
    destruct (writer_adds w1 ops) as [[w2 rs2]| | |] eqn:Er; try discriminate. inversion H; subst.
    eapply IH; [eapply writer_add_ne; eassumption|exact Er].
Qed.

Lemma writer_finish_ne w w' : chunks_ne w -> writer_finish w = Ok w' -> chunks_ne w'.
Proof.
  intros Hw H. unfold Writer.writer_finish in H.
  destruct (writer_flush w) as [w1| | |] eqn:Ef; try discriminate. inversion H; subst; clear H.
  pose proof (writer_flush_ne _ _ Hw Ef) as H1. unfold chunks_ne. cbn [w_out].
  constructor; [apply metadata_write_ne|]. constructor; [apply bb_finish_ne|].
  constructor; [unfold fixed_encode32; apply le_encode_ne|].
  constructor; [apply varint_encode64_ne|exact H1].
Qed.

End WithCompress3.

(* finish never aborts from a state satisfying the invariant *)
Section WithCompress4.
Variable compress_default : N -> bytes -> res bytes.
Variable compress_level : N -> Z -> bytes -> res bytes.
Hypothesis compress_default_total : forall a raw, exists c, compress_default a raw = Ok c.
Hypothesis compress_level_total : forall a l raw, exists c, compress_level a l raw = Ok c.

Lemma writer_finish_ok w : winv w -> exists w', writer_finish compress_default compress_level w = Ok w'.
Proof.
  intros [Hc Hd Hi _ _]. unfold Writer.writer_finish.
  destruct (writer_flush_ok compress_default compress_level compress_default_total compress_level_total w Hc Hd Hi)
    as (w1 & -> & _). eexists; reflexivity.
Qed.
End WithCompress4.
