(* Every file that passes table_check is read correctly (statement and proof of T11_legal_tables /
   T11_empty_table; kept here so that proofs/EncodeProofs.v can use them). *)
From Coq Require Import NArith ZArith List Lia.
From Mtbl Require Import model.Bytes model.Order model.Writer spec.Parse model.Reader spec.TableCheck
  proofs.BlockProofs proofs.LookupProofs proofs.ReaderProofs proofs.CheckProofs.
Local Open Scope N_scope.

Theorem legal_tables : forall decompress r ib iridx bl,
  table_check decompress r = Some (ib, iridx, bl) ->
  let nb := length bl in
  let es := table_entries_of nb (blk bl) in
  (* full iteration *)
  (forall fuel, (length es < fuel)%nat ->
     exists it, reader_iter decompress r = Ok (Some it) /\ drain decompress fuel r it = Ok es) /\
  (* lookups *)
  (forall kind k0 k1 fuel, kind <> KIter -> (length es < fuel)%nat ->
     match reader_iter_init decompress r kind k0 (match kind with KRange => k1 | _ => k0 end) with
     | Ok (Some it) => drain decompress fuel r it = Ok (filter (fun e => lookup_pred kind k0 k1 (fst e)) es)
     | Ok None => filter (fun e => lookup_pred kind k0 k1 (fst e)) es = []
     | _ => False
     end) /\
  (* histories *)
  (exists it, reader_iter decompress r = Ok (Some it) /\
     forall ops, run_model decompress r it ops = Ok (run_spec nb (blk bl) KIter (it_k it) (Some 0%nat) ops)) /\
  (forall kind key bound,
     match reader_iter_init decompress r kind key bound with
     | Ok (Some it) => forall ops, run_model decompress r it ops =
                                   Ok (run_spec nb (blk bl) kind bound (Some (gfirst nb (blk bl) key)) ops)
     | Ok None => gfirst nb (blk bl) key = total nb (blk bl)
     | _ => False
     end).
Proof.
  intros decompress r ib iridx bl H nb es. pose proof (table_check_sound decompress r ib iridx bl H) as T.
  assert (Hlen : length es = total nb (blk bl)) by (unfold es, table_entries_of, Gents, total; apply map_length).
  split; [|split; [|split]].
  - intros fuel Hf. eapply table_iter_all; [exact T|lia].
  - intros kind k0 k1 fuel Hk Hf. eapply table_lookup; [exact T|exact Hk|lia].
  - eapply table_history_iter; exact T.
  - eapply table_history_lookup; exact T.
Qed.


(* the table without entries (an index block with no entry and one restart point, which is
   what every writer emits for it): nothing to iterate, every lookup is NULL *)
Theorem empty_table : forall decompress r ib r0,
  r_index r = Some ib -> ab_entries ib = [] -> ab_restarts ib = [r0] ->
  reader_iter decompress r = Ok None /\
  forall kind key bound, reader_iter_init decompress r kind key bound = Ok None.
Proof.
  intros decompress r ib r0 Hi He Hr. unfold reader_iter, reader_iter_init. rewrite Hi.
  destruct ib as [es rs rl w]. cbn [ab_entries ab_restarts] in He, Hr. subst es rs.
  split.
  - unfold block_seek_to_first, seek_restart, nrest, restart_at. cbn [ab_restarts ab_entries length find_off nth N.to_nat].
    change (0 <? N.of_nat 1) with true. cbn [negb].
    replace (r0 <? 0) with false by (symmetry; apply N.ltb_ge, N.le_0_l). reflexivity.
  - intros kind key bound. reflexivity.
Qed.


