(* C14, invariants (part B): facts needed for the accesses that create a worker or a queue
   before pthread_create.
     b_worker : the dispatcher between the creation of worker i and pthread_create (label D4)
                is about to create exactly the thread that serves worker i;
     b_queue  : the caller between the creation of a queue and pthread_create of its handler
                (label CNext): the queue is the last one, nothing refers to it yet;
     b_hid    : a thread with a handler label for queue j is the handler thread of queue j;
   and, for schedules in which a thread starts only after the pthread_create that creates it
   has been performed (sched_causal),
     causal   : the thread a pending pthread_create creates has not started. *)
From Coq Require Import NArith List Lia ZifyBool ZifyN ZifyNat Bool Arith.
From Mtbl Require Import model.Bytes model.Pool proofs.PoolBase proofs.PoolSched proofs.PoolGuard proofs.PoolInv proofs.PoolLife
  proofs.PoolStep2 proofs.PoolAbort proofs.PoolRaceDefs proofs.PoolRaceStep proofs.PoolRaceInv proofs.PoolRace.
Import ListNotations.

Definition lastq (st : pstate) : nat := (length (ps_queues st) - 1)%nat.

Record InvB (st : pstate) : Prop := {
  b_worker : forall x q i, t_lab (gett st x) = D4 q i -> t_obj (gett st x) = OThread (wk_tid (getw st i));
  b_queue : forall x, t_lab (gett st x) = CNext ->
     (1 <= length (ps_queues st))%nat /\
     t_obj (gett st x) = OThread (q_tid (getq st (lastq st))) /\ q_list (getq st (lastq st)) = [] /\
     (forall i, wk_rq (getw st i) <> Some (lastq st)) /\ (forall y i, t_lab (gett st y) <> W4u i (lastq st));
  b_hid : forall x j, lab_handler (t_lab (gett st x)) = Some j -> (j < length (ps_queues st))%nat /\ q_tid (getq st j) = x;
  b_qtid : forall j, (j < length (ps_queues st))%nat -> (q_tid (getq st j) < length (ps_threads st))%nat;
}.

Lemma invB_keq a b : keq a b -> InvB b -> InvB a.
Proof.
  intros K [B1 B2 B3 B4]. constructor.
  - intros x q i. rewrite (keq_lab _ _ x K), (keq_obj _ _ x K), (keq_getw _ _ i K). apply B1.
  - intros x. rewrite (keq_lab _ _ x K), (keq_obj _ _ x K). unfold lastq. rewrite (keq_queues _ _ K), (keq_getq _ _ _ K).
    intros H. destruct (B2 x H) as (H1 & H2 & H3 & H4 & H5). repeat split; try assumption.
    + intros i. rewrite (keq_getw _ _ i K). apply H4.
    + intros y i. rewrite (keq_lab _ _ y K). apply H5.
  - intros x j. rewrite (keq_lab _ _ x K), (keq_queues _ _ K), (keq_getq _ _ _ K). apply B3.
  - intros j. rewrite (keq_queues _ _ K), (keq_getq _ _ _ K), (keq_len _ _ K). apply B4.
Qed.

(* a cond_wait release / an exit: the stepping thread keeps its label (or ends); only
   wait-able labels can be pending a cond_wait *)
Lemma wait_lab_cases l o : allowed l KWait o = true ->
  (exists q, l = D1 q) \/ l = P1 \/ (exists i, l = W1 i) \/ (exists j, l = H1 j) \/ (exists j i, l = H4 j i).
Proof.
  destruct l; cbn [allowed]; unfold lwr, is_op; cbn [opk_eqb andb orb]; try discriminate; intros _; eauto 8.
Qed.

Lemma invB_relabel st t th :
  (t_lab th = t_lab (gett st t) \/ t_lab th = LDone) ->
  (forall q i, t_lab (gett st t) <> D4 q i) -> t_lab (gett st t) <> CNext ->
  InvB st -> InvB (set_thread st t th).
Proof.
  intros Hl N1 N2 [B1 B2 B3 B4].
  assert (G : forall x, gett (set_thread st t th) x = gett st x \/ (x = t /\ gett (set_thread st t th) x = th)).
  { intros x. rewrite gett_set_thread. destruct (Nat.eqb_spec x t) as [->|]; cbn [andb]; [|left; reflexivity].
    destruct (Nat.ltb _ _); [right; split; reflexivity|left; reflexivity]. }
  assert (L : forall x, t_lab (gett (set_thread st t th) x) = t_lab (gett st x) \/ t_lab (gett (set_thread st t th) x) = LDone).
  { intros x. destruct (G x) as [->|[-> ->]]; [left; reflexivity|]. destruct Hl as [-> | ->]; auto. }
  constructor.
  - intros x q i Hx. destruct (G x) as [Gx|[-> Gx]]; rewrite Gx in Hx |- *.
    + exact (B1 x q i Hx).
    + destruct Hl as [Hl|Hl]; rewrite Hl in Hx; [exfalso; exact (N1 _ _ Hx)|discriminate].
  - intros x Hx. destruct (G x) as [Gx|[-> Gx]]; rewrite Gx in Hx |- *.
    + destruct (B2 x Hx) as (H1 & H2 & H3 & H4 & H5). repeat split; try assumption.
      intros y i' Hy. destruct (L y) as [E|E]; rewrite E in Hy; [exact (H5 y i' Hy)|discriminate].
    + destruct Hl as [Hl|Hl]; rewrite Hl in Hx; [exfalso; exact (N2 Hx)|discriminate].
  - intros x j Hx. destruct (G x) as [Gx|[-> Gx]]; rewrite Gx in Hx.
    + exact (B3 x j Hx).
    + destruct Hl as [Hl|Hl]; rewrite Hl in Hx; [exact (B3 t j Hx)|discriminate].
  - intros j Hj. unfold set_thread. cbn [ps_threads]. rewrite upd_nth_length. exact (B4 j Hj).
Qed.

Lemma invB_wait st t : Inv1 st -> t_op (gett st t) = KWait -> InvB st -> InvB (set_thread st t (waiting (gett st t))).
Proof.
  intros I1 Hop IB.
  pose proof (shape_allowed _ (i1_shape _ I1 t)) as Ha. rewrite Hop in Ha.
  apply invB_relabel; [left; reflexivity| | |exact IB].
  - intros q i E. rewrite E in Ha. discriminate.
  - intros E. rewrite E in Ha. discriminate.
Qed.

Lemma invB_exit st t : Inv1 st -> t_op (gett st t) = KExit -> InvB st -> InvB (set_thread st t exited).
Proof.
  intros I1 Hop IB.
  pose proof (shape_allowed _ (i1_shape _ I1 t)) as Ha. rewrite Hop in Ha. apply exit_lab in Ha. destruct Ha as [El Eo].
  apply invB_relabel; [right; reflexivity| | |exact IB].
  - intros q i E. rewrite E in El. discriminate.
  - intros E. rewrite E in El. discriminate.
Qed.

(* fields that the code of a label never changes *)
Lemma upd_w_field {A} (f : worker -> A) st i0 w' i : f w' = f (getw st i0) -> f (upd_w st i0 w' i) = f (getw st i).
Proof.
  intros H. unfold upd_w. destruct (Nat.eqb_spec i i0) as [->|]; cbn [andb]; [|reflexivity].
  destruct (Nat.ltb _ _); [exact H|reflexivity].
Qed.
Lemma upd_q_field {A} (f : queue -> A) st q0 qq' q : f qq' = f (getq st q0) -> f (upd_q st q0 qq' q) = f (getq st q).
Proof.
  intros H. unfold upd_q. destruct (Nat.eqb_spec q q0) as [->|]; cbn [andb]; [|reflexivity].
  destruct (Nat.ltb _ _); [exact H|reflexivity].
Qed.

Lemma after_wk_tid st t l i : (i < length (ps_workers st))%nat -> wk_tid (getw (after st t l) i) = wk_tid (getw st i).
Proof.
  intros Hi. rewrite after_getw. destruct l; try reflexivity; cbv zeta;
    repeat match goal with
           | |- context [if ?c then _ else _] => destruct c eqn:?
           | |- context [match ?x with _ => _ end] => destruct x eqn:?
           end; try reflexivity; try (apply (upd_w_field wk_tid); reflexivity).
  all: match goal with H : (_ <? _) = false |- _ => apply Nat.ltb_ge in H; lia end.
Qed.

Lemma after_q_tid st t l j : (j < length (ps_queues st))%nat -> q_tid (getq (after st t l) j) = q_tid (getq st j).
Proof.
  intros Hj. rewrite after_getq. destruct (is_next l).
  - destruct (ps_prog st) as [|[ord| | |] r]; try reflexivity. destruct (Nat.ltb_spec j (length (ps_queues st))); [reflexivity|lia].
  - destruct l; try reflexivity; cbv zeta; try (apply (upd_q_field q_tid); reflexivity).
    destruct (q_list (getq st j0)); [reflexivity|]. apply (upd_q_field q_tid). reflexivity.
Qed.

(* the stepping thread stays the handler of the same queue *)
Lemma cont_handler st t l j : lab_handler (t_lab (snd (continue st t l))) = Some j -> lab_handler l = Some j.
Proof.
  intros H. destruct l; cont_lab H; cbn [lab_handler] in *; try discriminate H; try exact H.
Qed.

Lemma after_nqueues_ge st t l : (length (ps_queues st) <= length (ps_queues (after st t l)))%nat.
Proof. rewrite after_nqueues. destruct (is_next l); [|lia]. destruct (ps_prog st) as [|[| | |] r]; lia. Qed.

Lemma is_next_caller l : is_next l = true -> caller_lab l = true.
Proof. destruct l; cbn; congruence. Qed.

Section CodeB.
Variable st : pstate.
Variable t : nat.
Hypothesis I1 : Inv1 st.
Hypothesis I2 : Inv2 st.
Hypothesis IB : InvB st.
Hypothesis En : enabled st t = true.
Hypothesis Hw : t_op (gett st t) <> KWait.
Let l := t_lab (gett st t).
Let Ht : (t < length (ps_threads st))%nat := proj1 (enabled_live _ _ En).
Let Tt := i2_threads st I2 t.

Lemma codeB_worker : forall x q i, t_lab (gett (after st t l) x) = D4 q i ->
  t_obj (gett (after st t l) x) = OThread (wk_tid (getw (after st t l) i)).
Proof.
  intros x q i Hx. destruct (Nat.eq_dec x t) as [->|Hne].
  - rewrite after_gett_self in Hx |- * by exact Ht. rewrite after_getw.
    destruct l eqn:El; cont_lab Hx. inversion Hx; subst.
    pose proof (tk_fresh _ _ _ Tt q i El) as Ei. subst i. cbn [continue snd t_obj pend].
    destruct (Nat.ltb_spec (length (ps_workers st)) (length (ps_workers st))); [lia|]. rewrite Nat.eqb_refl. reflexivity.
  - assert (E' : gett (after st t l) x = gett st x).
    { destruct (after_lab_other st t l x Ht Hne) as [[_ E]|[_ [E|[_ [(q' & i' & _ & E)|(ord & r & _ & _ & E)]]]]]; [exact E| | |];
        rewrite E in Hx; discriminate. }
    rewrite E' in Hx |- *. rewrite (b_worker _ IB x q i Hx). f_equal. symmetry. apply after_wk_tid.
    apply (tok_range st x i I2). rewrite Hx. cbn. rewrite Nat.eqb_refl. reflexivity.
Qed.

Lemma codeB_hid : forall x j, lab_handler (t_lab (gett (after st t l) x)) = Some j ->
  (j < length (ps_queues (after st t l)))%nat /\ q_tid (getq (after st t l) j) = x.
Proof.
  intros x j Hx. destruct (Nat.eq_dec x t) as [->|Hne].
  - rewrite after_gett_self in Hx by exact Ht. apply cont_handler in Hx. destruct (b_hid _ IB t j Hx) as [H1 H2].
    split; [pose proof (after_nqueues_ge st t l); lia|]. rewrite after_q_tid by exact H1. exact H2.
  - destruct (after_lab_other st t l x Ht Hne) as [[_ E]|[_ [E|[Ex [(q' & i' & _ & E)|(ord & r & Hn & Hp & E)]]]]]; rewrite E in Hx.
    + destruct (b_hid _ IB x j Hx) as [H1 H2].
      split; [pose proof (after_nqueues_ge st t l); lia|]. rewrite after_q_tid by exact H1. exact H2.
    + discriminate.
    + discriminate.
    + cbn in Hx. inversion Hx; subst j. rewrite after_nqueues, after_getq, Hn, Hp. split; [lia|].
      destruct (Nat.ltb_spec (length (ps_queues st)) (length (ps_queues st))); [lia|]. rewrite Nat.eqb_refl. symmetry. exact Ex.
Qed.

(* the caller is creating a queue: what the other threads can do meanwhile *)
Lemma codeB_queue : forall x, t_lab (gett (after st t l) x) = CNext ->
  (1 <= length (ps_queues (after st t l)))%nat /\
  t_obj (gett (after st t l) x) = OThread (q_tid (getq (after st t l) (lastq (after st t l)))) /\
  q_list (getq (after st t l) (lastq (after st t l))) = [] /\
  (forall i, wk_rq (getw (after st t l) i) <> Some (lastq (after st t l))) /\
  (forall y i, t_lab (gett (after st t l) y) <> W4u i (lastq (after st t l))).
Proof.
  intros x Hx. destruct (Nat.eq_dec x t) as [->|Hne].
  - (* the caller fetches NewHandler *)
    rewrite after_gett_self in Hx |- * by exact Ht.
    assert (Hn : is_next l = true /\ exists ord r, ps_prog st = NewHandler ord :: r).
    { destruct l eqn:El; cont_lab Hx; split; try reflexivity; eauto. }
    destruct Hn as (Hn & ord & r & Hp).
    assert (Eo : snd (continue st t l) = pend KCreate (OThread (length (ps_threads st))) CNext).
    { destruct l; try discriminate Hn; cbn [continue]; unfold caller_next; rewrite Hp; reflexivity. }
    assert (Wl : forall i, getw (after st t l) i = getw st i).
    { intros i. rewrite after_getw. destruct l; try discriminate Hn; reflexivity. }
    unfold lastq. rewrite after_nqueues, Hn, Hp. replace (S (length (ps_queues st)) - 1)%nat with (length (ps_queues st)) by lia.
    rewrite after_getq, Hn, Hp.
    destruct (Nat.ltb_spec (length (ps_queues st)) (length (ps_queues st))); [lia|]. rewrite Nat.eqb_refl.
    rewrite Eo. cbn [t_obj pend q_tid q_list]. repeat split; try lia.
    + intros i. rewrite Wl. intros Hr. pose proof (i2_rq _ I2 i _ Hr). lia.
    + intros y i Hy. destruct (Nat.eq_dec y t) as [->|Hny].
      * rewrite after_gett_self, Eo in Hy by exact Ht. discriminate.
      * destruct (after_other_lab st t l y Ht Hny) as [E|[_ [E|[[? E]|[? E]]]]]; rewrite E in Hy; try discriminate.
        pose proof (tk_w4u _ _ _ (i2_threads _ I2 y) _ _ Hy). lia.
  - (* another thread steps while the caller is about to create the handler thread *)
    assert (E' : gett (after st t l) x = gett st x).
    { destruct (after_lab_other st t l x Ht Hne) as [[_ E]|[_ [E|[_ [(q' & i' & _ & E)|(ord & r & _ & _ & E)]]]]]; [exact E| | |];
        rewrite E in Hx; discriminate. }
    rewrite E' in Hx |- *. destruct (b_queue _ IB x Hx) as (H1 & H2 & H3 & H4 & H5).
    assert (Hcx : caller_lab (t_lab (gett st x)) = true) by (rewrite Hx; reflexivity).
    assert (Hnc : caller_lab l = false).
    { destruct (caller_lab l) eqn:Ec; [|reflexivity]. exfalso. apply Hne. apply (caller_unique st x t I2 Hcx Ec). }
    assert (Hnn : is_next l = false).
    { destruct (is_next l) eqn:Ec; [|reflexivity]. rewrite (is_next_caller _ Ec) in Hnc. discriminate. }
    assert (Lq : lastq (after st t l) = lastq st) by (unfold lastq; rewrite after_nqueues, Hnn; reflexivity).
    rewrite Lq. split; [pose proof (after_nqueues_ge st t l); lia|].
    assert (Hlt : (lastq st < length (ps_queues st))%nat) by (unfold lastq; lia).
    split; [rewrite after_q_tid by exact Hlt; exact H2|].
    split.
    { rewrite after_getq, Hnn.
      destruct l eqn:El; try discriminate Hnc; try exact H3; cbv zeta.
      - (* W4u i q: q is not the new queue *)
        unfold upd_q. destruct (Nat.eqb_spec (lastq st) q) as [Eq|]; [|exact H3]. exfalso. apply (H5 t i). fold l. rewrite El, Eq. reflexivity.
      - (* H1 j: nothing to pop from the new queue *)
        destruct (q_list (getq st j)) as [|i rest] eqn:Elist; [exact H3|].
        unfold upd_q. destruct (Nat.eqb_spec (lastq st) j) as [Eq|]; [|exact H3]. rewrite <- Eq, H3 in Elist. discriminate. }
    split.
    { intros i. rewrite after_getw.
      destruct l eqn:El; try discriminate Hnc; try apply H4; cbv zeta.
      - destruct (negb (wk_hasjob (getw st i0))); [apply H4|].
        destruct (wk_rq (getw st i0)) as [q0|];
          match goal with |- context [upd_w st i0 ?w i] => destruct (upd_w_cases st i0 w i) as [->|[_ ->]] end;
          first [apply H4|discriminate].
      - rewrite (upd_w_field wk_rq); [apply H4|reflexivity].
      - destruct (wk_running (getw st w)); [apply H4|]. rewrite (upd_w_field wk_rq); [apply H4|reflexivity]. }
    intros y i Hy. destruct (Nat.eq_dec y t) as [->|Hny].
    + rewrite after_gett_self in Hy by exact Ht.
      destruct l eqn:El; try discriminate Hnc; cont_lab Hy.
      inversion Hy; subst. eapply H4. eassumption.
    + destruct (after_other_lab st t l y Ht Hny) as [E|[_ [E|[[? E]|[? E]]]]]; rewrite E in Hy; try discriminate.
      exact (H5 y i Hy).
Qed.

Lemma codeB_qtid : forall j, (j < length (ps_queues (after st t l)))%nat ->
  (q_tid (getq (after st t l) j) < length (ps_threads (after st t l)))%nat.
Proof.
  intros j Hj. rewrite after_len.
  destruct (Nat.lt_ge_cases j (length (ps_queues st))) as [Hlt|Hge].
  - rewrite after_q_tid by exact Hlt. pose proof (b_qtid _ IB j Hlt). lia.
  - rewrite after_nqueues in Hj. rewrite after_getq.
    destruct (is_next l) eqn:Hn; [|lia]. destruct (ps_prog st) as [|[ord| | |] r] eqn:Hp; try lia.
    assert (j = length (ps_queues st)) by lia. subst j.
    destruct (Nat.ltb_spec (length (ps_queues st)) (length (ps_queues st))); [lia|]. rewrite Nat.eqb_refl. cbn [q_tid].
    replace (new_threads st l) with [pend KStart ONone (H0 (length (ps_queues st)))]; [cbn [length]; lia|].
    destruct l; try discriminate Hn; cbn [new_threads]; rewrite Hp; reflexivity.
Qed.

Lemma codeB : InvB (after st t l).
Proof. constructor; [apply codeB_worker|apply codeB_queue|apply codeB_hid|apply codeB_qtid]. Qed.
End CodeB.

(* ---------- initial state ---------- *)
Lemma nth_nil' {A} i (d : A) : nth i [] d = d.
Proof. destruct i; reflexivity. Qed.

Lemma invB_init maxt prog : InvB (pool_init maxt prog).
Proof.
  unfold pool_init, caller_next. cbn [ps_prog].
  destruct prog as [|[ord|q|q|] r]; constructor; unfold gett, getw, getq, lastq; cbn;
    intros x; destruct x as [|[|x]]; cbn; rewrite ?nth_nil'; cbn; intros;
    repeat match goal with H : context [match ?v with 0 => _ | S _ => _ end] |- _ => destruct v; cbn in H end;
    try discriminate; try lia.
  - repeat split; try lia; try reflexivity.
    + intros i. destruct i; cbn; discriminate.
    + intros y i. destruct y as [|[|[|y]]]; cbn; discriminate.
  - match goal with H : Some _ = Some _ |- _ => inversion H; subst end. split; [lia|reflexivity].
Qed.

(* ---------- the thread a pending pthread_create creates has not started ---------- *)
Definition InvK (st : pstate) : Prop :=
  forall x u, t_op (gett st x) = KCreate -> t_obj (gett st x) = OThread u -> t_op (gett st u) = KStart.

Lemma invK_keq a b : keq a b -> InvK b -> InvK a.
Proof. intros K H x u. rewrite (keq_op _ _ x K), (keq_obj _ _ x K), (keq_op _ _ u K). apply H. Qed.

Lemma cont_create st t l : t_op (snd (continue st t l)) = KCreate ->
  t_obj (snd (continue st t l)) = OThread (length (ps_threads st)) /\ exists l', new_threads st l = [pend KStart ONone l'].
Proof.
  intros H. destruct l; cont_lab H; cbn [continue new_threads snd t_obj pend]; unfold caller_next;
    repeat match goal with H : ps_prog st = _ |- _ => rewrite H end; cbn [snd t_obj pend]; split; try reflexivity; eauto.
Qed.

Lemma invK_code st t : InvK st -> enabled st t = true -> start_ok st t -> InvK (after st t (t_lab (gett st t))).
Proof.
  intros IK En Hs x u Hop Ho. set (l := t_lab (gett st t)) in *.
  pose proof (proj1 (enabled_live _ _ En)) as Ht.
  destruct (Nat.eq_dec x t) as [->|Hne].
  - rewrite after_gett_self in Hop, Ho by exact Ht. destruct (cont_create st t l Hop) as (E & l' & En').
    rewrite E in Ho. inversion Ho; subst u. rewrite after_gett by exact Ht.
    destruct (Nat.eqb_spec (length (ps_threads st)) t); [lia|].
    destruct (Nat.ltb_spec (length (ps_threads st)) (length (ps_threads st))); [lia|].
    rewrite Nat.sub_diag, En'. reflexivity.
  - assert (E' : gett (after st t l) x = gett st x).
    { destruct (after_lab_other st t l x Ht Hne) as [[_ E]|[_ [E|[_ [(q' & i' & _ & E)|(ord & r & _ & _ & E)]]]]]; [exact E| | |];
        rewrite E in Hop; discriminate. }
    rewrite E' in Hop, Ho. pose proof (IK x u Hop Ho) as IH.
    destruct (Nat.eq_dec u t) as [->|Hnu].
    + exfalso. apply (Hs IH x). split; assumption.
    + destruct (after_lab_other st t l u Ht Hnu) as [[_ E]|[Hu _]]; [rewrite E; exact IH|].
      rewrite (gett_oob _ _ Hu) in IH. discriminate.
Qed.

Lemma invK_set st t th : InvK st -> t_op (gett st t) <> KStart -> t_op th <> KCreate -> InvK (set_thread st t th).
Proof.
  intros IK H1 H2 x u. rewrite !gett_set_thread.
  destruct (Nat.eqb_spec x t) as [->|]; cbn [andb].
  - destruct (Nat.ltb _ _).
    + intros Hop. contradiction.
    + intros Hop Ho. pose proof (IK t u Hop Ho) as IH.
      destruct (Nat.eqb_spec u t) as [->|]; cbn [andb]; [contradiction|exact IH].
  - intros Hop Ho. pose proof (IK x u Hop Ho) as IH.
    destruct (Nat.eqb_spec u t) as [->|]; cbn [andb]; [contradiction|exact IH].
Qed.

Lemma invK_init maxt prog : InvK (pool_init maxt prog).
Proof.
  unfold pool_init, caller_next. cbn [ps_prog].
  destruct prog as [|[ord|q|q|] r]; intros x u; unfold gett; cbn;
    destruct x as [|[|[|x]]]; cbn; intros; try discriminate.
  match goal with H : OThread _ = OThread _ |- _ => inversion H; subst end. reflexivity.
Qed.

(* ---------- reachable states ---------- *)
Theorem invB_reachable maxt prog st stash : prog_wf_weak prog = true ->
  reachable maxt prog st stash -> Inv1 st /\ Inv2 st /\ InvB st.
Proof.
  intros Hp (s & W & E).
  apply (prun_P InvB false invB_keq) with (s := s) (st0 := pool_init maxt prog) (stash0 := []) (stash := stash); try assumption.
  - intros st0 t I1 I2 IB En Hw _ _ _. apply codeB; assumption.
  - intros st0 t I1 I2 IB En Hw. apply invB_wait; assumption.
  - intros st0 t I1 I2 IB En Hw. apply invB_exit; assumption.
  - apply pool_init_inv1.
  - apply pool_init_inv2. exact Hp.
  - apply invB_init.
  - discriminate.
Qed.

Definition reachable_causal (maxt : N) (prog : list cmd) (st : pstate) (stash : list (nat * N)) : Prop :=
  exists s, sched_wf (pool_init maxt prog) [] s /\ sched_causal (pool_init maxt prog) [] s /\
            prun (pool_init maxt prog) [] s = Some (st, stash).

Lemma reachable_causal_reachable maxt prog st stash : reachable_causal maxt prog st stash -> reachable maxt prog st stash.
Proof. intros (s & W & _ & E). exists s. split; assumption. Qed.

Theorem invK_reachable maxt prog st stash : prog_wf_weak prog = true ->
  reachable_causal maxt prog st stash -> InvK st.
Proof.
  intros Hp (s & W & C & E).
  apply (prun_P InvK true invK_keq) with (s := s) (st0 := pool_init maxt prog) (stash0 := []) (stash := stash); try assumption.
  - intros st0 t I1 I2 IK En Hw He Hs _. apply invK_code; auto.
  - intros st0 t I1 I2 IK En Hw. apply invK_set; [exact IK|rewrite Hw; discriminate|discriminate].
  - intros st0 t I1 I2 IK En Hw. apply invK_set; [exact IK|rewrite Hw; discriminate|discriminate].
  - apply pool_init_inv1.
  - apply pool_init_inv2. exact Hp.
  - apply invK_init.
  - intros _. exact C.
Qed.
