(* Tier 1: thread / lock consistency of the thread-pool LTS (model/Pool.v), for every
   reachable state under every schedule whose signal steps wake only blocked threads. *)
From Coq Require Import NArith List Lia ZifyBool ZifyN ZifyNat Bool Arith.
From Mtbl Require Import model.Bytes model.Pool proofs.PoolBase proofs.PoolSched.
Import ListNotations.

(* ---------- the pending (operation, object) pairs allowed at each label ---------- *)
Definition is_thread (o : obj) : bool := match o with OThread _ => true | _ => false end.
Definition is_qm (o : obj) : bool := match o with OQm _ => true | _ => false end.
Definition opk_eqb (a b : opk) : bool :=
  match a, b with
  | KStart, KStart | KLock, KLock | KUnlock, KUnlock | KWait, KWait | KReacq, KReacq
  | KSignal, KSignal | KCreate, KCreate | KJoin, KJoin | KExit, KExit => true
  | _, _ => false
  end.
Definition is_op (a b : opk) (o o' : obj) : bool := opk_eqb a b && obj_eqb o o'.
(* lock m / wait c / re-acquire m *)
Definition lwr (op : opk) (o : obj) (m c : obj) : bool :=
  is_op op KLock o m || is_op op KWait o c || is_op op KReacq o m.

Definition allowed (l : label) (op : opk) (o : obj) : bool :=
  match l with
  | CNext | D4 _ _ => opk_eqb op KCreate && is_thread o
  | D1 _ | P1 => lwr op o OPoolM OPoolC
  | D3 _ _ _ | P6 | H8 _ _ => is_op op KUnlock o OPoolM
  | D5 _ i | P3 i | W4o i => is_op op KLock o (OWm i)
  | D5s _ i | P3s i | W4os i => is_op op KSignal o (OWc i)
  | D6 _ i | P4 i | W3 i | W5o i | H6 _ i => is_op op KUnlock o (OWm i)
  | D7 q _ | F1 q | W4u _ q => is_op op KLock o (OQm q)
  | D7s q | F1s q | W4us _ q => is_op op KSignal o (OQc q)
  | D8 | W5u _ => opk_eqb op KUnlock && is_qm o
  | F2 q | H3 q _ => is_op op KUnlock o (OQm q)
  | F3 | P5 => opk_eqb op KJoin && is_thread o
  | W0 _ | H0 _ => is_op op KStart o ONone
  | W1 i | H4 _ i => lwr op o (OWm i) (OWc i)
  | H1 j => lwr op o (OQm j) (OQc j)
  | H7 _ _ => is_op op KLock o OPoolM
  | H7s _ _ => is_op op KSignal o OPoolC
  | LDone => is_op op KExit o ONone
  end.

Definition is_none {A} (x : option A) : bool := match x with None => true | Some _ => false end.

Definition shape (th : thread) : bool :=
  allowed (t_lab th) (t_op th) (t_obj th) &&
  (if t_done th then opk_eqb (t_op th) KExit && is_none (t_blocked th) else true) &&
  match t_blocked th with
  | Some _ => opk_eqb (t_op th) KReacq && obj_eqb (t_wmutex th) (t_obj th)
  | None => true
  end.

(* the mutexes a thread holds, as a function of its pending operation *)
Definition holds (th : thread) : list obj :=
  match t_op th with
  | KUnlock => t_obj th :: match t_lab th with P4 _ => [OPoolM] | _ => [] end
  | KSignal => match t_lab th with
               | D5s _ i | W4os i => [OWm i]
               | D7s q | F1s q | W4us _ q => [OQm q]
               | P3s i => [OWm i; OPoolM]
               | H7s _ _ => [OPoolM]
               | _ => []
               end
  | KWait => [wait_mutex (t_lab th)]
  | KLock => match t_lab th with P3 _ => [OPoolM] | _ => [] end
  | KJoin => match t_lab th with P5 => [OPoolM] | _ => [] end
  | _ => []
  end.

(* the holdings right after the pending operation has been performed *)
Definition post_holds (th : thread) : list obj :=
  match t_op th with
  | KLock | KReacq => t_obj th :: holds th
  | KUnlock => match t_lab th with P4 _ => [OPoolM] | _ => [] end
  | KWait => []
  | _ => holds th
  end.

Record Inv1 (st : pstate) : Prop := {
  i1_nodup : NoDup (map fst (ps_owner st));
  i1_own : forall m t, owner_of st m = Some t <-> In m (holds (gett st t));
  i1_shape : forall t, shape (gett st t) = true;
}.

(* well-formedness of a schedule step: a signal only wakes a thread blocked in cond_wait *)
Definition wake_ok (st : pstate) (t : nat) (wake : option nat) : Prop :=
  match wake with
  | Some u => t_op (gett st t) = KSignal -> (u < length (ps_threads st))%nat -> t_blocked (gett st u) <> None
  | None => True
  end.

Fixpoint sched_wf (st : pstate) (stash : list (nat * N)) (s : list sched_step) : Prop :=
  match s with
  | [] => True
  | SRun t w :: tl => wake_ok st t w /\
                      match pstep st t w stash with
                      | Some (st', _, _, stash') => sched_wf st' stash' tl
                      | None => True
                      end
  | SSpurious t :: tl => match pspurious st t with Some st' => sched_wf st' stash tl | None => True end
  end.

(* ---------- the stepping thread: shape and holdings after the step ---------- *)
Lemma shape_pend op o l : shape (pend op o l) = allowed l op o.
Proof. unfold shape, pend. cbn [t_op t_obj t_lab t_blocked t_wmutex t_done]. rewrite !andb_true_r. reflexivity. Qed.

Lemma caller_next_thread st : shape (snd (caller_next st)) = true /\ holds (snd (caller_next st)) = [].
Proof.
  unfold caller_next. destruct (ps_prog st) as [|c rest]; [split; reflexivity|].
  destruct c; cbn [snd]; rewrite shape_pend; cbn [allowed]; unfold is_op; cbn [opk_eqb is_thread andb obj_eqb];
    rewrite ?Nat.eqb_refl; split; reflexivity.
Qed.

Ltac break_match_goal :=
  match goal with
  | |- context [if ?c then _ else _] => destruct c eqn:?
  | |- context [match ?x with _ => _ end] => destruct x eqn:?
  end.

Lemma continue_thread st t th :
  shape th = true -> t_done th = false -> t_blocked th = None -> t_op th <> KWait -> t_op th <> KExit ->
  shape (snd (continue st t (t_lab th))) = true /\ holds (snd (continue st t (t_lab th))) = post_holds th.
Proof.
  destruct th as [op o lab b wm d]. intros Hs Hd Hb Hw He. unfold shape in Hs.
  cbn [t_op t_obj t_lab t_blocked t_wmutex t_done] in *. subst d b. rewrite !andb_true_r in Hs.
  destruct lab; cbn [allowed] in Hs; unfold lwr, is_op in Hs;
    destruct op; cbn [opk_eqb andb orb] in Hs; try discriminate; try congruence;
    destruct o; cbn [obj_eqb is_thread is_qm andb orb] in Hs; try discriminate;
    rewrite ?orb_false_r in Hs; try (apply Nat.eqb_eq in Hs; subst);
    cbn [continue];
    try apply caller_next_thread;
    repeat break_match_goal; cbn [snd]; rewrite ?shape_pend; cbn [allowed]; unfold lwr, is_op; cbn [opk_eqb is_thread is_qm andb orb obj_eqb];
    rewrite ?Nat.eqb_refl; try (split; reflexivity).
Qed.

(* ---------- frame: owner list and thread list across the components of a step ---------- *)
Definition fresh_ok (new : list thread) : Prop := Forall (fun th => shape th = true /\ holds th = []) new.

Lemma caller_next_frame st :
  ps_owner (fst (caller_next st)) = ps_owner st /\
  exists new, ps_threads (fst (caller_next st)) = ps_threads st ++ new /\ fresh_ok new.
Proof.
  unfold caller_next. destruct (ps_prog st) as [|c rest].
  - split; [reflexivity|]. exists []. rewrite app_nil_r. split; [reflexivity|constructor].
  - destruct c; cbn [fst ps_owner ps_threads]; split; try reflexivity;
      try (exists []; rewrite app_nil_r; split; [reflexivity|constructor]).
    eexists. split; [reflexivity|]. constructor; [|constructor]. split; reflexivity.
Qed.

Lemma continue_frame st t l :
  ps_owner (fst (continue st t l)) = ps_owner st /\
  exists new, ps_threads (fst (continue st t l)) = ps_threads st ++ new /\ fresh_ok new.
Proof.
  destruct l; cbn [continue]; try apply caller_next_frame;
    repeat break_match_goal;
    unfold set_pool, set_abort, set_workers, set_queues; cbn [fst ps_owner ps_threads];
    (split; [reflexivity|]);
    try (exists []; rewrite app_nil_r; split; [reflexivity|constructor]).
  eexists. split; [reflexivity|]. constructor; [|constructor]. split; reflexivity.
Qed.

Lemma stash_deliver_frame st t lab stash :
  ps_owner (snd (stash_deliver st t lab stash)) = ps_owner st /\
  ps_threads (snd (stash_deliver st t lab stash)) = ps_threads st.
Proof.
  destruct lab; cbn [stash_deliver]; try (split; reflexivity); repeat break_match_goal; split; reflexivity.
Qed.

(* ---------- generic preservation lemma ---------- *)
Lemma inv1_step st st' t : Inv1 st ->
  NoDup (map fst (ps_owner st')) ->
  (forall x, x <> t -> shape (gett st' x) = true /\ holds (gett st' x) = holds (gett st x)) ->
  shape (gett st' t) = true ->
  (forall m, owner_of st' m = Some t <-> In m (holds (gett st' t))) ->
  (forall m x, x <> t -> (owner_of st' m = Some x <-> owner_of st m = Some x)) ->
  Inv1 st'.
Proof.
  intros [N O S] N' Hx Ht Ot Ox. constructor; [exact N'| |].
  - intros m x. destruct (Nat.eq_dec x t) as [->|Hne]; [apply Ot|].
    rewrite (Ox m x Hne). destruct (Hx x Hne) as [_ ->]. apply O.
  - intros x. destruct (Nat.eq_dec x t) as [->|Hne]; [exact Ht|apply Hx; exact Hne].
Qed.

Lemma dummy_t_ok : shape dummy_t = true /\ holds dummy_t = [].
Proof. split; reflexivity. Qed.

Lemma fresh_nth T new x : fresh_ok new -> (length T <= x)%nat ->
  shape (nth x (T ++ new) dummy_t) = true /\ holds (nth x (T ++ new) dummy_t) = [].
Proof.
  intros F H. rewrite app_nth2 by lia.
  destruct (nth_in_or_default (x - length T) new dummy_t) as [Hin| ->]; [|apply dummy_t_ok].
  unfold fresh_ok in F. rewrite Forall_forall in F. apply F. exact Hin.
Qed.

Lemma gett_oob st x : (length (ps_threads st) <= x)%nat -> gett st x = dummy_t.
Proof. intros H. unfold gett. apply nth_overflow. exact H. Qed.

Lemma enabled_live st t : enabled st t = true ->
  (t < length (ps_threads st))%nat /\ t_done (gett st t) = false /\ t_blocked (gett st t) = None.
Proof.
  unfold enabled. intros H.
  destruct (t_done (gett st t)) eqn:Ed; [discriminate|].
  destruct (t_blocked (gett st t)) eqn:Eb; [discriminate|].
  split; [|split; reflexivity].
  destruct (Nat.lt_ge_cases t (length (ps_threads st))) as [|Hge]; [assumption|].
  rewrite (gett_oob _ _ Hge) in Ed. discriminate.
Qed.

Lemma allowed_wait l o : allowed l KWait o = true -> allowed l KReacq (wait_mutex l) = true.
Proof.
  destruct l; cbn [allowed wait_mutex]; unfold lwr, is_op; cbn [opk_eqb andb orb]; try discriminate;
    intros _; rewrite obj_eqb_refl; reflexivity.
Qed.

(* the woken (or spuriously woken) thread *)
Lemma woken_ok tu : shape tu = true -> t_blocked tu <> None ->
  let tw := mkt KReacq (t_wmutex tu) (t_lab tu) None ONone false in
  shape tw = true /\ holds tw = holds tu.
Proof.
  unfold shape. destruct tu as [op o lab b wm d]. cbn [t_op t_obj t_lab t_blocked t_wmutex t_done].
  intros Hs Hb. destruct b as [c|]; [|congruence].
  apply andb_prop in Hs. destruct Hs as [Hs H3]. apply andb_prop in Hs. destruct Hs as [H1 H2].
  apply andb_prop in H3. destruct H3 as [H3 H4].
  destruct op; try discriminate. destruct (obj_eqb_spec wm o); [subst|discriminate].
  rewrite H1. split; reflexivity.
Qed.

Definition woken (tu : thread) : thread := mkt KReacq (t_wmutex tu) (t_lab tu) None ONone false.

Lemma gett_set_thread st t th x :
  gett (set_thread st t th) x = if Nat.eqb x t && Nat.ltb t (length (ps_threads st)) then th else gett st x.
Proof. unfold gett, set_thread. cbn [ps_threads]. apply nth_upd_nth. Qed.

Lemma wake_step_frame st op wake :
  ps_owner (wake_step st op wake) = ps_owner st /\
  length (ps_threads (wake_step st op wake)) = length (ps_threads st) /\
  forall x, gett (wake_step st op wake) x = gett st x \/
            (exists u, op = KSignal /\ wake = Some u /\ x = u /\ (u < length (ps_threads st))%nat /\
                       gett (wake_step st op wake) x = woken (gett st u)).
Proof.
  unfold wake_step. destruct op; try (split; [reflexivity|split; [reflexivity|left; reflexivity]]).
  destruct wake as [u|]; [|split; [reflexivity|split; [reflexivity|left; reflexivity]]].
  split; [reflexivity|]. split; [unfold set_thread; cbn [ps_threads]; apply upd_nth_length|].
  intros x. rewrite gett_set_thread.
  destruct (Nat.eqb_spec x u) as [->|]; [|left; reflexivity]. cbn [andb].
  destruct (Nat.ltb_spec u (length (ps_threads st))); [|left; reflexivity].
  right. exists u. repeat split; try reflexivity; assumption.
Qed.

Lemma pspurious_inv1 st t st' : Inv1 st -> pspurious st t = Some st' -> Inv1 st'.
Proof.
  intros I E. unfold pspurious in E. destruct (t_blocked (gett st t)) eqn:Eb; [|discriminate].
  inversion E; subst; clear E.
  assert (Hw : shape (woken (gett st t)) = true /\ holds (woken (gett st t)) = holds (gett st t)).
  { apply woken_ok; [apply I|congruence]. }
  apply (inv1_step st _ t I).
  - apply I.
  - intros x Hne. rewrite gett_set_thread. destruct (Nat.eqb_spec x t); [contradiction|]. cbn [andb].
    split; [apply I|reflexivity].
  - rewrite gett_set_thread. destruct (_ && _); [apply Hw|apply I].
  - intros m. rewrite gett_set_thread. destruct (_ && _).
    + fold (woken (gett st t)). destruct Hw as [_ ->]. apply (i1_own _ I).
    + apply (i1_own _ I).
  - intros m x _. reflexivity.
Qed.

(* the common tail of a step: wake, stash, continue, store the thread *)
Definition step_tail (st1 : pstate) (t : nat) (th : thread) (wake : option nat) (stash : list (nat * N)) : pstate :=
  let st2 := wake_step st1 (t_op th) wake in
  let st3 := snd (stash_deliver st2 t (t_lab th) stash) in
  set_thread (fst (continue st3 t (t_lab th))) t (snd (continue st3 t (t_lab th))).

Lemma step_tail_inv1 st st1 t wake stash :
  Inv1 st -> enabled st t = true -> wake_ok st t wake ->
  let th := gett st t in
  t_op th <> KWait -> t_op th <> KExit ->
  ps_threads st1 = ps_threads st ->
  NoDup (map fst (ps_owner st1)) ->
  (forall m, owner_of st1 m = Some t <-> In m (post_holds th)) ->
  (forall m x, x <> t -> (owner_of st1 m = Some x <-> owner_of st m = Some x)) ->
  Inv1 (step_tail st1 t th wake stash).
Proof.
  intros I En W th Hw He HT N1 Ot Ox.
  destruct (enabled_live _ _ En) as (Hlt & Hd & Hb).
  pose proof (i1_shape _ I t) as Hs. fold th in Hs, Hd, Hb.
  unfold step_tail.
  set (st2 := wake_step st1 (t_op th) wake).
  set (st3 := snd (stash_deliver st2 t (t_lab th) stash)).
  destruct (wake_step_frame st1 (t_op th) wake) as (Wo & Wl & Wt). fold st2 in Wo, Wl, Wt.
  destruct (stash_deliver_frame st2 t (t_lab th) stash) as (So & Sth). fold st3 in So, Sth.
  destruct (continue_frame st3 t (t_lab th)) as (Co & new & Cth & Fr).
  destruct (continue_thread st3 t th Hs Hd Hb Hw He) as (Sh' & Ho').
  set (st4 := fst (continue st3 t (t_lab th))) in *.
  set (th' := snd (continue st3 t (t_lab th))) in *.
  assert (Hlt4 : (t < length (ps_threads st4))%nat).
  { rewrite Cth, app_length, Sth, Wl, HT. lia. }
  assert (Gt : gett (set_thread st4 t th') t = th').
  { rewrite gett_set_thread, Nat.eqb_refl. cbn [andb]. destruct (Nat.ltb_spec t (length (ps_threads st4))); [reflexivity|lia]. }
  assert (Ow : forall m, owner_of (set_thread st4 t th') m = owner_of st1 m).
  { intros m. rewrite !owner_of_eq. unfold set_thread. cbn [ps_owner]. rewrite Co, So, Wo. reflexivity. }
  apply (inv1_step st _ t I).
  - unfold set_thread. cbn [ps_owner]. rewrite Co, So, Wo. exact N1.
  - intros x Hne. rewrite gett_set_thread. destruct (Nat.eqb_spec x t); [contradiction|]. cbn [andb].
    unfold gett at 1 2. rewrite Cth.
    destruct (Nat.lt_ge_cases x (length (ps_threads st3))) as [Hx|Hx].
    + rewrite app_nth1 by exact Hx. rewrite Sth. fold (gett st2 x).
      destruct (Wt x) as [->|(u & Eo & Ew & -> & Hu & ->)].
      * unfold gett. rewrite HT. fold (gett st x). split; [apply I|reflexivity].
      * unfold gett at 1 2. rewrite HT. fold (gett st u).
        apply woken_ok; [apply I|]. rewrite HT in Hu. unfold wake_ok in W. rewrite Ew in W. apply W; assumption.
    + destruct (fresh_nth (ps_threads st3) new x Fr Hx) as [F1 F2]. split; [exact F1|].
      rewrite F2. rewrite gett_oob; [reflexivity|]. rewrite Sth, Wl, HT in Hx. exact Hx.
  - rewrite Gt. exact Sh'.
  - intros m. rewrite Gt, Ow, Ho'. apply Ot.
  - intros m x Hne. rewrite Ow. apply Ox. exact Hne.
Qed.

Definition st1_of (st : pstate) (t : nat) : pstate :=
  let th := gett st t in
  match t_op th with
  | KLock | KReacq => set_owner st (t_obj th) (Some t)
  | KUnlock => set_owner st (t_obj th) None
  | _ => st
  end.

Lemma pstep_general st t wake stash :
  enabled st t = true -> t_op (gett st t) <> KWait -> t_op (gett st t) <> KExit ->
  pstep st t wake stash =
  Some (step_tail (st1_of st t) t (gett st t) wake stash, t_op (gett st t), t_obj (gett st t),
        fst (stash_deliver (wake_step (st1_of st t) (t_op (gett st t)) wake) t (t_lab (gett st t)) stash)).
Proof.
  intros En Hw He. unfold pstep, step_tail, st1_of. rewrite En. cbn [negb].
  destruct (t_op (gett st t)) eqn:Eop; try congruence;
    match goal with |- context [stash_deliver ?a ?b ?c ?d] => destruct (stash_deliver a b c d) as [s1 s3] end;
    cbn [fst snd];
    match goal with |- context [continue ?a ?b ?c] => destruct (continue a b c) as [s4 th'] end; reflexivity.
Qed.

Lemma unlock_not_in_post th : shape th = true -> t_op th = KUnlock -> ~ In (t_obj th) (post_holds th).
Proof.
  unfold shape, post_holds. destruct th as [op o lab b wm d]. cbn [t_op t_obj t_lab t_blocked t_wmutex t_done].
  intros Hs ->. destruct lab; try (exact (fun H => H)).
  apply andb_prop in Hs. destruct Hs as [Hs _]. apply andb_prop in Hs. destruct Hs as [Hs _].
  cbn [allowed] in Hs. unfold is_op in Hs. cbn [opk_eqb andb] in Hs.
  match type of Hs with obj_eqb _ ?x = true => destruct (obj_eqb_spec o x); [subst|discriminate] end. intros [H|[]]. discriminate.
Qed.

Lemma pstep_inv1 st t wake stash st' op o stash' :
  Inv1 st -> wake_ok st t wake -> pstep st t wake stash = Some (st', op, o, stash') -> Inv1 st'.
Proof.
  intros I W E.
  destruct (enabled st t) eqn:En; [|unfold pstep in E; rewrite En in E; discriminate].
  destruct (enabled_live _ _ En) as (Hlt & Hd & Hb).
  pose proof (i1_shape _ I t) as Hs.
  pose proof (i1_own _ I) as Own.
  destruct (opk_eqb (t_op (gett st t)) KWait) eqn:Ew.
  { (* cond_wait: release the mutex, block *)
    unfold pstep in E. rewrite En in E. cbn [negb] in E.
    destruct (t_op (gett st t)) eqn:Eop; try discriminate. inversion E; subst; clear E.
    set (m := wait_mutex (t_lab (gett st t))).
    assert (Hh : holds (gett st t) = [m]) by (unfold holds; rewrite Eop; reflexivity).
    assert (Hm : owner_of st m = Some t) by (apply Own; rewrite Hh; left; reflexivity).
    apply (inv1_step st _ t I).
    - apply set_owner_nodup, I.
    - intros x Hne. rewrite gett_set_thread. destruct (Nat.eqb_spec x t); [contradiction|]. cbn [andb].
      split; [apply I|reflexivity].
    - rewrite gett_set_thread, Nat.eqb_refl. cbn [andb set_owner ps_threads].
      destruct (Nat.ltb_spec t (length (ps_threads st))); [|lia].
      unfold shape in Hs |- *. cbn [t_op t_obj t_lab t_blocked t_wmutex t_done].
      rewrite Eop in Hs. apply andb_prop in Hs. destruct Hs as [Hs _]. apply andb_prop in Hs. destruct Hs as [Hs _].
      unfold m. rewrite (allowed_wait _ _ Hs), obj_eqb_refl. reflexivity.
    - intros m'. rewrite gett_set_thread, Nat.eqb_refl. cbn [andb set_owner ps_threads].
      destruct (Nat.ltb_spec t (length (ps_threads st))); [|lia]. cbn.
      change (owner_of (set_owner st m None) m' = Some t <-> False). rewrite owner_of_set_owner.
      destruct (obj_eqb_spec m m') as [<-|Hne]; [split; [discriminate|tauto]|].
      rewrite Own, Hh. cbn. tauto.
    - intros m' x Hne. change (owner_of (set_owner st m None) m' = Some x <-> owner_of st m' = Some x).
      rewrite owner_of_set_owner. destruct (obj_eqb_spec m m') as [<-|Hne']; [|reflexivity].
      rewrite Hm. split; [discriminate|]. intros H; inversion H; congruence. }
  destruct (opk_eqb (t_op (gett st t)) KExit) eqn:Ee.
  { unfold pstep in E. rewrite En in E. cbn [negb] in E.
    destruct (t_op (gett st t)) eqn:Eop; try discriminate. inversion E; subst; clear E.
    assert (Hh : holds (gett st t) = []) by (unfold holds; rewrite Eop; reflexivity).
    apply (inv1_step st _ t I).
    - apply I.
    - intros x Hne. rewrite gett_set_thread. destruct (Nat.eqb_spec x t); [contradiction|]. cbn [andb].
      split; [apply I|reflexivity].
    - rewrite gett_set_thread, Nat.eqb_refl. cbn [andb].
      destruct (Nat.ltb_spec t (length (ps_threads st))); [reflexivity|lia].
    - intros m'. rewrite gett_set_thread, Nat.eqb_refl. cbn [andb].
      destruct (Nat.ltb_spec t (length (ps_threads st))); [|lia]. cbn.
      change (owner_of st m' = Some t <-> False). rewrite Own, Hh. cbn. tauto.
    - intros m' x _. reflexivity. }
  assert (Hw : t_op (gett st t) <> KWait) by (intros H; rewrite H in Ew; discriminate).
  assert (He : t_op (gett st t) <> KExit) by (intros H; rewrite H in Ee; discriminate).
  rewrite (pstep_general _ _ wake stash En Hw He) in E. inversion E; subst; clear E.
  apply (step_tail_inv1 st (st1_of st t) t wake stash I En W Hw He).
  - unfold st1_of. destruct (t_op (gett st t)); reflexivity.
  - unfold st1_of. destruct (t_op (gett st t)); try apply I; apply set_owner_nodup, I.
  - intros m. unfold st1_of, post_holds. unfold enabled in En. rewrite Hd, Hb in En.
    destruct (t_op (gett st t)) eqn:Eop; try congruence; try apply Own; rewrite owner_of_set_owner.
    + destruct (obj_eqb_spec (t_obj (gett st t)) m) as [<-|Hne]; [split; [left; reflexivity|reflexivity]|].
      rewrite Own. cbn [In]. tauto.
    + destruct (obj_eqb_spec (t_obj (gett st t)) m) as [<-|Hne].
      * split; [discriminate|]. intros H. exfalso. apply (unlock_not_in_post _ Hs Eop).
        unfold post_holds. rewrite Eop. exact H.
      * rewrite Own. unfold holds. rewrite Eop. cbn [In]. tauto.
    + destruct (obj_eqb_spec (t_obj (gett st t)) m) as [<-|Hne]; [split; [left; reflexivity|reflexivity]|].
      rewrite Own. cbn [In]. tauto.
  - intros m x Hne. unfold st1_of. unfold enabled in En. rewrite Hd, Hb in En.
    destruct (t_op (gett st t)) eqn:Eop; try reflexivity; rewrite owner_of_set_owner;
      destruct (obj_eqb_spec (t_obj (gett st t)) m) as [<-|Hne']; try reflexivity.
    + destruct (owner_of st (t_obj (gett st t))); [discriminate|]. split; [intros H; inversion H; congruence|discriminate].
    + assert (Hm : owner_of st (t_obj (gett st t)) = Some t).
      { apply Own. unfold holds. rewrite Eop. left. reflexivity. }
      rewrite Hm. split; [discriminate|intros H; inversion H; congruence].
    + destruct (owner_of st (t_obj (gett st t))); [discriminate|]. split; [intros H; inversion H; congruence|discriminate].
Qed.

(* ---------- initial state, reachable states ---------- *)
Lemma pool_init_inv1 maxt prog : Inv1 (pool_init maxt prog).
Proof.
  unfold pool_init.
  set (st0 := mkp [dummy_t] [] [] 0 maxt [] [] prog 0 [] false).
  destruct (caller_next_frame st0) as (Co & new & Cth & Fr).
  destruct (caller_next_thread st0) as (Sh & Ho).
  destruct (caller_next st0) as [st1 th]. cbn [fst snd] in *.
  assert (G : forall x, shape (gett (set_thread st1 0 th) x) = true /\ holds (gett (set_thread st1 0 th) x) = []).
  { intros x. rewrite gett_set_thread. rewrite Cth. cbn [ps_threads st0 app length Nat.ltb Nat.leb].
    destruct (Nat.eqb_spec x 0) as [->|Hne]; cbn [andb]; [split; assumption|].
    unfold gett. rewrite Cth. change (ps_threads st0) with [dummy_t].
    apply (fresh_nth [dummy_t] new x Fr). cbn. lia. }
  constructor.
  - unfold set_thread. cbn [ps_owner]. rewrite Co. constructor.
  - intros m t. destruct (G t) as [_ ->]. rewrite owner_of_eq. unfold set_thread. cbn [ps_owner]. rewrite Co.
    cbn. split; [discriminate|tauto].
  - intros t. apply G.
Qed.

Definition reachable (maxt : N) (prog : list cmd) (st : pstate) (stash : list (nat * N)) : Prop :=
  exists s, sched_wf (pool_init maxt prog) [] s /\ prun (pool_init maxt prog) [] s = Some (st, stash).

Lemma prun_inv1 s : forall st0 stash0 st stash,
  Inv1 st0 -> sched_wf st0 stash0 s -> prun st0 stash0 s = Some (st, stash) -> Inv1 st.
Proof.
  induction s as [|[t w|t] s IH]; intros st0 stash0 st stash I W E; cbn [prun sched_wf] in *.
  - inversion E; subst. exact I.
  - destruct W as [W1 W2]. destruct (pstep st0 t w stash0) as [[[[st1 op] o] stash1]|] eqn:Es; [|discriminate].
    eapply IH; [|exact W2|exact E]. eapply pstep_inv1; eassumption.
  - destruct (pspurious st0 t) as [st1|] eqn:Es; [|discriminate].
    eapply IH; [|exact W|exact E]. eapply pspurious_inv1; eassumption.
Qed.

(* Tier 1 *)
Theorem T13_locks_consistent : forall maxt prog st stash, reachable maxt prog st stash -> Inv1 st.
Proof.
  intros maxt prog st stash (s & W & E). eapply prun_inv1; [apply pool_init_inv1|exact W|exact E].
Qed.

(* consequences, stated on any state satisfying the invariant *)
Lemma owner_unique st m t u : Inv1 st -> In (m, t) (ps_owner st) -> In (m, u) (ps_owner st) -> t = u.
Proof.
  intros I. pose proof (i1_nodup _ I) as N. induction (ps_owner st) as [|[a x] l IH]; cbn in *; [tauto|].
  inversion N as [|? ? Hnin Hnd]; subst. intros [Ha|Ha] [Hb|Hb].
  - congruence.
  - inversion Ha; subst. exfalso. apply Hnin. apply in_map_iff. exists (m, u). split; [reflexivity|assumption].
  - inversion Hb; subst. exfalso. apply Hnin. apply in_map_iff. exists (m, t). split; [reflexivity|assumption].
  - apply IH; assumption.
Qed.

Lemma unlock_by_owner st t : Inv1 st -> t_op (gett st t) = KUnlock -> owner_of st (t_obj (gett st t)) = Some t.
Proof. intros I E. apply (i1_own _ I). unfold holds. rewrite E. left. reflexivity. Qed.

Lemma wait_by_owner st t : Inv1 st -> t_op (gett st t) = KWait -> owner_of st (wait_mutex (t_lab (gett st t))) = Some t.
Proof. intros I E. apply (i1_own _ I). unfold holds. rewrite E. left. reflexivity. Qed.

Lemma lock_not_self st t : Inv1 st -> t_op (gett st t) = KLock \/ t_op (gett st t) = KReacq ->
  owner_of st (t_obj (gett st t)) <> Some t.
Proof.
  intros I E H. apply (i1_own _ I) in H. pose proof (i1_shape _ I t) as Hs.
  unfold holds in H. unfold shape in Hs. destruct (gett st t) as [op o lab b wm d].
  cbn [t_op t_obj t_lab t_blocked t_wmutex t_done] in *.
  destruct E as [-> | ->]; [|exact H].
  destruct lab; try exact H. destruct H as [<-|[]].
  apply andb_prop in Hs. destruct Hs as [Hs _]. apply andb_prop in Hs. destruct Hs as [Hs _]. discriminate.
Qed.

Print Assumptions T13_locks_consistent.
Print Assumptions lock_not_self.
