(* C18 operational resource model, tier 3 proofs: fileset.c / my_fileset.c. *)
From Coq Require Import NArith List Bool Lia ZifyBool ZifyN ZifyNat.
From Mtbl Require Import model.ResCore model.ResT1 model.ResFileset proofs.ResProofCore proofs.ResT1Proofs.
Import ListNotations.
Local Open Scope N_scope.

Lemma adds_flat_map : forall (A : Type) (c : A -> list ev) (f : A -> list rkind) l,
  (forall a, adds (c a) (f a)) -> adds (flat_map c l) (flat_map f l).
Proof.
  induction l as [|x t IH]; intros H k m; cbn [flat_map]; [cbn; lia|].
  rewrite runT_app, cnt_app, (H x), (IH H). lia.
Qed.
Lemma subs_flat_map' : forall (A : Type) (c : A -> list ev) (f : A -> list rkind) l,
  (forall a, subs (c a) (f a)) -> subs (flat_map c l) (flat_map f l).
Proof. intros. apply subs_flat_map. intros; auto. Qed.

Lemma reader_init_adds : forall ok o,
  adds (reader_init_code ok o) (fp_reader (if ok then reader_init_st o else RNull)).
Proof.
  intros ok o k m. unfold reader_init_code. destruct ok; [|cbn; lia].
  destruct o; unfold reader_init_fd_code, reader_destroy_partial; cbn [reader_init_st fp_reader]; rsolve.
Qed.
Lemma unload_subs : forall r, subs (unload_code r) (if r then fp_reader RTable else []).
Proof. intros [|] k m; cbn [unload_code reader_destroy_code fp_reader]; rsolve. Qed.

(* ---------- my_fileset_reload ---------- *)
Definition KA (rk : bool * bool) : list rkind := if snd rk then [HFsEntry] else [].
Definition REL (rk : bool * bool) : list rkind :=
  (if negb (snd rk) then (if fst rk then fp_reader RTable else []) else []) ++ [HFsEntry].

Lemma zip_keep_fst : forall e k, map fst (zip_keep e k) = e.
Proof.
  induction e as [|r t IH]; intros k; cbn [zip_keep map]; [reflexivity|].
  destruct k as [|k kt]; cbn [map fst]; rewrite IH; reflexivity.
Qed.
Lemma reload_balance : forall z k,
  cnt k (fp_entries (map fst z)) + cnt k (flat_map KA z) = cnt k (flat_map REL z) + cnt k (fp_entries (kept z)).
Proof.
  induction z as [|[r b] t IH]; intros k; [reflexivity|]. specialize (IH k).
  unfold kept, fp_entries in *.
  destruct b, r; cbn [map flat_map filter fst snd KA REL fp_entry negb app fp_reader]; rnorm; lia.
Qed.

Lemma fp_entries_app : forall a b, fp_entries (a ++ b) = fp_entries a ++ fp_entries b.
Proof. intros. apply flat_map_app. Qed.

Lemma my_reload_sound : forall entries p,
  sound (HEntryVec :: fp_entries entries) (fst (fst (fst (my_reload_code entries p))))
        (HEntryVec :: fp_entries (snd (fst (fst (my_reload_code entries p))))).
Proof.
  intros entries p. unfold my_reload_code. destruct (rl_changed p); [|apply sound_nil].
  cbn [fst snd]. set (z := zip_keep entries (rl_keep p)).
  assert (HA : adds (flat_map (fun rk : bool * bool => when (snd rk) (acq HFsEntry)) z) (flat_map KA z)).
  { apply adds_flat_map. intros [r b] k m. unfold KA. cbn [snd]. destruct b; cbn [when]; rsolve. }
  assert (HB : adds (flat_map (fun a => acq HFsEntry ++ reader_init_code (fst a) (snd a)) (rl_added p))
                    (fp_entries (map loaded (rl_added p)))).
  { unfold fp_entries. rewrite flat_map_map. apply adds_flat_map. intros [ok o] k m. cbn [fst snd].
    rewrite runT_app, runT_acq, reader_init_adds. unfold fp_entry, loaded. cbn [fst snd].
    destruct ok, o; cbn [andb reader_init_st fp_reader]; rnorm; lia. }
  assert (HC : subs (flat_map (fun rk : bool * bool => when (negb (snd rk)) (unload_code (fst rk)) ++ rel HFsEntry) z)
                    (flat_map REL z)).
  { apply subs_flat_map'. intros [r b] k m. unfold REL. cbn [fst snd].
    destruct b; cbn [negb when]; rnorm; [lia|]. rewrite unload_subs. rnorm. lia. }
  intros k n. pose proof (reload_balance z k) as HE. unfold z in HE at 1. rewrite zip_keep_fst in HE.
  fold z in HE. rewrite fp_entries_app.
  rnorm. rewrite HA, HB, HC. rnorm. lia.
Qed.

Lemma my_destroy_sound : forall entries,
  sound ([HMyFileset; HEntryVec] ++ fp_entries entries) (my_destroy_code entries) [].
Proof.
  intros entries. unfold my_destroy_code.
  assert (H : subs (flat_map (fun r => unload_code r ++ rel HFsEntry) entries) (fp_entries entries)).
  { apply subs_flat_map'. intros r k m. unfold fp_entry. rnorm. rewrite unload_subs. destruct r; cbn [fp_reader]; rnorm; lia. }
  intros k n. rnorm. rewrite H. rnorm. lia.
Qed.

(* ---------- fileset.c ---------- *)
Lemma reinit_sound : forall b, sound fp_handle (when b reinit_code) fp_handle.
Proof.
  intros b k n. destruct b; [|reflexivity]. unfold when, reinit_code, merger_destroy_code, merger_init_code, fp_handle, fp_merger.
  rsolve.
Qed.

Lemma fileset_reload_hsound : forall now f sh p,
  sound fp_handle (fst (fst (fst (fileset_reload_code now f sh p)))) fp_handle.
Proof.
  intros now f sh p. unfold fileset_reload_code.
  destruct (0 <? sh_iters sh); [apply reinit_sound|].
  destruct (now || sh_needed sh || rl_due p); [|apply reinit_sound].
  destruct (my_reload_code (sh_entries sh) p) as [[[es ents] nl] nu]. cbn [fst].
  eapply sound_trans; apply reinit_sound.
Qed.

Lemma fileset_reload_ssound : forall now f sh p,
  sound (fp_shared sh) (snd (fst (fileset_reload_code now f sh p)))
        (fp_shared (snd (fileset_reload_code now f sh p))).
Proof.
  intros now f sh p. unfold fileset_reload_code.
  destruct (0 <? sh_iters sh); [apply sound_nil|].
  destruct (now || sh_needed sh || rl_due p); [|apply sound_nil].
  pose proof (my_reload_sound (sh_entries sh) p) as H.
  destruct (my_reload_code (sh_entries sh) p) as [[[es ents] nl] nu]. cbn [fst snd] in *.
  unfold fp_shared. cbn [sh_entries].
  eapply sound_equiv; [ | | apply (sound_frame [HSharedFs; HMyFileset]), H]; intros k; rsolve.
Qed.

Lemma reader_subs_ok : forall n ocs s, In s (reader_subs n ocs) -> sub_ok s.
Proof.
  induction n as [|m IH]; intros ocs s H; cbn [reader_subs] in H; [destruct H|].
  destruct H as [<-|H]; [|exact (IH _ _ H)]. unfold sub_ok. cbn [fst snd]. apply reader_iter_adds.
Qed.
Lemma fileset_iter_icode_adds : forall q entries oc,
  adds (fst (fileset_iter_icode q entries oc)) (fp_iter (snd (fileset_iter_icode q entries oc))).
Proof.
  intros q entries oc. unfold fileset_iter_icode.
  pose proof (merger_iter_adds q _ (reader_subs_ok (n_readers entries) (oc_subs oc))) as HM.
  destruct (merger_iter_code q (reader_subs (n_readers entries) (oc_subs oc))) as [em inner]. cbn [fst snd] in *.
  intros k m. cbn [fp_iter]. rnorm. rewrite HM. rnorm. lia.
Qed.

Lemma fileset_init_hsound : sound [] fileset_init_hcode fp_handle.
Proof.
  intros k n. unfold fileset_init_hcode, set_options_code, merger_init_code, fp_handle, fp_merger. rsolve.
Qed.
Lemma fileset_init_ssound : sound [] fileset_init_scode (fp_shared shared_init_st).
Proof. intros k n. unfold fileset_init_scode, fp_shared, shared_init_st, fp_entries. cbn [sh_entries flat_map]. rsolve. Qed.
Lemma fileset_destroy_hsound : sound fp_handle fileset_destroy_hcode [].
Proof.
  intros k n. unfold fileset_destroy_hcode, merger_destroy_code, fp_handle, fp_merger. rsolve.
Qed.
Lemma fileset_destroy_ssound : forall sh,
  sound (fp_shared sh) (fst (fileset_destroy_scode sh))
        (match snd (fileset_destroy_scode sh) with Some sh' => fp_shared sh' | None => [] end).
Proof.
  intros sh. unfold fileset_destroy_scode. destruct (sh_handles sh <=? 1); cbn [fst snd]; [|apply sound_nil].
  eapply sound_trans.
  - eapply sound_equiv; [ | reflexivity | apply (sound_frame [HSharedFs]), my_destroy_sound].
    intros k. unfold fp_shared. rsolve.
  - intros k n. rsolve.
Qed.
