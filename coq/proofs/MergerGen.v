(* merger.c for ANY dupsort option ds: the development of proofs/MergerProofs.v (which fixes ds = None)
   redone with the heap comparison cmp := mcmp ds, over the array heap (proofs/HeapWeak.v).
   The order [ele] on entries in which the output is sorted is an argument: a total preorder that
   refines the key order and that every answer of the comparison respects
   (cmp a b <= 0 only if a is below b, cmp a b > 0 only if b is below a).  Two instances
   (proofs/MergerNoMerge.v): "key, then dupsort" when the dupsort function is a total preorder per
   key, and the plain key order for an ARBITRARY dupsort function.
   Sources need only be sorted for [ele] ([gsorted]); the class of source contents is an argument
   [srt]: srt := ssorted (strictly ascending keys: reader iterators) gives the statements about
   tables, srt := gsorted the ones about sources that are themselves mergers.
   Two modes of merger_iter_next:
     - no merge function (next0_step, drain0_spec): every call delivers ONE least remaining entry;
     - a merge function (gmerger_next_step, gdrain_spec): as MergerProofs, for any dupsort. *)
From Coq Require Import NArith List Lia Permutation Sorting.Sorted.
From Mtbl Require Import model.Bytes model.Order model.Heap model.Merger spec.MergeSpec proofs.OrderProofs
  proofs.HeapProofs proofs.HeapWeak proofs.MergerProofs.
Local Open Scope N_scope.

Lemma StronglySorted_impl {A} (R S : A -> A -> Prop) l :
  (forall a b, R a b -> S a b) -> StronglySorted R l -> StronglySorted S l.
Proof.
  intros HRS H. induction H as [|a l Hl IH Hall]; constructor; [exact IH|].
  eapply Forall_impl; [|exact Hall]. intros b. apply HRS.
Qed.

Section Gen.
Variable ds : option (bytes -> bytes -> bytes -> comparison).
Local Notation cmp := (mcmp ds).
Local Notation hpush := (heap_push hent cmp dummy_he).
Local Notation hpop := (heap_pop hent cmp dummy_he).
Local Notation hreplace := (heap_replace hent cmp dummy_he).

(* the order on entries: any total preorder that every answer of the heap comparison respects and
   that refines the order of the keys *)
Variable ele : entry -> entry -> Prop.
Hypothesis ele_trans : forall a b c, ele a b -> ele b c -> ele a c.
Hypothesis ele_total : forall a b, ele a b \/ ele b a.
Hypothesis ele_cmp_le : forall a b, cmp a b <> Gt -> ele (he_key a, he_val a) (he_key b, he_val b).
Hypothesis ele_cmp_gt : forall a b, cmp a b = Gt -> ele (he_key b, he_val b) (he_key a, he_val a).
Hypothesis ele_key : forall a b, ele a b -> bcmp (fst a) (fst b) <> Gt.

Lemma ele_refl a : ele a a.
Proof. destruct (ele_total a a); assumption. Qed.
Lemma ele_lt a b : bcmp (fst a) (fst b) = Lt -> ele a b.
Proof.
  destruct a as [ka va], b as [kb vb]. cbn [fst]. intros H.
  apply (ele_cmp_le (mkhe 0 ka va false) (mkhe 0 kb vb false)). unfold mcmp. cbn [he_key]. rewrite H. discriminate.
Qed.

Definition hle (a b : hent) : Prop := ele (he_key a, he_val a) (he_key b, he_val b).
Lemma hle_trans a b c : hle a b -> hle b c -> hle a c.
Proof. unfold hle. apply ele_trans. Qed.
Lemma hle_total a b : hle a b \/ hle b a.
Proof. unfold hle. apply ele_total. Qed.
Lemma hle_true a b : le_c hent cmp a b = true -> hle a b.
Proof. unfold le_c, hle. intros H. apply ele_cmp_le. destruct (cmp a b); congruence. Qed.
Lemma hle_false a b : le_c hent cmp a b = false -> hle b a.
Proof. unfold le_c, hle. intros H. apply ele_cmp_gt. destruct (cmp a b); congruence. Qed.

(* ---- the heap contract, from HeapWeak ------------------------------------------------------------ *)
Definition ghk : list hent -> Prop := HW.hok hent dummy_he hle.

Lemma G_nil : ghk [].
Proof. exact (HW.hok_nil hent cmp dummy_he hle hle_trans hle_total hle_true hle_false). Qed.
Lemma G_push h x : ghk h -> ghk (hpush h x) /\ Permutation (hpush h x) (x :: h).
Proof. exact (HW.heap_push_ok hent cmp dummy_he hle hle_trans hle_total hle_true hle_false h x). Qed.
Lemma G_pop r t : ghk (r :: t) -> ghk (hpop (r :: t)) /\ Permutation (hpop (r :: t)) t.
Proof. exact (HW.heap_pop_ok hent cmp dummy_he hle hle_trans hle_total hle_true hle_false r t). Qed.
Lemma G_replace r t x : ghk (r :: t) -> ghk (hreplace (r :: t) x) /\ Permutation (hreplace (r :: t) x) (x :: t).
Proof. exact (HW.heap_replace_ok hent cmp dummy_he hle hle_trans hle_total hle_true hle_false r t x). Qed.
Lemma G_min r t y : ghk (r :: t) -> In y t -> hle r y.
Proof. exact (HW.heap_root_min hent cmp dummy_he hle hle_trans hle_total hle_true hle_false r t y). Qed.
Lemma G_mark r t r' : ghk (r :: t) -> he_key r' = he_key r -> he_val r' = he_val r -> ghk (r' :: t).
Proof.
  intros H Ek Ev. apply (HW.hok_root_equiv hent cmp dummy_he hle hle_trans hle_total hle_true hle_false r r' t H).
  intros y. unfold hle. rewrite Ek, Ev. exact (fun h => h).
Qed.

(* a source content sorted for [ele] (several entries per key allowed) *)
Definition gsorted (es : list entry) : Prop :=
  forall i j a b, (i < j)%nat -> nth_error es i = Some a -> nth_error es j = Some b -> ele a b.

Lemma ssorted_gsorted es : ssorted es -> gsorted es.
Proof. intros H i j a b Hij Ha Hb. apply ele_lt. exact (H i j a b Hij Ha Hb). Qed.

(* the class of source contents *)
Variable srt : list entry -> Prop.
Hypothesis srt_gsorted : forall es, srt es -> gsorted es.

(* ---- the invariant ---------------------------------------------------------------------------------- *)
Definition gent_ok (srcs : list scur) (e : hent) : Prop :=
  (he_src e < length srcs)%nat /\
  let s := get_src srcs (he_src e) in
  sc_null s = false /\ sc_bound s = BAll /\ srt (sc_es s) /\
  (he_fin e = false -> sc_valid s = true /\ (0 < sc_pos s)%nat /\ nth_error (sc_es s) (sc_pos s - 1) = Some (he_key e, he_val e)).

Definition ginv (srcs : list scur) (heap : list hent) : Prop :=
  ghk heap /\ Forall (gent_ok srcs) heap /\ NoDup (map he_src heap) /\ (forall e, In e (tl heap) -> he_fin e = false).

Lemma gchunk_min srcs e x : gent_ok srcs e -> he_fin e = false -> In x (chunk srcs e) -> ele (he_key e, he_val e) x.
Proof.
  intros (Hlt & Hnull & Hb & Hs & Hv) Hf Hx. unfold chunk in Hx. rewrite Hf in Hx. destruct (Hv Hf) as (Hval & Hpos & Hnth).
  destruct Hx as [<-|Hx]; [apply ele_refl|].
  destruct (In_skipn_nth _ _ _ Hx) as (j & Hj & Hn).
  assert (Hij : (sc_pos (get_src srcs (he_src e)) - 1 < j)%nat) by lia.
  exact (srt_gsorted _ Hs _ j _ x Hij Hnth Hn).
Qed.

(* the root is a least remaining entry *)
Lemma groot_min srcs r t x : ginv srcs (r :: t) -> nofin (r :: t) -> In x (rem srcs (r :: t)) -> ele (he_key r, he_val r) x.
Proof.
  intros (Hok & Hall & _ & _) Hnf Hx. destruct (In_rem _ _ _ Hx) as (e & He & Hxe).
  rewrite Forall_forall in Hall. pose proof (gchunk_min srcs e x (Hall e He) (Hnf e He) Hxe) as Hle.
  destruct He as [<-|He]; [exact Hle|].
  eapply ele_trans; [exact (G_min r t e Hok He)|exact Hle].
Qed.
Lemma groot_min_key srcs r t x : ginv srcs (r :: t) -> nofin (r :: t) -> In x (rem srcs (r :: t)) -> bcmp (he_key r) (fst x) <> Gt.
Proof. intros H1 H2 H3. exact (ele_key _ _ (groot_min srcs r t x H1 H2 H3)). Qed.

Lemma gent_ok_other srcs i s e : he_src e <> i -> gent_ok srcs e -> gent_ok (set_src srcs i s) e.
Proof. intros H (Hlt & Hrest). unfold gent_ok. rewrite set_src_length, get_set_src_other by congruence. split; assumption. Qed.
Lemma Forall_gent_ok_other srcs i s t : ~ In i (map he_src t) -> Forall (gent_ok srcs) t -> Forall (gent_ok (set_src srcs i s)) t.
Proof.
  intros H Hall. rewrite Forall_forall in *. intros e He. apply gent_ok_other; [|apply Hall, He].
  intros E. apply H. apply in_map_iff. exists e. split; assumption.
Qed.

(* refill_root: the root's entry leaves the remaining multiset; everything else stays *)
Lemma grefill_root_spec srcs r t : ginv srcs (r :: t) -> nofin (r :: t) ->
  let '(srcs', heap') := refill_root ds srcs (r :: t) in
  ginv srcs' heap' /\ Permutation ((he_key r, he_val r) :: rem srcs' heap') (rem srcs (r :: t)) /\
  length heap' = length (r :: t) /\ length srcs' = length srcs /\ map sc_es srcs' = map sc_es srcs.
Proof.
  intros (Hok & Hall & Hnd & Htl) Hnf. inversion Hall as [|? ? Hr Ht]; subst. inversion Hnd as [|? ? Hni Hnd']; subst.
  pose proof (Hnf r (or_introl eq_refl)) as Hrf. destruct Hr as (Hlt & Hnull & Hb & Hs & Hv). destruct (Hv Hrf) as (Hval & Hpos & Hnth).
  cbn [refill_root]. unfold fill, sc_next. set (s := get_src srcs (he_src r)) in *. rewrite Hnull, Hval. cbn [orb negb].
  assert (Hrem : rem srcs (r :: t) = (he_key r, he_val r) :: skipn (sc_pos s) (sc_es s) ++ rem srcs t).
  { unfold rem. cbn [map concat]. unfold chunk at 1. rewrite Hrf. reflexivity. }
  destruct (nth_error (sc_es s) (sc_pos s)) as [[k v]|] eqn:En.
  - (* the source has another entry *)
    rewrite Hb. cbn [sbound_ok].
    set (s' := mksc (sc_es s) (S (sc_pos s)) true BAll false). set (new := mkhe (he_src r) k v false).
    destruct (G_replace r t new Hok) as [Hok' Hperm]. splits.
    + unfold ginv. splits.
      * exact Hok'.
      * eapply Permutation_Forall; [apply Permutation_sym, Hperm|]. constructor.
        -- unfold gent_ok. cbn [he_src new]. rewrite set_src_length, get_set_src_same by exact Hlt.
           split; [exact Hlt|]. cbn [s' sc_null sc_bound sc_es sc_valid sc_pos]. splits; try reflexivity; try assumption.
           intros _. splits; [reflexivity|lia|]. replace (S (sc_pos s) - 1)%nat with (sc_pos s) by lia. exact En.
        -- apply Forall_gent_ok_other; assumption.
      * eapply Permutation_NoDup; [apply Permutation_map, Permutation_sym, Hperm|]. cbn [map he_src new]. constructor; assumption.
      * intros e He. assert (Hin : In e (hreplace (r :: t) new)) by (destruct (hreplace (r :: t) new); [contradiction|right; exact He]).
        apply (Permutation_in _ Hperm) in Hin. destruct Hin as [<-|Hin]; [reflexivity|]. apply Hnf. right. exact Hin.
    + rewrite Hrem. apply perm_skip.
      eapply Permutation_trans; [apply (Permutation_concat_map (chunk (set_src srcs (he_src r) s')) _ _ Hperm)|].
      cbn [map concat]. fold (rem (set_src srcs (he_src r) s') t). rewrite rem_other by exact Hni.
      apply Permutation_app_tail. unfold chunk. cbn [he_fin he_src he_key he_val new]. rewrite get_set_src_same by exact Hlt.
      cbn [s' sc_pos sc_es]. rewrite (skipn_nth_error _ _ _ En). reflexivity.
    + rewrite (Permutation_length Hperm). reflexivity.
    + apply set_src_length.
    + apply map_es_set_src; [exact Hlt|reflexivity].
  - (* the source is exhausted: the root is marked finished *)
    set (s' := mksc (sc_es s) (sc_pos s) false (sc_bound s) false). set (r' := mkhe (he_src r) (he_key r) (he_val r) true).
    cbn [set_nth]. splits.
    + unfold ginv. splits.
      * apply (G_mark r t r' Hok); reflexivity.
      * constructor.
        -- unfold gent_ok. cbn [he_src r']. rewrite set_src_length, get_set_src_same by exact Hlt.
           split; [exact Hlt|]. cbn [s' sc_null sc_bound sc_es]. splits; try reflexivity; try assumption. cbn [he_fin r']. discriminate.
        -- apply Forall_gent_ok_other; assumption.
      * cbn [map he_src r']. constructor; assumption.
      * intros e He. cbn [tl] in He. apply Hnf. right. exact He.
    + rewrite Hrem. apply perm_skip. unfold rem at 1. cbn [map concat]. fold (rem (set_src srcs (he_src r) s') t).
      unfold chunk at 1. cbn [he_fin r']. rewrite rem_other by exact Hni. rewrite (skipn_nth_error_none _ _ En). reflexivity.
    + reflexivity.
    + apply set_src_length.
    + apply map_es_set_src; [exact Hlt|reflexivity].
Qed.

Lemma gpop_finished_nofin : forall f heap, nofin heap -> pop_finished ds f heap = heap.
Proof.
  intros f heap H. destruct f; [reflexivity|]. cbn [pop_finished]. destruct heap as [|e t]; [reflexivity|].
  rewrite (H e (or_introl eq_refl)). reflexivity.
Qed.

Lemma gpop_finished_spec srcs heap n :
  ginv srcs heap ->
  let heap' := pop_finished ds (S n) heap in
  ginv srcs heap' /\ nofin heap' /\ Permutation (rem srcs heap') (rem srcs heap) /\ (length heap' <= length heap)%nat.
Proof.
  intros (Hok & Hall & Hnd & Htl). cbn zeta. cbn [pop_finished]. destruct heap as [|r t].
  - splits; [unfold ginv; splits; try assumption|intros e []|reflexivity|lia].
  - destruct (he_fin r) eqn:Ef.
    + destruct (G_pop r t Hok) as [Hok' Hperm]. cbn [tl] in Htl.
      assert (Hnf : nofin (hpop (r :: t))).
      { intros e He. apply Htl. eapply Permutation_in; [exact Hperm|exact He]. }
      rewrite gpop_finished_nofin by exact Hnf. inversion Hall; subst. inversion Hnd; subst. splits.
      * unfold ginv. splits; [exact Hok'| | |].
        -- eapply Permutation_Forall; [apply Permutation_sym, Hperm|assumption].
        -- eapply Permutation_NoDup; [apply Permutation_map, Permutation_sym, Hperm|assumption].
        -- intros e He. apply Hnf. destruct (hpop (r :: t)); [contradiction|right; exact He].
      * exact Hnf.
      * change (rem srcs (r :: t)) with (chunk srcs r ++ rem srcs t). unfold chunk at 1. rewrite Ef. cbn [app].
        unfold rem. apply Permutation_concat_map, Hperm.
      * rewrite (Permutation_length Hperm). cbn. lia.
    + splits; [unfold ginv; splits; assumption| |reflexivity|lia].
      intros e [<-|He]; [exact Ef|apply Htl, He].
Qed.

(* ---- states between calls --------------------------------------------------------------------------- *)
Definition gapi (it : miter) : Prop :=
  ginv (mi_srcs it) (mi_heap it) /\ nofin (mi_heap it) /\ mi_pending it = false /\
  (mi_finished it = true -> mi_heap it = []) /\
  (length (rem (mi_srcs it) (mi_heap it)) + length (mi_heap it) <= total_es (mi_srcs it) + 2 * length (mi_srcs it))%nat.

(* ---- one call of merger_iter_next, NO merge function ----------------------------------------------- *)
Theorem next0_step it : gapi it ->
  match merger_next None ds it with
  | (it', Some e) =>
      Permutation (e :: remaining it') (remaining it) /\
      (forall x, In x (remaining it) -> ele e x) /\
      gapi it' /\ map sc_es (mi_srcs it') = map sc_es (mi_srcs it)
  | (it', None) => remaining it = [] /\ gapi it' /\ remaining it' = [] /\ mi_srcs it' = mi_srcs it
  end.
Proof.
  intros (Hinv & Hnf & Hp & Hfin & Hbound). unfold merger_next, remaining.
  destruct (mi_finished it) eqn:Ef.
  { rewrite (Hfin eq_refl). splits; try reflexivity. unfold gapi. rewrite (Hfin eq_refl) in *. splits; try assumption. intros _. reflexivity. }
  unfold total_remaining. fold (total_es (mi_srcs it)). cbn [mi_srcs].
  set (N0 := (total_es (mi_srcs it) + 2 * length (mi_srcs it))%nat) in *.
  remember (S N0) as N1 eqn:EN1.
  cbn [next_loop mi_heap mi_srcs mi_pending mi_entries mi_cur_key mi_cur_val mi_finished]. subst N1.
  rewrite (gpop_finished_nofin _ _ Hnf).
  destruct (mi_heap it) as [|e t] eqn:Eh.
  - (* no entry left *)
    cbn [negb mi_pending mi_srcs mi_heap]. splits; try reflexivity.
    unfold gapi. cbn [mi_srcs mi_heap mi_pending mi_finished]. splits; try assumption; try reflexivity.
  - cbn [negb].
    pose proof (grefill_root_spec (mi_srcs it) e t Hinv Hnf) as Hrf.
    destruct (refill_root ds (mi_srcs it) (e :: t)) as [srcs' heap'] eqn:Erf.
    destruct Hrf as (Hinv2 & Hperm2 & Hlen2 & Hlens & Hes2).
    cbn [next_loop mi_heap mi_srcs mi_pending mi_entries mi_cur_key mi_cur_val mi_finished negb].
    destruct (gpop_finished_spec srcs' heap' (length heap') Hinv2) as (Hinv3 & Hnf3 & Hperm3 & Hlen3).
    set (heap2 := pop_finished ds (S (length heap')) heap') in *.
    assert (Hres : forall fin, (fin = true -> heap2 = []) ->
      Permutation ((he_key e, he_val e) :: rem srcs' heap2) (rem (mi_srcs it) (e :: t)) /\
      (forall x, In x (rem (mi_srcs it) (e :: t)) -> ele (he_key e, he_val e) x) /\
      gapi (mkmi srcs' heap2 (mi_entries it) (he_key e) (he_val e) fin false) /\
      map sc_es srcs' = map sc_es (mi_srcs it)).
    { intros fin Hf2. splits.
      - eapply Permutation_trans; [|exact Hperm2]. apply perm_skip. exact Hperm3.
      - intros x Hx. exact (groot_min (mi_srcs it) e t x Hinv Hnf Hx).
      - unfold gapi. cbn [mi_srcs mi_heap mi_pending mi_finished]. splits; try assumption; try reflexivity.
        pose proof (Permutation_length Hperm3) as L3. pose proof (Permutation_length Hperm2) as L2.
        cbn [length] in L2, Hlen2, Hbound. rewrite (total_es_map _ _ Hes2), Hlens. unfold entry in *. lia.
      - exact Hes2. }
    destruct heap2 as [|e2 t2] eqn:Eh2.
    + cbn [negb mi_pending mi_cur_key mi_cur_val mi_srcs mi_heap mi_entries mi_finished].
      apply (Hres true). intros _. reflexivity.
    + cbn [negb mi_pending mi_cur_key mi_cur_val mi_srcs mi_heap mi_entries mi_finished].
      apply (Hres false). discriminate.
Qed.

(* ---- construction ------------------------------------------------------------------------------------ *)
Definition gfresh (s : scur) : Prop :=
  sc_pos s = 0%nat /\ sc_valid s = true /\ sc_bound s = BAll /\ sc_null s = false /\ srt (sc_es s).

Lemma gadd_entries_spec : forall ids srcs heap ents,
  ginv srcs heap -> nofin heap -> NoDup ids ->
  (forall i, In i ids -> (i < length srcs)%nat /\ ~ In i (map he_src heap) /\ gfresh (get_src srcs i)) ->
  let '(srcs', heap', ents') := add_entries ds srcs ids heap ents in
  ginv srcs' heap' /\ nofin heap' /\
  Permutation (rem srcs' heap') (rem srcs heap ++ concat (map (fun i => sc_es (get_src srcs i)) ids)) /\
  map sc_es srcs' = map sc_es srcs /\ (length heap' <= length heap + length ids)%nat.
Proof.
  induction ids as [|i ids IH]; intros srcs heap ents Hinv Hnf Hnd Hids.
  - cbn [add_entries map concat]. rewrite app_nil_r. splits; try assumption; try reflexivity. lia.
  - inversion Hnd as [|? ? Hni Hnd']; subst.
    destruct (Hids i (or_introl eq_refl)) as (Hlt & Hnh & (Hpos & Hval & Hb & Hnull & Hs)).
    destruct Hinv as (Hok & Hall & Hndh & Htl).
    cbn [add_entries]. unfold fill, sc_next. rewrite Hnull, Hval, Hpos. cbn [orb negb].
    assert (Hrest : forall s', sc_es s' = sc_es (get_src srcs i) -> forall j, In j ids ->
              (j < length (set_src srcs i s'))%nat /\ gfresh (get_src (set_src srcs i s') j) /\
              sc_es (get_src (set_src srcs i s') j) = sc_es (get_src srcs j)).
    { intros s' _ j Hj. assert (i <> j) by (intros ->; contradiction).
      destruct (Hids j (or_intror Hj)) as (Hjl & _ & Hjf). rewrite set_src_length, get_set_src_other by assumption. splits; try assumption; reflexivity. }
    destruct (nth_error (sc_es (get_src srcs i)) 0) as [[k v]|] eqn:En.
    + rewrite Hb. cbn [sbound_ok].
      set (s' := mksc (sc_es (get_src srcs i)) 1 true BAll false). set (new := mkhe i k v false).
      destruct (G_push heap new Hok) as [Hok' Hperm].
      assert (Hinv1 : ginv (set_src srcs i s') (hpush heap new)).
      { unfold ginv. splits.
        - exact Hok'.
        - eapply Permutation_Forall; [apply Permutation_sym, Hperm|]. constructor.
          + unfold gent_ok. cbn [he_src new]. rewrite set_src_length, get_set_src_same by exact Hlt. split; [exact Hlt|].
            cbn [s' sc_null sc_bound sc_es sc_valid sc_pos]. splits; try reflexivity; try assumption. intros _. splits; [reflexivity|lia|exact En].
          + apply Forall_gent_ok_other; assumption.
        - eapply Permutation_NoDup; [apply Permutation_map, Permutation_sym, Hperm|]. cbn [map he_src new]. constructor; assumption.
        - intros e He. assert (Hin : In e (hpush heap new)) by (destruct (hpush heap new); [contradiction|right; exact He]).
          apply (Permutation_in _ Hperm) in Hin. destruct Hin as [<-|Hin]; [reflexivity|apply Hnf, Hin]. }
      assert (Hnf1 : nofin (hpush heap new)).
      { intros e He. apply (Permutation_in _ Hperm) in He. destruct He as [<-|He]; [reflexivity|apply Hnf, He]. }
      assert (Hids1 : forall j, In j ids -> (j < length (set_src srcs i s'))%nat /\ ~ In j (map he_src (hpush heap new)) /\ gfresh (get_src (set_src srcs i s') j)).
      { intros j Hj. destruct (Hrest s' eq_refl j Hj) as (H1 & H2 & _). splits; try assumption.
        intros Hin. apply (Permutation_in _ (Permutation_map he_src Hperm)) in Hin. cbn [map he_src new] in Hin.
        destruct Hin as [<-|Hin]; [contradiction|]. destruct (Hids j (or_intror Hj)) as (_ & Hnj & _). contradiction. }
      specialize (IH (set_src srcs i s') (hpush heap new) (ents ++ [i]) Hinv1 Hnf1 Hnd' Hids1).
      destruct (add_entries ds (set_src srcs i s') ids (hpush heap new) (ents ++ [i])) as [[srcs' heap'] ents'].
      destruct IH as (Hinv' & Hnf' & HpermR & Hes & Hlen). splits; try assumption.
      * eapply Permutation_trans; [exact HpermR|]. cbn [map concat].
        assert (Hrem1 : Permutation (rem (set_src srcs i s') (hpush heap new)) (sc_es (get_src srcs i) ++ rem srcs heap)).
        { eapply Permutation_trans; [apply (Permutation_concat_map (chunk (set_src srcs i s')) _ _ Hperm)|]. cbn [map concat].
          fold (rem (set_src srcs i s') heap). rewrite rem_other by exact Hnh. apply Permutation_app_tail.
          unfold chunk, new. cbn [he_fin he_src he_key he_val]. rewrite get_set_src_same by exact Hlt. unfold s'. cbn [sc_pos sc_es].
          pose proof (skipn_nth_error _ _ _ En) as Hsk. cbn [skipn] in Hsk. rewrite Hsk at 2. reflexivity. }
        assert (Hmap : map (fun j => sc_es (get_src (set_src srcs i s') j)) ids = map (fun j => sc_es (get_src srcs j)) ids).
        { apply map_ext_in. intros j Hj. exact (proj2 (proj2 (Hrest s' eq_refl j Hj))). }
        rewrite Hmap. eapply Permutation_trans; [apply Permutation_app_tail, Hrem1|].
        rewrite <- !app_assoc. eapply Permutation_trans; [apply Permutation_app_comm|]. rewrite <- !app_assoc.
        apply Permutation_app_head. apply Permutation_app_comm.
      * rewrite Hes. apply map_es_set_src; [exact Hlt|reflexivity].
      * rewrite (Permutation_length Hperm) in Hlen. cbn [length] in *. lia.
    + (* an empty source *)
      set (s' := mksc (sc_es (get_src srcs i)) 0 false (sc_bound (get_src srcs i)) false).
      assert (Hinv1 : ginv (set_src srcs i s') heap).
      { unfold ginv. splits; try assumption. apply Forall_gent_ok_other; assumption. }
      assert (Hids1 : forall j, In j ids -> (j < length (set_src srcs i s'))%nat /\ ~ In j (map he_src heap) /\ gfresh (get_src (set_src srcs i s') j)).
      { intros j Hj. destruct (Hrest s' eq_refl j Hj) as (H1 & H2 & _). destruct (Hids j (or_intror Hj)) as (_ & Hnj & _). splits; assumption. }
      specialize (IH (set_src srcs i s') heap ents Hinv1 Hnf Hnd' Hids1).
      destruct (add_entries ds (set_src srcs i s') ids heap ents) as [[srcs' heap'] ents'].
      destruct IH as (Hinv' & Hnf' & HpermR & Hes & Hlen). splits; try assumption.
      * eapply Permutation_trans; [exact HpermR|]. cbn [map concat]. rewrite rem_other by exact Hnh.
        assert (Hmap : map (fun j => sc_es (get_src (set_src srcs i s') j)) ids = map (fun j => sc_es (get_src srcs j)) ids).
        { apply map_ext_in. intros j Hj. exact (proj2 (proj2 (Hrest s' eq_refl j Hj))). }
        rewrite Hmap. assert (E0 : sc_es (get_src srcs i) = []) by (destruct (sc_es (get_src srcs i)); [reflexivity|discriminate]).
        rewrite E0. reflexivity.
      * rewrite Hes. apply map_es_set_src; [exact Hlt|reflexivity].
      * cbn [length]. lia.
Qed.

(* mtbl_source_iter on a merger: every source contributes its whole content *)
Theorem gmerger_iter_make_spec (srcs : list scur) :
  Forall gfresh srcs ->
  exists it, merger_iter_make ds srcs false = Some it /\ gapi it /\
             Permutation (remaining it) (concat (map sc_es srcs)) /\ mi_finished it = false.
Proof.
  intros Hfresh. unfold merger_iter_make.
  assert (Hf : forall l : list nat, filter (fun i => negb (false && sc_null (get_src srcs i))) l = l).
  { induction l as [|x l IHl]; [reflexivity|]. cbn [filter andb negb]. f_equal. exact IHl. }
  rewrite Hf. cbn [andb].
  assert (Hinv0 : ginv srcs []) by (unfold ginv; splits; [exact G_nil|constructor|constructor|intros e []]).
  assert (Hids : forall i, In i (seq 0 (length srcs)) -> (i < length srcs)%nat /\ ~ In i (map he_src []) /\ gfresh (get_src srcs i)).
  { intros i Hi. apply in_seq in Hi. splits; [lia|intros []|]. rewrite Forall_forall in Hfresh. apply Hfresh. unfold get_src. apply nth_In. lia. }
  pose proof (gadd_entries_spec (seq 0 (length srcs)) srcs [] [] Hinv0 ltac:(intros e []) (seq_NoDup _ _) Hids) as H.
  destruct (add_entries ds srcs (seq 0 (length srcs)) [] []) as [[srcs' heap'] ents'].
  destruct H as (Hinv' & Hnf' & Hperm & Hes & Hlen). eexists. split; [reflexivity|].
  rewrite (map_nth_seq' sc_es srcs) in Hperm. cbn [rem map concat app] in Hperm.
  unfold remaining. cbn [mi_srcs mi_heap mi_finished]. splits; try reflexivity; try assumption.
  unfold gapi. cbn [mi_srcs mi_heap mi_pending mi_finished]. splits; try assumption; try reflexivity; try discriminate.
  rewrite (Permutation_length Hperm), length_concat_es, (total_es_map _ _ Hes).
  assert (Hls : length srcs' = length srcs) by (rewrite <- (map_length sc_es srcs'), Hes, map_length; reflexivity).
  rewrite Hls, seq_length in *. cbn [length] in Hlen. lia.
Qed.

(* ---- the whole iteration, NO merge function ---------------------------------------------------------- *)
Fixpoint mdrain0 (fuel : nat) (it : miter) : list entry :=
  match fuel with
  | O => []
  | S f => match merger_next None ds it with
           | (it', Some e) => e :: mdrain0 f it'
           | (_, None) => []
           end
  end.

Lemma mdrain0_S f it : mdrain0 (S f) it =
  match merger_next None ds it with (it', Some e) => e :: mdrain0 f it' | (_, None) => [] end.
Proof. reflexivity. Qed.

Theorem drain0_spec : forall n it, gapi it -> (length (remaining it) <= n)%nat ->
  let out := mdrain0 (S n) it in
  Permutation out (remaining it) /\ StronglySorted ele out.
Proof.
  induction n as [|n IH]; intros it Hapi Hlen; cbn zeta.
  - cbn [mdrain0]. pose proof (next0_step it Hapi) as Hstep.
    assert (Hnil : remaining it = []) by (destruct (remaining it); [reflexivity|cbn in Hlen; lia]).
    destruct (merger_next None ds it) as [it' [e|]].
    + destruct Hstep as (Hp & _). rewrite Hnil in Hp. apply Permutation_sym, Permutation_nil in Hp. discriminate.
    + rewrite Hnil. split; constructor.
  - rewrite mdrain0_S. pose proof (next0_step it Hapi) as Hstep.
    destruct (merger_next None ds it) as [it' [e|]].
    + destruct Hstep as (Hp & Hmin & Hapi' & _).
      assert (Hlen' : (length (remaining it') <= n)%nat).
      { pose proof (Permutation_length Hp) as L. cbn [length] in L. unfold entry in *. lia. }
      destruct (IH it' Hapi' Hlen') as (Hperm' & Hs). clear IH. split.
      * eapply Permutation_trans; [|exact Hp]. apply perm_skip. exact Hperm'.
      * constructor; [exact Hs|]. apply Forall_forall. intros x Hx. apply Hmin.
        eapply Permutation_in; [exact Hp|]. right. eapply Permutation_in; [exact Hperm'|exact Hx].
    + destruct Hstep as (Hnil & _). rewrite Hnil. split; constructor.
Qed.

(* ---- a merge function, any dupsort ------------------------------------------------------------------- *)
Section GenMerge.
Variable mf : bytes -> bytes -> bytes -> option bytes.

(* the loop while an entry is pending: values of the pending key are folded in until the root's key
   differs (or the heap runs dry) *)
Lemma gloop_pending : forall fuel it k a,
  ginv (mi_srcs it) (mi_heap it) -> mi_pending it = true -> mi_cur_key it = k -> mi_cur_val it = a ->
  (forall x, In x (rem (mi_srcs it) (mi_heap it)) -> bcmp k (fst x) <> Gt) ->
  (length (rem (mi_srcs it) (mi_heap it)) + length (mi_heap it) < fuel)%nat ->
  let '(it', ok) := next_loop (Some mf) ds fuel it in
  exists vs,
    Permutation (map (pair k) vs ++ rem (mi_srcs it') (mi_heap it')) (rem (mi_srcs it) (mi_heap it)) /\
    ginv (mi_srcs it') (mi_heap it') /\ nofin (mi_heap it') /\
    mi_pending it' = true /\ mi_cur_key it' = k /\ map sc_es (mi_srcs it') = map sc_es (mi_srcs it) /\
    (mi_finished it' = true -> mi_heap it' = [] \/ mi_finished it = true) /\
    (length (mi_heap it') <= length (mi_heap it))%nat /\
    StronglySorted (fun v w => ele (k, v) (k, w)) vs /\
    if ok then fold_merge mf k a vs = Some (mi_cur_val it') /\
               (forall x, In x (rem (mi_srcs it') (mi_heap it')) -> bcmp k (fst x) = Lt)
    else exists v0, In (k, v0) (rem (mi_srcs it') (mi_heap it')) /\ fold_merge mf k a (vs ++ [v0]) = None.
Proof.
  induction fuel as [|fuel IH]; intros it k a Hinv Hp Hk Ha Hmin Hfuel; [lia|].
  cbn [next_loop].
  destruct (gpop_finished_spec (mi_srcs it) (mi_heap it) (length (mi_heap it)) Hinv) as (Hinv1 & Hnf1 & Hperm1 & Hlen1).
  set (heap1 := pop_finished ds (S (length (mi_heap it))) (mi_heap it)) in *.
  destruct heap1 as [|e t] eqn:Eh.
  - (* nothing left *)
    exists []. cbn [mi_srcs mi_heap mi_pending mi_cur_key mi_cur_val mi_finished map app].
    split; [exact Hperm1|]. split; [exact Hinv1|]. split; [exact Hnf1|]. split; [first [exact Hp|reflexivity]|]. split; [first [exact Hk|reflexivity]|]. split; [reflexivity|].
    split; [intros _; left; reflexivity|]. split; [exact Hlen1|]. split; [constructor|]. split; [cbn [fold_merge]; rewrite ?Ha; reflexivity|intros x []].
  - rewrite Hp. cbn [negb].
    assert (Hmin1 : forall x, In x (rem (mi_srcs it) (e :: t)) -> bcmp k (fst x) <> Gt).
    { intros x Hx. apply Hmin. eapply Permutation_in; [exact Hperm1|exact Hx]. }
    destruct (beq (mi_cur_key it) (he_key e)) eqn:Ebeq.
    + (* same key: fold its value in *)
      assert (Eke : he_key e = k).
      { unfold beq in Ebeq. rewrite Hk in Ebeq. destruct (bcmp k (he_key e)) eqn:E; try discriminate. symmetry. apply bcmp_eq, E. }
      rewrite Hk, Ha.
      destruct (mf k a (he_val e)) as [merged|] eqn:Emf.
      * pose proof (grefill_root_spec (mi_srcs it) e t Hinv1 Hnf1) as Hrf.
        destruct (refill_root ds (mi_srcs it) (e :: t)) as [srcs' heap'] eqn:Erf.
        destruct Hrf as (Hinv2 & Hperm2 & Hlen2 & Hlens & Hes2).
        set (it2 := mkmi srcs' heap' (mi_entries it) k merged (mi_finished it) true).
        assert (Hrem2 : forall x, In x (rem srcs' heap') -> bcmp k (fst x) <> Gt).
        { intros x Hx. apply Hmin1. eapply Permutation_in; [exact Hperm2|right; exact Hx]. }
        assert (Hfuel2 : (length (rem srcs' heap') + length heap' < fuel)%nat).
        { pose proof (Permutation_length Hperm2) as L2. pose proof (Permutation_length Hperm1) as L1. cbn [length] in L2, Hlen2.
          rewrite Hlen2. cbn [length]. cbn [length] in Hlen1. unfold entry in *. lia. }
        specialize (IH it2 k merged Hinv2 eq_refl eq_refl eq_refl Hrem2 Hfuel2).
        destruct (next_loop (Some mf) ds fuel it2) as [it' ok].
        destruct IH as (vs & HpermR & Hinv' & Hnf' & Hp' & Hk' & Hlen' & Hfin' & Hhl' & Hss & Hres).
        exists (he_val e :: vs). cbn [it2 mi_srcs mi_heap mi_finished] in *. splits; try assumption.
        -- cbn [map app]. eapply Permutation_trans; [|exact Hperm1]. eapply Permutation_trans; [|exact Hperm2].
           rewrite Eke. apply perm_skip. exact HpermR.
        -- congruence.
        -- cbn [length] in Hlen1, Hlen2. lia.
        -- constructor; [exact Hss|]. apply Forall_forall. intros v Hv.
           assert (Hin : In (k, v) (rem (mi_srcs it) (e :: t))).
           { eapply Permutation_in; [exact Hperm2|]. right. eapply Permutation_in; [exact HpermR|].
             apply in_or_app. left. apply (in_map (pair k)), Hv. }
           pose proof (groot_min (mi_srcs it) e t (k, v) Hinv1 Hnf1 Hin) as Hm. rewrite Eke in Hm. exact Hm.
        -- destruct ok.
           ++ cbn [fold_merge]. rewrite Emf. exact Hres.
           ++ destruct Hres as (v0 & Hin & Hfail). exists v0. split; [exact Hin|]. cbn [app fold_merge]. rewrite Emf. exact Hfail.
      * (* the merge function fails *)
        exists []. cbn [mi_srcs mi_heap mi_pending mi_cur_key mi_cur_val mi_finished map app].
        split; [exact Hperm1|]. split; [exact Hinv1|]. split; [exact Hnf1|]. split; [first [exact Hp|reflexivity]|]. split; [first [exact Hk|reflexivity]|]. split; [reflexivity|].
        split; [intros H; right; exact H|]. split; [exact Hlen1|]. split; [constructor|].
        exists (he_val e). split.
        -- unfold rem. cbn [map concat]. unfold chunk at 1. rewrite (Hnf1 e (or_introl eq_refl)), Eke. left. reflexivity.
        -- cbn [app fold_merge]. rewrite Emf. reflexivity.
    + (* a greater key: the pending entry is complete *)
      exists []. cbn [mi_srcs mi_heap mi_pending mi_cur_key mi_cur_val mi_finished map app].
      split; [exact Hperm1|]. split; [exact Hinv1|]. split; [exact Hnf1|]. split; [first [exact Hp|reflexivity]|]. split; [first [exact Hk|reflexivity]|]. split; [reflexivity|].
      split; [intros H; right; exact H|]. split; [exact Hlen1|]. split; [constructor|]. split; [cbn [fold_merge]; rewrite ?Ha; reflexivity|].
      intros x Hx. pose proof (groot_min_key (mi_srcs it) e t x Hinv1 Hnf1 Hx) as Hle.
      assert (Hke : bcmp k (he_key e) = Lt).
      { pose proof (Hmin1 (he_key e, he_val e)) as H0. cbn [fst] in H0.
        assert (Hin : In (he_key e, he_val e) (rem (mi_srcs it) (e :: t))).
        { unfold rem. cbn [map concat]. unfold chunk at 1. rewrite (Hnf1 e (or_introl eq_refl)). left. reflexivity. }
        specialize (H0 Hin). unfold beq in Ebeq. rewrite Hk in Ebeq. destruct (bcmp k (he_key e)); congruence. }
      eapply bcmp_lt_le_trans; eassumption.
Qed.

(* one call of merger_iter_next *)
Theorem gmerger_next_step it : gapi it ->
  match merger_next (Some mf) ds it with
  | (it', Some (k, v)) =>
    exists first rest,
      Permutation ((k, first) :: map (pair k) rest ++ remaining it') (remaining it) /\
      fold_merge mf k first rest = Some v /\
      (forall x, In x (remaining it') -> bcmp k (fst x) = Lt) /\
      (forall x, In x (remaining it) -> ele (k, first) x) /\
      StronglySorted (fun v w => ele (k, v) (k, w)) (first :: rest) /\
      gapi it' /\ map sc_es (mi_srcs it') = map sc_es (mi_srcs it)
  | (it', None) =>
    (remaining it = [] /\ gapi it' /\ remaining it' = []) \/
    (exists k first rest v0 others,
       Permutation ((k, first) :: map (pair k) rest ++ (k, v0) :: others) (remaining it) /\
       (forall x, In x others -> bcmp k (fst x) <> Gt) /\
       fold_merge mf k first (rest ++ [v0]) = None)
  end.
Proof.
  intros (Hinv & Hnf & Hp & Hfin & Hbound). unfold merger_next, remaining.
  destruct (mi_finished it) eqn:Ef.
  { left. rewrite (Hfin eq_refl). splits; try reflexivity. unfold gapi. rewrite (Hfin eq_refl) in *. splits; try assumption. intros _. reflexivity. }
  unfold total_remaining. fold (total_es (mi_srcs it)). cbn [mi_srcs].
  set (N0 := (total_es (mi_srcs it) + 2 * length (mi_srcs it))%nat) in *.
  remember (S N0) as N1 eqn:EN1.
  cbn [next_loop mi_heap mi_srcs mi_pending mi_entries mi_cur_key mi_cur_val mi_finished]. subst N1.
  rewrite (gpop_finished_nofin _ _ Hnf).
  destruct (mi_heap it) as [|e t] eqn:Eh.
  - (* no entry left *)
    cbn [negb mi_pending]. left. splits; try reflexivity.
    unfold gapi. cbn [mi_srcs mi_heap mi_pending mi_finished]. splits; try assumption; try reflexivity.
  - cbn [negb].
    pose proof (grefill_root_spec (mi_srcs it) e t Hinv Hnf) as Hrf.
    destruct (refill_root ds (mi_srcs it) (e :: t)) as [srcs' heap'] eqn:Erf.
    destruct Hrf as (Hinv2 & Hperm2 & Hlen2 & Hlens & Hes2).
    set (it2 := mkmi srcs' heap' (mi_entries it) (he_key e) (he_val e) false true).
    assert (Hmin2 : forall x, In x (rem srcs' heap') -> bcmp (he_key e) (fst x) <> Gt).
    { intros x Hx. apply (groot_min_key (mi_srcs it) e t x Hinv Hnf). eapply Permutation_in; [exact Hperm2|right; exact Hx]. }
    assert (Hfuel2 : (length (rem srcs' heap') + length heap' < S N0)%nat).
    { pose proof (Permutation_length Hperm2) as L2. cbn [length] in L2, Hlen2, Hbound. unfold entry in *. lia. }
    pose proof (gloop_pending (S N0) it2 (he_key e) (he_val e) Hinv2 eq_refl eq_refl eq_refl Hmin2 Hfuel2) as Hloop.
    destruct (next_loop (Some mf) ds (S N0) it2) as [it' ok].
    destruct Hloop as (vs & HpermR & Hinv' & Hnf' & Hp' & Hk' & Hes' & Hfin' & Hhl' & Hss & Hres).
    cbn [it2 mi_srcs mi_heap mi_finished] in *.
    destruct ok; cbn [negb].
    + rewrite Hp'. destruct Hres as [Hfold Hlt]. exists (he_val e), vs. cbn [mi_srcs mi_heap]. rewrite Hk'. splits.
      * eapply Permutation_trans; [|exact Hperm2]. apply perm_skip. exact HpermR.
      * exact Hfold.
      * exact Hlt.
      * intros x Hx. exact (groot_min (mi_srcs it) e t x Hinv Hnf Hx).
      * constructor; [exact Hss|]. apply Forall_forall. intros v Hv.
        apply (groot_min (mi_srcs it) e t (he_key e, v) Hinv Hnf).
        eapply Permutation_in; [exact Hperm2|]. right. eapply Permutation_in; [exact HpermR|].
        apply in_or_app. left. apply (in_map (pair (he_key e))), Hv.
      * unfold gapi. cbn [mi_srcs mi_heap mi_pending mi_finished]. splits; try assumption; try reflexivity.
        -- intros H. destruct (Hfin' H) as [H0|H0]; [exact H0|discriminate].
        -- pose proof (Permutation_length HpermR) as L1. pose proof (Permutation_length Hperm2) as L2.
           rewrite app_length, map_length in L1. cbn [length] in L2, Hlen2, Hbound.
           rewrite (total_es_map _ _ (eq_trans Hes' Hes2)).
           assert (Hls : length (mi_srcs it') = length (mi_srcs it)).
           { rewrite <- (map_length sc_es (mi_srcs it')), <- (map_length sc_es (mi_srcs it)), Hes', Hes2. reflexivity. }
           rewrite Hls. unfold entry in *. lia.
      * congruence.
    + right. destruct Hres as (v0 & Hin & Hfail). apply in_split in Hin. destruct Hin as (l1 & l2 & Hsplit).
      exists (he_key e), (he_val e), vs, v0, (l1 ++ l2). splits.
      * eapply Permutation_trans; [|exact Hperm2]. apply perm_skip. eapply Permutation_trans; [|exact HpermR].
        apply Permutation_app_head. rewrite Hsplit. apply Permutation_middle.
      * intros x Hx. apply Hmin2. eapply Permutation_in; [exact HpermR|]. apply in_or_app. right. rewrite Hsplit.
        apply in_app_or in Hx. apply in_or_app. destruct Hx as [Hx|Hx]; [left; exact Hx|right; right; exact Hx].
      * exact Hfail.
Qed.

Fixpoint gmdrain (fuel : nat) (it : miter) : list entry :=
  match fuel with
  | O => []
  | S f => match merger_next (Some mf) ds it with
           | (it', Some e) => e :: gmdrain f it'
           | (_, None) => []
           end
  end.

Lemma gmdrain_S f it : gmdrain (S f) it =
  match merger_next (Some mf) ds it with (it', Some e) => e :: gmdrain f it' | (_, None) => [] end.
Proof. reflexivity. Qed.

(* the delivered value: the fold over all values held for the key, each once, taken in dupsort order *)
Definition gvalue_ok (l : list entry) (k v : bytes) : Prop :=
  exists first rest, Permutation (first :: rest) (vals k l) /\
    StronglySorted (fun v w => ele (k, v) (k, w)) (first :: rest) /\ fold_merge mf k first rest = Some v.

Theorem gdrain_spec : (forall k a b, mf k a b <> None) -> forall n it, gapi it -> (length (remaining it) <= n)%nat ->
  let out := gmdrain (S n) it in
  (forall k v, In (k, v) out -> gvalue_ok (remaining it) k v) /\
  (forall k, In k (map fst out) <-> In k (map fst (remaining it))) /\
  StronglySorted (fun a b => bcmp (fst a) (fst b) = Lt) out.
Proof.
  intros Htot. induction n as [|n IH]; intros it Hapi Hlen; cbn zeta.
  - (* nothing remains *)
    cbn [gmdrain]. pose proof (gmerger_next_step it Hapi) as Hstep.
    assert (Hnil : remaining it = []) by (destruct (remaining it); [reflexivity|cbn in Hlen; lia]).
    destruct (merger_next (Some mf) ds it) as [it' [[k v]|]].
    + destruct Hstep as (first & rest & Hp & _). rewrite Hnil in Hp. apply Permutation_sym, Permutation_nil in Hp. discriminate.
    + rewrite Hnil. splits; [intros k v []|intros k; split; intros []|constructor].
  - rewrite gmdrain_S. pose proof (gmerger_next_step it Hapi) as Hstep.
    destruct (merger_next (Some mf) ds it) as [it' [[k v]|]].
    + destruct Hstep as (first & rest & Hp & Hfold & Hgt & _ & Hsrt & Hapi' & _).
      assert (Hlen' : (length (remaining it') <= n)%nat).
      { pose proof (Permutation_length Hp) as L. cbn [length] in L. rewrite app_length in L. unfold entry in *. lia. }
      destruct (IH it' Hapi' Hlen') as (Hv & Hk & Hs). clear IH.
      assert (Hkeys' : forall x, In x (gmdrain (S n) it') -> bcmp k (fst x) = Lt).
      { intros x Hx. assert (Hin : In (fst x) (map fst (remaining it'))) by (apply Hk, in_map, Hx).
        apply in_map_iff in Hin. destruct Hin as (y & Ey & Hy). rewrite <- Ey. apply Hgt, Hy. }
      splits.
      * intros k' v' [E|Hin].
        -- inversion E; subst k' v'. exists first, rest. split; [|split; [exact Hsrt|exact Hfold]].
           eapply Permutation_trans; [|apply vals_perm, Hp].
           change ((k, first) :: map (pair k) rest ++ remaining it') with (map (pair k) (first :: rest) ++ remaining it').
           rewrite vals_app, vals_same, (vals_none k _ Hgt), app_nil_r. reflexivity.
        -- destruct (Hv k' v' Hin) as (f' & r' & Hp' & Hs' & Hf'). exists f', r'. split; [|split; [exact Hs'|exact Hf']].
           eapply Permutation_trans; [exact Hp'|]. eapply Permutation_trans; [|apply vals_perm, Hp].
           change ((k, first) :: map (pair k) rest ++ remaining it') with (map (pair k) (first :: rest) ++ remaining it').
           assert (Hne : k <> k').
           { intros ->. pose proof (Hkeys' (k', v') Hin) as H0. cbn [fst] in H0. rewrite bcmp_refl in H0. discriminate. }
           rewrite vals_app, (vals_other k k' _ Hne). reflexivity.
      * intros k'. cbn [map fst In]. rewrite Hk. split.
        -- intros [<-|Hin]; [|].
           ++ eapply Permutation_in; [apply Permutation_map, Hp|]. left. reflexivity.
           ++ eapply Permutation_in; [apply Permutation_map, Hp|]. cbn [map]. right. rewrite map_app. apply in_or_app. right. exact Hin.
        -- intros Hin. apply (Permutation_in _ (Permutation_map fst (Permutation_sym Hp))) in Hin. cbn [map fst] in Hin.
           destruct Hin as [E|Hin]; [left; exact E|]. rewrite map_app in Hin. apply in_app_or in Hin.
           destruct Hin as [Hin|Hin]; [|right; exact Hin]. left. rewrite map_map in Hin. cbn [fst] in Hin.
           apply in_map_iff in Hin. destruct Hin as (? & E & _). exact E.
      * constructor; [exact Hs|]. apply Forall_forall. exact Hkeys'.
    + destruct Hstep as [(Hnil & _)|(k & first & rest & v0 & others & _ & _ & Hfail)].
      * rewrite Hnil. splits; [intros k v []|intros k; split; intros []|constructor].
      * exfalso. exact (fold_merge_total mf k (Htot k) _ _ Hfail).
Qed.
End GenMerge.
End Gen.

Print Assumptions next0_step.
Print Assumptions drain0_spec.
Print Assumptions gmerger_iter_make_spec.
Print Assumptions gmerger_next_step.
Print Assumptions gdrain_spec.
