(* Memory-level reader iterators: one call of mem_iter_next. *)
From Coq Require Import NArith ZArith List Lia ZifyBool ZifyN ZifyNat.
From Mtbl Require Import gen.Consts model.Bytes model.Codec model.Order spec.Parse model.Reader model.IterMem
  proofs.BytesLemmas proofs.IterMemBase proofs.IterMemStep proofs.IterMemTac.
Local Open Scope N_scope.


Section Next.
Variable decompress : N -> bytes -> res bytes.
Variable pol : mem -> nat -> bytes -> bool.
Variable r : reader.
Variable ib : ablock.
Hypothesis Hidx : r_index r = Some ib.

Definition next_post (m : mem) (mi : miter) (it' : riter) (e : option entry)
    (res : mres (mem * miter * nout)) : Prop :=
  exists m' L' o, res = MOk (m', mkmi it' L', o) /\ nout_entry o = e /\ frame (owns mi) m m' /\
    fresh_or (owns mi) m (owns_loc L') /\ mi_inv ib m' (mkmi it' L') /\ nout_ok m' (owns_loc L') o.

Lemma nout_ok_mono m own own' o : (forall j, In j own -> In j own') -> nout_ok m own o -> nout_ok m own' o.
Proof.
  intros Hs. destruct o as [|ka kl va vl e]; [trivial|]. cbn. intros (H1 & H2 & H3 & H4).
  repeat split; try assumption.
  - destruct ka; cbn in *; auto.
  - destruct va; cbn in *; auto.
Qed.

Lemma finish_pack m mi it' e mf blk lblk boff bi2 idx2 ik2 valid :
  fun_finish (mi_it mi) blk boff bi2 idx2 valid = Ok (it', e) ->
  frame (owns mi) m mf ->
  fresh_or (owns mi) m (owns_loc (mkml ik2 lblk (ml_k (mi_loc mi)))) ->
  inv_c ib mf idx2 blk bi2 (it_kind (mi_it mi)) (it_k (mi_it mi)) (mkml ik2 lblk (ml_k (mi_loc mi))) ->
  (valid = true -> bs_valid bi2 = true) -> bi_range it' ->
  next_post m mi it' e (next_finish mf (mi_it mi) (mi_loc mi) blk lblk boff bi2 idx2 ik2 valid).
Proof.
  intros Hf Hfr Hfo Hinv Hv Hr.
  destruct (fun_finish_proj _ _ _ _ _ _ _ _ Hf) as (Eb & Ebi & Ei & Ek & Ekk).
  pose proof Hinv as (Hnd & Hlv & Hic & Hbc & Hkc).
  destruct (next_finish_spec mf (mi_it mi) (mi_loc mi) blk lblk boff bi2 idx2 ik2 valid it' e Hf Hkc Hbc Hv)
    as (o & Ho & Hoe & Hok).
  { intros Hvt. unfold bi_range in Hr. rewrite Eb, Ebi in Hr. destruct blk as [[o cb]|]; [|exact I].
    apply Hr, Hv, Hvt. }
  exists mf, (mkml ik2 lblk (ml_k (mi_loc mi))), o. split; [exact Ho|]. split; [exact Hoe|].
  split; [exact Hfr|]. split; [exact Hfo|]. split.
  - unfold mi_inv. cbn [mi_it mi_loc]. rewrite Eb, Ebi, Ei, Ek, Ekk. exact Hinv.
  - eapply nout_ok_mono; [|exact Hok]. intros j Hj. unfold owns_loc. cbn [ml_ikey ml_blk ml_k].
    right. apply in_or_app. left. exact Hj.
Qed.

Lemma next_step m mi it' e : m_file m = r_file r -> mi_inv ib m mi ->
  reader_iter_next decompress r (mi_it mi) = Ok (it', e) -> bi_range it' ->
  next_post m mi it' e (mem_iter_next decompress pol r m mi).
Proof.
  intros Hfile Hinv Hf Hr. destruct mi as [it L]. unfold mi_inv in Hinv. cbn [mi_it mi_loc] in *.
  unfold reader_iter_next in Hf. unfold mem_iter_next. cbn [mi_it mi_loc]. rewrite Hidx in *.
  destruct (it_valid it) eqn:Ev; cbn [negb] in *.
  2:{ inversion Hf; subst. exists m, L, NFail. split; [reflexivity|]. split; [reflexivity|].
      split; [unfold frame; repeat split; auto|]. split; [intros j Hj; left; exact Hj|].
      split; [exact Hinv|exact I]. }
  pose proof Hinv as (Hnd & Hlv & Hic & Hbc & Hkc).
  destruct (it_b it) as [[o b]|] eqn:Eb; [|discriminate].
  destruct L as [ikey [[[bk da] sz]|] lk]; cbn [ml_blk ml_ikey ml_k] in *; [|destruct Hbc].
  destruct Hbc as (Hkey & (raw & Hraw & Hinit) & Hda).
  set (bi1 := if it_first it then it_bi it else block_next b (it_bi it)) in *.
  assert (Hbk : (bk < m_next m)%nat /\ live m bk <> None) by (apply Hlv; cbn; auto).
  assert (Hik : (ikey < m_next m)%nat /\ live m ikey <> None) by (apply Hlv; cbn; auto).
  destruct (live m bk) as [oldk|] eqn:Elk; [|destruct Hbk; congruence].
  destruct (live m ikey) as [oldi|] eqn:Eli; [|destruct Hik; congruence].
  assert (X1 : exists m1 bk1 c1, (if it_first it then Some (m, bk) else bkey_sync pol m bk b bi1) = Some (m1, bk1)
              /\ synced m bk m1 bk1 c1 /\ (bs_valid bi1 = true -> c1 = bs_key b bi1)).
  { destruct (it_first it) eqn:Efst.
    - exists m, bk, oldk. split; [reflexivity|]. split; [apply synced_refl; [exact Elk|apply Hbk]|].
      intros Hv. subst bi1. specialize (Hkey Hv). congruence.
    - apply bkey_sync_spec with (old := oldk); [exact Elk|apply Hbk]. }
  destruct X1 as (m1 & bk1 & c1 & -> & S1 & Hc1). cbn [of_opt mbind].
  destruct S1 as (F1 & N1 & I1 & D1 & H1).
  destruct (bs_valid bi1) eqn:Ev1.
  - change (fun_finish it (Some (o, b)) (it_block_offset it) bi1 (it_index it) true = Ok (it', e)) in Hf.
    eapply finish_pack with (mi := mkmi it (mkml ikey (Some (bk, da, sz)) lk)); [exact Hf| | | |intros _; exact Ev1|exact Hr].
    + shape da lk Hda Hnd Hlv; frame_tac.
    + shape da lk Hda Hnd Hlv; fresh_tac.
    + shape da lk Hda Hnd Hlv; inv_tac Hic Hkc ltac:(blk_tac raw Hraw Hinit).
  - (* the block is exhausted: destroy b and bi, advance the index iterator *)
    destruct (mem_drop_blk_spec m1 bk1 da sz) as (m2 & -> & F2 & N2 & H2).
    { live_tac. }
    { shape da lk Hda Hnd Hlv; intros id Hid; cbn [In] in Hid;
        first [solve [destruct Hid] | destruct Hid as [<-|[]]; split; [live_tac|neq_tac]]. }
    cbn [of_opt mbind].
    set (idx1 := block_next ib (it_index it)) in *.
    destruct (bkey_sync_spec pol m2 ikey ib idx1 oldi) as (m3 & ik1 & c3 & -> & S3 & Hc3).
    { shape da lk Hda Hnd Hlv; live_tac. }
    { lia_nd. }
    destruct S3 as (F3 & N3 & I3 & D3 & H3). cbn [of_opt mbind].
    destruct (bs_valid idx1) eqn:Ev3; cbn [negb] in *.
    2:{ change (fun_finish it None (it_block_offset it) bi1 idx1 false = Ok (it', e)) in Hf.
        eapply finish_pack with (mi := mkmi it (mkml ikey (Some (bk, da, sz)) lk)); [exact Hf| | | |intros; discriminate|exact Hr].
        + shape da lk Hda Hnd Hlv; frame_tac.
        + shape da lk Hda Hnd Hlv; fresh_tac.
        + shape da lk Hda Hnd Hlv; inv_tac Hic Hkc ltac:(exact I). }
    set (off := index_offset ib idx1) in *.
    destruct (get_block decompress r off) as [nb| | |] eqn:Eg; try discriminate.
    destruct (mem_get_block_spec decompress r m3 off nb Eg) as (m4 & nda & nraw & -> & F4 & Hninit & Hcase); [congruence|].
    cbn [mbind].
    destruct (alloc m4 []) as [m5 nbk] eqn:Ea. destruct (alloc_spec _ _ _ _ Ea) as (Enbk & N5 & F5 & HH5).
    destruct (block_seek_to_first nb) as [nbi| | |] eqn:Es; try discriminate. cbn [of_res mbind].
    destruct (bkey_sync_spec pol m5 nbk nb nbi []) as (m6 & nbk1 & c6 & -> & S6 & Hc6); [live_tac|lia_nd|].
    destruct S6 as (F6 & N6 & I6 & D6 & HH6). cbn [of_opt mbind].
    change (fun_finish it (Some (off, nb)) off nbi idx1 (bs_valid nbi) = Ok (it', e)) in Hf.
    destruct Hcase as [((nfo & -> & Hnraw) & ->)|(-> & N4 & HH4)].
    + eapply finish_pack with (mi := mkmi it (mkml ikey (Some (bk, da, sz)) lk)); [exact Hf| | | |intros Hx; exact Hx|exact Hr].
      * shape da lk Hda Hnd Hlv; frame_tac.
      * shape da lk Hda Hnd Hlv; fresh_tac.
      * shape da lk Hda Hnd Hlv; inv_tac Hic Hkc ltac:(blk_tac nraw Hnraw Hninit).
    + eapply finish_pack with (mi := mkmi it (mkml ikey (Some (bk, da, sz)) lk)); [exact Hf| | | |intros Hx; exact Hx|exact Hr].
      * shape da lk Hda Hnd Hlv; frame_tac.
      * shape da lk Hda Hnd Hlv; fresh_tac.
      * shape da lk Hda Hnd Hlv; inv_tac Hic Hkc ltac:(blk_tac nraw Hninit Hninit).
Qed.
End Next.
