(* Ordered handlers deliver exactly the jobs dispatched to them, in dispatch order:
   the delivered sequence is always a prefix of the dispatched sequence, and equals it at the end. *)
From Coq Require Import NArith List Lia ZifyBool ZifyN ZifyNat Bool Arith Sorting.Sorted Sorting.Permutation.
From Mtbl Require Import model.Bytes model.Pool proofs.PoolBase proofs.PoolSched proofs.PoolInv proofs.PoolLife proofs.PoolStep2 proofs.PoolAbort proofs.PoolDelivery proofs.PoolExact.
Import ListNotations.

(* ---------- sorted lists ---------- *)
Lemma increasing_sorted l : increasing l -> sorted l.
Proof.
  unfold sorted. induction l as [|a l IH]; intros H; [constructor|].
  destruct l as [|b l]; [constructor; constructor|]. destruct H as [Hab H]. specialize (IH H).
  constructor; [exact IH|]. constructor; [exact Hab|].
  inversion IH; subst. eapply Forall_impl; [|eassumption]. intros c Hc. cbv beta in Hc. lia.
Qed.

Lemma sorted_app l1 l2 : sorted l1 -> sorted l2 -> (forall x y, In x l1 -> In y l2 -> (x < y)%N) -> sorted (l1 ++ l2).
Proof.
  unfold sorted. induction l1 as [|a l1 IH]; intros S1 S2 H; [exact S2|]. cbn [app]. inversion S1; subst.
  constructor.
  - apply IH; [assumption|assumption|]. intros x y Hx Hy. apply H; [right; exact Hx|exact Hy].
  - apply Forall_app. split; [assumption|]. apply Forall_forall. intros y Hy. apply H; [left; reflexivity|exact Hy].
Qed.

Lemma sorted_perm_eq l1 : forall l2, sorted l1 -> sorted l2 -> Permutation l1 l2 -> l1 = l2.
Proof.
  unfold sorted. induction l1 as [|a l1 IH]; intros l2 S1 S2 P.
  - apply Permutation_nil in P. congruence.
  - destruct l2 as [|b l2]; [apply Permutation_sym, Permutation_nil in P; discriminate|].
    inversion S1 as [|? ? S1' F1]; subst. inversion S2 as [|? ? S2' F2]; subst.
    assert (E : a = b).
    { assert (Ha : In a (b :: l2)) by (apply (Permutation_in a P); left; reflexivity).
      assert (Hb : In b (a :: l1)) by (apply (Permutation_in b (Permutation_sym P)); left; reflexivity).
      destruct Ha as [Ha|Ha]; [congruence|]. destruct Hb as [Hb|Hb]; [congruence|].
      rewrite Forall_forall in F1, F2. pose proof (F1 b Hb). pose proof (F2 a Ha). lia. }
    subst b. f_equal. apply IH; [assumption|assumption|]. apply (Permutation_cons_inv P).
Qed.

(* ---------- the dispatched sequence is increasing ---------- *)
Lemma dispatched_sorted p : forall n h, sorted (dispatched p n h) /\ forall x, In x (dispatched p n h) -> (n <= x)%N.
Proof.
  unfold sorted. induction p as [|c r IH]; intros n h; [split; [constructor|intros x []]|].
  destruct c as [o|q|q|]; cbn [dispatched]; try apply IH.
  destruct (IH (n + 1)%N h) as [S B]. destruct (Nat.eqb q h); cbn [app].
  - split.
    + constructor; [exact S|]. apply Forall_forall. intros x Hx. specialize (B x Hx). lia.
    + intros x [<-|Hx]; [lia|]. specialize (B x Hx). lia.
  - split; [exact S|]. intros x Hx. specialize (B x Hx). lia.
Qed.

(* ---------- at the end: equality ---------- *)
Theorem T13_ordered_sequence : forall maxt prog s st stash, prog_wf prog = true ->
  sched_wf (pool_init maxt prog) [] s ->
  prun (pool_init maxt prog) [] s = Some (st, stash) ->
  all_done st ->
  forall h, q_ordered (getq st h) = true ->
    map snd (filter (fun p => Nat.eqb (fst p) h) (ps_delivered st)) = dispatched prog 0 h.
Proof.
  intros maxt prog s st stash Hp W E A h Ho.
  destruct (T13b maxt prog s st stash Hp W E) as [_ Inc].
  apply sorted_perm_eq.
  - apply increasing_sorted. apply Inc. exact Ho.
  - apply dispatched_sorted.
  - apply (T13_exactly_once maxt prog s st stash Hp W E A h).
Qed.

(* ---------- in every reachable state: prefix ---------- *)
Lemma sumf_zero {A} (f : A -> nat) l : (forall a, In a l -> f a = 0%nat) -> sumf f l = 0%nat.
Proof.
  induction l as [|a l IH]; intros H; [reflexivity|]. rewrite sumf_cons, (H a (or_introl eq_refl)), IH; [reflexivity|].
  intros b Hb. apply H. right. exact Hb.
Qed.

Lemma selfcnt_ordered st stash h n : Inv3 st stash -> q_ordered (getq st h) = true -> selfcnt st h n = 0%nat.
Proof.
  intros K Ho. unfold selfcnt. rewrite !sumf_zero; [reflexivity| |].
  - intros th Hin. destruct (In_nth _ _ dummy_t Hin) as (x & Hx & <-). fold (gett st x). unfold self_t.
    destruct (lab_w4u (t_lab (gett st x))) as [[i q]|] eqn:El; [|reflexivity].
    destruct (Nat.eqb_spec q h) as [->|]; [|reflexivity].
    assert (E : t_lab (gett st x) = W4u i h) by (destruct (t_lab (gett st x)); cbn in El; try discriminate; inversion El; reflexivity).
    pose proof (k_w4u _ _ K x i h E). congruence.
  - intros w Hin. destruct (In_nth _ _ dummy_w Hin) as (i & Hi & <-). fold (getw st i). unfold self_w, rq_is.
    destruct (wk_rq (getw st i)) as [q|] eqn:Er; [|reflexivity].
    destruct (Nat.eqb_spec q h) as [->|]; [|reflexivity]. pose proof (k_rq _ _ K i h Er). congruence.
Qed.

Theorem T13_ordered_prefix : forall maxt prog s st stash, prog_wf prog = true ->
  sched_wf (pool_init maxt prog) [] s ->
  prun (pool_init maxt prog) [] s = Some (st, stash) ->
  forall h, q_ordered (getq st h) = true ->
    exists rest, dispatched prog 0 h = map snd (filter (fun p => Nat.eqb (fst p) h) (ps_delivered st)) ++ rest.
Proof.
  intros maxt prog s st stash Hp W E h Ho.
  destruct (T13_all_invariants maxt prog st stash (prog_wf_weaken _ Hp)) as (I1 & I2 & K & B); [exists s; split; assumption|].
  destruct (Nat.lt_ge_cases h (length (ps_queues st))) as [Hh|Hh].
  - set (fut := dispatched (todo st) (ps_njobs st) h).
    assert (SL : sorted (pipeline st stash h ++ fut)).
    { apply sorted_app; [apply (k_order _ _ K h Hh Ho)|apply dispatched_sorted|].
      intros x y Hx Hy. pose proof (pipeline_lt st stash h x K Hx). pose proof (proj2 (dispatched_sorted (todo st) (ps_njobs st) h) y Hy). lia. }
    assert (PL : Permutation (pipeline st stash h ++ fut) (dispatched prog 0 h)).
    { apply (Permutation_count_occ N.eq_dec). intros n.
      pose proof (b_bal _ _ _ B h n) as Bal. unfold bal in Bal. rewrite Ho, (selfcnt_ordered st stash h n K Ho) in Bal.
      fold fut in Bal. unfold pipeline. change (count_occ N.eq_dec) with cntN. rewrite !cntN_app. unfold cntN in *. lia. }
    pose proof (sorted_perm_eq _ _ SL (proj1 (dispatched_sorted prog 0 h)) PL) as Eq.
    unfold pipeline in Eq. rewrite <- app_assoc in Eq. unfold delivered_of in Eq. eexists. symmetry. exact Eq.
  - assert (E0 : filter (fun p : nat * N => Nat.eqb (fst p) h) (ps_delivered st) = []).
    { assert (D := k_deliv _ _ K). induction (ps_delivered st) as [|[a b] l IH]; [reflexivity|].
      cbn. destruct (Nat.eqb_spec a h) as [->|]; [pose proof (D h b (or_introl eq_refl)); lia|].
      apply IH. intros j r H. apply (D j r). right. exact H. }
    rewrite E0. exists (dispatched prog 0 h). reflexivity.
Qed.

Print Assumptions T13_ordered_sequence.
Print Assumptions T13_ordered_prefix.
