(* C14, invariants (part A): facts about a worker's mailbox that hold while another thread
   holds the worker's mutex or the pool mutex.
     a_job : while the dispatcher is between its writes to the mailbox and the signal / unlock
             (label D5s, thr->m held), the job is still there (the worker cannot have taken it);
     a_die : while threadpool_destroy is between running = true and the signal (label P3s),
             the worker is still marked "told to exit";
     a_idle: while a handler is between the push on the idle list and the signal (label H7s,
             pool->m held), the worker is still on the idle list. *)
From Coq Require Import NArith List Lia ZifyBool ZifyN ZifyNat Bool Arith.
From Mtbl Require Import model.Bytes model.Pool proofs.PoolBase proofs.PoolSched proofs.PoolGuard proofs.PoolInv proofs.PoolLife
  proofs.PoolStep2 proofs.PoolAbort proofs.PoolRaceDefs proofs.PoolRaceStep.
Import ListNotations.

(* ---------- mutexes certainly held by a thread at a label ---------- *)
Definition lab_held (l : label) : list obj :=
  match l with
  | D3 _ _ _ | P6 | H8 _ _ | P3 _ | P5 | H7s _ _ => [OPoolM]
  | D5s _ i | W4os i | D6 _ i | W3 i | W5o i | H6 _ i => [OWm i]
  | P3s i | P4 i => [OWm i; OPoolM]
  | D7s q | F1s q | W4us _ q | F2 q | H3 q _ => [OQm q]
  | _ => []
  end.

Lemma lab_holds st x m : Inv1 st -> In m (lab_held (t_lab (gett st x))) -> In m (holds (gett st x)).
Proof.
  intros I H. pose proof (shape_allowed _ (i1_shape _ I x)) as Ha. unfold holds.
  destruct (gett st x) as [op o lab b wm d]. cbn [t_op t_obj t_lab] in *.
  destruct lab; cbn [lab_held In] in H; try contradiction; cbn [allowed] in Ha; unfold is_op in Ha;
    destruct op; cbn [opk_eqb andb] in Ha; try discriminate;
    try (match type of Ha with obj_eqb ?a ?b = true => destruct (obj_eqb_spec a b); [subst|discriminate] end);
    cbn [In]; tauto.
Qed.

(* the code of a label guarded by g runs right after g has been acquired: nobody held it *)
Lemma code_guard st t g : Inv1 st -> t_op (gett st t) <> KWait -> guard_of (t_lab (gett st t)) = Some g ->
  (t_op (gett st t) = KLock \/ t_op (gett st t) = KReacq) /\ t_obj (gett st t) = g.
Proof.
  intros I Hw Hg. pose proof (shape_allowed _ (i1_shape _ I t)) as Ha.
  destruct (gett st t) as [op o lab b wm d]. cbn [t_op t_obj t_lab] in *.
  destruct lab; cbn [guard_of] in Hg; try discriminate; inversion Hg; subst; clear Hg;
    cbn [allowed] in Ha; unfold lwr, is_op in Ha;
    destruct op; cbn [opk_eqb andb orb] in Ha; try discriminate; try congruence; rewrite ?orb_false_r in Ha;
    match type of Ha with obj_eqb ?a ?b = true => destruct (obj_eqb_spec a b); [subst|discriminate] end; auto.
Qed.

Lemma code_guard_excl st t x g : Inv1 st -> enabled st t = true -> t_op (gett st t) <> KWait ->
  guard_of (t_lab (gett st t)) = Some g -> ~ In g (holds (gett st x)).
Proof.
  intros I En Hw Hg. destruct (code_guard st t g I Hw Hg) as [Hop Ho]. eapply acquire_excl; eassumption.
Qed.

Lemma caller_unique st x y : Inv2 st -> caller_lab (t_lab (gett st x)) = true -> caller_lab (t_lab (gett st y)) = true -> x = y.
Proof.
  intros I Hx Hy. rewrite (tk_caller _ _ _ (i2_threads _ I x) Hx), (tk_caller _ _ _ (i2_threads _ I y) Hy). reflexivity.
Qed.

Lemma tok_range st x i : Inv2 st -> ttok (ord_of st) (t_lab (gett st x)) i = 1%nat -> (i < length (ps_workers st))%nat.
Proof. intros I H. apply (sole_thread st x i I H). Qed.

(* the new label of the stepping thread determines the old one *)
Ltac cont_lab H :=
  cbn [continue] in H; unfold caller_next in H;
  repeat match type of H with
         | context [if ?c then _ else _] => destruct c eqn:?
         | context [match ?x with _ => _ end] => destruct x eqn:?
         end;
  cbn [snd t_lab t_obj t_op pend] in H; try discriminate H.

Record InvA (st : pstate) : Prop := {
  a_job : forall x q i, t_lab (gett st x) = D5s q i -> wk_hasjob (getw st i) = true;
  a_die : forall x i, t_lab (gett st x) = P3s i -> dying (getw st i) = true;
  a_idle : forall x j i, t_lab (gett st x) = H7s j i -> In i (ps_idle st);
}.

Lemma invA_keq a b : keq a b -> InvA b -> InvA a.
Proof.
  intros K [A1 A2 A3]. constructor.
  - intros x q i. rewrite (keq_lab _ _ x K), (keq_getw _ _ i K). apply A1.
  - intros x i. rewrite (keq_lab _ _ x K), (keq_getw _ _ i K). apply A2.
  - intros x j i. rewrite (keq_lab _ _ x K), (keq_idle _ _ K). apply A3.
Qed.

Lemma gett_set_thread_lab st t th x :
  t_lab th = t_lab (gett st t) \/ t_lab th = LDone ->
  t_lab (gett (set_thread st t th) x) = t_lab (gett st x) \/ t_lab (gett (set_thread st t th) x) = LDone.
Proof.
  intros H. rewrite gett_set_thread. destruct (Nat.eqb_spec x t) as [->|]; cbn [andb]; [|left; reflexivity].
  destruct (Nat.ltb _ _); [|left; reflexivity]. destruct H as [H|H]; [left|right]; exact H.
Qed.

Lemma invA_relabel st t th : t_lab th = t_lab (gett st t) \/ t_lab th = LDone -> InvA st -> InvA (set_thread st t th).
Proof.
  intros H [A1 A2 A3]. constructor.
  - intros x q i Hx. destruct (gett_set_thread_lab st t th x H) as [E|E]; rewrite E in Hx; [|discriminate].
    change (getw (set_thread st t th) i) with (getw st i). eapply A1; eassumption.
  - intros x i Hx. destruct (gett_set_thread_lab st t th x H) as [E|E]; rewrite E in Hx; [|discriminate].
    change (getw (set_thread st t th) i) with (getw st i). eapply A2; eassumption.
  - intros x j i Hx. destruct (gett_set_thread_lab st t th x H) as [E|E]; rewrite E in Hx; [|discriminate].
    change (ps_idle (set_thread st t th)) with (ps_idle st). eapply A3; eassumption.
Qed.

(* a thread other than the stepping one with a given label: it had it before *)
Lemma after_other_lab st t l x : (t < length (ps_threads st))%nat -> x <> t ->
  t_lab (gett (after st t l) x) = t_lab (gett st x) \/
  (length (ps_threads st) <= x)%nat /\
  (t_lab (gett (after st t l) x) = LDone \/ (exists i, t_lab (gett (after st t l) x) = W0 i) \/ (exists j, t_lab (gett (after st t l) x) = H0 j)).
Proof.
  intros Ht Hne. destruct (after_lab_other st t l x Ht Hne) as [[_ E]|[Hx [E|[_ [(q & i & _ & E)|(ord & r & _ & _ & E)]]]]].
  - left. rewrite E. reflexivity.
  - right. split; [assumption|]. left. rewrite E. reflexivity.
  - right. split; [assumption|]. right. left. exists i. rewrite E. reflexivity.
  - right. split; [assumption|]. right. right. eexists. rewrite E. reflexivity.
Qed.

Ltac old_lab Ht Hne Hx :=
  match type of Hx with
  | t_lab (gett (after ?st ?t ?l) ?x) = _ =>
    destruct (after_other_lab st t l x Ht Hne) as [E|[_ [E|[[? E]|[? E]]]]]; rewrite E in Hx; try discriminate Hx
  end.

Lemma upd_w_hasjob st i0 w' i : wk_hasjob w' = wk_hasjob (getw st i0) -> wk_hasjob (upd_w st i0 w' i) = wk_hasjob (getw st i).
Proof.
  intros H. unfold upd_w. destruct (Nat.eqb_spec i i0) as [->|]; cbn [andb]; [|reflexivity].
  destruct (Nat.ltb _ _); [exact H|reflexivity].
Qed.

Lemma upd_w_same st i0 w' : (i0 < length (ps_workers st))%nat -> upd_w st i0 w' i0 = w'.
Proof. intros H. unfold upd_w. rewrite Nat.eqb_refl. destruct (Nat.ltb_spec i0 (length (ps_workers st))); [reflexivity|lia]. Qed.

Lemma upd_w_cases st i0 w' i : upd_w st i0 w' i = getw st i \/ (i = i0 /\ upd_w st i0 w' i = w').
Proof.
  unfold upd_w. destruct (Nat.eqb_spec i i0) as [->|]; cbn [andb]; [|left; reflexivity].
  destruct (Nat.ltb _ _); [right; split; reflexivity|left; reflexivity].
Qed.

Section CodeA.
Variable st : pstate.
Variable t : nat.
Hypothesis I1 : Inv1 st.
Hypothesis I2 : Inv2 st.
Hypothesis IA : InvA st.
Hypothesis En : enabled st t = true.
Hypothesis Hw : t_op (gett st t) <> KWait.
Let l := t_lab (gett st t).
Let Ht : (t < length (ps_threads st))%nat := proj1 (enabled_live _ _ En).

Lemma codeA_job : forall x q i, t_lab (gett (after st t l) x) = D5s q i -> wk_hasjob (getw (after st t l) i) = true.
Proof.
  intros x q i Hx. destruct (Nat.eq_dec x t) as [->|Hne].
  - rewrite after_gett_self in Hx by exact Ht. rewrite after_getw.
    destruct l eqn:El; cont_lab Hx; inversion Hx; subst; cbv zeta;
    (assert (Hi : (i < length (ps_workers st))%nat)
      by (apply (tok_range st t i I2); fold l; rewrite El; cbn; rewrite Nat.eqb_refl; reflexivity));
    rewrite upd_w_same by exact Hi; reflexivity.
  - old_lab Ht Hne Hx. pose proof (a_job _ IA x q i Hx) as IH.
    assert (Hi : (i < length (ps_workers st))%nat).
    { destruct (Nat.lt_ge_cases i (length (ps_workers st))) as [|Hge]; [assumption|]. rewrite (getw_oob _ _ Hge) in IH. discriminate. }
    rewrite after_getw.
    destruct l eqn:El; try exact IH; cbv zeta.
    + destruct fresh; [|exact IH]. destruct (Nat.ltb_spec i (length (ps_workers st))); [exact IH|lia].
    + destruct (upd_w_cases st w (mkw (wk_tid (getw st w)) true true (ps_njobs st) (wk_res (getw st w)) (if q_ordered (getq st q0) then None else Some q0)) i) as [->|[_ ->]];
        [exact IH|reflexivity].
    + rewrite upd_w_hasjob; [exact IH|reflexivity].
    + destruct (negb (wk_hasjob (getw st i0))) eqn:Ej; [exact IH|].
      assert (Hni : i <> i0).
      { intros ->. apply Hne. apply (holds_excl st x t (OWm i0) I1); apply lab_holds; try assumption.
        - rewrite Hx. left. reflexivity.
        - fold l. rewrite El. left. reflexivity. }
      destruct (wk_rq (getw st i0)); unfold upd_w; destruct (Nat.eqb_spec i i0); try contradiction; exact IH.
    + rewrite upd_w_hasjob; [exact IH|reflexivity].
    + destruct (wk_running (getw st w)); [exact IH|]. rewrite upd_w_hasjob; [exact IH|reflexivity].
Qed.

Lemma codeA_die : forall x i, t_lab (gett (after st t l) x) = P3s i -> dying (getw (after st t l) i) = true.
Proof.
  intros x i Hx. destruct (Nat.eq_dec x t) as [->|Hne].
  - rewrite after_gett_self in Hx by exact Ht. rewrite after_getw.
    destruct l eqn:El; cont_lab Hx; inversion Hx; subst; cbv zeta;
    (assert (Hi : (i < length (ps_workers st))%nat)
      by (apply (tok_range st t i I2); fold l; rewrite El; cbn; rewrite Nat.eqb_refl; reflexivity));
    rewrite upd_w_same by exact Hi;
    (assert (Hf : free_w (getw st i) = true) by (apply (tk_free _ _ _ (i2_threads _ I2 t)); fold l; rewrite El; reflexivity));
    destruct (free_fields _ Hf) as (F1 & F2 & F3 & F4); unfold dying; cbn; rewrite F2, F3; reflexivity.
  - old_lab Ht Hne Hx. pose proof (a_die _ IA x i Hx) as IH.
    assert (Hi : (i < length (ps_workers st))%nat).
    { destruct (Nat.lt_ge_cases i (length (ps_workers st))) as [|Hge]; [assumption|]. rewrite (getw_oob _ _ Hge) in IH. discriminate. }
    assert (Hcx : caller_lab (t_lab (gett st x)) = true) by (rewrite Hx; reflexivity).
    assert (Hd : wk_running (getw st i) = true /\ wk_hasjob (getw st i) = false).
    { unfold dying in IH. destruct (wk_running (getw st i)), (wk_hasjob (getw st i)); cbn in IH; try discriminate; auto. }
    destruct Hd as [Hr Hj].
    rewrite after_getw.
    destruct l eqn:El; try exact IH; cbv zeta.
    + destruct fresh; [|exact IH]. destruct (Nat.ltb_spec i (length (ps_workers st))); [exact IH|lia].
    + exfalso. apply Hne. apply (caller_unique st x t I2 Hcx). fold l. rewrite El. reflexivity.
    + exfalso. apply Hne. apply (caller_unique st x t I2 Hcx). fold l. rewrite El. reflexivity.
    + destruct (negb (wk_hasjob (getw st i0))) eqn:Ej; [exact IH|].
      assert (Hni : i <> i0) by (intros ->; rewrite Hj in Ej; discriminate).
      destruct (wk_rq (getw st i0)); unfold upd_w; destruct (Nat.eqb_spec i i0); try contradiction; exact IH.
    + assert (Hni : i <> i0).
      { intros ->. apply (code_guard_excl st t x (OWm i0) I1 En Hw); [fold l; rewrite El; reflexivity|].
        apply lab_holds; [assumption|]. rewrite Hx. left. reflexivity. }
      unfold upd_w. destruct (Nat.eqb_spec i i0); try contradiction; exact IH.
    + destruct (wk_running (getw st w)) eqn:Er; [exact IH|].
      assert (Hni : i <> w) by (intros ->; rewrite Hr in Er; discriminate).
      unfold upd_w. destruct (Nat.eqb_spec i w); try contradiction; exact IH.
Qed.

Lemma codeA_idle : forall x j i, t_lab (gett (after st t l) x) = H7s j i -> In i (ps_idle (after st t l)).
Proof.
  intros x j i Hx. destruct (Nat.eq_dec x t) as [->|Hne].
  - rewrite after_gett_self in Hx by exact Ht. rewrite after_idle.
    destruct l eqn:El; cont_lab Hx; inversion Hx; subst; left; reflexivity.
  - old_lab Ht Hne Hx. pose proof (a_idle _ IA x j i Hx) as IH.
    assert (Hp : In OPoolM (holds (gett st x))) by (apply lab_holds; [assumption|]; rewrite Hx; left; reflexivity).
    rewrite after_idle.
    destruct l eqn:El; try exact IH.
    + exfalso. apply (code_guard_excl st t x OPoolM I1 En Hw); [fold l; rewrite El; reflexivity|exact Hp].
    + exfalso. apply (code_guard_excl st t x OPoolM I1 En Hw); [fold l; rewrite El; reflexivity|exact Hp].
    + exfalso. apply Hne. apply (holds_excl st x t OPoolM I1 Hp). apply lab_holds; [assumption|]. fold l. rewrite El. left. reflexivity.
    + right. exact IH.
Qed.

Lemma codeA : InvA (after st t l).
Proof. constructor; [apply codeA_job|apply codeA_die|apply codeA_idle]. Qed.
End CodeA.

Lemma init_lab maxt prog x :
  t_lab (gett (pool_init maxt prog) x) = LDone \/ t_lab (gett (pool_init maxt prog) x) = CNext \/
  (exists j, t_lab (gett (pool_init maxt prog) x) = H0 j) \/ (exists q, t_lab (gett (pool_init maxt prog) x) = D1 q) \/
  (exists q, t_lab (gett (pool_init maxt prog) x) = F1 q) \/ t_lab (gett (pool_init maxt prog) x) = P1.
Proof.
  unfold pool_init, caller_next. cbn [ps_prog].
  destruct prog as [|[ord|q|q|] r]; cbn [fst snd set_thread ps_threads upd_nth firstn skipn app gett nth];
    destruct x as [|[|x]]; cbn [nth t_lab dummy_t pend app]; eauto 7; try (destruct x; cbn; eauto 7).
Qed.

Lemma invA_init maxt prog : InvA (pool_init maxt prog).
Proof.
  constructor; intros x; intros; destruct (init_lab maxt prog x) as [E|[E|[[? E]|[[? E]|[[? E]|E]]]]]; congruence.
Qed.

Theorem invA_reachable maxt prog st stash : prog_wf_weak prog = true ->
  reachable maxt prog st stash -> Inv1 st /\ Inv2 st /\ InvA st.
Proof.
  intros Hp (s & W & E).
  apply (prun_P InvA false invA_keq) with (s := s) (st0 := pool_init maxt prog) (stash0 := []) (stash := stash); try assumption.
  - intros st0 t I1 I2 IA En Hw _ _ _. apply codeA; assumption.
  - intros st0 t I1 I2 IA En Hw. apply invA_relabel; [left; reflexivity|exact IA].
  - intros st0 t I1 I2 IA En Hw. apply invA_relabel; [right; reflexivity|exact IA].
  - apply pool_init_inv1.
  - apply pool_init_inv2. exact Hp.
  - apply invA_init.
  - discriminate.
Qed.
