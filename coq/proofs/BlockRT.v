(* Block round trip: what block_builder.c writes, block.c decodes.
   Part 1 (any legal encoder): a run of encoded entries - whatever amount of each key the
   encoder chose to share with its predecessor, as long as the shared part really is
   common - decodes to those entries.
   Part 2 (block_builder.c): the ghost list of entries added to a block builder; finishing
   the builder and handing the bytes to block_init yields exactly those entries, the
   restart array points at entries that share nothing, and the result is a well-formed
   block (wfb) when the keys were strictly increasing. *)
From Coq Require Import NArith ZArith List Lia ZifyBool ZifyN ZifyNat.
From Mtbl Require Import gen.Consts model.Bytes model.Codec model.Order model.Block spec.Leb128 spec.Parse model.Reader
  proofs.BytesLemmas proofs.CodecProofs proofs.OrderProofs proofs.WriterProofs proofs.BlockProofs.
Local Open Scope N_scope.
Ltac Zify.zify_post_hook ::= Z.div_mod_to_equations.
Ltac splits := repeat match goal with |- _ /\ _ => split end.

(* ---- part 1: entries --------------------------------------------------------------------- *)
Definition enc1 (p : pentry) : bytes := entry_encode (pe_shared p) (pe_key p) (pe_val p).
Definition enc_all (ps : list pentry) : bytes := concat (map enc1 ps).

Fixpoint legal (off : N) (prev : bytes) (ps : list pentry) : Prop :=
  match ps with
  | [] => True
  | p :: tl =>
    pe_off p = off /\ pe_shared p <= len prev /\ pe_shared p <= len (pe_key p) /\
    take (pe_shared p) prev = take (pe_shared p) (pe_key p) /\
    len (pe_key p) < 2 ^ 32 /\ len (pe_val p) < 2 ^ 32 /\ pe_canon p = true /\
    legal (off + len (enc1 p)) (pe_key p) tl
  end.

Lemma get_varint32_enc v rest : v < 2 ^ 32 -> get_varint32 (varint_encode32 v ++ rest) = Some (v, rest, true).
Proof.
  intros Hv. unfold get_varint32. rewrite varint_encode32_spec by exact Hv.
  rewrite varint_decode32_leb by (change (2 ^ 35) with 34359738368; change (2 ^ 32) with 4294967296 in Hv; lia).
  rewrite N.mod_small by exact Hv.
  pose proof (leb128_nonempty v) as Hne.
  destruct (len (leb128 v) =? 0) eqn:E.
  - exfalso. destruct (leb128 v); [congruence|]. rewrite len_cons in E. lia.
  - rewrite (drop_app_len _ _ _ eq_refl), N.eqb_refl. reflexivity.
Qed.

Lemma parse_entries_step f off prev data : data <> [] ->
  parse_entries (S f) off prev data =
  match get_varint32 data with
  | None => None
  | Some (shared, d1, c1) =>
    match get_varint32 d1 with
    | None => None
    | Some (nonshared, d2, c2) =>
      match get_varint32 d2 with
      | None => None
      | Some (vlen, d3, c3) =>
        if (len prev <? shared) || (len d3 <? nonshared + vlen) then None
        else
          let key := take shared prev ++ take nonshared d3 in
          let val := take vlen (drop nonshared d3) in
          let rest := drop (nonshared + vlen) d3 in
          let consumed := len data - len rest in
          match parse_entries f (off + consumed) key rest with
          | None => None
          | Some tl => Some (mkpe off shared key val (c1 && c2 && c3) :: tl)
          end
      end
    end
  end.
Proof. destruct data; [congruence|reflexivity]. Qed.

Lemma take_drop' k (l : bytes) : take k l ++ drop k l = l.
Proof. unfold take, drop. apply firstn_skipn. Qed.
Lemma len_drop_le k (l : bytes) : k <= len l -> len (drop k l) = len l - k.
Proof. intros H. unfold drop, len. rewrite skipn_length. lia. Qed.

Lemma enc1_nonempty p : pe_shared p < 2 ^ 32 -> enc1 p <> [].
Proof.
  intros H. unfold enc1, entry_encode. rewrite varint_encode32_spec by exact H.
  pose proof (leb128_nonempty (pe_shared p)). destruct (leb128 (pe_shared p)); [congruence|discriminate].
Qed.

Lemma parse_entries_enc : forall ps fuel off prev rest0, legal off prev ps -> (length ps <= fuel)%nat -> rest0 = [] ->
  parse_entries fuel off prev (enc_all ps ++ rest0) = Some ps.
Proof.
  induction ps as [|p ps IH]; intros fuel off prev rest0 Hl Hf ->; rewrite app_nil_r.
  - destruct fuel; reflexivity.
  - destruct fuel as [|fuel]; [cbn in Hf; lia|].
    destruct Hl as (Hoff & Hsp & Hsk & Htake & Hk & Hv & Hc & Hl).
    unfold enc_all. cbn [map concat]. fold (enc_all ps).
    rewrite parse_entries_step by (intros E; apply app_eq_nil in E; destruct E as [E _]; exact (enc1_nonempty p ltac:(lia) E)).
    unfold enc1 at 1, entry_encode. rewrite <- !app_assoc.
    rewrite get_varint32_enc by lia. rewrite get_varint32_enc by lia. rewrite get_varint32_enc by lia.
    set (d3 := drop (pe_shared p) (pe_key p) ++ pe_val p ++ enc_all ps).
    assert (Hd : len (drop (pe_shared p) (pe_key p)) = len (pe_key p) - pe_shared p) by (apply len_drop_le; exact Hsk).
    assert (Hlen3 : len d3 = len (pe_key p) - pe_shared p + len (pe_val p) + len (enc_all ps))
      by (unfold d3; rewrite !len_app, Hd; lia).
    replace ((len prev <? pe_shared p) || (len d3 <? len (pe_key p) - pe_shared p + len (pe_val p))) with false by lia.
    cbv zeta.
    assert (Ekey : take (pe_shared p) prev ++ take (len (pe_key p) - pe_shared p) d3 = pe_key p).
    { unfold d3. rewrite (take_app_len _ _ _ Hd), Htake. apply take_drop'. }
    assert (Eval : take (len (pe_val p)) (drop (len (pe_key p) - pe_shared p) d3) = pe_val p).
    { unfold d3. rewrite (drop_app_len _ _ _ Hd). apply take_app_len. reflexivity. }
    assert (Erest : drop (len (pe_key p) - pe_shared p + len (pe_val p)) d3 = enc_all ps).
    { unfold d3. rewrite app_assoc. apply drop_app_len. rewrite len_app, Hd. reflexivity. }
    rewrite Ekey, Eval, Erest.
    assert (Hcons : len (enc1 p ++ enc_all ps) - len (enc_all ps) = len (enc1 p)) by (rewrite len_app; lia).
    rewrite Hcons. specialize (IH fuel (off + len (enc1 p)) (pe_key p) [] Hl ltac:(cbn in Hf; lia) eq_refl).
    rewrite app_nil_r in IH. rewrite IH. destruct p as [po psh pk pv pc]. cbn in *. subst. reflexivity.
Qed.

(* ---- part 2: block_builder.c ------------------------------------------------------------- *)
Definition offset_of (ps : list pentry) (j : nat) : N := len (enc_all (firstn j ps)).

Lemma enc_all_app a b : enc_all (a ++ b) = enc_all a ++ enc_all b.
Proof. unfold enc_all. rewrite map_app, concat_app. reflexivity. Qed.
Lemma enc_all_one p : enc_all [p] = enc1 p.
Proof. unfold enc_all. cbn. apply app_nil_r. Qed.

Lemma offset_of_0 ps : offset_of ps 0 = 0.
Proof. reflexivity. Qed.
Lemma offset_of_all ps : offset_of ps (length ps) = len (enc_all ps).
Proof. unfold offset_of. rewrite firstn_all. reflexivity. Qed.
Lemma offset_of_app ps p j : (j <= length ps)%nat -> offset_of (ps ++ [p]) j = offset_of ps j.
Proof. intros H. unfold offset_of. rewrite firstn_app. replace (j - length ps)%nat with 0%nat by lia. cbn [firstn]. rewrite app_nil_r. reflexivity. Qed.
Lemma offset_of_S ps j : (j < length ps)%nat -> offset_of ps (S j) = offset_of ps j + len (enc1 (nth j ps dummy_pe)).
Proof.
  revert j. induction ps as [|p ps IH]; intros j Hj; [cbn in Hj; lia|].
  destruct j as [|j].
  - unfold offset_of. cbn [firstn nth]. rewrite enc_all_one. cbn. lia.
  - cbn [nth]. specialize (IH j ltac:(cbn in Hj; lia)). unfold offset_of in *.
    change (firstn (S (S j)) (p :: ps)) with (p :: firstn (S j) ps). change (firstn (S j) (p :: ps)) with (p :: firstn j ps).
    change (p :: firstn (S j) ps) with ([p] ++ firstn (S j) ps). change (p :: firstn j ps) with ([p] ++ firstn j ps).
    rewrite !enc_all_app, !len_app, IH. lia.
Qed.

Lemma last_cons {A} (x : A) l d : last (x :: l) d = last l x.
Proof.
  revert x d. induction l as [|y l IH]; intros x d; [reflexivity|].
  change (last (x :: y :: l) d) with (last (y :: l) d). rewrite (IH y d), (IH y x). reflexivity.
Qed.

Lemma legal_app : forall ps off prev p, legal off prev ps ->
  legal (off + len (enc_all ps)) (last (map pe_key ps) prev) [p] -> legal off prev (ps ++ [p]).
Proof.
  induction ps as [|q ps IH]; intros off prev p Hl Hp.
  - cbn [app]. unfold enc_all in Hp. cbn in Hp. rewrite N.add_0_r in Hp. exact Hp.
  - cbn [app legal]. destruct Hl as (H1 & H2 & H3 & H4 & H5 & H6 & H7 & Hl). splits; try assumption.
    apply IH; [exact Hl|].
    replace (off + len (enc1 q) + len (enc_all ps)) with (off + len (enc_all (q :: ps)))
      by (change (q :: ps) with ([q] ++ ps); rewrite enc_all_app, enc_all_one, len_app; lia).
    replace (last (map pe_key ps) (pe_key q)) with (last (map pe_key (q :: ps)) prev); [exact Hp|].
    cbn [map]. apply last_cons.
Qed.

Lemma legal_off : forall ps off prev i, legal off prev ps -> (i < length ps)%nat ->
  pe_off (nth i ps dummy_pe) = off + offset_of ps i.
Proof.
  induction ps as [|q ps IH]; intros off prev i Hl Hi; [cbn in Hi; lia|].
  destruct Hl as (H1 & _ & _ & _ & _ & _ & _ & Hl). destruct i as [|i].
  - cbn [nth]. rewrite offset_of_0. lia.
  - cbn [nth]. rewrite (IH _ _ i Hl) by (cbn in Hi; lia). unfold offset_of.
    change (firstn (S i) (q :: ps)) with ([q] ++ firstn i ps). rewrite enc_all_app, enc_all_one, len_app. lia.
Qed.

Lemma legal_shared_bound : forall ps off prev i, legal off prev ps -> (i < length ps)%nat ->
  pe_shared (nth i ps dummy_pe) < 2 ^ 32.
Proof.
  induction ps as [|q ps IH]; intros off prev i Hl Hi; [cbn in Hi; lia|].
  destruct Hl as (_ & _ & H3 & _ & H5 & _ & _ & Hl). destruct i as [|i]; [cbn [nth]; lia|].
  cbn [nth]. apply (IH _ _ i Hl). cbn in Hi. lia.
Qed.

Record bbinv (b : bb) (ps : list pentry) (ridx : list nat) : Prop := {
  bi_ok : bb_ok b;
  bi_buf : bb_buf b = enc_all ps;
  bi_legal : legal 0 [] ps;
  bi_last : bb_last_key b = last (map pe_key ps) [];
  bi_restarts : bb_restarts b = map (offset_of ps) ridx;
  bi_ridx_hd : nth 0 ridx 0%nat = 0%nat;
  bi_ridx_ne : (0 < length ridx)%nat;
  bi_ridx_inc : forall i j, (i < j < length ridx)%nat -> (nth i ridx 0 < nth j ridx 0)%nat;
  bi_ridx_bound : forall j, In j ridx -> (j < length ps)%nat \/ (j = 0%nat /\ ps = []);
  bi_ridx_shared : forall j, In j ridx -> (j < length ps)%nat -> pe_shared (nth j ps dummy_pe) = 0;
  bi_cnt0 : ps = [] -> bb_counter b = 0;
  (* cadence: restart points at entries 0, I, 2I, ...; the longest common prefix elided in between *)
  bi_cad_ridx : forall i, (i < length ridx)%nat -> nth i ridx 0%nat = (i * N.to_nat (bb_interval b))%nat;
  bi_cad_cnt : ps <> [] -> (N.to_nat (bb_counter b) + N.to_nat (bb_interval b) * (length ridx - 1) = length ps)%nat /\ 1 <= bb_counter b;
  bi_share : forall j, (j < length ps)%nat ->
     pe_shared (nth j ps dummy_pe) =
     if (j mod N.to_nat (bb_interval b) =? 0)%nat then 0
     else lcp (pe_key (nth (j - 1) ps dummy_pe)) (pe_key (nth j ps dummy_pe));
}.

Lemma bbinv_fresh b : bb_ok b -> bb_buf b = [] -> bb_last_key b = [] -> bb_restarts b = [0] -> bb_counter b = 0 ->
  bbinv b [] [0%nat].
Proof.
  intros Hok Hb Hl Hr Hc. constructor.
  - exact Hok.
  - exact Hb.
  - exact I.
  - exact Hl.
  - exact Hr.
  - reflexivity.
  - cbn. lia.
  - intros a c Hab. cbn in Hab. lia.
  - intros j [<-|[]]. right. split; reflexivity.
  - intros j _ Hj. cbn in Hj. lia.
  - intros _. exact Hc.
  - intros i Hi. cbn in Hi. assert (i = 0%nat) by lia. subst. reflexivity.
  - congruence.
  - intros j Hj. cbn in Hj. lia.
Qed.
Lemma bbinv_init i : 1 <= i -> bbinv (bb_init i) [] [0%nat].
Proof. intros H. apply bbinv_fresh; try reflexivity. unfold bb_ok, bb_init; cbn; repeat split; lia. Qed.
Lemma bbinv_reset b ps ridx : bbinv b ps ridx -> bbinv (bb_reset b) [] [0%nat].
Proof.
  intros Hb. apply bbinv_fresh; try reflexivity.
  destruct (bi_ok _ _ _ Hb) as (H1 & H2 & H3). unfold bb_ok, bb_reset; cbn; repeat split; lia.
Qed.

Lemma lcp_nil k : lcp [] k = 0.
Proof. reflexivity. Qed.

Lemma last_app_one {A} (l : list A) x d : last (l ++ [x]) d = x.
Proof. induction l as [|y l IH]; [reflexivity|]. cbn [app]. destruct (l ++ [x]) eqn:E; [destruct l; discriminate|]. exact IH. Qed.

Lemma last_map_nth (ps : list pentry) : ps <> [] -> last (map pe_key ps) [] = pe_key (nth (length ps - 1) ps dummy_pe).
Proof.
  intros H. destruct (exists_last H) as (l & x & ->). rewrite map_app. cbn [map].
  rewrite last_app_one, app_length. cbn [length]. rewrite app_nth2 by lia.
  replace (length l + 1 - 1 - length l)%nat with 0%nat by lia. reflexivity.
Qed.

(* one add: the ghost list grows by the entry, with the key and value that were passed *)
Lemma bb_add_inv b ps ridx key val b' : bbinv b ps ridx -> len key < 2 ^ 32 -> len val < 2 ^ 32 ->
  bb_add b key val = Ok b' ->
  exists p ridx', bbinv b' (ps ++ [p]) ridx' /\ pe_key p = key /\ pe_val p = val /\
                  bb_interval b' = bb_interval b.
Proof.
  intros Hb Hk Hv Ha. destruct Hb as [Hok Hbuf Hleg Hlast Hres Hhd Hne Hinc Hbound Hsh Hc0 Hcr Hcc Hshare].
  unfold bb_add in Ha. destruct Hok as (Hcnt & Hfin & Hint). rewrite Hfin in Ha.
  replace (bb_counter b <=? bb_interval b) with true in Ha by lia. cbn [negb orb] in Ha.
  inversion Ha; subst b'; clear Ha. cbn [bb_interval] in *.
  assert (Hok1 : bb_ok (mkbb (bb_interval b) (bb_buf b ++ entry_encode (if bb_counter b <? bb_interval b then lcp (bb_last_key b) key else 0) key val) key
                           (if bb_counter b <? bb_interval b then bb_restarts b else bb_restarts b ++ [len (bb_buf b)]) false
                           ((if bb_counter b <? bb_interval b then bb_counter b else 0) + 1))).
  { unfold bb_ok. cbn. splits; try lia; try reflexivity. destruct (bb_counter b <? bb_interval b) eqn:E; lia. }
  set (share := bb_counter b <? bb_interval b) in *.
  set (shared := if share then lcp (bb_last_key b) key else 0).
  set (p := mkpe (len (enc_all ps)) shared key val true).
  assert (Hshared_le1 : shared <= len (bb_last_key b)) by (unfold shared; destruct share; [apply lcp_le_l|lia]).
  assert (Hshared_le2 : shared <= len key) by (unfold shared; destruct share; [apply lcp_le_r|lia]).
  assert (Htake : take shared (bb_last_key b) = take shared key) by (unfold shared; destruct share; [apply lcp_take|reflexivity]).
  assert (Hleg' : legal 0 [] (ps ++ [p])).
  { apply legal_app; [exact Hleg|]. rewrite <- Hlast. cbn [legal]. unfold p. cbn [pe_off pe_shared pe_key pe_val pe_canon].
    splits; try assumption; try reflexivity; try lia. }
  assert (Henc : bb_buf b ++ entry_encode shared key val = enc_all (ps ++ [p])).
  { rewrite enc_all_app, enc_all_one, Hbuf. reflexivity. }
  assert (Hlast' : key = last (map pe_key (ps ++ [p])) []) by (rewrite map_app; cbn [map]; rewrite last_app_one; reflexivity).
  assert (Hlen1 : ps = [] -> length ridx = 1%nat).
  { intros E. destruct ridx as [|a [|c rest]]; [cbn in Hne; lia|reflexivity|]. exfalso.
    pose proof (Hinc 0%nat 1%nat ltac:(cbn; lia)) as H. cbn in H, Hhd.
    destruct (Hbound c ltac:(cbn; auto)) as [Hl|[-> _]]; [subst ps; cbn in Hl; lia|lia]. }
  exists p. destruct share eqn:Eshare.
  - (* within a restart run *)
    exists ridx. splits; try reflexivity. constructor; cbn [bb_buf bb_last_key bb_restarts bb_counter bb_interval bb_finished]; try assumption.
    + rewrite Hres. apply map_ext_in. intros j Hj. symmetry. apply offset_of_app.
      destruct (Hbound j Hj) as [Hl|[-> _]]; lia.
    + intros j Hj. left. rewrite app_length. cbn [length]. destruct (Hbound j Hj) as [Hl|[-> _]]; lia.
    + intros j Hj Hlt. rewrite app_length in Hlt. cbn [length] in Hlt.
      destruct (Hbound j Hj) as [Hl|[-> Hnil]].
      * rewrite app_nth1 by exact Hl. apply Hsh; assumption.
      * subst ps. cbn [app nth]. unfold p. cbn [pe_shared]. unfold shared. rewrite Hlast. reflexivity.
    + intros E. destruct ps; discriminate.
    + intros _. split; [|lia]. destruct ps as [|p0 ps0] eqn:Eps.
      * rewrite (Hc0 eq_refl). cbn [app length]. rewrite (Hlen1 eq_refl). rewrite Nat.sub_diag, Nat.mul_0_r. reflexivity.
      * rewrite <- Eps in *. assert (Hne' : ps <> []) by (rewrite Eps; discriminate).
        destruct (Hcc Hne') as [Hcnt' _]. rewrite app_length. cbn [length]. lia.
    + intros j Hj. rewrite app_length in Hj. cbn [length] in Hj.
      destruct (Nat.lt_ge_cases j (length ps)) as [Hl|Hg].
      * rewrite !app_nth1 by lia. apply Hshare, Hl.
      * assert (j = length ps) by lia. subst j. rewrite app_nth2 by lia. rewrite Nat.sub_diag. cbn [nth]. unfold p at 1 2. cbn [pe_shared pe_key].
        unfold shared. destruct ps as [|p0 ps0] eqn:Eps.
        -- cbn [length]. rewrite Nat.mod_0_l by lia. cbn. rewrite Hlast. reflexivity.
        -- rewrite <- Eps in *. assert (Hne' : ps <> []) by (rewrite Eps; discriminate).
           destruct (Hcc Hne') as [Hcnt' Hc1].
           assert (Hmod : (length ps mod N.to_nat (bb_interval b) = N.to_nat (bb_counter b))%nat).
           { rewrite <- Hcnt'. rewrite (Nat.mul_comm (N.to_nat (bb_interval b))), Nat.mod_add by lia.
             apply Nat.mod_small. unfold share in Eshare. lia. }
           rewrite Hmod. replace (N.to_nat (bb_counter b) =? 0)%nat with false by lia.
           rewrite app_nth1 by (destruct ps; [congruence|cbn; lia]).
           rewrite <- last_map_nth by exact Hne'. rewrite <- Hlast. reflexivity.
  - (* a new restart point *)
    assert (Hps : ps <> []).
    { intros E. specialize (Hc0 E). unfold share in Eshare. lia. }
    assert (Hall : forall j, In j ridx -> (j < length ps)%nat).
    { intros j Hj. destruct (Hbound j Hj) as [Hl|[_ E]]; [exact Hl|contradiction]. }
    exists (ridx ++ [length ps]). splits; try reflexivity.
    constructor; cbn [bb_buf bb_last_key bb_restarts bb_counter bb_interval bb_finished]; try assumption.
    + rewrite map_app. cbn [map]. rewrite Hres. f_equal.
      * apply map_ext_in. intros j Hj. symmetry. apply offset_of_app. specialize (Hall j Hj). lia.
      * rewrite offset_of_app by lia. rewrite offset_of_all, Hbuf. reflexivity.
    + rewrite app_nth1 by exact Hne. exact Hhd.
    + rewrite app_length. cbn. lia.
    + intros i j Hij. rewrite app_length in Hij. cbn [length] in Hij.
      destruct (Nat.lt_ge_cases j (length ridx)) as [Hj|Hj].
      * rewrite !app_nth1 by lia. apply Hinc. lia.
      * assert (j = length ridx) by lia. subst j. rewrite app_nth1 by lia. rewrite app_nth2 by lia.
        rewrite Nat.sub_diag. cbn [nth]. apply Hall, nth_In. lia.
    + intros j Hj. left. rewrite app_length. cbn [length]. apply in_app_or in Hj. destruct Hj as [Hj|[<-|[]]]; [specialize (Hall j Hj)|]; lia.
    + intros j Hj Hlt. apply in_app_or in Hj. destruct Hj as [Hj|[<-|[]]].
      * specialize (Hall j Hj). rewrite app_nth1 by exact Hall. apply Hsh; assumption.
      * rewrite app_nth2 by lia. rewrite Nat.sub_diag. reflexivity.
    + intros E. destruct ps; discriminate.
    + intros i Hi. rewrite app_length in Hi. cbn [length] in Hi.
      destruct (Nat.lt_ge_cases i (length ridx)) as [Hl|Hg]; [rewrite app_nth1 by lia; apply Hcr, Hl|].
      assert (i = length ridx) by lia. subst i. rewrite app_nth2 by lia. rewrite Nat.sub_diag. cbn [nth].
      destruct (Hcc Hps) as [Hcnt' _]. rewrite <- Hcnt'. unfold share in Eshare.
      replace (N.to_nat (bb_counter b)) with (N.to_nat (bb_interval b)) by lia.
      destruct (length ridx) as [|m]; [lia|]. cbn [Nat.sub]. rewrite Nat.sub_0_r. cbn [Nat.mul]. lia.
    + intros _. split; [|lia]. destruct (Hcc Hps) as [Hcnt' _]. rewrite !app_length. cbn [length]. unfold share in Eshare.
      replace (N.to_nat (0 + 1)) with 1%nat by lia. replace (length ridx + 1 - 1)%nat with (S (length ridx - 1)) by lia.
      rewrite Nat.mul_succ_r. lia.
    + intros j Hj. rewrite app_length in Hj. cbn [length] in Hj.
      destruct (Nat.lt_ge_cases j (length ps)) as [Hl|Hg].
      * rewrite !app_nth1 by lia. apply Hshare, Hl.
      * assert (j = length ps) by lia. subst j. rewrite app_nth2 by lia. rewrite Nat.sub_diag. cbn [nth]. unfold p at 1. cbn [pe_shared].
        destruct (Hcc Hps) as [Hcnt' _]. rewrite <- Hcnt'. unfold share in Eshare.
        replace (N.to_nat (bb_counter b)) with (N.to_nat (bb_interval b) * 1)%nat by lia.
        rewrite <- Nat.mul_add_distr_l, Nat.mul_comm, Nat.mod_mul by lia. reflexivity.
Qed.

(* ---- finishing the block and decoding it ------------------------------------------------- *)
Lemma parse_array_enc32 : forall rs rest, Forall (fun r => r < 2 ^ 32) rs ->
  parse_array (length rs) 4 (concat (map fixed_encode32 rs) ++ rest) = Some rs.
Proof.
  induction rs as [|r rs IH]; intros rest H; [reflexivity|].
  inversion H as [|? ? Hr Hrs]; subst. cbn [length parse_array map concat]. rewrite <- app_assoc.
  unfold fixed_encode32 at 1. rewrite le_decode_encode.
  replace (skipn 4 (fixed_encode32 r ++ concat (map fixed_encode32 rs) ++ rest)) with (concat (map fixed_encode32 rs) ++ rest).
  2:{ symmetry. apply (drop_app_len (fixed_encode32 r) _ 4). apply len_fixed32. }
  rewrite (IH rest Hrs). unfold u32. change (256 ^ N.of_nat 4) with 4294967296. change (2 ^ 32) with 4294967296 in Hr.
  rewrite !N.mod_small by lia. reflexivity.
Qed.

Lemma offset_of_le ps j : offset_of ps j <= len (enc_all ps).
Proof.
  unfold offset_of. rewrite <- (firstn_skipn j ps) at 2. rewrite enc_all_app, len_app. lia.
Qed.

Lemma enc_all_length : forall ps off prev, legal off prev ps -> (length ps <= length (enc_all ps))%nat.
Proof.
  induction ps as [|p ps IH]; intros off prev Hl; [cbn; lia|].
  destruct Hl as (_ & _ & H3 & _ & H5 & _ & _ & Hl). specialize (IH _ _ Hl).
  change (p :: ps) with ([p] ++ ps). rewrite enc_all_app, enc_all_one, !app_length. cbn [length].
  pose proof (enc1_nonempty p ltac:(lia)) as Hne. destruct (enc1 p); [congruence|]. cbn [length]. lia.
Qed.

Lemma len_concat_enc32 rs : len (concat (map fixed_encode32 rs)) = 4 * N.of_nat (length rs).
Proof.
  induction rs as [|r rs IH]; [reflexivity|]. cbn [map concat length]. rewrite len_app, IH, len_fixed32. lia.
Qed.

Theorem block_init_finish b ps ridx : bbinv b ps ridx -> len (bb_finish b) < 2 ^ 32 ->
  block_init (bb_finish b) = Some (mkab ps (map (offset_of ps) ridx) (len (bb_finish b)) false).
Proof.
  intros Hb Hsz. destruct Hb as [Hok Hbuf Hleg Hlast Hres Hhd Hne Hinc Hbound Hsh Hc0 Hcr Hcc Hshare].
  assert (Hsmall : UINT32_MAX <? len (bb_buf b) = false).
  { unfold bb_finish in Hsz. rewrite len_app in Hsz. unfold UINT32_MAX. change (2 ^ 32) with 4294967296 in Hsz. lia. }
  unfold bb_finish in *. rewrite Hsmall in *. unfold nrestarts in *.
  set (rs := bb_restarts b) in *. set (nr := N.of_nat (length rs)) in *.
  set (buf := bb_buf b) in *. set (renc := concat (map (fun r => fixed_encode32 r) rs)) in *.
  assert (Hrl : len renc = 4 * nr) by apply len_concat_enc32.
  assert (Hnr : 1 <= nr) by (unfold nr; rewrite Hres, map_length; lia).
  assert (Hsize : len (buf ++ renc ++ fixed_encode32 nr) = len buf + 4 * nr + 4) by (rewrite !len_app, Hrl, len_fixed32; lia).
  rewrite Hsize in *. change (2 ^ 32) with 4294967296 in Hsz.
  unfold block_init. rewrite Hsize.
  replace (len buf + 4 * nr + 4 <? 4) with false by lia.
  replace (drop (len buf + 4 * nr + 4 - 4) (buf ++ renc ++ fixed_encode32 nr)) with (fixed_encode32 nr ++ []).
  2:{ rewrite app_nil_r, app_assoc. symmetry. apply drop_app_len. rewrite len_app, Hrl. lia. }
  rewrite fixed32_roundtrip by (change (2 ^ 32) with 4294967296; lia).
  assert (Hro : u64 (len buf + 4 * nr + 4 + 18446744073709551616 - u32 (1 + nr) * 4) = len buf).
  { unfold u32, u64. rewrite (N.mod_small (1 + nr)) by lia.
    replace (len buf + 4 * nr + 4 + 18446744073709551616 - (1 + nr) * 4) with (len buf + 1 * 18446744073709551616) by lia.
    rewrite N.mod_add by lia. apply N.mod_small. lia. }
  rewrite Hro. replace (4294967295 <? len buf) with false by lia. cbn [andb].
  replace (len buf + 4 * nr + 4 - 4 <? len buf) with false by lia.
  replace (len buf + 4 * nr + 4 <? 8) with false by lia.
  replace (drop (len buf) (buf ++ renc ++ fixed_encode32 nr)) with (renc ++ fixed_encode32 nr) by (symmetry; apply drop_app_len; reflexivity).
  unfold nr at 1. rewrite Nat2N.id. unfold renc.
  rewrite parse_array_enc32.
  2:{ rewrite Hres. apply Forall_forall. intros x Hx. apply in_map_iff in Hx. destruct Hx as (j & <- & _).
      pose proof (offset_of_le ps j) as H. rewrite <- Hbuf in H. change (2 ^ 32) with 4294967296. lia. }
  rewrite (take_app_len buf _ (len buf) eq_refl). rewrite Hbuf.
  rewrite <- (app_nil_r (enc_all ps)). rewrite (parse_entries_enc ps _ 0 [] [] Hleg); [|rewrite app_nil_r|reflexivity].
  - rewrite app_nil_r, Hres. reflexivity.
  - pose proof (enc_all_length ps _ _ Hleg). rewrite !app_length. lia.
Qed.

Lemma offset_of_lt ps off prev i j : legal off prev ps -> (i < j <= length ps)%nat -> offset_of ps i < offset_of ps j.
Proof.
  intros Hl [Hij Hj]. induction j as [|j IH]; [lia|].
  assert (Hstep : offset_of ps j < offset_of ps (S j)).
  { rewrite offset_of_S by lia. pose proof (legal_shared_bound ps off prev j Hl ltac:(lia)) as Hs.
    pose proof (enc1_nonempty (nth j ps dummy_pe) Hs) as Hne. destruct (enc1 (nth j ps dummy_pe)); [congruence|].
    rewrite len_cons. lia. }
  destruct (Nat.eq_dec i j) as [->|Hne]; [exact Hstep|]. specialize (IH ltac:(lia) ltac:(lia)). lia.
Qed.

(* the decoded block is well-formed when the keys added were strictly increasing *)
Theorem finish_wfb b ps ridx sz w : bbinv b ps ridx -> ps <> [] ->
  (forall i j, (i < j < length ps)%nat -> bcmp (pe_key (nth i ps dummy_pe)) (pe_key (nth j ps dummy_pe)) = Lt) ->
  wfb (mkab ps (map (offset_of ps) ridx) sz w) ridx.
Proof.
  intros Hb Hps Hkeys. destruct Hb as [Hok Hbuf Hleg Hlast Hres Hhd Hne Hinc Hbound Hsh Hc0 Hcr Hcc Hshare].
  assert (Hall : forall j, In j ridx -> (j < length ps)%nat).
  { intros j Hj. destruct (Hbound j Hj) as [Hl|[_ E]]; [exact Hl|contradiction]. }
  constructor; unfold nentries, off_at, key_at, entry_at, restart_at; cbn [ab_entries ab_restarts].
  - destruct ps; [congruence|cbn; lia].
  - intros i j Hij. rewrite (legal_off ps 0 [] i Hleg) by lia. rewrite (legal_off ps 0 [] j Hleg) by lia.
    pose proof (offset_of_lt ps 0 [] i j Hleg ltac:(lia)). lia.
  - exact Hkeys.
  - rewrite map_length. reflexivity.
  - exact Hne.
  - intros i Hi. rewrite Nat2N.id.
    rewrite (nth_indep _ 0 (offset_of ps 0)) by (rewrite map_length; exact Hi). rewrite map_nth.
    pose proof (Hall _ (nth_In ridx 0%nat Hi)) as Hlt.
    rewrite (legal_off ps 0 [] _ Hleg Hlt). splits; [lia|exact Hlt|].
    apply Hsh; [apply nth_In, Hi|exact Hlt].
  - exact Hinc.
  - exact Hhd.
Qed.

(* the block without entries (the index of an empty table) *)
Lemma block_init_finish_empty b : bbinv b [] [0%nat] ->
  block_init (bb_finish b) = Some (mkab [] [0] 8 false).
Proof.
  intros Hb. destruct Hb as [Hok Hbuf _ _ Hres _ _ _ _ _ _ _ _ _].
  unfold bb_finish, nrestarts. rewrite Hbuf, Hres. vm_compute. reflexivity.
Qed.
