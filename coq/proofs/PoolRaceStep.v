(* C14, machinery: every step of the LTS, seen through the "key" of each thread (pending
   operation, object, label, done flag) and the shared data, is one of
     - the code of the stepping thread's label run on the pre-state ([after st t l]),
     - the release half of a cond_wait, - a thread exit, - a (spurious) wake-up,
   and an induction principle over reachable states for predicates that only look at keys
   and data. *)
From Coq Require Import NArith List Lia ZifyBool ZifyN ZifyNat Bool Arith.
From Mtbl Require Import model.Bytes model.Pool proofs.PoolBase proofs.PoolSched proofs.PoolInv proofs.PoolLife
  proofs.PoolStep2 proofs.PoolAbort proofs.PoolRaceDefs.
Import ListNotations.

Definition key (th : thread) : opk * obj * label * bool := (t_op th, t_obj th, t_lab th, t_done th).
Definition dat (st : pstate) :=
  (ps_idle st, ps_count st, ps_max st, ps_workers st, ps_queues st, ps_prog st, ps_njobs st, ps_abort st).

Record keq (a b : pstate) : Prop := {
  ke_dat : dat a = dat b;
  ke_key : map key (ps_threads a) = map key (ps_threads b);
}.

Lemma keq_refl a : keq a a.
Proof. split; reflexivity. Qed.
Lemma keq_sym a b : keq a b -> keq b a.
Proof. intros [H1 H2]. split; symmetry; assumption. Qed.
Lemma keq_trans a b c : keq a b -> keq b c -> keq a c.
Proof. intros [H1 H2] [H3 H4]. split; congruence. Qed.

Lemma keq_len a b : keq a b -> length (ps_threads a) = length (ps_threads b).
Proof. intros [_ H]. rewrite <- (map_length key), H, map_length. reflexivity. Qed.
Lemma keq_key a b x : keq a b -> key (gett a x) = key (gett b x).
Proof.
  intros [_ H]. unfold gett. change (key dummy_t) with (key dummy_t).
  rewrite <- !(map_nth key). rewrite H. reflexivity.
Qed.
Lemma key_fields th th' : key th = key th' ->
  t_op th = t_op th' /\ t_obj th = t_obj th' /\ t_lab th = t_lab th' /\ t_done th = t_done th'.
Proof. unfold key. intros H. inversion H. auto. Qed.
Lemma keq_op a b x : keq a b -> t_op (gett a x) = t_op (gett b x).
Proof. intros H. apply (key_fields _ _ (keq_key a b x H)). Qed.
Lemma keq_obj a b x : keq a b -> t_obj (gett a x) = t_obj (gett b x).
Proof. intros H. apply (key_fields _ _ (keq_key a b x H)). Qed.
Lemma keq_lab a b x : keq a b -> t_lab (gett a x) = t_lab (gett b x).
Proof. intros H. apply (key_fields _ _ (keq_key a b x H)). Qed.
Lemma keq_done a b x : keq a b -> t_done (gett a x) = t_done (gett b x).
Proof. intros H. apply (key_fields _ _ (keq_key a b x H)). Qed.

Lemma dat_fields a b : dat a = dat b ->
  ps_idle a = ps_idle b /\ ps_count a = ps_count b /\ ps_max a = ps_max b /\ ps_workers a = ps_workers b /\
  ps_queues a = ps_queues b /\ ps_prog a = ps_prog b /\ ps_njobs a = ps_njobs b /\ ps_abort a = ps_abort b.
Proof. unfold dat. intros H. inversion H. repeat split; assumption. Qed.
Lemma keq_idle a b : keq a b -> ps_idle a = ps_idle b.
Proof. intros [H _]. apply (dat_fields _ _ H). Qed.
Lemma keq_workers a b : keq a b -> ps_workers a = ps_workers b.
Proof. intros [H _]. apply (dat_fields _ _ H). Qed.
Lemma keq_queues a b : keq a b -> ps_queues a = ps_queues b.
Proof. intros [H _]. apply (dat_fields _ _ H). Qed.
Lemma keq_prog a b : keq a b -> ps_prog a = ps_prog b.
Proof. intros [H _]. apply (dat_fields _ _ H). Qed.
Lemma keq_getw a b i : keq a b -> getw a i = getw b i.
Proof. intros H. unfold getw. rewrite (keq_workers _ _ H). reflexivity. Qed.
Lemma keq_getq a b q : keq a b -> getq a q = getq b q.
Proof. intros H. unfold getq. rewrite (keq_queues _ _ H). reflexivity. Qed.

Lemma keq_same_view a b : keq a b -> same_view a b.
Proof.
  intros H. pose proof (dat_fields _ _ (ke_dat _ _ H)) as (H1 & H2 & H3 & H4 & H5 & H6 & H7 & H8).
  constructor; try (symmetry; assumption).
  pose proof (ke_key _ _ H) as K.
  assert (E : forall l, map tview l = map (fun k : opk * obj * label * bool => (snd (fst k), snd (fst (fst k)))) (map key l)).
  { intros l. rewrite map_map. reflexivity. }
  rewrite !E, K. reflexivity.
Qed.

(* ---------- [continue] only reads the data and the number of threads ---------- *)
Lemma caller_next_dat a b : dat a = dat b -> length (ps_threads a) = length (ps_threads b) ->
  snd (caller_next a) = snd (caller_next b) /\ dat (fst (caller_next a)) = dat (fst (caller_next b)) /\
  exists new, ps_threads (fst (caller_next a)) = ps_threads a ++ new /\ ps_threads (fst (caller_next b)) = ps_threads b ++ new.
Proof.
  intros D L. pose proof (dat_fields _ _ D) as (H1 & H2 & H3 & H4 & H5 & H6 & H7 & H8).
  unfold caller_next. rewrite H6. destruct (ps_prog b) as [|c r].
  - repeat split; try assumption. exists []. rewrite !app_nil_r. split; reflexivity.
  - destruct c; cbn [fst snd dat ps_idle ps_count ps_max ps_workers ps_queues ps_prog ps_njobs ps_abort ps_threads];
      rewrite ?H1, ?H2, ?H3, ?H4, ?H5, ?H7, ?H8, ?L;
      (split; [reflexivity|split; [reflexivity|]]);
      try (exists []; rewrite !app_nil_r; split; reflexivity).
    eexists. split; reflexivity.
Qed.

Lemma continue_dat a b t l : dat a = dat b -> length (ps_threads a) = length (ps_threads b) ->
  snd (continue a t l) = snd (continue b t l) /\ dat (fst (continue a t l)) = dat (fst (continue b t l)) /\
  exists new, ps_threads (fst (continue a t l)) = ps_threads a ++ new /\ ps_threads (fst (continue b t l)) = ps_threads b ++ new.
Proof.
  intros D L.
  destruct l; cbn [continue]; try (apply caller_next_dat; assumption).
  all: destruct a as [Ta Oa ia ca ma wa qa pa na da aa], b as [Tb Ob ib cb mb wb qb pb nb db ab];
    unfold dat in D; cbn [ps_idle ps_count ps_max ps_workers ps_queues ps_prog ps_njobs ps_abort ps_threads] in D, L;
    inversion D; subst; clear D;
    unfold set_pool, set_abort, set_workers, set_queues, getw, getq;
    cbn [ps_idle ps_count ps_max ps_workers ps_queues ps_prog ps_njobs ps_abort ps_threads ps_owner ps_delivered];
    rewrite ?L;
    repeat match goal with
           | |- context [if ?c then _ else _] => destruct c
           | |- context [match ?x with _ => _ end] => destruct x
           end;
    unfold dat;
    cbn [fst snd ps_idle ps_count ps_max ps_workers ps_queues ps_prog ps_njobs ps_abort ps_threads];
    (split; [reflexivity|split; [reflexivity|]]);
    try (exists []; rewrite !app_nil_r; split; reflexivity).
  eexists. split; reflexivity.
Qed.

(* ---------- steps as key-equivalences ---------- *)
Lemma map_key_upd l u x : key x = key (nth u l dummy_t) -> map key (upd_nth l u x) = map key l.
Proof. apply (map_upd_nth_same key). Qed.

Lemma map_upd2 {A B} (f : A -> B) l l' u x : map f l = map f l' -> map f (upd_nth l u x) = map f (upd_nth l' u x).
Proof.
  unfold upd_nth. revert l' u. induction l as [|a l IH]; intros [|a' l'] u H; cbn [map] in H; try discriminate.
  - reflexivity.
  - injection H as H1 H2. destruct u as [|u]; cbn [firstn skipn app map].
    + rewrite H2. reflexivity.
    + rewrite H1. f_equal. apply IH. exact H2.
Qed.
Lemma map_key_upd2 l l' u x : map key l = map key l' -> map key (upd_nth l u x) = map key (upd_nth l' u x).
Proof. apply map_upd2. Qed.

Lemma set_thread_keq a b t th : keq a b -> keq (set_thread a t th) (set_thread b t th).
Proof.
  intros [D K]. split; [exact D|]. unfold set_thread. cbn [ps_threads]. apply map_key_upd2. exact K.
Qed.

Lemma wake_step_keq st op wake :
  (forall u, wake = Some u -> op = KSignal -> (u < length (ps_threads st))%nat ->
     t_blocked (gett st u) <> None /\ shape (gett st u) = true) ->
  keq (wake_step st op wake) st.
Proof.
  intros H. unfold wake_step. destruct op; try apply keq_refl. destruct wake as [u|]; [|apply keq_refl].
  destruct (Nat.lt_ge_cases u (length (ps_threads st))) as [Hu|Hu].
  - destruct (H u eq_refl eq_refl Hu) as [Hb Hs].
    split; [reflexivity|]. unfold set_thread. cbn [ps_threads]. apply map_key_upd. fold (gett st u).
    unfold shape in Hs. unfold key. cbn [t_op t_obj t_lab t_done].
    destruct (gett st u) as [op o lab b wm d]. cbn [t_op t_obj t_lab t_blocked t_wmutex t_done] in *.
    destruct b as [c|]; [|congruence].
    apply andb_prop in Hs. destruct Hs as [Hs H3]. apply andb_prop in Hs. destruct Hs as [H1 H2].
    apply andb_prop in H3. destruct H3 as [H3 H4].
    destruct op; try discriminate. destruct (obj_eqb_spec wm o); [subst|discriminate].
    destruct d; [cbn in H2; discriminate|reflexivity].
  - unfold set_thread. rewrite upd_nth_oob by exact Hu. split; reflexivity.
Qed.

Lemma stash_deliver_keq st t lab stash : keq (snd (stash_deliver st t lab stash)) st.
Proof.
  destruct lab; cbn [stash_deliver snd]; try apply keq_refl.
  - destruct (wk_running _); [apply keq_refl|]. destruct (wk_res _); apply keq_refl.
  - destruct (find _ stash) as [[a r0]|]; [split; reflexivity|apply keq_refl].
Qed.

Lemma set_owner_keq st m o : keq (set_owner st m o) st.
Proof. split; reflexivity. Qed.

Lemma continue_keq a b t l : keq a b -> keq (after a t l) (after b t l).
Proof.
  intros H. pose proof (keq_len _ _ H) as L.
  destruct (continue_dat a b t l (ke_dat _ _ H) L) as (E1 & E2 & new & E3 & E4).
  unfold after. rewrite E1. split; [exact E2|].
  unfold set_thread. cbn [ps_threads]. apply map_key_upd2. rewrite E3, E4, !map_app, (ke_key _ _ H). reflexivity.
Qed.

(* a general step (neither cond_wait nor exit) *)
Lemma pstep_code_keq st t wake stash st' op o stash' :
  Inv1 st -> wake_ok st t wake -> pstep st t wake stash = Some (st', op, o, stash') ->
  t_op (gett st t) <> KWait -> t_op (gett st t) <> KExit ->
  enabled st t = true /\ keq st' (after st t (t_lab (gett st t))).
Proof.
  intros I W E Hw He.
  destruct (enabled st t) eqn:En; [|unfold pstep in E; rewrite En in E; discriminate].
  split; [reflexivity|].
  rewrite (pstep_general _ _ wake stash En Hw He) in E. inversion E; subst; clear E.
  unfold step_tail.
  set (st1 := st1_of st t).
  set (st2 := wake_step st1 (t_op (gett st t)) wake).
  set (st3 := snd (stash_deliver st2 t (t_lab (gett st t)) stash)).
  fold (after st3 t (t_lab (gett st t))).
  apply continue_keq.
  assert (K1 : keq st1 st) by (unfold st1, st1_of; destruct (t_op (gett st t)); try apply keq_refl; apply set_owner_keq).
  assert (T1 : ps_threads st1 = ps_threads st) by (unfold st1, st1_of; destruct (t_op (gett st t)); reflexivity).
  eapply keq_trans; [apply stash_deliver_keq|]. eapply keq_trans; [|exact K1].
  apply wake_step_keq. intros u -> Hop Hu. unfold gett. rewrite T1. fold (gett st u). rewrite T1 in Hu. split.
  - unfold wake_ok in W. apply W; assumption.
  - apply I.
Qed.

Definition waiting (th : thread) : thread :=
  mkt KReacq (wait_mutex (t_lab th)) (t_lab th) (Some (t_obj th)) (wait_mutex (t_lab th)) false.
Definition exited : thread := mkt KExit ONone LDone None ONone true.

Lemma pstep_wait_keq st t wake stash st' op o stash' :
  pstep st t wake stash = Some (st', op, o, stash') -> t_op (gett st t) = KWait ->
  enabled st t = true /\ keq st' (set_thread st t (waiting (gett st t))).
Proof.
  intros E Hw.
  destruct (enabled st t) eqn:En; [|unfold pstep in E; rewrite En in E; discriminate].
  split; [reflexivity|]. unfold pstep in E. rewrite En, Hw in E. cbn [negb] in E. inversion E; subst; clear E.
  apply set_thread_keq. apply set_owner_keq.
Qed.

Lemma pstep_exit_keq st t wake stash st' op o stash' :
  pstep st t wake stash = Some (st', op, o, stash') -> t_op (gett st t) = KExit ->
  enabled st t = true /\ st' = set_thread st t exited.
Proof.
  intros E Hw.
  destruct (enabled st t) eqn:En; [|unfold pstep in E; rewrite En in E; discriminate].
  split; [reflexivity|]. unfold pstep in E. rewrite En, Hw in E. cbn [negb] in E. inversion E; subst; reflexivity.
Qed.

Lemma pspurious_keq st t st' : Inv1 st -> pspurious st t = Some st' -> keq st' st.
Proof.
  intros I E. unfold pspurious in E. destruct (t_blocked (gett st t)) eqn:Eb; [|discriminate].
  inversion E; subst; clear E.
  assert (K : keq (wake_step st KSignal (Some t)) st).
  { apply wake_step_keq. intros u Hu _ _. inversion Hu; subst u. split; [congruence|apply I]. }
  exact K.
Qed.

(* ---------- induction over reachable states ---------- *)
Definition opk_dec (a b : opk) : {a = b} + {a <> b}.
Proof. decide equality. Defined.

Section Reach.
Variable P : pstate -> Prop.
Variable causal : bool.
Hypothesis P_keq : forall a b, keq a b -> P b -> P a.
Hypothesis P_code : forall st t, Inv1 st -> Inv2 st -> P st -> enabled st t = true ->
  t_op (gett st t) <> KWait -> t_op (gett st t) <> KExit -> (causal = true -> start_ok st t) ->
  Inv2 (after st t (t_lab (gett st t))) ->
  P (after st t (t_lab (gett st t))).
Hypothesis P_wait : forall st t, Inv1 st -> Inv2 st -> P st -> enabled st t = true ->
  t_op (gett st t) = KWait -> P (set_thread st t (waiting (gett st t))).
Hypothesis P_exit : forall st t, Inv1 st -> Inv2 st -> P st -> enabled st t = true ->
  t_op (gett st t) = KExit -> P (set_thread st t exited).

Lemma prun_P s : forall st0 stash0 st stash,
  Inv1 st0 -> Inv2 st0 -> P st0 -> sched_wf st0 stash0 s -> (causal = true -> sched_causal st0 stash0 s) ->
  prun st0 stash0 s = Some (st, stash) -> Inv1 st /\ Inv2 st /\ P st.
Proof.
  induction s as [|[t w|t] s IH]; intros st0 stash0 st stash I1 I2 I3 W C E; cbn [prun sched_wf sched_causal] in *.
  - inversion E; subst. auto.
  - destruct W as [W1 W2]. destruct (pstep st0 t w stash0) as [[[[st1 op] o] stash1]|] eqn:Es; [|discriminate].
    assert (J1 : Inv1 st1) by (exact (pstep_inv1 _ _ _ _ _ _ _ _ I1 W1 Es)).
    assert (J2 : Inv2 st1) by (exact (pstep_inv2 _ _ _ _ _ _ _ _ I1 I2 W1 Es)).
    apply (IH st1 stash1 st stash J1 J2); [ |exact W2| |exact E].
    + destruct (opk_dec (t_op (gett st0 t)) KWait) as [Hw|Hw].
      { destruct (pstep_wait_keq _ _ _ _ _ _ _ _ Es Hw) as [En K]. eapply P_keq; [exact K|]. apply P_wait; assumption. }
      destruct (opk_dec (t_op (gett st0 t)) KExit) as [He|He].
      { destruct (pstep_exit_keq _ _ _ _ _ _ _ _ Es He) as [En ->]. apply P_exit; assumption. }
      destruct (pstep_code_keq _ _ _ _ _ _ _ _ I1 W1 Es Hw He) as [En K].
      eapply P_keq; [exact K|]. apply P_code; try assumption.
      * intros Hc. apply (C Hc).
      * apply (inv2_view st1); [|exact J2]. apply keq_same_view. exact K.
    + intros Hc. apply (C Hc).
  - destruct (pspurious st0 t) as [st1|] eqn:Es; [|discriminate].
    apply (IH st1 stash0 st stash); [| | |exact W|exact C|exact E].
    + eapply pspurious_inv1; eassumption.
    + eapply pspurious_inv2; eassumption.
    + eapply P_keq; [eapply pspurious_keq; eassumption|exact I3].
Qed.
End Reach.

(* ---------- accessors of [after] ---------- *)
Lemma after_threads st t l :
  ps_threads (after st t l) = upd_nth (ps_threads (fst (continue st t l))) t (snd (continue st t l)).
Proof. reflexivity. Qed.

Lemma after_gett_self st t l : (t < length (ps_threads st))%nat -> gett (after st t l) t = snd (continue st t l).
Proof.
  intros H. unfold after. rewrite gett_set_thread, Nat.eqb_refl. cbn [andb].
  destruct (continue_frame st t l) as (_ & new & E & _). rewrite E, app_length.
  destruct (Nat.ltb_spec t (length (ps_threads st) + length new)); [reflexivity|lia].
Qed.

Lemma after_gett_old st t l x : x <> t -> (x < length (ps_threads st))%nat -> gett (after st t l) x = gett st x.
Proof.
  intros Hne H. unfold after. rewrite gett_set_thread. destruct (Nat.eqb_spec x t); [contradiction|]. cbn [andb].
  destruct (continue_frame st t l) as (_ & new & E & _). unfold gett. rewrite E, app_nth1 by exact H. reflexivity.
Qed.

Lemma after_dat st t l : dat (after st t l) = dat (fst (continue st t l)).
Proof. reflexivity. Qed.

(* ---------- what the code of a label does to the shared data ---------- *)
Definition is_next (l : label) : bool := match l with CNext | D8 | F3 | P6 => true | _ => false end.

Definition new_threads (st : pstate) (l : label) : list thread :=
  match l with
  | D3 q i true => [pend KStart ONone (W0 i)]
  | CNext | D8 | F3 | P6 =>
    match ps_prog st with NewHandler _ :: _ => [pend KStart ONone (H0 (length (ps_queues st)))] | _ => [] end
  | _ => []
  end.

Lemma continue_threads st t l : ps_threads (fst (continue st t l)) = ps_threads st ++ new_threads st l.
Proof.
  destruct l; cbn [continue new_threads]; unfold caller_next;
    repeat match goal with
           | |- context [if ?c then _ else _] => destruct c
           | |- context [match ?x with _ => _ end] => destruct x
           end; cbn [fst ps_threads set_pool set_abort set_workers set_queues]; rewrite ?app_nil_r; reflexivity.
Qed.

Lemma after_len st t l : length (ps_threads (after st t l)) = (length (ps_threads st) + length (new_threads st l))%nat.
Proof. unfold after, set_thread. cbn [ps_threads]. rewrite upd_nth_length, continue_threads, app_length. reflexivity. Qed.

Lemma after_gett st t l x : (t < length (ps_threads st))%nat ->
  gett (after st t l) x =
  if Nat.eqb x t then snd (continue st t l)
  else if Nat.ltb x (length (ps_threads st)) then gett st x
  else nth (x - length (ps_threads st)) (new_threads st l) dummy_t.
Proof.
  intros H. unfold after. rewrite gett_set_thread, continue_threads, app_length.
  destruct (Nat.eqb_spec x t) as [->|Hne]; cbn [andb].
  - destruct (Nat.ltb_spec t (length (ps_threads st) + length (new_threads st l))); [reflexivity|lia].
  - unfold gett. rewrite continue_threads.
    destruct (Nat.ltb_spec x (length (ps_threads st))); [apply app_nth1; assumption|apply app_nth2; lia].
Qed.

(* the label of a thread other than the stepping one: unchanged, or a thread just created *)
Lemma after_lab_other st t l x : (t < length (ps_threads st))%nat -> x <> t ->
  (x < length (ps_threads st))%nat /\ gett (after st t l) x = gett st x \/
  (length (ps_threads st) <= x)%nat /\
  (gett (after st t l) x = dummy_t \/
   x = length (ps_threads st) /\
   ((exists q i, l = D3 q i true /\ gett (after st t l) x = pend KStart ONone (W0 i)) \/
    (exists ord r, is_next l = true /\ ps_prog st = NewHandler ord :: r /\ gett (after st t l) x = pend KStart ONone (H0 (length (ps_queues st)))))).
Proof.
  intros H Hne. rewrite after_gett by exact H. destruct (Nat.eqb_spec x t); [contradiction|].
  destruct (Nat.ltb_spec x (length (ps_threads st))) as [Hx|Hx]; [left; split; [assumption|reflexivity]|].
  right. split; [assumption|].
  destruct (x - length (ps_threads st))%nat as [|k] eqn:Ek.
  - assert (x = length (ps_threads st)) by lia.
    destruct l; cbn [new_threads nth]; try (left; reflexivity);
      try (destruct (ps_prog st) as [|[ord| | |] r] eqn:Ep; cbn [nth]; try (left; reflexivity);
           right; split; [assumption|]; right; exists ord, r; repeat split; reflexivity).
    destruct fresh; cbn [nth]; [|left; reflexivity]. right. split; [assumption|]. left. exists q, w. split; reflexivity.
  - left. destruct l; cbn [new_threads nth]; try (destruct k; reflexivity);
      try (destruct (ps_prog st) as [|[ord| | |] r]; cbn [nth]; destruct k; reflexivity).
    destruct fresh; cbn [nth]; destruct k; reflexivity.
Qed.

Lemma caller_next_data st :
  ps_idle (fst (caller_next st)) = ps_idle st /\ ps_workers (fst (caller_next st)) = ps_workers st /\
  ps_count (fst (caller_next st)) = ps_count st /\
  ps_prog (fst (caller_next st)) = tl (ps_prog st) /\
  ps_queues (fst (caller_next st)) =
    match ps_prog st with NewHandler ord :: _ => ps_queues st ++ [mkq ord (length (ps_threads st)) false 0 []] | _ => ps_queues st end.
Proof.
  unfold caller_next. destruct (ps_prog st) as [|[ord|q|q|] r] eqn:E; cbn; rewrite ?E; repeat split; reflexivity.
Qed.

Definition upd_w (st : pstate) (i0 : nat) (w' : worker) (i : nat) : worker :=
  if Nat.eqb i i0 && Nat.ltb i0 (length (ps_workers st)) then w' else getw st i.

Lemma getw_set_workers st i0 w' i : getw (set_workers st (upd_nth (ps_workers st) i0 w')) i = upd_w st i0 w' i.
Proof. unfold getw, set_workers, upd_w. cbn [ps_workers]. apply nth_upd_nth. Qed.

Lemma after_getw st t l i :
  getw (after st t l) i =
  match l with
  | D3 q i0 true =>
    if Nat.ltb i (length (ps_workers st)) then getw st i
    else if Nat.eqb i (length (ps_workers st)) then mkw (length (ps_threads st)) false false 0 None None else dummy_w
  | D5 q i0 =>
    let w := getw st i0 in
    upd_w st i0 (mkw (wk_tid w) true true (ps_njobs st) (wk_res w) (if q_ordered (getq st q) then None else Some q)) i
  | P3 i0 => let w := getw st i0 in upd_w st i0 (mkw (wk_tid w) true (wk_hasjob w) (wk_job w) (wk_res w) (wk_rq w)) i
  | W3 i0 =>
    let w := getw st i0 in
    if negb (wk_hasjob w) then getw st i
    else match wk_rq w with
         | Some q => upd_w st i0 (mkw (wk_tid w) false false 0 (Some (wk_job w)) None) i
         | None => upd_w st i0 (mkw (wk_tid w) (wk_running w) false 0 (Some (wk_job w)) None) i
         end
  | W4o i0 => let w := getw st i0 in upd_w st i0 (mkw (wk_tid w) false (wk_hasjob w) (wk_job w) (wk_res w) (wk_rq w)) i
  | H4 j i0 =>
    let w := getw st i0 in
    if wk_running w then getw st i else upd_w st i0 (mkw (wk_tid w) false (wk_hasjob w) (wk_job w) None (wk_rq w)) i
  | _ => getw st i
  end.
Proof.
  unfold after.
  destruct l; cbn [continue];
    try (unfold getw at 1; cbn [set_thread ps_workers]; destruct (caller_next_data st) as (_ & -> & _); reflexivity).
  2:{ destruct fresh; [|reflexivity]. unfold getw at 1. cbn [fst set_thread ps_workers]. apply nth_app_snoc. }
  all: repeat match goal with
           | |- context [if ?c then _ else _] => destruct c eqn:?
           | |- context [match ?x with _ => _ end] => destruct x eqn:?
           end;
    try reflexivity;
    try (cbn [fst]; match goal with |- getw (set_thread ?s _ _) _ = _ => change (getw s i = getw st i) || change (getw s i) with (getw (set_workers st (ps_workers s)) i) end;
         try reflexivity; cbn [ps_workers set_workers]; apply getw_set_workers).
Qed.

Definition upd_q (st : pstate) (q0 : nat) (qq' : queue) (q : nat) : queue :=
  if Nat.eqb q q0 && Nat.ltb q0 (length (ps_queues st)) then qq' else getq st q.

Lemma getq_set_queues st q0 qq' q : getq (set_queues st (upd_nth (ps_queues st) q0 qq')) q = upd_q st q0 qq' q.
Proof. unfold getq, set_queues, upd_q. cbn [ps_queues]. apply nth_upd_nth. Qed.

Definition two64 : N := 18446744073709551616%N.

Lemma after_getq st t l j :
  getq (after st t l) j =
  if is_next l then
    match ps_prog st with
    | NewHandler ord :: _ =>
      if Nat.ltb j (length (ps_queues st)) then getq st j
      else if Nat.eqb j (length (ps_queues st)) then mkq ord (length (ps_threads st)) false 0 [] else dummy_q
    | _ => getq st j
    end
  else
  match l with
  | D7 q i =>
    let qq := getq st q in
    upd_q st q (mkq (q_ordered qq) (q_tid qq) (q_finished qq) ((q_nthreads qq + 1) mod two64)%N
                    (if q_ordered qq then q_list qq ++ [i] else q_list qq)) j
  | F1 q => let qq := getq st q in upd_q st q (mkq (q_ordered qq) (q_tid qq) true (q_nthreads qq) (q_list qq)) j
  | W4u i q => let qq := getq st q in upd_q st q (mkq (q_ordered qq) (q_tid qq) (q_finished qq) (q_nthreads qq) (q_list qq ++ [i])) j
  | H1 q =>
    let qq := getq st q in
    match q_list qq with
    | [] => getq st j
    | i :: rest => upd_q st q (mkq (q_ordered qq) (q_tid qq) (q_finished qq) ((q_nthreads qq + two64 - 1) mod two64)%N rest) j
    end
  | _ => getq st j
  end.
Proof.
  unfold after.
  destruct l; cbn [continue is_next];
    try (unfold getq at 1; cbn [set_thread ps_queues]; destruct (caller_next_data st) as (_ & _ & _ & _ & ->);
         destruct (ps_prog st) as [|[ord|q|q|] r]; try reflexivity; apply nth_app_snoc);
    repeat match goal with
           | |- context [if ?c then _ else _] => destruct c eqn:?
           | |- context [match ?x with _ => _ end] => destruct x eqn:?
           end;
    try reflexivity.
  all: cbn [fst].
  all: try (match goal with |- getq (set_thread (set_queues ?s (upd_nth _ ?q0 ?qq')) _ _) _ = _ =>
              change (getq (set_queues st (upd_nth (ps_queues st) q0 qq')) j = upd_q st q0 qq' j) end; apply getq_set_queues).
Qed.

Lemma after_idle st t l :
  ps_idle (after st t l) =
  match l with
  | D1 _ => tl (ps_idle st)
  | P1 => if (0 <? ps_count st)%N then tl (ps_idle st) else ps_idle st
  | P5 => if (0 <? ps_count st - 1)%N then tl (ps_idle st) else ps_idle st
  | H7 _ i => i :: ps_idle st
  | _ => ps_idle st
  end.
Proof.
  unfold after.
  destruct l; cbn [continue];
    try (cbn [set_thread ps_idle]; destruct (caller_next_data st) as (-> & _); reflexivity);
    repeat match goal with
           | |- context [if ?c then _ else _] => destruct c eqn:?
           | |- context [match ?x with _ => _ end] => destruct x eqn:?
           end; cbn [fst set_thread set_pool set_abort ps_idle ps_count] in *; try congruence;
    repeat match goal with H : ps_idle st = _ |- _ => rewrite ?H; clear H end; reflexivity.
Qed.

Lemma after_prog st t l : ps_prog (after st t l) = if is_next l then tl (ps_prog st) else ps_prog st.
Proof.
  unfold after.
  destruct l; cbn [continue is_next];
    try (cbn [set_thread ps_prog]; destruct (caller_next_data st) as (_ & _ & _ & -> & _); reflexivity);
    repeat match goal with
           | |- context [if ?c then _ else _] => destruct c eqn:?
           | |- context [match ?x with _ => _ end] => destruct x eqn:?
           end; reflexivity.
Qed.

Lemma after_nworkers st t l :
  length (ps_workers (after st t l)) = match l with D3 _ _ true => S (length (ps_workers st)) | _ => length (ps_workers st) end.
Proof.
  unfold after.
  destruct l; cbn [continue];
    try (cbn [set_thread ps_workers]; destruct (caller_next_data st) as (_ & -> & _); reflexivity);
    repeat match goal with
           | |- context [if ?c then _ else _] => destruct c eqn:?
           | |- context [match ?x with _ => _ end] => destruct x eqn:?
           end; cbn [fst set_thread set_workers set_pool set_abort set_queues ps_workers]; rewrite ?upd_nth_length, ?app_length; cbn [length]; try reflexivity; lia.
Qed.

Lemma after_nqueues st t l :
  length (ps_queues (after st t l)) =
  if is_next l then match ps_prog st with NewHandler _ :: _ => S (length (ps_queues st)) | _ => length (ps_queues st) end
  else length (ps_queues st).
Proof.
  unfold after.
  destruct l; cbn [continue is_next];
    try (cbn [set_thread ps_queues]; destruct (caller_next_data st) as (_ & _ & _ & _ & ->);
         destruct (ps_prog st) as [|[ord|q|q|] r]; rewrite ?app_length; cbn [length]; try reflexivity; lia);
    repeat match goal with
           | |- context [if ?c then _ else _] => destruct c eqn:?
           | |- context [match ?x with _ => _ end] => destruct x eqn:?
           end; cbn [fst set_thread set_workers set_pool set_abort set_queues ps_queues]; rewrite ?upd_nth_length; reflexivity.
Qed.

(* the stepping thread: operation and object, from its label (Inv1) *)
Lemma step_shape st t : Inv1 st -> allowed (t_lab (gett st t)) (t_op (gett st t)) (t_obj (gett st t)) = true.
Proof. intros I. apply shape_allowed, I. Qed.

(* mutual exclusion *)
Lemma holds_excl st x y m : Inv1 st -> In m (holds (gett st x)) -> In m (holds (gett st y)) -> x = y.
Proof.
  intros I Hx Hy. apply (i1_own _ I) in Hx. apply (i1_own _ I) in Hy. congruence.
Qed.

(* a mutex that the stepping thread is about to acquire is held by nobody *)
Lemma acquire_excl st t x m : Inv1 st -> enabled st t = true ->
  (t_op (gett st t) = KLock \/ t_op (gett st t) = KReacq) -> t_obj (gett st t) = m -> ~ In m (holds (gett st x)).
Proof.
  intros I En Hop Ho Hin. apply (i1_own _ I) in Hin. unfold enabled in En.
  destruct (t_done (gett st t)); [discriminate|]. destruct (t_blocked (gett st t)); [discriminate|].
  rewrite Ho in En. destruct Hop as [Hop|Hop]; rewrite Hop, Hin in En; discriminate.
Qed.
