(* C13, composition for the sorter: with a pool, mtbl_sorter's chunk jobs are delivered through an
   UNORDERED result handler; the handler appends each chunk reader to s->readers as it arrives.
   SP1: in every complete run of the pool LTS the delivered job ids are a permutation of 0..n-1.
   SP2: hence, for every pool size and schedule, iterating over the chunks in the order they were
        delivered yields what T06e states for the sequential sorter (strictly sorted, the keys added,
        each value a fold over exactly the values added for its key).
   SP3: merge function commutative as well: the drained output is the canonical one, identical to the
        sequential sorter's. *)
From Coq Require Import NArith ZArith List Lia Bool Arith Sorting.Permutation Sorting.Sorted.
From Mtbl Require Import gen.Consts model.Bytes model.Order model.Heap model.Merger model.Sorter spec.MergeSpec
  proofs.SorterProofs proofs.MergerProofs proofs.SorterFull proofs.SorterMore.
From Mtbl Require Import model.Pool proofs.PoolBase proofs.PoolSched proofs.PoolInv proofs.PoolLife
  proofs.PoolAbort proofs.PoolExact.
From Mtbl Require Import proofs.WriterPooled.
From Mtbl Require props.Properties_C06.
Import ListNotations.
Local Open Scope N_scope.

(* the pool calls of a sorter that spills n chunks: mtbl_sorter_init (result_handler_init, unordered),
   one dispatch per chunk, mtbl_sorter_iter (result_handler_destroy), threadpool_destroy *)
Definition sorter_prog (n : nat) : list cmd :=
  [NewHandler false] ++ repeat (Dispatch 0) n ++ [Finish 0; DestroyPool].

Lemma sorter_prog_wf n : prog_wf (sorter_prog n) = true.
Proof.
  unfold prog_wf, sorter_prog. cbn [app pwf_full].
  induction n as [|n IH]; [reflexivity|]. cbn [repeat app pwf_full]. rewrite IH. reflexivity.
Qed.

Lemma sorter_prog_dispatched n : dispatched (sorter_prog n) 0 0 = job_ids n.
Proof.
  unfold sorter_prog, job_ids. cbn [app dispatched]. rewrite (dispatched_repeat _ n 0%nat).
  cbn [dispatched]. apply app_nil_r.
Qed.

(* SP1: every chunk job is delivered exactly once, in some order *)
Theorem SP1 : forall maxt n s st stash,
  sched_wf (pool_init maxt (sorter_prog n)) [] s ->
  prun (pool_init maxt (sorter_prog n)) [] s = Some (st, stash) ->
  all_done st ->
  Permutation (delivered_ids st 0) (job_ids n).
Proof.
  intros maxt n s st stash W E A. unfold delivered_ids. rewrite <- sorter_prog_dispatched.
  apply (T13_exactly_once maxt (sorter_prog n) s st stash (sorter_prog_wf n) W E A 0%nat).
Qed.

(* the chunk readers in the order the handler collected them: job id k = the k-th chunk spilled *)
Definition collected (chunks : list (option (list entry))) (ids : list N) : list (option (list entry)) :=
  map (fun id => nth (N.to_nat id) chunks None) ids.

Lemma collected_perm chunks ids : Permutation ids (job_ids (length chunks)) -> Permutation (collected chunks ids) chunks.
Proof.
  intros P. unfold collected. eapply Permutation_trans; [apply Permutation_map; exact P|].
  rewrite (jobs_by_ids None chunks). apply Permutation_refl.
Qed.

(* SP2: T06e for the chunk list the pool produced.  f: the user's merge function (total, associative),
   sort: any qsort.  The sequential adds and the final flush succeed; for every pool size, every complete
   schedule of the pool LTS on the sorter's pool calls (one dispatch per chunk), mtbl_sorter_iter over the
   chunks in delivery order succeeds and draining the iterator gives: strictly ascending keys, exactly the
   distinct keys added, each value the left fold of f over an arrangement of exactly the values added for
   the key - the conclusion of T06e_any_collection_order, verbatim. *)
Theorem SP2 :
  forall (f : bytes -> bytes -> bytes -> bytes) (sort : list entry -> list entry),
  (forall k a b c, f k (f k a b) c = f k a (f k b c)) ->
  (forall l, Permutation (sort l) l) -> (forall l, keys_le (sort l)) ->
  forall max_memory ops,
  exists s, SorterFull.adds f sort (sorter_init max_memory) ops = Ok s /\
  exists s1, final_flush (Some (mf f)) sort s = Ok (s1, true) /\
    forall maxt sc st stash,
    sched_wf (pool_init maxt (sorter_prog (length (so_chunks s1)))) [] sc ->
    prun (pool_init maxt (sorter_prog (length (so_chunks s1)))) [] sc = Some (st, stash) ->
    all_done st ->
    let cs := collected (so_chunks s1) (delivered_ids st 0) in
    Permutation cs (so_chunks s1) /\
    exists s' it, sorter_iter (Some (mf f)) sort (with_chunks s1 cs) = Ok (s', Some it) /\ so_iterating s' = true /\
      forall n, (length ops <= n)%nat ->
      let out := mdrain (mf f) (S n) it in
      StronglySorted (fun a b => bcmp (fst a) (fst b) = Lt) out /\
      map fst out = all_keys [ops] /\
      Forall (fun e => exists first rest, Permutation (first :: rest) (vals (fst e) ops) /\
                                          fold_left (f (fst e)) rest first = snd e) out.
Proof.
  intros f sort Ha Hp Hs max_memory ops.
  destruct (Properties_C06.T06e_any_collection_order f sort Ha Hp Hs max_memory ops) as (s & Hadds & s1 & Hfl & _ & Hcs).
  exists s. split; [exact Hadds|]. exists s1. split; [exact Hfl|].
  intros maxt sc st stash W E A cs.
  assert (P : Permutation cs (so_chunks s1)).
  { apply collected_perm. apply (SP1 maxt _ sc st stash W E A). }
  split; [exact P|]. exact (Hcs cs P).
Qed.

(* SP3: merge function commutative as well - the pooled sorter's output is the canonical output, which is
   also the sequential sorter's (cs = so_chunks s1, the identity collection order).  Without commutativity
   this is false: props/Properties_C06.v, T06_order_matters_without_commutativity. *)
Theorem SP3 :
  forall (f : bytes -> bytes -> bytes -> bytes) (sort : list entry -> list entry),
  (forall k a b c, f k (f k a b) c = f k a (f k b c)) -> (forall k a b, f k a b = f k b a) ->
  (forall l, Permutation (sort l) l) -> (forall l, keys_le (sort l)) ->
  forall max_memory ops,
  exists s, SorterFull.adds f sort (sorter_init max_memory) ops = Ok s /\
  exists s1, final_flush (Some (mf f)) sort s = Ok (s1, true) /\
  exists s0 it0, sorter_iter (Some (mf f)) sort s = Ok (s0, Some it0) /\          (* without a pool *)
    forall maxt sc st stash,
    sched_wf (pool_init maxt (sorter_prog (length (so_chunks s1)))) [] sc ->
    prun (pool_init maxt (sorter_prog (length (so_chunks s1)))) [] sc = Some (st, stash) ->
    all_done st ->
    exists s' it, sorter_iter (Some (mf f)) sort (with_chunks s1 (collected (so_chunks s1) (delivered_ids st 0))) = Ok (s', Some it) /\
      forall n, (length ops <= n)%nat ->
        mdrain (mf f) (S n) it = mdrain (mf f) (S n) it0 /\ mdrain (mf f) (S n) it = canonical f ops.
Proof.
  intros f sort Ha Hc Hp Hs max_memory ops.
  destruct (Properties_C06.T06f_sorter_output_canonical f sort Ha Hc Hp Hs max_memory ops) as (s & Hadds & s1 & Hfl & Hcs).
  exists s. split; [exact Hadds|]. exists s1. split; [exact Hfl|].
  destruct (Hcs (so_chunks s1) (Permutation_refl _)) as (s0 & it0 & Hit0 & Hout0).
  rewrite with_chunks_same, <- (sorter_iter_final _ _ _ _ Hfl) in Hit0.
  exists s0, it0. split; [exact Hit0|].
  intros maxt sc st stash W E A.
  assert (P : Permutation (collected (so_chunks s1) (delivered_ids st 0)) (so_chunks s1)).
  { apply collected_perm. apply (SP1 maxt _ sc st stash W E A). }
  destruct (Hcs _ P) as (s' & it & Hit & Hout). exists s', it. split; [exact Hit|].
  intros n Hn. rewrite (Hout n Hn), (Hout0 n Hn). split; reflexivity.
Qed.

(* ---------- non-vacuity: a complete run of the LTS that delivers the chunks out of order ---------- *)
(* scheduler: always the lowest-numbered enabled thread; a signal wakes the first waiter of the condition *)
Fixpoint gen_sched_low (fuel : nat) (st : pstate) (stash : list (nat * N)) : list sched_step :=
  match fuel with
  | O => []
  | S f => match hd_error (enabled_set st) with
           | None => []
           | Some t => let w := pick_wake st t in
                       match pstep st t w stash with
                       | Some (st', _, _, stash') => SRun t w :: gen_sched_low f st' stash'
                       | None => []
                       end
           end
  end.
Definition ex_sorter_sched : list sched_step := gen_sched_low 3000 (pool_init 2 (sorter_prog 3)) [].

Example SP1_example :
  sched_wf (pool_init 2 (sorter_prog 3)) [] ex_sorter_sched /\
  match prun (pool_init 2 (sorter_prog 3)) [] ex_sorter_sched with
  | Some (st, _) => forallb t_done (ps_threads st) = true /\ delivered_ids st 0 = [0; 2; 1]
  | None => False
  end.
Proof. split; [apply sched_wfb_sound; vm_compute; reflexivity|]. vm_compute. repeat split. Qed.

(* the three chunks of Properties_C06.ex_state (6 adds, a spill every two), collected in the order of that
   run: same drained output as without a pool for the commutative merge function fsum ... *)
Example SP3_example :
  let s1 := Properties_C06.ex_state Properties_C06.fsum in
  match prun (pool_init 2 (sorter_prog (length (so_chunks s1)))) [] ex_sorter_sched with
  | Some (st, _) =>
      let cs := collected (so_chunks s1) (delivered_ids st 0) in
      cs = [Some [([97], [2]); ([98], [1])]; Some [([97], [6]); ([98], [5])]; Some [([97], [3]); ([99], [4])]] /\
      Properties_C06.ex_out Properties_C06.fsum (with_chunks s1 cs) = Properties_C06.ex_out Properties_C06.fsum s1 /\
      Properties_C06.ex_out Properties_C06.fsum s1 = [([97], [11]); ([98], [6]); ([99], [4])]
  | None => False
  end.
Proof. vm_compute. repeat split. Qed.

(* ... and, as SP2 says but SP3 does not, a different output (still a fold over the same values) for the
   associative, non-commutative merge function fcat: "the sorter yields the same entries as without a
   pool" needs a commutative merge function *)
Example SP3_needs_commutativity :
  let s1 := Properties_C06.ex_state Properties_C06.fcat in
  match prun (pool_init 2 (sorter_prog (length (so_chunks s1)))) [] ex_sorter_sched with
  | Some (st, _) =>
      let cs := collected (so_chunks s1) (delivered_ids st 0) in
      Properties_C06.ex_out Properties_C06.fcat s1 = [([97], [2; 124; 6; 124; 3]); ([98], [1; 124; 5]); ([99], [4])] /\
      Properties_C06.ex_out Properties_C06.fcat (with_chunks s1 cs) <> Properties_C06.ex_out Properties_C06.fcat s1
  | None => False
  end.
Proof. vm_compute. split; [reflexivity|discriminate]. Qed.

Print Assumptions SP1.
Print Assumptions SP2.
Print Assumptions SP3.
