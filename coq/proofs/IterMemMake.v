(* Memory-level reader iterators: mem_iter_free and mem_iter_make. *)
From Coq Require Import NArith ZArith List Lia ZifyBool ZifyN ZifyNat.
From Mtbl Require Import gen.Consts model.Bytes model.Codec model.Order spec.Parse model.Reader model.IterMem
  proofs.BytesLemmas proofs.IterMemBase proofs.IterMemStep proofs.IterMemTac.
Local Open Scope N_scope.

Ltac split_in Hid := repeat (destruct Hid as [<-|Hid]); try solve [destruct Hid].

Definition kfree (lk : option nat) (j : nat) : bool :=
  match lk with Some k => Nat.eqb k j | None => false end.

Section Make.
Variable decompress : N -> bytes -> res bytes.
Variable pol : mem -> nat -> bytes -> bool.
Variable r : reader.
Variable ib : ablock.
Hypothesis Hidx : r_index r = Some ib.

(* reader_iter_free: every owned buffer is freed (exactly once: no fault), nothing else changes *)
Lemma free_step m mi : mi_inv ib m mi ->
  exists m', mem_iter_free m mi = MOk m' /\ frame (owns mi) m m' /\
             (forall id, In id (owns mi) -> hg m' id = Some None).
Proof.
  intros Hinv. destruct mi as [it L]. unfold mi_inv in Hinv. cbn [mi_it mi_loc] in *.
  destruct Hinv as (Hnd & Hlv & Hic & Hbc & Hkc). destruct L as [ikey lb lk]. unfold mem_iter_free. cbn [mi_loc ml_k ml_blk ml_ikey] in *.
  assert (Hda : match lb with Some (_, AHeap _ off, _) => off = 0 | _ => True end).
  { unfold blk_coh in Hbc. destruct lb as [[[? da] ?]|]; [|exact I]. destruct da; [exact I|].
    destruct (it_b it) as [[? ?]|]; [apply Hbc|destruct Hbc]. }
  assert (X0 : exists m1, match lk with Some k => mfree m k | None => Some m end = Some m1 /\
             m_file m1 = m_file m /\ m_next m1 = m_next m /\
             (forall j, hg m1 j = if kfree lk j then Some None else hg m j)).
  { destruct lk as [k|].
    - destruct (mfree_spec m k) as (m1 & -> & N1 & F1 & H1); [apply Hlv; unfold owns_loc; cbn; right; apply in_or_app; right; left; reflexivity|].
      exists m1. repeat split; assumption.
    - exists m. repeat split. }
  destruct X0 as (m1 & -> & F1 & N1 & H1). cbn [of_opt mbind].
  destruct (mem_drop_blk_spec' m1 lb) as (m2 & -> & F2 & N2 & H2).
  { intros id Hid. shape2 lb lk Hda Hnd Hlv; cbn [kfree] in *; cbn [In] in Hid; split_in Hid; live_tac. }
  { apply NoDup_cons_iff in Hnd. destruct Hnd as [_ Hnd']. unfold owns_loc in Hnd'. cbn [ml_blk ml_k] in Hnd'.
    destruct lk as [k|]; [apply NoDup_remove_1 in Hnd'|]; rewrite app_nil_r in Hnd'; exact Hnd'. }
  cbn [of_opt mbind].
  destruct (mfree_spec m2 ikey) as (m3 & -> & N3 & F3 & H3).
  { shape2 lb lk Hda Hnd Hlv; cbn [kfree] in *; live_tac. }
  exists m3. split; [reflexivity|]. split.
  - shape2 lb lk Hda Hnd Hlv; cbn [kfree] in *; frame_tac.
  - intros id Hid. shape2 lb lk Hda Hnd Hlv; cbn [kfree] in *; cbn [In] in Hid; split_in Hid;
      hg_chain; eqb_solve; reflexivity.
Qed.

Lemma fun_make_eq kind key bound : fun_make decompress r kind key bound =
  match r_index r with
  | None => Abort
  | Some ib0 =>
    match (match kind with KIter => block_seek_to_first ib0 | _ => block_seek ib0 (bs_invalid ib0) key end) with
    | Ok idx =>
      match get_block_at_index decompress r ib0 idx with
      | Ok None => Ok None
      | Ok (Some (off, b)) =>
        match (match kind with KIter => block_seek_to_first b | _ => block_seek b (bs_invalid b) key end) with
        | Ok bi => Ok (Some (mkri kind (match kind with KIter => [] | _ => bound end) off (Some (off, b)) bi idx true true))
        | _ => Abort
        end
      | Abort => Abort | Oob => Oob | Fail => Fail
      end
    | _ => Abort
    end
  end.
Proof. destruct kind; reflexivity. Qed.

Definition make_post (m m' : mem) (oit : option riter) (omi : option miter) : Prop :=
  frame [] m m' /\
  match oit, omi with
  | Some it, Some mi => mi_it mi = it /\ mi_inv ib m' mi /\ (forall j, In j (owns mi) -> (m_next m <= j)%nat)
  | None, None => True
  | _, _ => False
  end.

Lemma make_step m kind key bound oit : m_file m = r_file r ->
  fun_make decompress r kind key bound = Ok oit ->
  exists m' omi, mem_iter_make decompress pol r m kind key bound = MOk (m', omi) /\ make_post m m' oit omi.
Proof.
  intros Hfile Hf. rewrite fun_make_eq, Hidx in Hf. unfold mem_iter_make. rewrite Hidx.
  destruct (alloc m []) as [m1 ik] eqn:Ea1. destruct (alloc_spec _ _ _ _ Ea1) as (Eik & N1 & F1 & H1).
  destruct (match kind with KIter => block_seek_to_first ib | _ => block_seek ib (bs_invalid ib) key end)
    as [idx| | |] eqn:Ei; try discriminate.
  cbn [of_res mbind].
  destruct (bkey_sync_spec pol m1 ik ib idx []) as (m2 & ik1 & c2 & -> & S2 & Hc2); [live_tac|lia|].
  destruct S2 as (F2 & N2 & I2 & D2 & H2). cbn [of_opt mbind].
  unfold get_block_at_index in Hf. destruct (bs_valid idx) eqn:Evi; cbn [negb].
  2:{ inversion Hf; subst oit. destruct (mfree_spec m2 ik1) as (m3 & -> & N3 & F3 & H3); [live_tac|].
      cbn [of_opt mbind]. exists m3, None. split; [reflexivity|]. split; [frame_tac|exact I]. }
  set (off := index_offset ib idx) in *.
  destruct (get_block decompress r off) as [b| | |] eqn:Eg; try discriminate.
  destruct (mem_get_block_spec decompress r m2 off b Eg) as (m3 & da & raw & -> & F3 & Hinit & Hcase); [congruence|].
  cbn [mbind].
  destruct (alloc m3 []) as [m4 bk] eqn:Ea4. destruct (alloc_spec _ _ _ _ Ea4) as (Ebk & N4 & F4 & H4).
  destruct (match kind with KIter => block_seek_to_first b | _ => block_seek b (bs_invalid b) key end)
    as [bi| | |] eqn:Es; try discriminate.
  cbn [of_res mbind].
  destruct (bkey_sync_spec pol m4 bk b bi []) as (m5 & bk1 & c5 & -> & S5 & Hc5); [live_tac|lia|].
  destruct S5 as (F5 & N5 & I5 & D5 & H5). cbn [of_opt mbind].
  inversion Hf; subst oit. clear Hf.
  destruct kind;
  [ | destruct (alloc m5 bound) as [m6 kid] eqn:Ea6; destruct (alloc_spec _ _ _ _ Ea6) as (Ekid & N6 & F6 & H6) ..];
  (eexists _, (Some _); split; [reflexivity|]);
  (destruct Hcase as [((nfo & -> & Hraw) & ->)|(-> & N3 & H3)]);
  (split; [frame_tac|]; split; [reflexivity|]; split;
   [ unfold mi_inv; cbn [mi_it mi_loc it_index it_b it_bi it_kind it_k];
     inv_tac Hfile (eq_refl KIter) ltac:(first [blk_tac raw Hraw Hinit | blk_tac raw Hinit Hinit])
   | intros j Hj; own_norm; cbn [In] in Hj; lia ]).
Qed.
End Make.
