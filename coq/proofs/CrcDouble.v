(* C12, double flips: two flipped bits anywhere in a frame (stored bytes followed by the checksum
   field) of at most 2^31 - 1 bits are always detected. *)
From Coq Require Import NArith ZArith List Lia Bool ZifyBool ZifyN ZifyNat.
From Mtbl Require Import model.Bytes model.Codec model.Crc spec.Leb128 proofs.BytesLemmas proofs.CodecProofs
  proofs.CrcProofs proofs.CrcBurst proofs.CrcPrime proofs.CrcOrder.
Local Open Scope N_scope.
Ltac Zify.zify_post_hook ::= Z.div_mod_to_equations.

(* the register image of one input bit *)
Lemma feed_bit n i : (i < n)%nat -> feed n 0 (2 ^ N.of_nat i) = Sn (n - i) 1.
Proof.
  intros H. replace n with (i + (n - i))%nat at 1 by lia. rewrite feed_app.
  rewrite (feed_mod i), N.mod_same, feed_zero, Sn_0 by (apply N.pow_nonzero; lia).
  rewrite N.div_same by (apply N.pow_nonzero; lia).
  destruct (n - i)%nat as [|m] eqn:E; [lia|]. cbn [feed]. rewrite feed_zero. reflexivity.
Qed.

Lemma one_lt32 : 1 < 4294967296.
Proof. reflexivity. Qed.

(* register level: two distinct bits within 2^31 - 1 positions never feed to 0 *)
Lemma two_bits_feed n i j : (i < j)%nat -> (j < n)%nat -> N.of_nat n <= 2147483647 ->
  feed n 0 (N.lxor (2 ^ N.of_nat i) (2 ^ N.of_nat j)) <> 0.
Proof.
  intros Hij Hjn Hn H.
  pose proof (feed_lxor n 0 0 (2 ^ N.of_nat i) (2 ^ N.of_nat j)) as HL.
  change (N.lxor 0 0) with 0 in HL. rewrite HL, !feed_bit in H by lia. apply N.lxor_eq in H.
  replace (n - i)%nat with ((j - i) + (n - j))%nat in H by lia. rewrite Sn_add in H.
  apply Sn_inj in H; [|apply Sn_lt32, one_lt32|apply one_lt32].
  apply (order_bit 0 (j - i)); [reflexivity|lia|lia|exact H].
Qed.

(* T12e: a consistent (stored bytes, checksum field) pair and a pair of the same length whose bits -
   stored bytes followed by the little-endian field, read as one number - differ in exactly two
   positions i < j, the frame having at most 2^31 - 1 bits: the second pair is not consistent *)
Theorem double_flip_detected s s' f' i j : wf_bytes s -> wf_bytes s' -> f' < 2 ^ 32 -> length s = length s' ->
  (i < j)%nat -> N.of_nat (8 * (length s + 4)) <= 2147483647 ->
  N.lxor (le_value (framed s (crc32c_ref s))) (le_value (framed s' f')) = N.lxor (2 ^ N.of_nat i) (2 ^ N.of_nat j) ->
  f' <> crc32c_ref s'.
Proof.
  intros Hs Hs' Hf' Hlen Hij Hsz HE Hcons.
  assert (Hf : crc32c_ref s < 2 ^ 32).
  { unfold crc32c_ref. apply lxor_lt32; [apply crc_update_lt32; [reflexivity|exact Hs]|reflexivity]. }
  pose proof (proj1 (consistent_iff s _ Hs Hf) eq_refl) as R1.
  pose proof (proj1 (consistent_iff s' f' Hs' Hf') Hcons) as R2.
  destruct (fixed_encode32_le _ Hf) as (Hl1 & _ & Hw1). destruct (fixed_encode32_le _ Hf') as (Hl2 & _ & Hw2).
  assert (Hwt : wf_bytes (framed s (crc32c_ref s))) by (apply Forall_app; split; assumption).
  assert (Hwt' : wf_bytes (framed s' f')) by (apply Forall_app; split; assumption).
  assert (Hlt : length (framed s (crc32c_ref s)) = length (framed s' f')) by (unfold framed; rewrite !app_length, Hl1, Hl2, Hlen; reflexivity).
  assert (Hn : (8 * length (framed s (crc32c_ref s)) = 8 * (length s + 4))%nat) by (unfold framed; rewrite app_length, Hl1; reflexivity).
  rewrite (crc_update_feed _ CRC_MASK Hwt) in R1. rewrite (crc_update_feed _ CRC_MASK Hwt') in R2. rewrite <- Hlt in R2.
  rewrite Hn in R1, R2. set (n := (8 * (length s + 4))%nat) in *.
  set (X := le_value (framed s (crc32c_ref s))) in *. set (X' := le_value (framed s' f')) in *.
  assert (Hfeed : feed n 0 (N.lxor X X') = 0).
  { rewrite <- (N.lxor_nilpotent CRC_MASK), feed_lxor, R1, R2. apply N.lxor_nilpotent. }
  assert (HXb : X < 2 ^ N.of_nat n) by (rewrite <- Hn; apply le_value_bound, Hwt).
  assert (HXb' : X' < 2 ^ N.of_nat n) by (rewrite <- Hn, Hlt; apply le_value_bound, Hwt').
  assert (HEb : N.lxor X X' < 2 ^ N.of_nat n) by (apply lxor_lt_pow2; assumption).
  assert (Hjn : (j < n)%nat).
  { destruct (Nat.lt_ge_cases j n) as [Hj|Hj]; [exact Hj|]. exfalso.
    pose proof (high_bits_0 _ _ (N.of_nat j) HEb ltac:(lia)) as Hb.
    rewrite HE, N.lxor_spec, N.pow2_bits_false, N.pow2_bits_true in Hb by lia. discriminate Hb. }
  rewrite HE in Hfeed. exact (two_bits_feed n i j Hij Hjn Hsz Hfeed).
Qed.

Print Assumptions double_flip_detected.

(* the same, the difference given bit by bit *)
Corollary double_flip_detected_bits s s' f' i j : wf_bytes s -> wf_bytes s' -> f' < 2 ^ 32 -> length s = length s' ->
  (i < j)%nat -> N.of_nat (8 * (length s + 4)) <= 2147483647 ->
  (forall t, N.testbit (N.lxor (le_value (framed s (crc32c_ref s))) (le_value (framed s' f'))) t
             = (t =? N.of_nat i) || (t =? N.of_nat j)) ->
  f' <> crc32c_ref s'.
Proof.
  intros Hs Hs' Hf' Hlen Hij Hsz Hb. apply (double_flip_detected s s' f' i j); try assumption.
  apply N.bits_inj_iff. intros t. rewrite Hb, N.lxor_spec, !N.pow2_bits_eqb.
  destruct (t =? N.of_nat i) eqn:E1, (t =? N.of_nat j) eqn:E2, (N.of_nat i =? t) eqn:E3, (N.of_nat j =? t) eqn:E4; try reflexivity; lia.
Qed.

Print Assumptions double_flip_detected_bits.
