(* sorter.c, continued (C06): mtbl_sorter_write and the persistence of chunks.
   mtbl_sorter_write obtains the iterator and feeds every entry to a table writer; with the writer and
   reader models of C01 the table read back holds exactly the iterator's output.  A chunk is written
   with the same writer (snappy) and read back: by C01 that is the identity on chunk contents, which
   is what the shortcut of model/Sorter.v ("the chunk reader holds the folded batch") relies on. *)
From Coq Require Import NArith ZArith List Lia Permutation Sorting.Sorted.
From Mtbl Require Import gen.Consts model.Bytes model.Order model.Heap model.Merger model.Sorter spec.MergeSpec
  model.Block model.Writer model.Reader spec.Parse proofs.BlockProofs proofs.ReaderProofs
  proofs.OrderProofs proofs.SorterProofs proofs.MergerProofs proofs.MergerClosed proofs.SorterFull
  proofs.MergerHistory proofs.MetaProofs proofs.TableRT proofs.SorterMore.
Local Open Scope N_scope.
Ltac splits := repeat match goal with |- _ /\ _ => split end.

(* ---- model of mtbl_sorter_write ------------------------------------------------------------------------- *)
Section WriteModel.
Variable mergef : option (bytes -> bytes -> bytes -> option bytes).
Variable sort : list entry -> list entry.
Variable compress_default : N -> bytes -> res bytes.
Variable compress_level : N -> Z -> bytes -> res bytes.

(* while (mtbl_iter_next(it, ...) == mtbl_res_success) { res = mtbl_writer_add(w, ...); if (res != success) break; }
   The C loop has no bound; the model's fuel is an upper bound on the number of entries the iterator can
   deliver (write_loop_spec: it is never exhausted), Oob marks exhaustion. *)
Fixpoint write_loop (fuel : nat) (it : miter) (w : writer) : res (miter * writer * bool) :=
  match fuel with
  | O => Oob
  | S fu =>
    match merger_next mergef None it with
    | (it', Some (k, v)) =>
      match writer_add compress_default compress_level w k v with
      | Ok (w1, true) => write_loop fu it' w1
      | Ok (w1, false) => Ok (it', w1, false)
      | Fail => Fail | Abort => Abort | Oob => Oob
      end
    | (it', None) => Ok (it', w, true)
    end
  end.

(* mtbl_sorter_write: (state, writer, mtbl_res) *)
Definition sorter_write (s : sorter) (w : writer) : res (sorter * writer * bool) :=
  if so_iterating s then Ok (s, w, false) else
  match sorter_iter mergef sort s with
  | Ok (s', Some it) =>
    match write_loop (S (length (chunk_entries (so_chunks s')))) it w with
    | Ok (_, w', r) => Ok (s', w', r)
    | Fail => Fail | Abort => Abort | Oob => Oob
    end
  | Ok (s', None) => Ok (s', w, false)
  | Fail => Fail | Abort => Abort | Oob => Oob
  end.

(* once iteration has begun mtbl_sorter_write is refused and changes nothing *)
Lemma sorter_write_refused s w : so_iterating s = true -> sorter_write s w = Ok (s, w, false).
Proof. intros H. unfold sorter_write. rewrite H. reflexivity. Qed.

(* a successful mtbl_sorter_write leaves the sorter iterating *)
Lemma sorter_write_sets_flag s w s' w' : sorter_write s w = Ok (s', w', true) -> so_iterating s' = true.
Proof.
  unfold sorter_write. destruct (so_iterating s) eqn:Ei; [intros H; inversion H|].
  destruct (sorter_iter mergef sort s) as [[s1 [it|]]| | |] eqn:Eit; try discriminate.
  destruct (write_loop _ it w) as [[[it' w1] r]| | |]; try discriminate. intros H. inversion H; subst.
  eapply sorter_iter_sets_flag; exact Eit.
Qed.

Lemma sorter_write_twice s w s' w' w2 : sorter_write s w = Ok (s', w', true) -> sorter_write s' w2 = Ok (s', w2, false).
Proof. intros H. apply sorter_write_refused. eapply sorter_write_sets_flag; exact H. Qed.

Lemma sorter_add_after_write s w s' w' k v :
  sorter_write s w = Ok (s', w', true) -> sorter_add mergef sort s' k v = Ok (s', false).
Proof. intros H. apply sorter_add_refused. eapply sorter_write_sets_flag; exact H. Qed.
End WriteModel.

(* ---- the loop is writer_adds over the iterator's output when every add succeeds ------------------------- *)
Section Loop.
Variable mf : bytes -> bytes -> bytes -> option bytes.
Variable compress_default : N -> bytes -> res bytes.
Variable compress_level : N -> Z -> bytes -> res bytes.

Lemma write_loop_spec : forall fuel it w w1 rs, api it -> (length (remaining it) < fuel)%nat ->
  writer_adds compress_default compress_level w (mdrain mf fuel it) = Ok (w1, rs) ->
  Forall (fun b => b = true) rs ->
  exists it', write_loop (Some mf) compress_default compress_level fuel it w = Ok (it', w1, true).
Proof.
  induction fuel as [|fuel IH]; intros it w w1 rs Hapi Hlen Hadds Hall; [lia|].
  cbn [write_loop]. rewrite mdrain_S in Hadds. pose proof (merger_next_closed mf it Hapi) as Hstep.
  destruct (merger_next (Some mf) None it) as [it' [[k v]|]].
  - destruct Hstep as (first & rest & Hp & _ & _ & Hapi' & _). apply Permutation_length in Hp.
    cbn [length] in Hp. rewrite app_length in Hp. unfold entry in *.
    cbn [writer_adds] in Hadds.
    destruct (writer_add compress_default compress_level w k v) as [[w2 r]| | |]; try discriminate.
    destruct (writer_adds compress_default compress_level w2 (mdrain mf fuel it')) as [[w3 rs2]| | |] eqn:E2; try discriminate.
    inversion Hadds; subst w3 rs. inversion Hall as [|? ? Hr Hall2]; subst.
    apply (IH it' w2 w1 rs2 Hapi' ltac:(lia) E2 Hall2).
  - cbn [writer_adds] in Hadds. inversion Hadds; subst. exists it'. reflexivity.
Qed.

Lemma writer_adds_length : forall ops w w1 rs,
  writer_adds compress_default compress_level w ops = Ok (w1, rs) -> length rs = length ops.
Proof.
  induction ops as [|[k v] ops IH]; intros w w1 rs H; cbn [writer_adds] in H; [inversion H; reflexivity|].
  destruct (writer_add compress_default compress_level w k v) as [[w2 r]| | |]; try discriminate.
  destruct (writer_adds compress_default compress_level w2 ops) as [[w3 rs2]| | |] eqn:E2; try discriminate.
  inversion H; subst. cbn [length]. f_equal. eapply IH; exact E2.
Qed.
End Loop.

Lemma kept_length : forall (es : list entry) rs, (length (kept es rs) <= length es)%nat.
Proof.
  induction es as [|e es IH]; intros rs; [destruct rs; apply le_n|]. destruct rs as [|r rs]; [apply Nat.le_0_l|].
  unfold kept in *. cbn [combine filter snd]. specialize (IH rs). destruct r; cbn [map length]; lia.
Qed.
Lemma kept_all_true : forall (es : list entry) rs, length rs = length es -> kept es rs = es -> Forall (fun b => b = true) rs.
Proof.
  induction es as [|e es IH]; intros rs Hl Hk; destruct rs as [|r rs]; try discriminate; [constructor|].
  cbn [length] in Hl. unfold kept in Hk. cbn [combine filter snd] in Hk. destruct r.
  - cbn [map fst] in Hk. inversion Hk as [Hk']. constructor; [reflexivity|]. apply IH; [lia|exact Hk'].
  - exfalso. pose proof (kept_length es rs) as Hle. unfold kept in Hle. rewrite Hk in Hle. cbn [length] in Hle. lia.
Qed.

Lemma ssorted_keys_strict : forall out : list entry,
  StronglySorted (fun a b => bcmp (fst a) (fst b) = Lt) out -> strictly_sorted (map fst out).
Proof.
  induction 1 as [|a l Hs IH Ha]; [exact I|]. cbn [map]. destruct l as [|b l]; [exact I|]. cbn [map] in *.
  split; [|exact IH]. inversion Ha; assumption.
Qed.

(* ---- T3: the table written by mtbl_sorter_write ------------------------------------------------------------ *)
Section WriteRT.
Variable f : bytes -> bytes -> bytes -> bytes.
Hypothesis f_assoc : forall k a b c, f k (f k a b) c = f k a (f k b c).
Variable sort : list entry -> list entry.
Hypothesis sort_perm : forall l, Permutation (sort l) l.
Hypothesis sort_sorted : forall l, keys_le (sort l).
Variable compress_default : N -> bytes -> res bytes.
Variable compress_level : N -> Z -> bytes -> res bytes.
Variable decompress : N -> bytes -> res bytes.
Hypothesis Hrt_default : forall a raw c, compress_default a raw = Ok c -> decompress a c = Ok raw.
Hypothesis Hrt_level : forall a l raw c, compress_level a l raw = Ok c -> decompress a c = Ok raw.

Local Notation mff := (mf f).

(* sizes fit the integer widths of the format (the domain of C01) *)
Definition table_fits (o : wopts) (prefix : bytes) (es : list entry) (w' : writer) : Prop :=
  Forall (entry_fits o) es /\ meta_small (w_m w') /\ m_bytes_index_block (w_m w') < 2 ^ 32 /\
  len (prefix ++ writer_bytes w') < 2 ^ 64.

(* a fresh writer (any options, any bytes already in the file), mtbl_sorter_write, mtbl_writer_destroy: the
   writer session over the iterator's output; [w'] is the finished writer *)
Definition write_session_ok (s : sorter) (o : wopts) (prefix : bytes) (s' : sorter) (w' : writer) : Prop :=
  exists w1, sorter_write (Some mff) sort compress_default compress_level s (writer_init o (len prefix)) = Ok (s', w1, true) /\
             writer_finish compress_default compress_level w1 = Ok w'.

Theorem sorter_write_core max_memory ops :
  exists s, adds f sort (sorter_init max_memory) ops = Ok s /\
  exists s1, final_flush (Some mff) sort s = Ok (s1, true) /\ so_iterating s1 = false /\
    forall cs, Permutation cs (so_chunks s1) ->
    exists s' it, sorter_iter (Some mff) sort (with_chunks s1 cs) = Ok (s', Some it) /\
      let out := mdrain mff (S (length ops)) it in
      out_ok f ops out /\
      forall o prefix w' rs, 1 <= wo_interval o ->
        writer_session compress_default compress_level o (len prefix) out = Ok (w', rs) ->
        table_fits o prefix out w' ->
        write_session_ok (with_chunks s1 cs) o prefix s' w' /\ so_iterating s' = true /\
        Forall (fun b => b = true) rs /\
        read_all decompress (S (length out)) (prefix ++ writer_bytes w') = Ok out.
Proof.
  destruct (any_order_core f f_assoc sort sort_perm sort_sorted max_memory ops) as (s & Hadds & s1 & Hfl & Hi1 & _ & Hcs).
  exists s. split; [exact Hadds|]. exists s1. splits; [exact Hfl|exact Hi1|]. intros cs Hp.
  destruct (Hcs cs Hp) as (s' & it & Hit & Hi' & Hch' & Hv' & Hapi & Hrem & Hlen & Hout & _).
  exists s', it. split; [exact Hit|]. cbn zeta. split; [apply Hout, Hlen|].
  intros o prefix w' rs Hint Hsess (Hfit & Hmeta & Hidx & Hflen).
  pose proof (Hout _ Hlen) as (Hso & _ & _).
  pose proof (roundtrip_sorted compress_default compress_level o prefix _ w' rs Hint Hfit (ssorted_keys_strict _ Hso) Hsess) as Hkept.
  assert (Hall : Forall (fun b => b = true) rs).
  { unfold writer_session in Hsess.
    destruct (writer_adds compress_default compress_level (writer_init o (len prefix)) (mdrain mff (S (length ops)) it)) as [[w0 rs0]| | |] eqn:Ea; try discriminate.
    destruct (writer_finish compress_default compress_level w0); try discriminate. inversion Hsess; subst.
    apply (kept_all_true _ _ (writer_adds_length _ _ _ _ _ _ Ea) Hkept). }
  splits; [|exact Hi'|exact Hall|].
  - unfold write_session_ok, sorter_write. unfold with_chunks at 1. cbn [so_iterating]. rewrite Hi1, Hit, Hch'.
    unfold writer_session in Hsess.
    destruct (writer_adds compress_default compress_level (writer_init o (len prefix)) (mdrain mff (S (length ops)) it)) as [[w0 rs0]| | |] eqn:Ea; try discriminate.
    destruct (writer_finish compress_default compress_level w0) as [wf| | |] eqn:Ef; try discriminate. inversion Hsess; subst wf rs0.
    rewrite (mdrain_enough mff (length (chunk_entries cs)) it Hapi ltac:(rewrite (Permutation_length Hrem); apply le_n) (length ops) Hlen) in Ea.
    destruct (write_loop_spec mff compress_default compress_level _ it _ w0 rs Hapi
                ltac:(rewrite (Permutation_length Hrem); apply Nat.lt_succ_diag_r) Ea Hall) as (it' & Hloop).
    rewrite Hloop. exists w0. split; [reflexivity|exact Ef].
  - pose proof (roundtrip_read_all compress_default compress_level decompress Hrt_default Hrt_level o prefix _ w' rs
                  Hint Hfit Hsess Hmeta Hidx Hflen (S (length (mdrain mff (S (length ops)) it)))) as Hr.
    rewrite Hkept in Hr. apply Hr. apply Nat.lt_succ_diag_r.
Qed.

(* ---- T4: a chunk written to its temporary table and read back ------------------------------------------------ *)
(* _mtbl_sorter_write_chunk: mtbl_writer_options_init, compression SNAPPY, writer on the fresh descriptor *)
Definition chunk_wopts : wopts := mkwopts COMP_SNAPPY DEFAULT_COMPRESSION_LEVEL DEFAULT_BLOCK_SIZE DEFAULT_BLOCK_RESTART_INTERVAL.

(* the temporary table of a chunk: the writer session over the folded batch on an empty file *)
Definition persist_chunk (c : list entry) : res (writer * list bool) :=
  writer_session compress_default compress_level chunk_wopts 0 c.

Lemma keys_lt_strict : forall r : list entry, keys_lt r -> strictly_sorted (map fst r).
Proof.
  induction r as [|a r IH]; intros H; [exact I|]. destruct r as [|b r]; [exact I|]. cbn [map] in *.
  destruct H as [H1 H2]. split; [exact H1|apply IH, H2].
Qed.

(* whatever the merge function (total or not): the chunk write_chunk returns, written with the writer
   model and read back with the reader model, is the chunk; every add succeeded *)
Theorem chunk_roundtrip mergef batch c w' rs :
  write_chunk mergef sort batch = Ok (Some c) ->
  persist_chunk c = Ok (w', rs) -> table_fits chunk_wopts [] c w' ->
  Forall (fun b => b = true) rs /\
  read_all decompress (S (length c)) (writer_bytes w') = Ok c.
Proof.
  intros Hw Hsess (Hfit & Hmeta & Hidx & Hflen). unfold write_chunk in Hw.
  destruct (fold_sorted mergef (S (length batch)) (sort batch)) as [c0| | |] eqn:Ef; try discriminate. inversion Hw; subst c0.
  pose proof (proj1 (fold_sorted_strict mergef _ _ _ (sort_sorted batch) Ef)) as Hlt.
  assert (Hint : 1 <= wo_interval chunk_wopts) by (cbv; discriminate).
  unfold persist_chunk in Hsess. change 0 with (len []) in Hsess.
  pose proof (roundtrip_sorted compress_default compress_level chunk_wopts [] c w' rs Hint Hfit (keys_lt_strict c Hlt) Hsess) as Hkept.
  split.
  - unfold writer_session in Hsess.
    destruct (writer_adds compress_default compress_level (writer_init chunk_wopts (len [])) c) as [[w0 rs0]| | |] eqn:Ea; try discriminate.
    destruct (writer_finish compress_default compress_level w0); try discriminate. inversion Hsess; subst.
    apply (kept_all_true _ _ (writer_adds_length _ _ _ _ _ _ Ea) Hkept).
  - pose proof (roundtrip_read_all compress_default compress_level decompress Hrt_default Hrt_level chunk_wopts [] c w' rs
                  Hint Hfit Hsess Hmeta Hidx Hflen (S (length c))) as Hr.
    rewrite Hkept in Hr. apply Hr. apply Nat.lt_succ_diag_r.
Qed.
End WriteRT.

(* ---- T4, continued: the reader of a chunk is the ideal cursor the merger model uses ----------------------- *)
(* next / seek histories on an ideal source cursor (model/Merger.v: sc_next, sc_seek) *)
Fixpoint sc_run (s : scur) (ops : list rop) : list (option entry) :=
  match ops with
  | [] => []
  | RNext :: tl => let '(s', e) := sc_next s in e :: sc_run s' tl
  | RSeek k :: tl => let '(s', _) := sc_seek s k in None :: sc_run s' tl
  end.

Section CursorBridge.
Variables (nb : nat) (B : nat -> ablock).

Definition cur_rel (c : option nat) (s : scur) : Prop :=
  sc_es s = Gents nb B /\ sc_bound s = BAll /\ sc_null s = false /\
  match c with Some p => sc_valid s = true /\ sc_pos s = p | None => sc_valid s = false end.

Lemma first_ge_count_lt : forall (l : list pentry) k i, first_ge_from (map ent l) k i = (i + count_lt l k)%nat.
Proof.
  induction l as [|e l IH]; intros k i; cbn [map first_ge_from count_lt]; [lia|].
  unfold ent at 1. unfold blt. destruct (bcmp (pe_key e) k); [lia| |lia]. rewrite IH. lia.
Qed.

(* the specification cursor of C03 (run_spec, kind = iter) is the cursor of model/Merger.v *)
Lemma spec_cursor_is_scur k : forall ops c s, cur_rel c s -> run_spec nb B KIter k c ops = sc_run s ops.
Proof.
  induction ops as [|[|key] ops IH]; intros c s (Hes & Hb & Hn & Hc); [reflexivity| |].
  - cbn [run_spec sc_run]. unfold spec_next, sc_next. rewrite Hn, Hb, Hes. destruct c as [p|].
    + destruct Hc as [Hv Hp]. rewrite Hv, Hp. cbn [orb negb]. unfold Gents. rewrite nth_error_map. unfold total.
      destruct (Nat.ltb_spec p (length (G nb B))) as [Hlt|Hge].
      * rewrite (nth_error_nth' (G nb B) dummy_pe Hlt). cbn [option_map bound_ok sbound_ok]. unfold ent at 1. cbn iota beta.
        f_equal. apply IH. unfold cur_rel. cbn [sc_es sc_bound sc_null sc_valid sc_pos]. unfold Gents. splits; reflexivity.
      * rewrite (proj2 (nth_error_None (G nb B) p) Hge). cbn [option_map]. f_equal. apply IH.
        unfold cur_rel. cbn [sc_es sc_bound sc_null sc_valid sc_pos]. unfold Gents. splits; reflexivity.
    + rewrite Hc. cbn [orb negb]. f_equal. apply IH. unfold cur_rel. splits; assumption.
  - cbn [run_spec sc_run]. unfold sc_seek. rewrite Hn. f_equal. apply IH. unfold cur_rel. cbn [sc_es sc_bound sc_null sc_valid sc_pos].
    splits; try assumption; try reflexivity. rewrite Hes. unfold Gents, gfirst. rewrite first_ge_count_lt. reflexivity.
Qed.
End CursorBridge.

Section ChunkReader.
Variable sort : list entry -> list entry.
Hypothesis sort_perm : forall l, Permutation (sort l) l.
Hypothesis sort_sorted : forall l, keys_le (sort l).
Variable compress_default : N -> bytes -> res bytes.
Variable compress_level : N -> Z -> bytes -> res bytes.
Variable decompress : N -> bytes -> res bytes.
Hypothesis Hrt_default : forall a raw c, compress_default a raw = Ok c -> decompress a c = Ok raw.
Hypothesis Hrt_level : forall a l raw c, compress_level a l raw = Ok c -> decompress a c = Ok raw.

(* a chunk is never empty: a flush happens only with buffered entries *)
Lemma write_chunk_nonempty mergef batch c : batch <> [] -> write_chunk mergef sort batch = Ok (Some c) -> c <> [].
Proof.
  intros Hne Hw. unfold write_chunk in Hw.
  destruct (fold_sorted mergef (S (length batch)) (sort batch)) as [c0| | |] eqn:Ef; try discriminate. inversion Hw; subst c0.
  pose proof (proj2 (fold_sorted_strict mergef _ _ _ (sort_sorted batch) Ef)) as Hhd.
  destruct (sort batch) as [|[k0 v0] l] eqn:Es.
  - exfalso. apply Hne. apply Permutation_nil. rewrite <- Es. apply sort_perm.
  - destruct c as [|[k1 v1] c]; [contradiction|discriminate].
Qed.

(* the temporary table of a chunk opens, and every history of next / seek calls on the iterator of
   mtbl_reader_source's reader equals the history of the ideal cursor  mksc c 0 true BAll false  that
   model/Sorter.v hands to the merger *)
Theorem chunk_reader_is_cursor mergef batch c w' rs :
  batch <> [] -> write_chunk mergef sort batch = Ok (Some c) ->
  persist_chunk compress_default compress_level c = Ok (w', rs) -> table_fits chunk_wopts [] c w' ->
  exists r it, fst (reader_open (writer_bytes w') false) = Ok (Some r) /\
    reader_iter decompress r = Ok (Some it) /\
    forall ops, run_model decompress r it ops = Ok (sc_run (mksc c 0 true BAll false) ops).
Proof.
  intros Hne Hw Hsess (Hfit & Hmeta & Hidx & Hflen).
  pose proof (write_chunk_nonempty mergef batch c Hne Hw) as Hcne.
  unfold write_chunk in Hw.
  destruct (fold_sorted mergef (S (length batch)) (sort batch)) as [c0| | |] eqn:Ef; try discriminate. inversion Hw; subst c0.
  pose proof (proj1 (fold_sorted_strict mergef _ _ _ (sort_sorted batch) Ef)) as Hlt.
  assert (Hint : 1 <= wo_interval chunk_wopts) by (cbv; discriminate).
  unfold persist_chunk in Hsess. change 0 with (len []) in Hsess.
  pose proof (roundtrip_sorted compress_default compress_level chunk_wopts [] c w' rs Hint Hfit (keys_lt_strict c Hlt) Hsess) as Hkept.
  destruct (written_table_ok compress_default compress_level decompress Hrt_default Hrt_level chunk_wopts [] c w' rs Hint Hfit Hsess Hmeta Hidx Hflen)
    as (r & Hopen & [(Hk & _)|(ib & iridx & ds & Htab & Hent)]).
  - rewrite Hkept in Hk. contradiction.
  - rewrite Hkept in Hent. cbn [app] in Hopen.
    destruct (table_history_iter decompress r ib iridx (length ds) (Bof ds) (Rof ds) Htab) as (it & Hit & Hrun).
    exists r, it. splits; [exact Hopen|exact Hit|]. intros ops. rewrite Hrun. f_equal.
    apply spec_cursor_is_scur. unfold cur_rel. cbn [sc_es sc_bound sc_null sc_valid sc_pos]. unfold table_entries_of in Hent.
    splits; try reflexivity. symmetry. exact Hent.
Qed.
End ChunkReader.

Print Assumptions sorter_write_core.
Print Assumptions chunk_roundtrip.
Print Assumptions spec_cursor_is_scur.
Print Assumptions chunk_reader_is_cursor.
