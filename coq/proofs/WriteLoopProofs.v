From Coq Require Import NArith ZArith List Lia ZifyBool ZifyN ZifyNat.
From Mtbl Require Import model.Bytes model.WriteLoop proofs.BytesLemmas.
Local Open Scope N_scope.
Ltac Zify.zify_post_hook ::= Z.div_mod_to_equations.

Lemma len_take k (l : bytes) : k <= len l -> len (take k l) = k.
Proof. intros H. unfold take, len in *. rewrite firstn_length. lia. Qed.
Lemma len_drop k (l : bytes) : len (drop k l) = len l - k.
Proof. unfold drop, len. rewrite skipn_length. lia. Qed.
Lemma take_drop k (l : bytes) : take k l ++ drop k l = l.
Proof. apply firstn_skipn. Qed.
Lemma len_zero_nil (l : bytes) : len l = 0 -> l = [].
Proof. destruct l; [reflexivity|]. unfold len; cbn; lia. Qed.

(* the loop either appends exactly the buffer, or aborts exactly when an error /
   zero return is met before the buffer is complete *)
Lemma write_loop_spec : forall os file buf, buf <> [] ->
  match write_loop os file buf with
  | Ok (f, _) => f = file ++ buf /\ error_met os (len buf) = false
  | Abort => error_met os (len buf) = true
  | _ => False
  end.
Proof.
  induction os as [|o os IH]; intros file buf Hne; destruct buf as [|b buf]; try congruence.
  - cbn. split; reflexivity.
  - cbn [write_loop error_met]. destruct o as [|n| | |]; try (split; reflexivity); try reflexivity.
    + (* partial *)
      set (l := b :: buf) in *. set (k := partial_len n (len l)).
      assert (Hk : 1 <= k <= len l).
      { subst k. unfold partial_len. subst l. rewrite len_cons. lia. }
      destruct (drop k l) as [|b' r] eqn:Ed.
      * assert (Hz : len l - k = 0) by (rewrite <- len_drop, Ed; reflexivity).
        replace (len l - k =? 0) with true by lia.
        destruct os; cbn [write_loop]; (split; [|reflexivity]);
          rewrite <- (take_drop k l) at 2; rewrite Ed, app_nil_r; reflexivity.
      * assert (Hnz : len l - k <> 0).
        { rewrite <- len_drop, Ed, len_cons. lia. }
        replace (len l - k =? 0) with false by lia.
        specialize (IH (file ++ take k l) (b' :: r) ltac:(discriminate)).
        rewrite <- Ed in IH |- *. rewrite len_drop in IH.
        destruct (write_loop os (file ++ take k l) (drop k l)) as [[f os']| | |]; try exact IH.
        cbv beta iota in IH. destruct IH as [-> He]. split; [|exact He]. rewrite <- app_assoc, take_drop. reflexivity.
    + (* EINTR *) apply (IH file (b :: buf)). discriminate.
Qed.

(* T20a *)
Lemma write_all_spec os file buf : buf <> [] ->
  match write_all os file buf with
  | Ok (f, _) => f = file ++ buf /\ error_met os (len buf) = false
  | Abort => error_met os (len buf) = true
  | _ => False
  end.
Proof.
  intros H. unfold write_all. destruct buf; [congruence|]. apply write_loop_spec. discriminate.
Qed.

(* without hard errors / zero returns every buffer is written completely *)
Definition benign (o : outcome) : Prop := o <> OZero /\ o <> OErr.
Lemma error_met_benign : forall os size, Forall benign os -> error_met os size = false.
Proof.
  induction os as [|o os IH]; intros size H; [reflexivity|].
  inversion H as [|? ? [H1 H2] Hos]; subst. destruct o; cbn [error_met]; try reflexivity; try congruence.
  - destruct (_ =? 0); [reflexivity|apply IH, Hos].
  - apply IH, Hos.
Qed.

Lemma write_loop_rest_benign : forall os file buf f os', Forall benign os ->
  write_loop os file buf = Ok (f, os') -> Forall benign os'.
Proof.
  induction os as [|o os IH]; intros file buf f os' H E; destruct buf as [|b buf]; cbn [write_loop] in E.
  - inversion E; subst; constructor.
  - inversion E; subst; constructor.
  - inversion E; subst; exact H.
  - inversion H as [|? ? Ho Hos]; subst. destruct o; try discriminate.
    + inversion E; subst; exact Hos.
    + eapply IH; eassumption.
    + eapply IH; eassumption.
Qed.

(* T20b: the file after all chunks = the chunks concatenated, whatever the
   fragmentation; or the process aborted *)
Lemma write_chunks_spec : forall chunks os file, Forall (fun c => c <> []) chunks ->
  match write_chunks os file chunks with
  | Ok (f, _) => f = file ++ concat chunks
  | Abort => True
  | _ => False
  end.
Proof.
  induction chunks as [|c chunks IH]; intros os file Hne; cbn [write_chunks concat].
  - rewrite app_nil_r. reflexivity.
  - inversion Hne as [|? ? Hc Hrest]; subst.
    pose proof (write_all_spec os file c Hc) as Hw.
    destruct (write_all os file c) as [[f os']| | |]; try exact Hw; [|exact I].
    destruct Hw as [-> _]. specialize (IH os' (file ++ c) Hrest).
    destruct (write_chunks os' (file ++ c) chunks) as [[f2 os2]| | |]; try exact IH.
    rewrite IH, app_assoc. reflexivity.
Qed.

Lemma write_chunks_benign : forall chunks os file, Forall (fun c => c <> []) chunks -> Forall benign os ->
  exists os', write_chunks os file chunks = Ok (file ++ concat chunks, os').
Proof.
  induction chunks as [|c chunks IH]; intros os file Hne Hb; cbn [write_chunks concat].
  - rewrite app_nil_r. eexists; reflexivity.
  - inversion Hne as [|? ? Hc Hrest]; subst.
    pose proof (write_all_spec os file c Hc) as Hw.
    rewrite (error_met_benign os _ Hb) in Hw.
    destruct (write_all os file c) as [[f os']| | |] eqn:E; try (exfalso; exact Hw); try discriminate.
    destruct Hw as [-> _].
    assert (Hb' : Forall benign os').
    { unfold write_all in E. destruct c; [congruence|]. eapply write_loop_rest_benign; eassumption. }
    destruct (IH os' (file ++ c) Hrest Hb') as [os2 ->]. rewrite app_assoc. eexists; reflexivity.
Qed.
