(* The merger theorems with the heap contract discharged by the array heap (HeapProofs):
   closed statements about model/Merger.v over model/Heap.v (dupsort = none). *)
From Coq Require Import NArith List Lia Permutation Sorting.Sorted.
From Mtbl Require Import model.Bytes model.Order model.Heap model.Merger spec.MergeSpec proofs.OrderProofs
  proofs.HeapProofs proofs.MergerProofs.
Local Open Scope N_scope.

Definition hk : list hent -> Prop := hok hent (mcmp None) dummy_he.

Lemma mle_trans a b c : le hent (mcmp None) a b -> le hent (mcmp None) b c -> le hent (mcmp None) a c.
Proof.
  unfold le, mcmp. intros H1 H2.
  destruct (bcmp (he_key a) (he_key b)) eqn:E1; try congruence; destruct (bcmp (he_key b) (he_key c)) eqn:E2; try congruence.
  - apply bcmp_eq in E1. apply bcmp_eq in E2. rewrite E1, E2, bcmp_refl. discriminate.
  - apply bcmp_eq in E1. rewrite E1, E2. discriminate.
  - apply bcmp_eq in E2. rewrite <- E2, E1. discriminate.
  - rewrite (bcmp_lt_trans _ _ _ E1 E2). discriminate.
Qed.
Lemma mle_total a b : le hent (mcmp None) a b \/ le hent (mcmp None) b a.
Proof.
  unfold le, mcmp. rewrite (bcmp_antisym (he_key a) (he_key b)).
  destruct (bcmp (he_key a) (he_key b)); cbn; [left|left|right]; discriminate.
Qed.

Lemma K_nil : hk [].
Proof. apply hok_nil; [exact mle_trans|exact mle_total]. Qed.
Lemma K_push h x : hk h -> hk (heap_push hent (mcmp None) dummy_he h x) /\ Permutation (heap_push hent (mcmp None) dummy_he h x) (x :: h).
Proof. apply heap_push_ok; [exact mle_trans|exact mle_total]. Qed.
Lemma K_pop r t : hk (r :: t) -> hk (heap_pop hent (mcmp None) dummy_he (r :: t)) /\ Permutation (heap_pop hent (mcmp None) dummy_he (r :: t)) t.
Proof. apply heap_pop_ok; [exact mle_trans|exact mle_total]. Qed.
Lemma K_replace r t x : hk (r :: t) -> hk (heap_replace hent (mcmp None) dummy_he (r :: t) x) /\ Permutation (heap_replace hent (mcmp None) dummy_he (r :: t) x) (x :: t).
Proof. apply heap_replace_ok; [exact mle_trans|exact mle_total]. Qed.
Lemma K_min r t y : hk (r :: t) -> In y t -> mcmp None r y <> Gt.
Proof. intros H Hy. exact (heap_root_min hent (mcmp None) dummy_he mle_trans mle_total r t y H Hy). Qed.
Lemma K_mark r t r' : hk (r :: t) -> he_key r' = he_key r -> hk (r' :: t).
Proof. intros H E. apply (hok_root_equiv hent (mcmp None) dummy_he mle_trans mle_total r r' t H). intros y. unfold mcmp. rewrite E. reflexivity. Qed.

Section Closed.
Variable mf : bytes -> bytes -> bytes -> option bytes.

Definition api := api_inv hk.

(* one call *)
Theorem merger_next_closed it : api it ->
  match merger_next (Some mf) None it with
  | (it', Some (k, v)) =>
    exists first rest,
      Permutation ((k, first) :: map (pair k) rest ++ remaining it') (remaining it) /\
      fold_merge mf k first rest = Some v /\
      (forall x, In x (remaining it') -> bcmp k (fst x) = Lt) /\
      api it' /\ map sc_es (mi_srcs it') = map sc_es (mi_srcs it)
  | (it', None) =>
    (remaining it = [] /\ api it' /\ remaining it' = []) \/
    (exists k first rest v0 others,
       Permutation ((k, first) :: map (pair k) rest ++ (k, v0) :: others) (remaining it) /\
       (forall x, In x others -> bcmp k (fst x) <> Gt) /\
       fold_merge mf k first (rest ++ [v0]) = None)
  end.
Proof. exact (merger_next_step mf hk K_push K_pop K_replace K_min K_mark it). Qed.

Lemma vals_concat k (srcs : list (list entry)) : vals k (concat srcs) = values_for k srcs.
Proof.
  induction srcs as [|es srcs IH]; [reflexivity|].
  cbn [concat]. rewrite vals_app, IH. reflexivity.
Qed.

(* the whole iteration over a family of sorted sources *)
Theorem merge_sources_fuel (srcs : list (list entry)) :
  Forall ssorted srcs -> (forall k a b, mf k a b <> None) ->
  exists it, merger_iter_make None (map (fun es => mksc es 0 true BAll false) srcs) false = Some it /\
    forall n, (length (concat srcs) <= n)%nat ->
    let out := mdrain mf (S n) it in
    (* keys strictly ascending, hence each once *)
    StronglySorted (fun a b => bcmp (fst a) (fst b) = Lt) out /\
    (* exactly the keys the sources hold *)
    (forall k, In k (map fst out) <-> In k (map fst (concat srcs))) /\
    (* each value is the fold of the merge function over all values held for the key, each used once *)
    Forall (fun e => merged_value_ok mf srcs (fst e) (snd e)) out.
Proof.
  intros Hs Htot.
  assert (Hfresh : Forall fresh (map (fun es => mksc es 0 true BAll false) srcs)).
  { apply Forall_forall. intros s Hin. apply in_map_iff in Hin. destruct Hin as (es & <- & Hes).
    rewrite Forall_forall in Hs. unfold fresh. cbn. repeat split; try reflexivity. apply Hs, Hes. }
  destruct (merger_iter_make_spec mf hk K_nil K_push K_pop K_replace K_min K_mark _ Hfresh) as (it & Hmk & Hapi & Hperm & _).
  rewrite map_map in Hperm. cbn [sc_es] in Hperm. rewrite map_id in Hperm.
  exists it. split; [exact Hmk|]. intros n Hn. cbn zeta.
  destruct (drain_spec mf hk K_push K_pop K_replace K_min K_mark Htot n it Hapi
              ltac:(rewrite (Permutation_length Hperm); exact Hn)) as (Hv & Hk & Hsorted).
  split; [exact Hsorted|]. split.
  - intros k. rewrite Hk. split; intros H; eapply Permutation_in; try exact H; apply Permutation_map; [exact Hperm|apply Permutation_sym, Hperm].
  - apply Forall_forall. intros [k v] Hin. cbn [fst snd]. destruct (Hv k v Hin) as (first & rest & Hp & Hf).
    exists first, rest. split; [|exact Hf]. rewrite <- vals_concat. eapply Permutation_trans; [exact Hp|]. apply vals_perm, Hperm.
Qed.

Theorem merge_sources (srcs : list (list entry)) :
  Forall ssorted srcs -> (forall k a b, mf k a b <> None) ->
  exists it, merger_iter_make None (map (fun es => mksc es 0 true BAll false) srcs) false = Some it /\
    let out := mdrain mf (S (length (concat srcs))) it in
    StronglySorted (fun a b => bcmp (fst a) (fst b) = Lt) out /\
    (forall k, In k (map fst out) <-> In k (map fst (concat srcs))) /\
    Forall (fun e => merged_value_ok mf srcs (fst e) (snd e)) out.
Proof.
  intros Hs Htot. destruct (merge_sources_fuel srcs Hs Htot) as (it & Hmk & H). exists it. split; [exact Hmk|]. apply H, le_n.
Qed.
End Closed.
